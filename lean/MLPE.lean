import MLPE.Basic
import MLPE.Store
import MLPE.Eng
import MLPE.Retry
import MLPE.Sem
import MLPE.Proofs.Store
import MLPE.Props.C18

import MLPE.Store
import MLPE.Proofs.Store
import MLPE.Props.C18

import MLPE.DriverStore
import MLPE.DriverEng
import MLPE.DriverExplore
import MLPE.DriverBuilder
import MLPE.DriverViewer

open MLPE

/-- one line in, one line out; the line `reset` starts a fresh model state -/
partial def loopLines {σ : Type} (h : IO.FS.Stream) (out : IO.FS.Stream) (step : σ → String → σ × String)
    (init : σ) (s : σ) : IO Unit := do
  let line ← h.getLine
  if line.isEmpty then return ()
  let l := line.trimAscii.toString
  if l == "reset" then
    out.putStrLn "reset"
    loopLines h out step init init
  else
    let (s', o) := step s l
    out.putStrLn o
    loopLines h out step init s'

def main (args : List String) : IO UInt32 := do
  let stdin ← IO.getStdin
  let stdout ← IO.getStdout
  match args with
  | ["store"] => loopLines stdin stdout Store.dStep {} {} ; return 0
  | ["viewer"] => loopLines stdin stdout Viewer.viewerLine () () ; return 0
  | ["build"] => loopLines stdin stdout Builder.buildLine () () ; return 0
  | ["retry"] => loopLines stdin stdout Eng.retryLine () () ; return 0
  | ["sem"] => loopLines stdin stdout Eng.semLine () () ; return 0
  | ["eng"] => loopLines stdin stdout Eng.lsStep {} {} ; return 0
  | ["explore"] => loopLines stdin stdout Eng.exploreLine () () ; return 0
  | _ => IO.eprintln "usage: driver store|..." ; return 2

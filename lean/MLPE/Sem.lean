import MLPE.Basic
import MLPE.Retry

/-!
# `Sem` — the specification: a declared pipeline read as a pure dataflow program

A sequential, demand-driven, memoising reference evaluator of the built graph: no tasks, no
conditions, no schedules.  `Input` = value of the source; `SwitchCase` = value of the case whose label
the decider returned (only that case is demanded); `InputOneOf` = first candidate, in declared order,
whose evaluation succeeds (later ones are not demanded); `RecurrentSubGraph` = while the destination
asks for another iteration, forget the values on the start→dest paths and evaluate again with
`additional_data`, at most `max_iterations` times, then default / error; node application = the
retry / default policy (`Retry.run`).
-/
namespace MLPE.Sem
open MLPE

inductive Res
  | ok (v : Val)
  | fail (causes : List Exc)      -- every root cause the failure can be attributed to
  deriving DecidableEq, Repr, Inhabited

structure SemSt where
  memo       : Node → Option Res := fun _ => none
  inv        : Node → Nat := fun _ => 0
  additional : Node → Option Val := fun _ => none
  calls      : List (Node × Nat × Kwargs) := []      -- (node, invocation, kwargs) of every node application
  demanded   : List Node := []

def insertKw (kw : Kwargs) (k : String) (v : Val) : Kwargs :=
  let kw := kw.filter (·.1 != k)
  let (lo, hi) := kw.partition (·.1 < k)
  lo ++ [(k, v)] ++ hi

/-- apply node `n` to `kw`: the retry / default policy over the body's per-attempt outcomes -/
def applyNode (P : Program) (n : Node) (kw : Kwargs) (inv : Nat) : Res :=
  match (Retry.run (P.cfg n) (fun k => P.body n kw inv k)).2 with
  | some (.value v) => .ok v
  | some .default => (match P.dfltRaise n with | some e => .fail [e] | none => .ok (P.dflt n kw))
  | some (.failed e) => .fail [e]
  | none => .fail [⟨"Other:fuel", n, 0, 0⟩]

def joinFail : Res → Res → Res
  | .fail a, .fail b => .fail (a ++ b.filter (fun x => !a.contains x))
  | .fail a, _ => .fail a
  | _, .fail b => .fail b
  | .ok _, r => r

/-- evaluate the sources of `n` and apply it -/
def evalPlain (P : Program) (rec : Node → SemSt → Res × SemSt) (n : Node) (st : SemSt) : Res × SemSt :=
  if n == P.g.input then
    let kw := match st.additional n with
      | some v => if v == .none then P.inputKw else insertKw P.inputKw "additional_data" v
      | none => P.inputKw
    let inv := st.inv n
    (applyNode P n kw inv, { st with inv := upd st.inv n (inv + 1), calls := st.calls ++ [(n, inv, kw)] })
  else
    let ins := P.g.edges.filter (fun e => e.v == n)
    let (kw, bad, st) := ins.foldl (fun (acc : Kwargs × Res × SemSt) e =>
      let (kw, bad, st) := acc
      let (r, st) := rec e.u st
      match r with
      | .ok v => ((match e.kwarg with | some k => insertKw kw k v | none => kw), bad, st)
      | .fail c => (kw, joinFail bad (.fail c), st)) ([], .ok .none, st)
    match bad with
    | .fail c => (.fail c, st)
    | .ok _ =>
      let kw := match st.additional n with
        | some v => if v == .none then kw else insertKw kw "additional_data" v
        | none => kw
      let inv := st.inv n
      (applyNode P n kw inv, { st with inv := upd st.inv n (inv + 1), calls := st.calls ++ [(n, inv, kw)] })

/-- iterations of a recurrent subgraph: `r` is the destination's latest result -/
def recLoop (P : Program) (rec : Node → SemSt → Res × SemSt) (n start : Node) (sub : List Node) :
    Nat → Res → SemSt → Res × SemSt
  | 0, r, st => (r, st)
  | left + 1, r, st =>
    match r with
    | .ok (.recur data) =>
      let st := { st with memo := fun x => if sub.contains x then none else st.memo x,
                          additional := upd st.additional start (some data) }
      let (r', st) := evalPlain P rec n st
      recLoop P rec n start sub left r' st
    | _ => (r, st)

def eval (P : Program) : Nat → Node → SemSt → Res × SemSt
  | 0, n, st => (.fail [⟨"Other:fuel", n, 0, 0⟩], st)
  | fuel + 1, n, st =>
    match st.memo n with
    | some r => (r, st)
    | none =>
      let st := { st with demanded := if st.demanded.contains n then st.demanded else st.demanded ++ [n] }
      let g := P.g
      let (r, st) :=
        if g.isSwitch n then
          let ins : List Edge := g.edges.filter (fun e => e.v == n)
          match (ins.filter (fun e => e.isSwitch)).getLast? with
          | none => (Res.fail [⟨"SwitchNoCase", n, 0, 0⟩], st)
          | some de =>
            let (rl, st) := eval P fuel de.u st
            match rl with
            | .fail c => (.fail c, st)
            | .ok lab =>
              let cases : List (Label × Node) := ins.filterMap fun (e : Edge) => if e.isSwitch then none else e.case.map (·, e.u)
              let sel := match lab with
                | .str l => (cases.filter (fun (x : Label × Node) => x.1 == l)).getLast?
                | _ => none
              match sel with
              | none => (.fail [⟨"SwitchNoCase", n, 0, 0⟩], st)
              | some (_, c) => eval P fuel c st
        else if g.isOneofHead n then
          (g.attr n).oneofNodes.foldl (fun (acc : Res × SemSt) c =>
            match acc.1 with
            | .ok _ => acc
            | .fail _ => eval P fuel c acc.2) (.fail [⟨"OneOfNoResult", n, 0, 0⟩], st)
          |> fun (r, st) => match r with
            | .ok v => (.ok v, st)
            | .fail _ => (.fail [⟨"OneOfNoResult", n, 0, 0⟩], st)
        else
          match (g.attr n).startNode with
          | none => evalPlain P (eval P fuel) n st
          | some start =>
            let sub := (g.between .full start n).getD []
            let maxIter := (g.attr n).maxIter.getD 0
            let (r0, st) := evalPlain P (eval P fuel) n st
            let (r, st) := recLoop P (eval P fuel) n start sub maxIter r0 st
            match r with
            | .ok (.recur _) =>
              if (P.cfg n).useDefault then
                -- default of the destination, on the arguments of its last invocation
                let kw : Kwargs := ((st.calls.filter (fun (x : Node × Nat × Kwargs) => x.1 == n)).getLast?.map (fun x => x.2.2)).getD []
                ((match P.dfltRaise n with | some e => .fail [e] | none => .ok (P.dflt n kw)), st)
              else (.fail [⟨"RecNoResult", n, 0, 0⟩], st)
            | r => (r, st)
      (r, { st with memo := upd st.memo n (some r) })

/-- the declared outcome of a run -/
def run (P : Program) : Res × SemSt :=
  if !P.poolsOk then (.fail [⟨"Other:RuntimeError", 0, 0, 0⟩], {})
  else eval P (2 * P.g.nodes.length + 2) P.g.output {}

end MLPE.Sem

import MLPE.Eng
import MLPE.Retry

/-!
# The dataflow reading of a plain pipeline (executable definitions)

Specification side of C01 / C03 / C05 for pipelines of `Input` dependencies; the theorems are in
`Proofs/Plain.lean`, `Proofs/PlainSol.lean`.  The driver evaluates `plainCheck`, `feedsOutputB` and `solutionB` on
every generated plain program (non-vacuity of the hypotheses; the reference evaluator `Sem` is a solution).
-/
namespace MLPE.Eng
open MLPE

/-- the keyword arguments of `n` when every source `u` has the value `val u` -/
def kwFrom (P : Program) (val : Node → Option Val) (n : Node) : Kwargs :=
  if n == P.g.input then P.inputKw
  else (P.g.edges.filter (fun e => e.v == n)).foldl
    (fun kw e => match e.kwarg with
      | some k => insertKw kw k ((val e.u).getD .none)
      | none => kw) []

/-- the retry / default policy applied to the body of `n` on the arguments `kw` (first invocation) -/
def finalOf (P : Program) (n : Node) (kw : Kwargs) : Option Retry.Final :=
  (Retry.run (P.cfg n) (fun k => P.body n kw 0 k)).2

def valueOf (P : Program) (n : Node) (kw : Kwargs) : Option Val :=
  match finalOf P n kw with
  | some (.value v) => some v
  | some .default => some (P.dflt n kw)
  | _ => none

/-- the decidable part of `PlainP`: evaluated by the driver on the generated programs, and by `decide` below -/
def plainCheck (P : Program) (d : DagRef) : Bool :=
  decide (reducedRef P init P.g.input P.g.output false false false = some d) &&
  decide (d.dest = some P.g.output) && !d.isRec && !d.isOneof &&
  d.nodes.all (fun n => (P.g.preds n).all (fun p => decide (p ∈ d.nodes))) &&
  decide (P.g.output ∈ d.nodes) && decide d.nodes.Nodup && !P.g.nodes.isEmpty &&
  P.g.edges.all (fun e => e.case.isNone && !((P.g.attr e.v).oneofNodes.contains e.u)) && P.poolsOk

def predsOk (P : Program) (val : Node → Option Val) (n : Node) : Bool := (P.g.preds n).all (fun p => (val p).isSome)

/-- evaluate the nodes in the given (topological) order -/
def solveList (P : Program) : List Node → (Node → Option Val) → (Node → Option Val)
  | [], val => val
  | n :: rest, val =>
    solveList P rest (fun m => if m = n then (if predsOk P val n then valueOf P n (kwFrom P val n) else none) else val m)


/-- Boolean form of `FeedsOutput` -/
def feedsOutputB (P : Program) (d : DagRef) : Bool :=
  d.nodes.all fun n => n == P.g.output || d.nodes.any fun m => (P.g.preds m).contains n

/-- Boolean form of `Solution` -/
def solutionB (P : Program) (d : DagRef) (val : Node → Option Val) : Bool :=
  d.nodes.all fun n =>
    val n == (if (P.g.preds n).all (fun p => (val p).isSome) then valueOf P n (kwFrom P val n) else none)

/-- no switch / one-of attribute on any listed node -/
def plainAttrsB (P : Program) : Bool :=
  P.g.nodes.all fun n => !P.g.isSwitch n && !P.g.isOneofHead n && ((P.g.attr n).startNode.isNone)

/-- the label the decision node(s) of switch `S` return, in the valuation `val` -/
def switchLabelV (P : Program) (val : Node → Option Val) (S : Node) : Option Val :=
  ((P.g.edges.filter (fun e => e.v == S)).filter (·.isSwitch)).foldl (fun _ e => val e.u) (some .none)

/-- the case node the switch selects -/
def swSel (P : Program) (val : Node → Option Val) (S : Node) : Option Node :=
  match switchLabelV P val S with
  | some (.str l) => (((switchCases P S).filter (·.1 == l)).getLast?).map (·.2)
  | _ => none

/-- Boolean form of `SolutionSw` on the nodes of the graph -/
def solutionSwB (P : Program) (val : Node → Option Val) : Bool :=
  P.g.nodes.all fun n =>
    if P.g.isSwitch n then val n == (swSel P val n).bind val
    else val n == (if (P.g.preds n).all (fun p => (val p).isSome) then valueOf P n (kwFrom P val n) else none)

/-- Boolean form of `SolutionOne` on the nodes of the graph -/
def solutionOneB (P : Program) (val : Node → Option Val) : Bool :=
  (P.g.nodes.all fun n =>
    if P.g.isSwitch n then val n == (swSel P val n).bind val
    else if P.g.isOneofHead n then val n == (P.g.attr n).oneofNodes.findSome? val
    else val n == (if (P.g.preds n).all (fun p => (val p).isSome) then valueOf P n (kwFrom P val n) else none)) &&
  (!(P.g.nodes.any P.g.isOneofHead) || (val P.g.input).isSome)

/-- Boolean form of the structural part of `OneP` (switches and one-ofs, no recurrent destination) -/
def onePB (P : Program) : Bool :=
  P.g.edges.all (fun e => !e.isSwitch || !P.g.isSwitch e.u) &&
  P.g.edges.all (fun e => !P.g.isSwitch e.v || e.isSwitch || e.case.isSome) &&
  P.g.edges.all (fun e0 => decide (((P.g.edges.filter (fun e => e.v == e0.v)).filter (·.isSwitch)).length ≤ 1)) &&
  (P.g.input != P.g.output) &&
  (P.g.nodes.contains P.g.input && !(P.g.attr P.g.input).isOneofChild) &&
  (P.g.nodes.contains P.g.output && !(P.g.attr P.g.output).isOneofChild) &&
  P.g.nodes.all (fun h => !P.g.isOneofHead h || !P.g.isSwitch h) &&
  P.g.edges.all (fun e => !P.g.isOneofHead e.v || (P.g.attr e.v).oneofNodes.contains e.u || e.u == P.g.input) &&
  P.g.edges.all (fun e => e.v != P.g.input) &&
  P.g.edges.all (fun e => P.g.isSwitch e.v || P.g.isOneofHead e.v || e.kwarg.isSome || e.u == P.g.input) &&
  P.g.nodes.all (fun h => !P.g.isOneofHead h || (P.g.attr h).oneofNodes.all (fun c =>
    P.g.nodes.contains c && c != P.g.input && (P.g.reachSet (filteredView P init) P.g.input).contains c)) &&
  P.g.nodes.all (fun n => (P.g.attr n).startNode.isNone)

/-- Boolean form of the structural part of `SwP`: `OneP` without one-ofs -/
def swPB (P : Program) : Bool := onePB P && P.g.nodes.all (fun n => !P.g.isOneofHead n)

/-- one round of the dataflow equations (with switches) over the nodes of the graph -/
def eqRound (P : Program) (val : Node → Option Val) : List (Node × Option Val) :=
  P.g.nodes.map fun n =>
    (n, if P.g.isSwitch n then (swSel P val n).bind val
        else if P.g.isOneofHead n then (P.g.attr n).oneofNodes.findSome? val
        else if (P.g.preds n).all (fun p => (val p).isSome) then valueOf P n (kwFrom P val n) else none)

def lookupVal (tbl : List (Node × Option Val)) (n : Node) : Option Val :=
  match tbl.find? (·.1 == n) with
  | some (_, v) => v
  | none => none

/-- the eager solution of an acyclic pipeline: iterate the equations once per node -/
def eagerVal (P : Program) : Node → Option Val :=
  lookupVal ((List.range (P.g.nodes.length + 1)).foldl (fun tbl _ => eqRound P (lookupVal tbl)) [])

end MLPE.Eng

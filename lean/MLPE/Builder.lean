/-
  Model of `ml_pipeline_engine/dag_builders/annotation/builder.py` (`AnnotationDAGBuilder`) and of the
  checks in `node/node.py` it relies on.

  Declarations are data: one `Decl` per node class (or thing that was put where a node class belongs),
  with its marks in declared parameter order and the facts the validators look at.
  `build` follows the code: a LIFO worklist from the output node, per-mark graph construction in
  parameter order, node map, synthetic ids, then the two recurrent post-validations.
  The graph is kept as insertion-ordered association lists with networkx's merge semantics
  (`add_node` / `add_edge` on an existing key update its attributes).
  No Mathlib imports (linked into the native driver).
-/
namespace MLPE.Builder

abbrev Cls := Nat            -- index of a declaration

inductive Mark
  | input (src : Cls)
  | switch (decider : Cls) (cases : List (String × Cls)) (name : String)
  | oneOf (cands : List Cls)
  | recurrent (start dest : Cls) (maxIter : Nat)
  | generic (src : Cls)                      -- InputGeneric(...) that was never rebound
  deriving DecidableEq, Repr, Inhabited

/-- what the builder can observe about one declared node -/
structure Decl where
  ident        : String                       -- `get_node_id(node)`
  marks        : List (String × Mark)         -- annotated parameters that carry a mark, in declared order
  isClass      : Bool := true                 -- `inspect.isclass(node)`
  hasBase      : Bool := true                 -- `NodeBase in inspect.getmro(node)`
  hasProcess   : Bool := true                 -- `callable(getattr(node, 'process', None))`
  noAnnotations : Bool := false               -- process has parameters but no annotations at all
  unannotated  : Option String := none        -- a parameter without annotation (and without default)
  isRecurrent  : Bool := false                -- `RecurrentProtocol in inspect.getmro(node)`
  hasAdditional : Bool := false               -- `'additional_data' in process.__annotations__`
  isCoroutine  : Bool := true
  processTag   : Bool := false                -- `NodeTag.process in node.tags`
  deriving Repr, Inhabited

inductive BuildErr
  | incorrectTypeClass | incorrectBaseClass | runMethodExpected | undefinedAnnotation | undefinedParamAnnotation
  | nonRedefinedGeneric | incorrectRecurrentMixin | incorrectParamsRecurrentNode
  deriving DecidableEq, Repr, Inhabited

def BuildErr.name : BuildErr → String
  | .incorrectTypeClass => "IncorrectTypeClass"
  | .incorrectBaseClass => "IncorrectBaseClass"
  | .runMethodExpected => "RunMethodExpectedError"
  | .undefinedAnnotation => "UndefinedAnnotation"
  | .undefinedParamAnnotation => "UndefinedParamAnnotation"
  | .nonRedefinedGeneric => "NonRedefinedGenericTypeError"
  | .incorrectRecurrentMixin => "IncorrectRecurrentMixinClass"
  | .incorrectParamsRecurrentNode => "IncorrectParamsRecurrentNode"

structure NodeAttrs where
  isSwitch     : Bool := false
  isOneofHead  : Bool := false
  oneofNodes   : List String := []
  isOneofChild : Bool := false
  startNode    : Option String := none
  maxIter      : Option Nat := none
  deriving DecidableEq, Repr, Inhabited

structure EdgeAttrs where
  kwarg    : Option String := none
  isSwitch : Bool := false
  case     : Option String := none
  deriving DecidableEq, Repr, Inhabited

/-- networkx `add_node(id, **attrs)`: attributes given are set, the others are kept -/
def NodeAttrs.merge (old new : NodeAttrs) : NodeAttrs :=
  { isSwitch := old.isSwitch || new.isSwitch,
    isOneofHead := old.isOneofHead || new.isOneofHead,
    oneofNodes := if new.isOneofHead then new.oneofNodes else old.oneofNodes,
    isOneofChild := old.isOneofChild || new.isOneofChild,
    startNode := if new.startNode.isSome then new.startNode else old.startNode,
    maxIter := if new.maxIter.isSome then new.maxIter else old.maxIter }

def EdgeAttrs.merge (old new : EdgeAttrs) : EdgeAttrs :=
  { kwarg := if new.kwarg.isSome then new.kwarg else old.kwarg,
    isSwitch := old.isSwitch || new.isSwitch,
    case := if new.case.isSome then new.case else old.case }

structure G where
  nodes   : List (String × NodeAttrs) := []
  edges   : List ((String × String) × EdgeAttrs) := []
  nodeMap : List (String × Cls) := []
  recs    : List (String × String) := []         -- _recurrent_sub_graphs (start id, dest id)
  synth   : List String := []                    -- _synthetic_nodes
  deriving Repr, Inhabited

def G.addNode (g : G) (id : String) (a : NodeAttrs := {}) : G :=
  if g.nodes.any (·.1 == id) then
    { g with nodes := g.nodes.map fun (k, v) => if k == id then (k, v.merge a) else (k, v) }
  else { g with nodes := g.nodes ++ [(id, a)] }

def G.addEdge (g : G) (u v : String) (a : EdgeAttrs := {}) : G :=
  let g := (g.addNode u).addNode v
  if g.edges.any (·.1 == (u, v)) then
    { g with edges := g.edges.map fun (k, x) => if k == (u, v) then (k, x.merge a) else (k, x) }
  else { g with edges := g.edges ++ [((u, v), a)] }

def G.mapNode (g : G) (id : String) (c : Cls) : G :=
  if g.nodeMap.any (·.1 == id) then
    { g with nodeMap := g.nodeMap.map fun (k, v) => if k == id then (k, c) else (k, v) }
  else { g with nodeMap := g.nodeMap ++ [(id, c)] }

structure Decls where
  ds     : List Decl
  input  : Cls
  output : Cls

def Decls.get (D : Decls) (c : Cls) : Decl := D.ds.getD c default
def Decls.id (D : Decls) (c : Cls) : String := (D.get c).ident

/-- `validate_node`: `_check_base_class` then `_check_annotations` -/
def validateNode (d : Decl) : Option BuildErr :=
  if !d.isClass then some .incorrectTypeClass
  else if !d.hasBase then some .incorrectBaseClass
  else if !d.hasProcess then some .runMethodExpected
  else if d.noAnnotations then some .undefinedAnnotation
  else if d.unannotated.isSome then some .undefinedParamAnnotation
  else none

/-- `_get_input_marks_map`: an un-rebound generic input is an error -/
def marksOf (d : Decl) : Except BuildErr (List (String × Mark)) :=
  if d.marks.any (fun (_, m) => match m with | .generic _ => true | _ => false) then .error .nonRedefinedGeneric
  else .ok d.marks

/-- nodes a mark mentions, in the order the builder visits (`_set_visited`) them -/
def markTargets : Mark → List Cls
  | .input s => [s]
  | .switch dec cases _ => dec :: cases.map (·.2)
  | .oneOf cs => cs
  | .recurrent _ dest _ => [dest]         -- only the destination is visited; the start node is just named
  | .generic s => [s]

def G.addRec (g : G) (p : String × String) : G := { g with recs := g.recs ++ [p] }
def G.addSynth (g : G) (id : String) : G := { g with synth := g.synth ++ [id] }

/-- one case of a switch: node map entry, edge case → switch node labelled with the case (builder.py 236–241) -/
def addCase (D : Decls) (sw : String) (g : G) (lc : String × Cls) : G :=
  (g.mapNode (D.id lc.2) lc.2).addEdge (D.id lc.2) sw { case := some lc.1 }

/-- one candidate of a one-of: node map entry, `is_oneof_child`, edge candidate → synthetic node (builder.py 204–210) -/
def addCand (D : Decls) (syn : String) (g : G) (c : Cls) : G :=
  ((g.mapNode (D.id c) c).addNode (D.id c) { isOneofChild := true }).addEdge (D.id c) syn {}

/-- graph construction for the `idx`-th mark `(kw, m)` of the node `cur` (builder.py 166–246) -/
def applyMark (D : Decls) (g : G) (cur : Cls) (idx : Nat) (kw : String) (m : Mark) : G :=
  let cid := D.id cur
  match m with
  | .recurrent start dest maxIter =>
    ((((g.mapNode (D.id dest) dest).addNode (D.id dest) { startNode := some (D.id start), maxIter := some maxIter }).addEdge
      (D.id dest) cid { kwarg := some kw })).addRec (D.id start, D.id dest)
  | .oneOf cands =>
    let syn := s!"input_one_of__{idx}___{cid}"
    (((cands.foldl (addCand D syn)
        ((g.addNode syn { isOneofHead := true, oneofNodes := cands.map D.id }).addEdge (D.id D.input) syn {})).addSynth syn).addEdge
      syn cid { kwarg := some kw })
  | .input src => (g.mapNode (D.id src) src).addEdge (D.id src) cid { kwarg := some kw }
  | .switch dec cases name =>
    let sw := s!"switch__{name}"
    (((cases.foldl (addCase D sw)
        (((g.mapNode (D.id dec) dec).addNode sw { isSwitch := true }).addEdge (D.id dec) sw { isSwitch := true })).addEdge
      sw cid { kwarg := some kw })).addSynth sw
  | .generic _ => g

/-- `_set_visited` for a list of nodes, in order -/
def pushNew (visited stack : List Cls) (cs : List Cls) : List Cls × List Cls :=
  cs.foldl (fun (acc : List Cls × List Cls) c =>
    if acc.1.contains c then acc else (acc.1 ++ [c], acc.2 ++ [c])) (visited, stack)

/-- the nodes `_set_visited` is called with while `c` is processed, in order: the input node if `c` declares no
marks (implicit link), then the targets of its marks in parameter order -/
def succs (D : Decls) (c : Cls) : List Cls :=
  let d := D.get c
  (if d.marks.isEmpty && c != D.input then [D.input] else []) ++ d.marks.flatMap (fun km => markTargets km.2)

/-- the graph part of one iteration: node map entry, implicit input link, then every mark in parameter order -/
def graphOf (D : Decls) (g : G) (cur : Cls) : G :=
  let d := D.get cur
  let g := g.mapNode d.ident cur
  let g := if d.marks.isEmpty && cur != D.input then g.addEdge (D.id D.input) d.ident {} else g
  (d.marks.foldl (fun (acc : G × Nat) (km : String × Mark) =>
    (applyMark D acc.1 cur acc.2 km.1 km.2, acc.2 + 1)) (g, 0)).1

/-- one iteration of the `while stack:` loop for the popped node `cur` (`stack` is what is left after the pop) -/
def visitOne (D : Decls) (g : G) (visited : List Cls) (cur : Cls) (stack : List Cls) :
    Except BuildErr (G × List Cls × List Cls) :=
  let d := D.get cur
  match validateNode d with
  | some e => .error e
  | none =>
    match marksOf d with
    | .error e => .error e
    | .ok _ =>
      let vs := pushNew visited stack (succs D cur)
      .ok (graphOf D g cur, vs.1, vs.2)

/-- `_traverse_breadth_first_to_dag` (fuel = number of declarations + 1: every declaration is pushed at most once) -/
def traverse (D : Decls) : Nat → G → List Cls → List Cls → Except BuildErr (G × List Cls)
  | 0, g, visited, _ => .ok (g, visited)
  | fuel + 1, g, visited, stack =>
    match stack.getLast? with
    | none => .ok (g, visited)
    | some cur =>
      match visitOne D g visited cur stack.dropLast with
      | .error e => .error e
      | .ok (g, visited, stack) => traverse D fuel g visited stack

/-- `self._node_map[id]` -/
def clsOf (g : G) (id : String) : Option Cls := (g.nodeMap.find? (·.1 == id)).map (·.2)

/-- `_validate_recurrent_node_base_classes`: the destination of the pair lacks `RecurrentProtocol` -/
def badDest (D : Decls) (g : G) (p : String × String) : Bool :=
  match clsOf g p.2 with
  | some c => !(D.get c).isRecurrent
  | none => true

/-- `_validate_recurrent_nodes_params`: the start node of the pair has no `additional_data` parameter -/
def badStart (D : Decls) (g : G) (p : String × String) : Bool :=
  if g.synth.contains p.1 || g.synth.contains p.2 then false
  else match clsOf g p.1 with
    | some c => !(D.get c).hasAdditional
    | none => true

/-- `_validate_graph` -/
def postValidate (D : Decls) (g : G) : Option BuildErr :=
  if g.recs.any (badDest D g) then some .incorrectRecurrentMixin
  else if g.recs.any (badStart D g) then some .incorrectParamsRecurrentNode
  else none

structure Built where
  g : G
  input : String
  output : String
  processPool : Bool
  threadPool : Bool
  deriving Repr

/-- `AnnotationDAGBuilder.build(input_node, output_node)` -/
def build (D : Decls) : Except BuildErr Built :=
  let g0 : G := ({} : G).mapNode (D.id D.input) D.input
  match traverse D (D.ds.length + 1) g0 [D.output] [D.output] with
  | .error e => .error e
  | .ok (g, _) =>
    match postValidate D g with
    | some e => .error e
    | none =>
      let classes := g.nodeMap.map (·.2)
      let sync := classes.filter fun c => !(D.get c).isCoroutine
      .ok { g := g, input := D.id D.input, output := D.id D.output,
            processPool := sync.any fun c => (D.get c).processTag,
            threadPool := sync.any fun c => !(D.get c).processTag }

end MLPE.Builder

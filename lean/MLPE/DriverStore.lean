import Lean.Data.Json
import MLPE.Store

/-! Line-protocol front end for the store model (differential check of C18). -/
namespace MLPE.Store
open Lean

/-- values cross as opaque tokens with the two facts the model needs about them -/
structure DVal where
  tok      : String
  pickleOk : Bool
  jsonOk   : Bool
  deriving Repr

def dCodec : Codec DVal (Fmt × String) where
  enc := fun f v => match f with
    | .pickle => if v.pickleOk then some (f, v.tok) else none
    | .json   => if v.jsonOk then some (f, v.tok) else none
  dec := fun f b => if b.1 = f then some ⟨b.2, true, true⟩ else none

def getStr (j : Json) (k : String) : Except String String := j.getObjValAs? String k
def getBool (j : Json) (k : String) : Except String Bool := j.getObjValAs? Bool k

def parseKey (j : Json) : Except String Key := do
  return ⟨⟨← getStr j "model", ← getStr j "pipeline"⟩, ← getStr j "node"⟩

def parseOp (j : Json) : Except String (Op DVal) := do
  let op ← getStr j "op"
  let k ← parseKey j
  if op == "load" then return .load k
  else if op == "save" then
    let fmt ← getStr j "fmt"
    let f ← if fmt == "pickle" then pure Fmt.pickle else if fmt == "json" then pure Fmt.json
             else throw s!"bad fmt {fmt}"
    return .save k ⟨← getStr j "val", ← getBool j "pickle_ok", ← getBool j "json_ok"⟩ f
  else throw s!"bad op {op}"

def resStr : Res DVal → String
  | .ok => "ok"
  | .value v => "value " ++ v.tok
  | .alreadyExists => "already-exists"
  | .doesNotExist => "does-not-exist"
  | .dumpFailed => "dump-failed"
  | .corrupt => "corrupt"

structure DState where
  fs    : FS (Fmt × String) := FS.empty
  files : List String := []        -- written paths, for the listing comparison

def dStep (s : DState) (line : String) : DState × String :=
  match Json.parse line >>= parseOp with
  | .error e => (s, "bad-op " ++ e)
  | .ok op =>
    let (fs', r) := step dCodec s.fs op
    let files' := match op, r with
      | .save k _ f, .ok => (s!"{k.ctx.model}/{k.ctx.pipeline}/{k.node}{f.ext}") :: s.files
      | _, _ => s.files
    let listing := String.intercalate "|" (files'.toArray.qsort (· < ·)).toList
    ({ fs := fs', files := files' }, resStr r ++ " ## " ++ listing)

end MLPE.Store

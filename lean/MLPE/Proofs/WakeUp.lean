import MLPE.Proofs.EngBasic

/-!
# Wake-up completeness of the notifications the engine sends (all programs, all states)

`notify s k` leaves no task blocked on `cond[k]`; later notifications never block anybody again.  Hence after the
`finally` of `_run_node` for node `u` nobody is blocked on the condition of a consumer of `u` — a direct successor, or a
successor of a switch node `u` is a case of (`__get_descendants` passes through switch nodes) —, nor on `cond['run']`,
nor on the event of `u`.
-/
namespace MLPE.Eng
open MLPE

/-- no task is blocked on `w` -/
def NoneBlocked (s : St) (w : Wait) : Prop := ∀ tk ∈ s.tasks, tk.st ≠ .blocked w

theorem wakeIf_not_blocked (p : Wait → Bool) (tk : Task) (w : Wait) (h : tk.st ≠ .blocked w) :
    (wakeIf p tk).st ≠ .blocked w := by
  unfold wakeIf
  split
  · split
    · intro h'; cases h'
    · exact h
  · exact h

theorem wakeIf_wakes (p : Wait → Bool) (tk : Task) (w : Wait) (hp : p w = true) : (wakeIf p tk).st ≠ .blocked w := by
  unfold wakeIf
  split
  · next w' hw' =>
    split
    · intro h'; cases h'
    · next hnp => intro h'; rw [hw'] at h'; cases h'; exact hnp hp
  · next hnb => intro h'; exact hnb w h'

theorem noneBlocked_map_wake {s s' : St} (p : Wait → Bool) (ht : s'.tasks = s.tasks.map (wakeIf p)) {w : Wait}
    (h : NoneBlocked s w) : NoneBlocked s' w := by
  intro tk htk
  rw [ht, List.mem_map] at htk
  obtain ⟨tk0, h0, rfl⟩ := htk
  exact wakeIf_not_blocked p tk0 w (h tk0 h0)

theorem notify_noneBlocked (s : St) (k : Key) : NoneBlocked (notify s k) (.cond k) := by
  intro tk htk
  simp only [notify, List.mem_map] at htk
  obtain ⟨tk0, _, rfl⟩ := htk
  exact wakeIf_wakes _ tk0 _ (by simp)

theorem notify_keeps {s : St} (k : Key) {w : Wait} (h : NoneBlocked s w) : NoneBlocked (notify s k) w :=
  noneBlocked_map_wake _ rfl h

theorem notifyAll_keeps (ks : List Key) : ∀ {s : St} {w : Wait}, NoneBlocked s w → NoneBlocked (notifyAll s ks) w := by
  induction ks with
  | nil => intro s w h; exact h
  | cons k ks ih => intro s w h; simp only [Eng.notifyAll, List.foldl_cons]; exact ih (notify_keeps k h)

theorem notifyAll_noneBlocked (ks : List Key) : ∀ (s : St) (k : Key), k ∈ ks → NoneBlocked (notifyAll s ks) (.cond k) := by
  induction ks with
  | nil => intro s k h; cases h
  | cons k0 ks ih =>
    intro s k h
    simp only [Eng.notifyAll, List.foldl_cons]
    rcases List.mem_cons.mp h with rfl | h1
    · have := notifyAll_keeps ks (notify_noneBlocked s k)
      simpa [Eng.notifyAll] using this
    · have := ih (notify s k0) k h1
      simpa [Eng.notifyAll] using this

theorem setEvent_noneBlocked (s : St) (n : Node) : NoneBlocked (setEvent s n) (.event n) := by
  intro tk htk
  simp only [setEvent, List.mem_map] at htk
  obtain ⟨tk0, _, rfl⟩ := htk
  exact wakeIf_wakes _ tk0 _ (by simp)

theorem setEvent_keeps {s : St} (n : Node) {w : Wait} (h : NoneBlocked s w) : NoneBlocked (setEvent s n) w :=
  noneBlocked_map_wake _ rfl h

/-- **the `finally` of `_run_node` wakes everybody it should**: the event waiters of the node, `run()`, every task
waiting on the condition of a node in `__get_descendants(u)`, and the tasks waiting on `u` itself (whichever DAG ran
it) -/
theorem nodeFinally_wakes (P : Program) (s : St) (d : DagRef) (u : Node) :
    NoneBlocked (nodeFinally P s d u true) (.event u) ∧ NoneBlocked (nodeFinally P s d u true) (.cond .run) ∧
    (∀ m ∈ P.g.desc1 u, NoneBlocked (nodeFinally P s d u true) (.cond (.node m))) ∧
    NoneBlocked (nodeFinally P s d u true) (.cond (.node u)) := by
  unfold nodeFinally
  simp only [Bool.not_true, Bool.false_eq_true, if_false]
  have h1 := setEvent_noneBlocked s u
  have h2 : ∀ m ∈ P.g.desc1 u, NoneBlocked (notifyAll (setEvent s u) ((P.g.desc1 u).map Key.node)) (.cond (.node m)) :=
    fun m hm => notifyAll_noneBlocked _ _ _ (List.mem_map.mpr ⟨m, hm, rfl⟩)
  refine ⟨notify_keeps _ (notify_keeps _ (notifyAll_keeps _ h1)), notify_keeps _ (notify_noneBlocked _ _), ?_,
    notify_noneBlocked _ _⟩
  intro m hm; exact notify_keeps _ (notify_keeps _ (h2 m hm))

/-! ### who is in `__get_descendants` -/

theorem mem_desc1Fuel_succ (g : Graph) (f : Nat) (u m : Node) (h : m ∈ g.succs u) : m ∈ g.desc1Fuel (f + 1) u := by
  simp only [Graph.desc1Fuel, List.mem_append]
  exact Or.inl h

/-- a direct successor is a descendant -/
theorem mem_desc1_of_edge (g : Graph) (e : Edge) (he : e ∈ g.edges) (hn : g.nodes ≠ []) : e.v ∈ g.desc1 e.u := by
  unfold Graph.desc1
  cases hl : g.nodes.length with
  | zero => exact absurd (List.length_eq_zero_iff.mp hl) hn
  | succ f =>
    apply mem_desc1Fuel_succ
    simp only [Graph.succs, List.mem_map, List.mem_filter, beq_iff_eq]
    exact ⟨e, ⟨he, rfl⟩, rfl⟩

/-- a successor of a switch node that `u` feeds (as decision node or as case) is a descendant of `u`: the notification
passes through switch nodes -/
theorem mem_desc1_through_switch (g : Graph) (e1 e2 : Edge) (h1 : e1 ∈ g.edges) (h2 : e2 ∈ g.edges) (hv : e1.v = e2.u)
    (hS : g.isSwitch e1.v = true) (hn : 2 ≤ g.nodes.length) : e2.v ∈ g.desc1 e1.u := by
  unfold Graph.desc1
  obtain ⟨f, hf⟩ : ∃ f, g.nodes.length = f + 2 := ⟨g.nodes.length - 2, by omega⟩
  rw [hf]
  have hunf : g.desc1Fuel (f + 2) e1.u =
      g.succs e1.u ++ ((g.succs e1.u).filter g.isSwitch).flatMap (g.desc1Fuel (f + 1)) := rfl
  rw [hunf]
  simp only [List.mem_append, List.mem_flatMap, List.mem_filter]
  right
  refine ⟨e1.v, ⟨?_, hS⟩, ?_⟩
  · simp only [Graph.succs, List.mem_map, List.mem_filter, beq_iff_eq]
    exact ⟨e1, ⟨h1, rfl⟩, rfl⟩
  · apply mem_desc1Fuel_succ
    simp only [Graph.succs, List.mem_map, List.mem_filter, beq_iff_eq]
    exact ⟨e2, ⟨h2, hv.symm⟩, rfl⟩

/-! ### the closing primitives change only the stepping task's entry -/

theorem endTask_others (c : Ctx) (s : St) (obs : List Obs) (r : TaskRes) (i : Nat) (hi : i ≠ c.t) :
    (endTask c s obs r).1.tasks[i]? = s.tasks[i]? := by
  unfold endTask
  split
  · rfl
  · simp only [St.setTask]; exact List.getElem?_set_ne (Ne.symm hi)

theorem retTo_others (c : Ctx) (s : St) (obs : List Obs) (below : List Frame) (v : Val) (i : Nat) (hi : i ≠ c.t) :
    (retTo c s obs below v).1.tasks[i]? = s.tasks[i]? := by
  unfold retTo
  split
  · exact endTask_others c s obs .ok i hi
  · split
    · rfl
    · simp only [St.setTask]; exact List.getElem?_set_ne (Ne.symm hi)

/-- every other task keeps the state the notifications left it in -/
theorem others_not_blocked {s s' : St} {t : Nat} (hsame : ∀ i, i ≠ t → s'.tasks[i]? = s.tasks[i]?) {w : Wait}
    (h : NoneBlocked s w) (i : Nat) (hi : i ≠ t) (tk : Task) (htk : s'.tasks[i]? = some tk) : tk.st ≠ .blocked w := by
  rw [hsame i hi] at htk
  exact h tk (List.mem_of_getElem? htk)

end MLPE.Eng

import MLPE.Proofs.Ledger
import MLPE.Proofs.KwArgs

/-!
# Budget: every body call is within the attempts budget; `get_default` only for nodes that opt in

All programs, all schedules.  A safety pass over the handlers of `Eng`, in the style of `Ledger.lean` but without
counting: every frame of every suspended task is `FOK` (an attempt number carried by a frame is within the budget — strictly,
when a further attempt is due —, a forced default belongs to a node with `use_default`), and every observation is `OOK`
(`body n inv k kw` has `1 ≤ k ≤ attempts`, `dflt n kw` is emitted only for a node with `use_default = True`).
-/
namespace MLPE.Eng
open MLPE

/-- the keyword arguments of node `n` are what `_get_node_kwargs` builds: the caller's kwargs for the input node, one entry
per declared parameter otherwise (`Proofs/KwArgs.lean`) -/
def KwGood (P : Program) (n : Node) (kw : Kwargs) : Prop :=
  ((n == P.g.input) = true → KwIn P kw) ∧ ((n == P.g.input) = false → KwOK P n kw)

def FOK (P : Program) : Frame → Prop
  | .node _ n force pc =>
      (force = true → (P.cfg n).useDefault = true) ∧
      (match pc with
       | .body k kw _ => (1 ≤ k ∧ k ≤ (P.cfg n).attemptsEff) ∧ KwGood P n kw
       | .sleep k kw _ => (1 ≤ k ∧ k < (P.cfg n).attemptsEff) ∧ KwGood P n kw
       | .cbRetry _ k kw _ => (1 ≤ k ∧ k < (P.cfg n).attemptsEff) ∧ KwGood P n kw
       | _ => True)
  | _ => True

def OOK (P : Program) : Obs → Prop
  | .body n _ k kw => (1 ≤ k ∧ k ≤ (P.cfg n).attemptsEff) ∧ KwGood P n kw
  | .dflt n kw => (P.cfg n).useDefault = true ∧ KwGood P n kw
  | _ => True

def FsOK (P : Program) (fs : List Frame) : Prop := ∀ f ∈ fs, FOK P f
def BInv (P : Program) (s : St) : Prop := ∀ fs ∈ stacks s, FsOK P fs
def OsOK (P : Program) (obs : List Obs) : Prop := ∀ o ∈ obs, OOK P o
def BGood (P : Program) (out : Out) : Prop := BInv P out.1 ∧ OsOK P out.2

theorem FsOK.nil (P : Program) : FsOK P [] := fun _ h => by cases h
theorem FsOK.cons {P : Program} {f : Frame} {fs : List Frame} (hf : FOK P f) (h : FsOK P fs) : FsOK P (f :: fs) := by
  intro x hx
  rcases List.mem_cons.mp hx with rfl | hx
  · exact hf
  · exact h x hx
theorem FsOK.tail {P : Program} {f : Frame} {fs : List Frame} (h : FsOK P (f :: fs)) : FsOK P fs :=
  fun x hx => h x (List.mem_cons_of_mem _ hx)
theorem FsOK.head {P : Program} {f : Frame} {fs : List Frame} (h : FsOK P (f :: fs)) : FOK P f :=
  h f (List.mem_cons_self ..)

theorem OsOK.nil (P : Program) : OsOK P [] := fun _ h => by cases h
theorem OsOK.snoc {P : Program} {obs : List Obs} (h : OsOK P obs) (o : Obs) (ho : OOK P o) : OsOK P (obs ++ [o]) := by
  intro x hx
  rcases List.mem_append.mp hx with hx | hx
  · exact h x hx
  · simp at hx; subst hx; exact ho

theorem BInv.same {P : Program} {s s' : St} (h : BInv P s) (hs : SameL s s') : BInv P s' := by
  unfold BInv; rw [hs.1]; exact h

theorem BInv.spawned {P : Program} {s : St} (h : BInv P s) (fr : Frame) (nm : TaskName) (hf : FOK P fr) :
    BInv P (Eng.spawn s [fr] nm).1 := by
  have hst : stacks (Eng.spawn s [fr] nm).1 = stacks s ++ [[fr]] := by simp [stacks, Eng.spawn]
  unfold BInv; rw [hst]
  intro fs hfs
  rcases List.mem_append.mp hfs with h1 | h1
  · exact h fs h1
  · simp at h1; subst h1; exact FsOK.cons hf (FsOK.nil P)

theorem BInv.setTask {P : Program} {s : St} (h : BInv P s) (t : Nat) (tk' : Task) (hf : FsOK P tk'.frames) :
    BInv P (s.setTask t tk') := by
  unfold BInv; rw [stacks_setTask]
  intro fs hfs
  rcases List.mem_or_eq_of_mem_set hfs with h1 | h1
  · exact h fs h1
  · subst h1; exact hf

theorem stack_ok {P : Program} {s : St} (h : BInv P s) {t : Nat} {tk : Task} (htk : s.tasks[t]? = some tk) :
    FsOK P tk.frames := by
  apply h
  have : (stacks s)[t]? = some tk.frames := by simp [stacks, htk]
  exact List.mem_of_getElem? this

/-! ### how a section ends -/

section handlers
variable {c : Ctx}

theorem bg_endTask {s : St} {obs : List Obs} (hi : BInv c.P s) (ho : OsOK c.P obs) (r : TaskRes) :
    BGood c.P (endTask c s obs r) := by
  unfold endTask
  split
  · exact ⟨hi, ho⟩
  · exact ⟨hi.setTask _ _ (FsOK.nil _), ho.snoc _ (by exact trivial)⟩

theorem bg_block {s : St} {obs : List Obs} {fs : List Frame} (hi : BInv c.P s) (ho : OsOK c.P obs) (hf : FsOK c.P fs)
    (w : Wait) : BGood c.P (block c s obs fs w) := by
  unfold block
  split
  · exact ⟨hi, ho⟩
  · exact ⟨hi.setTask _ _ hf, ho⟩

theorem bg_yieldNow {s : St} {obs : List Obs} {fs : List Frame} (hi : BInv c.P s) (ho : OsOK c.P obs) (hf : FsOK c.P fs) :
    BGood c.P (yieldNow c s obs fs) := by
  unfold yieldNow
  split
  · exact ⟨hi, ho⟩
  · exact ⟨hi.setTask _ _ hf, ho⟩

theorem bg_retTo {s : St} {obs : List Obs} {below : List Frame} (hi : BInv c.P s) (ho : OsOK c.P obs)
    (hb : FsOK c.P below) (v : Val) : BGood c.P (retTo c s obs below v) := by
  unfold retTo
  split
  · exact bg_endTask hi ho _
  · split
    · exact ⟨hi, ho⟩
    · exact ⟨hi.setTask _ _ hb, ho⟩

theorem bg_raiseOut {s : St} {obs : List Obs} (hi : BInv c.P s) (ho : OsOK c.P obs) (below : List Frame) (r : TaskRes) :
    BGood c.P (raiseOut c s obs below r) := by
  unfold raiseOut
  exact bg_endTask (hi.same (sameL_unwindFrames _ _ _)) ho _

/-! ### one lemma per handler -/

macro "fk" : tactic => `(tactic| (first | exact trivial | (simp [FOK]; done) | (constructor <;> simp [*]; done)))

theorem bg_dagWaitDest {s : St} {obs : List Obs} {below : List Frame} (hi : BInv c.P s) (ho : OsOK c.P obs)
    (hb : FsOK c.P below) (d : DagRef) : BGood c.P (dagWaitDest c s obs d below) := by
  unfold dagWaitDest
  split
  · split
    · exact bg_retTo hi ho hb _
    · exact bg_block hi ho (FsOK.cons (by exact trivial) hb) _
  · exact bg_block hi ho (FsOK.cons (by exact trivial) hb) _

theorem launchFrame_fok (P : Program) (d : DagRef) (n : Node) : FOK P (launchFrame P d n) := by
  unfold launchFrame; split
  · trivial
  · split
    · trivial
    · simp [FOK]

theorem bg_dagLaunch (d : DagRef) (below : List Frame) (hb : FsOK c.P below) : ∀ (rest : List Node) (s : St) (obs : List Obs),
    BInv c.P s → OsOK c.P obs → BGood c.P (dagLaunch c d below s obs rest)
  | [], s, obs, hi, ho => by simp only [dagLaunch]; exact bg_dagWaitDest hi ho hb d
  | n :: rest, s, obs, hi, ho => by
    simp only [dagLaunch]
    split
    · split
      · apply bg_retTo _ ho hb
        apply hi.same
        refine SameL.trans (SameL.trans ?_ (sameL_notifyAll _ _)) (sameL_notify _ _)
        split
        · split
          · exact SameL.refl s
          · exact (sameL_setRes s _ _).trans (sameL_notifyAll _ _)
        · exact SameL.refl s
      · exact bg_dagLaunch d below hb rest _ _ (hi.spawned _ _ (launchFrame_fok _ _ _)) (ho.snoc _ (by exact trivial))
    · exact bg_block hi ho (FsOK.cons (by exact trivial) hb) _

theorem bg_dagInit {s : St} {obs : List Obs} {below : List Frame} (hi : BInv c.P s) (ho : OsOK c.P obs)
    (hb : FsOK c.P below) (d : DagRef) : BGood c.P (dagInit c s obs d below) := by
  unfold dagInit
  simp only []
  have hi2 : BInv c.P ((s.refresh d.nodes).noteOrder (validOrder c.P (s.refresh d.nodes) d c.ord)) :=
    (hi.same (sameL_refresh _ _)).same (sameL_noteOrder _ _)
  have ho2 : OsOK c.P (if validOrder c.P (s.refresh d.nodes) d c.ord = true then obs ++ [.topo c.ord]
        else obs ++ [.topo c.ord] ++ [.badOracle]) := by
    split
    · exact ho.snoc _ (by exact trivial)
    · exact (ho.snoc _ (by exact trivial)).snoc _ (by exact trivial)
  split
  · exact bg_retTo hi2 ho2 hb _
  · exact bg_dagLaunch d below hb _ _ _ hi2 ho2

theorem bg_cbThen {s : St} {obs : List Obs} (frames : Nat → List Frame) (j : Nat) (kk : St → List Obs → Out)
    (hi : BInv c.P s) (ho : OsOK c.P obs) (hY : ∀ j, FsOK c.P (frames j)) (hK : BGood c.P (kk s obs)) :
    BGood c.P (cbThen c s obs frames j kk) := by
  unfold cbThen
  split
  · exact hK
  · exact bg_yieldNow hi ho (hY _)

theorem bg_cbCall {s : St} {obs : List Obs} (cb : Cb) (n : Node) (frames : Nat → List Frame)
    (kOk : St → List Obs → Out) (kErr : Exc → St → List Obs → Out)
    (hi : BInv c.P s) (ho : OsOK c.P obs) (hY : ∀ j, FsOK c.P (frames j)) (hOk : BGood c.P (kOk s obs))
    (hErr : ∀ e, BGood c.P (kErr e s obs)) : BGood c.P (cbCall c cb n s obs frames kOk kErr) := by
  unfold cbCall
  split
  · exact hErr _
  · exact bg_cbThen frames _ kOk hi ho hY hOk

theorem bg_nodeFinish {s : St} {obs : List Obs} {below : List Frame} (hi : BInv c.P s) (ho : OsOK c.P obs)
    (hb : FsOK c.P below) (d : DagRef) (n : Node) : BGood c.P (nodeFinish c s obs d n below) := by
  unfold nodeFinish
  exact bg_retTo (hi.same (sameL_nodeFinally _ _ _ _ _)) ho hb _

theorem bg_nodeCbRaise {s : St} {obs : List Obs} (hi : BInv c.P s) (ho : OsOK c.P obs) (d : DagRef) (n : Node)
    (below : List Frame) (e : Exc) : BGood c.P (nodeCbRaise c s obs d n below e) := by
  unfold nodeCbRaise
  exact bg_raiseOut (hi.same (sameL_nodeFinally _ _ _ _ _)) ho _ _

theorem bg_nodeCbRaiseInTry {s : St} {obs : List Obs} (hi : BInv c.P s) (ho : OsOK c.P obs) (d : DagRef) (n : Node)
    (below : List Frame) (e : Exc) : BGood c.P (nodeCbRaiseInTry c s obs d n below e) := by
  unfold nodeCbRaiseInTry
  apply bg_nodeCbRaise hi
  split
  · exact ho.snoc _ (by exact trivial)
  · exact ho

theorem binv_recSpawn {s : St} (hi : BInv c.P s) (d : DagRef) (n : Node) (v : Val) : BInv c.P (recSpawn c.P s d n v) := by
  unfold recSpawn
  split
  · exact hi.spawned _ _ (by exact trivial)
  · exact hi

theorem binv_storeIf {P : Program} {s : St} (hi : BInv P s) (b : Bool) (n : Node) (v : Val) : BInv P (storeIf s b n v) := by
  unfold storeIf
  split
  · exact hi.same (sameL_setRes _ _ _)
  · exact hi

theorem bg_nodePost {s : St} {obs : List Obs} {below : List Frame} (hi : BInv c.P s) (ho : OsOK c.P obs)
    (hb : FsOK c.P below) (d : DagRef) (n : Node) (v : Val) (own : Bool) : BGood c.P (nodePost c s obs d n below v own) := by
  unfold nodePost
  simp only []
  have hi2 : BInv c.P (storeIf (recSpawn c.P s d n v) own n v) := binv_storeIf (binv_recSpawn hi d n v) _ _ _
  have ho2 : OsOK c.P (if recSpawns c.P s n v = true then obs ++ [.spawn s.tasks.length (.recur n)] else obs) := by
    split
    · exact ho.snoc _ (by exact trivial)
    · exact ho
  split
  · apply bg_cbCall _ _ _ _ _ hi2 (ho2.snoc _ (by exact trivial))
    · intro j; exact FsOK.cons (by simp [FOK]) hb
    · exact bg_nodeFinish hi2 (ho2.snoc _ (by exact trivial)) hb d n
    · intro e; exact bg_nodeCbRaise hi2 (ho2.snoc _ (by exact trivial)) d n below e
  · exact bg_retTo (hi2.same (sameL_nodeFinally _ _ _ _ _)) ho2 hb _

theorem bg_nodeFailCont {s : St} {obs : List Obs} {below : List Frame} (hi : BInv c.P s) (ho : OsOK c.P obs)
    (hb : FsOK c.P below) (d : DagRef) (n : Node) (e : Exc) : BGood c.P (nodeFailCont c s obs d n below e) := by
  unfold nodeFailCont
  split
  · exact bg_nodePost hi ho hb d n _ _
  · exact bg_raiseOut (hi.same (sameL_nodeFinally _ _ _ _ _)) ho _ _

theorem bg_nodeFail {s : St} {obs : List Obs} {below : List Frame} (hi : BInv c.P s) (ho : OsOK c.P obs)
    (hb : FsOK c.P below) (d : DagRef) (n : Node) (e : Exc) : BGood c.P (nodeFail c s obs d n below e) := by
  unfold nodeFail
  have ho2 := ho.snoc (.ncomplete n (some e)) trivial
  apply bg_cbCall _ _ _ _ _ hi ho2
  · intro j; exact FsOK.cons (by simp [FOK]) hb
  · exact bg_nodeFailCont hi ho2 hb d n e
  · intro e'; exact bg_nodeCbRaise hi ho2 d n below e'

theorem bg_nodeSuccess {s : St} {obs : List Obs} {below : List Frame} (hi : BInv c.P s) (ho : OsOK c.P obs)
    (hb : FsOK c.P below) (d : DagRef) (n : Node) (v : Val) : BGood c.P (nodeSuccess c s obs d n below v) := by
  unfold nodeSuccess
  have ho2 := ho.snoc (.ncomplete n none) trivial
  apply bg_cbCall _ _ _ _ _ hi ho2
  · intro j; exact FsOK.cons (by simp [FOK]) hb
  · exact bg_nodePost hi ho2 hb d n v true
  · intro e; exact bg_nodeCbRaiseInTry hi ho2 d n below e

/-- `get_default` is called only for a node that opts in -/
theorem bg_nodeDefault {s : St} {obs : List Obs} {below : List Frame} (hi : BInv c.P s) (ho : OsOK c.P obs)
    (hb : FsOK c.P below) (d : DagRef) (n : Node) (kw : Kwargs) (hd : (c.P.cfg n).useDefault = true)
    (hkw : KwGood c.P n kw) : BGood c.P (nodeDefault c s obs d n below kw) := by
  unfold nodeDefault
  have ho2 := ho.snoc (.dflt n kw) ⟨hd, hkw⟩
  split
  · exact bg_nodeSuccess hi ho2 hb d n _
  · split
    · exact bg_nodeFail hi ho2 hb d n _
    · exact bg_raiseOut (hi.same (sameL_nodeFinally _ _ _ _ _)) ho2 _ _

theorem bg_nodeSleep {s : St} {obs : List Obs} {below : List Frame} (hi : BInv c.P s) (ho : OsOK c.P obs)
    (hb : FsOK c.P below) (d : DagRef) (n : Node) (force : Bool) (k : Nat) (kw : Kwargs) (inv : Nat)
    (hf : force = true → (c.P.cfg n).useDefault = true) (hk : 1 ≤ k ∧ k < (c.P.cfg n).attemptsEff)
    (hkw : KwGood c.P n kw) : BGood c.P (nodeSleep c s obs d n force below k kw inv) := by
  unfold nodeSleep
  simp only []
  have hfr : FOK c.P (.node d n force (.sleep k kw inv)) := ⟨hf, hk, hkw⟩
  split
  · exact bg_block hi (ho.snoc _ (by exact trivial)) (FsOK.cons hfr hb) _
  · exact bg_yieldNow hi ho (FsOK.cons hfr hb)

/-- the decision after attempt `k ≤ attempts`: a further attempt is due only while `k < attempts` -/
theorem bg_nodeAfterBody {s : St} {obs : List Obs} {below : List Frame} (hi : BInv c.P s) (ho : OsOK c.P obs)
    (hb : FsOK c.P below) (d : DagRef) (n : Node) (force : Bool) (k : Nat) (kw : Kwargs) (inv : Nat) (o : BodyOutcome)
    (hf : force = true → (c.P.cfg n).useDefault = true) (hk : 1 ≤ k ∧ k ≤ (c.P.cfg n).attemptsEff)
    (hkw : KwGood c.P n kw) : BGood c.P (nodeAfterBody c s obs d n force below k kw inv o) := by
  unfold nodeAfterBody
  simp only []
  split
  · exact bg_nodeSuccess hi ho hb d n _
  · next e =>
    split
    · split
      · split
        · next hd => exact bg_nodeDefault hi ho hb d n kw hd hkw
        · exact bg_nodeFail hi ho hb d n e
      · next hne =>
        have hlt : 1 ≤ k ∧ k < (c.P.cfg n).attemptsEff := by
          have : k ≠ (c.P.cfg n).attemptsEff := by simpa using hne
          omega
        have ho2 := ho.snoc (.ncomplete n (some e)) trivial
        apply bg_cbCall _ _ _ _ _ hi ho2
        · intro j; exact FsOK.cons (show FOK c.P (.node d n force (.cbRetry j k kw inv)) from ⟨hf, hlt, hkw⟩) hb
        · exact bg_nodeSleep hi ho2 hb d n force k kw inv hf hlt hkw
        · intro e'; exact bg_nodeCbRaiseInTry hi ho2 d n below e'
    · split
      · split
        · next hd => exact bg_nodeDefault hi ho hb d n kw hd hkw
        · exact bg_nodeFail hi ho hb d n e
      · exact bg_raiseOut (hi.same (sameL_nodeFinally _ _ _ _ _)) ho _ _

theorem bg_nodeAttempt {s : St} {obs : List Obs} {below : List Frame} (hi : BInv c.P s) (ho : OsOK c.P obs)
    (hb : FsOK c.P below) (d : DagRef) (n : Node) (force : Bool) (k : Nat) (kw : Kwargs) (inv : Nat)
    (hf : force = true → (c.P.cfg n).useDefault = true) (hk : 1 ≤ k ∧ k ≤ (c.P.cfg n).attemptsEff)
    (hkw : KwGood c.P n kw) : BGood c.P (nodeAttempt c s obs d n force below k kw inv) := by
  unfold nodeAttempt
  split
  · next hforce => exact bg_nodeDefault hi ho hb d n kw (hf hforce) hkw
  · simp only []
    have ho2 := ho.snoc (.body n inv k kw) ⟨hk, hkw⟩
    split
    · exact bg_nodeAfterBody hi ho2 hb d n force k kw inv _ hf hk hkw
    · exact bg_block hi (ho2.snoc _ (by exact trivial))
        (FsOK.cons (show FOK c.P (.node d n force (.body k kw inv)) from ⟨hf, hk, hkw⟩) hb) _

theorem attemptsEff_pos' (cfg : NodeCfg) : 1 ≤ cfg.attemptsEff := by
  unfold NodeCfg.attemptsEff
  cases cfg.attempts with
  | none => simp
  | some k => cases k <;> simp

theorem bg_nodeBegin {s : St} {obs : List Obs} {below : List Frame} (hi : BInv c.P s) (ho : OsOK c.P obs)
    (hb : FsOK c.P below) (d : DagRef) (n : Node) (force : Bool) (inv : Nat)
    (hf : force = true → (c.P.cfg n).useDefault = true) : BGood c.P (nodeBegin c s obs d n force below inv) := by
  unfold nodeBegin
  split
  · exact bg_nodeFail hi ho hb d n _
  · next kw hkw =>
    exact bg_nodeAttempt hi ho hb d n force 1 _ inv hf ⟨Nat.le_refl 1, attemptsEff_pos' _⟩ (nodeKwargs_ok c.P s n kw hkw)

theorem bg_nodeStart {s : St} {obs : List Obs} {below : List Frame} (hi : BInv c.P s) (ho : OsOK c.P obs)
    (hb : FsOK c.P below) (d : DagRef) (n : Node) (force : Bool)
    (hf : force = true → (c.P.cfg n).useDefault = true) : BGood c.P (nodeStart c s obs d n force below) := by
  unfold nodeStart
  split
  · split
    · exact bg_nodePost hi ho hb d n _ false
    · exact bg_block hi ho (FsOK.cons (show FOK c.P (.node d n force .evWait) from ⟨hf, trivial⟩) hb) _
  · simp only []
    have hi2 : BInv c.P (s.markProcessed n) := hi
    have ho2 := ho.snoc (.nstart n) (by exact trivial)
    apply bg_cbCall _ _ _ _ _ hi2 ho2
    · intro j; exact FsOK.cons (show FOK c.P (.node d n force (.cbStart j (s.invCount n))) from ⟨hf, trivial⟩) hb
    · exact bg_nodeBegin hi2 ho2 hb d n force _ hf
    · intro e; exact bg_nodeCbRaise hi2 ho2 d n below e

theorem bg_oneofWin {s : St} {obs : List Obs} {below : List Frame} (hi : BInv c.P s) (ho : OsOK c.P obs)
    (hb : FsOK c.P below) (head cand : Node) : BGood c.P (oneofWin c s obs head cand below) := by
  unfold oneofWin
  apply bg_retTo _ ho hb
  apply hi.same
  exact (((sameL_setRes s _ _).trans (sameL_notify _ _)).trans (sameL_notifyAll _ _)).trans (sameL_notify _ _)

theorem bg_oneofTry (d : DagRef) (head : Node) (below : List Frame) (hb : FsOK c.P below) :
    ∀ (cands : List Node) (s : St) (obs : List Obs), BInv c.P s → OsOK c.P obs →
      BGood c.P (oneofTry c d head below s obs cands)
  | [], s, obs, hi, ho => by
    simp only [oneofTry]
    split
    · apply bg_retTo _ ho hb
      apply hi.same
      exact ((sameL_setRes s _ _).trans (sameL_notify _ _)).trans (sameL_notifyAll _ _)
    · exact bg_raiseOut (hi.same (sameL_notify _ _)) ho _ _
  | cand :: rest, s, obs, hi, ho => by
    simp only [oneofTry]
    split
    · exact bg_raiseOut (hi.same (sameL_openCand _ _ _)) ho _ _
    · next sub hsub =>
      have hi2 : BInv c.P (spawn ((openCand s true cand).refresh sub.nodes) [.dagInit sub] .dag).1 :=
        ((hi.same (sameL_openCand _ _ _)).same (sameL_refresh _ _)).spawned _ _ (by exact trivial)
      have ho2 : OsOK c.P (obs ++ [.spawn ((openCand s true cand).refresh sub.nodes).tasks.length .dag]) :=
        ho.snoc _ (by exact trivial)
      split
      · split
        · exact bg_oneofTry d head below hb rest _ _ hi2 ho2
        · exact bg_oneofWin hi2 ho2 hb head cand
      · exact bg_block hi2 ho2 (FsOK.cons (by exact trivial) hb) _

theorem bg_oneofWake {s : St} {obs : List Obs} {below : List Frame} (hi : BInv c.P s) (ho : OsOK c.P obs)
    (hb : FsOK c.P below) (d : DagRef) (head cand : Node) (rest : List Node) (sub : DagRef) :
    BGood c.P (oneofWake c s obs d head cand rest sub below) := by
  unfold oneofWake
  split
  · split
    · exact bg_oneofTry d head below hb rest _ _ hi ho
    · exact bg_oneofWin hi ho hb head cand
  · exact bg_block hi ho (FsOK.cons (by exact trivial) hb) _

theorem bg_switchStart {s : St} {obs : List Obs} {below : List Frame} (hi : BInv c.P s) (ho : OsOK c.P obs)
    (hb : FsOK c.P below) (d : DagRef) (n : Node) : BGood c.P (switchStart c s obs d n below) := by
  unfold switchStart
  split
  · simp only []
    split
    · apply bg_retTo _ ho hb
      apply hi.same
      exact ((sameL_setRes s _ _).trans (sameL_notify _ _)).trans (sameL_notifyAll _ _)
    · exact bg_raiseOut (hi.same (sameL_notify _ _)) ho _ _
  · next l cn hsel =>
    simp only []
    have hi2 : BInv c.P (openCand (s.setSw n (l, cn)) d.isOneof cn) :=
      (hi.same (sameL_setSw _ _ _)).same (sameL_openCand _ _ _)
    split
    · exact bg_raiseOut hi2 ho _ _
    · exact bg_dagInit hi2 ho (FsOK.cons (by exact trivial) hb) _

theorem bg_recFinish {s : St} {obs : List Obs} {below : List Frame} (hi : BInv c.P s) (ho : OsOK c.P obs)
    (hb : FsOK c.P below) (n start : Node) : BGood c.P (recFinish c s obs n start below) := by
  unfold recFinish
  exact bg_retTo (hi.same (sameL_setActive _ _)) ho hb _

theorem bg_recIter {s : St} {obs : List Obs} {below : List Frame} (hi : BInv c.P s) (ho : OsOK c.P obs)
    (hb : FsOK c.P below) (d : DagRef) (n start : Node) (g : DagRef) (kk : Nat) (r : Val) :
    BGood c.P (recIter c s obs d n start g kk r below) := by
  unfold recIter
  simp only []
  split
  · exact bg_dagInit ((hi.same (sameL_setAdditional _ _ _)).same (sameL_invalidate _ _)) ho
      (FsOK.cons (by exact trivial) hb) _
  · split
    · next hcond =>
      -- the forced default: only for a destination that opts in
      have hd : (c.P.cfg n).useDefault = true := by
        simp only [Bool.and_eq_true] at hcond; exact hcond.2
      exact bg_nodeStart (hi.same (sameL_hide _ _)) ho (FsOK.cons (by exact trivial) hb) d n true (fun _ => hd)
    · split
      · apply bg_recFinish _ ho hb
        apply hi.same
        exact ((sameL_setRes s _ _).trans (sameL_notify _ _)).trans (sameL_notifyAll _ _)
      · exact bg_raiseOut (hi.same (sameL_notify _ _)) ho _ _

theorem bg_recStart {s : St} {obs : List Obs} {below : List Frame} (hi : BInv c.P s) (ho : OsOK c.P obs)
    (hb : FsOK c.P below) (d : DagRef) (n : Node) (r : Val) : BGood c.P (recStart c s obs d n r below) := by
  unfold recStart
  split
  · exact bg_raiseOut hi ho _ _
  · split
    · exact bg_retTo hi ho hb _
    · simp only []
      next start hst hact =>
      have hi2 := hi.same (sameL_setActive s ((start, n) :: s.active))
      split
      · exact bg_raiseOut hi2 ho _ _
      · split
        · exact bg_raiseOut hi2 ho _ _
        · exact bg_recIter hi2 ho hb d n _ _ 0 r

theorem bg_mgrReturn {s : St} {obs : List Obs} (hi : BInv c.P s) (ho : OsOK c.P obs) (o : Outcome) :
    BGood c.P (mgrReturn c s obs o) := by
  unfold mgrReturn
  exact bg_endTask hi (ho.snoc _ (by exact trivial)) .ok

theorem bg_mgrComplete {s : St} {obs : List Obs} (hi : BInv c.P s) (ho : OsOK c.P obs) (o : Outcome) :
    BGood c.P (mgrComplete c s obs o) := by
  unfold mgrComplete
  split
  · exact bg_mgrReturn hi ho _
  · have ho2 := ho.snoc (.pcomplete o) (by exact trivial)
    apply bg_cbCall _ _ _ _ _ hi ho2
    · intro j; exact FsOK.cons (by exact trivial) (FsOK.nil _)
    · exact bg_mgrReturn hi ho2 o
    · intro e
      simp only []
      apply bg_mgrReturn hi
      repeat' split
      all_goals first | exact ho2.snoc (.pcomplete (.error e)) (by exact trivial) | exact ho2

theorem bg_mgrFinish {s : St} {obs : List Obs} (hi : BInv c.P s) (ho : OsOK c.P obs) : BGood c.P (mgrFinish c s obs) := by
  unfold mgrFinish
  exact bg_mgrComplete (hi.same (sameL_cancelTasks _ _)) ho _

theorem bg_mgrCheck {s : St} {obs : List Obs} (hi : BInv c.P s) (ho : OsOK c.P obs) : BGood c.P (mgrCheck c s obs) := by
  unfold mgrCheck
  split
  · exact bg_mgrFinish hi ho
  · exact bg_block hi ho (FsOK.cons (by exact trivial) (FsOK.nil _)) _

theorem bg_mgrBegin {s : St} {obs : List Obs} (hi : BInv c.P s) (ho : OsOK c.P obs) : BGood c.P (mgrBegin c s obs) := by
  unfold mgrBegin
  split
  · exact bg_mgrComplete hi ho _
  · split
    · exact bg_mgrComplete hi ho _
    · exact bg_mgrCheck (hi.spawned _ _ (by exact trivial)) (ho.snoc _ (by exact trivial))

theorem bg_mgrStart {s : St} {obs : List Obs} (hi : BInv c.P s) (ho : OsOK c.P obs) : BGood c.P (mgrStart c s obs) := by
  unfold mgrStart
  have ho2 := ho.snoc .pstart (by exact trivial)
  apply bg_cbCall _ _ _ _ _ hi ho2
  · intro j; exact FsOK.cons (by exact trivial) (FsOK.nil _)
  · exact bg_mgrBegin hi ho2
  · intro e; exact bg_mgrReturn hi ho2 _

end handlers

/-! ### sections, steps, executions -/

theorem bg_deliverCancel {c : Ctx} {s : St} (hi : BInv c.P s) (tk : Task) : BGood c.P (deliverCancel c s tk) := by
  have caller : ∀ s0, BInv c.P s0 →
      BGood c.P ((endTask c s0 [.returned .cancelled] .cancelled).1.setOutcome .cancelled,
                 (endTask c s0 [.returned .cancelled] .cancelled).2) := by
    intro s0 h0
    exact bg_endTask h0 ((OsOK.nil _).snoc (.returned .cancelled) (by exact trivial)) .cancelled
  unfold deliverCancel
  split
  · exact caller s hi
  · exact caller s hi
  · exact caller _ (hi.same (sameL_cancelTasks _ _))
  · exact caller s hi
  · exact bg_raiseOut hi (OsOK.nil _) _ _

theorem bg_stepTask {c : Ctx} {s : St} {out : Out} (hi : BInv c.P s) (hs : stepTask c s = some out) : BGood c.P out := by
  have ho := OsOK.nil c.P
  unfold stepTask at hs
  split at hs
  · cases hs
  · next tk htk =>
    have hfs := stack_ok hi htk
    split at hs
    · next rv hst =>
      split at hs
      · obtain rfl := Option.some.inj hs
        exact bg_deliverCancel hi tk
      · split at hs
        all_goals (first | cases hs | (obtain rfl := Option.some.inj hs) | skip)
        all_goals (rename_i hfr; rw [hfr] at hfs)
        · exact bg_mgrStart hi ho
        · exact bg_mgrCheck hi ho
        · exact bg_cbThen _ _ _ hi ho (fun j => FsOK.cons (by exact trivial) (FsOK.nil _)) (bg_mgrBegin hi ho)
        · exact bg_cbThen _ _ _ hi ho (fun j => FsOK.cons (by exact trivial) (FsOK.nil _)) (bg_mgrReturn hi ho _)
        · exact bg_dagInit hi ho hfs.tail _
        · exact bg_dagLaunch _ _ hfs.tail _ _ _ hi ho
        · exact bg_dagWaitDest hi ho hfs.tail _
        · exact bg_nodeStart hi ho hfs.tail _ _ _ hfs.head.1
        · exact bg_nodePost hi ho hfs.tail _ _ _ false
        · exact bg_nodeAfterBody hi ho hfs.tail _ _ _ _ _ _ _ hfs.head.1 hfs.head.2.1 hfs.head.2.2
        · have h2 := hfs.head.2.1
          exact bg_nodeAttempt hi ho hfs.tail _ _ _ _ _ _ hfs.head.1 ⟨by omega, by omega⟩ hfs.head.2.2
        · exact bg_cbThen _ _ _ hi ho (fun j => FsOK.cons ⟨hfs.head.1, trivial⟩ hfs.tail)
            (bg_nodeBegin hi ho hfs.tail _ _ _ _ hfs.head.1)
        · exact bg_cbThen _ _ _ hi ho (fun j => FsOK.cons ⟨hfs.head.1, hfs.head.2⟩ hfs.tail)
            (bg_nodeSleep hi ho hfs.tail _ _ _ _ _ _ hfs.head.1 hfs.head.2.1 hfs.head.2.2)
        · exact bg_cbThen _ _ _ hi ho (fun j => FsOK.cons (by simp [FOK]) hfs.tail) (bg_nodePost hi ho hfs.tail _ _ _ true)
        · exact bg_cbThen _ _ _ hi ho (fun j => FsOK.cons (by simp [FOK]) hfs.tail) (bg_nodeFailCont hi ho hfs.tail _ _ _)
        · exact bg_cbThen _ _ _ hi ho (fun j => FsOK.cons (by simp [FOK]) hfs.tail) (bg_nodeFinish hi ho hfs.tail _ _)
        · exact bg_switchStart hi ho hfs.tail _ _
        · exact bg_retTo (hi.same (sameL_notifyAll _ _)) ho hfs.tail _
        · exact bg_oneofTry _ _ _ hfs.tail _ _ _ hi ho
        · exact bg_oneofWake hi ho hfs.tail _ _ _ _ _
        · exact bg_recStart hi ho hfs.tail _ _ _
        · split at hs
          · simp only [] at hs
            obtain rfl := Option.some.inj hs
            apply bg_retTo _ ho hfs.tail
            split
            · exact hi.same (((sameL_setRes s _ _).trans (sameL_notify _ _)).trans (sameL_notifyAll _ _))
            · exact hi
          · split at hs
            · obtain rfl := Option.some.inj hs
              exact bg_recFinish hi ho hfs.tail _ _
            · obtain rfl := Option.some.inj hs
              exact bg_recIter hi ho hfs.tail _ _ _ _ _ _
        · exact bg_recFinish hi ho hfs.tail _ _
    · cases hs

theorem bg_step {P : Program} {s : St} {ch : Choice} {out : Out} (hi : BInv P s) (hs : step P s ch = some out) :
    BGood P out := by
  cases ch with
  | run t ord pick => exact bg_stepTask (c := { P := P, t := t, ord := ord, pick := pick }) hi hs
  | gate n inv att =>
    simp only [step] at hs
    split at hs
    · cases hs
    · obtain rfl := Option.some.inj hs
      refine ⟨hi.same (sameL_mapTasks s _ ?_), OsOK.nil _⟩
      intro tk
      unfold gateDone
      split
      · split <;> rfl
      · rfl
  | timer t =>
    simp only [step] at hs
    split at hs
    · next tk htk =>
      split at hs
      · obtain rfl := Option.some.inj hs
        exact ⟨hi.same (sameL_setTask htk rfl), OsOK.nil _⟩
      · cases hs
    · cases hs
  | cancelCaller =>
    simp only [step] at hs
    obtain rfl := Option.some.inj hs
    exact ⟨hi.same (sameL_cancelTask _ _), OsOK.nil _⟩

/-- **every execution** (all programs, all schedules): every frame and every observation is within the budget -/
theorem budget_exec {P : Program} {s : St} {log : List Obs} (h : Exec P s log) : BInv P s ∧ OsOK P log := by
  induction h with
  | init =>
    refine ⟨?_, OsOK.nil _⟩
    intro fs hfs
    simp [stacks, init] at hfs
    subst hfs
    exact FsOK.cons (by exact trivial) (FsOK.nil _)
  | step _ hs ih =>
    obtain ⟨a, b⟩ := bg_step ih.1 hs
    refine ⟨a, ?_⟩
    intro o ho
    rcases List.mem_append.mp ho with h1 | h1
    · exact ih.2 o h1
    · exact b o h1

end MLPE.Eng

import MLPE.Proofs.EngCore

/-! Facts about the task list: lengths, cancellation marks, who can change whose entry. -/
namespace MLPE.Eng
open MLPE

def Task.isDone (tk : Task) : Bool := match tk.st with | .done _ => true | _ => false

/-- the task needs no further attention from `run()`'s cleanup: finished, or cancellation requested -/
def Task.marked (tk : Task) : Bool := tk.isDone || tk.mustCancel

@[simp] theorem wakeIf_mustCancel (p : Wait → Bool) (tk : Task) : (wakeIf p tk).mustCancel = tk.mustCancel := by
  unfold wakeIf; split <;> (try split) <;> rfl

@[simp] theorem wakeIf_frames (p : Wait → Bool) (tk : Task) : (wakeIf p tk).frames = tk.frames := by
  unfold wakeIf; split <;> (try split) <;> rfl

theorem wakeIf_isDone (p : Wait → Bool) (tk : Task) : (wakeIf p tk).isDone = tk.isDone := by
  unfold wakeIf Task.isDone
  cases hst : tk.st with
  | runnable rv => simp [hst]
  | done r => simp [hst]
  | blocked w => by_cases hp : p w = true <;> simp [hp, hst]

@[simp] theorem wakeIf_marked (p : Wait → Bool) (tk : Task) : (wakeIf p tk).marked = tk.marked := by
  simp [Task.marked, wakeIf_isDone]

@[simp] theorem len_notify (s : St) (k : Key) : (notify s k).tasks.length = s.tasks.length := by
  simp [notify]

@[simp] theorem len_notifyAll (s : St) (ks : List Key) : (notifyAll s ks).tasks.length = s.tasks.length := by
  unfold notifyAll
  induction ks generalizing s with
  | nil => rfl
  | cons k ks ih => simp [List.foldl, ih]

@[simp] theorem len_setEvent (s : St) (n : Node) : (setEvent s n).tasks.length = s.tasks.length := by
  simp [setEvent]

@[simp] theorem len_setTask (s : St) (t : Nat) (tk : Task) : (s.setTask t tk).tasks.length = s.tasks.length := by
  simp [St.setTask]

@[simp] theorem len_cancelTask (s : St) (t : Nat) : (cancelTask s t).tasks.length = s.tasks.length := by
  unfold cancelTask
  split
  · rfl
  · split <;> simp

@[simp] theorem len_cancelTasks (s : St) (ts : List Nat) : (cancelTasks s ts).tasks.length = s.tasks.length := by
  unfold cancelTasks
  induction ts generalizing s with
  | nil => rfl
  | cons t ts ih => simp [List.foldl, ih]

/-- `marked` of task `i` after a map over the task list by a `marked`-preserving function -/
theorem marked_map (l : List Task) (f : Task → Task) (hf : ∀ tk, (f tk).marked = tk.marked) (i : Nat) :
    ((l.map f)[i]?).map Task.marked = (l[i]?).map Task.marked := by
  simp [List.getElem?_map, Option.map_map, Function.comp_def, hf]

theorem marked_notify (s : St) (k : Key) (i : Nat) :
    ((notify s k).tasks[i]?).map Task.marked = (s.tasks[i]?).map Task.marked := by
  simp only [notify]; exact marked_map _ _ (fun _ => wakeIf_marked _ _) i

theorem marked_setEvent (s : St) (n : Node) (i : Nat) :
    ((setEvent s n).tasks[i]?).map Task.marked = (s.tasks[i]?).map Task.marked := by
  simp only [setEvent]; exact marked_map _ _ (fun _ => wakeIf_marked _ _) i

theorem marked_notifyAll (s : St) (ks : List Key) (i : Nat) :
    ((notifyAll s ks).tasks[i]?).map Task.marked = (s.tasks[i]?).map Task.marked := by
  unfold notifyAll
  induction ks generalizing s with
  | nil => rfl
  | cons k ks ih => simp only [List.foldl]; rw [ih, marked_notify]

theorem getElem?_lt {α} {l : List α} {i : Nat} {x : α} (h : l[i]? = some x) : i < l.length := by
  rcases Nat.lt_or_ge i l.length with h1 | h1
  · exact h1
  · simp [List.getElem?_eq_none h1] at h

/-- the entry of task `t` after `cancelTask s t` -/
def cancelled (tk : Task) : Task :=
  match tk.st with
  | .done _ => tk
  | .blocked _ => { tk with st := .runnable .go, mustCancel := true }
  | .runnable _ => { tk with mustCancel := true }

theorem cancelled_marked (tk : Task) : (cancelled tk).marked = true := by
  unfold cancelled
  cases hst : tk.st <;> simp [Task.marked, Task.isDone, hst]

theorem cancelTask_tasks (s : St) (t : Nat) :
    (cancelTask s t).tasks = match s.tasks[t]? with
      | none => s.tasks
      | some tk => s.tasks.set t (cancelled tk) := by
  unfold cancelTask cancelled
  cases h : s.tasks[t]? with
  | none => rfl
  | some tk =>
    simp only []
    cases hst : tk.st with
    | runnable rv => simp [St.setTask]
    | blocked w => simp [St.setTask]
    | done r =>
      simp only []
      have hlt := getElem?_lt h
      have hget : s.tasks[t] = tk := by simpa [List.getElem?_eq_getElem hlt] using h
      rw [← hget]; exact (List.set_getElem_self hlt).symm

/-- cancellation only ever adds marks -/
theorem marked_cancelTask_mono (s : St) (t i : Nat) (tk : Task) (h : s.tasks[i]? = some tk) (hm : tk.marked = true) :
    ∃ tk', (cancelTask s t).tasks[i]? = some tk' ∧ tk'.marked = true := by
  rw [cancelTask_tasks]
  cases ht : s.tasks[t]? with
  | none => exact ⟨tk, h, hm⟩
  | some tk0 =>
    simp only []
    by_cases hit : i = t
    · subst hit
      exact ⟨cancelled tk0, by simp [getElem?_lt h], cancelled_marked _⟩
    · exact ⟨tk, by simp [List.getElem?_set_ne (Ne.symm hit), h], hm⟩

/-- after `cancelTask s t`, task `t` (if it exists) is marked -/
theorem marked_cancelTask_self (s : St) (t : Nat) (tk : Task) (h : s.tasks[t]? = some tk) :
    ∃ tk', (cancelTask s t).tasks[t]? = some tk' ∧ tk'.marked = true := by
  rw [cancelTask_tasks, h]
  exact ⟨cancelled tk, by simp [getElem?_lt h], cancelled_marked _⟩

/-- `_stop_coro_tasks(*tasks)`: every listed task ends up marked, and no mark is lost -/
theorem marked_cancelTasks (ts : List Nat) : ∀ (s : St) (i : Nat) (tk : Task), s.tasks[i]? = some tk →
    (i ∈ ts ∨ tk.marked = true) → ∃ tk', (cancelTasks s ts).tasks[i]? = some tk' ∧ tk'.marked = true := by
  induction ts with
  | nil =>
    intro s i tk h hm
    rcases hm with hm | hm
    · simp at hm
    · exact ⟨tk, h, hm⟩
  | cons t ts ih =>
    intro s i tk h hm
    simp only [cancelTasks, List.foldl]
    have hlen : i < (cancelTask s t).tasks.length := by
      rcases Nat.lt_or_ge i s.tasks.length with h1 | h1
      · simpa using h1
      · simp [List.getElem?_eq_none h1] at h
    by_cases hit : i = t
    · subst hit
      obtain ⟨tk', h', hm'⟩ := marked_cancelTask_self s i tk h
      exact ih _ i tk' h' (Or.inr hm')
    · rcases hm with hm | hm
      · have : i ∈ ts := by simpa [hit] using hm
        obtain ⟨tk', h'⟩ : ∃ tk', (cancelTask s t).tasks[i]? = some tk' := ⟨_, List.getElem?_eq_getElem hlen⟩
        exact ih _ i tk' h' (Or.inl this)
      · obtain ⟨tk', h', hm'⟩ := marked_cancelTask_mono s t i tk h hm
        exact ih _ i tk' h' (Or.inr hm')

theorem mem_liveTasks (s : St) (t i : Nat) (hi : i < s.tasks.length) (hne : i ≠ t) : i ∈ liveTasks s t := by
  simp [liveTasks, hi, hne]

end MLPE.Eng

import MLPE.Proofs.Plain
import MLPE.Proofs.GraphReach

/-!
# Safety of pipelines with switches (any nesting, shared cases and deciders): stored results, arguments and the
returned value agree with the dataflow semantics — under every schedule

No one-of, no recurrent subgraph; switches are arbitrary.  This is a *safety* (partial-correctness) statement: it does
not say that the run terminates (for plain pipelines `Proofs/Plain.lean` does; for switches termination rests on the
tie), it says that whatever is stored, passed to a body or returned is what the dataflow reading of the pipeline
prescribes.  The invariant is local to frames: every frame of every task carries what the code at that suspension
point relies on, and these facts are monotone in the only parts of the state they mention (results and switch
decisions only grow).  A step is a chain of primitive updates (`setRes`, `setSw`, notifications, `spawn`, …), each of
which preserves the invariant *except for the frames of the stepping task*, closed by the primitive that installs the
task's new frames.
-/
namespace MLPE.Eng
open MLPE

variable {val : Node → Option Val}

/-- the candidates of one-of head `h`, in declared order -/
def cands (P : Program) (h : Node) : List Node := (P.g.attr h).oneofNodes

/-- the program has a one-of -/
def HasHeads (P : Program) : Prop := ∃ h, P.g.isOneofHead h = true

/-- programs with switches and one-ofs (any nesting), no recurrent subgraph -/
structure OneP (P : Program) : Prop where
  noRecur  : ∀ n kw i k v, P.body n kw i k = .ret v → v.isRecur = false ∧ v.isExc = false
  noRecurD : ∀ n kw, (P.dflt n kw).isRecur = false ∧ (P.dflt n kw).isExc = false
  /-- every `get_default` returns (a failing default is outside this fragment; the engine model covers it) -/
  dfltOk   : ∀ n, P.dfltRaise n = none
  /-- decision nodes are ordinary nodes (the builder refers to them by their class) -/
  decPlain : ∀ e ∈ P.g.edges, e.isSwitch = true → P.g.isSwitch e.u = false
  /-- the edges into a synthetic switch node are its decision edge and its case edges -/
  swEdges  : ∀ e ∈ P.g.edges, P.g.isSwitch e.v = true → e.isSwitch = true ∨ e.case.isSome = true
  /-- a switch has one decision edge -/
  decUnique : ∀ S, ((P.g.edges.filter (fun e => e.v == S)).filter (·.isSwitch)).length ≤ 1
  inOut    : P.g.input ≠ P.g.output
  inIn     : P.g.input ∈ P.g.nodes ∧ (P.g.attr P.g.input).isOneofChild = false
  outIn    : P.g.output ∈ P.g.nodes ∧ (P.g.attr P.g.output).isOneofChild = false
  headPlain : ∀ h, P.g.isOneofHead h = true → P.g.isSwitch h = false
  /-- the edges into a synthetic one-of head come from its candidates and from the input node -/
  headEdges : ∀ e ∈ P.g.edges, P.g.isOneofHead e.v = true → (cands P e.v).contains e.u = true ∨ e.u = P.g.input
  /-- the input node is the root -/
  inRoot   : ∀ e ∈ P.g.edges, e.v ≠ P.g.input
  /-- an edge into an ordinary node that carries no parameter comes from the input node -/
  kwEdges  : ∀ e ∈ P.g.edges, P.g.isSwitch e.v = false ∧ P.g.isOneofHead e.v = false → e.kwarg = none → e.u = P.g.input
  /-- an opened candidate is a node of the graph that the input node reaches in the filtered view -/
  candReach : ∀ (h c : Node) (s : St), P.g.isOneofHead h = true → c ∈ cands P h → s.opened c = true →
    c ∈ P.g.nodes ∧ c ≠ P.g.input ∧ c ∈ P.g.reachSet (filteredView P s) P.g.input

/-- programs with switches only -/
structure SwP (P : Program) : Prop extends OneP P where
  noHead   : ∀ n, P.g.isOneofHead n = false

/-- the structural part of `OneP` from its Boolean form (`onePB`, which the driver evaluates on generated programs) -/
theorem oneP_of_check {P : Program} (hc : onePB P = true)
    (headsIn : ∀ h, P.g.isOneofHead h = true → h ∈ P.g.nodes)
    (hr : ∀ n kw i k v, P.body n kw i k = .ret v → v.isRecur = false ∧ v.isExc = false)
    (hrd : ∀ n kw, (P.dflt n kw).isRecur = false ∧ (P.dflt n kw).isExc = false)
    (hdo : ∀ n, P.dfltRaise n = none) : OneP P := by
  unfold onePB at hc
  simp only [Bool.and_eq_true, List.all_eq_true, Bool.or_eq_true, Bool.not_eq_true', decide_eq_true_eq, bne_iff_ne, ne_eq,
    List.contains_iff_mem, beq_iff_eq] at hc
  obtain ⟨⟨⟨⟨⟨⟨⟨⟨⟨⟨⟨h1, h2⟩, h3⟩, h4⟩, h5⟩, h6⟩, h7⟩, h8⟩, h9⟩, h10⟩, h11⟩, _⟩ := hc
  refine { noRecur := hr, noRecurD := hrd, dfltOk := hdo, decPlain := ?_, swEdges := ?_, decUnique := ?_, inOut := h4, inIn := h5, outIn := h6,
           headPlain := ?_, headEdges := ?_, inRoot := h9, kwEdges := ?_, candReach := ?_ }
  · intro e he hs
    rcases h1 e he with h | h
    · rw [hs] at h; cases h
    · exact h
  · intro e he hs
    rcases h2 e he with (h | h) | h
    · rw [hs] at h; cases h
    · exact Or.inl h
    · exact Or.inr h
  · intro S
    cases hL : P.g.edges.filter (fun e => e.v == S) with
    | nil => simp
    | cons e0 rest =>
      have hm : e0 ∈ P.g.edges.filter (fun e => e.v == S) := by rw [hL]; simp
      simp only [List.mem_filter, beq_iff_eq] at hm
      have := h3 e0 hm.1
      rw [hm.2, hL] at this
      exact this
  · intro h hh
    rcases h7 h (headsIn h hh) with h' | h'
    · rw [hh] at h'; cases h'
    · exact h'
  · intro e he hh
    rcases h8 e he with (h | h) | h
    · rw [hh] at h; cases h
    · exact Or.inl (by simpa [cands, List.contains_iff_mem] using h)
    · exact Or.inr h
  · intro e he hns hk
    rcases h10 e he with ((h | h) | h) | h
    · rw [hns.1] at h; cases h
    · rw [hns.2] at h; cases h
    · rw [hk] at h; cases h
    · exact h
  · intro h c s hh hc' hop
    rcases h11 h (headsIn h hh) with h' | h'
    · rw [hh] at h'; cases h'
    · obtain ⟨⟨a1, a2⟩, a3⟩ := h' c hc'
      exact ⟨a1, a2, a3⟩

theorem SwP.noHeads {P : Program} (h : SwP P) : ¬ HasHeads P := by
  intro ⟨x, hx⟩; rw [h.noHead x] at hx; cases hx

/-! ### the dataflow reading with switches and one-ofs -/

/-- `val` solves the dataflow equations: an ordinary node has the value the retry / default policy yields on the values
of its sources (a switch source contributes the value of its selected case, a one-of source the value of its first
successful candidate); a switch node has the value of the case whose label its decision node returned; a one-of head has
the value of the first candidate, in declared order, that has one -/
structure SolutionOne (P : Program) (val : Node → Option Val) : Prop where
  plain : ∀ n, P.g.isSwitch n = false → P.g.isOneofHead n = false →
    val n = if (P.g.preds n).all (fun p => (val p).isSome) then valueOf P n (kwFrom P val n) else none
  sw    : ∀ S, P.g.isSwitch S = true → val S = (swSel P val S).bind val
  head  : ∀ h, P.g.isOneofHead h = true → val h = (cands P h).findSome? val
  /-- (used by the one-of theorems only) the input node itself does not fail -/
  input : HasHeads P → (val P.g.input).isSome = true

/-- the equations of a switch-only program -/
structure SolutionSw (P : Program) (val : Node → Option Val) : Prop where
  plain : ∀ n, P.g.isSwitch n = false →
    val n = if (P.g.preds n).all (fun p => (val p).isSome) then valueOf P n (kwFrom P val n) else none
  sw    : ∀ S, P.g.isSwitch S = true → val S = (swSel P val S).bind val

/-- in a program without one-ofs no exception object is ever stored: `SolutionSw` programs -/
theorem SolutionSw.toOne {P : Program} (h : SolutionSw P val) (hsw : SwP P) : SolutionOne P val :=
  ⟨fun n h1 _ => h.plain n h1, h.sw, fun x hx => (by rw [hsw.noHead x] at hx; cases hx),
   fun hh => absurd hh hsw.noHeads⟩

/-- the decision recorded for switch `S` is the semantic one -/
def SwChoice (P : Program) (val : Node → Option Val) (S : Node) (l : Label) (c : Node) : Prop :=
  switchLabelV P val S = some (.str l) ∧ ((switchCases P S).filter (·.1 == l)).getLast? = some (l, c)

theorem SwChoice.sel {P : Program} {S : Node} {l : Label} {c : Node} (h : SwChoice P val S l c) : swSel P val S = some c := by
  simp [swSel, h.1, h.2]

/-! ### laziness: what the dataflow reading needs -/

/-- the nodes the result depends on: the output; every source of a needed ordinary node; the decision node and the
**selected** case of a needed switch (a case that is not selected is needed only if somebody else needs it); the
non-candidate sources of a needed one-of head and every candidate **all of whose predecessors in the declared order have
no value** -/
inductive Demanded (P : Program) (val : Node → Option Val) : Node → Prop
  | out : Demanded P val P.g.output
  | pred {n p : Node} : Demanded P val n → P.g.isSwitch n = false → P.g.isOneofHead n = false → p ∈ P.g.preds n →
      Demanded P val p
  | decider {S : Node} {e : Edge} : Demanded P val S → P.g.isSwitch S = true → e ∈ P.g.edges → e.v = S →
      e.isSwitch = true → Demanded P val e.u
  | case {S c : Node} : Demanded P val S → P.g.isSwitch S = true → swSel P val S = some c → Demanded P val c
  | headDep {h : Node} {e : Edge} : Demanded P val h → P.g.isOneofHead h = true → e ∈ P.g.edges → e.v = h →
      (cands P h).contains e.u = false → Demanded P val e.u
  | cand {h c : Node} {pre post : List Node} : Demanded P val h → P.g.isOneofHead h = true →
      cands P h = pre ++ c :: post → (∀ x ∈ pre, val x = none) → Demanded P val c

/-- need propagates backwards along every edge a reduced DAG can contain (case edges and candidate→head edges are
filtered out) -/
theorem Demanded.back_edge {P : Program} (hsw : OneP P) {s : St} {a b : Node}
    (he : Graph.VEdge P.g (filteredView P s) a b) (hb : Demanded P val b) : Demanded P val a := by
  obtain ⟨e, hm, hu, hv, hok⟩ := he
  subst hu hv
  simp only [filteredView, Bool.and_eq_true, Option.isNone_iff_eq_none, Bool.not_eq_true'] at hok
  cases hS : P.g.isSwitch e.v with
  | false =>
    cases hH : P.g.isOneofHead e.v with
    | false =>
      refine .pred hb hS hH ?_
      simp only [Graph.preds, List.mem_map, List.mem_filter, beq_iff_eq]
      exact ⟨e, ⟨hm, rfl⟩, rfl⟩
    | true => exact .headDep hb hH hm rfl hok.2
  | true =>
    rcases hsw.swEdges e hm hS with h1 | h1
    · exact .decider hb hS hm rfl h1
    · rw [hok.1] at h1; cases h1

theorem Demanded.of_vreach {P : Program} (hsw : OneP P) {s : St} {a b : Node}
    (h : Graph.VReach P.g (filteredView P s) a b) : Demanded P val b → Demanded P val a := by
  induction h with
  | refl => exact id
  | tail _ he ih => exact fun hc => ih (Demanded.back_edge hsw he hc)

/-- the input and the output node are always visible: a reduced DAG is never the one-node special case -/
theorem vnodes_not_single {P : Program} (hsw : OneP P) (s : St) (x : Node) :
    P.g.vnodes (filteredView P s) ≠ [x] := by
  intro h
  have hi : P.g.input ∈ P.g.vnodes (filteredView P s) := by
    simp only [Graph.vnodes, List.mem_filter, filteredView, hsw.inIn.2, Bool.not_false, Bool.true_or, and_true]
    exact hsw.inIn.1
  have ho : P.g.output ∈ P.g.vnodes (filteredView P s) := by
    simp only [Graph.vnodes, List.mem_filter, filteredView, hsw.outIn.2, Bool.not_false, Bool.true_or, and_true]
    exact hsw.outIn.1
  rw [h, List.mem_singleton] at hi ho
  exact hsw.inOut (hi.trans ho.symm)

/-- the nodes of a reduced DAG reach its destination along edges the view keeps -/
theorem reducedRef_reach {P : Program} (hsw : OneP P) {s : St} {src dst : Node} {f1 f2 f3 : Bool} {d : DagRef}
    (h : reducedRef P s src dst f1 f2 f3 = some d) :
    d.isRec = f1 ∧ d.isOneof = f2 ∧ d.isNested = f3 ∧ ∀ n ∈ d.nodes, Graph.VReach P.g (filteredView P s) n dst := by
  unfold reducedRef at h
  simp only [] at h
  split at h
  · next x hx => exact absurd hx (vnodes_not_single hsw s x)
  · split at h
    · cases h
    · next ns hns =>
      cases h
      exact ⟨rfl, rfl, rfl, fun n hn => Graph.between_sound hns hn⟩

theorem reducedRef_dest {P : Program} (hsw : OneP P) {s : St} {src dst : Node} {f1 f2 f3 : Bool} {d : DagRef}
    (h : reducedRef P s src dst f1 f2 f3 = some d) : d.dest = some dst := by
  unfold reducedRef at h
  simp only [] at h
  split at h
  · next x hx => exact absurd hx (vnodes_not_single hsw s x)
  · split at h
    · cases h
    · cases h; rfl

/-- every node of a reduced DAG that ends in a needed node is needed -/
theorem Demanded.of_reducedRef {P : Program} (hsw : OneP P) {s : St} {src dst : Node} {f1 f2 f3 : Bool} {d : DagRef}
    (h : reducedRef P s src dst f1 f2 f3 = some d) (hd : Demanded P val dst) : ∀ n ∈ d.nodes, Demanded P val n :=
  fun n hn => Demanded.of_vreach hsw ((reducedRef_reach hsw h).2.2.2 n hn) hd

/-- the state carries a ghost flag saying that the oracle once supplied a launch order the model rejects; laziness
facts hold unless it is set -/
def Lz (s : St) (X : Prop) : Prop := s.badOrd = true ∨ X

theorem Lz.imp {s : St} {X Y : Prop} (h : Lz s X) (f : X → Y) : Lz s Y := h.elim Or.inl (fun x => Or.inr (f x))

theorem Lz.intro {s : St} {X : Prop} (h : X) : Lz s X := Or.inr h

/-! ### why a run may fail -/

/-- the possible origins of an exception: the final failure of a node on its dataflow arguments, a failing collaborator,
a switch whose decision value names no case, a one-of none of whose candidates has a value, or a lookup error of the
engine's setup (a case not reachable from the input; pools not registered) -/
def ErrCause (P : Program) (val : Node → Option Val) (e : Exc) : Prop :=
  (∃ n, P.g.isSwitch n = false ∧ P.g.isOneofHead n = false ∧ NodeFails P val n e) ∨ CollabFails P e ∨
  (∃ S, P.g.isSwitch S = true ∧ e = ⟨"SwitchNoCase", S, 0, 0⟩ ∧ swSel P val S = none) ∨
  e = ⟨"Other:NodeNotFound", 0, 0, 0⟩ ∨ (P.poolsOk = false ∧ e = ⟨"Other:RuntimeError", 0, 0, 0⟩) ∨
  (∃ h, P.g.isOneofHead h = true ∧ e = ⟨"OneOfNoResult", h, 0, 0⟩ ∧ val h = none)

/-- what an outcome of `chart.run` must be: the value of the output node, or an error with a cause.  (An exception
object can be returned as a value only if the output node was executed inside a one-of scope, which a valid launch
order excludes — see `SData.outLz`.) -/
def OutcomeOKSw (P : Program) (val : Node → Option Val) : Outcome → Prop
  | .value v => (v.isExc = false → val P.g.output = some v) ∧ (v.isExc = true → HasHeads P)
  | .error e => ErrCause P val e
  | .raised e => ErrCause P val e
  | .cancelled => True

/-! ### what the frames rely on -/

/-- the source `u` of an input edge is available: a result, or for a switch a recorded decision whose case has a result
(or the no-case error the switch keeps as its own result inside a one-of scope) -/
def SrcReady (P : Program) (s : St) (u : Node) : Prop :=
  if P.g.isSwitch u then (∃ l c, s.sw u = some (l, c) ∧ (s.res c).isSome = true) ∨ (s.res u).isSome = true
  else (s.res u).isSome = true

def InputsReady (P : Program) (s : St) (n : Node) : Prop := ∀ e ∈ P.g.edges, e.v = n → SrcReady P s e.u

def DeciderReady (P : Program) (s : St) (S : Node) : Prop :=
  ∀ e ∈ P.g.edges, e.v = S → e.isSwitch = true → (s.res e.u).isSome = true

/-- an ordinary node: neither a synthetic switch node nor a synthetic one-of head -/
def Ord (P : Program) (n : Node) : Prop := P.g.isSwitch n = false ∧ P.g.isOneofHead n = false

def PcOK (P : Program) (val : Node → Option Val) (s : St) (n : Node) : NodePc → Prop
  | .start => InputsReady P s n
  | .evWait => True
  | .body k kw inv => Att P val n k kw inv
  | .sleep k kw inv => Att P val n (k + 1) kw inv
  | .cbStart _ inv => InputsReady P s n ∧ inv = 0
  | .cbRetry _ k kw inv => Att P val n (k + 1) kw inv
  | .cbOk _ v => val n = some v ∧ v.isRecur = false ∧ v.isExc = false
  | .cbFail _ e => ErrCause P val e ∧ val n = none
  | .cbSave _ => True

/-- the flags of the DAG a frame works on: not a recurrent DAG; a one-of DAG only in a program with one-ofs -/
structure DagFl (P : Program) (d : DagRef) : Prop where
  notRec : d.isRec = false
  one    : d.isOneof = true → HasHeads P
  /-- every node of the DAG reaches its destination along dependency edges -/
  reach  : ∀ dn, d.dest = some dn → ∀ x ∈ d.nodes, ∃ s0, Graph.VReach P.g (filteredView P s0) x dn

/-- `sub` is the reduced DAG of candidate `cand`: every node of it reaches `cand` along dependency edges, `cand` is one
of them, and it is a one-of DAG -/
structure SubOK (P : Program) (sub : DagRef) (cand : Node) : Prop where
  fl    : DagFl P sub
  isOne : sub.isOneof = true
  reach : ∀ x ∈ sub.nodes, Graph.VReach P.g (filteredView P init) x cand
  mem   : cand ∈ sub.nodes

def FrameOK (P : Program) (val : Node → Option Val) (s : St) : Frame → Prop
  | .node d n force pc => DagFl P d ∧ force = false ∧ Ord P n ∧ Lz s (Demanded P val n) ∧ PcOK P val s n pc
  | .dagInit d => DagFl P d ∧ Lz s (∀ n ∈ d.nodes, Demanded P val n)
  | .dagLaunch d rest => DagFl P d ∧ Lz s (∀ n ∈ d.nodes, Demanded P val n) ∧ Lz s (∀ n ∈ rest, n ∈ d.nodes)
  | .dagWaitDest d => DagFl P d
  | .switchStart d n => DagFl P d ∧ P.g.isSwitch n = true ∧ Lz s (Demanded P val n) ∧ DeciderReady P s n
  | .switchRet d _ => DagFl P d
  | .mgrStart => True
  | .mgrWait => True
  | .mgrCbStart _ => True
  | .mgrCbComplete _ o => OutcomeOKSw P val o
  | .oneofStart d h => DagFl P d ∧ P.g.isOneofHead h = true ∧ Lz s (Demanded P val h)
  | .oneofWait d h cand rest sub => DagFl P d ∧ P.g.isOneofHead h = true ∧ Lz s (Demanded P val h) ∧
      (∃ pre, cands P h = pre ++ cand :: rest ∧ ∀ x ∈ pre, val x = none) ∧ SubOK P sub cand
  | .recStart _ _ _ => False
  | .recIterRet _ _ _ _ _ => False
  | .recDfltRet _ _ _ => False

/-- results and switch decisions only grow: a stored value (not an exception object) never changes, a stored result
stays a result -/
structure Grows (s s' : St) : Prop where
  res : ∀ n v, s.res n = some v → ∃ v', s'.res n = some v' ∧ (v.isExc = false → v' = v)
  sw  : ∀ S lc, s.sw S = some lc → s'.sw S = some lc
  bad : s.badOrd = true → s'.badOrd = true

theorem Grows.refl (s : St) : Grows s s := ⟨fun _ v h => ⟨v, h, fun _ => rfl⟩, fun _ _ h => h, id⟩

theorem Grows.trans {a b c : St} (h1 : Grows a b) (h2 : Grows b c) : Grows a c := by
  refine ⟨?_, fun S lc h => h2.sw S lc (h1.sw S lc h), fun h => h2.bad (h1.bad h)⟩
  intro n v h
  obtain ⟨v1, hv1, e1⟩ := h1.res n v h
  obtain ⟨v2, hv2, e2⟩ := h2.res n v1 hv1
  refine ⟨v2, hv2, ?_⟩
  intro hne
  have := e1 hne
  subst this
  exact e2 hne

theorem Grows.of_eq {s s' : St} (h1 : s'.res = s.res) (h2 : s'.sw = s.sw) (h3 : s'.badOrd = s.badOrd) : Grows s s' :=
  ⟨fun n v h => ⟨v, by rw [h1]; exact h, fun _ => rfl⟩, fun S lc h => by rw [h2]; exact h, fun h => by rw [h3]; exact h⟩

theorem Grows.isSome {s s' : St} (g : Grows s s') {n : Node} (h : (s.res n).isSome = true) : (s'.res n).isSome = true := by
  cases hr : s.res n with
  | none => rw [hr] at h; cases h
  | some v => obtain ⟨v', hv', _⟩ := g.res n v hr; rw [hv']; rfl

theorem Lz.mono {s s' : St} (g : Grows s s') {X : Prop} (h : Lz s X) : Lz s' X := h.elim (fun b => Or.inl (g.bad b)) Or.inr

theorem SrcReady.mono {P : Program} {s s' : St} (g : Grows s s') {u : Node} (h : SrcReady P s u) : SrcReady P s' u := by
  unfold SrcReady at *
  split
  · next hsw =>
    simp only [hsw, if_true] at h
    rcases h with ⟨l, c, h1, h2⟩ | h
    · exact Or.inl ⟨l, c, g.sw _ _ h1, g.isSome h2⟩
    · exact Or.inr (g.isSome h)
  · next hsw =>
    simp only [hsw] at h
    exact g.isSome h

theorem InputsReady.mono {P : Program} {s s' : St} (g : Grows s s') {n : Node} (h : InputsReady P s n) :
    InputsReady P s' n := fun e he hv => (h e he hv).mono g

theorem DeciderReady.mono {P : Program} {s s' : St} (g : Grows s s') {n : Node} (h : DeciderReady P s n) :
    DeciderReady P s' n := fun e he hv hsw => g.isSome (h e he hv hsw)

theorem FrameOK.mono {P : Program} {s s' : St} (g : Grows s s') {f : Frame} (h : FrameOK P val s f) : FrameOK P val s' f := by
  cases f with
  | node d n force pc =>
    obtain ⟨h1, h3, h4, h4', h5⟩ := h
    refine ⟨h1, h3, h4, h4'.mono g, ?_⟩
    cases pc with
    | start => exact InputsReady.mono g h5
    | cbStart j inv => exact ⟨InputsReady.mono g h5.1, h5.2⟩
    | evWait => trivial
    | body k kw inv => exact h5
    | sleep k kw inv => exact h5
    | cbRetry j k kw inv => exact h5
    | cbOk j v => exact h5
    | cbFail j e => exact h5
    | cbSave j => trivial
  | switchStart d n => exact ⟨h.1, h.2.1, h.2.2.1.mono g, h.2.2.2.mono g⟩
  | dagInit d => exact ⟨h.1, h.2.mono g⟩
  | dagLaunch d r => exact ⟨h.1, h.2.1.mono g, h.2.2.mono g⟩
  | dagWaitDest d => exact h
  | switchRet d n => exact h
  | mgrStart => trivial
  | mgrWait => trivial
  | mgrCbStart j => trivial
  | mgrCbComplete j o => exact h
  | oneofStart d hd => exact ⟨h.1, h.2.1, h.2.2.mono g⟩
  | oneofWait d hd c r sub => exact ⟨h.1, h.2.1, h.2.2.1.mono g, h.2.2.2⟩
  | recStart d n r => exact h
  | recIterRet d n st g' k => exact h
  | recDfltRet d n st => exact h

/-! ### the invariant -/

/-- the parts of the state the frames talk about, and the parts a switch-only run never touches -/
structure SData (P : Program) (val : Node → Option Val) (s : St) : Prop where
  resHid  : ∀ n, s.resHid n = false
  procHid : ∀ n, s.procHid n = false
  addl    : ∀ n, s.additional n = none
  hides   : ∀ n, s.hideCount n = 0
  vals    : ∀ n v, s.res n = some v → v.isRecur = false
  /-- a stored value is the node's value in the dataflow reading -/
  agree   : ∀ n v, s.res n = some v → v.isExc = false → val n = some v
  /-- synthetic switch nodes never get a result of their own -/
  notSw   : ∀ n v, s.res n = some v → P.g.isSwitch n = true → v.isExc = true
  /-- a stored exception object (a failure contained by a one-of scope) belongs to a node without a value -/
  excOK   : ∀ n e, s.res n = some (.exc e) → val n = none ∧ ErrCause P val e ∧ HasHeads P
  swOK    : ∀ S l c, s.sw S = some (l, c) → SwChoice P val S l c
  out     : ∀ o, s.outcome = some o → OutcomeOKSw P val o
  /-- laziness: only needed nodes are ever marked as processed (unless the oracle misbehaved) -/
  lazy    : Lz s (∀ n, s.proc n = true → Demanded P val n)
  /-- no restart of a recurrent subgraph, so nothing is invalidated -/
  stale   : s.stale = []

/-- every frame of every task (except task `ex`, whose frames are being replaced) is justified -/
def FramesOK (P : Program) (val : Node → Option Val) (s : St) (ex : Option Nat) : Prop :=
  ∀ (i : Nat) (tk : Task), s.tasks[i]? = some tk → some i ≠ ex → ∀ f ∈ tk.frames, FrameOK P val s f

/-- the exception a task ended with has a cause -/
def ErrsOK (P : Program) (val : Node → Option Val) (s : St) : Prop :=
  ∀ (i : Nat) (tk : Task), s.tasks[i]? = some tk → ∀ e, tk.st = .done (.exc e) → ErrCause P val e

structure SInvX (P : Program) (val : Node → Option Val) (ex : Option Nat) (s : St) : Prop where
  data   : SData P val s
  frames : FramesOK P val s ex
  errs   : ErrsOK P val s

abbrev SInv (P : Program) (val : Node → Option Val) (s : St) : Prop := SInvX P val none s

/-- the generic transport: the data part is re-established, results / decisions have grown, and every task is an old
one with unchanged frames (and no new failure) or is justified -/
theorem SInvX.transport {P : Program} {ex : Option Nat} {s s' : St} (h : SInvX P val ex s) (hd : SData P val s')
    (g : Grows s s')
    (ht : ∀ (i : Nat) (tk' : Task), s'.tasks[i]? = some tk' →
      (∃ tk, s.tasks[i]? = some tk ∧ tk'.frames = tk.frames ∧ ∀ e, tk'.st = .done (.exc e) → tk.st = .done (.exc e)) ∨
      ((some i ≠ ex → ∀ f ∈ tk'.frames, FrameOK P val s' f) ∧ ∀ e, tk'.st = .done (.exc e) → ErrCause P val e)) :
    SInvX P val ex s' := by
  refine ⟨hd, ?_, ?_⟩
  · intro i tk' hi hne f hf
    rcases ht i tk' hi with ⟨tk, h1, h2, _⟩ | h2
    · rw [h2] at hf
      exact (h.frames i tk h1 hne f hf).mono g
    · exact h2.1 hne f hf
  · intro i tk' hi e he
    rcases ht i tk' hi with ⟨tk, h1, _, h3⟩ | h2
    · exact h.errs i tk h1 e (h3 e he)
    · exact h2.2 e he

/-! ### primitives -/

/-- the two states have the same storage -/
structure SameData (s s' : St) : Prop where
  res     : s'.res = s.res
  resHid  : s'.resHid = s.resHid
  procHid : s'.procHid = s.procHid
  sw      : s'.sw = s.sw
  addl    : s'.additional = s.additional
  hides   : s'.hideCount = s.hideCount
  outcome : s'.outcome = s.outcome
  proc    : s'.proc = s.proc
  bad     : s'.badOrd = s.badOrd
  stale   : s'.stale = s.stale

theorem SData.of_same {P : Program} {s s' : St} (h : SData P val s) (e : SameData s s') : SData P val s' :=
  ⟨fun n => by rw [e.resHid]; exact h.resHid n, fun n => by rw [e.procHid]; exact h.procHid n,
   fun n => by rw [e.addl]; exact h.addl n, fun n => by rw [e.hides]; exact h.hides n,
   fun n v hv => by rw [e.res] at hv; exact h.vals n v hv, fun n v hv => by rw [e.res] at hv; exact h.agree n v hv,
   fun n v hv => by rw [e.res] at hv; exact h.notSw n v hv,
   fun n x hv => by rw [e.res] at hv; exact h.excOK n x hv,
   fun S l c hs => by rw [e.sw] at hs; exact h.swOK S l c hs, fun o ho => by rw [e.outcome] at ho; exact h.out o ho,
   by unfold Lz; rw [e.bad, e.proc]; exact h.lazy, by rw [e.stale]; exact h.stale⟩

theorem Grows.of_same {s s' : St} (e : SameData s s') : Grows s s' := Grows.of_eq e.res e.sw e.bad

/-- nothing but the listed task entry changes -/
theorem old_task {s : St} {i : Nat} {tk : Task} (hi : s.tasks[i]? = some tk) :
    ∃ tk0, s.tasks[i]? = some tk0 ∧ tk.frames = tk0.frames ∧ ∀ e, tk.st = .done (.exc e) → tk0.st = .done (.exc e) :=
  ⟨tk, hi, rfl, fun _ h => h⟩

/-- only the task list changes, pointwise, frames untouched, no task newly failed (notifications, events, completions,
cancellations) -/
theorem SInvX.map_tasks {P : Program} {ex : Option Nat} {s s' : St} (h : SInvX P val ex s) (e : SameData s s')
    (F : Task → Task) (ht : s'.tasks = s.tasks.map F) (hF : ∀ tk, (F tk).frames = tk.frames)
    (hS : ∀ tk e, (F tk).st = .done (.exc e) → tk.st = .done (.exc e)) : SInvX P val ex s' := by
  refine h.transport (h.data.of_same e) (Grows.of_same e) ?_
  intro i tk' hi
  rw [ht, List.getElem?_map] at hi
  cases hs : s.tasks[i]? with
  | none => simp [hs] at hi
  | some tk =>
    simp only [hs, Option.map_some, Option.some.injEq] at hi
    subst hi
    exact Or.inl ⟨tk, rfl, hF tk, hS tk⟩

theorem wakeIf_frames' (p : Wait → Bool) (tk : Task) : (wakeIf p tk).frames = tk.frames := by
  unfold wakeIf; split <;> (try split) <;> rfl

theorem wakeIf_exc (p : Wait → Bool) (tk : Task) (e : Exc) (h : (wakeIf p tk).st = .done (.exc e)) :
    tk.st = .done (.exc e) := by
  unfold wakeIf at h
  split at h
  · split at h
    · cases h
    · exact h
  · exact h

theorem SInvX.notify {P : Program} {ex : Option Nat} {s : St} (h : SInvX P val ex s) (k : Key) :
    SInvX P val ex (notify s k) :=
  h.map_tasks ⟨rfl, rfl, rfl, rfl, rfl, rfl, rfl, rfl, rfl, rfl⟩ _ rfl (wakeIf_frames' _) (wakeIf_exc _)

theorem SInvX.notifyAll {P : Program} {ex : Option Nat} (ks : List Key) : ∀ {s : St}, SInvX P val ex s →
    SInvX P val ex (notifyAll s ks) := by
  induction ks with
  | nil => intro s h; exact h
  | cons k ks ih => intro s h; simp only [Eng.notifyAll, List.foldl_cons]; exact ih (h.notify k)

theorem SInvX.setEvent {P : Program} {ex : Option Nat} {s : St} (h : SInvX P val ex s) (n : Node) :
    SInvX P val ex (setEvent s n) :=
  h.map_tasks ⟨rfl, rfl, rfl, rfl, rfl, rfl, rfl, rfl, rfl, rfl⟩ _ rfl (wakeIf_frames' _) (wakeIf_exc _)

theorem SInvX.nodeFinally {P : Program} {ex : Option Nat} {s : St} (h : SInvX P val ex s) (d : DagRef) (n : Node)
    (u : Bool) : SInvX P val ex (nodeFinally P s d n u) := by
  unfold Eng.nodeFinally
  simp only []
  split
  · exact (h.setEvent n).notify _
  · exact ((((h.setEvent n).notifyAll _).notify _).notify _)

theorem SInvX.unwindFrames {P : Program} {ex : Option Nat} (fs : List Frame) : ∀ {s : St}, SInvX P val ex s →
    SInvX P val ex (unwindFrames P s fs) := by
  induction fs with
  | nil => intro s h; exact h
  | cons f fs ih =>
    intro s h
    cases f <;> simp only [Eng.unwindFrames] <;> try exact ih h
    split
    · exact ih h
    · exact ih (h.nodeFinally _ _ _)

/-- installing justified frames (and a justified end state) for the excepted task closes the invariant -/
theorem SInvX.close {P : Program} {t : Nat} {s : St} (h : SInvX P val (some t) s) (tk' : Task)
    (hf : ∀ f ∈ tk'.frames, FrameOK P val s f) (hst : ∀ e, tk'.st = .done (.exc e) → ErrCause P val e) :
    SInv P val (s.setTask t tk') := by
  refine ⟨(h.data.of_same ⟨rfl, rfl, rfl, rfl, rfl, rfl, rfl, rfl, rfl, rfl⟩), ?_, ?_⟩
  · intro i tk hi _ f hfm
    by_cases hit : i = t
    · subst hit
      simp only [St.setTask] at hi
      by_cases hlt : i < s.tasks.length
      · rw [List.getElem?_set_self hlt] at hi; cases hi
        exact (hf f hfm).mono (Grows.refl _)
      · rw [List.getElem?_eq_none (by simp; omega)] at hi; cases hi
    · simp only [St.setTask, List.getElem?_set_ne (Ne.symm hit)] at hi
      exact (h.frames i tk hi (by simp; exact hit) f hfm).mono (Grows.refl _)
  · intro i tk hi e he
    by_cases hit : i = t
    · subst hit
      simp only [St.setTask] at hi
      by_cases hlt : i < s.tasks.length
      · rw [List.getElem?_set_self hlt] at hi; cases hi
        exact hst e he
      · rw [List.getElem?_eq_none (by simp; omega)] at hi; cases hi
    · simp only [St.setTask, List.getElem?_set_ne (Ne.symm hit)] at hi
      exact h.errs i tk hi e he

/-- forgetting what is known about one task's frames -/
theorem SInvX.weaken {P : Program} {s : St} (h : SInv P val s) (t : Nat) : SInvX P val (some t) s :=
  ⟨h.data, fun i tk hi _ f hf => h.frames i tk hi (by simp) f hf, h.errs⟩

/-- when the excepted task does not exist, nothing is excepted -/
theorem SInvX.of_missing {P : Program} {t : Nat} {s : St} (h : SInvX P val (some t) s) (hm : s.tasks[t]? = none) :
    SInv P val s :=
  ⟨h.data, fun i tk hi _ f hf => h.frames i tk hi (by
    intro e; simp only [Option.some.injEq] at e; subst e; rw [hm] at hi; cases hi) f hf, h.errs⟩

/-! ### observations -/

/-- what an observation of a run of a switch-only program must satisfy -/
def ObsOK (P : Program) (val : Node → Option Val) : Obs → Prop
  | .body n inv k kw => Att P val n k kw inv
  | .dflt n kw => kw = kwFrom P val n ∧ (P.g.preds n).all (fun p => (val p).isSome) = true ∧
      finalOf P n (kwFrom P val n) = some .default
  | .save n v => val n = some v ∧ v.isRecur = false ∧ v.isExc = false
  | .ncomplete n none => (val n).isSome = true
  | .ncomplete n (some e) => (∃ k, P.body n (kwFrom P val n) 0 k = .raise e) ∨ CollabFails P e ∨
      (ErrCause P val e ∧ val n = none)
  | .pcomplete o => OutcomeOKSw P val o
  | .returned o => OutcomeOKSw P val o
  | _ => True

def ObsAll (P : Program) (val : Node → Option Val) (obs : List Obs) : Prop := ∀ o ∈ obs, ObsOK P val o

theorem ObsAll.nil {P : Program} : ObsAll P val [] := by intro o ho; cases ho

theorem ObsAll.snoc {P : Program} {obs : List Obs} {o : Obs} (h : ObsAll P val obs) (ho : ObsOK P val o) :
    ObsAll P val (obs ++ [o]) := by
  intro o' ho'
  rcases List.mem_append.mp ho' with h1 | h1
  · exact h o' h1
  · simp only [List.mem_singleton] at h1; subst h1; exact ho

theorem ObsAll.append {P : Program} {a b : List Obs} (h1 : ObsAll P val a) (h2 : ObsAll P val b) :
    ObsAll P val (a ++ b) := by
  intro o ho
  rcases List.mem_append.mp ho with h | h
  · exact h1 o h
  · exact h2 o h

theorem ObsAll.ite {P : Program} {a b : List Obs} {c : Prop} [Decidable c] (h1 : ObsAll P val a) (h2 : ObsAll P val b) :
    ObsAll P val (if c then a else b) := by
  split
  · exact h1
  · exact h2

/-- the result of a handler: the invariant holds again and everything observed is justified -/
def Good (P : Program) (val : Node → Option Val) (out : Out) : Prop := SInv P val out.1 ∧ ObsAll P val out.2

theorem good_endTask {P : Program} {s : St} (c : Ctx) (h : SInvX P val (some c.t) s) {obs : List Obs}
    (ho : ObsAll P val obs) (r : TaskRes) (hr : ∀ e, r = .exc e → ErrCause P val e) :
    Good P val (endTask c s obs r) := by
  unfold Eng.endTask
  split
  · next hm => exact ⟨h.of_missing hm, ho⟩
  · refine ⟨h.close _ (by intro f hf; simp at hf) ?_, ho.snoc trivial⟩
    intro e he
    simp only [TaskSt.done.injEq] at he
    exact hr e he

theorem good_block {P : Program} {s : St} (c : Ctx) (h : SInvX P val (some c.t) s) {obs : List Obs}
    (ho : ObsAll P val obs) (fs : List Frame) (w : Wait) (hf : ∀ f ∈ fs, FrameOK P val s f) :
    Good P val (block c s obs fs w) := by
  unfold Eng.block
  split
  · next hm => exact ⟨h.of_missing hm, ho⟩
  · exact ⟨h.close _ hf (by intro e he; cases he), ho⟩

theorem good_yieldNow {P : Program} {s : St} (c : Ctx) (h : SInvX P val (some c.t) s) {obs : List Obs}
    (ho : ObsAll P val obs) (fs : List Frame) (hf : ∀ f ∈ fs, FrameOK P val s f) :
    Good P val (yieldNow c s obs fs) := by
  unfold Eng.yieldNow
  split
  · next hm => exact ⟨h.of_missing hm, ho⟩
  · exact ⟨h.close _ hf (by intro e he; cases he), ho⟩

theorem good_retTo {P : Program} {s : St} (c : Ctx) (h : SInvX P val (some c.t) s) {obs : List Obs}
    (ho : ObsAll P val obs) (below : List Frame) (v : Val) (hf : ∀ f ∈ below, FrameOK P val s f) :
    Good P val (retTo c s obs below v) := by
  unfold Eng.retTo
  split
  · exact good_endTask c h ho .ok (by intro e he; cases he)
  · split
    · next hm => exact ⟨h.of_missing hm, ho⟩
    · exact ⟨h.close _ hf (by intro e he; cases he), ho⟩

theorem good_raiseOut {P : Program} {s : St} (c : Ctx) (hcP : c.P = P) (h : SInvX P val (some c.t) s)
    {obs : List Obs} (ho : ObsAll P val obs) (below : List Frame) (r : TaskRes)
    (hr : ∀ e, r = .exc e → ErrCause P val e) : Good P val (raiseOut c s obs below r) := by
  unfold Eng.raiseOut
  rw [hcP]
  exact good_endTask c (h.unwindFrames below) ho r hr

theorem grows_setRes_val {P : Program} {s : St} (hd : SData P val s) (n : Node) (v : Val) (hv : val n = some v) :
    Grows s (s.setRes n v) := by
  refine ⟨?_, fun _ _ h => h, id⟩
  intro m w hm
  simp only [St.setRes, upd]
  split
  · next he =>
    subst he
    refine ⟨v, rfl, ?_⟩
    intro hne
    have := hd.agree m w hm hne
    rw [hv] at this; exact Option.some.inj this
  · exact ⟨w, hm, fun _ => rfl⟩

theorem grows_setRes_exc {P : Program} {s : St} (hd : SData P val s) (n : Node) (e : Exc) (hv : val n = none) :
    Grows s (s.setRes n (.exc e)) := by
  refine ⟨?_, fun _ _ h => h, id⟩
  intro m w hm
  simp only [St.setRes, upd]
  split
  · next he =>
    subst he
    refine ⟨.exc e, rfl, ?_⟩
    intro hne
    have := hd.agree m w hm hne
    rw [hv] at this; cases this
  · exact ⟨w, hm, fun _ => rfl⟩

/-- storing a value that agrees with the solution -/
theorem SInvX.setRes {P : Program} {ex : Option Nat} {s : St} (h : SInvX P val ex s) (n : Node) (v : Val)
    (hv : val n = some v) (hok : v.isRecur = false ∧ v.isExc = false) (hns : P.g.isSwitch n = false) :
    SInvX P val ex (s.setRes n v) := by
  refine h.transport ?_ (grows_setRes_val h.data n v hv) (fun i tk hi => Or.inl (old_task hi))
  refine ⟨?_, h.data.procHid, h.data.addl, h.data.hides, ?_, ?_, ?_, ?_, h.data.swOK, h.data.out, h.data.lazy, h.data.stale⟩
  · intro m; simp only [St.setRes, upd]; split
    · rfl
    · exact h.data.resHid m
  · intro m w hm
    simp only [St.setRes, upd] at hm
    split at hm
    · cases hm; exact hok.1
    · exact h.data.vals m w hm
  · intro m w hm
    simp only [St.setRes, upd] at hm
    split at hm
    · next he => cases hm; subst he; exact fun _ => hv
    · exact h.data.agree m w hm
  · intro m w hm
    simp only [St.setRes, upd] at hm
    split at hm
    · next he => subst he; intro hsm; rw [hns] at hsm; cases hsm
    · exact h.data.notSw m w hm
  · intro m x hm
    simp only [St.setRes, upd] at hm
    split at hm
    · cases hm; exact absurd hok.2 (by simp [Val.isExc])
    · exact h.data.excOK m x hm

/-- storing the exception object of a node that has no value (inside a one-of scope) -/
theorem SInvX.setResExc {P : Program} {ex : Option Nat} {s : St} (h : SInvX P val ex s) (n : Node) (e : Exc)
    (hv : val n = none) (he : ErrCause P val e) (hh : HasHeads P) :
    SInvX P val ex (s.setRes n (.exc e)) := by
  refine h.transport ?_ (grows_setRes_exc h.data n e hv) (fun i tk hi => Or.inl (old_task hi))
  refine ⟨?_, h.data.procHid, h.data.addl, h.data.hides, ?_, ?_, ?_, ?_, h.data.swOK, h.data.out, h.data.lazy, h.data.stale⟩
  · intro m; simp only [St.setRes, upd]; split
    · rfl
    · exact h.data.resHid m
  · intro m w hm
    simp only [St.setRes, upd] at hm
    split at hm
    · cases hm; rfl
    · exact h.data.vals m w hm
  · intro m w hm
    simp only [St.setRes, upd] at hm
    split at hm
    · cases hm; intro hne; simp [Val.isExc] at hne
    · exact h.data.agree m w hm
  · intro m w hm
    simp only [St.setRes, upd] at hm
    split at hm
    · cases hm; intro _; rfl
    · exact h.data.notSw m w hm
  · intro m x hm
    simp only [St.setRes, upd] at hm
    split at hm
    · next hmn => cases hm; subst hmn; exact ⟨hv, he, hh⟩
    · exact h.data.excOK m x hm

/-- recording the semantic decision of a switch -/
theorem SInvX.setSw {P : Program} {ex : Option Nat} {s : St} (h : SInvX P val ex s) (S : Node) (l : Label) (c : Node)
    (hc : SwChoice P val S l c) (hold : ∀ lc, s.sw S = some lc → lc = (l, c)) : SInvX P val ex (s.setSw S (l, c)) := by
  have g : Grows s (s.setSw S (l, c)) := by
    refine ⟨fun _ v h => ⟨v, h, fun _ => rfl⟩, ?_, id⟩
    intro T lc hT
    simp only [St.setSw, upd]
    split
    · next he => subst he; rw [hold lc hT]
    · exact hT
  refine h.transport ?_ g (fun i tk hi => Or.inl (old_task hi))
  refine ⟨h.data.resHid, h.data.procHid, h.data.addl, h.data.hides, h.data.vals, h.data.agree, h.data.notSw, h.data.excOK, ?_, h.data.out,
    h.data.lazy, h.data.stale⟩
  intro T l' c' hT
  simp only [St.setSw, upd] at hT
  split at hT
  · next he => cases hT; subst he; exact hc
  · exact h.data.swOK T l' c' hT

theorem SInvX.markProcessed {P : Program} {ex : Option Nat} {s : St} (h : SInvX P val ex s) (n : Node)
    (hdm : Lz s (Demanded P val n)) : SInvX P val ex (s.markProcessed n) := by
  refine h.transport ?_ (Grows.of_eq rfl rfl rfl) (fun i tk hi => Or.inl (old_task hi))
  refine ⟨h.data.resHid, ?_, h.data.addl, h.data.hides, h.data.vals, h.data.agree, h.data.notSw, h.data.excOK, h.data.swOK, h.data.out, ?_, h.data.stale⟩
  · intro m; simp only [St.markProcessed, upd]; split
    · rfl
    · exact h.data.procHid m
  · rcases h.data.lazy with hb | hl
    · exact Or.inl hb
    · rcases hdm with hb | hd
      · exact Or.inl hb
      · refine Or.inr ?_
        intro m hm
        simp only [St.markProcessed, upd] at hm
        split at hm
        · next he => rw [he]; exact hd
        · exact hl m hm

/-- a new task with justified frames -/
theorem SInvX.spawn {P : Program} {ex : Option Nat} {s : St} (h : SInvX P val ex s) (fs : List Frame) (nm : TaskName)
    (hf : ∀ f ∈ fs, FrameOK P val s f) : SInvX P val ex (spawn s fs nm).1 := by
  refine h.transport (h.data.of_same ⟨rfl, rfl, rfl, rfl, rfl, rfl, rfl, rfl, rfl, rfl⟩) (Grows.of_eq rfl rfl rfl) ?_
  intro i tk hi
  simp only [Eng.spawn] at hi
  by_cases hlt : i < s.tasks.length
  · rw [List.getElem?_append_left hlt] at hi; exact Or.inl (old_task hi)
  · rw [List.getElem?_append_right (by omega)] at hi
    by_cases h0 : i - s.tasks.length = 0
    · rw [h0] at hi; simp at hi; subst hi; exact Or.inr ⟨fun _ => hf, by intro e he; cases he⟩
    · rw [List.getElem?_eq_none (by simp; omega)] at hi; cases hi

theorem SInvX.cancelTask {P : Program} {ex : Option Nat} {s : St} (h : SInvX P val ex s) (a : Nat) :
    SInvX P val ex (cancelTask s a) := by
  unfold Eng.cancelTask
  split
  · exact h
  · next tk0 ha =>
    have key : ∀ tk1 : Task, tk1.frames = tk0.frames → (∀ e, tk1.st = .done (.exc e) → tk0.st = .done (.exc e)) →
        SInvX P val ex (s.setTask a tk1) := by
      intro tk1 h1 h2
      refine h.transport (h.data.of_same ⟨rfl, rfl, rfl, rfl, rfl, rfl, rfl, rfl, rfl, rfl⟩) (Grows.of_eq rfl rfl rfl) ?_
      intro i tk' hi
      by_cases hia : i = a
      · subst hia
        simp only [St.setTask] at hi
        rw [List.getElem?_set_self (getElem?_lt ha)] at hi
        cases hi
        exact Or.inl ⟨tk0, ha, h1, h2⟩
      · simp only [St.setTask, List.getElem?_set_ne (Ne.symm hia)] at hi
        exact Or.inl (old_task hi)
    split
    · exact h
    · exact key _ rfl (by intro e he; cases he)
    · next rv hrv => exact key _ rfl (by intro e he; simp only [hrv] at he; cases he)

theorem SInvX.cancelTasks {P : Program} {ex : Option Nat} (ts : List Nat) : ∀ {s : St}, SInvX P val ex s →
    SInvX P val ex (cancelTasks s ts) := by
  induction ts with
  | nil => intro s h; exact h
  | cons a ts ih =>
    intro s h
    simp only [Eng.cancelTasks, List.foldl]
    have := ih (h.cancelTask a)
    simpa [Eng.cancelTasks] using this

theorem SInvX.setOutcome {P : Program} {ex : Option Nat} {s : St} (h : SInvX P val ex s) (o : Outcome)
    (ho : OutcomeOKSw P val o) : SInvX P val ex (s.setOutcome o) := by
  refine h.transport ?_ (Grows.of_eq rfl rfl rfl) (fun i tk hi => Or.inl (old_task hi))
  refine ⟨h.data.resHid, h.data.procHid, h.data.addl, h.data.hides, h.data.vals, h.data.agree, h.data.notSw, h.data.excOK, h.data.swOK, ?_,
    h.data.lazy, h.data.stale⟩
  intro o' ho'
  simp only [St.setOutcome, Option.some.injEq] at ho'
  subst ho'
  exact ho

/-! ### the node coroutine -/

theorem badOrd_notifyAll (ks : List Key) : ∀ (s : St), (notifyAll s ks).badOrd = s.badOrd := by
  induction ks with
  | nil => intro s; rfl
  | cons k ks ih => intro s; simp only [Eng.notifyAll, List.foldl_cons]; exact ih (notify s k)

theorem badOrd_nodeFinally (P : Program) (s : St) (d : DagRef) (n : Node) (u : Bool) :
    (nodeFinally P s d n u).badOrd = s.badOrd := by
  unfold Eng.nodeFinally
  simp only []
  split
  · rfl
  · show (notifyAll (setEvent s n) _).badOrd = s.badOrd
    rw [badOrd_notifyAll]; rfl

theorem grows_nodeFinally (P : Program) (s : St) (d : DagRef) (n : Node) (u : Bool) : Grows s (nodeFinally P s d n u) := by
  obtain ⟨h1, _, _, _, _, h6, _, _⟩ := nodeFinally_fields P s d n u
  exact Grows.of_eq h1 h6 (badOrd_nodeFinally P s d n u)

theorem grows_unwindFrames (P : Program) : ∀ (fs : List Frame) (s : St), Grows s (unwindFrames P s fs) := by
  intro fs
  induction fs with
  | nil => intro s; exact Grows.refl s
  | cons f fs ih =>
    intro s
    cases f <;> simp only [Eng.unwindFrames] <;> try exact ih s
    split
    · exact ih s
    · exact (grows_nodeFinally P s _ _ true).trans (ih _)

theorem grows_notifyAll (ks : List Key) : ∀ (s : St), Grows s (notifyAll s ks) := by
  induction ks with
  | nil => intro s; exact Grows.refl s
  | cons k ks ih =>
    intro s
    simp only [Eng.notifyAll, List.foldl_cons]
    exact (Grows.of_eq (s := s) (s' := notify s k) rfl rfl rfl).trans (ih _)

/-- facts shared by the handlers of one section of task `c.t` -/
structure StepCtx (P : Program) (val : Node → Option Val) (c : Ctx) (s : St) (below : List Frame) : Prop where
  cP  : c.P = P
  sw  : OneP P
  sol : SolutionOne P val
  inv : SInvX P val (some c.t) s
  bel : ∀ f ∈ below, FrameOK P val s f

theorem StepCtx.to {P : Program} {c : Ctx} {s s' : St} {below : List Frame} (x : StepCtx P val c s below)
    (h : SInvX P val (some c.t) s') (g : Grows s s') : StepCtx P val c s' below :=
  ⟨x.cP, x.sw, x.sol, h, fun f hf => (x.bel f hf).mono g⟩

theorem errCause_collab {P : Program} {e : Exc} (h : CollabFails P e) : ErrCause P val e := Or.inr (Or.inl h)

theorem safe_nodeFinish {P : Program} {c : Ctx} {s : St} {below : List Frame} (x : StepCtx P val c s below)
    (obs : List Obs) (ho : ObsAll P val obs) (d : DagRef) (n : Node) : Good P val (nodeFinish c s obs d n below) := by
  unfold nodeFinish
  rw [x.cP]
  exact good_retTo c (x.inv.nodeFinally d n true) ho below .none
    (fun f hf => (x.bel f hf).mono (grows_nodeFinally P s d n true))

theorem safe_nodeCbRaise {P : Program} {c : Ctx} {s : St} {below : List Frame} (x : StepCtx P val c s below)
    (obs : List Obs) (ho : ObsAll P val obs) (d : DagRef) (n : Node) (e : Exc) (he : ErrCause P val e) :
    Good P val (nodeCbRaise c s obs d n below e) := by
  unfold nodeCbRaise
  rw [x.cP]
  exact good_raiseOut c x.cP (x.inv.nodeFinally d n true) ho below _ (by intro e' h'; cases h'; exact he)

theorem safe_nodeCbRaiseInTry {P : Program} {c : Ctx} {s : St} {below : List Frame} (x : StepCtx P val c s below)
    (obs : List Obs) (ho : ObsAll P val obs) (d : DagRef) (n : Node) (e : Exc) (he : CollabFails P e) :
    Good P val (nodeCbRaiseInTry c s obs d n below e) := by
  unfold nodeCbRaiseInTry
  refine safe_nodeCbRaise x _ ?_ d n e (errCause_collab he)
  split
  · exact ho.snoc (Or.inr (Or.inl he))
  · exact ho

/-- a collaborator call: raise, return at once, or suspend in a justified callback frame -/
theorem safe_cbCall {P : Program} {c : Ctx} {s : St} {below : List Frame} (x : StepCtx P val c s below)
    (cb : Cb) (n : Node) (obs : List Obs) (ho : ObsAll P val obs) (frames : Nat → List Frame)
    (kOk : St → List Obs → Out) (kErr : Exc → St → List Obs → Out)
    (hOk : Good P val (kOk s obs)) (hErr : ∀ e, CollabFails P e → Good P val (kErr e s obs))
    (hfr : ∀ j, ∀ f ∈ frames j, FrameOK P val s f) :
    Good P val (cbCall c cb n s obs frames kOk kErr) := by
  unfold cbCall
  split
  · next e he => exact hErr e ⟨cb, n, by rw [← x.cP]; exact he⟩
  · unfold cbThen
    split
    · exact hOk
    · exact good_yieldNow c x.inv ho _ (hfr _)

theorem safe_cbThen {P : Program} {c : Ctx} {s : St} {below : List Frame} (x : StepCtx P val c s below)
    (obs : List Obs) (ho : ObsAll P val obs) (frames : Nat → List Frame) (m : Nat) (k : St → List Obs → Out)
    (hOk : Good P val (k s obs)) (hfr : ∀ j, ∀ f ∈ frames j, FrameOK P val s f) :
    Good P val (cbThen c s obs frames m k) := by
  unfold cbThen
  split
  · exact hOk
  · exact good_yieldNow c x.inv ho _ (hfr _)

/-- the frame list `node-frame :: below` is justified -/
theorem frames_cons {P : Program} {s : St} {below : List Frame} (hb : ∀ f ∈ below, FrameOK P val s f) (f0 : Frame)
    (h0 : FrameOK P val s f0) : ∀ f ∈ f0 :: below, FrameOK P val s f := by
  intro f hf
  rcases List.mem_cons.mp hf with rfl | h
  · exact h0
  · exact hb f h

/-- `_run_node` after `_execute_node` returned `v` in the task that executed the node -/
theorem safe_nodePost_exec {P : Program} {c : Ctx} {s : St} {below : List Frame} (x : StepCtx P val c s below)
    (obs : List Obs) (ho : ObsAll P val obs) (d : DagRef) (n : Node) (v : Val) (hd : DagFl P d)
    (hns : Ord P n) (hdm : Lz s (Demanded P val n)) (hv : val n = some v) (hok : v.isRecur = false ∧ v.isExc = false) :
    Good P val (nodePost c s obs d n below v true) := by
  have g : Grows s (s.setRes n v) := grows_setRes_val x.inv.data n v hv
  have x1 : StepCtx P val c (s.setRes n v) below := x.to (x.inv.setRes n v hv hok hns.1) g
  simp only [nodePost, recSpawn, recSpawns, hok.1, hok.2, Bool.false_eq_true, if_false, storeIf, if_true,
    Bool.not_false, Bool.true_and, Bool.and_true]
  have ho1 : ObsAll P val (obs ++ [.save n v]) := ho.snoc ⟨hv, hok.1, hok.2⟩
  refine safe_cbCall x1 .save n _ ho1 _ _ _ (safe_nodeFinish x1 _ ho1 d n)
    (fun e he => safe_nodeCbRaise x1 _ ho1 d n e (errCause_collab he)) ?_
  intro j
  exact frames_cons x1.bel _ ⟨hd, rfl, hns, hdm.mono g, trivial⟩

/-- `_run_node` after `_execute_node` stored the node's failure as its result (inside a one-of scope): nothing is
saved, the descendants are woken -/
theorem safe_nodePost_exc {P : Program} {c : Ctx} {s : St} {below : List Frame} (x : StepCtx P val c s below)
    (obs : List Obs) (ho : ObsAll P val obs) (d : DagRef) (n : Node) (e : Exc) (hv : val n = none)
    (he : ErrCause P val e) (hh : HasHeads P) (hns : P.g.isSwitch n = false) :
    Good P val (nodePost c s obs d n below (.exc e) true) := by
  have g : Grows s (s.setRes n (.exc e)) := grows_setRes_exc x.inv.data n e hv
  have x1 : StepCtx P val c (s.setRes n (.exc e)) below := x.to (x.inv.setResExc n e hv he hh) g
  simp only [nodePost, recSpawn, recSpawns, Val.isRecur, Val.isExc, Bool.false_eq_true, if_false, storeIf, if_true,
    Bool.not_false, Bool.true_and, Bool.and_true, Bool.not_true, Bool.and_false]
  rw [x.cP]
  exact good_retTo c (x1.inv.nodeFinally d n true) ho below .none
    (fun f hf => (x1.bel f hf).mono (grows_nodeFinally P _ d n true))

/-- `_run_node` in a task that only waited for the node: nothing is stored, nothing is saved -/
theorem safe_nodePost_wait {P : Program} {c : Ctx} {s : St} {below : List Frame} (x : StepCtx P val c s below)
    (obs : List Obs) (ho : ObsAll P val obs) (d : DagRef) (n : Node) :
    Good P val (nodePost c s obs d n below (s.get n) false) := by
  have hnr : (s.get n).isRecur = false := by
    simp only [St.get, x.inv.data.resHid, Bool.false_eq_true, if_false]
    cases hr : s.res n with
    | none => rfl
    | some w => exact x.inv.data.vals n w hr
  simp only [nodePost, recSpawn, recSpawns, hnr, Bool.false_eq_true, if_false, storeIf, Bool.false_and, Bool.not_false]
  rw [x.cP]
  exact good_retTo c (x.inv.nodeFinally d n true) ho below .none
    (fun f hf => (x.bel f hf).mono (grows_nodeFinally P s d n true))

theorem safe_nodeSuccess {P : Program} {c : Ctx} {s : St} {below : List Frame} (x : StepCtx P val c s below)
    (obs : List Obs) (ho : ObsAll P val obs) (d : DagRef) (n : Node) (v : Val) (hd : DagFl P d)
    (hns : Ord P n) (hdm : Lz s (Demanded P val n)) (hv : val n = some v) (hok : v.isRecur = false ∧ v.isExc = false) :
    Good P val (nodeSuccess c s obs d n below v) := by
  unfold nodeSuccess
  have ho1 : ObsAll P val (obs ++ [.ncomplete n none]) := ho.snoc (by show (val n).isSome = true; rw [hv]; rfl)
  refine safe_cbCall x .ncomplete n _ ho1 _ _ _ (safe_nodePost_exec x _ ho1 d n v hd hns hdm hv hok)
    (fun e he => safe_nodeCbRaiseInTry x _ ho1 d n e he) ?_
  intro j
  exact frames_cons x.bel _ ⟨hd, rfl, hns, hdm, hv, hok⟩

/-- the node failed with `e`: outside a one-of scope the exception leaves the task, inside one it becomes the node's
result -/
theorem safe_nodeFailCont {P : Program} {c : Ctx} {s : St} {below : List Frame} (x : StepCtx P val c s below)
    (obs : List Obs) (ho : ObsAll P val obs) (d : DagRef) (n : Node) (e : Exc) (hd : DagFl P d)
    (hns : Ord P n) (he : ErrCause P val e) (hv : val n = none) : Good P val (nodeFailCont c s obs d n below e) := by
  unfold nodeFailCont
  split
  · next hone => exact safe_nodePost_exc x obs ho d n e hv he (hd.one hone) hns.1
  · rw [x.cP]
    exact good_raiseOut c x.cP (x.inv.nodeFinally d n true) ho below _ (by intro e' h'; cases h'; exact he)

theorem safe_nodeFail {P : Program} {c : Ctx} {s : St} {below : List Frame} (x : StepCtx P val c s below)
    (obs : List Obs) (ho : ObsAll P val obs) (d : DagRef) (n : Node) (e : Exc) (hd : DagFl P d)
    (hns : Ord P n) (hdm : Lz s (Demanded P val n)) (hb : ObsOK P val (.ncomplete n (some e)))
    (he : ErrCause P val e) (hv : val n = none) : Good P val (nodeFail c s obs d n below e) := by
  unfold nodeFail
  have ho1 : ObsAll P val (obs ++ [.ncomplete n (some e)]) := ho.snoc hb
  refine safe_cbCall x .ncomplete n _ ho1 _ _ _ (safe_nodeFailCont x _ ho1 d n e hd hns he hv)
    (fun e' he' => safe_nodeCbRaise x _ ho1 d n e' (errCause_collab he')) ?_
  intro j
  exact frames_cons x.bel _ ⟨hd, rfl, hns, hdm, he, hv⟩

theorem safe_nodeSleep {P : Program} {c : Ctx} {s : St} {below : List Frame} (x : StepCtx P val c s below)
    (obs : List Obs) (ho : ObsAll P val obs) (d : DagRef) (n : Node) (k : Nat) (kw : Kwargs) (inv : Nat)
    (hd : DagFl P d) (hns : Ord P n) (hdm : Lz s (Demanded P val n)) (ha : Att P val n (k + 1) kw inv) :
    Good P val (nodeSleep c s obs d n false below k kw inv) := by
  unfold nodeSleep
  simp only []
  split
  · exact good_block c x.inv (ho.snoc (o := .sleep _) trivial) _ _ (frames_cons x.bel _ ⟨hd, rfl, hns, hdm, ha⟩)
  · exact good_yieldNow c x.inv ho _ (frames_cons x.bel _ ⟨hd, rfl, hns, hdm, ha⟩)

/-- the value the policy ends with is the solution's -/
theorem SolutionOne.value_of_final {P : Program} (hs : SolutionOne P val) {n : Node} (hns : Ord P n)
    (hpr : (P.g.preds n).all (fun p => (val p).isSome) = true) {v : Val}
    (hf : finalOf P n (kwFrom P val n) = some (.value v) ∨
          (finalOf P n (kwFrom P val n) = some .default ∧ v = P.dflt n (kwFrom P val n))) : val n = some v := by
  rw [hs.plain n hns.1 hns.2, hpr]
  simp only [if_true, valueOf]
  rcases hf with h | ⟨h, rfl⟩ <;> rw [h]

/-- a node whose policy ends in a failure has no value -/
theorem SolutionOne.none_of_failed {P : Program} (hs : SolutionOne P val) {n : Node} (hns : Ord P n) {e : Exc}
    (hf : NodeFails P val n e) : val n = none := by
  rw [hs.plain n hns.1 hns.2, hf.1]
  simp only [if_true, valueOf, hf.2]

/-- a node one of whose sources has no value has no value -/
theorem SolutionOne.none_of_pred {P : Program} (hs : SolutionOne P val) {n : Node} (hns : Ord P n)
    (hpr : (P.g.preds n).all (fun p => (val p).isSome) = false) : val n = none := by
  rw [hs.plain n hns.1 hns.2, hpr]
  simp

theorem safe_nodeAfterBody {P : Program} {c : Ctx} {s : St} {below : List Frame} (x : StepCtx P val c s below)
    (obs : List Obs) (ho : ObsAll P val obs) (d : DagRef) (n : Node) (k : Nat) (kw : Kwargs) (inv : Nat)
    (hd : DagFl P d) (hns : Ord P n) (hdm : Lz s (Demanded P val n)) (ha : Att P val n k kw inv) :
    Good P val (nodeAfterBody c s obs d n false below k kw inv (P.body n kw inv k)) := by
  have hdf : Retry.decide (P.cfg n) k (P.body n kw inv k) = .done .default →
      Good P val (nodeDefault c s obs d n below kw) := by
    intro hdd
    rw [nodeDefault_of_none _ _ _ _ _ _ _ (by rw [x.cP]; exact x.sw.dfltOk _)]
    rw [x.cP]
    have hfin := ha.final _ hdd
    refine safe_nodeSuccess x _ (ho.snoc (o := .dflt n kw) ⟨ha.kw_eq, ha.preds, hfin⟩) d n _ hd hns hdm ?_ (x.sw.noRecurD _ _)
    exact x.sol.value_of_final hns ha.preds (Or.inr ⟨hfin, by rw [ha.kw_eq]⟩)
  have hfail : ∀ e, P.body n kw inv k = .raise e → Retry.decide (P.cfg n) k (P.body n kw inv k) = .done (.failed e) →
      Good P val (nodeFail c s obs d n below e) := by
    intro e ho' hdd
    have hnf : NodeFails P val n e := ⟨ha.preds, ha.final _ hdd⟩
    refine safe_nodeFail x _ ho d n e hd hns hdm (Or.inl ⟨k, ?_⟩) (Or.inl ⟨n, hns.1, hns.2, hnf⟩)
      (x.sol.none_of_failed hns hnf)
    rw [← ha.kw_eq, ← ha.inv0]; exact ho'
  unfold nodeAfterBody
  cases hbo : P.body n kw inv k with
  | ret v =>
    refine safe_nodeSuccess x obs ho d n v hd hns hdm ?_ (x.sw.noRecur _ _ _ _ _ hbo)
    exact x.sol.value_of_final hns ha.preds (Or.inl (ha.final _ (by rw [hbo]; rfl)))
  | raise e =>
    rw [hbo] at hdf hfail
    simp only []
    split
    · next hrt =>
      rw [x.cP] at hrt
      split
      · next hk =>
        rw [x.cP] at hk
        split
        · next hud => rw [x.cP] at hud; exact hdf (by simp [Retry.decide, hrt, hk, hud])
        · next hud => rw [x.cP] at hud; exact hfail e rfl (by simp [Retry.decide, hrt, hk, hud])
      · next hk =>
        rw [x.cP] at hk
        have hnext : Att P val n (k + 1) kw inv := ha.next (by rw [hbo]; simp [Retry.decide, hrt, hk])
        have ho1 : ObsAll P val (obs ++ [.ncomplete n (some e)]) :=
          ho.snoc (Or.inl ⟨k, by rw [← ha.kw_eq, ← ha.inv0]; exact hbo⟩)
        refine safe_cbCall x .ncomplete n _ ho1 _ _ _ (safe_nodeSleep x _ ho1 d n k kw inv hd hns hdm hnext)
          (fun e' he' => safe_nodeCbRaiseInTry x _ ho1 d n e' he') ?_
        intro j
        exact frames_cons x.bel _ ⟨hd, rfl, hns, hdm, hnext⟩
    · next hrt =>
      rw [x.cP] at hrt
      split
      · next hex =>
        split
        · next hud => rw [x.cP] at hud; exact hdf (by simp [Retry.decide, hrt, hex, hud])
        · next hud => rw [x.cP] at hud; exact hfail e rfl (by simp [Retry.decide, hrt, hex, hud])
      · next hex =>
        rw [x.cP]
        refine good_raiseOut c x.cP (x.inv.nodeFinally d n true) ho below _ ?_
        intro e' h'
        cases h'
        exact Or.inl ⟨n, hns.1, hns.2, ha.preds, ha.final _ (by rw [hbo]; simp [Retry.decide, hrt, hex])⟩

theorem safe_nodeAttempt {P : Program} {c : Ctx} {s : St} {below : List Frame} (x : StepCtx P val c s below)
    (obs : List Obs) (ho : ObsAll P val obs) (d : DagRef) (n : Node) (k : Nat) (kw : Kwargs) (inv : Nat)
    (hd : DagFl P d) (hns : Ord P n) (hdm : Lz s (Demanded P val n)) (ha : Att P val n k kw inv) :
    Good P val (nodeAttempt c s obs d n false below k kw inv) := by
  simp only [nodeAttempt, Bool.false_eq_true, if_false, x.cP]
  have ho1 : ObsAll P val (obs ++ [.body n inv k kw]) := ho.snoc ha
  split
  · exact safe_nodeAfterBody x _ ho1 d n k kw inv hd hns hdm ha
  all_goals exact good_block c x.inv (ho1.snoc (o := .gate _ _ _) trivial) _ _ (frames_cons x.bel _ ⟨hd, rfl, hns, hdm, ha⟩)

/-! ### arguments -/

/-- what the engine reads for source `u` -/
def ReadIs (P : Program) (s : St) (u : Node) (w : Val) : Prop :=
  if P.g.isSwitch u then
    (if s.isErr u then s.get u = w else match s.sw u with | some (_, c) => s.getHid c = w | none => False)
  else s.getHid u = w

/-- an available source either has a semantic value, which is what the engine reads for it, or has none, and the engine
reads the exception object stored for it (inside a one-of scope) -/
theorem src_cases {P : Program} (hsol : SolutionOne P val) {s : St} (hd : SData P val s) {u : Node}
    (h : SrcReady P s u) :
    (∃ v, val u = some v ∧ v.isExc = false ∧ ReadIs P s u v) ∨
    (∃ x, val u = none ∧ ErrCause P val x ∧ HasHeads P ∧ ReadIs P s u (.exc x)) := by
  have key : ∀ c w, s.res c = some w → s.getHid c = w := by intro c w hw; simp [St.getHid, hw]
  have split_val : ∀ c w, s.res c = some w →
      (w.isExc = false ∧ val c = some w) ∨ (∃ x, w = .exc x ∧ val c = none ∧ ErrCause P val x ∧ HasHeads P) := by
    intro c w hw
    cases hx : w.isExc with
    | false => exact Or.inl ⟨rfl, hd.agree c w hw hx⟩
    | true =>
      cases w <;> simp [Val.isExc] at hx
      next x => exact Or.inr ⟨x, rfl, hd.excOK c x hw⟩
  unfold SrcReady at h
  unfold ReadIs
  split at h
  · next hsw =>
    cases hru : s.res u with
    | some wu =>
      -- the switch keeps its own no-case error (inside a one-of scope): that is what the engine reads
      have hx := hd.notSw u wu hru hsw
      cases wu <;> simp [Val.isExc] at hx
      next x =>
      obtain ⟨hv, he, hh⟩ := hd.excOK u x hru
      have hie : s.isErr u = true := by simp [St.isErr, St.get, hd.resHid, hru, Val.isExc]
      exact Or.inr ⟨x, hv, he, hh, by simp only [hsw, if_true, hie]; simp [St.get, hd.resHid, hru]⟩
    | none =>
      have hie : s.isErr u = false := by simp [St.isErr, St.get, hd.resHid, hru, Val.isExc]
      rcases h with ⟨l, c, h1, h2⟩ | h
      · have hvu : val u = val c := by rw [hsol.sw u hsw, (hd.swOK u l c h1).sel]; rfl
        cases hr : s.res c with
        | none => rw [hr] at h2; simp at h2
        | some w =>
          rcases split_val c w hr with ⟨hne, hv⟩ | ⟨x, rfl, hv, he, hh⟩
          · exact Or.inl ⟨w, by rw [hvu]; exact hv, hne, by
              simp only [hsw, if_true, h1, hie, Bool.false_eq_true, if_false]; exact key c w hr⟩
          · exact Or.inr ⟨x, by rw [hvu]; exact hv, he, hh, by
              simp only [hsw, if_true, h1, hie, Bool.false_eq_true, if_false]; exact key c _ hr⟩
      · rw [hru] at h; cases h
  · next hsw =>
    cases hr : s.res u with
    | none => rw [hr] at h; simp at h
    | some w =>
      rcases split_val u w hr with ⟨hne, hv⟩ | ⟨x, rfl, hv, he, hh⟩
      · exact Or.inl ⟨w, hv, hne, by simp only [hsw, Bool.false_eq_true, if_false]; exact key u w hr⟩
      · exact Or.inr ⟨x, hv, he, hh, by simp only [hsw, Bool.false_eq_true, if_false]; exact key u _ hr⟩

theorem kwStep_read {P : Program} {s : St} (kw : Kwargs) (e : Edge) (k : String) (w : Val) (hk : e.kwarg = some k)
    (hr : ReadIs P s e.u w) : kwStep P s (.ok kw) e = kwPut kw k w := by
  unfold kwStep
  simp only [hk]
  unfold ReadIs at hr
  split
  · next hsw =>
    simp only [hsw, if_true] at hr
    split
    · next hie => simp only [hie, if_true] at hr; rw [hr]
    · next hie =>
      simp only [hie, Bool.false_eq_true, if_false] at hr
      split
      · next l c hsc => simp only [hsc] at hr; rw [hr]
      · next hsc => simp [hsc] at hr
  · next hsw =>
    simp only [hsw, Bool.false_eq_true, if_false] at hr
    rw [hr]

theorem foldl_kwStep_err (P : Program) (s : St) (x : Exc) : ∀ es : List Edge, es.foldl (kwStep P s) (.err x) = .err x := by
  intro es
  induction es with
  | nil => rfl
  | cons e es ih => simp only [List.foldl_cons, kwStep]; exact ih

/-- the declared arguments, one edge at a time -/
def semStep (val : Node → Option Val) (kw : Kwargs) (e : Edge) : Kwargs :=
  match e.kwarg with
  | some k => insertKw kw k ((val e.u).getD .none)
  | none => kw

/-- folding the incoming edges: either every source has a value and the arguments are the declared ones, or some source
has none and the first such source's stored exception is the result -/
theorem kw_fold {P : Program} (hsol : SolutionOne P val) {s : St} (hd : SData P val s) :
    ∀ (es : List Edge) (kw0 : Kwargs),
    (∀ e ∈ es, SrcReady P s e.u ∧ (e.kwarg = none → (val e.u).isSome = true ∨ ¬ HasHeads P)) →
    (es.foldl (kwStep P s) (.ok kw0) = .ok (es.foldl (semStep val) kw0) ∧ ∀ e ∈ es, (val e.u).isSome = true) ∨
    (∃ x, es.foldl (kwStep P s) (.ok kw0) = .err x ∧ ErrCause P val x ∧ ∃ e ∈ es, val e.u = none) := by
  intro es
  induction es with
  | nil => intro kw0 _; exact Or.inl ⟨rfl, by intro e he; cases he⟩
  | cons e es ih =>
    intro kw0 hm
    simp only [List.foldl_cons]
    have hrest : ∀ e' ∈ es, SrcReady P s e'.u ∧ (e'.kwarg = none → (val e'.u).isSome = true ∨ ¬ HasHeads P) :=
      fun e' he' => hm e' (by simp [he'])
    rcases src_cases hsol hd (hm e (by simp)).1 with ⟨v, hv, hne, hrd⟩ | ⟨x, hv, he, hh, hrd⟩
    · -- the source has a value
      have hstep : kwStep P s (.ok kw0) e = .ok (semStep val kw0 e) := by
        unfold semStep
        cases hk : e.kwarg with
        | none => simp [kwStep, hk]
        | some k =>
          rw [kwStep_read kw0 e k v hk hrd, hv]
          cases v <;> simp [Val.isExc] at hne <;> rfl
      rw [hstep]
      rcases ih (semStep val kw0 e) hrest with ⟨h1, h2⟩ | ⟨x, h1, h2, e', he', h3⟩
      · refine Or.inl ⟨h1, ?_⟩
        intro e' he'
        rcases List.mem_cons.mp he' with rfl | h
        · rw [hv]; rfl
        · exact h2 e' h
      · exact Or.inr ⟨x, h1, h2, e', by simp [he'], h3⟩
    · -- the source has none: its stored exception is raised
      cases hk : e.kwarg with
      | none =>
        rcases (hm e (by simp)).2 hk with h | h
        · rw [hv] at h; cases h
        · exact absurd hh h
      | some k =>
        rw [kwStep_read kw0 e k _ hk hrd]
        simp only [kwPut]
        rw [foldl_kwStep_err]
        exact Or.inr ⟨x, rfl, he, e, by simp, hv⟩

/-- with all inputs available, either every source has a value and the engine's keyword arguments are the declared ones,
or some source has none and the lookup fails with a stored exception -/
theorem nodeKwargs_cases {P : Program} (hsw : OneP P) (hsol : SolutionOne P val) {s : St} (hd : SData P val s) (n : Node)
    (hns : Ord P n) (hin : InputsReady P s n) :
    (nodeKwargs P s n = .ok (kwFrom P val n) ∧ (P.g.preds n).all (fun p => (val p).isSome) = true) ∨
    (∃ x, nodeKwargs P s n = .err x ∧ ErrCause P val x ∧ (P.g.preds n).all (fun p => (val p).isSome) = false) := by
  by_cases hni : n = P.g.input
  · -- the input node has no sources
    left
    subst hni
    have hp : P.g.preds P.g.input = [] := by
      simp only [Graph.preds, List.map_eq_nil_iff, List.filter_eq_nil_iff, beq_iff_eq]
      intro e he hv
      exact hsw.inRoot e he hv
    refine ⟨?_, by rw [hp]; rfl⟩
    simp [nodeKwargs, kwBase, kwFrom, hd.addl]
  · have hedges : ∀ e ∈ P.g.edges.filter (fun e => e.v == n),
        SrcReady P s e.u ∧ (e.kwarg = none → (val e.u).isSome = true ∨ ¬ HasHeads P) := by
      intro e he
      simp only [List.mem_filter, beq_iff_eq] at he
      refine ⟨hin e he.1 he.2, ?_⟩
      intro hk
      have hu := hsw.kwEdges e he.1 (by rw [he.2]; exact hns) hk
      by_cases hh : HasHeads P
      · left; rw [hu]; exact hsol.input hh
      · exact Or.inr hh
    have hne : (n == P.g.input) = false := by simpa using hni
    have hmem : ∀ e ∈ P.g.edges.filter (fun e => e.v == n), e.u ∈ P.g.preds n := by
      intro e he
      simp only [Graph.preds, List.mem_map]
      exact ⟨e, he, rfl⟩
    rcases kw_fold hsol hd _ [] hedges with ⟨h1, h2⟩ | ⟨x, h1, h2, e, he, h3⟩
    · left
      constructor
      · have hb : kwBase P s n = .ok (kwFrom P val n) := by
          unfold kwBase kwFrom
          simp only [hne, Bool.false_eq_true, if_false]
          exact h1
        simp [nodeKwargs, hb, hd.addl]
      · rw [List.all_eq_true]
        intro p hp
        simp only [Graph.preds, List.mem_map] at hp
        obtain ⟨e, he, rfl⟩ := hp
        exact h2 e he
    · right
      refine ⟨x, ?_, h2, ?_⟩
      · have hb : kwBase P s n = .err x := by
          unfold kwBase
          simp only [hne, Bool.false_eq_true, if_false]
          exact h1
        simp [nodeKwargs, hb]
      · rw [List.all_eq_false]
        exact ⟨e.u, hmem e he, by rw [h3]; simp⟩

theorem safe_nodeBegin {P : Program} {c : Ctx} {s : St} {below : List Frame} (x : StepCtx P val c s below)
    (obs : List Obs) (ho : ObsAll P val obs) (d : DagRef) (n : Node) (inv : Nat) (hd : DagFl P d)
    (hns : Ord P n) (hdm : Lz s (Demanded P val n)) (hin : InputsReady P s n) (hinv : inv = 0) :
    Good P val (nodeBegin c s obs d n false below inv) := by
  rcases nodeKwargs_cases x.sw x.sol x.inv.data n hns hin with ⟨hkw, hpr⟩ | ⟨e, hkw, he, hpr⟩
  · simp only [nodeBegin, x.cP, hkw]
    exact safe_nodeAttempt x _ ho d n 1 _ inv hd hns hdm
      ⟨rfl, hpr, hinv, Nat.le_refl 1, Retry.attemptsEff_pos _, fun j h1 h2 => by omega⟩
  · -- a dependency failed inside a one-of scope: the node fails with that error
    simp only [nodeBegin, x.cP, hkw]
    have hvn := x.sol.none_of_pred hns hpr
    exact safe_nodeFail x _ ho d n e hd hns hdm (Or.inr (Or.inr ⟨he, hvn⟩)) he hvn

theorem safe_nodeStart {P : Program} {c : Ctx} {s : St} {below : List Frame} (x : StepCtx P val c s below)
    (obs : List Obs) (ho : ObsAll P val obs) (d : DagRef) (n : Node) (hd : DagFl P d)
    (hns : Ord P n) (hdm : Lz s (Demanded P val n)) (hin : InputsReady P s n) (hci : CoreInv s.core) :
    Good P val (nodeStart c s obs d n false below) := by
  unfold nodeStart
  split
  · split
    · exact safe_nodePost_wait x _ ho d n
    · exact good_block c x.inv ho _ _ (frames_cons x.bel _ ⟨hd, rfl, hns, hdm, trivial⟩)
  · next hpe =>
    have hinv0 : s.invCount n = 0 := by
      have := (hci n).2
      have hpe' : (s.proc n && !s.procHid n) = false := by simpa [St.procExists] using hpe
      simp only [St.core, hpe', Bool.false_eq_true, false_or, x.inv.data.hides] at this
      omega
    have x1 : StepCtx P val c (s.markProcessed n) below := x.to (x.inv.markProcessed n hdm) (Grows.of_eq rfl rfl rfl)
    have hin1 : InputsReady P (s.markProcessed n) n := hin.mono (Grows.of_eq rfl rfl rfl)
    have hdm1 : Lz (s.markProcessed n) (Demanded P val n) := hdm.mono (Grows.of_eq rfl rfl rfl)
    have ho1 : ObsAll P val (obs ++ [.nstart n]) := ho.snoc trivial
    refine safe_cbCall x1 .nstart n _ ho1 _ _ _ (safe_nodeBegin x1 _ ho1 d n _ hd hns hdm1 hin1 hinv0)
      (fun e he => safe_nodeCbRaise x1 _ ho1 d n e (errCause_collab he)) ?_
    intro j
    exact frames_cons x1.bel _ ⟨hd, rfl, hns, hdm1, hin1, hinv0⟩

/-! ### `_run_dag`, `_run_switch`, `_run_oneof` -/

theorem ready_inputs {P : Program} {s : St} (hd : SData P val s) (d : DagRef)
    (hdf : d.isRec = false) (n : Node) (hns : Ord P n)
    (hr : ready P s d n = true) : InputsReady P s n := by
  intro e he hv
  unfold ready at hr
  rw [List.all_eq_true] at hr
  have hmem : e.u ∈ P.g.preds n := by
    simp only [Graph.preds, List.mem_map, List.mem_filter]
    exact ⟨e, ⟨he, by simpa using hv⟩, rfl⟩
  have hbase : (if P.g.isSwitch e.u then (match s.sw e.u with | some (_, c) => c | none => e.u) else e.u) ∈
      predsFor P s d n := by
    unfold predsFor
    simp only [hns.1, hns.2, hdf, Bool.false_and, Bool.false_or, Bool.false_eq_true, if_false, List.mem_map]
    exact ⟨e.u, hmem, rfl⟩
  have := hr _ hbase
  simp only [Bool.and_eq_true, St.exists, hd.resHid, Bool.not_false, Bool.and_true] at this
  unfold SrcReady
  split
  · next hsu =>
    simp only [hsu, if_true] at this
    cases hsc : s.sw e.u with
    | some lc => exact Or.inl ⟨lc.1, lc.2, rfl, by simpa [hsc] using this.1⟩
    | none =>
      simp only [hsc] at this
      exact Or.inr this.1
  · next hsu =>
    simp only [hsu, Bool.false_eq_true, if_false] at this
    exact this.1

theorem ready_decider {P : Program} (hsw : OneP P) {s : St} (hd : SData P val s) (d : DagRef)
    (hdf : d.isRec = false) (n : Node) (hns : P.g.isSwitch n = true)
    (hr : ready P s d n = true) : DeciderReady P s n := by
  intro e he hv hes
  unfold ready at hr
  rw [List.all_eq_true] at hr
  have hpl := hsw.decPlain e he hes
  have hbase : e.u ∈ predsFor P s d n := by
    unfold predsFor
    simp only [hns, hdf, Bool.not_false, Bool.and_self, if_true, List.mem_map, List.mem_filter]
    exact ⟨e.u, ⟨e, ⟨he, by simp [hv, hes]⟩, rfl⟩, by simp [hpl]⟩
  have := hr _ hbase
  simp only [Bool.and_eq_true, St.exists, hd.resHid, Bool.not_false, Bool.and_true] at this
  exact this.1

theorem safe_dagWaitDest {P : Program} {c : Ctx} {s : St} {below : List Frame} (x : StepCtx P val c s below)
    (obs : List Obs) (ho : ObsAll P val obs) (d : DagRef) (hd : DagFl P d) :
    Good P val (dagWaitDest c s obs d below) := by
  unfold dagWaitDest
  split
  · split
    · exact good_retTo c x.inv ho _ _ x.bel
    · exact good_block c x.inv ho _ _ (frames_cons x.bel _ hd)
  · exact good_block c x.inv ho _ _ (frames_cons x.bel _ hd)

/-- a node without a value passes that on along every edge a reduced DAG can contain -/
theorem none_along_edge {P : Program} (hsw : OneP P) (hsol : SolutionOne P val) (hh : HasHeads P) {s : St} {a b : Node}
    (he : Graph.VEdge P.g (filteredView P s) a b) (ha : val a = none) : val b = none := by
  obtain ⟨e, hm, hu, hv, hok⟩ := he
  subst hu hv
  simp only [filteredView, Bool.and_eq_true, Option.isNone_iff_eq_none, Bool.not_eq_true'] at hok
  cases hS : P.g.isSwitch e.v with
  | false =>
    cases hH : P.g.isOneofHead e.v with
    | false =>
      refine hsol.none_of_pred ⟨hS, hH⟩ ?_
      rw [List.all_eq_false]
      refine ⟨e.u, ?_, by rw [ha]; simp⟩
      simp only [Graph.preds, List.mem_map, List.mem_filter]
      exact ⟨e, ⟨hm, by simp⟩, rfl⟩
    | true =>
      rcases hsw.headEdges e hm hH with h1 | h1
      · have h2 := hok.2
        simp only [cands] at h1
        rw [h2] at h1; cases h1
      · have := hsol.input hh
        rw [← h1, ha] at this; cases this
  | true =>
    rcases hsw.swEdges e hm hS with h1 | h1
    · -- the decision edge: no label, no case
      have hlen := hsw.decUnique e.v
      have hmem : e ∈ (P.g.edges.filter (fun e' => e'.v == e.v)).filter (·.isSwitch) := by
        simp [hm, h1]
      rw [hsol.sw e.v hS]
      unfold swSel switchLabelV
      cases hL : (P.g.edges.filter (fun e' => e'.v == e.v)).filter (·.isSwitch) with
      | nil => rw [hL] at hmem; cases hmem
      | cons e1 rest =>
        cases rest with
        | cons e2 rest2 => rw [hL] at hlen; simp at hlen
        | nil =>
          rw [hL] at hmem
          simp only [List.mem_singleton] at hmem
          subst hmem
          simp only [List.foldl_cons, List.foldl_nil, ha]
          rfl
    · rw [hok.1] at h1; cases h1

theorem none_along_reach {P : Program} (hsw : OneP P) (hsol : SolutionOne P val) (hh : HasHeads P) {s : St} {a b : Node}
    (h : Graph.VReach P.g (filteredView P s) a b) : val a = none → val b = none := by
  induction h with
  | refl => exact id
  | tail _ he ih => exact fun ha => none_along_edge hsw hsol hh he (ih ha)

/-- the error `__get_subgraph_error` returns is the stored result of a node of the DAG -/
theorem subgraphError_spec {P : Program} {s : St} (hd : SData P val s) {d : DagRef} (h : hasError s d = true) :
    ∃ n ∈ d.nodes, s.res n = some (.exc (subgraphError P s d)) := by
  unfold hasError at h
  rw [List.any_eq_true] at h
  obtain ⟨x, hx, herr⟩ := h
  unfold subgraphError
  cases hf : (P.g.order ++ d.nodes).find? (fun n => d.nodes.contains n && s.isErr n) with
  | none =>
    rw [List.find?_eq_none] at hf
    have := hf x (List.mem_append_right _ hx)
    simp [hx, herr] at this
  | some n =>
    have hp := List.find?_some hf
    simp only [Bool.and_eq_true, List.contains_iff_mem] at hp
    obtain ⟨hn, hie⟩ := hp
    refine ⟨n, hn, ?_⟩
    simp only [St.isErr, St.get, hd.resHid, Bool.false_eq_true, if_false] at hie ⊢
    cases hr : s.res n with
    | none => rw [hr] at hie; simp [Val.isExc] at hie
    | some w =>
      rw [hr] at hie
      simp only [Option.getD_some] at hie ⊢
      cases w <;> simp [Val.isExc] at hie
      rfl

theorem safe_dagLaunch {P : Program} {c : Ctx} {below : List Frame} (d : DagRef)
    (hd : DagFl P d) : ∀ (rest : List Node) (s : St) (obs : List Obs),
    ObsAll P val obs → StepCtx P val c s below → Lz s (∀ n ∈ d.nodes, Demanded P val n) →
    Lz s (∀ n ∈ rest, n ∈ d.nodes) → Good P val (dagLaunch c d below s obs rest) := by
  intro rest
  induction rest with
  | nil => intro s obs ho x _ _; simp only [dagLaunch]; exact safe_dagWaitDest x obs ho d hd
  | cons n rest ih =>
    intro s obs ho x hdd hrest
    simp only [dagLaunch]
    split
    · next hr =>
      rw [x.cP] at hr
      split
      · next hcond =>
        -- a one-of DAG with a failed node: stop launching, wake the one-of; the destination, which cannot be computed
        -- any more, gets the error
        have key : ∀ s1, SInvX P val (some c.t) s1 → Grows s s1 → Good P val
            (retTo c (notify (notifyAll s1 ((c.P.g.desc1 n).map Key.node)) d.destKey) obs below .none) := by
          intro s1 h1 g1
          refine good_retTo c ((h1.notifyAll _).notify _) ho _ _ ?_
          intro f hf
          exact (x.bel f hf).mono (g1.trans ((grows_notifyAll _ _).trans (Grows.of_eq rfl rfl rfl)))
        split
        · next dn hdn =>
          split
          · exact key s x.inv (Grows.refl s)
          · simp only [Bool.and_eq_true] at hcond
            obtain ⟨hiso, herr⟩ := hcond
            rw [x.cP]
            obtain ⟨m, hm, hres⟩ := subgraphError_spec x.inv.data herr
            obtain ⟨hvm, hcause, hh⟩ := x.inv.data.excOK m _ hres
            obtain ⟨s0, hr0⟩ := hd.reach dn hdn m hm
            have hvd : val dn = none := none_along_reach x.sw x.sol hh hr0 hvm
            have g := grows_setRes_exc x.inv.data dn (subgraphError P s d) hvd
            have h1 := x.inv.setResExc dn _ hvd hcause hh
            have := key _ (h1.notifyAll ((P.g.desc1 dn).map Key.node)) (g.trans (grows_notifyAll _ _))
            rw [x.cP] at this
            exact this
        · exact key s x.inv (Grows.refl s)
      · have hdm : Lz s (Demanded P val n) := by
          rcases hdd with hb | h1
          · exact Or.inl hb
          · rcases hrest with hb | h2
            · exact Or.inl hb
            · exact Or.inr (h1 n (h2 n (by simp)))
        have hf : FrameOK P val s (launchFrame c.P d n) := by
          unfold launchFrame
          rw [x.cP]
          split
          · next hsn => exact ⟨hd, hsn, hdm, ready_decider x.sw x.inv.data d hd.notRec n hsn hr⟩
          · next hsn =>
            have hsn' : P.g.isSwitch n = false := by simpa using hsn
            split
            · next hhd => exact ⟨hd, hhd, hdm⟩
            · next hhd =>
              have hhd' : P.g.isOneofHead n = false := by simpa using hhd
              exact ⟨hd, rfl, ⟨hsn', hhd'⟩, hdm, ready_inputs x.inv.data d hd.notRec n ⟨hsn', hhd'⟩ hr⟩
        have g : Grows s (spawn s [launchFrame c.P d n] (.node n)).1 := Grows.of_eq rfl rfl rfl
        have x1 := x.to (x.inv.spawn [launchFrame c.P d n] (.node n) (by intro f hf'; simp at hf'; subst hf'; exact hf)) g
        exact ih _ _ (ho.snoc (o := .spawn _ _) trivial) x1 (hdd.mono g)
          ((hrest.mono g).imp (fun h m hm => h m (by simp [hm])))
    · exact good_block c x.inv ho _ _ (frames_cons x.bel _ ⟨hd, hdd, hrest⟩)

/-- a launch order the model accepts only lists nodes of the DAG -/
theorem validOrder_sub {P : Program} {s : St} {d : DagRef} {ord : List Node} (h : validOrder P s d ord = true) :
    ∀ n ∈ ord, n ∈ d.nodes := by
  unfold validOrder at h
  simp only [Bool.and_eq_true, List.all_eq_true] at h
  intro n hn
  have := h.1.1.1.2 n hn
  simp only [expectedOrder, List.contains_iff_mem, List.mem_filter] at this
  exact this.1

theorem SInvX.noteOrder {P : Program} {ex : Option Nat} {s : St} (h : SInvX P val ex s) (ok : Bool) :
    SInvX P val ex (s.noteOrder ok) ∧ Grows s (s.noteOrder ok) := by
  unfold St.noteOrder
  split
  · exact ⟨h, Grows.refl s⟩
  · have g : Grows s { s with badOrd := true } := ⟨fun _ v h => ⟨v, h, fun _ => rfl⟩, fun _ _ h => h, fun _ => rfl⟩
    refine ⟨h.transport ?_ g (fun i tk hi => Or.inl (old_task hi)), g⟩
    exact ⟨h.data.resHid, h.data.procHid, h.data.addl, h.data.hides, h.data.vals, h.data.agree, h.data.notSw, h.data.excOK,
      h.data.swOK, h.data.out, Or.inl rfl, h.data.stale⟩

theorem safe_dagInit {P : Program} {c : Ctx} {s : St} {below : List Frame} (x : StepCtx P val c s below)
    (obs : List Obs) (ho : ObsAll P val obs) (d : DagRef) (hd : DagFl P d)
    (hdd : Lz s (∀ n ∈ d.nodes, Demanded P val n)) : Good P val (dagInit c s obs d below) := by
  unfold dagInit
  simp only [refresh_of_nil x.inv.data.stale]
  have ho1 : ObsAll P val (if validOrder c.P s d c.ord then obs ++ [.topo c.ord] else obs ++ [.topo c.ord] ++ [.badOracle]) := by
    exact ObsAll.ite (ho.snoc (o := .topo _) trivial) ((ho.snoc (o := .topo _) trivial).snoc (o := .badOracle) trivial)
  obtain ⟨hi, g⟩ := x.inv.noteOrder (validOrder c.P s d c.ord)
  have x1 : StepCtx P val c (s.noteOrder (validOrder c.P s d c.ord)) below := x.to hi g
  have hrest : Lz (s.noteOrder (validOrder c.P s d c.ord)) (∀ n ∈ c.ord, n ∈ d.nodes) := by
    cases hv : validOrder c.P s d c.ord with
    | true => exact Or.inr (validOrder_sub hv)
    | false => exact Or.inl rfl
  split
  · exact good_retTo c x1.inv ho1 _ _ x1.bel
  · exact safe_dagLaunch d hd _ _ _ ho1 x1 (hdd.mono g) hrest

/-- the label the engine reads for a switch whose decision node has a result: the semantic label, or an exception object
where the semantics has none -/
theorem switchLabel_cases {P : Program} (hsw : OneP P) {s : St} (hd : SData P val s) (n : Node) (hdr : DeciderReady P s n) :
    ((switchLabel P s n).isExc = false ∧ switchLabelV P val n = some (switchLabel P s n)) ∨
    ((switchLabel P s n).isExc = true ∧ switchLabelV P val n = none) := by
  have hlen := hsw.decUnique n
  unfold switchLabel switchLabelV
  cases hL : (P.g.edges.filter (fun e => e.v == n)).filter (·.isSwitch) with
  | nil => left; exact ⟨rfl, rfl⟩
  | cons e rest =>
    cases rest with
    | cons e2 rest2 => rw [hL] at hlen; simp at hlen
    | nil =>
      have hmem : e ∈ (P.g.edges.filter (fun e => e.v == n)).filter (·.isSwitch) := by rw [hL]; simp
      simp only [List.mem_filter, beq_iff_eq] at hmem
      have hres := hdr e hmem.1.1 hmem.1.2 hmem.2
      simp only [List.foldl_cons, List.foldl_nil]
      cases hr : s.res e.u with
      | none => rw [hr] at hres; simp at hres
      | some w =>
        have hget : s.get e.u = w := by simp [St.get, hd.resHid, hr]
        rw [hget]
        cases hx : w.isExc with
        | false => left; exact ⟨rfl, hd.agree e.u w hr hx⟩
        | true =>
          right
          refine ⟨rfl, ?_⟩
          cases w <;> simp [Val.isExc] at hx
          next x => exact (hd.excOK e.u x hr).1

/-- a decision node whose stored result is an exception object failed inside a one-of scope: that error has a cause -/
theorem switchLabel_exc_cause {P : Program} {s : St} (hd : SData P val s) (n : Node) {x : Exc}
    (h : switchLabel P s n = .exc x) : ErrCause P val x := by
  unfold switchLabel at h
  -- the fold returns the result of the last decision edge
  have key : ∀ (es : List Edge) (init : Val), es.foldl (fun _ e => s.get e.u) init = .exc x →
      init = .exc x ∨ ∃ u, s.get u = .exc x := by
    intro es
    induction es with
    | nil => intro init h; exact Or.inl h
    | cons e es ih =>
      intro init h
      simp only [List.foldl_cons] at h
      rcases ih _ h with h1 | h1
      · exact Or.inr ⟨e.u, h1⟩
      · exact Or.inr h1
  rcases key _ _ h with h1 | ⟨u, hu⟩
  · cases h1
  · simp only [St.get, hd.resHid, Bool.false_eq_true, if_false] at hu
    cases hr : s.res u with
    | none => rw [hr] at hu; cases hu
    | some w =>
      rw [hr] at hu
      simp only [Option.getD_some] at hu
      subst hu
      exact (hd.excOK u x hr).2.1

/-- with the decision node's result available, the engine's lookup of the case agrees with the dataflow reading: no
case there — no case here; a case there — the same label and case here -/
theorem switchSel_sem {P : Program} (hsw : OneP P) {s : St} (hd : SData P val s) (n : Node) (hdr : DeciderReady P s n) :
    (switchSelect P s n = none → swSel P val n = none) ∧
    (∀ l cn, switchSelect P s n = some (l, cn) → SwChoice P val n l cn) := by
  unfold switchSelect swSel SwChoice
  rcases switchLabel_cases hsw hd n hdr with ⟨hne, hv⟩ | ⟨hex, hv⟩
  · rw [hv]
    cases hw : switchLabel P s n with
    | str l0 =>
      simp only []
      constructor
      · intro h; rw [h]; rfl
      · intro l cn h
        have hm := List.mem_of_getLast? h
        simp only [List.mem_filter, beq_iff_eq] at hm
        have : l = l0 := hm.2
        subst this
        exact ⟨rfl, h⟩
    | none => exact ⟨fun _ => rfl, fun l cn h => by cases h⟩
    | int i => exact ⟨fun _ => rfl, fun l cn h => by cases h⟩
    | exc x => exact ⟨fun _ => rfl, fun l cn h => by cases h⟩
    | recur r => exact ⟨fun _ => rfl, fun l cn h => by cases h⟩
  · rw [hv]
    cases hw : switchLabel P s n with
    | exc x => exact ⟨fun _ => rfl, fun l cn h => by cases h⟩
    | str l0 => rw [hw] at hex; cases hex
    | none => rw [hw] at hex; cases hex
    | int i => rw [hw] at hex; cases hex
    | recur r => rw [hw] at hex; cases hex

/-- reachability facts do not depend on the state of the view -/
theorem vreach_any {P : Program} {s s' : St} {a b : Node} (h : Graph.VReach P.g (filteredView P s) a b) :
    Graph.VReach P.g (filteredView P s') a b :=
  Graph.VReach.of_okEdge (w := filteredView P s) (w' := filteredView P s') rfl h

/-- **an error anywhere in the reduced DAG of a candidate means the candidate has no value** -/
theorem hasError_none {P : Program} (hsw : OneP P) (hsol : SolutionOne P val) {s : St} (hd : SData P val s)
    {sub : DagRef} {cand : Node} (hsub : SubOK P sub cand) (h : hasError s sub = true) : val cand = none := by
  unfold hasError at h
  rw [List.any_eq_true] at h
  obtain ⟨x, hx, herr⟩ := h
  simp only [St.isErr, St.get, hd.resHid, Bool.false_eq_true, if_false] at herr
  cases hr : s.res x with
  | none => rw [hr] at herr; simp [Val.isExc] at herr
  | some w =>
    rw [hr] at herr
    simp only [Option.getD_some] at herr
    cases w <;> simp [Val.isExc] at herr
    next e =>
    obtain ⟨hv, _, hh⟩ := hd.excOK x e hr
    exact none_along_reach hsw hsol hh (hsub.reach x hx) hv

theorem findSome_none {α β : Type} (f : α → Option β) (l : List α) (h : ∀ x ∈ l, f x = none) : l.findSome? f = none := by
  induction l with
  | nil => rfl
  | cons a l ih => simp [List.findSome?, h a (by simp), ih (fun x hx => h x (by simp [hx]))]

theorem findSome_first {α β : Type} (f : α → Option β) (pre : List α) (a : α) (post : List α) (v : β)
    (h : ∀ x ∈ pre, f x = none) (ha : f a = some v) : (pre ++ a :: post).findSome? f = some v := by
  induction pre with
  | nil => simp [List.findSome?, ha]
  | cons b pre ih => simp [List.findSome?, h b (by simp), ih (fun x hx => h x (by simp [hx]))]

theorem SInvX.openCand {P : Program} {ex : Option Nat} {s : St} (h : SInvX P val ex s) (b : Bool) (c : Node) :
    SInvX P val ex (openCand s b c) ∧ Grows s (openCand s b c) := by
  unfold Eng.openCand
  split
  · have g : Grows s { s with opened := upd s.opened c true } := Grows.of_eq rfl rfl rfl
    exact ⟨h.transport (h.data.of_same ⟨rfl, rfl, rfl, rfl, rfl, rfl, rfl, rfl, rfl, rfl⟩) g
      (fun i tk hi => Or.inl (old_task hi)), g⟩
  · exact ⟨h, Grows.refl s⟩

/-- the candidate `cand` of head `h` succeeded: its value becomes the head's -/
theorem safe_oneofWin {P : Program} {c : Ctx} {s : St} {below : List Frame} (x : StepCtx P val c s below)
    (obs : List Obs) (ho : ObsAll P val obs) (h cand : Node) (hh : P.g.isOneofHead h = true)
    (pre rest : List Node) (hc : cands P h = pre ++ cand :: rest) (hpre : ∀ y ∈ pre, val y = none)
    {sub : DagRef} (hsub : SubOK P sub cand) (hne : hasError s sub = false)
    (hex : (s.exists cand && !(s.get cand).isRecur) = true) : Good P val (oneofWin c s obs h cand below) := by
  simp only [Bool.and_eq_true, St.exists, x.inv.data.resHid, Bool.not_false, Bool.and_true] at hex
  cases hr : s.res cand with
  | none => rw [hr] at hex; simp at hex
  | some v =>
    have hgv : s.getHid cand = v := by simp [St.getHid, hr]
    have hnx : v.isExc = false := by
      -- the candidate is a node of its own reduced DAG, which has no error
      unfold hasError at hne
      rw [List.any_eq_false] at hne
      have := hne cand hsub.mem
      simpa [St.isErr, St.get, x.inv.data.resHid, hr] using this
    have hvc : val cand = some v := x.inv.data.agree cand v hr hnx
    have hvh : val h = some v := by
      rw [x.sol.head h hh, hc]
      exact findSome_first val pre cand rest v hpre hvc
    unfold oneofWin
    rw [hgv, x.cP]
    have g := grows_setRes_val x.inv.data h v hvh
    have x1 := x.to (x.inv.setRes h v hvh ⟨x.inv.data.vals cand v hr, hnx⟩ (x.sw.headPlain h hh)) g
    refine good_retTo c (((x1.inv.notify _).notifyAll _).notify _) ho _ _ ?_
    intro f hf
    exact (x1.bel f hf).mono (((Grows.of_eq (s' := notify (s.setRes h v) (.node h)) rfl rfl rfl).trans
      (grows_notifyAll _ _)).trans (Grows.of_eq rfl rfl rfl))

/-- `_run_oneof` once candidate `cand` is being / has been run: win, move on to the rest, or wait -/
theorem safe_oneofAfter {P : Program} {c : Ctx} {s : St} {below : List Frame} (x : StepCtx P val c s below)
    (obs : List Obs) (ho : ObsAll P val obs) (d : DagRef) (hd : DagFl P d) (h cand : Node)
    (hh : P.g.isOneofHead h = true) (hdm : Lz s (Demanded P val h))
    (pre rest : List Node) (hc : cands P h = pre ++ cand :: rest) (hpre : ∀ y ∈ pre, val y = none)
    {sub : DagRef} (hsub : SubOK P sub cand)
    (hTry : (∀ y ∈ pre ++ [cand], val y = none) → Good P val (oneofTry c d h below s obs rest)) :
    Good P val (if oneofDone s cand sub then
        (if hasError s sub then oneofTry c d h below s obs rest else oneofWin c s obs h cand below)
      else block c s obs (.oneofWait d h cand rest sub :: below) (.cond (.node cand))) := by
  split
  · next hdone =>
    split
    · next herr =>
      have hvc := hasError_none x.sw x.sol x.inv.data hsub herr
      refine hTry ?_
      intro y hy
      rcases List.mem_append.mp hy with h1 | h1
      · exact hpre y h1
      · simp only [List.mem_singleton] at h1; rw [h1]; exact hvc
    · next herr =>
      have herr' : hasError s sub = false := by simpa using herr
      unfold oneofDone at hdone
      rw [herr', Bool.false_or] at hdone
      exact safe_oneofWin x obs ho h cand hh pre rest hc hpre hsub herr' hdone
  · exact good_block c x.inv ho _ _ (frames_cons x.bel _ ⟨hd, hh, hdm, ⟨pre, hc, hpre⟩, hsub⟩)

theorem safe_oneofTry {P : Program} {c : Ctx} {below : List Frame} (d : DagRef) (hd : DagFl P d) (h : Node)
    (hh : P.g.isOneofHead h = true) : ∀ (rest : List Node) (s : St) (obs : List Obs),
    ObsAll P val obs → StepCtx P val c s below → Lz s (Demanded P val h) →
    (∃ pre, cands P h = pre ++ rest ∧ ∀ y ∈ pre, val y = none) → Good P val (oneofTry c d h below s obs rest) := by
  intro rest
  induction rest with
  | nil =>
    intro s obs ho x hdm ⟨pre, hc, hpre⟩
    have hvh : val h = none := by
      rw [x.sol.head h hh, hc, List.append_nil]
      exact findSome_none val pre hpre
    have hcause : ErrCause P val ⟨"OneOfNoResult", h, 0, 0⟩ :=
      Or.inr (Or.inr (Or.inr (Or.inr (Or.inr ⟨h, hh, rfl, hvh⟩))))
    simp only [oneofTry]
    split
    · -- nested: the head's failure is stored as its result
      rw [x.cP]
      have g := grows_setRes_exc x.inv.data h ⟨"OneOfNoResult", h, 0, 0⟩ hvh
      have x1 := x.to (x.inv.setResExc h _ hvh hcause ⟨h, hh⟩) g
      refine good_retTo c ((x1.inv.notify _).notifyAll _) ho _ _ ?_
      intro f hf
      exact (x1.bel f hf).mono ((Grows.of_eq (s' := notify (s.setRes h (.exc ⟨"OneOfNoResult", h, 0, 0⟩)) (.node h))
        rfl rfl rfl).trans (grows_notifyAll _ _))
    · exact good_raiseOut c x.cP (x.inv.notify .run) ho below _ (by intro e he; cases he; exact hcause)
  | cons cand rest ih =>
    intro s obs ho x hdm ⟨pre, hc, hpre⟩
    simp only [oneofTry]
    obtain ⟨hi1, g1⟩ := x.inv.openCand true cand
    have x1 : StepCtx P val c (openCand s true cand) below := x.to hi1 g1
    rw [x.cP]
    split
    · exact good_raiseOut c x.cP x1.inv ho below _
        (by intro e he; cases he; exact Or.inr (Or.inr (Or.inr (Or.inl rfl))))
    · next sub hsub =>
      rw [refresh_of_nil x1.inv.data.stale]
      obtain ⟨hf1, hf2, _, hreach⟩ := reducedRef_reach x.sw hsub
      have hopen : (openCand s true cand).opened cand = true := by simp [openCand, upd]
      have hcm : cand ∈ cands P h := by rw [hc]; simp
      obtain ⟨hcn, hci, hcr⟩ := x.sw.candReach h cand _ hh hcm hopen
      have hfl : DagFl P sub := ⟨hf1, fun _ => ⟨h, hh⟩, (fun dn hdn y hy => by
        have := reducedRef_dest x.sw hsub; rw [this] at hdn; cases hdn; exact ⟨_, hreach y hy⟩)⟩
      have hsubok : SubOK P sub cand := by
        refine ⟨hfl, hf2, fun y hy => vreach_any (hreach y hy), ?_⟩
        -- the candidate itself is a node of its reduced DAG
        unfold reducedRef at hsub
        simp only [] at hsub
        split at hsub
        · next y hy => exact absurd hy (vnodes_not_single x.sw _ y)
        · split at hsub
          · cases hsub
          · next ns hns =>
            cases hsub
            refine Graph.between_dst_mem hns x.sw.inIn.1 ?_ hcn ?_ (Ne.symm hci) hcr
            · simp [filteredView, x.sw.inIn.2]
            · simp [filteredView, hopen]
      have hdc : Lz (openCand s true cand) (Demanded P val cand) :=
        (hdm.mono g1).imp (fun hD => .cand hD hh hc hpre)
      have hdd : Lz (openCand s true cand) (∀ n ∈ sub.nodes, Demanded P val n) :=
        hdc.imp (fun hD => Demanded.of_reducedRef x.sw hsub hD)
      have g2 : Grows (openCand s true cand) (spawn (openCand s true cand) [.dagInit sub] .dag).1 := Grows.of_eq rfl rfl rfl
      have x2 := x1.to (x1.inv.spawn [.dagInit sub] .dag (by
        intro f hf; simp at hf; subst hf; exact ⟨hfl, hdd⟩)) g2
      have ho2 : ObsAll P val (obs ++ [.spawn (openCand s true cand).tasks.length .dag]) := ho.snoc (o := .spawn _ _) trivial
      refine safe_oneofAfter x2 _ ho2 d hd h cand hh ((hdm.mono g1).mono g2) pre rest hc hpre hsubok ?_
      intro hall
      exact ih _ _ ho2 x2 ((hdm.mono g1).mono g2) ⟨pre ++ [cand], by rw [hc]; simp, hall⟩

theorem safe_oneofWake {P : Program} {c : Ctx} {s : St} {below : List Frame} (x : StepCtx P val c s below)
    (obs : List Obs) (ho : ObsAll P val obs) (d : DagRef) (hd : DagFl P d) (h cand : Node)
    (hh : P.g.isOneofHead h = true) (hdm : Lz s (Demanded P val h))
    (pre rest : List Node) (hc : cands P h = pre ++ cand :: rest) (hpre : ∀ y ∈ pre, val y = none)
    {sub : DagRef} (hsub : SubOK P sub cand) : Good P val (oneofWake c s obs d h cand rest sub below) := by
  unfold oneofWake
  refine safe_oneofAfter x obs ho d hd h cand hh hdm pre rest hc hpre hsub ?_
  intro hall
  exact safe_oneofTry d hd h hh rest s obs ho x hdm ⟨pre ++ [cand], by rw [hc]; simp, hall⟩

theorem safe_switchStart {P : Program} {c : Ctx} {s : St} {below : List Frame} (x : StepCtx P val c s below)
    (obs : List Obs) (ho : ObsAll P val obs) (d : DagRef) (n : Node) (hd : DagFl P d)
    (hsn : P.g.isSwitch n = true) (hdm : Lz s (Demanded P val n)) (hdr : DeciderReady P s n) :
    Good P val (switchStart c s obs d n below) := by
  obtain ⟨hnone, hsome⟩ := switchSel_sem x.sw x.inv.data n hdr
  unfold switchStart
  rw [x.cP]
  split
  · next hn =>
    have hcause : ErrCause P val (switchError P s n) := by
      unfold switchError
      split
      · next x0 hx => exact switchLabel_exc_cause x.inv.data n hx
      · exact Or.inr (Or.inr (Or.inl ⟨n, hsn, rfl, hnone hn⟩))
    dsimp only
    split
    · next hiso =>
      -- inside a one-of scope: the error is kept as the switch node's result
      have hvn : val n = none := by rw [x.sol.sw n hsn, hnone hn]; rfl
      have g := grows_setRes_exc x.inv.data n (switchError P s n) hvn
      have x1 := x.to (x.inv.setResExc n _ hvn hcause (hd.one hiso)) g
      refine good_retTo c ((x1.inv.notify _).notifyAll _) ho _ _ ?_
      intro f hf
      exact (x1.bel f hf).mono ((Grows.of_eq (s' := notify (s.setRes n (.exc (switchError P s n))) (.node n))
        rfl rfl rfl).trans (grows_notifyAll _ _))
    · refine good_raiseOut c x.cP (x.inv.notify .run) ho below _ ?_
      intro e he
      cases he
      exact hcause
  · next l cn hsel =>
    have hc : SwChoice P val n l cn := hsome l cn hsel
    have hold : ∀ lc, s.sw n = some lc → lc = (l, cn) := by
      intro lc hlc
      have h2 := x.inv.data.swOK n lc.1 lc.2 hlc
      have h1 : lc.1 = l := by
        have := h2.1; rw [hc.1] at this
        simp only [Option.some.injEq, Val.str.injEq] at this; exact this.symm
      have h3 := h2.2
      rw [h1, hc.2] at h3
      have h4 := (Option.some.inj h3).symm
      obtain ⟨a, b⟩ := lc
      simp only at h1 h4 ⊢
      subst h1
      exact h4
    have g : Grows s (s.setSw n (l, cn)) := by
      refine ⟨fun _ v h => ⟨v, h, fun _ => rfl⟩, ?_, id⟩
      intro T lc hT
      simp only [St.setSw, upd]
      split
      · next he => subst he; rw [hold lc hT]
      · exact hT
    have x1 : StepCtx P val c (s.setSw n (l, cn)) below := x.to (x.inv.setSw n l cn hc hold) g
    obtain ⟨hi2, g2⟩ := x1.inv.openCand d.isOneof cn
    have x2 : StepCtx P val c (openCand (s.setSw n (l, cn)) d.isOneof cn) below := x1.to hi2 g2
    dsimp only
    split
    · exact good_raiseOut c x.cP x2.inv ho below _ (by intro e he; cases he; exact Or.inr (Or.inr (Or.inr (Or.inl rfl))))
    · next sub hsub =>
      obtain ⟨hf1, hf2, _, hreach⟩ := reducedRef_reach x.sw hsub
      have hfl : DagFl P sub := ⟨hf1, fun h1 => hd.one (by rw [← hf2]; exact h1), (fun dn hdn y hy => by
        have := reducedRef_dest x.sw hsub; rw [this] at hdn; cases hdn; exact ⟨_, hreach y hy⟩)⟩
      have x3 : StepCtx P val c (openCand (s.setSw n (l, cn)) d.isOneof cn) (.switchRet d n :: below) :=
        ⟨x2.cP, x2.sw, x2.sol, x2.inv, frames_cons x2.bel _ hd⟩
      refine safe_dagInit x3 obs ho sub hfl (((hdm.mono g).mono g2).imp ?_)
      intro hS
      exact Demanded.of_reducedRef x.sw hsub (.case hS hsn hc.sel)

/-! ### `chart.run` / `manager.run` -/

theorem safe_mgrReturn {P : Program} {c : Ctx} {s : St} (h : SInvX P val (some c.t) s) (obs : List Obs)
    (hob : ObsAll P val obs) (o : Outcome) (ho : OutcomeOKSw P val o) : Good P val (mgrReturn c s obs o) := by
  unfold mgrReturn
  have := good_endTask c h (hob.snoc (o := .returned o) ho) .ok (by intro e he; cases he)
  exact ⟨this.1.setOutcome o ho, this.2⟩

theorem safe_mgrComplete {P : Program} {c : Ctx} {s : St} (x : StepCtx P val c s []) (obs : List Obs)
    (hob : ObsAll P val obs) (o : Outcome) (ho : OutcomeOKSw P val o) : Good P val (mgrComplete c s obs o) := by
  unfold mgrComplete
  have ho1 : ObsAll P val (obs ++ [.pcomplete o]) := hob.snoc ho
  split
  · exact safe_mgrReturn x.inv obs hob _ ho
  · refine safe_cbCall x .pcomplete 0 _ ho1 _ _ _ (safe_mgrReturn x.inv _ ho1 o ho) ?_ ?_
    · intro e he
      exact safe_mgrReturn x.inv _ (ObsAll.ite (ho1.snoc (o := .pcomplete (.error e)) (errCause_collab he)) ho1) _
        (errCause_collab he)
    · intro j f hf
      simp only [List.mem_singleton] at hf
      subst hf
      exact ho

theorem safe_mgrFinish {P : Program} {c : Ctx} {s : St} (x : StepCtx P val c s []) (obs : List Obs)
    (hob : ObsAll P val obs)
    (hfin : (!(taskErrors s).isEmpty || s.exists c.P.g.output) = true) : Good P val (mgrFinish c s obs) := by
  unfold mgrFinish
  have ho : OutcomeOKSw P val (finishOutcome c s) := by
    unfold finishOutcome
    split
    · next e hidx =>
      have hmem : e ∈ taskErrors s := List.mem_of_getElem? hidx
      have hc : ErrCause P val e := by
        simp only [taskErrors, List.mem_filterMap] at hmem
        obtain ⟨tk, htk, hst⟩ := hmem
        obtain ⟨i, hi, rfl⟩ := List.getElem_of_mem htk
        have hget : s.tasks[i]? = some s.tasks[i] := List.getElem?_eq_getElem hi
        refine x.inv.errs i _ hget e ?_
        split at hst
        · next e' he' => cases hst; exact he'
        · cases hst
      split <;> exact hc
    · next hidx =>
      have hnil : taskErrors s = [] := by
        cases hl : taskErrors s with
        | nil => rfl
        | cons a l =>
          rw [hl] at hidx
          have : c.pick % max (a :: l).length 1 < (a :: l).length := by
            have : max (a :: l).length 1 = (a :: l).length := by simp
            rw [this]; exact Nat.mod_lt _ (by simp)
          rw [List.getElem?_eq_none_iff] at hidx
          omega
      simp only [hnil, List.isEmpty_nil, Bool.not_true, Bool.false_or, x.cP] at hfin
      simp only [St.exists, Bool.and_eq_true] at hfin
      rw [x.cP]
      cases hr : s.res P.g.output with
      | none => rw [hr] at hfin; simp at hfin
      | some w =>
        have hg : s.getHid P.g.output = w := by simp [St.getHid, hr]
        rw [hg]
        constructor
        · intro hne; exact x.inv.data.agree _ w hr hne
        · intro hex
          cases w <;> simp [Val.isExc] at hex
          next e => exact (x.inv.data.excOK _ e hr).2.2
  have x1 : StepCtx P val c (cancelTasks s (liveTasks s c.t)) [] :=
    ⟨x.cP, x.sw, x.sol, x.inv.cancelTasks _, by intro f hf; simp at hf⟩
  exact safe_mgrComplete x1 obs hob _ ho

theorem safe_mgrCheck {P : Program} {c : Ctx} {s : St} (x : StepCtx P val c s []) (obs : List Obs)
    (hob : ObsAll P val obs) : Good P val (mgrCheck c s obs) := by
  unfold mgrCheck
  split
  · next h => exact safe_mgrFinish x obs hob h
  · exact good_block c x.inv hob _ _ (by intro f hf; simp at hf; subst hf; trivial)

theorem safe_mgrBegin {P : Program} {c : Ctx} {s : St} (x : StepCtx P val c s []) (obs : List Obs)
    (hob : ObsAll P val obs) : Good P val (mgrBegin c s obs) := by
  unfold mgrBegin
  split
  · next hp =>
    refine safe_mgrComplete x obs hob _ ?_
    show ErrCause P val _
    exact Or.inr (Or.inr (Or.inr (Or.inr (Or.inl ⟨by rw [← x.cP]; simpa using hp, rfl⟩))))
  · split
    · refine safe_mgrComplete x obs hob _ ?_
      show ErrCause P val _
      exact Or.inr (Or.inr (Or.inr (Or.inl rfl)))
    · next d hd =>
      rw [x.cP] at hd
      obtain ⟨hf1, hf2, _, hreach⟩ := reducedRef_reach x.sw hd
      have hf : DagFl P d := ⟨hf1, (fun h1 => by rw [hf2] at h1; cases h1), (fun dn hdn y hy => by
        have := reducedRef_dest x.sw hd; rw [this] at hdn; cases hdn; exact ⟨_, hreach y hy⟩)⟩
      have x1 : StepCtx P val c (spawn s [.dagInit d] .run).1 [] :=
        ⟨x.cP, x.sw, x.sol, x.inv.spawn _ _ (by
          intro f hf'; simp at hf'; subst hf'
          exact ⟨hf, Lz.intro (Demanded.of_reducedRef x.sw hd .out)⟩), by intro f hf'; simp at hf'⟩
      exact safe_mgrCheck x1 _ (hob.snoc trivial)

theorem safe_mgrStart {P : Program} {c : Ctx} {s : St} (x : StepCtx P val c s []) (obs : List Obs)
    (hob : ObsAll P val obs) : Good P val (mgrStart c s obs) := by
  unfold mgrStart
  have ho1 : ObsAll P val (obs ++ [.pstart]) := hob.snoc trivial
  refine safe_cbCall x .pstart 0 _ ho1 _ _ _ (safe_mgrBegin x _ ho1)
    (fun e he => safe_mgrReturn x.inv _ ho1 _ (errCause_collab he)) ?_
  intro j f hf
  simp only [List.mem_singleton] at hf
  subst hf
  trivial

theorem safe_deliverCancel {P : Program} {c : Ctx} {s : St} (hcP : c.P = P) (h : SInvX P val (some c.t) s) (tk : Task) :
    Good P val (deliverCancel c s tk) := by
  have hob : ObsAll P val [.returned .cancelled] := by
    intro o ho; simp only [List.mem_singleton] at ho; subst ho; trivial
  have hr : ∀ e, TaskRes.cancelled = .exc e → ErrCause P val e := by intro e he; cases he
  have key : ∀ s', SInvX P val (some c.t) s' →
      Good P val (((endTask c s' [.returned .cancelled] .cancelled).1.setOutcome .cancelled),
        (endTask c s' [.returned .cancelled] .cancelled).2) := by
    intro s' h'
    have := good_endTask c h' hob .cancelled hr
    exact ⟨this.1.setOutcome _ trivial, this.2⟩
  unfold deliverCancel
  split
  · exact key _ h
  · exact key _ h
  · exact key _ (h.cancelTasks _)
  · exact key _ h
  · exact good_raiseOut c hcP h ObsAll.nil _ _ hr

/-! ### one section of any task, one step, every reachable state -/

theorem safe_stepTask {P : Program} (hsw : OneP P) (hsol : SolutionOne P val) {s : St} (h : SInv P val s)
    (hci : CoreInv s.core) (c : Ctx) (hcP : c.P = P) (out : Out) (hs : stepTask c s = some out) :
    Good P val out := by
  have hn : ObsAll P val [] := ObsAll.nil
  unfold stepTask at hs
  split at hs
  · cases hs
  · next tk htk =>
    have hfr : ∀ f ∈ tk.frames, FrameOK P val s f := h.frames c.t tk htk (by simp)
    have hx : SInvX P val (some c.t) s := h.weaken c.t
    split at hs
    · next rv hst =>
      split at hs
      · obtain rfl := Option.some.inj hs
        exact safe_deliverCancel hcP hx tk
      · -- dispatch on the frames
        have mkx : ∀ below, (∀ f ∈ below, FrameOK P val s f) → StepCtx P val c s below :=
          fun below hb => ⟨hcP, hsw, hsol, hx, hb⟩
        have tl : ∀ (f0 : Frame) (below : List Frame), tk.frames = f0 :: below → ∀ f ∈ below, FrameOK P val s f :=
          fun f0 below hfs f hf => hfr f (by rw [hfs]; simp [hf])
        have hd0 : ∀ (f0 : Frame) (below : List Frame), tk.frames = f0 :: below → FrameOK P val s f0 :=
          fun f0 below hfs => hfr f0 (by rw [hfs]; simp)
        split at hs
        · obtain rfl := Option.some.inj hs
          exact safe_mgrStart (mkx [] (by intro f hf; simp at hf)) _ hn
        · obtain rfl := Option.some.inj hs
          exact safe_mgrCheck (mkx [] (by intro f hf; simp at hf)) _ hn
        · obtain rfl := Option.some.inj hs
          exact safe_cbThen (mkx [] (by intro f hf; simp at hf)) _ hn _ _ _
            (safe_mgrBegin (mkx [] (by intro f hf; simp at hf)) _ hn)
            (by intro j' f hf; simp at hf; subst hf; trivial)
        · next _ _ j o hfs =>
          obtain rfl := Option.some.inj hs
          have ho : OutcomeOKSw P val o := hd0 _ _ hfs
          exact safe_cbThen (mkx [] (by intro f hf; simp at hf)) _ hn _ _ _
            (safe_mgrReturn hx _ hn o ho) (by intro j' f hf; simp at hf; subst hf; exact ho)
        · next _ _ d below hfs =>
          obtain rfl := Option.some.inj hs
          exact safe_dagInit (mkx below (tl _ _ hfs)) _ hn d (hd0 _ _ hfs).1 (hd0 _ _ hfs).2
        · next _ _ d rest below hfs =>
          obtain rfl := Option.some.inj hs
          exact safe_dagLaunch d (hd0 _ _ hfs).1 _ _ _ hn (mkx below (tl _ _ hfs)) (hd0 _ _ hfs).2.1 (hd0 _ _ hfs).2.2
        · next _ _ d below hfs =>
          obtain rfl := Option.some.inj hs
          exact safe_dagWaitDest (mkx below (tl _ _ hfs)) _ hn d (hd0 _ _ hfs)
        · next _ _ d n force below hfs =>
          obtain rfl := Option.some.inj hs
          obtain ⟨a1, a3, a4, a4', a5⟩ := hd0 _ _ hfs
          subst a3
          exact safe_nodeStart (mkx below (tl _ _ hfs)) _ hn d n a1 a4 a4' a5 hci
        · next _ _ d n force below hfs =>
          obtain rfl := Option.some.inj hs
          exact safe_nodePost_wait (mkx below (tl _ _ hfs)) _ hn d n
        · next _ _ d n force k kw inv below o hfs =>
          obtain rfl := Option.some.inj hs
          obtain ⟨a1, a3, a4, a4', a5⟩ := hd0 _ _ hfs
          subst a3
          rw [hcP]
          exact safe_nodeAfterBody (mkx below (tl _ _ hfs)) _ hn d n k kw inv a1 a4 a4' a5
        · next _ _ d n force k kw inv below hfs =>
          obtain rfl := Option.some.inj hs
          obtain ⟨a1, a3, a4, a4', a5⟩ := hd0 _ _ hfs
          subst a3
          exact safe_nodeAttempt (mkx below (tl _ _ hfs)) _ hn d n (k + 1) kw inv a1 a4 a4' a5
        · next _ _ d n force j inv below hfs =>
          obtain rfl := Option.some.inj hs
          obtain ⟨a1, a3, a4, a4', a5, a6⟩ := hd0 _ _ hfs
          subst a3
          refine safe_cbThen (mkx below (tl _ _ hfs)) _ hn _ _ _
            (safe_nodeBegin (mkx below (tl _ _ hfs)) _ hn d n inv a1 a4 a4' a5 a6) ?_
          intro j'
          exact frames_cons (tl _ _ hfs) _ ⟨a1, rfl, a4, a4', a5, a6⟩
        · next _ _ d n force j k kw inv below hfs =>
          obtain rfl := Option.some.inj hs
          obtain ⟨a1, a3, a4, a4', a5⟩ := hd0 _ _ hfs
          subst a3
          refine safe_cbThen (mkx below (tl _ _ hfs)) _ hn _ _ _
            (safe_nodeSleep (mkx below (tl _ _ hfs)) _ hn d n k kw inv a1 a4 a4' a5) ?_
          intro j'
          exact frames_cons (tl _ _ hfs) _ ⟨a1, rfl, a4, a4', a5⟩
        · next _ _ d n force j v below hfs =>
          obtain rfl := Option.some.inj hs
          obtain ⟨a1, a3, a4, a4', a5, a6⟩ := hd0 _ _ hfs
          refine safe_cbThen (mkx below (tl _ _ hfs)) _ hn _ _ _
            (safe_nodePost_exec (mkx below (tl _ _ hfs)) _ hn d n v a1 a4 a4' a5 a6) ?_
          intro j'
          exact frames_cons (tl _ _ hfs) _ ⟨a1, rfl, a4, a4', a5, a6⟩
        · next _ _ d n force j e below hfs =>
          obtain rfl := Option.some.inj hs
          obtain ⟨a1, a3, a4, a4', a5, a6⟩ := hd0 _ _ hfs
          refine safe_cbThen (mkx below (tl _ _ hfs)) _ hn _ _ _
            (safe_nodeFailCont (mkx below (tl _ _ hfs)) _ hn d n e a1 a4 a5 a6) ?_
          intro j'
          exact frames_cons (tl _ _ hfs) _ ⟨a1, rfl, a4, a4', a5, a6⟩
        · next _ _ d n force j below hfs =>
          obtain rfl := Option.some.inj hs
          obtain ⟨a1, a3, a4, a4', a5⟩ := hd0 _ _ hfs
          refine safe_cbThen (mkx below (tl _ _ hfs)) _ hn _ _ _
            (safe_nodeFinish (mkx below (tl _ _ hfs)) _ hn d n) ?_
          intro j'
          exact frames_cons (tl _ _ hfs) _ ⟨a1, rfl, a4, a4', trivial⟩
        · next _ _ d n below hfs =>
          obtain rfl := Option.some.inj hs
          obtain ⟨a1, a3, a4, a5⟩ := hd0 _ _ hfs
          exact safe_switchStart (mkx below (tl _ _ hfs)) _ hn d n a1 a3 a4 a5
        · next _ _ d n below v hfs =>
          obtain rfl := Option.some.inj hs
          rw [hcP]
          exact good_retTo c (hx.notifyAll _) hn _ _
            (fun f hf => (tl _ _ hfs f hf).mono (grows_notifyAll _ _))
        · next _ _ d hd below hfs =>
          obtain rfl := Option.some.inj hs
          obtain ⟨a1, a2, a3⟩ := hd0 _ _ hfs
          rw [hcP]
          exact safe_oneofTry d a1 hd a2 _ s [] hn (mkx below (tl _ _ hfs)) a3 ⟨[], rfl, by intro y hy; cases hy⟩
        · next _ _ d hd cand rest sub below hfs =>
          obtain rfl := Option.some.inj hs
          obtain ⟨a1, a2, a3, ⟨pre, a4, a5⟩, a6⟩ := hd0 _ _ hfs
          exact safe_oneofWake (mkx below (tl _ _ hfs)) _ hn d a1 hd cand a2 a3 pre rest a4 a5 a6
        · next _ _ d n r below hfs => exact absurd (hd0 _ _ hfs) (by simp [FrameOK])
        · next _ _ d n st g k below v hfs => exact absurd (hd0 _ _ hfs) (by simp [FrameOK])
        · next _ _ d n st below v hfs => exact absurd (hd0 _ _ hfs) (by simp [FrameOK])
        · cases hs
    · cases hs

theorem gateDone_frames (n inv att : Nat) (tk : Task) : (gateDone n inv att tk).frames = tk.frames := by
  unfold gateDone
  split
  · split <;> rfl
  · rfl

theorem gateDone_exc (n inv att : Nat) (tk : Task) (e : Exc) (h : (gateDone n inv att tk).st = .done (.exc e)) :
    tk.st = .done (.exc e) := by
  unfold gateDone at h
  split at h
  · split at h
    · cases h
    · exact h
  · exact h

/-- **every step of the engine model preserves the safety invariant and emits only justified observations**
(switch-only programs) -/
theorem safe_step {P : Program} (hsw : OneP P) (hsol : SolutionOne P val) {s : St} (h : SInv P val s)
    (hci : CoreInv s.core) (ch : Choice) (out : Out) (hs : step P s ch = some out) : Good P val out := by
  cases ch with
  | run t ord pick => exact safe_stepTask hsw hsol h hci _ rfl out hs
  | gate n inv att =>
    simp only [step] at hs
    split at hs
    · cases hs
    · obtain rfl := Option.some.inj hs
      exact ⟨h.map_tasks ⟨rfl, rfl, rfl, rfl, rfl, rfl, rfl, rfl, rfl, rfl⟩ _ rfl (gateDone_frames n inv att) (gateDone_exc n inv att),
        ObsAll.nil⟩
  | timer t =>
    simp only [step] at hs
    split at hs
    · next tk htk =>
      split at hs
      · next hst =>
        obtain rfl := Option.some.inj hs
        refine ⟨?_, ObsAll.nil⟩
        refine h.transport (h.data.of_same ⟨rfl, rfl, rfl, rfl, rfl, rfl, rfl, rfl, rfl, rfl⟩) (Grows.of_eq rfl rfl rfl) ?_
        intro i tk' hi
        by_cases hit : i = t
        · subst hit
          simp only [St.setTask] at hi
          rw [List.getElem?_set_self (getElem?_lt htk)] at hi
          cases hi
          exact Or.inl ⟨tk, htk, rfl, by intro e he; cases he⟩
        · simp only [St.setTask, List.getElem?_set_ne (Ne.symm hit)] at hi
          exact Or.inl (old_task hi)
      · cases hs
    · cases hs
  | cancelCaller =>
    simp only [step] at hs
    obtain rfl := Option.some.inj hs
    exact ⟨h.cancelTask 0, ObsAll.nil⟩

theorem safe_init {P : Program} : SInv P val init := by
  refine ⟨⟨fun _ => rfl, fun _ => rfl, fun _ => rfl, fun _ => rfl, ?_, ?_, ?_, ?_, ?_, ?_, ?_, rfl⟩, ?_, ?_⟩
  · intro n v h; simp [init] at h
  · intro n v h; simp [init] at h
  · intro n v h; simp [init] at h
  · intro n e h; simp [init] at h
  · intro S l c h; simp [init] at h
  · intro o h; simp [init] at h
  · exact Or.inr (by intro n h; simp [init] at h)
  · intro i tk hi _ f hf
    simp only [init] at hi
    match i, hi with
    | 0, hi => simp at hi; subst hi; simp at hf; subst hf; trivial
    | i + 1, hi => simp at hi
  · intro i tk hi e he
    simp only [init] at hi
    match i, hi with
    | 0, hi => simp at hi; subst hi; cases he
    | i + 1, hi => simp at hi

/-- **the safety invariant holds in every reachable state** of a switch-only program, under every schedule -/
theorem safe_reach {P : Program} (hsw : OneP P) (hsol : SolutionOne P val) {s : St} (h : Reach P s) : SInv P val s := by
  induction h with
  | init => exact safe_init
  | @step s s' c obs hr hs ih => exact (safe_step hsw hsol ih (coreInv_reach hr) c (s', obs) hs).1

/-- **everything a run of a switch-only program lets its collaborators observe is justified**, under every schedule -/
theorem safe_exec {P : Program} (hsw : OneP P) (hsol : SolutionOne P val) {s : St} {log : List Obs} (h : Exec P s log) :
    SInv P val s ∧ ObsAll P val log := by
  induction h with
  | init => exact ⟨safe_init, ObsAll.nil⟩
  | @step s s' log obs c hr hs ih =>
    have := safe_step hsw hsol ih.1 (coreInv_reach hr.reach) c (s', obs) hs
    exact ⟨this.1, ih.2.append this.2⟩

/-! ### the switch-only special case -/

/-- in a program without one-ofs no exception object is ever stored -/
theorem SData.noExc {P : Program} {s : St} (hd : SData P val s) (hno : ¬ HasHeads P) (n : Node) (v : Val)
    (h : s.res n = some v) : v.isExc = false := by
  cases hx : v.isExc with
  | false => rfl
  | true =>
    cases v <;> simp [Val.isExc] at hx
    next e => exact absurd (hd.excOK n e h).2.2 hno

theorem safe_reach_sw {P : Program} (hsw : SwP P) (hsol : SolutionSw P val) {s : St} (h : Reach P s) : SInv P val s :=
  safe_reach hsw.toOneP (hsol.toOne hsw) h

theorem safe_exec_sw {P : Program} (hsw : SwP P) (hsol : SolutionSw P val) {s : St} {log : List Obs} (h : Exec P s log) :
    SInv P val s ∧ ObsAll P val log :=
  safe_exec hsw.toOneP (hsol.toOne hsw) h

/-- in a switch-only program, a returned value is the output's -/
theorem outcome_value_sw {P : Program} (hsw : SwP P) {v : Val} (h : OutcomeOKSw P val (.value v)) :
    val P.g.output = some v := by
  cases hx : v.isExc with
  | false => exact h.1 hx
  | true => exact absurd (h.2 hx) hsw.noHeads

/-- in a switch-only program a failure has one of the five switch-pipeline causes -/
theorem errCause_sw {P : Program} (hsw : SwP P) {e : Exc} (h : ErrCause P val e) :
    (∃ n, P.g.isSwitch n = false ∧ NodeFails P val n e) ∨ CollabFails P e ∨
    (∃ S, P.g.isSwitch S = true ∧ e = ⟨"SwitchNoCase", S, 0, 0⟩ ∧ swSel P val S = none) ∨
    e = ⟨"Other:NodeNotFound", 0, 0, 0⟩ ∨ (P.poolsOk = false ∧ e = ⟨"Other:RuntimeError", 0, 0, 0⟩) := by
  rcases h with ⟨n, h1, _, h3⟩ | h | h | h | h | ⟨x, hx, _⟩
  · exact Or.inl ⟨n, h1, h3⟩
  · exact Or.inr (Or.inl h)
  · exact Or.inr (Or.inr (Or.inl h))
  · exact Or.inr (Or.inr (Or.inr (Or.inl h)))
  · exact Or.inr (Or.inr (Or.inr (Or.inr h)))
  · rw [hsw.noHead x] at hx; cases hx

end MLPE.Eng

import MLPE.Proofs.Plain
import MLPE.Proofs.GraphReach

/-!
# Safety of pipelines with switches (any nesting, shared cases and deciders): stored results, arguments and the
returned value agree with the dataflow semantics — under every schedule

No one-of, no recurrent subgraph; switches are arbitrary.  This is a *safety* (partial-correctness) statement: it does
not say that the run terminates (for plain pipelines `Proofs/Plain.lean` does; for switches termination rests on the
tie), it says that whatever is stored, passed to a body or returned is what the dataflow reading of the pipeline
prescribes.  The invariant is local to frames: every frame of every task carries what the code at that suspension
point relies on, and these facts are monotone in the only parts of the state they mention (results and switch
decisions only grow).  A step is a chain of primitive updates (`setRes`, `setSw`, notifications, `spawn`, …), each of
which preserves the invariant *except for the frames of the stepping task*, closed by the primitive that installs the
task's new frames.
-/
namespace MLPE.Eng
open MLPE

variable {val : Node → Option Val}

/-- programs with switches only -/
structure SwP (P : Program) : Prop where
  noHead   : ∀ n, P.g.isOneofHead n = false
  noRecD   : ∀ n, (P.g.attr n).startNode = none
  noRecur  : ∀ n kw i k v, P.body n kw i k = .ret v → v.isRecur = false ∧ v.isExc = false
  noRecurD : ∀ n kw, (P.dflt n kw).isRecur = false ∧ (P.dflt n kw).isExc = false
  /-- decision nodes are ordinary nodes (the builder refers to them by their class) -/
  decPlain : ∀ e ∈ P.g.edges, e.isSwitch = true → P.g.isSwitch e.u = false
  /-- the edges into a synthetic switch node are its decision edge and its case edges -/
  swEdges  : ∀ e ∈ P.g.edges, P.g.isSwitch e.v = true → e.isSwitch = true ∨ e.case.isSome = true
  outIn    : P.g.output ∈ P.g.nodes
  noChild  : ∀ n ∈ P.g.nodes, (P.g.attr n).isOneofChild = false

/-! ### the dataflow reading with switches -/

/-- `val` solves the dataflow equations: an ordinary node has the value the retry / default policy yields on the values
of its sources (a switch source contributes the value of its selected case); a switch node has the value of the case
whose label its decision node returned -/
structure SolutionSw (P : Program) (val : Node → Option Val) : Prop where
  plain : ∀ n, P.g.isSwitch n = false →
    val n = if (P.g.preds n).all (fun p => (val p).isSome) then valueOf P n (kwFrom P val n) else none
  sw    : ∀ S, P.g.isSwitch S = true → val S = (swSel P val S).bind val

/-- the decision recorded for switch `S` is the semantic one -/
def SwChoice (P : Program) (val : Node → Option Val) (S : Node) (l : Label) (c : Node) : Prop :=
  switchLabelV P val S = some (.str l) ∧ ((switchCases P S).filter (·.1 == l)).getLast? = some (l, c)

theorem SwChoice.sel {P : Program} {S : Node} {l : Label} {c : Node} (h : SwChoice P val S l c) : swSel P val S = some c := by
  simp [swSel, h.1, h.2]

/-! ### laziness: what the dataflow reading needs -/

/-- the nodes the result depends on: the output; every source of a needed ordinary node; the decision node and the
**selected** case of a needed switch (a case that is not selected is needed only if somebody else needs it) -/
inductive Demanded (P : Program) (val : Node → Option Val) : Node → Prop
  | out : Demanded P val P.g.output
  | pred {n p : Node} : Demanded P val n → P.g.isSwitch n = false → p ∈ P.g.preds n → Demanded P val p
  | decider {S : Node} {e : Edge} : Demanded P val S → P.g.isSwitch S = true → e ∈ P.g.edges → e.v = S →
      e.isSwitch = true → Demanded P val e.u
  | case {S c : Node} : Demanded P val S → P.g.isSwitch S = true → swSel P val S = some c → Demanded P val c

/-- need propagates backwards along every edge a reduced DAG can contain (case edges are filtered out) -/
theorem Demanded.back_edge {P : Program} (hsw : SwP P) {s : St} {a b : Node}
    (he : Graph.VEdge P.g (filteredView P s) a b) (hb : Demanded P val b) : Demanded P val a := by
  obtain ⟨e, hm, hu, hv, hok⟩ := he
  subst hu hv
  cases hS : P.g.isSwitch e.v with
  | false =>
    refine .pred hb hS ?_
    simp only [Graph.preds, List.mem_map, List.mem_filter, beq_iff_eq]
    exact ⟨e, ⟨hm, rfl⟩, rfl⟩
  | true =>
    rcases hsw.swEdges e hm hS with h1 | h1
    · exact .decider hb hS hm rfl h1
    · simp only [filteredView, Bool.and_eq_true, Option.isNone_iff_eq_none] at hok
      rw [hok.1] at h1; cases h1

theorem Demanded.of_vreach {P : Program} (hsw : SwP P) {s : St} {a b : Node}
    (h : Graph.VReach P.g (filteredView P s) a b) : Demanded P val b → Demanded P val a := by
  induction h with
  | refl => exact id
  | tail _ he ih => exact fun hc => ih (Demanded.back_edge hsw he hc)

/-- every node of a reduced DAG that ends in a needed node is needed -/
theorem Demanded.of_reducedRef {P : Program} (hsw : SwP P) {s : St} {src dst : Node} {f1 f2 f3 : Bool} {d : DagRef}
    (h : reducedRef P s src dst f1 f2 f3 = some d) (hd : Demanded P val dst) : ∀ n ∈ d.nodes, Demanded P val n := by
  unfold reducedRef at h
  simp only [] at h
  split at h
  · next x hx =>
    -- a graph with a single visible node: that node is the output
    have hv : P.g.vnodes (filteredView P s) = P.g.nodes := by
      simp only [Graph.vnodes, filteredView]
      rw [List.filter_eq_self]
      intro n hn
      simp [hsw.noChild n hn]
    rw [hv] at hx
    cases h
    intro n hn
    simp only [List.mem_singleton] at hn
    have ho := hsw.outIn
    rw [hx, List.mem_singleton] at ho
    rw [hn, ← ho]
    exact .out
  · split at h
    · cases h
    · next ns hns =>
      cases h
      intro n hn
      exact Demanded.of_vreach hsw (Graph.between_sound hns hn) hd

/-- the state carries a ghost flag saying that the oracle once supplied a launch order the model rejects; laziness
facts hold unless it is set -/
def Lz (s : St) (X : Prop) : Prop := s.badOrd = true ∨ X

theorem Lz.imp {s : St} {X Y : Prop} (h : Lz s X) (f : X → Y) : Lz s Y := h.elim Or.inl (fun x => Or.inr (f x))

theorem Lz.intro {s : St} {X : Prop} (h : X) : Lz s X := Or.inr h

/-! ### why a run may fail -/

/-- the possible origins of an exception in a run of a switch-only program: the final failure of a node on its dataflow
arguments, a failing collaborator, a switch whose decision value names no case, or a lookup error of the engine's setup
(a case not reachable from the input; pools not registered) -/
def ErrCause (P : Program) (val : Node → Option Val) (e : Exc) : Prop :=
  (∃ n, P.g.isSwitch n = false ∧ NodeFails P val n e) ∨ CollabFails P e ∨
  (∃ S, P.g.isSwitch S = true ∧ e = ⟨"SwitchNoCase", S, 0, 0⟩ ∧ (switchLabelV P val S).isSome = true ∧
    swSel P val S = none) ∨
  e = ⟨"Other:NodeNotFound", 0, 0, 0⟩ ∨ (P.poolsOk = false ∧ e = ⟨"Other:RuntimeError", 0, 0, 0⟩)

/-- what an outcome of `chart.run` must be: the value of the output node, or an error with a cause -/
def OutcomeOKSw (P : Program) (val : Node → Option Val) : Outcome → Prop
  | .value v => val P.g.output = some v
  | .error e => ErrCause P val e
  | .raised e => ErrCause P val e
  | .cancelled => True

/-! ### what the frames rely on -/

/-- the source `u` of an input edge is available: a result, or for a switch a recorded decision whose case has a result -/
def SrcReady (P : Program) (s : St) (u : Node) : Prop :=
  if P.g.isSwitch u then ∃ l c, s.sw u = some (l, c) ∧ (s.res c).isSome = true else (s.res u).isSome = true

def InputsReady (P : Program) (s : St) (n : Node) : Prop := ∀ e ∈ P.g.edges, e.v = n → SrcReady P s e.u

def DeciderReady (P : Program) (s : St) (S : Node) : Prop :=
  ∀ e ∈ P.g.edges, e.v = S → e.isSwitch = true → (s.res e.u).isSome = true

def PcOK (P : Program) (val : Node → Option Val) (s : St) (n : Node) : NodePc → Prop
  | .start => InputsReady P s n
  | .evWait => True
  | .body k kw inv => Att P val n k kw inv
  | .sleep k kw inv => Att P val n (k + 1) kw inv
  | .cbStart _ inv => InputsReady P s n ∧ inv = 0
  | .cbRetry _ k kw inv => Att P val n (k + 1) kw inv
  | .cbOk _ v => val n = some v ∧ v.isRecur = false ∧ v.isExc = false
  | .cbFail _ e => ErrCause P val e
  | .cbSave _ => True

def FrameOK (P : Program) (val : Node → Option Val) (s : St) : Frame → Prop
  | .node d n force pc => d.isOneof = false ∧ d.isRec = false ∧ force = false ∧ P.g.isSwitch n = false ∧
      Lz s (Demanded P val n) ∧ PcOK P val s n pc
  | .dagInit d => (d.isOneof = false ∧ d.isRec = false) ∧ Lz s (∀ n ∈ d.nodes, Demanded P val n)
  | .dagLaunch d rest => (d.isOneof = false ∧ d.isRec = false) ∧ Lz s (∀ n ∈ d.nodes, Demanded P val n) ∧
      Lz s (∀ n ∈ rest, n ∈ d.nodes)
  | .dagWaitDest d => d.isOneof = false ∧ d.isRec = false
  | .switchStart d n => d.isOneof = false ∧ d.isRec = false ∧ P.g.isSwitch n = true ∧ Lz s (Demanded P val n) ∧
      DeciderReady P s n
  | .switchRet d _ => d.isOneof = false ∧ d.isRec = false
  | .mgrStart => True
  | .mgrWait => True
  | .mgrCbStart _ => True
  | .mgrCbComplete _ o => OutcomeOKSw P val o
  | .oneofStart _ _ => False
  | .oneofWait _ _ _ _ _ => False
  | .recStart _ _ _ => False
  | .recIterRet _ _ _ _ _ => False
  | .recDfltRet _ _ _ => False

/-- results and switch decisions only grow -/
structure Grows (s s' : St) : Prop where
  res : ∀ n v, s.res n = some v → s'.res n = some v
  sw  : ∀ S lc, s.sw S = some lc → s'.sw S = some lc
  bad : s.badOrd = true → s'.badOrd = true

theorem Grows.refl (s : St) : Grows s s := ⟨fun _ _ h => h, fun _ _ h => h, id⟩

theorem Grows.trans {a b c : St} (h1 : Grows a b) (h2 : Grows b c) : Grows a c :=
  ⟨fun n v h => h2.res n v (h1.res n v h), fun S lc h => h2.sw S lc (h1.sw S lc h), fun h => h2.bad (h1.bad h)⟩

theorem Grows.of_eq {s s' : St} (h1 : s'.res = s.res) (h2 : s'.sw = s.sw) (h3 : s'.badOrd = s.badOrd) : Grows s s' :=
  ⟨fun n v h => by rw [h1]; exact h, fun S lc h => by rw [h2]; exact h, fun h => by rw [h3]; exact h⟩

theorem Lz.mono {s s' : St} (g : Grows s s') {X : Prop} (h : Lz s X) : Lz s' X := h.elim (fun b => Or.inl (g.bad b)) Or.inr

theorem SrcReady.mono {P : Program} {s s' : St} (g : Grows s s') {u : Node} (h : SrcReady P s u) : SrcReady P s' u := by
  unfold SrcReady at *
  split
  · next hsw =>
    simp only [hsw, if_true] at h
    obtain ⟨l, c, h1, h2⟩ := h
    refine ⟨l, c, g.sw _ _ h1, ?_⟩
    cases hr : s.res c with
    | none => rw [hr] at h2; simp at h2
    | some v => rw [g.res c v hr]; rfl
  · next hsw =>
    simp only [hsw] at h
    cases hr : s.res u with
    | none => rw [hr] at h; simp at h
    | some v => rw [g.res u v hr]; rfl

theorem InputsReady.mono {P : Program} {s s' : St} (g : Grows s s') {n : Node} (h : InputsReady P s n) :
    InputsReady P s' n := fun e he hv => (h e he hv).mono g

theorem DeciderReady.mono {P : Program} {s s' : St} (g : Grows s s') {n : Node} (h : DeciderReady P s n) :
    DeciderReady P s' n := by
  intro e he hv hsw
  have := h e he hv hsw
  cases hr : s.res e.u with
  | none => rw [hr] at this; simp at this
  | some v => rw [g.res _ v hr]; rfl

theorem FrameOK.mono {P : Program} {s s' : St} (g : Grows s s') {f : Frame} (h : FrameOK P val s f) : FrameOK P val s' f := by
  cases f with
  | node d n force pc =>
    obtain ⟨h1, h2, h3, h4, h4', h5⟩ := h
    refine ⟨h1, h2, h3, h4, h4'.mono g, ?_⟩
    cases pc with
    | start => exact InputsReady.mono g h5
    | cbStart j inv => exact ⟨InputsReady.mono g h5.1, h5.2⟩
    | evWait => trivial
    | body k kw inv => exact h5
    | sleep k kw inv => exact h5
    | cbRetry j k kw inv => exact h5
    | cbOk j v => exact h5
    | cbFail j e => exact h5
    | cbSave j => trivial
  | switchStart d n => exact ⟨h.1, h.2.1, h.2.2.1, h.2.2.2.1.mono g, h.2.2.2.2.mono g⟩
  | dagInit d => exact ⟨h.1, h.2.mono g⟩
  | dagLaunch d r => exact ⟨h.1, h.2.1.mono g, h.2.2.mono g⟩
  | dagWaitDest d => exact h
  | switchRet d n => exact h
  | mgrStart => trivial
  | mgrWait => trivial
  | mgrCbStart j => trivial
  | mgrCbComplete j o => exact h
  | oneofStart d hd => exact h
  | oneofWait d hd c r sub => exact h
  | recStart d n r => exact h
  | recIterRet d n st g' k => exact h
  | recDfltRet d n st => exact h

/-! ### the invariant -/

/-- the parts of the state the frames talk about, and the parts a switch-only run never touches -/
structure SData (P : Program) (val : Node → Option Val) (s : St) : Prop where
  resHid  : ∀ n, s.resHid n = false
  procHid : ∀ n, s.procHid n = false
  addl    : ∀ n, s.additional n = none
  hides   : ∀ n, s.hideCount n = 0
  vals    : ∀ n v, s.res n = some v → v.isRecur = false ∧ v.isExc = false
  agree   : ∀ n v, s.res n = some v → val n = some v ∧ P.g.isSwitch n = false
  swOK    : ∀ S l c, s.sw S = some (l, c) → SwChoice P val S l c
  out     : ∀ o, s.outcome = some o → OutcomeOKSw P val o
  /-- laziness: only needed nodes are ever marked as processed (unless the oracle misbehaved) -/
  lazy    : Lz s (∀ n, s.proc n = true → Demanded P val n)

/-- every frame of every task (except task `ex`, whose frames are being replaced) is justified -/
def FramesOK (P : Program) (val : Node → Option Val) (s : St) (ex : Option Nat) : Prop :=
  ∀ (i : Nat) (tk : Task), s.tasks[i]? = some tk → some i ≠ ex → ∀ f ∈ tk.frames, FrameOK P val s f

/-- the exception a task ended with has a cause -/
def ErrsOK (P : Program) (val : Node → Option Val) (s : St) : Prop :=
  ∀ (i : Nat) (tk : Task), s.tasks[i]? = some tk → ∀ e, tk.st = .done (.exc e) → ErrCause P val e

structure SInvX (P : Program) (val : Node → Option Val) (ex : Option Nat) (s : St) : Prop where
  data   : SData P val s
  frames : FramesOK P val s ex
  errs   : ErrsOK P val s

abbrev SInv (P : Program) (val : Node → Option Val) (s : St) : Prop := SInvX P val none s

/-- the generic transport: the data part is re-established, results / decisions have grown, and every task is an old
one with unchanged frames (and no new failure) or is justified -/
theorem SInvX.transport {P : Program} {ex : Option Nat} {s s' : St} (h : SInvX P val ex s) (hd : SData P val s')
    (g : Grows s s')
    (ht : ∀ (i : Nat) (tk' : Task), s'.tasks[i]? = some tk' →
      (∃ tk, s.tasks[i]? = some tk ∧ tk'.frames = tk.frames ∧ ∀ e, tk'.st = .done (.exc e) → tk.st = .done (.exc e)) ∨
      ((some i ≠ ex → ∀ f ∈ tk'.frames, FrameOK P val s' f) ∧ ∀ e, tk'.st = .done (.exc e) → ErrCause P val e)) :
    SInvX P val ex s' := by
  refine ⟨hd, ?_, ?_⟩
  · intro i tk' hi hne f hf
    rcases ht i tk' hi with ⟨tk, h1, h2, _⟩ | h2
    · rw [h2] at hf
      exact (h.frames i tk h1 hne f hf).mono g
    · exact h2.1 hne f hf
  · intro i tk' hi e he
    rcases ht i tk' hi with ⟨tk, h1, _, h3⟩ | h2
    · exact h.errs i tk h1 e (h3 e he)
    · exact h2.2 e he

/-! ### primitives -/

/-- the two states have the same storage -/
structure SameData (s s' : St) : Prop where
  res     : s'.res = s.res
  resHid  : s'.resHid = s.resHid
  procHid : s'.procHid = s.procHid
  sw      : s'.sw = s.sw
  addl    : s'.additional = s.additional
  hides   : s'.hideCount = s.hideCount
  outcome : s'.outcome = s.outcome
  proc    : s'.proc = s.proc
  bad     : s'.badOrd = s.badOrd

theorem SData.of_same {P : Program} {s s' : St} (h : SData P val s) (e : SameData s s') : SData P val s' :=
  ⟨fun n => by rw [e.resHid]; exact h.resHid n, fun n => by rw [e.procHid]; exact h.procHid n,
   fun n => by rw [e.addl]; exact h.addl n, fun n => by rw [e.hides]; exact h.hides n,
   fun n v hv => by rw [e.res] at hv; exact h.vals n v hv, fun n v hv => by rw [e.res] at hv; exact h.agree n v hv,
   fun S l c hs => by rw [e.sw] at hs; exact h.swOK S l c hs, fun o ho => by rw [e.outcome] at ho; exact h.out o ho,
   by unfold Lz; rw [e.bad, e.proc]; exact h.lazy⟩

theorem Grows.of_same {s s' : St} (e : SameData s s') : Grows s s' := Grows.of_eq e.res e.sw e.bad

/-- nothing but the listed task entry changes -/
theorem old_task {s : St} {i : Nat} {tk : Task} (hi : s.tasks[i]? = some tk) :
    ∃ tk0, s.tasks[i]? = some tk0 ∧ tk.frames = tk0.frames ∧ ∀ e, tk.st = .done (.exc e) → tk0.st = .done (.exc e) :=
  ⟨tk, hi, rfl, fun _ h => h⟩

/-- only the task list changes, pointwise, frames untouched, no task newly failed (notifications, events, completions,
cancellations) -/
theorem SInvX.map_tasks {P : Program} {ex : Option Nat} {s s' : St} (h : SInvX P val ex s) (e : SameData s s')
    (F : Task → Task) (ht : s'.tasks = s.tasks.map F) (hF : ∀ tk, (F tk).frames = tk.frames)
    (hS : ∀ tk e, (F tk).st = .done (.exc e) → tk.st = .done (.exc e)) : SInvX P val ex s' := by
  refine h.transport (h.data.of_same e) (Grows.of_same e) ?_
  intro i tk' hi
  rw [ht, List.getElem?_map] at hi
  cases hs : s.tasks[i]? with
  | none => simp [hs] at hi
  | some tk =>
    simp only [hs, Option.map_some, Option.some.injEq] at hi
    subst hi
    exact Or.inl ⟨tk, rfl, hF tk, hS tk⟩

theorem wakeIf_frames' (p : Wait → Bool) (tk : Task) : (wakeIf p tk).frames = tk.frames := by
  unfold wakeIf; split <;> (try split) <;> rfl

theorem wakeIf_exc (p : Wait → Bool) (tk : Task) (e : Exc) (h : (wakeIf p tk).st = .done (.exc e)) :
    tk.st = .done (.exc e) := by
  unfold wakeIf at h
  split at h
  · split at h
    · cases h
    · exact h
  · exact h

theorem SInvX.notify {P : Program} {ex : Option Nat} {s : St} (h : SInvX P val ex s) (k : Key) :
    SInvX P val ex (notify s k) :=
  h.map_tasks ⟨rfl, rfl, rfl, rfl, rfl, rfl, rfl, rfl, rfl⟩ _ rfl (wakeIf_frames' _) (wakeIf_exc _)

theorem SInvX.notifyAll {P : Program} {ex : Option Nat} (ks : List Key) : ∀ {s : St}, SInvX P val ex s →
    SInvX P val ex (notifyAll s ks) := by
  induction ks with
  | nil => intro s h; exact h
  | cons k ks ih => intro s h; simp only [Eng.notifyAll, List.foldl_cons]; exact ih (h.notify k)

theorem SInvX.setEvent {P : Program} {ex : Option Nat} {s : St} (h : SInvX P val ex s) (n : Node) :
    SInvX P val ex (setEvent s n) :=
  h.map_tasks ⟨rfl, rfl, rfl, rfl, rfl, rfl, rfl, rfl, rfl⟩ _ rfl (wakeIf_frames' _) (wakeIf_exc _)

theorem SInvX.nodeFinally {P : Program} {ex : Option Nat} {s : St} (h : SInvX P val ex s) (d : DagRef) (n : Node)
    (u : Bool) : SInvX P val ex (nodeFinally P s d n u) := by
  unfold Eng.nodeFinally
  simp only []
  split
  · exact (h.setEvent n).notify _
  · split
    · exact ((((h.setEvent n).notifyAll _).notify _).notify _)
    · exact (((h.setEvent n).notifyAll _).notify _)

theorem SInvX.unwindFrames {P : Program} {ex : Option Nat} (fs : List Frame) : ∀ {s : St}, SInvX P val ex s →
    SInvX P val ex (unwindFrames P s fs) := by
  induction fs with
  | nil => intro s h; exact h
  | cons f fs ih =>
    intro s h
    cases f <;> simp only [Eng.unwindFrames] <;> try exact ih h
    split
    · exact ih h
    · exact ih (h.nodeFinally _ _ _)

/-- installing justified frames (and a justified end state) for the excepted task closes the invariant -/
theorem SInvX.close {P : Program} {t : Nat} {s : St} (h : SInvX P val (some t) s) (tk' : Task)
    (hf : ∀ f ∈ tk'.frames, FrameOK P val s f) (hst : ∀ e, tk'.st = .done (.exc e) → ErrCause P val e) :
    SInv P val (s.setTask t tk') := by
  refine ⟨(h.data.of_same ⟨rfl, rfl, rfl, rfl, rfl, rfl, rfl, rfl, rfl⟩), ?_, ?_⟩
  · intro i tk hi _ f hfm
    by_cases hit : i = t
    · subst hit
      simp only [St.setTask] at hi
      by_cases hlt : i < s.tasks.length
      · rw [List.getElem?_set_self hlt] at hi; cases hi
        exact (hf f hfm).mono (Grows.refl _)
      · rw [List.getElem?_eq_none (by simp; omega)] at hi; cases hi
    · simp only [St.setTask, List.getElem?_set_ne (Ne.symm hit)] at hi
      exact (h.frames i tk hi (by simp; exact hit) f hfm).mono (Grows.refl _)
  · intro i tk hi e he
    by_cases hit : i = t
    · subst hit
      simp only [St.setTask] at hi
      by_cases hlt : i < s.tasks.length
      · rw [List.getElem?_set_self hlt] at hi; cases hi
        exact hst e he
      · rw [List.getElem?_eq_none (by simp; omega)] at hi; cases hi
    · simp only [St.setTask, List.getElem?_set_ne (Ne.symm hit)] at hi
      exact h.errs i tk hi e he

/-- forgetting what is known about one task's frames -/
theorem SInvX.weaken {P : Program} {s : St} (h : SInv P val s) (t : Nat) : SInvX P val (some t) s :=
  ⟨h.data, fun i tk hi _ f hf => h.frames i tk hi (by simp) f hf, h.errs⟩

/-- when the excepted task does not exist, nothing is excepted -/
theorem SInvX.of_missing {P : Program} {t : Nat} {s : St} (h : SInvX P val (some t) s) (hm : s.tasks[t]? = none) :
    SInv P val s :=
  ⟨h.data, fun i tk hi _ f hf => h.frames i tk hi (by
    intro e; simp only [Option.some.injEq] at e; subst e; rw [hm] at hi; cases hi) f hf, h.errs⟩

/-! ### observations -/

/-- what an observation of a run of a switch-only program must satisfy -/
def ObsOK (P : Program) (val : Node → Option Val) : Obs → Prop
  | .body n inv k kw => Att P val n k kw inv
  | .dflt n kw => kw = kwFrom P val n ∧ (P.g.preds n).all (fun p => (val p).isSome) = true ∧
      finalOf P n (kwFrom P val n) = some .default
  | .save n v => val n = some v ∧ v.isRecur = false ∧ v.isExc = false
  | .ncomplete n none => (val n).isSome = true
  | .ncomplete n (some e) => (∃ k, P.body n (kwFrom P val n) 0 k = .raise e) ∨ CollabFails P e
  | .pcomplete o => OutcomeOKSw P val o
  | .returned o => OutcomeOKSw P val o
  | _ => True

def ObsAll (P : Program) (val : Node → Option Val) (obs : List Obs) : Prop := ∀ o ∈ obs, ObsOK P val o

theorem ObsAll.nil {P : Program} : ObsAll P val [] := by intro o ho; cases ho

theorem ObsAll.snoc {P : Program} {obs : List Obs} {o : Obs} (h : ObsAll P val obs) (ho : ObsOK P val o) :
    ObsAll P val (obs ++ [o]) := by
  intro o' ho'
  rcases List.mem_append.mp ho' with h1 | h1
  · exact h o' h1
  · simp only [List.mem_singleton] at h1; subst h1; exact ho

theorem ObsAll.append {P : Program} {a b : List Obs} (h1 : ObsAll P val a) (h2 : ObsAll P val b) :
    ObsAll P val (a ++ b) := by
  intro o ho
  rcases List.mem_append.mp ho with h | h
  · exact h1 o h
  · exact h2 o h

theorem ObsAll.ite {P : Program} {a b : List Obs} {c : Prop} [Decidable c] (h1 : ObsAll P val a) (h2 : ObsAll P val b) :
    ObsAll P val (if c then a else b) := by
  split
  · exact h1
  · exact h2

/-- the result of a handler: the invariant holds again and everything observed is justified -/
def Good (P : Program) (val : Node → Option Val) (out : Out) : Prop := SInv P val out.1 ∧ ObsAll P val out.2

theorem good_endTask {P : Program} {s : St} (c : Ctx) (h : SInvX P val (some c.t) s) {obs : List Obs}
    (ho : ObsAll P val obs) (r : TaskRes) (hr : ∀ e, r = .exc e → ErrCause P val e) :
    Good P val (endTask c s obs r) := by
  unfold Eng.endTask
  split
  · next hm => exact ⟨h.of_missing hm, ho⟩
  · refine ⟨h.close _ (by intro f hf; simp at hf) ?_, ho.snoc trivial⟩
    intro e he
    simp only [TaskSt.done.injEq] at he
    exact hr e he

theorem good_block {P : Program} {s : St} (c : Ctx) (h : SInvX P val (some c.t) s) {obs : List Obs}
    (ho : ObsAll P val obs) (fs : List Frame) (w : Wait) (hf : ∀ f ∈ fs, FrameOK P val s f) :
    Good P val (block c s obs fs w) := by
  unfold Eng.block
  split
  · next hm => exact ⟨h.of_missing hm, ho⟩
  · exact ⟨h.close _ hf (by intro e he; cases he), ho⟩

theorem good_yieldNow {P : Program} {s : St} (c : Ctx) (h : SInvX P val (some c.t) s) {obs : List Obs}
    (ho : ObsAll P val obs) (fs : List Frame) (hf : ∀ f ∈ fs, FrameOK P val s f) :
    Good P val (yieldNow c s obs fs) := by
  unfold Eng.yieldNow
  split
  · next hm => exact ⟨h.of_missing hm, ho⟩
  · exact ⟨h.close _ hf (by intro e he; cases he), ho⟩

theorem good_retTo {P : Program} {s : St} (c : Ctx) (h : SInvX P val (some c.t) s) {obs : List Obs}
    (ho : ObsAll P val obs) (below : List Frame) (v : Val) (hf : ∀ f ∈ below, FrameOK P val s f) :
    Good P val (retTo c s obs below v) := by
  unfold Eng.retTo
  split
  · exact good_endTask c h ho .ok (by intro e he; cases he)
  · split
    · next hm => exact ⟨h.of_missing hm, ho⟩
    · exact ⟨h.close _ hf (by intro e he; cases he), ho⟩

theorem good_raiseOut {P : Program} {s : St} (c : Ctx) (hcP : c.P = P) (h : SInvX P val (some c.t) s)
    {obs : List Obs} (ho : ObsAll P val obs) (below : List Frame) (r : TaskRes)
    (hr : ∀ e, r = .exc e → ErrCause P val e) : Good P val (raiseOut c s obs below r) := by
  unfold Eng.raiseOut
  rw [hcP]
  exact good_endTask c (h.unwindFrames below) ho r hr

/-- storing a result that agrees with the solution -/
theorem SInvX.setRes {P : Program} {ex : Option Nat} {s : St} (h : SInvX P val ex s) (n : Node) (v : Val)
    (hv : val n = some v) (hok : v.isRecur = false ∧ v.isExc = false) (hns : P.g.isSwitch n = false)
    (hold : ∀ w, s.res n = some w → w = v) : SInvX P val ex (s.setRes n v) := by
  have g : Grows s (s.setRes n v) := by
    refine ⟨?_, fun _ _ h => h, id⟩
    intro m w hm
    simp only [St.setRes, upd]
    split
    · next he => subst he; rw [hold w hm]
    · exact hm
  refine h.transport ?_ g (fun i tk hi => Or.inl (old_task hi))
  refine ⟨?_, h.data.procHid, h.data.addl, h.data.hides, ?_, ?_, h.data.swOK, h.data.out, h.data.lazy⟩
  · intro m; simp only [St.setRes, upd]; split
    · rfl
    · exact h.data.resHid m
  · intro m w hm
    simp only [St.setRes, upd] at hm
    split at hm
    · cases hm; exact hok
    · exact h.data.vals m w hm
  · intro m w hm
    simp only [St.setRes, upd] at hm
    split at hm
    · next he => cases hm; subst he; exact ⟨hv, hns⟩
    · exact h.data.agree m w hm

/-- recording the semantic decision of a switch -/
theorem SInvX.setSw {P : Program} {ex : Option Nat} {s : St} (h : SInvX P val ex s) (S : Node) (l : Label) (c : Node)
    (hc : SwChoice P val S l c) (hold : ∀ lc, s.sw S = some lc → lc = (l, c)) : SInvX P val ex (s.setSw S (l, c)) := by
  have g : Grows s (s.setSw S (l, c)) := by
    refine ⟨fun _ _ h => h, ?_, id⟩
    intro T lc hT
    simp only [St.setSw, upd]
    split
    · next he => subst he; rw [hold lc hT]
    · exact hT
  refine h.transport ?_ g (fun i tk hi => Or.inl (old_task hi))
  refine ⟨h.data.resHid, h.data.procHid, h.data.addl, h.data.hides, h.data.vals, h.data.agree, ?_, h.data.out, h.data.lazy⟩
  intro T l' c' hT
  simp only [St.setSw, upd] at hT
  split at hT
  · next he => cases hT; subst he; exact hc
  · exact h.data.swOK T l' c' hT

theorem SInvX.markProcessed {P : Program} {ex : Option Nat} {s : St} (h : SInvX P val ex s) (n : Node)
    (hdm : Lz s (Demanded P val n)) : SInvX P val ex (s.markProcessed n) := by
  refine h.transport ?_ (Grows.of_eq rfl rfl rfl) (fun i tk hi => Or.inl (old_task hi))
  refine ⟨h.data.resHid, ?_, h.data.addl, h.data.hides, h.data.vals, h.data.agree, h.data.swOK, h.data.out, ?_⟩
  · intro m; simp only [St.markProcessed, upd]; split
    · rfl
    · exact h.data.procHid m
  · rcases h.data.lazy with hb | hl
    · exact Or.inl hb
    · rcases hdm with hb | hd
      · exact Or.inl hb
      · refine Or.inr ?_
        intro m hm
        simp only [St.markProcessed, upd] at hm
        split at hm
        · next he => rw [he]; exact hd
        · exact hl m hm

/-- a new task with justified frames -/
theorem SInvX.spawn {P : Program} {ex : Option Nat} {s : St} (h : SInvX P val ex s) (fs : List Frame) (nm : TaskName)
    (hf : ∀ f ∈ fs, FrameOK P val s f) : SInvX P val ex (spawn s fs nm).1 := by
  refine h.transport (h.data.of_same ⟨rfl, rfl, rfl, rfl, rfl, rfl, rfl, rfl, rfl⟩) (Grows.of_eq rfl rfl rfl) ?_
  intro i tk hi
  simp only [Eng.spawn] at hi
  by_cases hlt : i < s.tasks.length
  · rw [List.getElem?_append_left hlt] at hi; exact Or.inl (old_task hi)
  · rw [List.getElem?_append_right (by omega)] at hi
    by_cases h0 : i - s.tasks.length = 0
    · rw [h0] at hi; simp at hi; subst hi; exact Or.inr ⟨fun _ => hf, by intro e he; cases he⟩
    · rw [List.getElem?_eq_none (by simp; omega)] at hi; cases hi

theorem SInvX.cancelTask {P : Program} {ex : Option Nat} {s : St} (h : SInvX P val ex s) (a : Nat) :
    SInvX P val ex (cancelTask s a) := by
  unfold Eng.cancelTask
  split
  · exact h
  · next tk0 ha =>
    have key : ∀ tk1 : Task, tk1.frames = tk0.frames → (∀ e, tk1.st = .done (.exc e) → tk0.st = .done (.exc e)) →
        SInvX P val ex (s.setTask a tk1) := by
      intro tk1 h1 h2
      refine h.transport (h.data.of_same ⟨rfl, rfl, rfl, rfl, rfl, rfl, rfl, rfl, rfl⟩) (Grows.of_eq rfl rfl rfl) ?_
      intro i tk' hi
      by_cases hia : i = a
      · subst hia
        simp only [St.setTask] at hi
        rw [List.getElem?_set_self (getElem?_lt ha)] at hi
        cases hi
        exact Or.inl ⟨tk0, ha, h1, h2⟩
      · simp only [St.setTask, List.getElem?_set_ne (Ne.symm hia)] at hi
        exact Or.inl (old_task hi)
    split
    · exact h
    · exact key _ rfl (by intro e he; cases he)
    · next rv hrv => exact key _ rfl (by intro e he; simp only [hrv] at he; cases he)

theorem SInvX.cancelTasks {P : Program} {ex : Option Nat} (ts : List Nat) : ∀ {s : St}, SInvX P val ex s →
    SInvX P val ex (cancelTasks s ts) := by
  induction ts with
  | nil => intro s h; exact h
  | cons a ts ih =>
    intro s h
    simp only [Eng.cancelTasks, List.foldl]
    have := ih (h.cancelTask a)
    simpa [Eng.cancelTasks] using this

theorem SInvX.setOutcome {P : Program} {ex : Option Nat} {s : St} (h : SInvX P val ex s) (o : Outcome)
    (ho : OutcomeOKSw P val o) : SInvX P val ex (s.setOutcome o) := by
  refine h.transport ?_ (Grows.of_eq rfl rfl rfl) (fun i tk hi => Or.inl (old_task hi))
  refine ⟨h.data.resHid, h.data.procHid, h.data.addl, h.data.hides, h.data.vals, h.data.agree, h.data.swOK, ?_,
    h.data.lazy⟩
  intro o' ho'
  simp only [St.setOutcome, Option.some.injEq] at ho'
  subst ho'
  exact ho

/-! ### the node coroutine -/

theorem badOrd_notifyAll (ks : List Key) : ∀ (s : St), (notifyAll s ks).badOrd = s.badOrd := by
  induction ks with
  | nil => intro s; rfl
  | cons k ks ih => intro s; simp only [Eng.notifyAll, List.foldl_cons]; exact ih (notify s k)

theorem badOrd_nodeFinally (P : Program) (s : St) (d : DagRef) (n : Node) (u : Bool) :
    (nodeFinally P s d n u).badOrd = s.badOrd := by
  unfold Eng.nodeFinally
  simp only []
  split
  · rfl
  · split
    · show (notifyAll (setEvent s n) _).badOrd = s.badOrd
      rw [badOrd_notifyAll]; rfl
    · show (notifyAll (setEvent s n) _).badOrd = s.badOrd
      rw [badOrd_notifyAll]; rfl

theorem grows_nodeFinally (P : Program) (s : St) (d : DagRef) (n : Node) (u : Bool) : Grows s (nodeFinally P s d n u) := by
  obtain ⟨h1, _, _, _, _, h6, _, _⟩ := nodeFinally_fields P s d n u
  exact Grows.of_eq h1 h6 (badOrd_nodeFinally P s d n u)

theorem grows_unwindFrames (P : Program) : ∀ (fs : List Frame) (s : St), Grows s (unwindFrames P s fs) := by
  intro fs
  induction fs with
  | nil => intro s; exact Grows.refl s
  | cons f fs ih =>
    intro s
    cases f <;> simp only [Eng.unwindFrames] <;> try exact ih s
    split
    · exact ih s
    · exact (grows_nodeFinally P s _ _ true).trans (ih _)

theorem grows_notifyAll (ks : List Key) : ∀ (s : St), Grows s (notifyAll s ks) := by
  induction ks with
  | nil => intro s; exact Grows.refl s
  | cons k ks ih =>
    intro s
    simp only [Eng.notifyAll, List.foldl_cons]
    exact (Grows.of_eq (s := s) (s' := notify s k) rfl rfl rfl).trans (ih _)

/-- facts shared by the handlers of one section of task `c.t` -/
structure StepCtx (P : Program) (val : Node → Option Val) (c : Ctx) (s : St) (below : List Frame) : Prop where
  cP  : c.P = P
  sw  : SwP P
  sol : SolutionSw P val
  inv : SInvX P val (some c.t) s
  bel : ∀ f ∈ below, FrameOK P val s f

theorem StepCtx.to {P : Program} {c : Ctx} {s s' : St} {below : List Frame} (x : StepCtx P val c s below)
    (h : SInvX P val (some c.t) s') (g : Grows s s') : StepCtx P val c s' below :=
  ⟨x.cP, x.sw, x.sol, h, fun f hf => (x.bel f hf).mono g⟩

theorem errCause_collab {P : Program} {e : Exc} (h : CollabFails P e) : ErrCause P val e := Or.inr (Or.inl h)

theorem safe_nodeFinish {P : Program} {c : Ctx} {s : St} {below : List Frame} (x : StepCtx P val c s below)
    (obs : List Obs) (ho : ObsAll P val obs) (d : DagRef) (n : Node) : Good P val (nodeFinish c s obs d n below) := by
  unfold nodeFinish
  rw [x.cP]
  exact good_retTo c (x.inv.nodeFinally d n true) ho below .none
    (fun f hf => (x.bel f hf).mono (grows_nodeFinally P s d n true))

theorem safe_nodeCbRaise {P : Program} {c : Ctx} {s : St} {below : List Frame} (x : StepCtx P val c s below)
    (obs : List Obs) (ho : ObsAll P val obs) (d : DagRef) (n : Node) (e : Exc) (he : ErrCause P val e) :
    Good P val (nodeCbRaise c s obs d n below e) := by
  unfold nodeCbRaise
  rw [x.cP]
  exact good_raiseOut c x.cP (x.inv.nodeFinally d n true) ho below _ (by intro e' h'; cases h'; exact he)

theorem safe_nodeCbRaiseInTry {P : Program} {c : Ctx} {s : St} {below : List Frame} (x : StepCtx P val c s below)
    (obs : List Obs) (ho : ObsAll P val obs) (d : DagRef) (n : Node) (e : Exc) (he : CollabFails P e) :
    Good P val (nodeCbRaiseInTry c s obs d n below e) := by
  unfold nodeCbRaiseInTry
  refine safe_nodeCbRaise x _ ?_ d n e (errCause_collab he)
  split
  · exact ho.snoc (Or.inr he)
  · exact ho

/-- a collaborator call: raise, return at once, or suspend in a justified callback frame -/
theorem safe_cbCall {P : Program} {c : Ctx} {s : St} {below : List Frame} (x : StepCtx P val c s below)
    (cb : Cb) (n : Node) (obs : List Obs) (ho : ObsAll P val obs) (frames : Nat → List Frame)
    (kOk : St → List Obs → Out) (kErr : Exc → St → List Obs → Out)
    (hOk : Good P val (kOk s obs)) (hErr : ∀ e, CollabFails P e → Good P val (kErr e s obs))
    (hfr : ∀ j, ∀ f ∈ frames j, FrameOK P val s f) :
    Good P val (cbCall c cb n s obs frames kOk kErr) := by
  unfold cbCall
  split
  · next e he => exact hErr e ⟨cb, n, by rw [← x.cP]; exact he⟩
  · unfold cbThen
    split
    · exact hOk
    · exact good_yieldNow c x.inv ho _ (hfr _)

theorem safe_cbThen {P : Program} {c : Ctx} {s : St} {below : List Frame} (x : StepCtx P val c s below)
    (obs : List Obs) (ho : ObsAll P val obs) (frames : Nat → List Frame) (m : Nat) (k : St → List Obs → Out)
    (hOk : Good P val (k s obs)) (hfr : ∀ j, ∀ f ∈ frames j, FrameOK P val s f) :
    Good P val (cbThen c s obs frames m k) := by
  unfold cbThen
  split
  · exact hOk
  · exact good_yieldNow c x.inv ho _ (hfr _)

/-- the frame list `node-frame :: below` is justified -/
theorem frames_cons {P : Program} {s : St} {below : List Frame} (hb : ∀ f ∈ below, FrameOK P val s f) (f0 : Frame)
    (h0 : FrameOK P val s f0) : ∀ f ∈ f0 :: below, FrameOK P val s f := by
  intro f hf
  rcases List.mem_cons.mp hf with rfl | h
  · exact h0
  · exact hb f h

/-- `_run_node` after `_execute_node` returned `v` in the task that executed the node -/
theorem safe_nodePost_exec {P : Program} {c : Ctx} {s : St} {below : List Frame} (x : StepCtx P val c s below)
    (obs : List Obs) (ho : ObsAll P val obs) (d : DagRef) (n : Node) (v : Val) (hd : d.isOneof = false ∧ d.isRec = false)
    (hns : P.g.isSwitch n = false) (hdm : Lz s (Demanded P val n)) (hv : val n = some v) (hok : v.isRecur = false ∧ v.isExc = false) :
    Good P val (nodePost c s obs d n below v true) := by
  have hold : ∀ w, s.res n = some w → w = v := by
    intro w hw
    have := (x.inv.data.agree n w hw).1
    rw [hv] at this; exact (Option.some.inj this).symm
  have g : Grows s (s.setRes n v) := by
    refine ⟨?_, fun _ _ h => h, id⟩
    intro m w hm
    simp only [St.setRes, upd]
    split
    · next he => subst he; rw [hold w hm]
    · exact hm
  have x1 : StepCtx P val c (s.setRes n v) below := x.to (x.inv.setRes n v hv hok hns hold) g
  simp only [nodePost, recSpawn, hok.1, hok.2, Bool.false_eq_true, if_false, storeIf, if_true,
    Bool.not_false, Bool.true_and, Bool.and_true]
  have ho1 : ObsAll P val (obs ++ [.save n v]) := ho.snoc ⟨hv, hok.1, hok.2⟩
  refine safe_cbCall x1 .save n _ ho1 _ _ _ (safe_nodeFinish x1 _ ho1 d n)
    (fun e he => safe_nodeCbRaise x1 _ ho1 d n e (errCause_collab he)) ?_
  intro j
  exact frames_cons x1.bel _ ⟨hd.1, hd.2, rfl, hns, hdm.mono g, trivial⟩

/-- `_run_node` in a task that only waited for the node: nothing is stored, nothing is saved -/
theorem safe_nodePost_wait {P : Program} {c : Ctx} {s : St} {below : List Frame} (x : StepCtx P val c s below)
    (obs : List Obs) (ho : ObsAll P val obs) (d : DagRef) (n : Node) :
    Good P val (nodePost c s obs d n below (s.get n) false) := by
  have hnr : (s.get n).isRecur = false := by
    simp only [St.get, x.inv.data.resHid, Bool.false_eq_true, if_false]
    cases hr : s.res n with
    | none => rfl
    | some w => exact (x.inv.data.vals n w hr).1
  simp only [nodePost, recSpawn, hnr, Bool.false_eq_true, if_false, storeIf, Bool.false_and, Bool.not_false]
  rw [x.cP]
  exact good_retTo c (x.inv.nodeFinally d n true) ho below .none
    (fun f hf => (x.bel f hf).mono (grows_nodeFinally P s d n true))

theorem safe_nodeSuccess {P : Program} {c : Ctx} {s : St} {below : List Frame} (x : StepCtx P val c s below)
    (obs : List Obs) (ho : ObsAll P val obs) (d : DagRef) (n : Node) (v : Val) (hd : d.isOneof = false ∧ d.isRec = false)
    (hns : P.g.isSwitch n = false) (hdm : Lz s (Demanded P val n)) (hv : val n = some v) (hok : v.isRecur = false ∧ v.isExc = false) :
    Good P val (nodeSuccess c s obs d n below v) := by
  unfold nodeSuccess
  have ho1 : ObsAll P val (obs ++ [.ncomplete n none]) := ho.snoc (by show (val n).isSome = true; rw [hv]; rfl)
  refine safe_cbCall x .ncomplete n _ ho1 _ _ _ (safe_nodePost_exec x _ ho1 d n v hd hns hdm hv hok)
    (fun e he => safe_nodeCbRaiseInTry x _ ho1 d n e he) ?_
  intro j
  exact frames_cons x.bel _ ⟨hd.1, hd.2, rfl, hns, hdm, hv, hok⟩

theorem safe_nodeFailCont {P : Program} {c : Ctx} {s : St} {below : List Frame} (x : StepCtx P val c s below)
    (obs : List Obs) (ho : ObsAll P val obs) (d : DagRef) (n : Node) (e : Exc) (hd : d.isOneof = false ∧ d.isRec = false)
    (he : ErrCause P val e) : Good P val (nodeFailCont c s obs d n below e) := by
  simp only [nodeFailCont, hd.1, Bool.false_eq_true, if_false]
  rw [x.cP]
  exact good_raiseOut c x.cP (x.inv.nodeFinally d n true) ho below _ (by intro e' h'; cases h'; exact he)

theorem safe_nodeFail {P : Program} {c : Ctx} {s : St} {below : List Frame} (x : StepCtx P val c s below)
    (obs : List Obs) (ho : ObsAll P val obs) (d : DagRef) (n : Node) (e : Exc) (hd : d.isOneof = false ∧ d.isRec = false)
    (hns : P.g.isSwitch n = false) (hdm : Lz s (Demanded P val n)) (hb : ∃ k, P.body n (kwFrom P val n) 0 k = .raise e) (he : ErrCause P val e) :
    Good P val (nodeFail c s obs d n below e) := by
  unfold nodeFail
  have ho1 : ObsAll P val (obs ++ [.ncomplete n (some e)]) := ho.snoc (Or.inl hb)
  refine safe_cbCall x .ncomplete n _ ho1 _ _ _ (safe_nodeFailCont x _ ho1 d n e hd he)
    (fun e' he' => safe_nodeCbRaise x _ ho1 d n e' (errCause_collab he')) ?_
  intro j
  exact frames_cons x.bel _ ⟨hd.1, hd.2, rfl, hns, hdm, he⟩

theorem safe_nodeSleep {P : Program} {c : Ctx} {s : St} {below : List Frame} (x : StepCtx P val c s below)
    (obs : List Obs) (ho : ObsAll P val obs) (d : DagRef) (n : Node) (k : Nat) (kw : Kwargs) (inv : Nat)
    (hd : d.isOneof = false ∧ d.isRec = false) (hns : P.g.isSwitch n = false) (hdm : Lz s (Demanded P val n)) (ha : Att P val n (k + 1) kw inv) :
    Good P val (nodeSleep c s obs d n false below k kw inv) := by
  unfold nodeSleep
  simp only []
  split
  · exact good_block c x.inv (ho.snoc (o := .sleep _) trivial) _ _ (frames_cons x.bel _ ⟨hd.1, hd.2, rfl, hns, hdm, ha⟩)
  · exact good_yieldNow c x.inv ho _ (frames_cons x.bel _ ⟨hd.1, hd.2, rfl, hns, hdm, ha⟩)

/-- the value the policy ends with is the solution's -/
theorem SolutionSw.value_of_final {P : Program} (hs : SolutionSw P val) {n : Node} (hns : P.g.isSwitch n = false)
    (hpr : (P.g.preds n).all (fun p => (val p).isSome) = true) {v : Val}
    (hf : finalOf P n (kwFrom P val n) = some (.value v) ∨
          (finalOf P n (kwFrom P val n) = some .default ∧ v = P.dflt n (kwFrom P val n))) : val n = some v := by
  rw [hs.plain n hns, hpr]
  simp only [if_true, valueOf]
  rcases hf with h | ⟨h, rfl⟩ <;> rw [h]

theorem safe_nodeAfterBody {P : Program} {c : Ctx} {s : St} {below : List Frame} (x : StepCtx P val c s below)
    (obs : List Obs) (ho : ObsAll P val obs) (d : DagRef) (n : Node) (k : Nat) (kw : Kwargs) (inv : Nat)
    (hd : d.isOneof = false ∧ d.isRec = false) (hns : P.g.isSwitch n = false) (hdm : Lz s (Demanded P val n)) (ha : Att P val n k kw inv) :
    Good P val (nodeAfterBody c s obs d n false below k kw inv (P.body n kw inv k)) := by
  have hdf : Retry.decide (P.cfg n) k (P.body n kw inv k) = .done .default →
      Good P val (nodeDefault c s obs d n below kw) := by
    intro hdd
    simp only [nodeDefault]
    rw [x.cP]
    have hfin := ha.final _ hdd
    refine safe_nodeSuccess x _ (ho.snoc (o := .dflt n kw) ⟨ha.kw_eq, ha.preds, hfin⟩) d n _ hd hns hdm ?_ (x.sw.noRecurD _ _)
    exact x.sol.value_of_final hns ha.preds (Or.inr ⟨hfin, by rw [ha.kw_eq]⟩)
  have hfail : ∀ e, P.body n kw inv k = .raise e → Retry.decide (P.cfg n) k (P.body n kw inv k) = .done (.failed e) →
      Good P val (nodeFail c s obs d n below e) := by
    intro e ho' hdd
    refine safe_nodeFail x _ ho d n e hd hns hdm ⟨k, ?_⟩ (Or.inl ⟨n, hns, ha.preds, ha.final _ hdd⟩)
    rw [← ha.kw_eq, ← ha.inv0]; exact ho'
  unfold nodeAfterBody
  cases hbo : P.body n kw inv k with
  | ret v =>
    refine safe_nodeSuccess x obs ho d n v hd hns hdm ?_ (x.sw.noRecur _ _ _ _ _ hbo)
    exact x.sol.value_of_final hns ha.preds (Or.inl (ha.final _ (by rw [hbo]; rfl)))
  | raise e =>
    rw [hbo] at hdf hfail
    simp only []
    split
    · next hrt =>
      rw [x.cP] at hrt
      split
      · next hk =>
        rw [x.cP] at hk
        split
        · next hud => rw [x.cP] at hud; exact hdf (by simp [Retry.decide, hrt, hk, hud])
        · next hud => rw [x.cP] at hud; exact hfail e rfl (by simp [Retry.decide, hrt, hk, hud])
      · next hk =>
        rw [x.cP] at hk
        have hnext : Att P val n (k + 1) kw inv := ha.next (by rw [hbo]; simp [Retry.decide, hrt, hk])
        have ho1 : ObsAll P val (obs ++ [.ncomplete n (some e)]) :=
          ho.snoc (Or.inl ⟨k, by rw [← ha.kw_eq, ← ha.inv0]; exact hbo⟩)
        refine safe_cbCall x .ncomplete n _ ho1 _ _ _ (safe_nodeSleep x _ ho1 d n k kw inv hd hns hdm hnext)
          (fun e' he' => safe_nodeCbRaiseInTry x _ ho1 d n e' he') ?_
        intro j
        exact frames_cons x.bel _ ⟨hd.1, hd.2, rfl, hns, hdm, hnext⟩
    · next hrt =>
      rw [x.cP] at hrt
      split
      · next hex =>
        split
        · next hud => rw [x.cP] at hud; exact hdf (by simp [Retry.decide, hrt, hex, hud])
        · next hud => rw [x.cP] at hud; exact hfail e rfl (by simp [Retry.decide, hrt, hex, hud])
      · next hex =>
        rw [x.cP]
        refine good_raiseOut c x.cP (x.inv.nodeFinally d n true) ho below _ ?_
        intro e' h'
        cases h'
        exact Or.inl ⟨n, hns, ha.preds, ha.final _ (by rw [hbo]; simp [Retry.decide, hrt, hex])⟩

theorem safe_nodeAttempt {P : Program} {c : Ctx} {s : St} {below : List Frame} (x : StepCtx P val c s below)
    (obs : List Obs) (ho : ObsAll P val obs) (d : DagRef) (n : Node) (k : Nat) (kw : Kwargs) (inv : Nat)
    (hd : d.isOneof = false ∧ d.isRec = false) (hns : P.g.isSwitch n = false) (hdm : Lz s (Demanded P val n)) (ha : Att P val n k kw inv) :
    Good P val (nodeAttempt c s obs d n false below k kw inv) := by
  simp only [nodeAttempt, Bool.false_eq_true, if_false, x.cP]
  have ho1 : ObsAll P val (obs ++ [.body n inv k kw]) := ho.snoc ha
  split
  · exact safe_nodeAfterBody x _ ho1 d n k kw inv hd hns hdm ha
  all_goals exact good_block c x.inv (ho1.snoc (o := .gate _ _ _) trivial) _ _ (frames_cons x.bel _ ⟨hd.1, hd.2, rfl, hns, hdm, ha⟩)

/-! ### arguments -/

/-- an available source has a semantic value, and the engine reads exactly that value for it -/
theorem src_value {P : Program} (hsol : SolutionSw P val) {s : St} (hd : SData P val s) {u : Node}
    (h : SrcReady P s u) :
    ∃ v, val u = some v ∧ v.isExc = false ∧
      (if P.g.isSwitch u then (match s.sw u with | some (_, c) => s.getHid c = v | none => False) else s.getHid u = v) := by
  unfold SrcReady at h
  split at h
  · next hsw =>
    obtain ⟨l, c, h1, h2⟩ := h
    cases hr : s.res c with
    | none => rw [hr] at h2; simp at h2
    | some v =>
      have ha := (hd.agree c v hr).1
      have hc := hd.swOK u l c h1
      refine ⟨v, ?_, (hd.vals c v hr).2, ?_⟩
      · rw [hsol.sw u hsw, hc.sel]; exact ha
      · simp only [hsw, if_true, h1, St.getHid, hr, Option.getD_some]
  · next hsw =>
    cases hr : s.res u with
    | none => rw [hr] at h; simp at h
    | some v =>
      refine ⟨v, (hd.agree u v hr).1, (hd.vals u v hr).2, ?_⟩
      simp only [hsw, Bool.false_eq_true, if_false, St.getHid, hr, Option.getD_some]

theorem kwStep_ready {P : Program} (hsol : SolutionSw P val) {s : St} (hd : SData P val s) (kw : Kwargs) (e : Edge)
    (h : SrcReady P s e.u) :
    kwStep P s (.ok kw) e = .ok (match e.kwarg with
      | some k => insertKw kw k ((val e.u).getD .none)
      | none => kw) := by
  obtain ⟨v, hv, hne, hrd⟩ := src_value hsol hd h
  unfold kwStep
  cases hk : e.kwarg with
  | none => rfl
  | some k =>
    simp only [hv, Option.getD_some]
    have hput : kwPut kw k v = .ok (insertKw kw k v) := by
      cases v <;> simp [Val.isExc] at hne <;> rfl
    split
    · next hsw =>
      simp only [hsw, if_true] at hrd
      split
      · next l c hsc => simp only [hsc] at hrd; rw [hrd]; exact hput
      · next hsc => simp [hsc] at hrd
    · next hsw =>
      simp only [hsw, Bool.false_eq_true, if_false] at hrd
      rw [hrd]; exact hput

/-- with all inputs available, the engine's keyword arguments are the declared ones and every source has a value -/
theorem nodeKwargs_ready {P : Program} (hsol : SolutionSw P val) {s : St} (hd : SData P val s) (n : Node)
    (hin : InputsReady P s n) :
    nodeKwargs P s n = .ok (kwFrom P val n) ∧ (P.g.preds n).all (fun p => (val p).isSome) = true := by
  have hfold : ∀ (es : List Edge) (kw0 : Kwargs), (∀ e ∈ es, SrcReady P s e.u) →
      es.foldl (kwStep P s) (KwRes.ok kw0) = .ok (es.foldl (fun kw e => match e.kwarg with
        | some k => insertKw kw k ((val e.u).getD .none)
        | none => kw) kw0) := by
    intro es
    induction es with
    | nil => intro kw0 _; rfl
    | cons e es ih =>
      intro kw0 hm
      simp only [List.foldl_cons]
      rw [kwStep_ready hsol hd kw0 e (hm e (by simp))]
      exact ih _ (fun e' he' => hm e' (by simp [he']))
  have hedges : ∀ e ∈ P.g.edges.filter (fun e => e.v == n), SrcReady P s e.u := by
    intro e he
    simp only [List.mem_filter, beq_iff_eq] at he
    exact hin e he.1 he.2
  constructor
  · have hb : kwBase P s n = .ok (kwFrom P val n) := by
      unfold kwBase kwFrom
      split
      · rfl
      · exact hfold _ [] hedges
    simp [nodeKwargs, hb, hd.addl]
  · rw [List.all_eq_true]
    intro p hp
    simp only [Graph.preds, List.mem_map] at hp
    obtain ⟨e, he, rfl⟩ := hp
    obtain ⟨v, hv, _, _⟩ := src_value hsol hd (hedges e he)
    simp [hv]

theorem safe_nodeBegin {P : Program} {c : Ctx} {s : St} {below : List Frame} (x : StepCtx P val c s below)
    (obs : List Obs) (ho : ObsAll P val obs) (d : DagRef) (n : Node) (inv : Nat) (hd : d.isOneof = false ∧ d.isRec = false)
    (hns : P.g.isSwitch n = false) (hdm : Lz s (Demanded P val n)) (hin : InputsReady P s n) (hinv : inv = 0) :
    Good P val (nodeBegin c s obs d n false below inv) := by
  obtain ⟨hkw, hpr⟩ := nodeKwargs_ready x.sol x.inv.data n hin
  simp only [nodeBegin, x.cP, hkw]
  exact safe_nodeAttempt x _ ho d n 1 _ inv hd hns hdm
    ⟨rfl, hpr, hinv, Nat.le_refl 1, Retry.attemptsEff_pos _, fun j h1 h2 => by omega⟩

theorem safe_nodeStart {P : Program} {c : Ctx} {s : St} {below : List Frame} (x : StepCtx P val c s below)
    (obs : List Obs) (ho : ObsAll P val obs) (d : DagRef) (n : Node) (hd : d.isOneof = false ∧ d.isRec = false)
    (hns : P.g.isSwitch n = false) (hdm : Lz s (Demanded P val n)) (hin : InputsReady P s n) (hci : CoreInv s.core) :
    Good P val (nodeStart c s obs d n false below) := by
  unfold nodeStart
  split
  · split
    · exact safe_nodePost_wait x _ ho d n
    · exact good_block c x.inv ho _ _ (frames_cons x.bel _ ⟨hd.1, hd.2, rfl, hns, hdm, trivial⟩)
  · next hpe =>
    have hinv0 : s.invCount n = 0 := by
      have := (hci n).2
      have hpe' : (s.proc n && !s.procHid n) = false := by simpa [St.procExists] using hpe
      simp only [St.core, hpe', Bool.false_eq_true, false_or, x.inv.data.hides] at this
      omega
    have x1 : StepCtx P val c (s.markProcessed n) below := x.to (x.inv.markProcessed n hdm) (Grows.of_eq rfl rfl rfl)
    have hin1 : InputsReady P (s.markProcessed n) n := hin.mono (Grows.of_eq rfl rfl rfl)
    have hdm1 : Lz (s.markProcessed n) (Demanded P val n) := hdm.mono (Grows.of_eq rfl rfl rfl)
    have ho1 : ObsAll P val (obs ++ [.nstart n]) := ho.snoc trivial
    refine safe_cbCall x1 .nstart n _ ho1 _ _ _ (safe_nodeBegin x1 _ ho1 d n _ hd hns hdm1 hin1 hinv0)
      (fun e he => safe_nodeCbRaise x1 _ ho1 d n e (errCause_collab he)) ?_
    intro j
    exact frames_cons x1.bel _ ⟨hd.1, hd.2, rfl, hns, hdm1, hin1, hinv0⟩

/-! ### `_run_dag` and `_run_switch` -/

theorem ready_inputs {P : Program} (hsw : SwP P) {s : St} (hd : SData P val s) (d : DagRef)
    (hdf : d.isOneof = false ∧ d.isRec = false) (n : Node) (hns : P.g.isSwitch n = false)
    (hr : ready P s d n = true) : InputsReady P s n := by
  intro e he hv
  unfold ready at hr
  rw [List.all_eq_true] at hr
  have hmem : e.u ∈ P.g.preds n := by
    simp only [Graph.preds, List.mem_map, List.mem_filter]
    exact ⟨e, ⟨he, by simpa using hv⟩, rfl⟩
  have hbase : (if P.g.isSwitch e.u then (match s.sw e.u with | some (_, c) => c | none => e.u) else e.u) ∈
      predsFor P s d n := by
    unfold predsFor
    simp only [hns, hsw.noHead, hdf.2, Bool.false_and, Bool.false_or, Bool.false_eq_true, if_false, List.mem_map]
    exact ⟨e.u, hmem, rfl⟩
  have := hr _ hbase
  simp only [Bool.and_eq_true, St.exists, hd.resHid, Bool.not_false, Bool.and_true] at this
  unfold SrcReady
  split
  · next hsu =>
    simp only [hsu, if_true] at this
    cases hsc : s.sw e.u with
    | some lc => exact ⟨lc.1, lc.2, rfl, by simpa [hsc] using this.1⟩
    | none =>
      simp only [hsc] at this
      cases hr' : s.res e.u with
      | none => simp [hr'] at this
      | some w => have := (hd.agree e.u w hr').2; rw [hsu] at this; cases this
  · next hsu =>
    simp only [hsu, Bool.false_eq_true, if_false] at this
    exact this.1

theorem ready_decider {P : Program} (hsw : SwP P) {s : St} (hd : SData P val s) (d : DagRef)
    (hdf : d.isOneof = false ∧ d.isRec = false) (n : Node) (hns : P.g.isSwitch n = true)
    (hr : ready P s d n = true) : DeciderReady P s n := by
  intro e he hv hes
  unfold ready at hr
  rw [List.all_eq_true] at hr
  have hpl := hsw.decPlain e he hes
  have hbase : e.u ∈ predsFor P s d n := by
    unfold predsFor
    simp only [hns, hdf.2, Bool.not_false, Bool.and_self, if_true, List.mem_map, List.mem_filter]
    exact ⟨e.u, ⟨e, ⟨he, by simp [hv, hes]⟩, rfl⟩, by simp [hpl]⟩
  have := hr _ hbase
  simp only [Bool.and_eq_true, St.exists, hd.resHid, Bool.not_false, Bool.and_true] at this
  exact this.1

theorem safe_dagWaitDest {P : Program} {c : Ctx} {s : St} {below : List Frame} (x : StepCtx P val c s below)
    (obs : List Obs) (ho : ObsAll P val obs) (d : DagRef) (hd : d.isOneof = false ∧ d.isRec = false) :
    Good P val (dagWaitDest c s obs d below) := by
  unfold dagWaitDest
  split
  · split
    · exact good_retTo c x.inv ho _ _ x.bel
    · exact good_block c x.inv ho _ _ (frames_cons x.bel _ hd)
  · exact good_block c x.inv ho _ _ (frames_cons x.bel _ hd)

theorem safe_dagLaunch {P : Program} {c : Ctx} {below : List Frame} (d : DagRef)
    (hd : d.isOneof = false ∧ d.isRec = false) : ∀ (rest : List Node) (s : St) (obs : List Obs),
    ObsAll P val obs → StepCtx P val c s below → Lz s (∀ n ∈ d.nodes, Demanded P val n) →
    Lz s (∀ n ∈ rest, n ∈ d.nodes) → Good P val (dagLaunch c d below s obs rest) := by
  intro rest
  induction rest with
  | nil => intro s obs ho x _ _; simp only [dagLaunch]; exact safe_dagWaitDest x obs ho d hd
  | cons n rest ih =>
    intro s obs ho x hdd hrest
    simp only [dagLaunch, hd.1, Bool.false_and, Bool.false_eq_true, if_false]
    split
    · next hr =>
      rw [x.cP] at hr
      have hdm : Lz s (Demanded P val n) := by
        rcases hdd with hb | h1
        · exact Or.inl hb
        · rcases hrest with hb | h2
          · exact Or.inl hb
          · exact Or.inr (h1 n (h2 n (by simp)))
      have hf : FrameOK P val s (launchFrame c.P d n) := by
        unfold launchFrame
        rw [x.cP]
        split
        · next hsn => exact ⟨hd.1, hd.2, hsn, hdm, ready_decider x.sw x.inv.data d hd n hsn hr⟩
        · next hsn =>
          simp only [x.sw.noHead, Bool.false_eq_true, if_false]
          have hsn' : P.g.isSwitch n = false := by simpa using hsn
          exact ⟨hd.1, hd.2, rfl, hsn', hdm, ready_inputs x.sw x.inv.data d hd n hsn' hr⟩
      have g : Grows s (spawn s [launchFrame c.P d n] (.node n)).1 := Grows.of_eq rfl rfl rfl
      have x1 := x.to (x.inv.spawn [launchFrame c.P d n] (.node n) (by intro f hf'; simp at hf'; subst hf'; exact hf)) g
      exact ih _ _ (ho.snoc (o := .spawn _ _) trivial) x1 (hdd.mono g)
        ((hrest.mono g).imp (fun h m hm => h m (by simp [hm])))
    · exact good_block c x.inv ho _ _ (frames_cons x.bel _ ⟨hd, hdd, hrest⟩)

/-- a launch order the model accepts only lists nodes of the DAG -/
theorem validOrder_sub {P : Program} {s : St} {d : DagRef} {ord : List Node} (h : validOrder P s d ord = true) :
    ∀ n ∈ ord, n ∈ d.nodes := by
  unfold validOrder at h
  simp only [Bool.and_eq_true, List.all_eq_true] at h
  intro n hn
  have := h.1.1.1.2 n hn
  simp only [expectedOrder, List.contains_iff_mem, List.mem_filter] at this
  exact this.1

theorem SInvX.noteOrder {P : Program} {ex : Option Nat} {s : St} (h : SInvX P val ex s) (ok : Bool) :
    SInvX P val ex (s.noteOrder ok) ∧ Grows s (s.noteOrder ok) := by
  unfold St.noteOrder
  split
  · exact ⟨h, Grows.refl s⟩
  · have g : Grows s { s with badOrd := true } := ⟨fun _ _ h => h, fun _ _ h => h, fun _ => rfl⟩
    refine ⟨h.transport ?_ g (fun i tk hi => Or.inl (old_task hi)), g⟩
    exact ⟨h.data.resHid, h.data.procHid, h.data.addl, h.data.hides, h.data.vals, h.data.agree, h.data.swOK, h.data.out,
      Or.inl rfl⟩

theorem safe_dagInit {P : Program} {c : Ctx} {s : St} {below : List Frame} (x : StepCtx P val c s below)
    (obs : List Obs) (ho : ObsAll P val obs) (d : DagRef) (hd : d.isOneof = false ∧ d.isRec = false)
    (hdd : Lz s (∀ n ∈ d.nodes, Demanded P val n)) : Good P val (dagInit c s obs d below) := by
  unfold dagInit
  simp only [hd.2, Bool.false_eq_true, if_false]
  have ho1 : ObsAll P val (if validOrder c.P s d c.ord then obs ++ [.topo c.ord] else obs ++ [.topo c.ord] ++ [.badOracle]) := by
    exact ObsAll.ite (ho.snoc (o := .topo _) trivial) ((ho.snoc (o := .topo _) trivial).snoc (o := .badOracle) trivial)
  obtain ⟨hi, g⟩ := x.inv.noteOrder (validOrder c.P s d c.ord)
  have x1 : StepCtx P val c (s.noteOrder (validOrder c.P s d c.ord)) below := x.to hi g
  have hrest : Lz (s.noteOrder (validOrder c.P s d c.ord)) (∀ n ∈ c.ord, n ∈ d.nodes) := by
    cases hv : validOrder c.P s d c.ord with
    | true => exact Or.inr (validOrder_sub hv)
    | false => exact Or.inl rfl
  split
  · exact good_retTo c x1.inv ho1 _ _ x1.bel
  · exact safe_dagLaunch d hd _ _ _ ho1 x1 (hdd.mono g) hrest

theorem reducedRef_flags (P : Program) (s : St) (a b : Node) (sub : DagRef)
    (h : reducedRef P s a b false false false = some sub) : sub.isOneof = false ∧ sub.isRec = false := by
  unfold reducedRef at h
  simp only [] at h
  split at h
  · cases h; exact ⟨rfl, rfl⟩
  · split at h
    · cases h
    · cases h; exact ⟨rfl, rfl⟩

theorem fold_label {P : Program} {s : St} (es : List Edge) (h : ∀ e ∈ es, val e.u = some (s.get e.u)) :
    ∀ init, es.foldl (fun _ e => val e.u) (some init) = some (es.foldl (fun _ e => s.get e.u) init) := by
  induction es with
  | nil => intro init; rfl
  | cons e es ih =>
    intro init
    simp only [List.foldl_cons]
    rw [h e (by simp)]
    exact ih (fun e' he' => h e' (by simp [he'])) _

/-- the label the engine reads is the semantic one -/
theorem switchLabel_sem {P : Program} {s : St} (hd : SData P val s) (n : Node) (hdr : DeciderReady P s n) :
    switchLabelV P val n = some (switchLabel P s n) := by
  unfold switchLabelV switchLabel
  apply fold_label (P := P)
  intro e he
  simp only [List.mem_filter, beq_iff_eq] at he
  have := hdr e he.1.1 he.1.2 he.2
  cases hr : s.res e.u with
  | none => rw [hr] at this; simp at this
  | some v =>
    rw [(hd.agree e.u v hr).1]
    simp [St.get, hd.resHid, hr]

/-- with the decision value known, "the engine finds no case" is "the semantics selects none" -/
theorem swSel_none {P : Program} {s : St} (hd : SData P val s) (n : Node) (hdr : DeciderReady P s n)
    (h : switchSelect P s n = none) : (switchLabelV P val n).isSome = true ∧ swSel P val n = none := by
  have hl := switchLabel_sem hd n hdr
  refine ⟨by rw [hl]; rfl, ?_⟩
  unfold swSel
  rw [hl]
  unfold switchSelect at h
  split at h
  · next l hl' => simp only [hl', h, Option.map_none]
  · next hne =>
    split
    · next l hl' => exact absurd (Option.some.inj hl') (by intro e; exact hne l e)
    · rfl

theorem safe_switchStart {P : Program} {c : Ctx} {s : St} {below : List Frame} (x : StepCtx P val c s below)
    (obs : List Obs) (ho : ObsAll P val obs) (d : DagRef) (n : Node) (hd : d.isOneof = false ∧ d.isRec = false)
    (hsn : P.g.isSwitch n = true) (hdm : Lz s (Demanded P val n)) (hdr : DeciderReady P s n) :
    Good P val (switchStart c s obs d n below) := by
  unfold switchStart
  rw [x.cP]
  split
  · next hnone =>
    refine good_raiseOut c x.cP (x.inv.notify .run) ho below _ ?_
    intro e he
    cases he
    obtain ⟨h1, h2⟩ := swSel_none x.inv.data n hdr hnone
    exact Or.inr (Or.inr (Or.inl ⟨n, hsn, rfl, h1, h2⟩))
  · next l cn hsel =>
    -- the recorded decision is the semantic one
    have hc : SwChoice P val n l cn := by
      unfold switchSelect at hsel
      split at hsel
      · next l' hl' =>
        have hmem := List.mem_of_getLast? hsel
        simp only [List.mem_filter, beq_iff_eq] at hmem
        have hll : l = l' := hmem.2
        subst hll
        exact ⟨by rw [switchLabel_sem x.inv.data n hdr, hl'], hsel⟩
      · cases hsel
    have hold : ∀ lc, s.sw n = some lc → lc = (l, cn) := by
      intro lc hlc
      have h2 := x.inv.data.swOK n lc.1 lc.2 hlc
      have h1 : lc.1 = l := by
        have := h2.1; rw [hc.1] at this
        simp only [Option.some.injEq, Val.str.injEq] at this; exact this.symm
      have h3 := h2.2
      rw [h1, hc.2] at h3
      have h4 := (Option.some.inj h3).symm
      obtain ⟨a, b⟩ := lc
      simp only at h1 h4 ⊢
      subst h1
      exact h4
    have g : Grows s (s.setSw n (l, cn)) := by
      refine ⟨fun _ _ h => h, ?_, id⟩
      intro T lc hT
      simp only [St.setSw, upd]
      split
      · next he => subst he; rw [hold lc hT]
      · exact hT
    have x1 : StepCtx P val c (s.setSw n (l, cn)) below := x.to (x.inv.setSw n l cn hc hold) g
    simp only [openCand, hd.1, Bool.false_eq_true, if_false]
    split
    · exact good_raiseOut c x.cP x1.inv ho below _ (by intro e he; cases he; exact Or.inr (Or.inr (Or.inr (Or.inl rfl))))
    · next sub hsub =>
      have hsf := reducedRef_flags P _ _ _ sub hsub
      have x2 : StepCtx P val c (s.setSw n (l, cn)) (.switchRet d n :: below) :=
        ⟨x1.cP, x1.sw, x1.sol, x1.inv, frames_cons x1.bel _ hd⟩
      refine safe_dagInit x2 obs ho sub hsf ((hdm.mono g).imp ?_)
      intro hS
      exact Demanded.of_reducedRef x.sw hsub (.case hS hsn hc.sel)

/-! ### `chart.run` / `manager.run` -/

theorem safe_mgrReturn {P : Program} {c : Ctx} {s : St} (h : SInvX P val (some c.t) s) (obs : List Obs)
    (hob : ObsAll P val obs) (o : Outcome) (ho : OutcomeOKSw P val o) : Good P val (mgrReturn c s obs o) := by
  unfold mgrReturn
  have := good_endTask c h (hob.snoc (o := .returned o) ho) .ok (by intro e he; cases he)
  exact ⟨this.1.setOutcome o ho, this.2⟩

theorem safe_mgrComplete {P : Program} {c : Ctx} {s : St} (x : StepCtx P val c s []) (obs : List Obs)
    (hob : ObsAll P val obs) (o : Outcome) (ho : OutcomeOKSw P val o) : Good P val (mgrComplete c s obs o) := by
  unfold mgrComplete
  have ho1 : ObsAll P val (obs ++ [.pcomplete o]) := hob.snoc ho
  split
  · exact safe_mgrReturn x.inv obs hob _ ho
  · refine safe_cbCall x .pcomplete 0 _ ho1 _ _ _ (safe_mgrReturn x.inv _ ho1 o ho) ?_ ?_
    · intro e he
      exact safe_mgrReturn x.inv _ (ObsAll.ite (ho1.snoc (o := .pcomplete (.error e)) (errCause_collab he)) ho1) _
        (errCause_collab he)
    · intro j f hf
      simp only [List.mem_singleton] at hf
      subst hf
      exact ho

theorem safe_mgrFinish {P : Program} {c : Ctx} {s : St} (x : StepCtx P val c s []) (obs : List Obs)
    (hob : ObsAll P val obs)
    (hfin : (!(taskErrors s).isEmpty || s.exists c.P.g.output) = true) : Good P val (mgrFinish c s obs) := by
  unfold mgrFinish
  have ho : OutcomeOKSw P val (finishOutcome c s) := by
    unfold finishOutcome
    split
    · next e hidx =>
      have hmem : e ∈ taskErrors s := List.mem_of_getElem? hidx
      have hc : ErrCause P val e := by
        simp only [taskErrors, List.mem_filterMap] at hmem
        obtain ⟨tk, htk, hst⟩ := hmem
        obtain ⟨i, hi, rfl⟩ := List.getElem_of_mem htk
        have hget : s.tasks[i]? = some s.tasks[i] := List.getElem?_eq_getElem hi
        refine x.inv.errs i _ hget e ?_
        split at hst
        · next e' he' => cases hst; exact he'
        · cases hst
      split <;> exact hc
    · next hidx =>
      have hnil : taskErrors s = [] := by
        cases hl : taskErrors s with
        | nil => rfl
        | cons a l =>
          rw [hl] at hidx
          have : c.pick % max (a :: l).length 1 < (a :: l).length := by
            have : max (a :: l).length 1 = (a :: l).length := by simp
            rw [this]; exact Nat.mod_lt _ (by simp)
          rw [List.getElem?_eq_none_iff] at hidx
          omega
      simp only [hnil, List.isEmpty_nil, Bool.not_true, Bool.false_or, x.cP] at hfin
      simp only [St.exists, Bool.and_eq_true] at hfin
      show val P.g.output = some (s.getHid c.P.g.output)
      rw [x.cP]
      cases hr : s.res P.g.output with
      | none => rw [hr] at hfin; simp at hfin
      | some w =>
        have : s.getHid P.g.output = w := by simp [St.getHid, hr]
        rw [this]
        exact (x.inv.data.agree _ w hr).1
  have x1 : StepCtx P val c (cancelTasks s (liveTasks s c.t)) [] :=
    ⟨x.cP, x.sw, x.sol, x.inv.cancelTasks _, by intro f hf; simp at hf⟩
  exact safe_mgrComplete x1 obs hob _ ho

theorem safe_mgrCheck {P : Program} {c : Ctx} {s : St} (x : StepCtx P val c s []) (obs : List Obs)
    (hob : ObsAll P val obs) : Good P val (mgrCheck c s obs) := by
  unfold mgrCheck
  split
  · next h => exact safe_mgrFinish x obs hob h
  · exact good_block c x.inv hob _ _ (by intro f hf; simp at hf; subst hf; trivial)

theorem safe_mgrBegin {P : Program} {c : Ctx} {s : St} (x : StepCtx P val c s []) (obs : List Obs)
    (hob : ObsAll P val obs) : Good P val (mgrBegin c s obs) := by
  unfold mgrBegin
  split
  · next hp =>
    refine safe_mgrComplete x obs hob _ ?_
    show ErrCause P val _
    exact Or.inr (Or.inr (Or.inr (Or.inr ⟨by rw [← x.cP]; simpa using hp, rfl⟩)))
  · split
    · refine safe_mgrComplete x obs hob _ ?_
      show ErrCause P val _
      exact Or.inr (Or.inr (Or.inr (Or.inl rfl)))
    · next d hd =>
      rw [x.cP] at hd
      have hf := reducedRef_flags P _ _ _ d hd
      have x1 : StepCtx P val c (spawn s [.dagInit d] .run).1 [] :=
        ⟨x.cP, x.sw, x.sol, x.inv.spawn _ _ (by
          intro f hf'; simp at hf'; subst hf'
          exact ⟨hf, Lz.intro (Demanded.of_reducedRef x.sw hd .out)⟩), by intro f hf'; simp at hf'⟩
      exact safe_mgrCheck x1 _ (hob.snoc trivial)

theorem safe_mgrStart {P : Program} {c : Ctx} {s : St} (x : StepCtx P val c s []) (obs : List Obs)
    (hob : ObsAll P val obs) : Good P val (mgrStart c s obs) := by
  unfold mgrStart
  have ho1 : ObsAll P val (obs ++ [.pstart]) := hob.snoc trivial
  refine safe_cbCall x .pstart 0 _ ho1 _ _ _ (safe_mgrBegin x _ ho1)
    (fun e he => safe_mgrReturn x.inv _ ho1 _ (errCause_collab he)) ?_
  intro j f hf
  simp only [List.mem_singleton] at hf
  subst hf
  trivial

theorem safe_deliverCancel {P : Program} {c : Ctx} {s : St} (hcP : c.P = P) (h : SInvX P val (some c.t) s) (tk : Task) :
    Good P val (deliverCancel c s tk) := by
  have hob : ObsAll P val [.returned .cancelled] := by
    intro o ho; simp only [List.mem_singleton] at ho; subst ho; trivial
  have hr : ∀ e, TaskRes.cancelled = .exc e → ErrCause P val e := by intro e he; cases he
  have key : ∀ s', SInvX P val (some c.t) s' →
      Good P val (((endTask c s' [.returned .cancelled] .cancelled).1.setOutcome .cancelled),
        (endTask c s' [.returned .cancelled] .cancelled).2) := by
    intro s' h'
    have := good_endTask c h' hob .cancelled hr
    exact ⟨this.1.setOutcome _ trivial, this.2⟩
  unfold deliverCancel
  split
  · exact key _ h
  · exact key _ h
  · exact key _ (h.cancelTasks _)
  · exact key _ h
  · exact good_raiseOut c hcP h ObsAll.nil _ _ hr

/-! ### one section of any task, one step, every reachable state -/

theorem safe_stepTask {P : Program} (hsw : SwP P) (hsol : SolutionSw P val) {s : St} (h : SInv P val s)
    (hci : CoreInv s.core) (c : Ctx) (hcP : c.P = P) (out : Out) (hs : stepTask c s = some out) :
    Good P val out := by
  have hn : ObsAll P val [] := ObsAll.nil
  unfold stepTask at hs
  split at hs
  · cases hs
  · next tk htk =>
    have hfr : ∀ f ∈ tk.frames, FrameOK P val s f := h.frames c.t tk htk (by simp)
    have hx : SInvX P val (some c.t) s := h.weaken c.t
    split at hs
    · next rv hst =>
      split at hs
      · obtain rfl := Option.some.inj hs
        exact safe_deliverCancel hcP hx tk
      · -- dispatch on the frames
        have mkx : ∀ below, (∀ f ∈ below, FrameOK P val s f) → StepCtx P val c s below :=
          fun below hb => ⟨hcP, hsw, hsol, hx, hb⟩
        have tl : ∀ (f0 : Frame) (below : List Frame), tk.frames = f0 :: below → ∀ f ∈ below, FrameOK P val s f :=
          fun f0 below hfs f hf => hfr f (by rw [hfs]; simp [hf])
        have hd0 : ∀ (f0 : Frame) (below : List Frame), tk.frames = f0 :: below → FrameOK P val s f0 :=
          fun f0 below hfs => hfr f0 (by rw [hfs]; simp)
        split at hs
        · obtain rfl := Option.some.inj hs
          exact safe_mgrStart (mkx [] (by intro f hf; simp at hf)) _ hn
        · obtain rfl := Option.some.inj hs
          exact safe_mgrCheck (mkx [] (by intro f hf; simp at hf)) _ hn
        · obtain rfl := Option.some.inj hs
          exact safe_cbThen (mkx [] (by intro f hf; simp at hf)) _ hn _ _ _
            (safe_mgrBegin (mkx [] (by intro f hf; simp at hf)) _ hn)
            (by intro j' f hf; simp at hf; subst hf; trivial)
        · next _ _ j o hfs =>
          obtain rfl := Option.some.inj hs
          have ho : OutcomeOKSw P val o := hd0 _ _ hfs
          exact safe_cbThen (mkx [] (by intro f hf; simp at hf)) _ hn _ _ _
            (safe_mgrReturn hx _ hn o ho) (by intro j' f hf; simp at hf; subst hf; exact ho)
        · next _ _ d below hfs =>
          obtain rfl := Option.some.inj hs
          exact safe_dagInit (mkx below (tl _ _ hfs)) _ hn d (hd0 _ _ hfs).1 (hd0 _ _ hfs).2
        · next _ _ d rest below hfs =>
          obtain rfl := Option.some.inj hs
          exact safe_dagLaunch d (hd0 _ _ hfs).1 _ _ _ hn (mkx below (tl _ _ hfs)) (hd0 _ _ hfs).2.1 (hd0 _ _ hfs).2.2
        · next _ _ d below hfs =>
          obtain rfl := Option.some.inj hs
          exact safe_dagWaitDest (mkx below (tl _ _ hfs)) _ hn d (hd0 _ _ hfs)
        · next _ _ d n force below hfs =>
          obtain rfl := Option.some.inj hs
          obtain ⟨a1, a2, a3, a4, a4', a5⟩ := hd0 _ _ hfs
          subst a3
          exact safe_nodeStart (mkx below (tl _ _ hfs)) _ hn d n ⟨a1, a2⟩ a4 a4' a5 hci
        · next _ _ d n force below hfs =>
          obtain rfl := Option.some.inj hs
          exact safe_nodePost_wait (mkx below (tl _ _ hfs)) _ hn d n
        · next _ _ d n force k kw inv below o hfs =>
          obtain rfl := Option.some.inj hs
          obtain ⟨a1, a2, a3, a4, a4', a5⟩ := hd0 _ _ hfs
          subst a3
          rw [hcP]
          exact safe_nodeAfterBody (mkx below (tl _ _ hfs)) _ hn d n k kw inv ⟨a1, a2⟩ a4 a4' a5
        · next _ _ d n force k kw inv below hfs =>
          obtain rfl := Option.some.inj hs
          obtain ⟨a1, a2, a3, a4, a4', a5⟩ := hd0 _ _ hfs
          subst a3
          exact safe_nodeAttempt (mkx below (tl _ _ hfs)) _ hn d n (k + 1) kw inv ⟨a1, a2⟩ a4 a4' a5
        · next _ _ d n force j inv below hfs =>
          obtain rfl := Option.some.inj hs
          obtain ⟨a1, a2, a3, a4, a4', a5, a6⟩ := hd0 _ _ hfs
          subst a3
          refine safe_cbThen (mkx below (tl _ _ hfs)) _ hn _ _ _
            (safe_nodeBegin (mkx below (tl _ _ hfs)) _ hn d n inv ⟨a1, a2⟩ a4 a4' a5 a6) ?_
          intro j'
          exact frames_cons (tl _ _ hfs) _ ⟨a1, a2, rfl, a4, a4', a5, a6⟩
        · next _ _ d n force j k kw inv below hfs =>
          obtain rfl := Option.some.inj hs
          obtain ⟨a1, a2, a3, a4, a4', a5⟩ := hd0 _ _ hfs
          subst a3
          refine safe_cbThen (mkx below (tl _ _ hfs)) _ hn _ _ _
            (safe_nodeSleep (mkx below (tl _ _ hfs)) _ hn d n k kw inv ⟨a1, a2⟩ a4 a4' a5) ?_
          intro j'
          exact frames_cons (tl _ _ hfs) _ ⟨a1, a2, rfl, a4, a4', a5⟩
        · next _ _ d n force j v below hfs =>
          obtain rfl := Option.some.inj hs
          obtain ⟨a1, a2, a3, a4, a4', a5, a6⟩ := hd0 _ _ hfs
          refine safe_cbThen (mkx below (tl _ _ hfs)) _ hn _ _ _
            (safe_nodePost_exec (mkx below (tl _ _ hfs)) _ hn d n v ⟨a1, a2⟩ a4 a4' a5 a6) ?_
          intro j'
          exact frames_cons (tl _ _ hfs) _ ⟨a1, a2, rfl, a4, a4', a5, a6⟩
        · next _ _ d n force j e below hfs =>
          obtain rfl := Option.some.inj hs
          obtain ⟨a1, a2, a3, a4, a4', a5⟩ := hd0 _ _ hfs
          refine safe_cbThen (mkx below (tl _ _ hfs)) _ hn _ _ _
            (safe_nodeFailCont (mkx below (tl _ _ hfs)) _ hn d n e ⟨a1, a2⟩ a5) ?_
          intro j'
          exact frames_cons (tl _ _ hfs) _ ⟨a1, a2, rfl, a4, a4', a5⟩
        · next _ _ d n force j below hfs =>
          obtain rfl := Option.some.inj hs
          obtain ⟨a1, a2, a3, a4, a4', a5⟩ := hd0 _ _ hfs
          refine safe_cbThen (mkx below (tl _ _ hfs)) _ hn _ _ _
            (safe_nodeFinish (mkx below (tl _ _ hfs)) _ hn d n) ?_
          intro j'
          exact frames_cons (tl _ _ hfs) _ ⟨a1, a2, rfl, a4, a4', trivial⟩
        · next _ _ d n below hfs =>
          obtain rfl := Option.some.inj hs
          obtain ⟨a1, a2, a3, a4, a5⟩ := hd0 _ _ hfs
          exact safe_switchStart (mkx below (tl _ _ hfs)) _ hn d n ⟨a1, a2⟩ a3 a4 a5
        · next _ _ d n below v hfs =>
          obtain rfl := Option.some.inj hs
          rw [hcP]
          exact good_retTo c (hx.notifyAll _) hn _ _
            (fun f hf => (tl _ _ hfs f hf).mono (grows_notifyAll _ _))
        · next _ _ d hd below hfs => exact absurd (hd0 _ _ hfs) (by simp [FrameOK])
        · next _ _ d hd cand rest sub below hfs => exact absurd (hd0 _ _ hfs) (by simp [FrameOK])
        · next _ _ d n r below hfs => exact absurd (hd0 _ _ hfs) (by simp [FrameOK])
        · next _ _ d n st g k below v hfs => exact absurd (hd0 _ _ hfs) (by simp [FrameOK])
        · next _ _ d n st below v hfs => exact absurd (hd0 _ _ hfs) (by simp [FrameOK])
        · cases hs
    · cases hs

theorem gateDone_frames (n inv att : Nat) (tk : Task) : (gateDone n inv att tk).frames = tk.frames := by
  unfold gateDone
  split
  · split <;> rfl
  · rfl

theorem gateDone_exc (n inv att : Nat) (tk : Task) (e : Exc) (h : (gateDone n inv att tk).st = .done (.exc e)) :
    tk.st = .done (.exc e) := by
  unfold gateDone at h
  split at h
  · split at h
    · cases h
    · exact h
  · exact h

/-- **every step of the engine model preserves the safety invariant and emits only justified observations**
(switch-only programs) -/
theorem safe_step {P : Program} (hsw : SwP P) (hsol : SolutionSw P val) {s : St} (h : SInv P val s)
    (hci : CoreInv s.core) (ch : Choice) (out : Out) (hs : step P s ch = some out) : Good P val out := by
  cases ch with
  | run t ord pick => exact safe_stepTask hsw hsol h hci _ rfl out hs
  | gate n inv att =>
    simp only [step] at hs
    split at hs
    · cases hs
    · obtain rfl := Option.some.inj hs
      exact ⟨h.map_tasks ⟨rfl, rfl, rfl, rfl, rfl, rfl, rfl, rfl, rfl⟩ _ rfl (gateDone_frames n inv att) (gateDone_exc n inv att),
        ObsAll.nil⟩
  | timer t =>
    simp only [step] at hs
    split at hs
    · next tk htk =>
      split at hs
      · next hst =>
        obtain rfl := Option.some.inj hs
        refine ⟨?_, ObsAll.nil⟩
        refine h.transport (h.data.of_same ⟨rfl, rfl, rfl, rfl, rfl, rfl, rfl, rfl, rfl⟩) (Grows.of_eq rfl rfl rfl) ?_
        intro i tk' hi
        by_cases hit : i = t
        · subst hit
          simp only [St.setTask] at hi
          rw [List.getElem?_set_self (getElem?_lt htk)] at hi
          cases hi
          exact Or.inl ⟨tk, htk, rfl, by intro e he; cases he⟩
        · simp only [St.setTask, List.getElem?_set_ne (Ne.symm hit)] at hi
          exact Or.inl (old_task hi)
      · cases hs
    · cases hs
  | cancelCaller =>
    simp only [step] at hs
    obtain rfl := Option.some.inj hs
    exact ⟨h.cancelTask 0, ObsAll.nil⟩

theorem safe_init {P : Program} : SInv P val init := by
  refine ⟨⟨fun _ => rfl, fun _ => rfl, fun _ => rfl, fun _ => rfl, ?_, ?_, ?_, ?_, ?_⟩, ?_, ?_⟩
  · intro n v h; simp [init] at h
  · intro n v h; simp [init] at h
  · intro S l c h; simp [init] at h
  · intro o h; simp [init] at h
  · exact Or.inr (by intro n h; simp [init] at h)
  · intro i tk hi _ f hf
    simp only [init] at hi
    match i, hi with
    | 0, hi => simp at hi; subst hi; simp at hf; subst hf; trivial
    | i + 1, hi => simp at hi
  · intro i tk hi e he
    simp only [init] at hi
    match i, hi with
    | 0, hi => simp at hi; subst hi; cases he
    | i + 1, hi => simp at hi

/-- **the safety invariant holds in every reachable state** of a switch-only program, under every schedule -/
theorem safe_reach {P : Program} (hsw : SwP P) (hsol : SolutionSw P val) {s : St} (h : Reach P s) : SInv P val s := by
  induction h with
  | init => exact safe_init
  | @step s s' c obs hr hs ih => exact (safe_step hsw hsol ih (coreInv_reach hr) c (s', obs) hs).1

/-- **everything a run of a switch-only program lets its collaborators observe is justified**, under every schedule -/
theorem safe_exec {P : Program} (hsw : SwP P) (hsol : SolutionSw P val) {s : St} {log : List Obs} (h : Exec P s log) :
    SInv P val s ∧ ObsAll P val log := by
  induction h with
  | init => exact ⟨safe_init, ObsAll.nil⟩
  | @step s s' log obs c hr hs ih =>
    have := safe_step hsw hsol ih.1 (coreInv_reach hr.reach) c (s', obs) hs
    exact ⟨this.1, ih.2.append this.2⟩

end MLPE.Eng

import MLPE.Proofs.EngTasks
import MLPE.Props.C13
import MLPE.PlainSpec
import MLPE.Proofs.EngC04
import MLPE.Proofs.Retry

/-!
# Plain pipelines: the invariant behind C01 / C02 / C03 / C05 / C06

A *plain* program has only `Input` dependencies (no switch, one-of or recurrent machinery) and bodies that never ask
for another iteration.  Retry / default settings, execution modes, failures anywhere, `None` / falsy results are
arbitrary; the collaborators (event managers, artifact store) may suspend any number of times inside any callback and
may raise.

The invariant `PInv` describes every state of such a run until `manager.run` leaves, under every interleaving,
completion order and cancellation point; `Fin` describes the finishing phase (outcome decided, every other task
cancel-marked, the caller possibly suspended in `on_pipeline_complete`).  `pinv_step` / `fin_step` are the inductive
steps, `pinv_live` / `outcome_live` the statements over executions.  Value tracking (`Att`, `Track`, `agree_of_nodes`) is
conditional on `val` being a `Solution` of the dataflow equations.
-/
namespace MLPE.Eng
open MLPE
variable {val : Node → Option Val}

/-- hypotheses of the plain fragment; `d` is the main reduced DAG -/
structure PlainP (P : Program) (d : DagRef) : Prop where
  noSwitch : ∀ n, P.g.isSwitch n = false
  noHead   : ∀ n, P.g.isOneofHead n = false
  noRecur  : ∀ n kw i k v, P.body n kw i k = .ret v → v.isRecur = false ∧ v.isExc = false
  noRecurD : ∀ n kw, (P.dflt n kw).isRecur = false ∧ (P.dflt n kw).isExc = false
  /-- every `get_default` returns (a failing default is outside this fragment; the engine model covers it) -/
  dfltOk   : ∀ n, P.dfltRaise n = none
  pools    : P.poolsOk = true
  main     : ∀ s : St, (∀ n, s.opened n = false) → reducedRef P s P.g.input P.g.output false false false = some d
  dest     : d.dest = some P.g.output
  notRec   : d.isRec = false
  notOneof : d.isOneof = false
  predsIn  : ∀ n ∈ d.nodes, ∀ p ∈ P.g.preds n, p ∈ d.nodes
  outIn    : P.g.output ∈ d.nodes
  nodup    : d.nodes.Nodup
  gne      : P.g.nodes ≠ []
  noCase   : ∀ e ∈ P.g.edges, e.case = none
  noCand   : ∀ e ∈ P.g.edges, (P.g.attr e.v).oneofNodes.contains e.u = false

/-- the order the launch loop follows: a duplicate-free enumeration of the DAG's nodes in which every dependency
comes first (what `validOrder` checks of the oracle, for a DAG none of whose nodes is processed yet) -/
structure TopoOrd (P : Program) (d : DagRef) (ord : List Node) : Prop where
  nodup  : ord.Nodup
  same   : ∀ n, n ∈ ord ↔ n ∈ d.nodes
  before : ∀ n ∈ ord, ∀ p ∈ P.g.preds n, posOf ord p < posOf ord n

/-! ### the parts of the state a plain run never touches -/

structure Quiet (s : St) : Prop where
  resHid  : ∀ n, s.resHid n = false
  procHid : ∀ n, s.procHid n = false
  opened  : ∀ n, s.opened n = false
  sw      : ∀ n, s.sw n = none
  addl    : ∀ n, s.additional n = none
  hides   : ∀ n, s.hideCount n = 0
  pend    : s.outcome = none
  stale   : s.stale = []

/-- readiness in a plain DAG: every predecessor has a stored result -/
def readyP (P : Program) (s : St) (n : Node) : Bool := (P.g.preds n).all fun p => (s.res p).isSome

theorem ready_plain {P : Program} {d : DagRef} (hp : PlainP P d) {s : St} (hq : Quiet s)
    (hres : ∀ p v, s.res p = some v → v.isRecur = false) (n : Node) :
    ready P s d n = readyP P s n := by
  have hpf : predsFor P s d n = P.g.preds n := by
    unfold predsFor
    simp only [hp.noSwitch, hp.noHead, hp.notRec, Bool.false_and, Bool.false_or, Bool.false_eq_true, if_false]
    simp
  unfold ready readyP
  rw [hpf]
  apply List.all_congr rfl
  intro p
  simp only [St.exists, St.get, hq.resHid, Bool.not_false, Bool.and_true, Bool.false_eq_true, if_false]
  cases hr : s.res p with
  | none => simp
  | some v => simp [hres p v hr]

/-! ### the dataflow reading of a plain pipeline (the specification the values are compared with) -/

/-- `val` solves the dataflow equations of the pipeline: a node has a value iff all its sources have one and the
retry / default policy applied to its body on those values yields one -/
structure Solution (P : Program) (d : DagRef) (val : Node → Option Val) : Prop where
  eq : ∀ n ∈ d.nodes, val n =
    if (P.g.preds n).all (fun p => (val p).isSome) then valueOf P n (kwFrom P val n) else none

/-- node `n` fails with `e`: all its sources have values and the policy ends with the failure `e` -/
def NodeFails (P : Program) (val : Node → Option Val) (n : Node) (e : Exc) : Prop :=
  (P.g.preds n).all (fun p => (val p).isSome) = true ∧ finalOf P n (kwFrom P val n) = some (.failed e)

/-- a collaborator (event manager callback or artifact store) raises `e` -/
def CollabFails (P : Program) (e : Exc) : Prop := ∃ cb m, P.cbRaise cb m = some e

/-- why a run may fail with `e`: a node of the pipeline fails with it, or a collaborator raises it -/
def FailCause (P : Program) (d : DagRef) (val : Node → Option Val) (e : Exc) : Prop :=
  (∃ n ∈ d.nodes, NodeFails P val n e) ∨ CollabFails P e

/-- attempt `k` of the (only) invocation of node `n` is the next one / is in progress -/
structure Att (P : Program) (val : Node → Option Val) (n : Node) (k : Nat) (kw : Kwargs) (inv : Nat) : Prop where
  kw_eq : kw = kwFrom P val n
  preds : (P.g.preds n).all (fun p => (val p).isSome) = true
  inv0  : inv = 0
  kpos  : 1 ≤ k
  kle   : k ≤ (P.cfg n).attemptsEff
  pre   : ∀ j, 1 ≤ j → j < k → Retry.decide (P.cfg n) j (P.body n kw 0 j) = .retry

/-- value tracking is conditional on `val` being a solution (so that the liveness theorems need none) -/
def Track (P : Program) (d : DagRef) (val : Node → Option Val) (X : Prop) : Prop := Solution P d val → X

/-- the result of `n` is stored **and announced**: its task has finished (the `finally` notifications of `_run_node`
are sent in the task's last section; while the artifact store is still saving, the result is stored but nobody has been
told yet) -/
def Settled (s : St) (n : Node) : Prop :=
  (s.res n).isSome = true ∧ ∃ (i : Nat) (tk : Task), s.tasks[i]? = some tk ∧ tk.name = .node n ∧ tk.isDone = true

/-- every source of `m` is settled -/
def ReadyA (P : Program) (s : St) (m : Node) : Prop := ∀ p ∈ P.g.preds m, Settled s p

theorem not_settled_of_res_none {s : St} {n : Node} (h : s.res n = none) : ¬ Settled s n := by
  intro ⟨h1, _⟩; rw [h] at h1; simp at h1

theorem not_readyA_of_not_readyP {P : Program} {s : St} {m : Node} (h : (P.g.preds m).all (fun p => (s.res p).isSome) = false) :
    ¬ ReadyA P s m := by
  intro hra
  rw [List.all_eq_false] at h
  obtain ⟨p, hp, hpr⟩ := h
  exact hpr (hra p hp).1

/-- `Settled` only looks at the results and at the (name, finished) pairs of the tasks -/
theorem settled_mono {s s' : St} (hr : s'.res = s.res)
    (ht : ∀ (j : Nat) (tk' : Task), s'.tasks[j]? = some tk' → tk'.isDone = true →
      ∀ n, tk'.name = .node n → ∃ (j0 : Nat) (tk : Task), s.tasks[j0]? = some tk ∧ tk.name = .node n ∧ tk.isDone = true)
    (n : Node) (h : Settled s' n) : Settled s n := by
  obtain ⟨h1, j, tk', hj, hnm, hdn⟩ := h
  obtain ⟨j0, tk, a, b, c⟩ := ht j tk' hj hdn n hnm
  exact ⟨by rw [← hr]; exact h1, j0, tk, a, b, c⟩

theorem settled_setTask {s : St} (t : Nat) (tk' : Task) (hnd : tk'.isDone = false) (n : Node)
    (h : Settled (s.setTask t tk') n) : Settled s n := by
  refine settled_mono (s := s) (s' := s.setTask t tk') rfl ?_ n h
  intro j tk hj hdn m hnm
  by_cases hjt : j = t
  · subst hjt
    simp only [St.setTask] at hj
    by_cases hlt : j < s.tasks.length
    · rw [List.getElem?_set_self hlt] at hj; cases hj; rw [hnd] at hdn; cases hdn
    · rw [List.getElem?_eq_none (by simp; omega)] at hj; cases hj
  · simp only [St.setTask, List.getElem?_set_ne (Ne.symm hjt)] at hj
    exact ⟨j, tk, hj, hnm, hdn⟩

theorem settled_setTask_name {s : St} (t : Nat) (tk' : Task) (hnm : ∀ m, tk'.name ≠ .node m) (n : Node)
    (h : Settled (s.setTask t tk') n) : Settled s n := by
  refine settled_mono (s := s) (s' := s.setTask t tk') rfl ?_ n h
  intro j tk hj hdn m hm
  by_cases hjt : j = t
  · subst hjt
    simp only [St.setTask] at hj
    by_cases hlt : j < s.tasks.length
    · rw [List.getElem?_set_self hlt] at hj; cases hj; exact absurd hm (hnm m)
    · rw [List.getElem?_eq_none (by simp; omega)] at hj; cases hj
  · simp only [St.setTask, List.getElem?_set_ne (Ne.symm hjt)] at hj
    exact ⟨j, tk, hj, hm, hdn⟩

theorem settled_spawn {s : St} (fs : List Frame) (nm : TaskName) (n : Node) (h : Settled (spawn s fs nm).1 n) :
    Settled s n := by
  refine settled_mono (s := s) (s' := (spawn s fs nm).1) rfl ?_ n h
  intro j tk hj hdn m hm
  simp only [spawn] at hj
  by_cases hlt : j < s.tasks.length
  · rw [List.getElem?_append_left hlt] at hj; exact ⟨j, tk, hj, hm, hdn⟩
  · rw [List.getElem?_append_right (by omega)] at hj
    by_cases h0 : j - s.tasks.length = 0
    · rw [h0] at hj; simp at hj; subst hj; simp [Task.isDone] at hdn
    · rw [List.getElem?_eq_none (by simp; omega)] at hj; cases hj

theorem settled_map {s s' : St} (F : Task → Task) (hr : s'.res = s.res) (ht : s'.tasks = s.tasks.map F)
    (hF : ∀ tk, (F tk).name = tk.name ∧ ((F tk).isDone = true → tk.isDone = true)) (n : Node) (h : Settled s' n) :
    Settled s n := by
  refine settled_mono hr ?_ n h
  intro j tk' hj hdn m hm
  rw [ht, List.getElem?_map] at hj
  cases hs : s.tasks[j]? with
  | none => simp [hs] at hj
  | some tk =>
    simp only [hs, Option.map_some, Option.some.injEq] at hj
    subst hj
    exact ⟨j, tk, hs, by rw [← (hF tk).1]; exact hm, (hF tk).2 hdn⟩

/-! ### per-task predicates -/

/-- a node task of node `n`, before the caller has left -/
inductive NodeTaskOK (P : Program) (d : DagRef) (val : Node → Option Val) (s : St) (n : Node) : Task → Prop
  | fresh :
      s.proc n = false → s.res n = none → (∀ p ∈ P.g.preds n, (s.res p).isSome = true) →
      NodeTaskOK P d val s n { frames := [.node d n false .start], st := .runnable .go, name := .node n }
  | inBody (k : Nat) (kw : Kwargs) (inv : Nat) :
      s.proc n = true → s.res n = none → Track P d val (Att P val n k kw inv) →
      NodeTaskOK P d val s n { frames := [.node d n false (.body k kw inv)],
                               st := .blocked (.gate n inv k (P.body n kw inv k)), name := .node n }
  | bodyDone (k : Nat) (kw : Kwargs) (inv : Nat) :
      s.proc n = true → s.res n = none → Track P d val (Att P val n k kw inv) →
      NodeTaskOK P d val s n { frames := [.node d n false (.body k kw inv)],
                               st := .runnable (.body (P.body n kw inv k)), name := .node n }
  | sleeping (k : Nat) (kw : Kwargs) (inv : Nat) (dl : Nat) :
      s.proc n = true → s.res n = none → Track P d val (Att P val n (k + 1) kw inv) →
      NodeTaskOK P d val s n { frames := [.node d n false (.sleep k kw inv)],
                               st := .blocked (.sleep n inv k dl), name := .node n }
  | slept (k : Nat) (kw : Kwargs) (inv : Nat) :
      s.proc n = true → s.res n = none → Track P d val (Att P val n (k + 1) kw inv) →
      NodeTaskOK P d val s n { frames := [.node d n false (.sleep k kw inv)], st := .runnable .go, name := .node n }
  | cbStart (j : Nat) (inv : Nat) :      -- suspended in on_node_start
      s.proc n = true → s.res n = none → (∀ p ∈ P.g.preds n, (s.res p).isSome = true) → inv = 0 →
      NodeTaskOK P d val s n { frames := [.node d n false (.cbStart j inv)], st := .runnable .go, name := .node n }
  | cbRetry (j : Nat) (k : Nat) (kw : Kwargs) (inv : Nat) :      -- suspended in on_node_complete(error) before a retry
      s.proc n = true → s.res n = none → Track P d val (Att P val n (k + 1) kw inv) →
      NodeTaskOK P d val s n { frames := [.node d n false (.cbRetry j k kw inv)], st := .runnable .go, name := .node n }
  | cbOk (j : Nat) (v : Val) :      -- suspended in on_node_complete(None): the value is not stored yet
      s.proc n = true → s.res n = none → (v.isRecur = false ∧ v.isExc = false) → Track P d val (val n = some v) →
      NodeTaskOK P d val s n { frames := [.node d n false (.cbOk j v)], st := .runnable .go, name := .node n }
  | cbFail (j : Nat) (e : Exc) :      -- suspended in the final on_node_complete(error)
      s.proc n = true → s.res n = none → Track P d val (NodeFails P val n e) →
      NodeTaskOK P d val s n { frames := [.node d n false (.cbFail j e)], st := .runnable .go, name := .node n }
  | cbSave (j : Nat) :      -- suspended in artifact_store.save: the value is stored, nobody has been notified yet
      s.proc n = true → (s.res n).isSome = true → Track P d val (val n = s.res n) →
      NodeTaskOK P d val s n { frames := [.node d n false (.cbSave j)], st := .runnable .go, name := .node n }
  | doneOk :
      s.proc n = true → (s.res n).isSome = true → Track P d val (val n = s.res n) →
      NodeTaskOK P d val s n { frames := [], st := .done .ok, name := .node n }
  | doneExc (e : Exc) :
      s.proc n = true → s.res n = none → Track P d val (NodeFails P val n e ∨ CollabFails P e) →
      NodeTaskOK P d val s n { frames := [], st := .done (.exc e), name := .node n }
  | doneExcSaved (e : Exc) :      -- the artifact store raised after the value had been stored
      s.proc n = true → (s.res n).isSome = true → Track P d val (val n = s.res n) → CollabFails P e →
      NodeTaskOK P d val s n { frames := [], st := .done (.exc e), name := .node n }

/-- the main `_run_dag` task (task 1); `launched` are the nodes it has created tasks for, in order -/
inductive MainOK (P : Program) (d : DagRef) (s : St) (launched : List Node) : Task → Prop
  | init :
      launched = [] → (∀ n, s.proc n = false) →
      MainOK P d s launched { frames := [.dagInit d], st := .runnable .go, name := .run }
  | launching (rest : List Node) :
      TopoOrd P d (launched ++ rest) →
      MainOK P d s launched { frames := [.dagLaunch d rest], st := .runnable .go, name := .run }
  | waitNode (m : Node) (rest : List Node) :
      TopoOrd P d (launched ++ m :: rest) → ¬ ReadyA P s m →
      MainOK P d s launched { frames := [.dagLaunch d (m :: rest)], st := .blocked (.cond (.node m)), name := .run }
  | waitingDest :
      TopoOrd P d launched →
      MainOK P d s launched { frames := [.dagWaitDest d], st := .runnable .go, name := .run }
  | waitDest :
      TopoOrd P d launched → ¬ Settled s P.g.output →
      MainOK P d s launched { frames := [.dagWaitDest d], st := .blocked (.cond (.node P.g.output)), name := .run }
  | done :
      TopoOrd P d launched → (s.res P.g.output).isSome = true →
      MainOK P d s launched { frames := [], st := .done .ok, name := .run }

/-- no engine task has finished with an exception -/
def NoErr (s : St) : Prop := ∀ (i : Nat) (tk : Task) (e : Exc), s.tasks[i]? = some tk → tk.st ≠ .done (.exc e)

theorem noErr_iff (s : St) : NoErr s ↔ taskErrors s = [] := by
  unfold NoErr taskErrors
  constructor
  · intro h
    rw [List.filterMap_eq_nil_iff]
    intro tk htk
    obtain ⟨i, hi, rfl⟩ := List.getElem_of_mem htk
    have hh : ∀ e, s.tasks[i].st ≠ .done (.exc e) := fun e => h i s.tasks[i] e (by simp [hi])
    cases hst : s.tasks[i].st with
    | done r =>
      cases r with
      | exc e => exact absurd hst (hh e)
      | ok => rfl
      | cancelled => rfl
    | runnable rv => rfl
    | blocked w => rfl
  · intro h i tk e hi hst
    rw [List.filterMap_eq_nil_iff] at h
    have := h tk (List.mem_of_getElem? hi)
    simp [hst] at this

/-- the caller's task (task 0) while it has not left `chart.run` -/
inductive CallerOK (P : Program) (s : St) : Task → Prop
  | start (mc : Bool) :
      s.tasks.length = 1 →
      CallerOK P s { frames := [.mgrStart], st := .runnable .go, mustCancel := mc, name := .caller }
  | waiting :
      2 ≤ s.tasks.length → NoErr s → ¬ Settled s P.g.output →
      CallerOK P s { frames := [.mgrWait], st := .blocked (.cond .run), name := .caller }
  | woken (mc : Bool) :
      2 ≤ s.tasks.length →
      CallerOK P s { frames := [.mgrWait], st := .runnable .go, mustCancel := mc, name := .caller }
  | cbStart (j : Nat) (mc : Bool) :      -- suspended in on_pipeline_start
      s.tasks.length = 1 →
      CallerOK P s { frames := [.mgrCbStart j], st := .runnable .go, mustCancel := mc, name := .caller }

/-- **the invariant of plain runs** (while `outcome = none`) -/
structure PInv (P : Program) (d : DagRef) (val : Node → Option Val) (s : St) : Prop where
  quiet    : Quiet s
  noRecRes : ∀ p v, s.res p = some v → v.isRecur = false ∧ v.isExc = false
  caller   : ∃ tk, s.tasks[0]? = some tk ∧ CallerOK P s tk
  rest     : (s.tasks.length = 1 ∧ ∀ n, s.proc n = false ∧ s.res n = none) ∨
             ∃ launched : List Node, s.tasks.length = 2 + launched.length ∧
               (∃ tk, s.tasks[1]? = some tk ∧ MainOK P d s launched tk) ∧
               (∀ i (h : i < launched.length), ∃ tk, s.tasks[2 + i]? = some tk ∧ NodeTaskOK P d val s launched[i] tk) ∧
               (∀ n, n ∉ launched → s.proc n = false ∧ s.res n = none)


/-! ### progress: a plain run that has not ended is never stuck -/

theorem posOf_append_self (L R : List Node) (m : Node) (h : m ∉ L) : posOf (L ++ m :: R) m = L.length := by
  unfold posOf
  induction L with
  | nil => simp [List.findIdx_cons]
  | cons a L ih =>
    have ha : (a == m) = false := by
      have : a ≠ m := fun e => h (by simp [e])
      simpa using this
    have hm : m ∉ L := fun e => h (by simp [e])
    simp only [List.cons_append, List.findIdx_cons, ha, cond_false, List.length_cons]
    rw [ih hm]

theorem posOf_lt_mem (L R : List Node) (p : Node) (h : posOf (L ++ R) p < L.length) : p ∈ L := by
  unfold posOf at h
  induction L with
  | nil => simp at h
  | cons a L ih =>
    by_cases ha : a = p
    · simp [ha]
    · simp only [List.cons_append, List.findIdx_cons] at h
      have : (a == p) = false := by simpa using ha
      simp only [this, cond_false, List.length_cons] at h
      exact List.mem_cons_of_mem _ (ih (by omega))

/-- in a topological order `L ++ m :: R`, every predecessor of `m` is in `L` -/
theorem TopoOrd.preds_launched {P : Program} {d : DagRef} {L R : List Node} {m : Node}
    (h : TopoOrd P d (L ++ m :: R)) (p : Node) (hp : p ∈ P.g.preds m) : p ∈ L := by
  have hm : m ∈ L ++ m :: R := by simp
  have hlt := h.before m hm p hp
  have hnot : m ∉ L := by
    have := h.nodup
    rw [List.nodup_append] at this
    intro hmL
    exact this.2.2 m hmL m (by simp) rfl
  rw [posOf_append_self L R m hnot] at hlt
  exact posOf_lt_mem L (m :: R) p hlt

theorem not_any_runnable {s : St} (h : s.tasks.any isRunnable = false) (i : Nat) (tk : Task)
    (hi : s.tasks[i]? = some tk) : isRunnable tk = false := by
  rw [List.any_eq_false] at h
  have := h tk (List.mem_of_getElem? hi)
  simpa using this

theorem no_external {s : St} (h : hasExternal s = false) (i : Nat) (tk : Task) (hi : s.tasks[i]? = some tk) :
    (∀ n a b o, tk.st ≠ .blocked (.gate n a b o)) ∧ (∀ n a b dl, tk.st ≠ .blocked (.sleep n a b dl)) := by
  unfold hasExternal at h
  rw [List.any_eq_false] at h
  have := h tk (List.mem_of_getElem? hi)
  constructor
  · intro n a b o he; simp [he] at this
  · intro n a b dl he; simp [he] at this

theorem mem_taskErrors {s : St} (i : Nat) (tk : Task) (e : Exc) (hi : s.tasks[i]? = some tk)
    (hst : tk.st = .done (.exc e)) : e ∈ taskErrors s := by
  unfold taskErrors
  rw [List.mem_filterMap]
  exact ⟨tk, List.mem_of_getElem? hi, by simp [hst]⟩

/-- a launched node that is not settled has a task that can still move, or waits for something external, or has
failed — the last is impossible while the caller waits un-notified -/
theorem launched_not_settled_contra {P : Program} {d : DagRef} {s : St} {n : Node} {tk : Task} {i : Nat}
    (hi : s.tasks[i]? = some tk) (hok : NodeTaskOK P d val s n tk) (hns : ¬ Settled s n)
    (hrun : s.tasks.any isRunnable = false) (hext : hasExternal s = false) (herr : NoErr s) : False := by
  have h1 := not_any_runnable hrun i tk hi
  have h2 := no_external hext i tk hi
  cases hok with
  | fresh => simp [isRunnable] at h1
  | inBody k kw inv => exact h2.1 _ _ _ _ rfl
  | bodyDone k kw inv => simp [isRunnable] at h1
  | sleeping k kw inv dl => exact h2.2 _ _ _ _ rfl
  | slept k kw inv => simp [isRunnable] at h1
  | cbStart => simp [isRunnable] at h1
  | cbRetry => simp [isRunnable] at h1
  | cbOk => simp [isRunnable] at h1
  | cbFail => simp [isRunnable] at h1
  | cbSave => simp [isRunnable] at h1
  | doneOk _ h => exact hns ⟨h, i, _, hi, rfl, rfl⟩
  | doneExc e _ _ => exact herr i _ e hi rfl
  | doneExcSaved e _ h => exact herr i _ e hi rfl

/-- **C02 (plain), no stuck state**: in every state satisfying the invariant in which the run is still pending,
some task can run or something external (a node body, a timer) is outstanding -/
theorem pinv_not_stuck {P : Program} {d : DagRef} (hp : PlainP P d) {s : St} (h : PInv P d val s)
    (hout : s.outcome = none) : stuck s = false := by
  unfold stuck
  simp only [hout, Option.isNone_none, Bool.true_and]
  cases hrun : s.tasks.any isRunnable with
  | true => simp
  | false =>
  cases hext : hasExternal s with
  | true => simp
  | false =>
  exfalso
  obtain ⟨ctk, hc0, hcok⟩ := h.caller
  have hcr := not_any_runnable hrun 0 ctk hc0
  cases hcok with
  | start mc _ => simp [isRunnable] at hcr
  | woken mc _ => simp [isRunnable] at hcr
  | cbStart j mc _ => simp [isRunnable] at hcr
  | waiting hlen herr hno =>
    rcases h.rest with ⟨h1, _⟩ | ⟨launched, hl, ⟨mtk, hm1, hmok⟩, hnodes, _⟩
    · omega
    · have hmr := not_any_runnable hrun 1 mtk hm1
      cases hmok with
      | init => simp [isRunnable] at hmr
      | launching rest => simp [isRunnable] at hmr
      | waitingDest => simp [isRunnable] at hmr
      | waitNode m rest htopo hnr =>
        -- some predecessor of m is not settled; it is launched
        have : ∃ p ∈ P.g.preds m, ¬ Settled s p := by
          apply Classical.byContradiction
          intro hc
          apply hnr
          intro p hp
          apply Classical.byContradiction
          intro hps
          exact hc ⟨p, hp, hps⟩
        obtain ⟨p, hpm, hpr⟩ := this
        have hpl := htopo.preds_launched p hpm
        obtain ⟨i, hi, rfl⟩ := List.getElem_of_mem hpl
        obtain ⟨tk, htk, hok⟩ := hnodes i hi
        exact launched_not_settled_contra htk hok hpr hrun hext herr
      | waitDest htopo hres =>
        have hol : P.g.output ∈ launched := (htopo.same _).mpr hp.outIn
        obtain ⟨i, hi, hie⟩ := List.getElem_of_mem hol
        obtain ⟨tk, htk, hok⟩ := hnodes i hi
        rw [hie] at hok
        exact launched_not_settled_contra htk hok hres hrun hext herr
      | done _ hsome =>
        -- the launcher has seen the output's result: its task is done or saving, the latter is runnable
        have hol : P.g.output ∈ launched := by
          rename_i htopo
          exact (htopo.same _).mpr hp.outIn
        obtain ⟨i, hi, hie⟩ := List.getElem_of_mem hol
        obtain ⟨tk, htk, hok⟩ := hnodes i hi
        rw [hie] at hok
        exact launched_not_settled_contra htk hok hno hrun hext herr

end MLPE.Eng

namespace MLPE.Eng
open MLPE
variable {val : Node → Option Val}

/-! ### what a batch of notifications does to the task list -/

/-- wake every task blocked on one of the condition keys `ks` or on the event of one of the nodes `evs` -/
def wakeSet (ks : List Key) (evs : List Node) (tk : Task) : Task :=
  match tk.st with
  | .blocked (.cond k) => if ks.contains k then { tk with st := .runnable .go } else tk
  | .blocked (.event n) => if evs.contains n then { tk with st := .runnable .go } else tk
  | _ => tk

theorem wakeIf_cond_eq (k : Key) (tk : Task) :
    wakeIf (fun w => match w with | .cond k' => k' == k | _ => false) tk = wakeSet [k] [] tk := by
  obtain ⟨fr, st, mc, nm⟩ := tk
  cases st with
  | runnable rv => rfl
  | done r => rfl
  | blocked w =>
    cases w with
    | cond k' => by_cases h : k' = k <;> simp [wakeIf, wakeSet, h]
    | event n => simp [wakeIf, wakeSet]
    | gate a b c o => simp [wakeIf, wakeSet]
    | sleep a b c dl => simp [wakeIf, wakeSet]

theorem wakeIf_event_eq (n : Node) (tk : Task) :
    wakeIf (fun w => match w with | .event n' => n' == n | _ => false) tk = wakeSet [] [n] tk := by
  obtain ⟨fr, st, mc, nm⟩ := tk
  cases st with
  | runnable rv => rfl
  | done r => rfl
  | blocked w =>
    cases w with
    | cond k' => simp [wakeIf, wakeSet]
    | event n' => by_cases h : n' = n <;> simp [wakeIf, wakeSet, h]
    | gate a b c o => simp [wakeIf, wakeSet]
    | sleep a b c dl => simp [wakeIf, wakeSet]

theorem wakeSet_comp (ks1 ks2 : List Key) (e1 e2 : List Node) (tk : Task) :
    wakeSet ks2 e2 (wakeSet ks1 e1 tk) = wakeSet (ks1 ++ ks2) (e1 ++ e2) tk := by
  obtain ⟨fr, st, mc, nm⟩ := tk
  cases st with
  | runnable rv => rfl
  | done r => rfl
  | blocked w =>
    cases w with
    | cond k =>
      by_cases h1 : k ∈ ks1 <;> by_cases h2 : k ∈ ks2 <;> simp [wakeSet, h1, h2]
    | event n =>
      by_cases h1 : n ∈ e1 <;> by_cases h2 : n ∈ e2 <;> simp [wakeSet, h1, h2]
    | gate a b c o => simp [wakeSet]
    | sleep a b c dl => simp [wakeSet]

theorem tasks_notify (s : St) (k : Key) : (notify s k).tasks = s.tasks.map (wakeSet [k] []) := by
  simp only [notify]
  apply List.map_congr_left
  intro tk _
  exact wakeIf_cond_eq k tk

theorem tasks_setEvent (s : St) (n : Node) : (setEvent s n).tasks = s.tasks.map (wakeSet [] [n]) := by
  simp only [setEvent]
  apply List.map_congr_left
  intro tk _
  exact wakeIf_event_eq n tk

theorem wakeSet_nil (tk : Task) : wakeSet [] [] tk = tk := by
  obtain ⟨fr, st, mc, nm⟩ := tk
  cases st with
  | runnable rv => rfl
  | done r => rfl
  | blocked w => cases w <;> simp [wakeSet]

theorem tasks_notifyAll (s : St) (ks : List Key) : (notifyAll s ks).tasks = s.tasks.map (wakeSet ks []) := by
  unfold notifyAll
  induction ks generalizing s with
  | nil =>
    simp only [List.foldl_nil]
    have : wakeSet [] [] = id := funext wakeSet_nil
    rw [this, List.map_id]
  | cons k ks ih =>
    simp only [List.foldl_cons]
    rw [ih, tasks_notify, List.map_map]
    apply List.map_congr_left
    intro tk _
    simp only [Function.comp]
    rw [wakeSet_comp]
    simp

/-- the condition keys the `finally` of `_run_node` notifies on the normal path -/
def finallyKeys (P : Program) (d : DagRef) (n : Node) : List Key :=
  (P.g.desc1 n).map Key.node ++ [.run] ++ [.node n]

theorem tasks_nodeFinally (P : Program) (s : St) (d : DagRef) (n : Node) :
    (nodeFinally P s d n true).tasks = s.tasks.map (wakeSet (finallyKeys P d n) [n]) := by
  simp only [nodeFinally, Bool.not_true, Bool.false_eq_true, if_false]
  rw [tasks_notify, tasks_notify, tasks_notifyAll, tasks_setEvent]
  simp only [List.map_map]
  apply List.map_congr_left
  intro tk _
  simp only [Function.comp, wakeSet_comp, finallyKeys]
  simp

/-- apart from the task list, the `finally` only sets the node's event -/
theorem nodeFinally_hideCount (P : Program) (s : St) (d : DagRef) (n : Node) (u : Bool) :
    (nodeFinally P s d n u).hideCount = s.hideCount ∧ (nodeFinally P s d n u).invCount = s.invCount := by
  have hna : ∀ (ks : List Key) (s : St), (notifyAll s ks).hideCount = s.hideCount ∧ (notifyAll s ks).invCount = s.invCount := by
    intro ks
    induction ks with
    | nil => intro s; exact ⟨rfl, rfl⟩
    | cons k ks ih => intro s; simp only [notifyAll, List.foldl_cons]; exact ih (notify s k)
  unfold nodeFinally
  simp only []
  split
  · exact ⟨rfl, rfl⟩
  · have := hna ((P.g.desc1 n).map Key.node) (setEvent s n)
    simp only [notify]
    exact this

theorem nodeFinally_stale (P : Program) (s : St) (d : DagRef) (n : Node) (u : Bool) :
    (nodeFinally P s d n u).stale = s.stale := by
  have hna : ∀ (ks : List Key) (s : St), (notifyAll s ks).stale = s.stale := by
    intro ks
    induction ks with
    | nil => intro s; rfl
    | cons k ks ih => intro s; simp only [notifyAll, List.foldl_cons]; exact ih (notify s k)
  unfold nodeFinally
  simp only []
  split
  · rfl
  · have := hna ((P.g.desc1 n).map Key.node) (setEvent s n)
    simp only [notify]
    exact this

theorem nodeFinally_fields (P : Program) (s : St) (d : DagRef) (n : Node) (u : Bool) :
    (nodeFinally P s d n u).res = s.res ∧ (nodeFinally P s d n u).resHid = s.resHid ∧
    (nodeFinally P s d n u).proc = s.proc ∧ (nodeFinally P s d n u).procHid = s.procHid ∧
    (nodeFinally P s d n u).opened = s.opened ∧ (nodeFinally P s d n u).sw = s.sw ∧
    (nodeFinally P s d n u).additional = s.additional ∧ (nodeFinally P s d n u).outcome = s.outcome := by
  have hn : ∀ (s : St) k, (notify s k).res = s.res ∧ (notify s k).resHid = s.resHid ∧ (notify s k).proc = s.proc ∧
      (notify s k).procHid = s.procHid ∧ (notify s k).opened = s.opened ∧ (notify s k).sw = s.sw ∧
      (notify s k).additional = s.additional ∧ (notify s k).outcome = s.outcome := by
    intro s k; exact ⟨rfl, rfl, rfl, rfl, rfl, rfl, rfl, rfl⟩
  have hna : ∀ (ks : List Key) (s : St), (notifyAll s ks).res = s.res ∧ (notifyAll s ks).resHid = s.resHid ∧
      (notifyAll s ks).proc = s.proc ∧ (notifyAll s ks).procHid = s.procHid ∧ (notifyAll s ks).opened = s.opened ∧
      (notifyAll s ks).sw = s.sw ∧ (notifyAll s ks).additional = s.additional ∧ (notifyAll s ks).outcome = s.outcome := by
    intro ks
    induction ks with
    | nil => intro s; exact ⟨rfl, rfl, rfl, rfl, rfl, rfl, rfl, rfl⟩
    | cons k ks ih => intro s; simp only [notifyAll, List.foldl_cons]; exact ih (notify s k)
  unfold nodeFinally
  simp only []
  split
  · exact ⟨rfl, rfl, rfl, rfl, rfl, rfl, rfl, rfl⟩
  · have := hna ((P.g.desc1 n).map Key.node) (setEvent s n)
    simp only [notify]
    exact this

end MLPE.Eng

namespace MLPE.Eng
open MLPE
variable {val : Node → Option Val}

/-! ### stability of the per-task predicates -/

/-- node tasks never wait on a condition or an event: notifications do not touch them -/
theorem NodeTaskOK.wake_id {P : Program} {d : DagRef} {s : St} {n : Node} {tk : Task}
    (h : NodeTaskOK P d val s n tk) (ks : List Key) (evs : List Node) : wakeSet ks evs tk = tk := by
  cases h <;> rfl

/-- a node task's predicate only looks at its own node's processed flag and result -/
theorem NodeTaskOK.frame {P : Program} {d : DagRef} {s s' : St} {n : Node} {tk : Task}
    (h : NodeTaskOK P d val s n tk) (hp : s'.proc n = s.proc n) (hr : s'.res n = s.res n)
    (hm : ∀ p, (s.res p).isSome = true → (s'.res p).isSome = true) : NodeTaskOK P d val s' n tk := by
  cases h with
  | fresh h1 h2 h3 => exact .fresh (by rw [hp, h1]) (by rw [hr, h2]) (fun p hpp => hm p (h3 p hpp))
  | inBody k kw inv h1 h2 h3 => exact .inBody k kw inv (by rw [hp, h1]) (by rw [hr, h2]) h3
  | bodyDone k kw inv h1 h2 h3 => exact .bodyDone k kw inv (by rw [hp, h1]) (by rw [hr, h2]) h3
  | sleeping k kw inv dl h1 h2 h3 => exact .sleeping k kw inv dl (by rw [hp, h1]) (by rw [hr, h2]) h3
  | slept k kw inv h1 h2 h3 => exact .slept k kw inv (by rw [hp, h1]) (by rw [hr, h2]) h3
  | cbStart j inv h1 h2 h3 h4 => exact .cbStart j inv (by rw [hp, h1]) (by rw [hr, h2]) (fun p hpp => hm p (h3 p hpp)) h4
  | cbRetry j k kw inv h1 h2 h3 => exact .cbRetry j k kw inv (by rw [hp, h1]) (by rw [hr, h2]) h3
  | cbOk j v h1 h2 h3 h4 => exact .cbOk j v (by rw [hp, h1]) (by rw [hr, h2]) h3 h4
  | cbFail j e h1 h2 h3 => exact .cbFail j e (by rw [hp, h1]) (by rw [hr, h2]) h3
  | cbSave j h1 h2 h3 => exact .cbSave j (by rw [hp, h1]) (by rw [hr, h2]) (by rw [hr]; exact h3)
  | doneOk h0 h1 h3 => exact .doneOk (by rw [hp, h0]) (by rw [hr, h1]) (by rw [hr]; exact h3)
  | doneExc e h0 h1 h3 => exact .doneExc e (by rw [hp, h0]) (by rw [hr, h1]) h3
  | doneExcSaved e h0 h1 h3 h4 => exact .doneExcSaved e (by rw [hp, h0]) (by rw [hr, h1]) (by rw [hr]; exact h3) h4

/-- the same when the results do not change at all -/
theorem NodeTaskOK.frame' {P : Program} {d : DagRef} {s s' : St} {n : Node} {tk : Task}
    (h : NodeTaskOK P d val s n tk) (hp : s'.proc n = s.proc n) (hr : s'.res = s.res) : NodeTaskOK P d val s' n tk :=
  h.frame hp (by rw [hr]) (fun p hpp => by rw [hr]; exact hpp)

/-- waking the main task keeps its predicate (a blocked launcher becomes a running one) -/
theorem MainOK.wake {P : Program} {d : DagRef} {s : St} {L : List Node} {tk : Task}
    (h : MainOK P d s L tk) (ks : List Key) (evs : List Node) : MainOK P d s L (wakeSet ks evs tk) := by
  cases h with
  | init h1 h2 => exact .init h1 h2
  | launching rest h1 => exact .launching rest h1
  | waitNode m rest h1 h2 =>
    by_cases hk : Key.node m ∈ ks
    · simp only [wakeSet, List.contains_iff_mem, hk, if_true]; exact .launching (m :: rest) h1
    · simp only [wakeSet, List.contains_iff_mem, hk, if_false]; exact .waitNode m rest h1 h2
  | waitingDest h1 => exact .waitingDest h1
  | waitDest h1 h2 =>
    by_cases hk : Key.node P.g.output ∈ ks
    · simp only [wakeSet, List.contains_iff_mem, hk, if_true]; exact .waitingDest h1
    · simp only [wakeSet, List.contains_iff_mem, hk, if_false]; exact .waitDest h1 h2
  | done h1 h2 => exact .done h1 h2

/-- if the key the launcher waits on is among the notified ones, it is running afterwards -/
theorem MainOK.wake_node {P : Program} {d : DagRef} {s s' : St} {L : List Node} {m : Node} {rest : List Node}
    (h1 : TopoOrd P d (L ++ m :: rest)) (ks : List Key) (evs : List Node) (hk : Key.node m ∈ ks) :
    MainOK P d s' L (wakeSet ks evs
      { frames := [.dagLaunch d (m :: rest)], st := .blocked (.cond (.node m)), name := .run }) := by
  simp only [wakeSet, List.contains_iff_mem, hk, if_true]; exact .launching (m :: rest) h1

theorem all_congr_mem {α} (l : List α) (f g : α → Bool) (h : ∀ x ∈ l, f x = g x) : l.all f = l.all g := by
  induction l with
  | nil => rfl
  | cons a l ih =>
    simp only [List.all_cons]
    rw [h a (by simp), ih (fun x hx => h x (List.mem_cons_of_mem _ hx))]

theorem readyP_congr {P : Program} {s s' : St} {m : Node} (h : ∀ p ∈ P.g.preds m, s'.res p = s.res p) :
    readyP P s' m = readyP P s m := by
  unfold readyP
  apply all_congr_mem
  intro p hp
  rw [h p hp]

/-- waking the caller -/
theorem CallerOK.wake {P : Program} {s : St} {tk : Task} (h : CallerOK P s tk) (ks : List Key) (evs : List Node)
    (hrun : Key.run ∈ ks) :
    (wakeSet ks evs tk).st = .runnable .go ∧ (wakeSet ks evs tk).frames = tk.frames ∧
    (wakeSet ks evs tk).name = tk.name ∧ (wakeSet ks evs tk).mustCancel = tk.mustCancel := by
  cases h with
  | start mc _ => exact ⟨rfl, rfl, rfl, rfl⟩
  | waiting _ _ _ => simp [wakeSet, hrun]
  | woken mc _ => exact ⟨rfl, rfl, rfl, rfl⟩
  | cbStart j mc _ => exact ⟨rfl, rfl, rfl, rfl⟩

end MLPE.Eng

namespace MLPE.Eng
open MLPE
variable {val : Node → Option Val}

theorem MainOK.nodup {P : Program} {d : DagRef} {s : St} {L : List Node} {tk : Task} (h : MainOK P d s L tk) :
    L.Nodup := by
  cases h with
  | init h1 _ => subst h1; simp
  | launching rest h1 => exact (List.nodup_append.mp h1.nodup).1
  | waitNode m rest h1 _ => exact (List.nodup_append.mp h1.nodup).1
  | waitingDest h1 => exact h1.nodup
  | waitDest h1 _ => exact h1.nodup
  | done h1 _ => exact h1.nodup

theorem MainOK.mem_nodes {P : Program} {d : DagRef} {s : St} {L : List Node} {tk : Task} (h : MainOK P d s L tk)
    {n : Node} (hn : n ∈ L) : n ∈ d.nodes := by
  cases h with
  | init h1 _ => subst h1; simp at hn
  | launching rest h1 => exact (h1.same n).mp (List.mem_append_left _ hn)
  | waitNode m rest h1 _ => exact (h1.same n).mp (List.mem_append_left _ hn)
  | waitingDest h1 => exact (h1.same n).mp hn
  | waitDest h1 _ => exact (h1.same n).mp hn
  | done h1 _ => exact (h1.same n).mp hn

/-- the attempt in progress ends the policy with `f`: that is the policy's result on the declared arguments -/
theorem Att.final {P : Program} {n k inv : Nat} {kw : Kwargs} (a : Att P val n k kw inv) (f : Retry.Final)
    (hd : Retry.decide (P.cfg n) k (P.body n kw inv k) = .done f) : finalOf P n (kwFrom P val n) = some f := by
  obtain ⟨hkw, _, hinv, h1, h2, hpre⟩ := a
  subst hinv
  rw [← hkw]
  unfold finalOf Retry.run
  have hk : 1 + (k - 1) = k := by omega
  have := Retry.loop_spec (P.cfg n) (fun j => P.body n kw 0 j) f (k - 1) 1 ((P.cfg n).attemptsEff - k)
    (fun j hj1 hj2 => hpre j hj1 (by omega)) (by rw [hk]; exact hd)
  have he : k - 1 + 1 + ((P.cfg n).attemptsEff - k) = (P.cfg n).attemptsEff := by omega
  rw [he] at this
  rw [this]

/-- the attempt in progress is retried: the next attempt is in progress -/
theorem Att.next {P : Program} {n k inv : Nat} {kw : Kwargs} (a : Att P val n k kw inv)
    (hd : Retry.decide (P.cfg n) k (P.body n kw inv k) = .retry) : Att P val n (k + 1) kw inv := by
  obtain ⟨hkw, hpr, hinv, h1, h2, hpre⟩ := a
  obtain ⟨e, _, _, hne⟩ := (Retry.decide_retry_iff _ _ _).mp hd
  refine ⟨hkw, hpr, hinv, by omega, by omega, ?_⟩
  intro j hj1 hj2
  by_cases hjk : j = k
  · subst hjk; subst hinv; exact hd
  · exact hpre j hj1 (by omega)

theorem Solution.value_of_final {P : Program} {d : DagRef} (hs : Solution P d val) {n : Node} (hn : n ∈ d.nodes)
    (hpr : (P.g.preds n).all (fun p => (val p).isSome) = true) {v : Val}
    (hf : finalOf P n (kwFrom P val n) = some (.value v) ∨
          (finalOf P n (kwFrom P val n) = some .default ∧ v = P.dflt n (kwFrom P val n))) : val n = some v := by
  rw [hs.eq n hn, hpr]
  simp only [if_true, valueOf]
  rcases hf with h | ⟨h, rfl⟩ <;> rw [h]

theorem wakeSet_noErr (ks : List Key) (evs : List Node) (tk : Task) (e : Exc) :
    (wakeSet ks evs tk).st = .done (.exc e) ↔ tk.st = .done (.exc e) := by
  obtain ⟨fr, st, mc, nm⟩ := tk
  cases st with
  | runnable rv => simp [wakeSet]
  | done r => simp [wakeSet]
  | blocked w =>
    cases w with
    | cond k => by_cases h : k ∈ ks <;> simp [wakeSet, h]
    | event n => by_cases h : n ∈ evs <;> simp [wakeSet, h]
    | gate a b c o => simp [wakeSet]
    | sleep a b c dl => simp [wakeSet]

theorem wakeSet_isDone (ks : List Key) (evs : List Node) (tk : Task) : (wakeSet ks evs tk).isDone = tk.isDone := by
  obtain ⟨fr, st, mc, nm⟩ := tk
  cases st with
  | runnable rv => rfl
  | done r => rfl
  | blocked w =>
    cases w with
    | cond k => by_cases h : k ∈ ks <;> simp [wakeSet, h, Task.isDone]
    | event n => by_cases h : n ∈ evs <;> simp [wakeSet, h, Task.isDone]
    | gate a b c o => rfl
    | sleep a b c dl => rfl

theorem wakeSet_name' (ks : List Key) (evs : List Node) (tk : Task) : (wakeSet ks evs tk).name = tk.name := by
  obtain ⟨fr, st, mc, nm⟩ := tk
  cases st with
  | runnable rv => rfl
  | done r => rfl
  | blocked w =>
    cases w with
    | cond k => by_cases h : k ∈ ks <;> simp [wakeSet, h]
    | event n => by_cases h : n ∈ evs <;> simp [wakeSet, h]
    | gate a b c o => rfl
    | sleep a b c dl => rfl

theorem NodeTaskOK.name_eq {P : Program} {d : DagRef} {s : St} {n : Node} {tk : Task} (h : NodeTaskOK P d val s n tk) :
    tk.name = .node n ∧ tk.mustCancel = false := by
  cases h <;> exact ⟨rfl, rfl⟩

/-- **a step of the node task of `n = L[i]`**: the task list is re-mapped by a batch of notifications and task `2 + i`
is replaced; the result of `n` may have been stored.  If the notifications cover everybody whose wait predicate may
have become true — i.e. they are sent when the node becomes *settled* — the invariant is preserved. -/
theorem pinv_node_step {P : Program} {d : DagRef} (hp : PlainP P d) {s s' : St} (h : PInv P d val s)
    (L : List Node) (hlen : s.tasks.length = 2 + L.length)
    (hmain : ∃ tk, s.tasks[1]? = some tk ∧ MainOK P d s L tk)
    (hnodes : ∀ i (h : i < L.length), ∃ tk, s.tasks[2 + i]? = some tk ∧ NodeTaskOK P d val s L[i] tk)
    (hfresh : ∀ n, n ∉ L → s.proc n = false ∧ s.res n = none)
    (i : Nat) (hi : i < L.length) (K : List Key) (E : List Node) (tk' : Task)
    (htasks : s'.tasks = (s.tasks.map (wakeSet K E)).set (2 + i) tk')
    (hquiet : Quiet s') (hnorec : ∀ p v, s'.res p = some v → v.isRecur = false ∧ v.isExc = false)
    (hproc : ∀ m, m ≠ L[i] → s'.proc m = s.proc m)
    (hres : ∀ m, m ≠ L[i] → s'.res m = s.res m)
    (hold : s.res L[i] = none ∨ s'.res L[i] = s.res L[i])
    (hnew : NodeTaskOK P d val s' L[i] tk')
    (hwake_succ : ∀ m, L[i] ∈ P.g.preds m → tk'.isDone = true → (s'.res L[i]).isSome = true → Key.node m ∈ K)
    (hwake_out : L[i] = P.g.output → tk'.isDone = true → (s'.res L[i]).isSome = true → Key.node P.g.output ∈ K)
    (hwake_run : ((tk'.isDone = true ∧ (s'.res L[i]).isSome = true) ∨ ∃ e, tk'.st = .done (.exc e)) → Key.run ∈ K) :
    PInv P d val s' := by
  have hlen' : s'.tasks.length = 2 + L.length := by rw [htasks]; simp [hlen]
  have hget : ∀ j, j ≠ 2 + i → s'.tasks[j]? = (s.tasks[j]?).map (wakeSet K E) := by
    intro j hj
    rw [htasks, List.getElem?_set_ne (Ne.symm hj), List.getElem?_map]
  have hgeti : s'.tasks[2 + i]? = some tk' := by
    rw [htasks, List.getElem?_set_self (by simp [hlen]; omega)]
  obtain ⟨mtk, hm1, hmok⟩ := hmain
  have hnd : L.Nodup := hmok.nodup
  -- a node other than the stepping one is settled afterwards only if it was before
  have hset : ∀ p, p ≠ L[i] → Settled s' p → Settled s p := by
    intro p hp ⟨h1, j, tk, hj, hnm, hdn⟩
    refine ⟨by rw [← hres p hp]; exact h1, ?_⟩
    by_cases hji : j = 2 + i
    · subst hji
      rw [hgeti] at hj; cases hj
      rw [hnew.name_eq.1] at hnm
      cases hnm; exact absurd rfl hp
    · rw [hget j hji] at hj
      cases hs : s.tasks[j]? with
      | none => simp [hs] at hj
      | some tk0 =>
        simp only [hs, Option.map_some, Option.some.injEq] at hj
        subst hj
        exact ⟨j, tk0, hs, by rw [← wakeSet_name' K E tk0]; exact hnm, by rw [← wakeSet_isDone K E tk0]; exact hdn⟩
  -- the stepping node is settled afterwards only if its own task has just finished with the result stored
  have hsetI : Settled s' L[i] → tk'.isDone = true ∧ (s'.res L[i]).isSome = true := by
    intro ⟨h1, j, tk, hj, hnm, hdn⟩
    by_cases hji : j = 2 + i
    · subst hji
      rw [hgeti] at hj; cases hj
      exact ⟨hdn, h1⟩
    · exfalso
      rw [hget j hji] at hj
      cases hs : s.tasks[j]? with
      | none => simp [hs] at hj
      | some tk0 =>
        simp only [hs, Option.map_some, Option.some.injEq] at hj
        subst hj
        rw [wakeSet_name' K E tk0] at hnm
        have hjl : j < s.tasks.length := getElem?_lt hs
        obtain ⟨ctk, hc0, hcok⟩ := h.caller
        by_cases hj0 : j = 0
        · subst hj0; rw [hc0] at hs; cases hs
          cases hcok <;> simp at hnm
        · by_cases hj1 : j = 1
          · subst hj1; rw [hm1] at hs; cases hs
            cases hmok <;> simp at hnm
          · obtain ⟨j', rfl⟩ : ∃ j', j = 2 + j' := ⟨j - 2, by omega⟩
            obtain ⟨tk1, htk1, hok1⟩ := hnodes j' (by omega)
            rw [htk1] at hs; cases hs
            rw [hok1.name_eq.1] at hnm
            simp only [TaskName.node.injEq] at hnm
            exact hji (by rw [(List.getElem_inj hnd).mp hnm])
  have hmono : ∀ p, (s.res p).isSome = true → (s'.res p).isSome = true := by
    intro p hpp
    by_cases hpi : p = L[i]
    · subst hpi
      rcases hold with h0 | h0
      · rw [h0] at hpp; simp at hpp
      · rw [h0]; exact hpp
    · rw [hres p hpi]; exact hpp
  refine ⟨hquiet, hnorec, ?_, Or.inr ⟨L, hlen', ?_, ?_, ?_⟩⟩
  · -- caller
    obtain ⟨ctk, hc0, hcok⟩ := h.caller
    refine ⟨wakeSet K E ctk, by rw [hget 0 (by omega), hc0]; rfl, ?_⟩
    cases hcok with
    | start mc h1 => omega
    | cbStart j mc h1 => omega
    | woken mc h1 => exact .woken mc (by omega)
    | waiting h1 herr hno =>
      by_cases hr : Key.run ∈ K
      · simp only [wakeSet, List.contains_iff_mem, hr, if_true]; exact .woken false (by omega)
      · simp only [wakeSet, List.contains_iff_mem, hr, if_false]
        refine .waiting (by omega) ?_ ?_
        · intro j tk e hj hst
          by_cases hji : j = 2 + i
          · subst hji
            rw [hgeti] at hj
            cases hj
            exact hr (hwake_run (Or.inr ⟨e, hst⟩))
          · rw [hget j hji] at hj
            cases hs : s.tasks[j]? with
            | none => simp [hs] at hj
            | some tk0 =>
              simp [hs] at hj
              subst hj
              exact herr j tk0 e hs ((wakeSet_noErr K E tk0 e).mp hst)
        · intro hst
          by_cases hon : P.g.output = L[i]
          · exact hr (hwake_run (Or.inl (hsetI (hon ▸ hst))))
          · exact hno (hset _ hon hst)
  · -- main
    refine ⟨wakeSet K E mtk, by rw [hget 1 (by omega), hm1]; rfl, ?_⟩
    cases hmok with
    | init h1 h2 => subst h1; simp at hi
    | launching rest h1 => exact .launching rest h1
    | waitingDest h1 => exact .waitingDest h1
    | done h1 h2 => exact .done h1 (hmono _ h2)
    | waitNode m rest h1 h2 =>
      by_cases hk : Key.node m ∈ K
      · simp only [wakeSet, List.contains_iff_mem, hk, if_true]; exact .launching (m :: rest) h1
      · simp only [wakeSet, List.contains_iff_mem, hk, if_false]
        refine .waitNode m rest h1 ?_
        intro hra
        apply h2
        intro p hpm
        by_cases hpn : p = L[i]
        · subst hpn
          obtain ⟨a1, a2⟩ := hsetI (hra _ hpm)
          exact absurd (hwake_succ m hpm a1 a2) hk
        · exact hset p hpn (hra p hpm)
    | waitDest h1 h2 =>
      by_cases hk : Key.node P.g.output ∈ K
      · simp only [wakeSet, List.contains_iff_mem, hk, if_true]; exact .waitingDest h1
      · simp only [wakeSet, List.contains_iff_mem, hk, if_false]
        refine .waitDest h1 ?_
        intro hst
        by_cases hon : P.g.output = L[i]
        · obtain ⟨a1, a2⟩ := hsetI (hon ▸ hst)
          exact hk (hwake_out hon.symm a1 a2)
        · exact h2 (hset _ hon hst)
  · -- node tasks
    intro j hj
    by_cases hji : j = i
    · subst hji; exact ⟨tk', hgeti, hnew⟩
    · obtain ⟨tk, htk, hok⟩ := hnodes j hj
      have hne : L[j] ≠ L[i] := by
        intro he
        exact hji ((List.getElem_inj hnd).mp he)
      refine ⟨tk, ?_, hok.frame (hproc _ hne) (hres _ hne) hmono⟩
      rw [hget (2 + j) (by omega), htk]
      simp [hok.wake_id]
  · intro n hn
    have hne : n ≠ L[i] := fun he => hn (he ▸ List.getElem_mem hi)
    rw [hproc n hne, hres n hne]
    exact hfresh n hn

end MLPE.Eng

namespace MLPE.Eng
open MLPE
variable {val : Node → Option Val}

/-! ### effects of the elementary task updates -/

theorem block_tasks (c : Ctx) (s : St) (obs : List Obs) (fr : List Frame) (w : Wait) (tk : Task)
    (h : s.tasks[c.t]? = some tk) :
    (block c s obs fr w).1 = s.setTask c.t { tk with frames := fr, st := .blocked w } := by
  simp [block, h]

theorem yield_tasks (c : Ctx) (s : St) (obs : List Obs) (fr : List Frame) (tk : Task)
    (h : s.tasks[c.t]? = some tk) :
    (yieldNow c s obs fr).1 = s.setTask c.t { tk with frames := fr, st := .runnable .go } := by
  simp [yieldNow, h]

theorem end_tasks (c : Ctx) (s : St) (obs : List Obs) (r : TaskRes) (tk : Task) (h : s.tasks[c.t]? = some tk) :
    (endTask c s obs r).1 = s.setTask c.t { tk with frames := [], st := .done r, mustCancel := false } := by
  simp [endTask, h]

theorem map_wakeSet_nil (l : List Task) : l.map (wakeSet [] []) = l := by
  have : wakeSet [] [] = id := funext wakeSet_nil
  rw [this, List.map_id]

/-- `succs ⊆ desc1`: the direct consumers of `n` are among the notified keys -/
theorem succ_mem_desc1 (g : Graph) (n m : Node) (h : n ∈ g.preds m) (hne : g.nodes ≠ []) : m ∈ g.desc1 n := by
  unfold Graph.desc1
  have hs : m ∈ g.succs n := by
    simp only [Graph.preds, List.mem_map, List.mem_filter] at h
    obtain ⟨e, ⟨he, hv⟩, hu⟩ := h
    simp only [Graph.succs, List.mem_map, List.mem_filter]
    exact ⟨e, ⟨he, by simpa using hu⟩, by simpa using hv⟩
  cases hl : g.nodes.length with
  | zero => simp at hl; exact absurd hl hne
  | succ k => simp [Graph.desc1Fuel, hs]

end MLPE.Eng

namespace MLPE.Eng
open MLPE
variable {val : Node → Option Val}

theorem Quiet.of_eq {s s' : St} (h : Quiet s) (h1 : s'.resHid = s.resHid) (h2 : s'.procHid = s.procHid)
    (h3 : s'.opened = s.opened) (h4 : s'.sw = s.sw) (h5 : s'.additional = s.additional)
    (h6 : s'.hideCount = s.hideCount := by rfl) (h7 : s'.outcome = s.outcome := by rfl)
    (h8 : s'.stale = s.stale := by rfl) : Quiet s' :=
  ⟨fun n => by rw [h1]; exact h.resHid n, fun n => by rw [h2]; exact h.procHid n, fun n => by rw [h3]; exact h.opened n,
   fun n => by rw [h4]; exact h.sw n, fun n => by rw [h5]; exact h.addl n, fun n => by rw [h6]; exact h.hides n, by rw [h7]; exact h.pend,
   by rw [h8]; exact h.stale⟩

/-- the situation in which a node task of a plain run takes a step: the invariant holds in `s`, the task is task
`2 + i` of node `L[i]`; `s1` is `s` after the task has (possibly) marked its node processed -/
structure NodeStepCtx (P : Program) (d : DagRef) (val : Node → Option Val) (s s1 : St) (L : List Node) (i : Nat) (c : Ctx) (tk : Task) : Prop where
  inv    : PInv P d val s
  len    : s.tasks.length = 2 + L.length
  main   : ∃ tk, s.tasks[1]? = some tk ∧ MainOK P d s L tk
  nodes  : ∀ j (h : j < L.length), ∃ tk, s.tasks[2 + j]? = some tk ∧ NodeTaskOK P d val s L[j] tk
  fresh  : ∀ n, n ∉ L → s.proc n = false ∧ s.res n = none
  hi     : i < L.length
  cP     : c.P = P
  ct     : c.t = 2 + i
  htk    : s.tasks[2 + i]? = some tk
  tkname : tk.name = .node (L[i]'hi) ∧ tk.mustCancel = false
  tasks1 : s1.tasks = s.tasks
  res1   : s1.res = s.res
  procO  : ∀ m, m ≠ L[i]'hi → s1.proc m = s.proc m
  procN  : s1.proc (L[i]'hi) = true
  quiet1 : Quiet s1

/-- terminal 1/2: the task suspends (awaits its body, sleeps, or is suspended by a collaborator) — it is not done -/
theorem node_step_suspend {P : Program} {d : DagRef} (hp : PlainP P d) {s s1 : St} {L : List Node} {i : Nat} {c : Ctx}
    {tk : Task} (x : NodeStepCtx P d val s s1 L i c tk) (fr : List Frame) (st : TaskSt) (s' : St)
    (hs' : s' = s1.setTask c.t { tk with frames := fr, st := st }) (hst : ∀ r, st ≠ .done r)
    (hnew : ∀ s'' : St, s''.proc (L[i]'x.hi) = true → s''.res (L[i]'x.hi) = s.res (L[i]'x.hi) →
      (∀ p, (s.res p).isSome = true → (s''.res p).isSome = true) →
      NodeTaskOK P d val s'' (L[i]'x.hi) { frames := fr, st := st, name := .node (L[i]'x.hi) }) :
    PInv P d val s' := by
  have hi := x.hi
  have hnd : ({ tk with frames := fr, st := st } : Task).isDone = false := by
    cases st with
    | done r => exact absurd rfl (hst r)
    | runnable _ => rfl
    | blocked _ => rfl
  apply pinv_node_step hp x.inv L x.len x.main x.nodes x.fresh i hi [] [] { tk with frames := fr, st := st }
  · rw [hs', map_wakeSet_nil, ← x.tasks1, x.ct]; rfl
  · rw [hs']; exact x.quiet1.of_eq rfl rfl rfl rfl rfl
  · intro p v hv
    rw [hs'] at hv
    have : s1.res p = some v := hv
    rw [x.res1] at this
    exact x.inv.noRecRes p v this
  · intro m hm; rw [hs']; exact x.procO m hm
  · intro m _; rw [hs']; show s1.res m = s.res m; rw [x.res1]
  · right; rw [hs']; show s1.res _ = s.res _; rw [x.res1]
  · have hpn : s'.proc (L[i]'hi) = true := by rw [hs']; exact x.procN
    have hrn : s'.res (L[i]'hi) = s.res (L[i]'hi) := by rw [hs']; show s1.res _ = _; rw [x.res1]
    have := hnew s' hpn hrn (by intro p hpp; rw [hs']; show (s1.res p).isSome = true; rw [x.res1]; exact hpp)
    obtain ⟨h1, h2⟩ := x.tkname
    have hrec : ({ tk with frames := fr, st := st } : Task) = { frames := fr, st := st, name := .node (L[i]'hi) } := by
      cases tk; simp_all
    rw [hrec]; exact this
  · intro m _ hd _; rw [hnd] at hd; cases hd
  · intro _ hd _; rw [hnd] at hd; cases hd
  · intro hor
    rcases hor with ⟨hd, _⟩ | ⟨e, he⟩
    · rw [hnd] at hd; cases hd
    · exact absurd he (hst _)

end MLPE.Eng

namespace MLPE.Eng
open MLPE
variable {val : Node → Option Val}

theorem run_mem_finallyKeys (P : Program) (d : DagRef) (n : Node) : Key.run ∈ finallyKeys P d n := by
  simp [finallyKeys]

theorem succ_mem_finallyKeys {P : Program} {d : DagRef} (hp : PlainP P d) (n m : Node) (h : n ∈ P.g.preds m) :
    Key.node m ∈ finallyKeys P d n := by
  have := succ_mem_desc1 P.g n m h hp.gne
  simp only [finallyKeys, List.mem_append, List.mem_map]
  exact Or.inl (Or.inl ⟨m, this, rfl⟩)

theorem out_mem_finallyKeys {P : Program} {d : DagRef} (hp : PlainP P d) : Key.node P.g.output ∈ finallyKeys P d P.g.output := by
  simp [finallyKeys, hp.dest]

theorem wakeSet_name (ks : List Key) (evs : List Node) (tk : Task) :
    (wakeSet ks evs tk).name = tk.name ∧ (wakeSet ks evs tk).mustCancel = tk.mustCancel ∧
    (wakeSet ks evs tk).frames = tk.frames := by
  obtain ⟨fr, st, mc, nm⟩ := tk
  cases st with
  | runnable rv => exact ⟨rfl, rfl, rfl⟩
  | done r => exact ⟨rfl, rfl, rfl⟩
  | blocked w =>
    cases w with
    | cond k => by_cases h : k ∈ ks <;> simp [wakeSet, h]
    | event n => by_cases h : n ∈ evs <;> simp [wakeSet, h]
    | gate a b c o => simp [wakeSet]
    | sleep a b c dl => simp [wakeSet]

/-- terminal 3/4: the node task ends (with a value stored, or with an exception) after the `finally` notifications.
(A) no value, exception `e`; (B) the value `v` is stored in this section, the task ends normally or the artifact store
raised; (C) the value was stored in an earlier section (the artifact store had suspended) and the task ends normally -/
theorem node_step_finish {P : Program} {d : DagRef} (hp : PlainP P d) {s s1 : St} {L : List Node} {i : Nat} {c : Ctx}
    {tk : Task} (x : NodeStepCtx P d val s s1 L i c tk) (s2 : St) (r : TaskRes) (obs : List Obs) (s' : St)
    (hs2 : (s.res (L[i]'x.hi) = none ∧ s2 = s1 ∧
              ∃ e, r = .exc e ∧ Track P d val (NodeFails P val (L[i]'x.hi) e ∨ CollabFails P e)) ∨
      (s.res (L[i]'x.hi) = none ∧ ∃ v, s2 = s1.setRes (L[i]'x.hi) v ∧ (v.isRecur = false ∧ v.isExc = false) ∧
        Track P d val (val (L[i]'x.hi) = some v) ∧ (r = .ok ∨ ∃ e, r = .exc e ∧ CollabFails P e)) ∨
      ((s.res (L[i]'x.hi)).isSome = true ∧ s2 = s1 ∧ r = .ok ∧ Track P d val (val (L[i]'x.hi) = s.res (L[i]'x.hi))))
    (hs' : s' = (endTask c (nodeFinally P s2 d (L[i]'x.hi) true) obs r).1) :
    PInv P d val s' := by
  have hi := x.hi
  have ht2 : s2.tasks = s.tasks := by
    rcases hs2 with ⟨_, h, _⟩ | ⟨_, v, h, _⟩ | ⟨_, h, _⟩ <;> rw [h] <;> exact x.tasks1
  have htf : (nodeFinally P s2 d L[i] true).tasks = s.tasks.map (wakeSet (finallyKeys P d L[i]) [L[i]]) := by
    rw [tasks_nodeFinally, ht2]
  have hcur : (nodeFinally P s2 d L[i] true).tasks[c.t]? = some (wakeSet (finallyKeys P d L[i]) [L[i]] tk) := by
    rw [htf, List.getElem?_map, x.ct, x.htk]; rfl
  have hend := end_tasks c (nodeFinally P s2 d L[i] true) obs r _ hcur
  obtain ⟨hf1, hf2, hf3, hf4, hf5, hf6, hf7, hf8⟩ := nodeFinally_fields P s2 d L[i] true
  obtain ⟨hn1, hn2, hn3⟩ := wakeSet_name (finallyKeys P d L[i]) [L[i]] tk
  obtain ⟨hk1, hk2⟩ := x.tkname
  have hres' : s'.res = s2.res := by rw [hs', hend]; exact hf1
  have hproc' : s'.proc = s2.proc := by rw [hs', hend]; exact hf3
  have hproc2 : s2.proc = s1.proc := by
    rcases hs2 with ⟨_, h, _⟩ | ⟨_, v, h, _⟩ | ⟨_, h, _⟩ <;> rw [h] <;> rfl
  have hq2 : Quiet s2 := by
    rcases hs2 with ⟨_, h, _⟩ | ⟨_, v, h, _⟩ | ⟨_, h, _⟩
    · rw [h]; exact x.quiet1
    · rw [h]
      refine ⟨fun n => ?_, x.quiet1.procHid, x.quiet1.opened, x.quiet1.sw, x.quiet1.addl, x.quiet1.hides, x.quiet1.pend, x.quiet1.stale⟩
      simp only [St.setRes, upd]
      split
      · rfl
      · exact x.quiet1.resHid n
    · rw [h]; exact x.quiet1
  have hresO : ∀ m, m ≠ L[i] → s2.res m = s.res m := by
    intro m hm
    rcases hs2 with ⟨_, h, _⟩ | ⟨_, v0, h, _⟩ | ⟨_, h, _⟩
    · rw [h, x.res1]
    · rw [h]; simp only [St.setRes, upd, hm, if_false]; rw [x.res1]
    · rw [h, x.res1]
  apply pinv_node_step hp x.inv L x.len x.main x.nodes x.fresh i hi (finallyKeys P d L[i]) [L[i]]
    { frames := [], st := .done r, name := .node L[i] }
  · rw [hs', hend]
    simp only [St.setTask, htf, x.ct]
    congr 1
    cases hw : wakeSet (finallyKeys P d L[i]) [L[i]] tk
    rw [hw] at hn1 hn2
    simp_all
  · rw [hs', hend]; exact hq2.of_eq hf2 hf4 hf5 hf6 hf7 (nodeFinally_hideCount P s2 d L[i] true).1 hf8
      (nodeFinally_stale P s2 d L[i] true)
  · intro p v hv
    rw [hres'] at hv
    rcases hs2 with ⟨_, h, _⟩ | ⟨_, v0, h, hv0, _⟩ | ⟨_, h, _⟩
    · rw [h, x.res1] at hv; exact x.inv.noRecRes p v hv
    · rw [h] at hv
      simp only [St.setRes, upd] at hv
      split at hv
      · cases hv; exact hv0
      · rw [x.res1] at hv; exact x.inv.noRecRes p v hv
    · rw [h, x.res1] at hv; exact x.inv.noRecRes p v hv
  · intro m hm; rw [hproc', hproc2]; exact x.procO m hm
  · intro m hm; rw [hres']; exact hresO m hm
  · rcases hs2 with ⟨h0, _⟩ | ⟨h0, _⟩ | ⟨_, h, _⟩
    · exact Or.inl h0
    · exact Or.inl h0
    · right; rw [hres', h, x.res1]
  · have hrn : s'.res L[i] = s2.res L[i] := by rw [hres']
    rcases hs2 with ⟨h0, h, e, he, htr⟩ | ⟨h0, v0, h, _, htr, he⟩ | ⟨h0, h, he, htr⟩
    · subst he
      refine .doneExc e (by rw [hproc', hproc2]; exact x.procN) ?_ htr
      rw [hrn, h, x.res1]; exact h0
    · rcases he with he | ⟨e, he, hce⟩
      · subst he
        refine .doneOk (by rw [hproc', hproc2]; exact x.procN) ?_ ?_
        · rw [hrn, h]; simp [St.setRes]
        · intro hsol; rw [hrn, h, htr hsol]; simp [St.setRes]
      · subst he
        refine .doneExcSaved e (by rw [hproc', hproc2]; exact x.procN) ?_ ?_ hce
        · rw [hrn, h]; simp [St.setRes]
        · intro hsol; rw [hrn, h, htr hsol]; simp [St.setRes]
    · subst he
      refine .doneOk (by rw [hproc', hproc2]; exact x.procN) ?_ ?_
      · rw [hrn, h, x.res1]; exact h0
      · intro hsol; rw [hrn, h, x.res1]; exact htr hsol
  · intro m hm _ _; exact succ_mem_finallyKeys hp _ m hm
  · intro ho _ _; rw [ho]; exact out_mem_finallyKeys hp
  · intro _; exact run_mem_finallyKeys P d _

end MLPE.Eng

namespace MLPE.Eng
open MLPE
variable {val : Node → Option Val}

/-- a call into a collaborator that does not raise: the continuation runs at once, or the task is suspended in the
callback (`mk j` is the per-task predicate of the suspended state with `j` yields left) -/
theorem cbThen_plain {P : Program} {d : DagRef} (hp : PlainP P d) {s s1 : St} {L : List Node} {i : Nat} {c : Ctx}
    {tk : Task} (x : NodeStepCtx P d val s s1 L i c tk) (obs : List Obs) (pc : Nat → NodePc) (m : Nat)
    (k : St → List Obs → Out) (hk : PInv P d val (k s1 obs).1)
    (mk : ∀ (j : Nat) (s'' : St), s''.proc (L[i]'x.hi) = true → s''.res (L[i]'x.hi) = s.res (L[i]'x.hi) →
      (∀ p, (s.res p).isSome = true → (s''.res p).isSome = true) →
      NodeTaskOK P d val s'' (L[i]'x.hi)
        { frames := [.node d (L[i]'x.hi) false (pc j)], st := .runnable .go, name := .node (L[i]'x.hi) }) :
    PInv P d val (cbThen c s1 obs (fun j => [.node d (L[i]'x.hi) false (pc j)]) m k).1 := by
  cases m with
  | zero => exact hk
  | succ j =>
    simp only [cbThen]
    rw [yield_tasks c s1 _ _ tk (by rw [x.tasks1, x.ct]; exact x.htk)]
    exact node_step_suspend hp x _ _ _ rfl (by intro r; simp) (mk j)

/-- a collaborator raised inside the node's coroutine before any value was stored -/
theorem node_cbraise_plain {P : Program} {d : DagRef} (hp : PlainP P d) {s s1 : St} {L : List Node} {i : Nat} {c : Ctx}
    {tk : Task} (x : NodeStepCtx P d val s s1 L i c tk) (hr0 : s.res (L[i]'x.hi) = none) (obs : List Obs) (e : Exc)
    (hce : CollabFails P e) : PInv P d val (nodeCbRaise c s1 obs d (L[i]'x.hi) [] e).1 := by
  simp only [nodeCbRaise, raiseOut, unwindFrames]
  exact node_step_finish hp x s1 (.exc e) _ _ (Or.inl ⟨hr0, rfl, e, rfl, fun _ => Or.inr hce⟩) (by rw [x.cP])

theorem node_cbraiseInTry_plain {P : Program} {d : DagRef} (hp : PlainP P d) {s s1 : St} {L : List Node} {i : Nat}
    {c : Ctx} {tk : Task} (x : NodeStepCtx P d val s s1 L i c tk) (hr0 : s.res (L[i]'x.hi) = none) (obs : List Obs)
    (e : Exc) (hce : CollabFails P e) : PInv P d val (nodeCbRaiseInTry c s1 obs d (L[i]'x.hi) [] e).1 := by
  simp only [nodeCbRaiseInTry]
  exact node_cbraise_plain hp x hr0 _ e hce

/-- `_run_node` after the artifact store returned: the `finally`, the task ends -/
theorem node_finish_plain {P : Program} {d : DagRef} (hp : PlainP P d) {s s1 : St} {L : List Node} {i : Nat} {c : Ctx}
    {tk : Task} (x : NodeStepCtx P d val s s1 L i c tk) (obs : List Obs)
    (hrs : (s.res (L[i]'x.hi)).isSome = true) (htr : Track P d val (val (L[i]'x.hi) = s.res (L[i]'x.hi))) :
    PInv P d val (nodeFinish c s1 obs d (L[i]'x.hi) []).1 := by
  simp only [nodeFinish, retTo]
  exact node_step_finish hp x s1 .ok _ _ (Or.inr (Or.inr ⟨hrs, rfl, rfl, htr⟩)) (by rw [x.cP])

/-- `_run_node` after `_execute_node` returned the value `v`: store, save (the store may suspend or raise), `finally` -/
theorem node_post_plain {P : Program} {d : DagRef} (hp : PlainP P d) {s s1 : St} {L : List Node} {i : Nat} {c : Ctx}
    {tk : Task} (x : NodeStepCtx P d val s s1 L i c tk) (hr0 : s.res (L[i]'x.hi) = none) (obs : List Obs) (v : Val)
    (hv : v.isRecur = false ∧ v.isExc = false) (htr : Track P d val (val (L[i]'x.hi) = some v)) :
    PInv P d val (nodePost c s1 obs d (L[i]'x.hi) [] v).1 := by
  simp only [nodePost, recSpawn, recSpawns, hv.1, hv.2, Bool.false_and, Bool.false_eq_true, if_false, storeIf, if_true,
    Bool.not_false, Bool.true_and, Bool.and_true, cbCall]
  cases hr2 : c.P.cbRaise .save (L[i]'x.hi) with
  | some e =>
    simp only [nodeCbRaise, raiseOut, unwindFrames]
    exact node_step_finish hp x (s1.setRes _ v) (.exc e) _ _
      (Or.inr (Or.inl ⟨hr0, v, rfl, hv, htr, Or.inr ⟨e, rfl, _, _, by rw [← x.cP]; exact hr2⟩⟩)) (by rw [x.cP])
  | none =>
    simp only []
    cases hy : c.P.cbYield .save (L[i]'x.hi) with
    | zero =>
      simp only [cbThen, nodeFinish, retTo]
      exact node_step_finish hp x (s1.setRes _ v) .ok _ _ (Or.inr (Or.inl ⟨hr0, v, rfl, hv, htr, Or.inl rfl⟩)) (by rw [x.cP])
    | succ j =>
      -- the store suspends: the value is stored, nobody is notified yet
      simp only [cbThen]
      have hcur : (s1.setRes (L[i]'x.hi) v).tasks[c.t]? = some tk := by
        show s1.tasks[c.t]? = some tk
        rw [x.tasks1, x.ct]; exact x.htk
      rw [yield_tasks c _ _ _ tk hcur]
      have hi := x.hi
      apply pinv_node_step hp x.inv L x.len x.main x.nodes x.fresh i hi [] []
        { tk with frames := [.node d (L[i]'x.hi) false (.cbSave j)], st := .runnable .go }
      · simp only [St.setTask, St.setRes, map_wakeSet_nil, ← x.tasks1, x.ct]
      · refine ⟨fun n => ?_, x.quiet1.procHid, x.quiet1.opened, x.quiet1.sw, x.quiet1.addl, x.quiet1.hides, x.quiet1.pend, x.quiet1.stale⟩
        simp only [St.setTask, St.setRes, upd]
        split
        · rfl
        · exact x.quiet1.resHid n
      · intro p w hw
        simp only [St.setTask, St.setRes, upd] at hw
        split at hw
        · cases hw; exact hv
        · rw [x.res1] at hw; exact x.inv.noRecRes p w hw
      · intro m hm; exact x.procO m hm
      · intro m hm
        simp only [St.setTask, St.setRes, upd, hm, if_false]
        rw [x.res1]
      · exact Or.inl hr0
      · obtain ⟨h1, h2⟩ := x.tkname
        have hrec : ({ tk with frames := [.node d (L[i]'x.hi) false (.cbSave j)], st := .runnable .go } : Task) =
            { frames := [.node d (L[i]'x.hi) false (.cbSave j)], st := .runnable .go, name := .node (L[i]'hi) } := by
          cases tk; simp_all
        rw [hrec]
        refine .cbSave j x.procN (by simp [St.setTask, St.setRes]) ?_
        intro hsol
        rw [htr hsol]; simp [St.setTask, St.setRes]
      · intro m _ hd _; simp [Task.isDone] at hd
      · intro _ hd _; simp [Task.isDone] at hd
      · intro hor
        rcases hor with ⟨hd, _⟩ | ⟨e, he⟩
        · simp [Task.isDone] at hd
        · simp at he

/-- a node of a plain run produced the value `v`: `on_node_complete(None)`, store, save, `finally`, task ends -/
theorem node_success_plain {P : Program} {d : DagRef} (hp : PlainP P d) {s s1 : St} {L : List Node} {i : Nat} {c : Ctx}
    {tk : Task} (x : NodeStepCtx P d val s s1 L i c tk) (hr0 : s.res (L[i]'x.hi) = none) (obs : List Obs) (v : Val)
    (hv : v.isRecur = false ∧ v.isExc = false) (htr : Track P d val (val (L[i]'x.hi) = some v)) :
    PInv P d val (nodeSuccess c s1 obs d (L[i]'x.hi) [] v).1 := by
  simp only [nodeSuccess, cbCall]
  cases hr1 : c.P.cbRaise .ncomplete (L[i]'x.hi) with
  | some e =>
    simp only []
    exact node_cbraiseInTry_plain hp x hr0 _ e ⟨_, _, by rw [← x.cP]; exact hr1⟩
  | none =>
    simp only []
    exact cbThen_plain hp x _ (fun j => .cbOk j v) _ _ (node_post_plain hp x hr0 _ v hv htr)
      (fun j s'' h1 h2 _ => .cbOk j v h1 (by rw [h2]; exact hr0) hv htr)

/-- `_execute_node`'s `except Exception` after its `on_node_complete(error)` returned: the exception propagates -/
theorem node_failCont_plain {P : Program} {d : DagRef} (hp : PlainP P d) {s s1 : St} {L : List Node} {i : Nat} {c : Ctx}
    {tk : Task} (x : NodeStepCtx P d val s s1 L i c tk) (hr0 : s.res (L[i]'x.hi) = none) (obs : List Obs) (e : Exc)
    (htr : Track P d val (NodeFails P val (L[i]'x.hi) e)) :
    PInv P d val (nodeFailCont c s1 obs d (L[i]'x.hi) [] e).1 := by
  simp only [nodeFailCont, hp.notOneof, Bool.false_eq_true, if_false, raiseOut, unwindFrames]
  exact node_step_finish hp x s1 (.exc e) _ _ (Or.inl ⟨hr0, rfl, e, rfl, fun hs => Or.inl (htr hs)⟩) (by rw [x.cP])

/-- a node of a plain run failed for good with `e` -/
theorem node_fail_plain {P : Program} {d : DagRef} (hp : PlainP P d) {s s1 : St} {L : List Node} {i : Nat} {c : Ctx}
    {tk : Task} (x : NodeStepCtx P d val s s1 L i c tk) (hr0 : s.res (L[i]'x.hi) = none) (obs : List Obs) (e : Exc)
    (htr : Track P d val (NodeFails P val (L[i]'x.hi) e)) :
    PInv P d val (nodeFail c s1 obs d (L[i]'x.hi) [] e).1 := by
  simp only [nodeFail, cbCall]
  cases hr1 : c.P.cbRaise .ncomplete (L[i]'x.hi) with
  | some e' =>
    simp only []
    exact node_cbraise_plain hp x hr0 _ e' ⟨_, _, by rw [← x.cP]; exact hr1⟩
  | none =>
    simp only []
    exact cbThen_plain hp x _ (fun j => .cbFail j e) _ _ (node_failCont_plain hp x hr0 _ e htr)
      (fun j s'' h1 h2 _ => .cbFail j e h1 (by rw [h2]; exact hr0) htr)

/-- after a retried attempt's `on_node_complete(error)`: sleep `delay` (a bare yield for 0) -/
theorem node_sleep_plain {P : Program} {d : DagRef} (hp : PlainP P d) {s s1 : St} {L : List Node} {i : Nat} {c : Ctx}
    {tk : Task} (x : NodeStepCtx P d val s s1 L i c tk) (hr0 : s.res (L[i]'x.hi) = none) (obs : List Obs)
    (k : Nat) (kw : Kwargs) (inv : Nat) (hnext : Track P d val (Att P val (L[i]'x.hi) (k + 1) kw inv)) :
    PInv P d val (nodeSleep c s1 obs d (L[i]'x.hi) false [] k kw inv).1 := by
  simp only [nodeSleep]
  split
  · rw [block_tasks c s1 _ _ _ tk (by rw [x.tasks1, x.ct]; exact x.htk)]
    exact node_step_suspend hp x _ _ _ rfl (by intro r; simp)
      (fun s'' h1 h2 _ => .sleeping k kw inv _ h1 (by rw [h2]; exact hr0) hnext)
  · rw [yield_tasks c s1 _ _ tk (by rw [x.tasks1, x.ct]; exact x.htk)]
    exact node_step_suspend hp x _ _ _ rfl (by intro r; simp)
      (fun s'' h1 h2 _ => .slept k kw inv h1 (by rw [h2]; exact hr0) hnext)

theorem node_afterBody_plain {P : Program} {d : DagRef} (hp : PlainP P d) {s s1 : St} {L : List Node} {i : Nat} {c : Ctx}
    {tk : Task} (x : NodeStepCtx P d val s s1 L i c tk) (hr0 : s.res (L[i]'x.hi) = none) (obs : List Obs) (k : Nat)
    (kw : Kwargs) (inv : Nat) (hatt : Track P d val (Att P val (L[i]'x.hi) k kw inv)) :
    PInv P d val (nodeAfterBody c s1 obs d (L[i]'x.hi) false [] k kw inv (P.body (L[i]'x.hi) kw inv k)).1 := by
  have hmem : L[i]'x.hi ∈ d.nodes := by
    obtain ⟨mtk, _, hmok⟩ := x.main
    exact hmok.mem_nodes (List.getElem_mem x.hi)
  -- the policy ends with the default
  have hdf : ∀ obs', Retry.decide (P.cfg (L[i]'x.hi)) k (P.body (L[i]'x.hi) kw inv k) = .done .default →
      PInv P d val (nodeDefault c s1 obs' d (L[i]'x.hi) [] kw).1 := by
    intro obs' hd
    rw [nodeDefault_of_none _ _ _ _ _ _ _ (by rw [x.cP]; exact hp.dfltOk _)]
    refine node_success_plain hp x hr0 _ _ (by rw [x.cP]; exact hp.noRecurD _ _) ?_
    intro hsol
    have a := hatt hsol
    rw [x.cP]
    exact hsol.value_of_final hmem a.preds (Or.inr ⟨a.final _ hd, by rw [a.kw_eq]⟩)
  have hfl : ∀ (_ : List Obs) (e : Exc), Retry.decide (P.cfg (L[i]'x.hi)) k (P.body (L[i]'x.hi) kw inv k) = .done (.failed e) →
      Track P d val (NodeFails P val (L[i]'x.hi) e) := by
    intro _ e hd hsol
    have a := hatt hsol
    exact ⟨a.preds, a.final _ hd⟩
  unfold nodeAfterBody
  cases ho : P.body (L[i]'x.hi) kw inv k with
  | ret v =>
    refine node_success_plain hp x hr0 obs v (hp.noRecur _ _ _ _ _ ho) ?_
    intro hsol
    have a := hatt hsol
    exact hsol.value_of_final hmem a.preds (Or.inl (a.final _ (by rw [ho]; rfl)))
  | raise e =>
    simp only []
    split
    · next hrt =>
      rw [x.cP] at hrt
      split
      · next hk =>
        rw [x.cP] at hk
        split
        · next hud => rw [x.cP] at hud; exact hdf _ (by rw [ho]; simp [Retry.decide, hrt, hk, hud])
        · next hud =>
          rw [x.cP] at hud
          exact node_fail_plain hp x hr0 _ e (hfl obs e (by rw [ho]; simp [Retry.decide, hrt, hk, hud]))
      · next hk =>
        rw [x.cP] at hk
        -- retried: on_node_complete(error), then sleep / yield
        have hnext : Track P d val (Att P val (L[i]'x.hi) (k + 1) kw inv) := by
          intro hsol
          exact (hatt hsol).next (by rw [ho]; simp [Retry.decide, hrt, hk])
        simp only [cbCall]
        cases hr1 : c.P.cbRaise .ncomplete (L[i]'x.hi) with
        | some e' =>
          simp only []
          exact node_cbraiseInTry_plain hp x hr0 _ e' ⟨_, _, by rw [← x.cP]; exact hr1⟩
        | none =>
          simp only []
          exact cbThen_plain hp x _ (fun j => .cbRetry j k kw inv) _ _ (node_sleep_plain hp x hr0 _ k kw inv hnext)
            (fun j s'' h1 h2 _ => .cbRetry j k kw inv h1 (by rw [h2]; exact hr0) hnext)
    · next hrt =>
      rw [x.cP] at hrt
      split
      · next hex =>
        split
        · next hud => rw [x.cP] at hud; exact hdf _ (by rw [ho]; simp [Retry.decide, hrt, hex, hud])
        · next hud =>
          rw [x.cP] at hud
          exact node_fail_plain hp x hr0 _ e (hfl obs e (by rw [ho]; simp [Retry.decide, hrt, hex, hud]))
      · next hex =>
        simp only [raiseOut, unwindFrames]
        exact node_step_finish hp x s1 (.exc e) _ _
          (Or.inl ⟨hr0, rfl, e, rfl, fun hs => Or.inl (hfl obs e (by rw [ho]; simp [Retry.decide, hrt, hex]) hs)⟩)
          (by rw [x.cP])

/-- one attempt: the body runs inline, or the task suspends until it completes -/
theorem node_attempt_plain {P : Program} {d : DagRef} (hp : PlainP P d) {s s1 : St} {L : List Node} {i : Nat} {c : Ctx}
    {tk : Task} (x : NodeStepCtx P d val s s1 L i c tk) (hr0 : s.res (L[i]'x.hi) = none) (obs : List Obs) (k : Nat)
    (kw : Kwargs) (inv : Nat) (hatt : Track P d val (Att P val (L[i]'x.hi) k kw inv)) :
    PInv P d val (nodeAttempt c s1 obs d (L[i]'x.hi) false [] k kw inv).1 := by
  simp only [nodeAttempt, Bool.false_eq_true, if_false, x.cP]
  split
  · exact node_afterBody_plain hp x hr0 (obs ++ [.body (L[i]'x.hi) inv k kw]) k kw inv hatt
  all_goals
    rw [block_tasks c s1 _ _ _ tk (by rw [x.tasks1, x.ct]; exact x.htk)]
    exact node_step_suspend hp x _ _ _ rfl (by intro r; simp)
      (fun s'' h1 h2 _ => .inBody k kw inv h1 (by rw [h2]; exact hr0) hatt)

end MLPE.Eng

namespace MLPE.Eng
open MLPE
variable {val : Node → Option Val}

theorem nodeKwargs_plain {P : Program} {d : DagRef} (hp : PlainP P d) (s : St) (hq : Quiet s)
    (hres : ∀ p v, s.res p = some v → v.isRecur = false ∧ v.isExc = false) (n : Node) :
    ∃ kw, nodeKwargs P s n = .ok kw := by
  have hput : ∀ (kw0 : Kwargs) (k : String) (u : Node), ∃ kw, kwPut kw0 k (s.getHid u) = .ok kw := by
    intro kw0 k u
    unfold St.getHid
    cases hr : s.res u with
    | none => exact ⟨_, rfl⟩
    | some v =>
      have := (hres u v hr).2
      cases v <;> simp [Val.isExc] at this <;> exact ⟨_, rfl⟩
  have hfold : ∀ (es : List Edge) (kw0 : Kwargs), ∃ kw, es.foldl (kwStep P s) (KwRes.ok kw0) = .ok kw := by
    intro es
    induction es with
    | nil => intro kw0; exact ⟨kw0, rfl⟩
    | cons e es ih =>
      intro kw0
      simp only [List.foldl_cons, kwStep]
      cases hk : e.kwarg with
      | none => exact ih kw0
      | some k =>
        simp only [hp.noSwitch, Bool.false_eq_true, if_false]
        obtain ⟨kw1, h1⟩ := hput kw0 k e.u
        rw [h1]; exact ih _
  have hb : ∃ kw, kwBase P s n = .ok kw := by
    unfold kwBase
    split
    · exact ⟨_, rfl⟩
    · exact hfold _ []
  obtain ⟨kw, hkw⟩ := hb
  exact ⟨kw, by simp [nodeKwargs, hkw, hq.addl]⟩

/-- results agree with the solution: every stored result was produced by a finished node task -/
theorem agree_of_nodes {P : Program} {d : DagRef} {s : St} {L : List Node}
    (hnodes : ∀ j (h : j < L.length), ∃ tk, s.tasks[2 + j]? = some tk ∧ NodeTaskOK P d val s L[j] tk)
    (hfresh : ∀ n, n ∉ L → s.proc n = false ∧ s.res n = none) (p : Node) (v : Val) (hv : s.res p = some v) :
    Track P d val (val p = some v) := by
  by_cases hp : p ∈ L
  · obtain ⟨j, hj, rfl⟩ := List.getElem_of_mem hp
    obtain ⟨tk, _, hok⟩ := hnodes j hj
    cases hok with
    | fresh _ h2 => rw [h2] at hv; cases hv
    | inBody _ _ _ _ h2 => rw [h2] at hv; cases hv
    | bodyDone _ _ _ _ h2 => rw [h2] at hv; cases hv
    | sleeping _ _ _ _ _ h2 => rw [h2] at hv; cases hv
    | slept _ _ _ _ h2 => rw [h2] at hv; cases hv
    | doneExc _ _ h2 => rw [h2] at hv; cases hv
    | cbStart _ _ _ h2 => rw [h2] at hv; cases hv
    | cbRetry _ _ _ _ _ h2 => rw [h2] at hv; cases hv
    | cbOk _ _ _ h2 => rw [h2] at hv; cases hv
    | cbFail _ _ _ h2 => rw [h2] at hv; cases hv
    | cbSave _ _ _ h3 => intro hsol; rw [h3 hsol, hv]
    | doneOk _ _ h3 => intro hsol; rw [h3 hsol, hv]
    | doneExcSaved _ _ _ h3 => intro hsol; rw [h3 hsol, hv]
  · rw [(hfresh p hp).2] at hv; cases hv

/-- with all sources available and agreeing with `val`, the engine's kwargs are the declared ones -/
theorem nodeKwargs_eq_kwFrom {P : Program} {d : DagRef} (hp : PlainP P d) (s : St) (hq : Quiet s) (n : Node)
    (hall : ∀ p ∈ P.g.preds n, ∃ v, s.res p = some v ∧ val p = some v ∧ v.isExc = false) :
    nodeKwargs P s n = .ok (kwFrom P val n) := by
  have hfold : ∀ (es : List Edge) (kw0 : Kwargs), (∀ e ∈ es, e.u ∈ P.g.preds n) →
      es.foldl (kwStep P s) (KwRes.ok kw0) = .ok (es.foldl (fun kw e => match e.kwarg with
        | some k => insertKw kw k ((val e.u).getD .none)
        | none => kw) kw0) := by
    intro es
    induction es with
    | nil => intro kw0 _; rfl
    | cons e es ih =>
      intro kw0 hmem
      simp only [List.foldl_cons, kwStep]
      obtain ⟨v, hv1, hv2, hv3⟩ := hall e.u (hmem e (by simp))
      cases hk : e.kwarg with
      | none => exact ih kw0 (fun e' he' => hmem e' (by simp [he']))
      | some k =>
        simp only [hp.noSwitch, Bool.false_eq_true, if_false]
        have hput : kwPut kw0 k (s.getHid e.u) = .ok (insertKw kw0 k ((val e.u).getD .none)) := by
          simp only [St.getHid, hv1, hv2, Option.getD_some]
          cases v <;> simp [Val.isExc] at hv3 <;> rfl
        rw [hput]
        exact ih _ (fun e' he' => hmem e' (by simp [he']))
  have hb : kwBase P s n = .ok (kwFrom P val n) := by
    unfold kwBase kwFrom
    split
    · rfl
    · apply hfold
      intro e he
      simp only [List.mem_filter] at he
      simp only [Graph.preds, List.mem_map, List.mem_filter]
      exact ⟨e, he, rfl⟩
  simp [nodeKwargs, hb, hq.addl]

theorem quiet_markProcessed {s : St} (h : Quiet s) (n : Node) : Quiet (s.markProcessed n) := by
  refine ⟨h.resHid, fun m => ?_, h.opened, h.sw, h.addl, h.hides, h.pend, h.stale⟩
  simp only [St.markProcessed, upd]
  split
  · rfl
  · exact h.procHid m

/-- `_execute_node` after `on_node_start` returned: the arguments, the first attempt -/
theorem node_begin_plain {P : Program} {d : DagRef} (hp : PlainP P d) {s s1 : St} {L : List Node} {i : Nat} {c : Ctx}
    {tk : Task} (x : NodeStepCtx P d val s s1 L i c tk) (hr0 : s.res (L[i]'x.hi) = none) (obs : List Obs) (inv : Nat)
    (hinv0 : inv = 0) (h3 : ∀ p ∈ P.g.preds (L[i]'x.hi), (s.res p).isSome = true) :
    PInv P d val (nodeBegin c s1 obs d (L[i]'x.hi) false [] inv).1 := by
  simp only [nodeBegin]
  have hres1 : ∀ p v, s1.res p = some v → v.isRecur = false ∧ v.isExc = false := by
    intro p v hv; rw [x.res1] at hv; exact x.inv.noRecRes p v hv
  obtain ⟨kw, hkw⟩ := nodeKwargs_plain hp s1 x.quiet1 hres1 (L[i]'x.hi)
  rw [x.cP, hkw]
  refine node_attempt_plain hp x hr0 _ 1 kw _ ?_
  intro hsol
  -- every source has a result that agrees with the solution
  have hall : ∀ p ∈ P.g.preds (L[i]'x.hi), ∃ v, s1.res p = some v ∧ val p = some v ∧ v.isExc = false := by
    intro p hpp
    have := h3 p hpp
    cases hr : s.res p with
    | none => rw [hr] at this; simp at this
    | some v => exact ⟨v, by rw [x.res1]; exact hr, agree_of_nodes x.nodes x.fresh p v hr hsol, (x.inv.noRecRes p v hr).2⟩
  have hkw' := nodeKwargs_eq_kwFrom hp s1 x.quiet1 (L[i]'x.hi) hall
  rw [hkw] at hkw'
  refine ⟨by injection hkw', ?_, hinv0, Nat.le_refl 1, Retry.attemptsEff_pos _, fun j h1 h2 => by omega⟩
  rw [List.all_eq_true]
  intro p hpp
  obtain ⟨v, _, hv, _⟩ := hall p hpp
  simp [hv]

/-- **every section of a node task preserves the invariant** -/
theorem pinv_step_node {P : Program} {d : DagRef} (hp : PlainP P d) {s : St} (h : PInv P d val s)
    (L : List Node) (hlen : s.tasks.length = 2 + L.length)
    (hmain : ∃ tk, s.tasks[1]? = some tk ∧ MainOK P d s L tk)
    (hnodes : ∀ j (h : j < L.length), ∃ tk, s.tasks[2 + j]? = some tk ∧ NodeTaskOK P d val s L[j] tk)
    (hfresh : ∀ n, n ∉ L → s.proc n = false ∧ s.res n = none)
    (i : Nat) (hi : i < L.length) (c : Ctx) (hcP : c.P = P) (hct : c.t = 2 + i) (out : Out)
    (hs : stepTask c s = some out) (hci : CoreInv s.core) : PInv P d val out.1 := by
  obtain ⟨tk, htk, hok⟩ := hnodes i hi
  have mk : ∀ (s1 : St) (tk0 : Task), s.tasks[2 + i]? = some tk0 → tk0.name = .node L[i] → tk0.mustCancel = false →
      s1.tasks = s.tasks → s1.res = s.res → (∀ m, m ≠ L[i] → s1.proc m = s.proc m) → s1.proc L[i] = true → Quiet s1 →
      NodeStepCtx P d val s s1 L i c tk0 :=
    fun s1 tk0 a1 a2 a3 a4 a5 a6 a7 a8 =>
      ⟨h, hlen, hmain, hnodes, hfresh, hi, hcP, hct, a1, ⟨a2, a3⟩, a4, a5, a6, a7, a8⟩
  unfold stepTask at hs
  rw [hct, htk] at hs
  cases hok with
  | fresh h1 h2 h3 =>
    simp only [Bool.false_eq_true, if_false] at hs
    obtain rfl := Option.some.inj hs
    have hpe : s.procExists L[i] = false := by simp [St.procExists, h1]
    have x := mk (s.markProcessed L[i]) _ htk rfl rfl rfl rfl
      (by intro m hm; simp [St.markProcessed, upd, hm]) (by simp [St.markProcessed]) (quiet_markProcessed h.quiet _)
    have hinv0 : s.invCount L[i] = 0 := by
      have := (hci L[i]).2
      simp only [St.core, h1, Bool.false_and, Bool.false_eq_true, false_or, h.quiet.hides] at this
      omega
    simp only [nodeStart, hpe, Bool.false_eq_true, if_false, cbCall]
    cases hr1 : c.P.cbRaise .nstart L[i] with
    | some e' =>
      simp only []
      exact node_cbraise_plain hp x h2 _ e' ⟨_, _, by rw [← hcP]; exact hr1⟩
    | none =>
      simp only []
      exact cbThen_plain hp x _ (fun j => .cbStart j (s.invCount L[i])) _ _
        (node_begin_plain hp x h2 _ _ hinv0 h3)
        (fun j s'' a1 a2 a3 => .cbStart j _ a1 (by rw [a2]; exact h2)
          (fun p hpp => a3 p (h3 p hpp)) hinv0)
  | inBody k kw inv h1 h2 => simp at hs
  | sleeping k kw inv dl h1 h2 => simp at hs
  | doneOk h1 => simp at hs
  | doneExc e h1 => simp at hs
  | doneExcSaved e h1 => simp at hs
  | bodyDone k kw inv h1 h2 h3 =>
    simp only [Bool.false_eq_true, if_false] at hs
    obtain rfl := Option.some.inj hs
    have x := mk s _ htk rfl rfl rfl rfl (fun _ _ => rfl) h1 h.quiet
    rw [hcP]
    exact node_afterBody_plain hp x h2 [] k kw inv h3
  | slept k kw inv h1 h2 h3 =>
    simp only [Bool.false_eq_true, if_false] at hs
    obtain rfl := Option.some.inj hs
    have x := mk s _ htk rfl rfl rfl rfl (fun _ _ => rfl) h1 h.quiet
    exact node_attempt_plain hp x h2 [] (k + 1) kw inv h3
  | cbStart j inv h1 h2 h3 h4 =>
    simp only [Bool.false_eq_true, if_false] at hs
    obtain rfl := Option.some.inj hs
    have x := mk s _ htk rfl rfl rfl rfl (fun _ _ => rfl) h1 h.quiet
    exact cbThen_plain hp x _ (fun j => .cbStart j inv) _ _ (node_begin_plain hp x h2 _ _ h4 h3)
      (fun j s'' a1 a2 a3 => .cbStart j _ a1 (by rw [a2]; exact h2) (fun p hpp => a3 p (h3 p hpp)) h4)
  | cbRetry j k kw inv h1 h2 h3 =>
    simp only [Bool.false_eq_true, if_false] at hs
    obtain rfl := Option.some.inj hs
    have x := mk s _ htk rfl rfl rfl rfl (fun _ _ => rfl) h1 h.quiet
    exact cbThen_plain hp x _ (fun j => .cbRetry j k kw inv) _ _ (node_sleep_plain hp x h2 _ k kw inv h3)
      (fun j s'' a1 a2 a3 => .cbRetry j k kw inv a1 (by rw [a2]; exact h2) h3)
  | cbOk j v h1 h2 h3 h4 =>
    simp only [Bool.false_eq_true, if_false] at hs
    obtain rfl := Option.some.inj hs
    have x := mk s _ htk rfl rfl rfl rfl (fun _ _ => rfl) h1 h.quiet
    exact cbThen_plain hp x _ (fun j => .cbOk j v) _ _ (node_post_plain hp x h2 _ v h3 h4)
      (fun j s'' a1 a2 a3 => .cbOk j v a1 (by rw [a2]; exact h2) h3 h4)
  | cbFail j e h1 h2 h3 =>
    simp only [Bool.false_eq_true, if_false] at hs
    obtain rfl := Option.some.inj hs
    have x := mk s _ htk rfl rfl rfl rfl (fun _ _ => rfl) h1 h.quiet
    exact cbThen_plain hp x _ (fun j => .cbFail j e) _ _ (node_failCont_plain hp x h2 _ e h3)
      (fun j s'' a1 a2 a3 => .cbFail j e a1 (by rw [a2]; exact h2) h3)
  | cbSave j h1 h2 h3 =>
    simp only [Bool.false_eq_true, if_false] at hs
    obtain rfl := Option.some.inj hs
    have x := mk s _ htk rfl rfl rfl rfl (fun _ _ => rfl) h1 h.quiet
    exact cbThen_plain hp x _ (fun j => .cbSave j) _ _ (node_finish_plain hp x _ h2 h3)
      (fun j s'' a1 a2 a3 => .cbSave j a1 (by rw [a2]; exact h2) (by rw [a2]; exact h3))

end MLPE.Eng

namespace MLPE.Eng
open MLPE
variable {val : Node → Option Val}

theorem MainOK.frame {P : Program} {d : DagRef} {s s' : St} {L : List Node} {tk : Task} (h : MainOK P d s L tk)
    (hp : s'.proc = s.proc) (hr : s'.res = s.res) (hS : ∀ n, Settled s' n → Settled s n) : MainOK P d s' L tk := by
  cases h with
  | init h1 h2 => exact .init h1 (by rw [hp]; exact h2)
  | launching rest h1 => exact .launching rest h1
  | waitNode m rest h1 h2 => exact .waitNode m rest h1 (fun hra => h2 (fun p hpm => hS p (hra p hpm)))
  | waitingDest h1 => exact .waitingDest h1
  | waitDest h1 h2 => exact .waitDest h1 (fun hst => h2 (hS _ hst))
  | done h1 h2 => exact .done h1 (by rw [hr]; exact h2)

theorem CallerOK.frame {P : Program} {s s' : St} {tk : Task} (h : CallerOK P s tk)
    (hl : s'.tasks.length = s.tasks.length) (he : NoErr s → NoErr s') (hS : ∀ n, Settled s' n → Settled s n) :
    CallerOK P s' tk := by
  cases h with
  | start mc h1 => exact .start mc (by rw [hl]; exact h1)
  | waiting h1 h2 h3 => exact .waiting (by rw [hl]; exact h1) (he h2) (fun hst => h3 (hS _ hst))
  | woken mc h1 => exact .woken mc (by rw [hl]; exact h1)
  | cbStart j mc h1 => exact .cbStart j mc (by rw [hl]; exact h1)

/-- the task list is transformed pointwise by a function that leaves the caller and the main task alone and keeps
every node task well-formed; nothing else changes -/
theorem pinv_map_tasks {P : Program} {d : DagRef} {s s' : St} (h : PInv P d val s) (F : Task → Task)
    (htasks : s'.tasks = s.tasks.map F) (hres : s'.res = s.res) (hproc : s'.proc = s.proc)
    (hq : Quiet s')
    (hC : ∀ tk, CallerOK P s tk → F tk = tk) (hM : ∀ L tk, MainOK P d s L tk → F tk = tk)
    (hN : ∀ n tk, NodeTaskOK P d val s n tk → NodeTaskOK P d val s n (F tk))
    (hE : ∀ tk e, (F tk).st = .done (.exc e) → tk.st = .done (.exc e))
    (hF : ∀ tk, (F tk).name = tk.name ∧ ((F tk).isDone = true → tk.isDone = true)) : PInv P d val s' := by
  have hS : ∀ n, Settled s' n → Settled s n := settled_map F hres htasks hF
  have hlen : s'.tasks.length = s.tasks.length := by rw [htasks]; simp
  have hget : ∀ j : Nat, s'.tasks[j]? = (s.tasks[j]?).map F := by intro j; rw [htasks, List.getElem?_map]
  have hne : NoErr s → NoErr s' := by
    intro h0 j tk e hj hst
    rw [hget j] at hj
    cases hs : s.tasks[j]? with
    | none => simp [hs] at hj
    | some tk0 => simp [hs] at hj; subst hj; exact h0 j tk0 e hs (hE tk0 e hst)
  have hnr : ∀ p v, s'.res p = some v → v.isRecur = false ∧ v.isExc = false := by
    intro p v hv; rw [hres] at hv; exact h.noRecRes p v hv
  refine ⟨hq, hnr, ?_, ?_⟩
  · obtain ⟨ctk, hc0, hcok⟩ := h.caller
    exact ⟨ctk, by rw [hget 0, hc0]; simp [hC ctk hcok], hcok.frame hlen hne hS⟩
  · rcases h.rest with ⟨h1, h2⟩ | ⟨L, hl, ⟨mtk, hm1, hmok⟩, hnodes, hfresh⟩
    · exact Or.inl ⟨by rw [hlen]; exact h1, fun n => by rw [hproc, hres]; exact h2 n⟩
    · refine Or.inr ⟨L, by rw [hlen]; exact hl, ⟨mtk, by rw [hget 1, hm1]; simp [hM L mtk hmok], hmok.frame hproc hres hS⟩, ?_, ?_⟩
      · intro j hj
        obtain ⟨tk, htk, hok⟩ := hnodes j hj
        exact ⟨F tk, by rw [hget (2 + j), htk]; rfl, (hN _ tk hok).frame' (by rw [hproc]) hres⟩
      · intro n hn; rw [hproc, hres]; exact hfresh n hn

/-- an external completion of a node body preserves the invariant -/
theorem pinv_step_gate {P : Program} {d : DagRef} {s : St} (h : PInv P d val s) (n inv att : Nat) (out : Out)
    (hs : step P s (.gate n inv att) = some out) : PInv P d val out.1 := by
  simp only [step] at hs
  split at hs
  · simp at hs
  · obtain rfl := Option.some.inj hs
    refine pinv_map_tasks (s' := { s with tasks := s.tasks.map (gateDone n inv att) }) h (gateDone n inv att)
      rfl rfl rfl (h.quiet.of_eq rfl rfl rfl rfl rfl) ?_ ?_ ?_ ?_ ?_
    · intro tk hc; cases hc <;> rfl
    · intro L tk hm; cases hm <;> rfl
    · intro m tk hn
      cases hn with
      | inBody k kw inv' h1 h2 h3 =>
        simp only [gateDone]
        split
        · exact .bodyDone k kw inv' h1 h2 h3
        · exact .inBody k kw inv' h1 h2 h3
      | fresh h1 h2 h3 => exact .fresh h1 h2 h3
      | bodyDone k kw inv' h1 h2 h3 => exact .bodyDone k kw inv' h1 h2 h3
      | sleeping k kw inv' dl h1 h2 h3 => exact .sleeping k kw inv' dl h1 h2 h3
      | slept k kw inv' h1 h2 h3 => exact .slept k kw inv' h1 h2 h3
      | doneOk h0 h1 h3 => exact .doneOk h0 h1 h3
      | doneExc e h0 h1 h3 => exact .doneExc e h0 h1 h3
      | doneExcSaved e h0 h1 h3 h4 => exact .doneExcSaved e h0 h1 h3 h4
      | cbStart j inv' h1 h2 h3 h4 => exact .cbStart j inv' h1 h2 h3 h4
      | cbRetry j k kw inv' h1 h2 h3 => exact .cbRetry j k kw inv' h1 h2 h3
      | cbOk j v h1 h2 h3 h4 => exact .cbOk j v h1 h2 h3 h4
      | cbFail j e h1 h2 h3 => exact .cbFail j e h1 h2 h3
      | cbSave j h1 h2 h3 => exact .cbSave j h1 h2 h3
    · intro tk e he
      obtain ⟨fr, st, mc, nm⟩ := tk
      cases st with
      | runnable rv => simpa [gateDone] using he
      | done r => simpa [gateDone] using he
      | blocked w =>
        cases w with
        | gate a b c o => simp only [gateDone] at he; split at he <;> simp at he
        | cond k => simp [gateDone] at he
        | event k => simp [gateDone] at he
        | sleep a b c dl => simp [gateDone] at he
    · intro tk
      obtain ⟨fr, st, mc, nm⟩ := tk
      cases st with
      | runnable rv => exact ⟨rfl, fun h => h⟩
      | done r => exact ⟨rfl, fun h => h⟩
      | blocked w =>
        cases w with
        | gate a b c o =>
          simp only [gateDone]
          split
          · exact ⟨rfl, fun h => by simp [Task.isDone] at h⟩
          · exact ⟨rfl, fun h => h⟩
        | cond k => exact ⟨rfl, fun h => h⟩
        | event k => exact ⟨rfl, fun h => h⟩
        | sleep a b c dl => exact ⟨rfl, fun h => h⟩

end MLPE.Eng

namespace MLPE.Eng
open MLPE
variable {val : Node → Option Val}

/-! ### steps of the main task: the launch loop -/

/-- the invariant with the main task's own predicate left open (it is being stepped) -/
structure PInvX (P : Program) (d : DagRef) (val : Node → Option Val) (s : St) (L : List Node) : Prop where
  quiet    : Quiet s
  noRecRes : ∀ p v, s.res p = some v → v.isRecur = false ∧ v.isExc = false
  caller   : ∃ tk, s.tasks[0]? = some tk ∧ CallerOK P s tk
  len      : s.tasks.length = 2 + L.length
  mainTk   : ∃ tk, s.tasks[1]? = some tk ∧ tk.name = .run ∧ tk.mustCancel = false ∧ ∀ e, tk.st ≠ .done (.exc e)
  nodes    : ∀ i (h : i < L.length), ∃ tk, s.tasks[2 + i]? = some tk ∧ NodeTaskOK P d val s L[i] tk
  fresh    : ∀ n, n ∉ L → s.proc n = false ∧ s.res n = none

theorem noErr_setTask {s : St} (h : NoErr s) (t : Nat) (tk' : Task) (hne : ∀ e, tk'.st ≠ .done (.exc e)) :
    NoErr (s.setTask t tk') := by
  intro j tk e hj hst
  simp only [St.setTask] at hj
  by_cases hjt : j = t
  · subst hjt
    by_cases hlt : j < s.tasks.length
    · rw [List.getElem?_set_self hlt] at hj
      cases hj; exact hne e hst
    · rw [List.getElem?_eq_none (by simp; omega)] at hj; cases hj
  · rw [List.getElem?_set_ne (Ne.symm hjt)] at hj
    exact h j tk e hj hst

/-- closing the invariant again once the main task has been given its new frames / state -/
theorem PInvX.close {P : Program} {d : DagRef} {s : St} {L : List Node} (x : PInvX P d val s L) (tk' : Task)
    (hne : ∀ e, tk'.st ≠ .done (.exc e)) (hm : MainOK P d s L tk') : PInv P d val (s.setTask 1 tk') := by
  have hS : ∀ n, Settled (s.setTask 1 tk') n → Settled s n := by
    intro n
    apply settled_setTask_name
    intro m; cases hm <;> simp
  have hget : ∀ j : Nat, j ≠ 1 → (s.setTask 1 tk').tasks[j]? = s.tasks[j]? := by
    intro j hj; simp [St.setTask, List.getElem?_set_ne (Ne.symm hj)]
  refine ⟨x.quiet.of_eq rfl rfl rfl rfl rfl, x.noRecRes, ?_, Or.inr ⟨L, by simp [x.len], ?_, ?_, x.fresh⟩⟩
  · obtain ⟨ctk, hc0, hcok⟩ := x.caller
    exact ⟨ctk, by rw [hget 0 (by omega)]; exact hc0,
      hcok.frame (by simp) (fun h0 => noErr_setTask h0 1 tk' hne) hS⟩
  · refine ⟨tk', ?_, hm.frame rfl rfl hS⟩
    simp only [St.setTask]
    rw [List.getElem?_set_self (by rw [x.len]; omega)]
  · intro i hi
    obtain ⟨tk, htk, hok⟩ := x.nodes i hi
    exact ⟨tk, by rw [hget (2 + i) (by omega)]; exact htk, hok.frame' rfl rfl⟩

theorem PInvX.spawnNode {P : Program} {d : DagRef} {s : St} {L : List Node} (x : PInvX P d val s L) (m : Node)
    (hm : m ∉ L) (hrdy : ∀ p ∈ P.g.preds m, (s.res p).isSome = true) : PInvX P d val (spawn s [.node d m false .start] (.node m)).1 (L ++ [m]) := by
  have hget : ∀ j : Nat, j < s.tasks.length → (spawn s [.node d m false .start] (.node m)).1.tasks[j]? = s.tasks[j]? := by
    intro j hj; simp [spawn, List.getElem?_append_left hj]
  have hne : NoErr s → NoErr (spawn s [.node d m false .start] (.node m)).1 := by
    intro h0 j tk e hj hst
    simp only [spawn] at hj
    by_cases hlt : j < s.tasks.length
    · rw [List.getElem?_append_left hlt] at hj; exact h0 j tk e hj hst
    · rw [List.getElem?_append_right (by omega)] at hj
      by_cases h0' : j - s.tasks.length = 0
      · rw [h0'] at hj; simp at hj; subst hj; simp at hst
      · rw [List.getElem?_eq_none (by simp; omega)] at hj; cases hj
  obtain ⟨fp, fr⟩ := x.fresh m hm
  refine ⟨x.quiet.of_eq rfl rfl rfl rfl rfl, x.noRecRes, ?_, by simp [spawn, x.len]; omega, ?_, ?_, ?_⟩
  · obtain ⟨ctk, hc0, hcok⟩ := x.caller
    refine ⟨ctk, by rw [hget 0 (by rw [x.len]; omega)]; exact hc0, ?_⟩
    cases hcok with
    | start mc h1 => rw [x.len] at h1; omega
    | cbStart j mc h1 => rw [x.len] at h1; omega
    | waiting h1 h2 h3 => exact .waiting (by simp [spawn]; omega) (hne h2) (fun hst => h3 (settled_spawn _ _ _ hst))
    | woken mc h1 => exact .woken mc (by simp [spawn]; omega)
  · obtain ⟨tk, h1, h2⟩ := x.mainTk
    exact ⟨tk, by rw [hget 1 (by rw [x.len]; omega)]; exact h1, h2⟩
  · intro i hi
    by_cases hil : i < L.length
    · obtain ⟨tk, htk, hok⟩ := x.nodes i hil
      refine ⟨tk, by rw [hget (2 + i) (by rw [x.len]; omega)]; exact htk, ?_⟩
      have : (L ++ [m])[i] = L[i] := by simp [List.getElem_append_left hil]
      rw [this]; exact hok.frame' rfl rfl
    · have hie : i = L.length := by simp at hi; omega
      subst hie
      refine ⟨{ frames := [.node d m false .start], st := .runnable .go, name := .node m }, ?_, ?_⟩
      · simp only [spawn]
        rw [List.getElem?_append_right (by rw [x.len]; omega)]
        simp [x.len]
      · have : (L ++ [m])[L.length] = m := by simp
        rw [this]; exact .fresh fp fr hrdy
  · intro n hn
    simp only [List.mem_append, List.mem_singleton, not_or] at hn
    exact x.fresh n hn.1

end MLPE.Eng

namespace MLPE.Eng
open MLPE
variable {val : Node → Option Val}

theorem PInv.toX {P : Program} {d : DagRef} {s : St} (h : PInv P d val s) (L : List Node)
    (hl : s.tasks.length = 2 + L.length) (mtk : Task) (hm1 : s.tasks[1]? = some mtk) (hmok : MainOK P d s L mtk)
    (hnodes : ∀ i (h : i < L.length), ∃ tk, s.tasks[2 + i]? = some tk ∧ NodeTaskOK P d val s L[i] tk)
    (hfresh : ∀ n, n ∉ L → s.proc n = false ∧ s.res n = none) : PInvX P d val s L := by
  refine ⟨h.quiet, h.noRecRes, h.caller, hl, ⟨mtk, hm1, ?_⟩, hnodes, hfresh⟩
  cases hmok <;> exact ⟨rfl, rfl, by intro e; simp⟩

/-- `_run_dag`: the final wait for the destination -/
theorem waitDest_plain {P : Program} {d : DagRef} (hp : PlainP P d) {s : St} {L : List Node} (x : PInvX P d val s L)
    (c : Ctx) (hct : c.t = 1) (obs : List Obs) (ht : TopoOrd P d L) : PInv P d val (dagWaitDest c s obs d []).1 := by
  obtain ⟨mtk, hm1, hname, hmc, _⟩ := x.mainTk
  have hm1' : s.tasks[c.t]? = some mtk := by rw [hct]; exact hm1
  simp only [dagWaitDest, hp.dest]
  split
  · next hex =>
    simp only [retTo]
    rw [end_tasks c s obs .ok mtk hm1', hct]
    have : ({ mtk with frames := [], st := .done .ok, mustCancel := false } : Task)
        = { frames := [], st := .done .ok, name := .run } := by cases mtk; simp_all
    rw [this]
    refine x.close _ (by intro e; simp) (.done ht ?_)
    simp only [St.exists, Bool.and_eq_true] at hex
    exact hex.1
  · next hex =>
    rw [block_tasks c s obs _ _ mtk hm1', hct]
    have : ({ mtk with frames := [.dagWaitDest d], st := .blocked (.cond (.node P.g.output)) } : Task)
        = { frames := [.dagWaitDest d], st := .blocked (.cond (.node P.g.output)), name := .run } := by
      cases mtk; simp_all
    rw [this]
    refine x.close _ (by intro e; simp) (.waitDest ht ?_)
    simp only [St.exists, x.quiet.resHid, Bool.not_false, Bool.and_true] at hex
    apply not_settled_of_res_none
    cases hr : s.res P.g.output <;> simp_all

/-- `_run_dag`: the launch loop, from any point of the order -/
theorem launch_plain {P : Program} {d : DagRef} (hp : PlainP P d) (c : Ctx) (hcP : c.P = P) (hct : c.t = 1) :
    ∀ (rest : List Node) (s : St) (L : List Node) (obs : List Obs), PInvX P d val s L → TopoOrd P d (L ++ rest) →
      PInv P d val (dagLaunch c d [] s obs rest).1 := by
  intro rest
  induction rest with
  | nil =>
    intro s L obs x ht
    simp only [dagLaunch]
    exact waitDest_plain hp x c hct obs (by simpa using ht)
  | cons m rest ih =>
    intro s L obs x ht
    obtain ⟨mtk, hm1, hname, hmc, _⟩ := x.mainTk
    have hm1' : s.tasks[c.t]? = some mtk := by rw [hct]; exact hm1
    have hr : ready c.P s d m = readyP P s m := by rw [hcP]; exact ready_plain hp x.quiet (fun p v h => (x.noRecRes p v h).1) m
    simp only [dagLaunch, hr, hp.notOneof, Bool.false_and, Bool.false_eq_true, if_false]
    split
    · next hrd =>
      have hmL : m ∉ L := by
        have := ht.nodup
        rw [List.nodup_append] at this
        intro hmem
        exact this.2.2 m hmem m (by simp) rfl
      have hlf : launchFrame c.P d m = .node d m false .start := by
        simp [launchFrame, hcP, hp.noSwitch, hp.noHead]
      rw [hlf]
      have x' := x.spawnNode m hmL (by
        intro p hpp
        unfold readyP at hrd
        rw [List.all_eq_true] at hrd
        exact hrd p hpp)
      exact ih _ (L ++ [m]) _ x' (by simpa using ht)
    · next hnr =>
      rw [block_tasks c s obs _ _ mtk hm1', hct]
      have : ({ mtk with frames := [.dagLaunch d (m :: rest)], st := .blocked (.cond (.node m)) } : Task)
          = { frames := [.dagLaunch d (m :: rest)], st := .blocked (.cond (.node m)), name := .run } := by
        cases mtk; simp_all
      rw [this]
      exact x.close _ (by intro e; simp) (.waitNode m rest ht (not_readyA_of_not_readyP (by simpa [readyP] using hnr)))

end MLPE.Eng

namespace MLPE.Eng
open MLPE
variable {val : Node → Option Val}

/-- the launch order the model accepts from the oracle is a topological enumeration of the DAG -/
theorem topoOrd_of_validOrder {P : Program} {d : DagRef} (hp : PlainP P d) {s : St} (hq : Quiet s)
    (hproc : ∀ n, s.proc n = false) (ord : List Node) (h : validOrder P s d ord = true) : TopoOrd P d ord := by
  have hex : expectedOrder P s d = d.nodes := by
    unfold expectedOrder
    simp [hp.notRec, St.procExists, hproc]
  unfold validOrder at h
  simp only [hex, Bool.and_eq_true, List.all_eq_true, decide_eq_true_eq, beq_iff_eq] at h
  obtain ⟨⟨⟨⟨_, h1⟩, h2⟩, h3⟩, h4⟩ := h
  have hsame : ∀ n, n ∈ ord ↔ n ∈ d.nodes := by
    intro n
    constructor
    · intro hn; simpa using h1 n hn
    · intro hn; simpa using h2 n hn
  refine ⟨h3, hsame, ?_⟩
  intro n hn p hpn
  simp only [Graph.preds, List.mem_map, List.mem_filter] at hpn
  obtain ⟨e, ⟨he, hv⟩, hu⟩ := hpn
  have hv' : e.v = n := by simpa using hv
  have hpo : p ∈ ord := (hsame p).mpr (hp.predsIn n ((hsame n).mp hn) p (by
    simp only [Graph.preds, List.mem_map, List.mem_filter]; exact ⟨e, ⟨he, hv⟩, hu⟩))
  have := h4 e he
  rw [hu, hv'] at this
  have hnc := hp.noCand e he
  rw [hu, hv'] at hnc
  have hnm : p ∉ (P.g.attr n).oneofNodes := by
    intro hm; rw [List.contains_iff_mem.mpr hm] at hnc; cases hnc
  simpa [List.contains_iff_mem, hpo, hn, hp.notRec, hp.noCase e he, hnm] using this

/-- **every section of the main `_run_dag` task preserves the invariant** -/
theorem pinv_step_main {P : Program} {d : DagRef} (hp : PlainP P d) {s : St} (h : PInv P d val s)
    (L : List Node) (hlen : s.tasks.length = 2 + L.length) (mtk : Task) (hm1 : s.tasks[1]? = some mtk)
    (hmok : MainOK P d s L mtk)
    (hnodes : ∀ j (h : j < L.length), ∃ tk, s.tasks[2 + j]? = some tk ∧ NodeTaskOK P d val s L[j] tk)
    (hfresh : ∀ n, n ∉ L → s.proc n = false ∧ s.res n = none)
    (c : Ctx) (hcP : c.P = P) (hct : c.t = 1) (out : Out) (hs : stepTask c s = some out)
    (horacle : ∀ d', mtk.frames = [.dagInit d'] → validOrder P s d' c.ord = true) : PInv P d val out.1 := by
  have x := h.toX L hlen mtk hm1 hmok hnodes hfresh
  unfold stepTask at hs
  rw [hct, hm1] at hs
  cases hmok with
  | init h1 h2 =>
    simp only [Bool.false_eq_true, if_false] at hs
    obtain rfl := Option.some.inj hs
    have ht := topoOrd_of_validOrder hp h.quiet h2 c.ord (by rw [← hcP]; exact (horacle d rfl) ▸ (by rw [hcP]))
    subst h1
    have hvo : validOrder c.P s d c.ord = true := by rw [hcP]; exact horacle d rfl
    simp only [dagInit, refresh_of_nil h.quiet.stale, hvo, noteOrder_true, if_true]
    split
    · next hnil =>
      -- the order cannot be empty: the output node is in it
      have := (ht.same P.g.output).mpr hp.outIn
      rw [hnil] at this; simp at this
    · exact launch_plain hp c hcP hct _ s [] _ x (by simpa using ht)
  | launching rest h1 =>
    simp only [Bool.false_eq_true, if_false] at hs
    obtain rfl := Option.some.inj hs
    exact launch_plain hp c hcP hct rest s L [] x h1
  | waitingDest h1 =>
    simp only [Bool.false_eq_true, if_false] at hs
    obtain rfl := Option.some.inj hs
    exact waitDest_plain hp x c hct [] h1
  | waitNode m rest h1 h2 => simp at hs
  | waitDest h1 h2 => simp at hs
  | done h1 h2 => simp at hs

end MLPE.Eng

namespace MLPE.Eng
open MLPE
variable {val : Node → Option Val}

/-- replacing the caller's task entry (its own step, or a cancellation request) -/
theorem pinv_replace_caller {P : Program} {d : DagRef} {s : St} (h : PInv P d val s) (ctk' : Task)
    (hc : CallerOK P (s.setTask 0 ctk') ctk') : PInv P d val (s.setTask 0 ctk') := by
  have hS : ∀ n, Settled (s.setTask 0 ctk') n → Settled s n := by
    intro n
    apply settled_setTask_name
    intro m; cases hc <;> simp
  have hget : ∀ j : Nat, j ≠ 0 → (s.setTask 0 ctk').tasks[j]? = s.tasks[j]? := by
    intro j hj; simp [St.setTask, List.getElem?_set_ne (Ne.symm hj)]
  obtain ⟨ctk, hc0, _⟩ := h.caller
  have hlt : 0 < s.tasks.length := getElem?_lt hc0
  refine ⟨h.quiet.of_eq rfl rfl rfl rfl rfl, h.noRecRes, ⟨ctk', ?_, hc⟩, ?_⟩
  · simp only [St.setTask]; rw [List.getElem?_set_self hlt]
  · rcases h.rest with ⟨h1, h2⟩ | ⟨L, hl, ⟨mtk, hm1, hmok⟩, hnodes, hfresh⟩
    · exact Or.inl ⟨by simp [h1], h2⟩
    · refine Or.inr ⟨L, by simp [hl], ⟨mtk, by rw [hget 1 (by omega)]; exact hm1, hmok.frame rfl rfl hS⟩, ?_, hfresh⟩
      intro i hi
      obtain ⟨tk, htk, hok⟩ := hnodes i hi
      exact ⟨tk, by rw [hget (2 + i) (by omega)]; exact htk, hok.frame' rfl rfl⟩

theorem noErr_of_isEmpty {s : St} (h : (taskErrors s).isEmpty = true) : NoErr s := by
  rw [noErr_iff]; simpa using h

/-- what an outcome of `chart.run` means in terms of the dataflow solution (`s` = the state the caller's last
section started in) -/
def OutcomeOK (P : Program) (d : DagRef) (val : Node → Option Val) (s : St) : Outcome → Prop
  | .value v => Track P d val (val P.g.output = some v)
  | .error e => e.isException = true ∧ Track P d val (FailCause P d val e)
  | .raised e => CollabFails P e ∨ (e.isException = false ∧ Track P d val (FailCause P d val e))
  | .cancelled => ∃ tk, s.tasks[0]? = some tk ∧ tk.mustCancel = true

/-- a task error of a plain run is the failure of a launched node -/
theorem taskError_is_node_failure {P : Program} {d : DagRef} {s : St} (h : PInv P d val s) (e : Exc)
    (he : e ∈ taskErrors s) : Track P d val (FailCause P d val e) := by
  unfold taskErrors at he
  rw [List.mem_filterMap] at he
  obtain ⟨tk, htk, hst⟩ := he
  obtain ⟨j, hj, hjt⟩ := List.getElem_of_mem htk
  have hst' : tk.st = .done (.exc e) := by
    cases hh : tk.st with
    | done r => cases r <;> simp [hh] at hst; subst hst; rfl
    | runnable _ => simp [hh] at hst
    | blocked _ => simp [hh] at hst
  have hget : s.tasks[j]? = some tk := by simp [hj, hjt]
  obtain ⟨ctk, hc0, hcok⟩ := h.caller
  rcases h.rest with ⟨h1, _⟩ | ⟨L, hl, ⟨mtk, hm1, hmok⟩, hnodes, hfresh⟩
  · have : j = 0 := by omega
    subst this
    rw [hc0] at hget; cases hget
    cases hcok <;> simp at hst'
  · by_cases hj0 : j = 0
    · subst hj0; rw [hc0] at hget; cases hget
      cases hcok <;> simp at hst'
    · by_cases hj1 : j = 1
      · subst hj1; rw [hm1] at hget; cases hget
        cases hmok <;> simp at hst'
      · obtain ⟨i, rfl⟩ : ∃ i, j = 2 + i := ⟨j - 2, by omega⟩
        have hi : i < L.length := by omega
        obtain ⟨tk0, htk0, hok⟩ := hnodes i hi
        rw [htk0] at hget; cases hget
        cases hok with
        | doneExc e' _ _ h3 =>
          simp at hst'
          subst hst'
          intro hsol
          rcases h3 hsol with h4 | h4
          · exact Or.inl ⟨L[i], hmok.mem_nodes (List.getElem_mem hi), h4⟩
          · exact Or.inr h4
        | doneExcSaved e' _ _ _ h4 =>
          simp at hst'
          subst hst'
          intro _
          exact Or.inr h4
        | fresh => simp at hst'
        | inBody => simp at hst'
        | bodyDone => simp at hst'
        | sleeping => simp at hst'
        | slept => simp at hst'
        | doneOk => simp at hst'
        | cbStart => simp at hst'
        | cbRetry => simp at hst'
        | cbOk => simp at hst'
        | cbFail => simp at hst'
        | cbSave => simp at hst'

theorem getElem?_setTask_ne' (s : St) (t i : Nat) (tk : Task) (h : i ≠ t) :
    (s.setTask t tk).tasks[i]? = s.tasks[i]? := by
  simp [St.setTask, List.getElem?_set_ne (Ne.symm h)]

theorem cancelTasks_other (s : St) (ts : List Nat) (t : Nat) (h : t ∉ ts) : (cancelTasks s ts).tasks[t]? = s.tasks[t]? := by
  induction ts generalizing s with
  | nil => rfl
  | cons a ts ih =>
    simp only [cancelTasks, List.foldl]
    have h1 : t ≠ a := fun e => h (by simp [e])
    have h2 : t ∉ ts := fun e => h (by simp [e])
    have := ih (cancelTask s a) h2
    simp only [cancelTasks] at this
    rw [this, cancelTask_tasks]
    cases s.tasks[a]? with
    | none => rfl
    | some tk0 => simp [List.getElem?_set_ne (Ne.symm h1)]

theorem outcome_cancelTasks (s : St) (ts : List Nat) : (cancelTasks s ts).outcome = s.outcome := by
  induction ts generalizing s with
  | nil => rfl
  | cons a ts ih =>
    simp only [cancelTasks, List.foldl]
    have := ih (cancelTask s a)
    simp only [cancelTasks] at this
    rw [this]
    unfold cancelTask
    split
    · rfl
    · split <;> rfl

theorem frames_cancelTasks (ts : List Nat) : ∀ (s : St) (i : Nat),
    ((cancelTasks s ts).tasks[i]?).map Task.frames = (s.tasks[i]?).map Task.frames := by
  induction ts with
  | nil => intro s i; rfl
  | cons a ts ih =>
    intro s i
    simp only [cancelTasks, List.foldl]
    have := ih (cancelTask s a) i
    simp only [cancelTasks] at this
    rw [this, cancelTask_tasks]
    cases ha : s.tasks[a]? with
    | none => rfl
    | some tk0 =>
      simp only []
      by_cases hia : i = a
      · subst hia
        rw [List.getElem?_set_self (getElem?_lt ha), ha]
        simp only [Option.map_some, cancelled]
        cases tk0.st <;> rfl
      · rw [List.getElem?_set_ne (Ne.symm hia)]

/-- `chart.run` wraps the outcome and calls `on_pipeline_complete`: it returns (the outcome, or the collaborator's
exception), or the callback suspends -/
theorem mgrComplete_result {P : Program} (c : Ctx) (hcP : c.P = P) (s0 : St) (obs : List Obs) (o : Outcome) :
    (∃ o', (mgrComplete c s0 obs o).1.outcome = some o' ∧ (o' = o ∨ ∃ e, o' = .raised e ∧ CollabFails P e)) ∨
    (∃ j, mgrComplete c s0 obs o = yieldNow c s0 (obs ++ [.pcomplete o]) [.mgrCbComplete j o]) := by
  have hret : ∀ s0 obs o, (mgrReturn c s0 obs o).1.outcome = some o := by
    intro s0 obs o; simp [mgrReturn, St.setOutcome]
  unfold mgrComplete
  split
  · exact Or.inl ⟨_, hret _ _ _, Or.inl rfl⟩
  · simp only [cbCall]
    cases hr1 : c.P.cbRaise .pcomplete 0 with
    | some e => exact Or.inl ⟨_, hret _ _ _, Or.inr ⟨e, rfl, _, _, by rw [← hcP]; exact hr1⟩⟩
    | none =>
      simp only []
      cases hy : c.P.cbYield .pcomplete 0 with
      | zero => exact Or.inl ⟨_, hret _ _ _, Or.inl rfl⟩
      | succ j => exact Or.inr ⟨j, rfl⟩

/-- **the finishing phase**: `manager.run` has left (its cleanup has cancel-marked every other task), the outcome `o` is
decided and explained, and the caller is suspended in `on_pipeline_complete` -/
structure Fin (P : Program) (d : DagRef) (val : Node → Option Val) (o : Outcome) (s : St) : Prop where
  ok     : ∀ s0, OutcomeOK P d val s0 o
  caller : ∃ (j : Nat) (mc : Bool), s.tasks[0]? = some
             { frames := [.mgrCbComplete j o], st := .runnable .go, mustCancel := mc, name := .caller }
  others : ∀ (i : Nat) (tk : Task), i ≠ 0 → s.tasks[i]? = some tk → tk.marked = true ∧ isCallerFrames tk.frames = false
  pend   : s.outcome = none

/-- what a step from a state of a pending plain run leads to -/
inductive StepResult (P : Program) (d : DagRef) (val : Node → Option Val) (s : St) (out : Out) : Prop
  | returned (o : Outcome) : out.1.outcome = some o → OutcomeOK P d val s o → StepResult P d val s out
  | running : PInv P d val out.1 → StepResult P d val s out
  | finishing (o : Outcome) : Fin P d val o out.1 → StepResult P d val s out

/-- `chart.run` after `on_pipeline_start` returned, when only the caller's task exists -/
theorem mgrBegin_plain {P : Program} {d : DagRef} (hp : PlainP P d) {s : St} (h : PInv P d val s)
    (c : Ctx) (hcP : c.P = P) (hct : c.t = 0) (ctk : Task) (hl1 : s.tasks = [ctk]) (hnm : ctk.name = .caller)
    (hmc : ctk.mustCancel = false) (obs : List Obs) : PInv P d val (mgrBegin c s obs).1 := by
  have hfr : ∀ n, s.proc n = false ∧ s.res n = none := by
    rcases h.rest with ⟨_, h2⟩ | ⟨L, hl, _⟩
    · exact h2
    · rw [hl1] at hl; simp at hl; omega
  have hmainref := hp.main s h.quiet.opened
  have hne0 : (taskErrors (spawn s [.dagInit d] .run).1).isEmpty = true := by
    obtain ⟨ctk', hc0, hcok⟩ := h.caller
    rw [hl1] at hc0; simp at hc0; subst hc0
    simp only [taskErrors, spawn, hl1]
    cases hcok <;> simp
  have hex0 : (spawn s [.dagInit d] .run).1.exists P.g.output = false := by
    simp [St.exists, spawn, (hfr _).2]
  simp only [mgrBegin, hcP, hp.pools, Bool.not_true, Bool.false_eq_true, if_false, hmainref]
  simp only [mgrCheck, hne0, hcP, hex0, Bool.not_true, Bool.or_false, Bool.false_eq_true, if_false, block, hct]
  simp only [spawn, hl1, List.cons_append, List.nil_append, List.getElem?_cons_zero, St.setTask, List.set_cons_zero]
  have hrec : ({ ctk with frames := [.mgrWait], st := .blocked (.cond .run) } : Task) =
      { frames := [.mgrWait], st := .blocked (.cond .run), name := .caller } := by
    cases ctk; simp_all
  rw [hrec]
  refine ⟨h.quiet.of_eq rfl rfl rfl rfl rfl, h.noRecRes,
    ⟨_, rfl, .waiting (by simp) ?_ (not_settled_of_res_none (hfr _).2)⟩,
    Or.inr ⟨[], by simp, ⟨_, rfl, .init rfl (fun n => (hfr n).1)⟩, by intro i hi; simp at hi, fun n _ => hfr n⟩⟩
  intro j tk e hj
  match j, hj with
  | 0, hj => simp at hj; subst hj; simp
  | 1, hj => simp at hj; subst hj; simp
  | j + 2, hj => simp at hj

/-- `on_pipeline_start` (which may suspend) and then `mgrBegin` -/
theorem mgrCbStart_plain {P : Program} {d : DagRef} (hp : PlainP P d) {s : St} (h : PInv P d val s)
    (c : Ctx) (hcP : c.P = P) (hct : c.t = 0) (ctk : Task) (hl1 : s.tasks = [ctk]) (hnm : ctk.name = .caller)
    (hmc : ctk.mustCancel = false) (obs : List Obs) (m : Nat) :
    PInv P d val (cbThen c s obs (fun j => [.mgrCbStart j]) m (fun s obs => mgrBegin c s obs)).1 := by
  cases m with
  | zero => exact mgrBegin_plain hp h c hcP hct ctk hl1 hnm hmc obs
  | succ j =>
    simp only [cbThen]
    rw [yield_tasks c s _ _ ctk (by rw [hct, hl1]; rfl), hct]
    have hrec : ({ ctk with frames := [.mgrCbStart j], st := .runnable .go } : Task) =
        { frames := [.mgrCbStart j], st := .runnable .go, mustCancel := false, name := .caller } := by
      cases ctk; simp_all
    rw [hrec]
    apply pinv_replace_caller h
    exact .cbStart j false (by simp [hl1])

theorem tasks_singleton {s : St} {ctk : Task} (h1 : s.tasks.length = 1) (hc0 : s.tasks[0]? = some ctk) :
    s.tasks = [ctk] := by
  cases hts : s.tasks with
  | nil => rw [hts] at h1; simp at h1
  | cons a l =>
    rw [hts] at h1 hc0
    simp at h1 hc0
    rw [h1, hc0]

/-- **every section of the caller's task preserves the invariant, ends the run, or starts the finishing phase** -/
theorem pinv_step_caller {P : Program} {d : DagRef} (hp : PlainP P d) {s : St} (h : PInv P d val s)
    (c : Ctx) (hcP : c.P = P) (hct : c.t = 0) (out : Out) (hs : stepTask c s = some out) :
    StepResult P d val s out := by
  obtain ⟨ctk, hc0, hcok⟩ := h.caller
  have hret : ∀ s0 obs o, (mgrReturn c s0 obs o).1.outcome = some o := by
    intro s0 obs o; simp [mgrReturn, St.setOutcome]
  unfold stepTask at hs
  rw [hct, hc0] at hs
  cases hcok with
  | waiting h1 h2 h3 => simp at hs
  | start mc h1 =>
    cases mc with
    | true =>
      simp only [if_true] at hs
      obtain rfl := Option.some.inj hs
      exact .returned .cancelled (by simp [deliverCancel, St.setOutcome]) ⟨_, hc0, rfl⟩
    | false =>
      simp only [Bool.false_eq_true, if_false] at hs
      obtain rfl := Option.some.inj hs
      have hl1 := tasks_singleton h1 hc0
      simp only [mgrStart, cbCall]
      cases hr1 : c.P.cbRaise .pstart 0 with
      | some e =>
        exact .returned (.raised e) (hret _ _ _) (Or.inl ⟨_, _, by rw [← hcP]; exact hr1⟩)
      | none =>
        exact .running (mgrCbStart_plain hp h c hcP hct _ hl1 rfl rfl _ _)
  | cbStart j mc h1 =>
    cases mc with
    | true =>
      simp only [if_true] at hs
      obtain rfl := Option.some.inj hs
      exact .returned .cancelled (by simp [deliverCancel, St.setOutcome]) ⟨_, hc0, rfl⟩
    | false =>
      simp only [Bool.false_eq_true, if_false] at hs
      obtain rfl := Option.some.inj hs
      have hl1 := tasks_singleton h1 hc0
      exact .running (mgrCbStart_plain hp h c hcP hct _ hl1 rfl rfl _ _)
  | woken mc h1 =>
    cases mc with
    | true =>
      simp only [if_true] at hs
      obtain rfl := Option.some.inj hs
      exact .returned .cancelled (by simp [deliverCancel, St.setOutcome]) ⟨_, hc0, rfl⟩
    | false =>
      simp only [Bool.false_eq_true, if_false] at hs
      obtain rfl := Option.some.inj hs
      simp only [mgrCheck]
      split
      · next hfin =>
        simp only [mgrFinish]
        have main : ∀ s0, OutcomeOK P d val s0 (finishOutcome c s) := by
          unfold finishOutcome
          intro s0
          cases hidx : (taskErrors s)[c.pick % max (taskErrors s).length 1]? with
          | some e =>
            have hmem : e ∈ taskErrors s := List.mem_of_getElem? hidx
            have hnf := taskError_is_node_failure h e hmem
            simp only []
            split
            · next hex => exact ⟨hex, hnf⟩
            · next hex => exact Or.inr ⟨by simpa using hex, hnf⟩
          | none =>
            simp only []
            have hnil : taskErrors s = [] := by
              cases hl : taskErrors s with
              | nil => rfl
              | cons a l =>
                rw [hl] at hidx
                have : c.pick % max (a :: l).length 1 < (a :: l).length := by
                  have : max (a :: l).length 1 = (a :: l).length := by simp
                  rw [this]; exact Nat.mod_lt _ (by simp)
                rw [List.getElem?_eq_none_iff] at hidx
                omega
            simp only [hnil, List.isEmpty_nil, Bool.not_true, Bool.false_or, hcP] at hfin
            simp only [St.exists, Bool.and_eq_true] at hfin
            rw [hcP]
            cases hr : s.res P.g.output with
            | none => rw [hr] at hfin; simp at hfin
            | some v =>
              have : s.getHid P.g.output = v := by simp [St.getHid, hr]
              rw [this]
              rcases h.rest with ⟨_, h2⟩ | ⟨L, hl, _, hnodes, hfresh⟩
              · rw [(h2 _).2] at hr; cases hr
              · exact agree_of_nodes hnodes hfresh _ v hr
        rcases mgrComplete_result (P := P) c hcP (cancelTasks s (liveTasks s c.t)) [] (finishOutcome c s)
          with ⟨o', ho', hoo⟩ | ⟨j, hj⟩
        · rcases hoo with hoo | ⟨e, hoo, hce⟩
          · exact .returned o' ho' (by rw [hoo]; exact main s)
          · exact .returned o' ho' (by rw [hoo]; exact Or.inl hce)
        · -- `on_pipeline_complete` suspends: the finishing phase
          rw [hj]
          have hcur : (cancelTasks s (liveTasks s c.t)).tasks[c.t]? =
              some { frames := [.mgrWait], st := .runnable .go, mustCancel := false, name := .caller } := by
            rw [cancelTasks_other _ _ _ (by simp [liveTasks]), hct]; exact hc0
          refine .finishing (finishOutcome c s) ?_
          rw [yield_tasks c _ _ _ _ hcur]
          simp only [hct]
          refine ⟨main, ⟨j, false, ?_⟩, ?_, ?_⟩
          · simp only [St.setTask]
            rw [List.getElem?_set_self (by simp; exact getElem?_lt hc0)]
          · intro i tk hi0 hi
            rw [getElem?_setTask_ne' _ _ _ _ hi0] at hi
            have hlt : i < s.tasks.length := by
              have := getElem?_lt hi; simpa using this
            obtain ⟨tk', h1', h2'⟩ := marked_cancelTasks (liveTasks s 0) s i s.tasks[i] (by simp [hlt])
              (Or.inl (mem_liveTasks s 0 i hlt hi0))
            rw [hi] at h1'; cases h1'
            refine ⟨h2', ?_⟩
            -- cancellation does not change frames; the frames of the other tasks are not `chart.run`'s
            have hfr := frames_cancelTasks (liveTasks s 0) s i
            rw [hi] at hfr
            have hget0 : s.tasks[i]? = some s.tasks[i] := by simp [hlt]
            rw [hget0] at hfr
            simp only [Option.map_some, Option.some.injEq] at hfr
            rw [hfr]
            rcases h.rest with ⟨hl1, _⟩ | ⟨L, hl, ⟨mtk, hm1, hmok⟩, hnodes, _⟩
            · omega
            · by_cases hi1 : i = 1
              · subst hi1
                have : s.tasks[1] = mtk := by
                  rw [hm1] at hget0; exact (Option.some.inj hget0).symm
                rw [this]
                cases hmok <;> rfl
              · obtain ⟨i', rfl⟩ : ∃ i', i = 2 + i' := ⟨i - 2, by omega⟩
                obtain ⟨tk1, htk1, hok1⟩ := hnodes i' (by omega)
                have : s.tasks[2 + i'] = tk1 := by
                  rw [htk1] at hget0; exact (Option.some.inj hget0).symm
                rw [this]
                cases hok1 <;> rfl
          · simp only [St.setTask]
            rw [outcome_cancelTasks]; exact h.quiet.pend
      · next hcond =>
        refine .running ?_
        simp only [Bool.or_eq_true, Bool.not_eq_true', not_or, Bool.not_eq_true] at hcond
        have he : (taskErrors s).isEmpty = true := by
          cases hh : (taskErrors s).isEmpty <;> simp_all
        rw [block_tasks c s [] _ _ _ (by rw [hct]; exact hc0), hct]
        apply pinv_replace_caller h
        refine .waiting (by simpa using h1) ?_ ?_
        · exact noErr_setTask (noErr_of_isEmpty he) 0 _ (by intro e; simp)
        · have := hcond.2
          rw [hcP] at this
          simp only [St.exists, h.quiet.resHid, Bool.not_false, Bool.and_true] at this
          intro hst
          have hst' := settled_setTask_name 0 _ (by intro m; simp) _ hst
          have := hst'.1
          cases hr : s.res P.g.output <;> simp_all

end MLPE.Eng

namespace MLPE.Eng
open MLPE
variable {val : Node → Option Val}

/-- a retry timer fires: only node tasks sleep -/
theorem pinv_step_timer {P : Program} {d : DagRef} (hp : PlainP P d) {s : St} (h : PInv P d val s) (t : Nat) (out : Out)
    (hs : step P s (.timer t) = some out) : PInv P d val out.1 := by
  simp only [step] at hs
  cases htk : s.tasks[t]? with
  | none => simp [htk] at hs
  | some tk =>
    simp only [htk] at hs
    obtain ⟨ctk, hc0, hcok⟩ := h.caller
    -- which task is it?
    by_cases ht0 : t = 0
    · subst ht0; rw [hc0] at htk; cases htk
      cases hcok <;> simp at hs
    · rcases h.rest with ⟨h1, _⟩ | ⟨L, hl, ⟨mtk, hm1, hmok⟩, hnodes, hfresh⟩
      · have := getElem?_lt htk; omega
      · by_cases ht1 : t = 1
        · subst ht1; rw [hm1] at htk; cases htk
          cases hmok <;> simp at hs
        · have hlt := getElem?_lt htk
          obtain ⟨i, rfl⟩ : ∃ i, t = 2 + i := ⟨t - 2, by omega⟩
          have hi : i < L.length := by omega
          obtain ⟨tk0, htk0, hok⟩ := hnodes i hi
          rw [htk0] at htk; cases htk
          cases hok with
          | sleeping k kw inv dl h1 h2 h3 =>
            simp only at hs
            obtain rfl := Option.some.inj hs
            have x : NodeStepCtx P d val s s L i { P := P, t := 2 + i, ord := [], pick := 0 } _ :=
              ⟨h, hl, ⟨mtk, hm1, hmok⟩, hnodes, hfresh, hi, rfl, rfl, htk0, ⟨rfl, rfl⟩, rfl, rfl, fun _ _ => rfl, h1,
               h.quiet⟩
            exact node_step_suspend hp x _ _ _ rfl (by intro e; simp)
              (fun s'' a b _ => .slept k kw inv a (by rw [b]; exact h2) h3)
          | fresh h1 h2 => simp at hs
          | inBody k kw inv h1 h2 => simp at hs
          | bodyDone k kw inv h1 h2 => simp at hs
          | slept k kw inv h1 h2 => simp at hs
          | doneOk h1 => simp at hs
          | doneExc e h1 => simp at hs
          | doneExcSaved e h1 => simp at hs
          | cbStart => simp at hs
          | cbRetry => simp at hs
          | cbOk => simp at hs
          | cbFail => simp at hs
          | cbSave => simp at hs

/-- the caller's task is cancelled (at any point) -/
theorem pinv_step_cancel {P : Program} {d : DagRef} {s : St} (h : PInv P d val s) (out : Out)
    (hs : step P s .cancelCaller = some out) : PInv P d val out.1 := by
  simp only [step] at hs
  obtain rfl := Option.some.inj hs
  obtain ⟨ctk, hc0, hcok⟩ := h.caller
  have hst : (cancelTask s 0) = s.setTask 0 (cancelled ctk) := by
    have := cancelTask_tasks s 0
    rw [hc0] at this
    simp only [St.setTask]
    unfold cancelTask
    rw [hc0]
    cases hcok <;> rfl
  simp only [hst]
  apply pinv_replace_caller h
  cases hcok with
  | start mc h1 => exact .start true (by simpa using h1)
  | waiting h1 h2 h3 => exact .woken true (by simpa using h1)
  | woken mc h1 => exact .woken true (by simpa using h1)
  | cbStart j mc h1 => exact .cbStart j true (by simpa using h1)

/-- the launch order the oracle supplies is accepted by the model whenever a `_run_dag` starts -/
def OracleOK (P : Program) (s : St) : Choice → Prop
  | .run t ord _ => ∀ tk d', s.tasks[t]? = some tk → tk.frames = [.dagInit d'] → validOrder P s d' ord = true
  | _ => True

/-- **one step from a state of a pending plain run**: the invariant is preserved, or the caller leaves with an
explained outcome, or the finishing phase starts -/
theorem pinv_step {P : Program} {d : DagRef} (hp : PlainP P d) {s : St} (h : PInv P d val s) (ch : Choice) (out : Out)
    (hs : step P s ch = some out) (ho : OracleOK P s ch) (hci : CoreInv s.core) : StepResult P d val s out := by
  cases ch with
  | gate n inv att => exact .running (pinv_step_gate h n inv att out hs)
  | timer t => exact .running (pinv_step_timer hp h t out hs)
  | cancelCaller => exact .running (pinv_step_cancel h out hs)
  | run t ord pick =>
    simp only [step] at hs
    by_cases ht0 : t = 0
    · exact pinv_step_caller hp h _ rfl ht0 out hs
    · refine .running ?_
      rcases h.rest with ⟨h1, _⟩ | ⟨L, hl, ⟨mtk, hm1, hmok⟩, hnodes, hfresh⟩
      · -- only the caller exists
        unfold stepTask at hs
        have : s.tasks[t]? = none := List.getElem?_eq_none (by omega)
        simp [this] at hs
      · by_cases ht1 : t = 1
        · subst ht1
          exact pinv_step_main hp h L hl mtk hm1 hmok hnodes hfresh _ rfl rfl out hs
            (fun d' hd' => ho mtk d' hm1 hd')
        · by_cases hlt : t < s.tasks.length
          · obtain ⟨i, rfl⟩ : ∃ i, t = 2 + i := ⟨t - 2, by omega⟩
            exact pinv_step_node hp h L hl ⟨mtk, hm1, hmok⟩ hnodes hfresh i (by omega) _ rfl rfl out hs hci
          · unfold stepTask at hs
            have : s.tasks[t]? = none := List.getElem?_eq_none (by omega)
            simp [this] at hs

theorem pinv_init {P : Program} {d : DagRef} : PInv P d val init := by
  refine ⟨⟨fun _ => rfl, fun _ => rfl, fun _ => rfl, fun _ => rfl, fun _ => rfl, fun _ => rfl, rfl, rfl⟩, fun p v hv => by simp [init] at hv,
    ⟨_, rfl, .start false rfl⟩, Or.inl ⟨rfl, fun _ => ⟨rfl, rfl⟩⟩⟩

end MLPE.Eng

namespace MLPE.Eng
open MLPE
variable {val : Node → Option Val}

/-! ### the finishing phase: the caller is suspended in `on_pipeline_complete`, everybody else is being cancelled -/

theorem unwindFrames_outcome (P : Program) : ∀ (fs : List Frame) (s : St), (unwindFrames P s fs).outcome = s.outcome := by
  intro fs
  induction fs with
  | nil => intro s; rfl
  | cons f fs ih =>
    intro s
    cases f <;> simp only [unwindFrames, ih]
    split
    · rfl
    · exact (nodeFinally_fields P s _ _ true).2.2.2.2.2.2.2

/-- a runnable task is not touched when somebody else's frames are unwound (only blocked tasks are woken) -/
theorem unwindFrames_runnable (P : Program) : ∀ (fs : List Frame) (s : St) (i : Nat) (tk : Task) (rv : Resume),
    s.tasks[i]? = some tk → tk.st = .runnable rv → (unwindFrames P s fs).tasks[i]? = some tk := by
  intro fs
  induction fs with
  | nil => intro s i tk rv h _; exact h
  | cons f fs ih =>
    intro s i tk rv h hst
    cases f <;> simp only [unwindFrames] <;> try exact ih s i tk rv h hst
    split
    · exact ih s i tk rv h hst
    · apply ih _ i tk rv _ hst
      rw [tasks_nodeFinally, List.getElem?_map, h]
      simp only [Option.map_some, Option.some.injEq]
      obtain ⟨fr, st, mc, nm⟩ := tk
      simp only at hst
      subst hst
      rfl

/-- the frames of every task survive the unwinding of somebody's frames -/
theorem unwindFrames_frames (P : Program) : ∀ (fs : List Frame) (s : St) (i : Nat),
    ((unwindFrames P s fs).tasks[i]?).map Task.frames = (s.tasks[i]?).map Task.frames := by
  intro fs
  induction fs with
  | nil => intro s i; rfl
  | cons f fs ih =>
    intro s i
    cases f <;> simp only [unwindFrames] <;> try exact ih s i
    split
    · exact ih s i
    · rw [ih, tasks_nodeFinally, List.getElem?_map]
      cases s.tasks[i]? with
      | none => rfl
      | some tk => simp [(wakeSet_name _ _ tk).2.2]

/-- **a step in the finishing phase**: the caller returns the decided outcome (or `CancelledError` if it was cancelled
meanwhile), or the phase goes on — the other tasks only end -/
theorem fin_step {P : Program} {d : DagRef} {o : Outcome} {s : St} (h : Fin P d val o s) (ch : Choice) (out : Out)
    (hs : step P s ch = some out) :
    (∃ o', out.1.outcome = some o' ∧ OutcomeOK P d val s o') ∨ Fin P d val o out.1 := by
  obtain ⟨j, mc, hc0⟩ := h.caller
  cases ch with
  | gate n inv att =>
    simp only [step] at hs
    split at hs
    · cases hs
    · obtain rfl := Option.some.inj hs
      right
      refine ⟨h.ok, ⟨j, mc, ?_⟩, ?_, h.pend⟩
      · simp only [List.getElem?_map, hc0, Option.map_some]; rfl
      · intro i tk hi0 hi
        simp only [List.getElem?_map] at hi
        cases hs0 : s.tasks[i]? with
        | none => simp [hs0] at hi
        | some tk0 =>
          simp only [hs0, Option.map_some, Option.some.injEq] at hi
          subst hi
          obtain ⟨a, b⟩ := h.others i tk0 hi0 hs0
          obtain ⟨fr, st, mc', nm⟩ := tk0
          cases st with
          | runnable rv => exact ⟨a, b⟩
          | done r => exact ⟨a, b⟩
          | blocked w =>
            cases w with
            | gate a' b' c' o' =>
              simp only [gateDone]
              split
              · exact ⟨by simpa [Task.marked, Task.isDone] using a, b⟩
              · exact ⟨a, b⟩
            | cond k => exact ⟨a, b⟩
            | event k => exact ⟨a, b⟩
            | sleep a' b' c' dl => exact ⟨a, b⟩
  | timer t =>
    simp only [step] at hs
    split at hs
    · next tk htk =>
      split at hs
      · next hst =>
        obtain rfl := Option.some.inj hs
        have ht0 : t ≠ 0 := by
          intro e; subst e; rw [hc0] at htk; cases htk; simp at hst
        right
        refine ⟨h.ok, ⟨j, mc, by rw [getElem?_setTask_ne' _ _ _ _ (Ne.symm ht0)]; exact hc0⟩, ?_, h.pend⟩
        intro i tk' hi0 hi
        by_cases hit : i = t
        · subst hit
          simp only [St.setTask] at hi
          rw [List.getElem?_set_self (getElem?_lt htk)] at hi
          cases hi
          obtain ⟨a, b⟩ := h.others i tk hi0 htk
          exact ⟨by simpa [Task.marked, Task.isDone, hst] using a, b⟩
        · rw [getElem?_setTask_ne' _ _ _ _ hit] at hi
          exact h.others i tk' hi0 hi
      · cases hs
    · cases hs
  | cancelCaller =>
    simp only [step] at hs
    obtain rfl := Option.some.inj hs
    right
    have hst : (cancelTask s 0) = s.setTask 0
        { frames := [.mgrCbComplete j o], st := .runnable .go, mustCancel := true, name := .caller } := by
      unfold cancelTask
      rw [hc0]
    rw [hst]
    refine ⟨h.ok, ⟨j, true, ?_⟩, ?_, h.pend⟩
    · simp only [St.setTask]; rw [List.getElem?_set_self (getElem?_lt hc0)]
    · intro i tk hi0 hi
      rw [getElem?_setTask_ne' _ _ _ _ hi0] at hi
      exact h.others i tk hi0 hi
  | run t ord pick =>
    simp only [step] at hs
    by_cases ht0 : t = 0
    · -- the caller
      subst ht0
      unfold stepTask at hs
      simp only [hc0] at hs
      cases mc with
      | true =>
        simp only [if_true] at hs
        obtain rfl := Option.some.inj hs
        left
        exact ⟨.cancelled, by simp [deliverCancel, St.setOutcome], _, hc0, rfl⟩
      | false =>
        simp only [Bool.false_eq_true, if_false] at hs
        obtain rfl := Option.some.inj hs
        cases j with
        | zero =>
          left
          exact ⟨o, by simp [cbThen, mgrReturn, St.setOutcome], h.ok s⟩
        | succ j' =>
          right
          simp only [cbThen]
          rw [yield_tasks _ s _ _ _ hc0]
          refine ⟨h.ok, ⟨j', false, ?_⟩, ?_, h.pend⟩
          · simp only [St.setTask]; rw [List.getElem?_set_self (getElem?_lt hc0)]
          · intro i tk hi0 hi
            rw [getElem?_setTask_ne' _ _ _ _ hi0] at hi
            exact h.others i tk hi0 hi
    · -- somebody else: a pending cancellation is delivered
      cases htk : s.tasks[t]? with
      | none => unfold stepTask at hs; simp [htk] at hs
      | some tk =>
        obtain ⟨hm, hfr⟩ := h.others t tk ht0 htk
        cases hst : tk.st with
        | done r => unfold stepTask at hs; simp [htk, hst] at hs
        | blocked w => unfold stepTask at hs; simp [htk, hst] at hs
        | runnable rv =>
          have hmc : tk.mustCancel = true := by
            simpa [Task.marked, Task.isDone, hst] using hm
          obtain ⟨h1, _, _⟩ := C13_cancelled_task_ends_silently { P := P, t := t, ord := ord, pick := pick } s tk rv
            htk hst hmc hfr
          rw [h1] at hs
          obtain rfl := Option.some.inj hs
          right
          have hget0 : (unwindFrames P s tk.frames).tasks[0]? = some
              { frames := [.mgrCbComplete j o], st := .runnable .go, mustCancel := mc, name := .caller } :=
            unwindFrames_runnable P tk.frames s 0 _ .go hc0 rfl
          refine ⟨h.ok, ⟨j, mc, ?_⟩, ?_, ?_⟩
          · rw [others_endTask _ _ _ _ _ (by simp; exact fun e => ht0 e.symm)]; exact hget0
          · intro i tk' hi0 hi
            by_cases hit : i = t
            · subst hit
              unfold endTask at hi
              split at hi
              · next hnone =>
                have : i < (unwindFrames P s tk.frames).tasks.length := by
                  rw [len_unwindFrames]; exact getElem?_lt htk
                simp [List.getElem?_eq_getElem this] at hnone
              · simp only [St.setTask] at hi
                rw [List.getElem?_set_self (by rw [len_unwindFrames]; exact getElem?_lt htk)] at hi
                cases hi
                exact ⟨by simp [Task.marked, Task.isDone], rfl⟩
            · rw [others_endTask _ _ _ _ _ (by simpa using hit)] at hi
              have hlt : i < s.tasks.length := by
                have := getElem?_lt hi; rw [len_unwindFrames] at this; exact this
              obtain ⟨a, b⟩ := h.others i s.tasks[i] hi0 (by simp [hlt])
              have hm' := C13_marks_are_stable P s tk.frames i
              have hf' := unwindFrames_frames P tk.frames s i
              rw [hi] at hm' hf'
              simp only [List.getElem?_eq_getElem hlt, Option.map_some, Option.some.injEq] at hm' hf'
              exact ⟨by rw [hm']; exact a, by rw [hf']; exact b⟩
          · have : (endTask { P := P, t := t, ord := ord, pick := pick } (unwindFrames P s tk.frames) [] .cancelled).1.outcome
                = (unwindFrames P s tk.frames).outcome := by
              unfold endTask; split <;> rfl
            rw [this, unwindFrames_outcome]; exact h.pend

/-- executions of a run that is still pending: every step starts in a state in which the caller has not left -/
inductive Live (P : Program) : St → Prop
  | init : Live P init
  | step {s s' : St} {c : Choice} {obs : List Obs} :
      Live P s → s.outcome = none → OracleOK P s c → step P s c = some (s', obs) → Live P s'

theorem Live.reach {P : Program} {s : St} (h : Live P s) : Reach P s := by
  induction h with
  | init => exact .init
  | step _ _ _ hs ih => exact .step ih hs

/-- **every state of a pending plain run** satisfies the invariant, or is in the finishing phase (the outcome is decided
and explained, the caller is suspended in `on_pipeline_complete`) -/
theorem pinv_live {P : Program} {d : DagRef} (hp : PlainP P d) {s : St} (h : Live P s) (ho : s.outcome = none) :
    PInv P d val s ∨ ∃ o, Fin P d val o s := by
  induction h with
  | init => exact Or.inl pinv_init
  | @step s s' c obs hr hso hor hs ih =>
    rcases ih hso with ih | ⟨o, hf⟩
    · cases pinv_step hp ih c (s', obs) hs hor (coreInv_reach hr.reach) with
      | returned o ho1 _ => simp only at ho1; rw [ho1] at ho; cases ho
      | running h2 => exact Or.inl h2
      | finishing o h2 => exact Or.inr ⟨o, h2⟩
    · rcases fin_step hf c (s', obs) hs with ⟨o', ho1, _⟩ | h2
      · simp only at ho1; rw [ho1] at ho; cases ho
      · exact Or.inr ⟨o, h2⟩

/-- **the step that ends a pending plain run** yields an outcome explained by the solution -/
theorem outcome_live {P : Program} {d : DagRef} (hp : PlainP P d) {s : St} (h : Live P s) (hpend : s.outcome = none)
    (c : Choice) (hor : OracleOK P s c) (out : Out) (hs : step P s c = some out) (o : Outcome)
    (ho : out.1.outcome = some o) : OutcomeOK P d val s o := by
  rcases pinv_live (val := val) hp h hpend with hinv | ⟨o0, hf⟩
  · cases pinv_step hp hinv c out hs hor (coreInv_reach h.reach) with
    | returned o' ho1 hok => rw [ho] at ho1; cases ho1; exact hok
    | running h2 => have := h2.quiet.pend; rw [ho] at this; cases this
    | finishing o' h2 => have := h2.pend; rw [ho] at this; cases this
  · rcases fin_step hf c out hs with ⟨o', ho1, hok⟩ | h2
    · rw [ho] at ho1; cases ho1; exact hok
    · have := h2.pend; rw [ho] at this; cases this

end MLPE.Eng

namespace MLPE.Eng
open MLPE
variable {val : Node → Option Val}

theorem reducedRef_congr_opened (P : Program) (s : St) (_h : ∀ n, s.opened n = false) (a b : Node) (x y z : Bool) :
    reducedRef P s a b x y z = reducedRef P init a b x y z := rfl

theorem plainP_of_check {P : Program} {d : DagRef} (hc : plainCheck P d = true)
    (hsw : ∀ n, P.g.isSwitch n = false) (hhd : ∀ n, P.g.isOneofHead n = false)
    (hr : ∀ n kw i k v, P.body n kw i k = .ret v → v.isRecur = false ∧ v.isExc = false)
    (hrd : ∀ n kw, (P.dflt n kw).isRecur = false ∧ (P.dflt n kw).isExc = false)
    (hdo : ∀ n, P.dfltRaise n = none) : PlainP P d := by
  unfold plainCheck at hc
  simp only [Bool.and_eq_true, decide_eq_true_eq, Bool.not_eq_true', List.all_eq_true, List.isEmpty_eq_false_iff] at hc
  obtain ⟨⟨⟨⟨⟨⟨⟨⟨⟨h1, h2⟩, h3⟩, h4⟩, h5⟩, h6⟩, h7⟩, h8⟩, h9⟩, h10⟩ := hc
  exact { noSwitch := hsw, noHead := hhd, noRecur := hr, noRecurD := hrd, dfltOk := hdo, pools := h10,
          main := fun s hs => by rw [reducedRef_congr_opened P s hs]; exact h1,
          dest := h2, notRec := h3, notOneof := h4, predsIn := h5, outIn := h6, nodup := h7, gne := h8,
          noCase := fun e he => by have := (h9 e he).1; simpa using this,
          noCand := fun e he => (h9 e he).2 }

end MLPE.Eng

import MLPE.Proofs.EngTasks
import MLPE.Proofs.EngBasic

/-!
# Ledger: every artifact save is paid for by a successful `on_node_complete`, every successful
`on_node_complete` by an `on_node_start`, every `on_node_start` by an invocation counted in the storage

All programs, all schedules.  Three event counters over the observation log of an execution
(`save n _`, `ncomplete n none`, `nstart n`) and two kinds of *tokens* held by frames of suspended tasks:

* `fB`: a `_run_node` frame that has emitted `on_node_start` for `n` and no final `on_node_complete` yet
  (suspended in `on_node_start`, awaiting a body, sleeping before a retry, suspended in the
  `on_node_complete(error)` of a retried attempt);
* `fA`: a `_run_node` frame that has emitted the successful `on_node_complete` and has not yet reached the
  decision to save (suspended in that callback).

Invariant (`Acc`): for every node `m`
`saves m + #fA-tokens m ≤ okCompletes m`,  `okCompletes m + #fB-tokens m ≤ starts m`,  `starts m = invCount m`.
-/
namespace MLPE.Eng
open MLPE

/-! ### counting -/

def cnt (e : Obs → Nat) : List Obs → Nat
  | [] => 0
  | o :: os => e o + cnt e os

@[simp] theorem cnt_nil (e : Obs → Nat) : cnt e [] = 0 := rfl
@[simp] theorem cnt_cons (e : Obs → Nat) (o : Obs) (os : List Obs) : cnt e (o :: os) = e o + cnt e os := rfl
@[simp] theorem cnt_append (e : Obs → Nat) (a b : List Obs) : cnt e (a ++ b) = cnt e a + cnt e b := by
  induction a with
  | nil => simp
  | cons o os ih => simp [ih]; omega

def unit (n m : Node) : Nat := if n = m then 1 else 0

/-- `artifact_store.save(node_id = m, …)` -/
def evS (m : Node) : Obs → Nat
  | .save n _ => unit n m
  | _ => 0
/-- `on_node_complete(node_id = m, error = None)` -/
def evO (m : Node) : Obs → Nat
  | .ncomplete n none => unit n m
  | _ => 0
/-- `on_node_start(node_id = m)` -/
def evN (m : Node) : Obs → Nat
  | .nstart n => unit n m
  | _ => 0

/-- an observation none of the three counters sees -/
def Obs.neutral : Obs → Bool
  | .save .. => false
  | .ncomplete _ none => false
  | .nstart _ => false
  | _ => true

theorem neutral_ev {o : Obs} (h : o.neutral = true) (m : Node) : evS m o = 0 ∧ evO m o = 0 ∧ evN m o = 0 := by
  cases o <;> simp [Obs.neutral, evS, evO, evN] at h ⊢
  next n err => cases err <;> simp_all

/-! ### tokens held by frames -/

def fA (m : Node) : Frame → Nat
  | .node _ n _ (.cbOk ..) => unit n m
  | _ => 0

def fB (m : Node) : Frame → Nat
  | .node _ n _ (.cbStart ..) => unit n m
  | .node _ n _ (.body ..) => unit n m
  | .node _ n _ (.sleep ..) => unit n m
  | .node _ n _ (.cbRetry ..) => unit n m
  | _ => 0

def sumF (f : Frame → Nat) : List Frame → Nat
  | [] => 0
  | x :: xs => f x + sumF f xs

@[simp] theorem sumF_nil (f : Frame → Nat) : sumF f [] = 0 := rfl
@[simp] theorem sumF_cons (f : Frame → Nat) (x : Frame) (xs : List Frame) : sumF f (x :: xs) = f x + sumF f xs := rfl

/-- all stacks -/
def lsum (G : List Frame → Nat) : List (List Frame) → Nat
  | [] => 0
  | x :: xs => G x + lsum G xs

/-- all stacks but the one at index `t` -/
def rsum (G : List Frame → Nat) : List (List Frame) → Nat → Nat
  | [], _ => 0
  | _ :: xs, 0 => lsum G xs
  | x :: xs, t + 1 => G x + rsum G xs t

theorem lsum_eq_rsum_some (G : List Frame → Nat) : ∀ (l : List (List Frame)) (t : Nat) (x : List Frame),
    l[t]? = some x → lsum G l = rsum G l t + G x
  | [], t, x, h => by simp at h
  | y :: ys, 0, x, h => by
    simp at h; subst h; simp [lsum, rsum]; omega
  | y :: ys, t + 1, x, h => by
    simp at h
    have := lsum_eq_rsum_some G ys t x h
    simp [lsum, rsum, this]; omega

theorem lsum_eq_rsum_none (G : List Frame → Nat) : ∀ (l : List (List Frame)) (t : Nat),
    l[t]? = none → lsum G l = rsum G l t
  | [], t, _ => by simp [lsum, rsum]
  | y :: ys, 0, h => by simp at h
  | y :: ys, t + 1, h => by
    simp at h
    have h' : ys[t]? = none := by simpa using h
    have := lsum_eq_rsum_none G ys t h'
    simp [lsum, rsum, this]

theorem rsum_set (G : List Frame → Nat) : ∀ (l : List (List Frame)) (t : Nat) (x : List Frame),
    rsum G (l.set t x) t = rsum G l t
  | [], t, x => by simp [rsum]
  | y :: ys, 0, x => by simp [rsum]
  | y :: ys, t + 1, x => by simp [rsum, rsum_set G ys t x]

theorem lsum_append (G : List Frame → Nat) (a b : List (List Frame)) : lsum G (a ++ b) = lsum G a + lsum G b := by
  induction a with
  | nil => simp [lsum]
  | cons x xs ih => simp [lsum, ih]; omega

theorem rsum_append_zero (G : List Frame → Nat) (y : List Frame) (hy : G y = 0) : ∀ (l : List (List Frame)) (t : Nat),
    rsum G (l ++ [y]) t = rsum G l t
  | [], 0 => by simp [rsum, lsum]
  | [], t + 1 => by simp [rsum, hy]
  | x :: xs, 0 => by simp [rsum, lsum_append, lsum, hy]
  | x :: xs, t + 1 => by simp [rsum, rsum_append_zero G y hy xs t]

/-! ### the invariant -/

def stacks (s : St) : List (List Frame) := s.tasks.map (·.frames)

/-- event totals before the current section -/
structure Tot where
  kS : Node → Nat
  kO : Node → Nat
  kN : Node → Nat

/-- between sections -/
def Acc (k : Tot) (s : St) : Prop :=
  ∀ m, k.kS m + lsum (sumF (fA m)) (stacks s) ≤ k.kO m
     ∧ k.kO m + lsum (sumF (fB m)) (stacks s) ≤ k.kN m
     ∧ k.kN m = s.invCount m

/-- inside a section of task `c.t`, whose stack would be `fs` if it suspended now -/
def Bud (k : Tot) (c : Ctx) (s : St) (obs : List Obs) (fs : List Frame) : Prop :=
  ∀ m, k.kS m + cnt (evS m) obs + rsum (sumF (fA m)) (stacks s) c.t + sumF (fA m) fs ≤ k.kO m + cnt (evO m) obs
     ∧ k.kO m + cnt (evO m) obs + rsum (sumF (fB m)) (stacks s) c.t + sumF (fB m) fs ≤ k.kN m + cnt (evN m) obs
     ∧ k.kN m + cnt (evN m) obs = s.invCount m

/-- at the end of a section -/
def Post (k : Tot) (out : Out) : Prop :=
  ∀ m, k.kS m + cnt (evS m) out.2 + lsum (sumF (fA m)) (stacks out.1) ≤ k.kO m + cnt (evO m) out.2
     ∧ k.kO m + cnt (evO m) out.2 + lsum (sumF (fB m)) (stacks out.1) ≤ k.kN m + cnt (evN m) out.2
     ∧ k.kN m + cnt (evN m) out.2 = out.1.invCount m

def Tot.add (k : Tot) (obs : List Obs) : Tot :=
  ⟨fun m => k.kS m + cnt (evS m) obs, fun m => k.kO m + cnt (evO m) obs, fun m => k.kN m + cnt (evN m) obs⟩

theorem acc_of_post {k : Tot} {out : Out} (h : Post k out) : Acc (k.add out.2) out.1 := h

/-- states with the same frame stacks and invocation counters -/
def SameL (s s' : St) : Prop := stacks s' = stacks s ∧ s'.invCount = s.invCount

theorem SameL.refl (s : St) : SameL s s := ⟨rfl, rfl⟩
theorem SameL.trans {a b c : St} (h1 : SameL a b) (h2 : SameL b c) : SameL a c :=
  ⟨h2.1.trans h1.1, h2.2.trans h1.2⟩

theorem Bud.same {k : Tot} {c : Ctx} {s s' : St} {obs : List Obs} {fs : List Frame} (h : Bud k c s obs fs)
    (hs : SameL s s') : Bud k c s' obs fs := by
  intro m; have := h m; rw [hs.1, hs.2]; exact this

theorem Bud.mono {k : Tot} {c : Ctx} {s : St} {obs : List Obs} {fs fs' : List Frame} (h : Bud k c s obs fs)
    (hA : ∀ m, sumF (fA m) fs' ≤ sumF (fA m) fs) (hB : ∀ m, sumF (fB m) fs' ≤ sumF (fB m) fs) : Bud k c s obs fs' := by
  intro m; have := h m; have := hA m; have := hB m; omega

theorem Bud.emit {k : Tot} {c : Ctx} {s : St} {obs : List Obs} {fs : List Frame} (h : Bud k c s obs fs)
    (o : Obs) (ho : o.neutral = true) : Bud k c s (obs ++ [o]) fs := by
  intro m; have := h m; have := neutral_ev ho m; simp only [cnt_append, cnt_cons, cnt_nil]; omega

/-- tokens, as representative frames -/
def tokA (n : Node) : Frame := .node default n false (.cbOk 0 .none)
def tokB (n : Node) : Frame := .node default n false (.cbStart 0 0)

@[simp] theorem fA_tokA (m n : Node) : fA m (tokA n) = unit n m := rfl
@[simp] theorem fB_tokA (m n : Node) : fB m (tokA n) = 0 := rfl
@[simp] theorem fA_tokB (m n : Node) : fA m (tokB n) = 0 := rfl
@[simp] theorem fB_tokB (m n : Node) : fB m (tokB n) = unit n m := rfl

theorem Bud.saved {k : Tot} {c : Ctx} {s : St} {obs : List Obs} {fs : List Frame} {n : Node}
    (h : Bud k c s obs (tokA n :: fs)) (v : Val) : Bud k c s (obs ++ [.save n v]) fs := by
  intro m; have := h m
  simp only [cnt_append, cnt_cons, cnt_nil, evS, evO, evN, sumF_cons, fA_tokA, fB_tokA] at this ⊢; omega

theorem Bud.okc {k : Tot} {c : Ctx} {s : St} {obs : List Obs} {fs : List Frame} {n : Node}
    (h : Bud k c s obs (tokB n :: fs)) : Bud k c s (obs ++ [.ncomplete n none]) (tokA n :: fs) := by
  intro m; have := h m
  simp only [cnt_append, cnt_cons, cnt_nil, evS, evO, evN, sumF_cons, fA_tokA, fB_tokA, fA_tokB, fB_tokB] at this ⊢; omega

theorem Bud.nstart {k : Tot} {c : Ctx} {s : St} {obs : List Obs} {fs : List Frame} (h : Bud k c s obs fs) (n : Node) :
    Bud k c (s.markProcessed n) (obs ++ [.nstart n]) (tokB n :: fs) := by
  intro m; have := h m
  have hst : stacks (s.markProcessed n) = stacks s := rfl
  simp only [cnt_append, cnt_cons, cnt_nil, evS, evO, evN, sumF_cons, fA_tokB, fB_tokB, hst] at this ⊢
  refine ⟨by omega, by omega, ?_⟩
  simp only [St.markProcessed, upd, unit]
  by_cases hmn : m = n
  · subst hmn; simp; omega
  · have : ¬ n = m := fun e => hmn e.symm
    simp [hmn, this]; omega

theorem Bud.spawned {k : Tot} {c : Ctx} {s : St} {obs : List Obs} {fs : List Frame} (h : Bud k c s obs fs)
    (fr : Frame) (nm : TaskName) (hA : ∀ m, fA m fr = 0) (hB : ∀ m, fB m fr = 0) :
    Bud k c (Eng.spawn s [fr] nm).1 obs fs := by
  intro m; have := h m
  have hst : stacks (Eng.spawn s [fr] nm).1 = stacks s ++ [[fr]] := by simp [stacks, Eng.spawn]
  rw [hst, rsum_append_zero _ _ (by simp [hA m]), rsum_append_zero _ _ (by simp [hB m])]
  exact this


/-! ### state changes that touch neither frames nor counters -/

theorem set_self {α} : ∀ (l : List α) (t : Nat) (a : α), l[t]? = some a → l.set t a = l
  | [], _, _, h => by simp at h
  | x :: xs, 0, a, h => by simp at h; subst h; rfl
  | x :: xs, t + 1, a, h => by
    simp at h
    simp [set_self xs t a h]

theorem stacks_setTask (s : St) (t : Nat) (tk : Task) : stacks (s.setTask t tk) = (stacks s).set t tk.frames := by
  simp [stacks, St.setTask, List.map_set]

theorem sameL_setTask {s : St} {t : Nat} {tk tk' : Task} (h : s.tasks[t]? = some tk) (hf : tk'.frames = tk.frames) :
    SameL s (s.setTask t tk') := by
  refine ⟨?_, rfl⟩
  rw [stacks_setTask, hf]
  apply set_self
  simp [stacks, h]

theorem sameL_mapTasks (s : St) (f : Task → Task) (hf : ∀ tk, (f tk).frames = tk.frames) :
    SameL s { s with tasks := s.tasks.map f } :=
  ⟨by simp [stacks, List.map_map, Function.comp_def, hf], rfl⟩

theorem sameL_notify (s : St) (k : Key) : SameL s (notify s k) := sameL_mapTasks s _ (fun _ => wakeIf_frames _ _)

theorem sameL_notifyAll : ∀ (ks : List Key) (s : St), SameL s (notifyAll s ks)
  | [], s => SameL.refl s
  | k :: ks, s => by
    simp only [notifyAll, List.foldl_cons]
    exact (sameL_notify s k).trans (sameL_notifyAll ks (notify s k))

theorem sameL_setEvent (s : St) (n : Node) : SameL s (setEvent s n) :=
  ⟨by simp [stacks, setEvent, List.map_map, Function.comp_def], rfl⟩

theorem sameL_cancelTask (s : St) (t : Nat) : SameL s (cancelTask s t) := by
  unfold cancelTask
  split
  · exact SameL.refl s
  · next tk h =>
    split
    · exact SameL.refl s
    · exact sameL_setTask h rfl
    · exact sameL_setTask h rfl

theorem sameL_cancelTasks : ∀ (ts : List Nat) (s : St), SameL s (cancelTasks s ts)
  | [], s => SameL.refl s
  | t :: ts, s => by
    simp only [cancelTasks, List.foldl_cons]
    exact (sameL_cancelTask s t).trans (sameL_cancelTasks ts (cancelTask s t))

theorem sameL_setRes (s : St) (n : Node) (v : Val) : SameL s (s.setRes n v) := ⟨rfl, rfl⟩
theorem sameL_setSw (s : St) (n : Node) (lc : Label × Node) : SameL s (s.setSw n lc) := ⟨rfl, rfl⟩
theorem sameL_setActive (s : St) (a : List (Node × Node)) : SameL s (s.setActive a) := ⟨rfl, rfl⟩
theorem sameL_setAdditional (s : St) (n : Node) (v : Val) : SameL s (s.setAdditional n v) := ⟨rfl, rfl⟩
theorem sameL_setOutcome (s : St) (o : Outcome) : SameL s (s.setOutcome o) := ⟨rfl, rfl⟩
theorem sameL_hide (s : St) (ns : List Node) : SameL s (s.hide ns) := ⟨rfl, rfl⟩
theorem sameL_invalidate (s : St) (ns : List Node) : SameL s (s.invalidate ns) := ⟨rfl, rfl⟩
theorem sameL_refresh (s : St) (ns : List Node) : SameL s (s.refresh ns) := by
  unfold St.refresh; split
  · exact SameL.refl s
  · exact ⟨rfl, rfl⟩
theorem sameL_openCand (s : St) (b : Bool) (n : Node) : SameL s (openCand s b n) := by
  unfold openCand; split
  · exact ⟨rfl, rfl⟩
  · exact SameL.refl s
theorem sameL_noteOrder (s : St) (b : Bool) : SameL s (s.noteOrder b) := by
  unfold St.noteOrder; split
  · exact SameL.refl s
  · exact ⟨rfl, rfl⟩

theorem sameL_nodeFinally (P : Program) (s : St) (d : DagRef) (n : Node) (u : Bool) : SameL s (nodeFinally P s d n u) := by
  unfold nodeFinally
  simp only []
  split
  · exact (sameL_setEvent s n).trans (sameL_notify _ _)
  · exact (((sameL_setEvent s n).trans (sameL_notifyAll _ _)).trans (sameL_notify _ _)).trans (sameL_notify _ _)

theorem sameL_unwindFrames (P : Program) : ∀ (fs : List Frame) (s : St), SameL s (unwindFrames P s fs)
  | [], s => SameL.refl s
  | f :: fs, s => by
    cases f <;> simp only [unwindFrames] <;> try exact sameL_unwindFrames P fs s
    split
    · exact sameL_unwindFrames P fs s
    · exact (sameL_nodeFinally P s _ _ true).trans (sameL_unwindFrames P fs _)

/-! ### how a section ends -/

theorem post_of_none {k : Tot} {c : Ctx} {s : St} {obs : List Obs} {fs : List Frame} (h : Bud k c s obs fs)
    (hn : s.tasks[c.t]? = none) : Post k (s, obs) := by
  intro m
  have := h m
  have hn' : (stacks s)[c.t]? = none := by simp [stacks, hn]
  simp only [lsum_eq_rsum_none _ _ _ hn']
  omega

theorem post_setTask {k : Tot} {c : Ctx} {s : St} {obs : List Obs} {fs : List Frame} (h : Bud k c s obs fs)
    (tk' : Task) (hf : tk'.frames = fs) : Post k (s.setTask c.t tk', obs) := by
  intro m
  have := h m
  simp only [stacks_setTask, hf]
  have hinv : (s.setTask c.t tk').invCount = s.invCount := rfl
  rw [hinv]
  cases hx : (stacks s)[c.t]? with
  | none =>
    have hlen : (stacks s).length ≤ c.t := by simpa using hx
    have hset : (stacks s).set c.t fs = stacks s := List.set_eq_of_length_le hlen
    rw [hset]
    simp only [lsum_eq_rsum_none _ _ _ hx]
    omega
  | some x =>
    have hlt : c.t < (stacks s).length := getElem?_lt hx
    have hg : ((stacks s).set c.t fs)[c.t]? = some fs := by simp [hlt]
    rw [lsum_eq_rsum_some _ _ _ _ hg, lsum_eq_rsum_some _ _ _ _ hg, rsum_set, rsum_set]
    omega

theorem post_endTask {k : Tot} {c : Ctx} {s : St} {obs : List Obs} {fs : List Frame} (h : Bud k c s obs fs)
    (r : TaskRes) : Post k (endTask c s obs r) := by
  unfold endTask
  split
  · next hn => exact post_of_none h hn
  · exact post_setTask ((h.emit (.done c.t r) rfl).mono (fs' := []) (by intro m; simp) (by intro m; simp)) _ rfl

theorem post_block {k : Tot} {c : Ctx} {s : St} {obs : List Obs} {fs : List Frame} (h : Bud k c s obs fs)
    (w : Wait) : Post k (block c s obs fs w) := by
  unfold block
  split
  · next hn => exact post_of_none h hn
  · exact post_setTask h _ rfl

theorem post_yieldNow {k : Tot} {c : Ctx} {s : St} {obs : List Obs} {fs : List Frame} (h : Bud k c s obs fs) :
    Post k (yieldNow c s obs fs) := by
  unfold yieldNow
  split
  · next hn => exact post_of_none h hn
  · exact post_setTask h _ rfl

theorem post_retTo {k : Tot} {c : Ctx} {s : St} {obs : List Obs} {below : List Frame} (h : Bud k c s obs below)
    (v : Val) : Post k (retTo c s obs below v) := by
  unfold retTo
  split
  · exact post_endTask h _
  · split
    · next hn => exact post_of_none h hn
    · exact post_setTask h _ rfl

theorem post_raiseOut {k : Tot} {c : Ctx} {s : St} {obs : List Obs} {fs : List Frame} (h : Bud k c s obs fs)
    (below : List Frame) (r : TaskRes) : Post k (raiseOut c s obs below r) := by
  unfold raiseOut
  exact post_endTask (h.same (sameL_unwindFrames _ _ _)) _


/-! ### one lemma per handler of `Eng` -/

/-- weights of concrete frame lists -/
macro "wt" : tactic => `(tactic| (intro m; simp [fA, fB, tokA, tokB] <;> omega))

section handlers
variable {k : Tot} {c : Ctx}

theorem post_dagWaitDest {s : St} {obs : List Obs} {below : List Frame} (h : Bud k c s obs below) (d : DagRef) :
    Post k (dagWaitDest c s obs d below) := by
  unfold dagWaitDest
  split
  · split
    · exact post_retTo h _
    · exact post_block (h.mono (by wt) (by wt)) _
  · exact post_block (h.mono (by wt) (by wt)) _

theorem launchFrame_fA (P : Program) (d : DagRef) (n m : Node) : fA m (launchFrame P d n) = 0 := by
  unfold launchFrame; split
  · rfl
  · split <;> rfl

theorem launchFrame_fB (P : Program) (d : DagRef) (n m : Node) : fB m (launchFrame P d n) = 0 := by
  unfold launchFrame; split
  · rfl
  · split <;> rfl

theorem post_dagLaunch (d : DagRef) (below : List Frame) : ∀ (rest : List Node) (s : St) (obs : List Obs),
    Bud k c s obs below → Post k (dagLaunch c d below s obs rest)
  | [], s, obs, h => by simp only [dagLaunch]; exact post_dagWaitDest h d
  | n :: rest, s, obs, h => by
    simp only [dagLaunch]
    split
    · split
      · apply post_retTo
        apply h.same
        refine SameL.trans (SameL.trans ?_ (sameL_notifyAll _ _)) (sameL_notify _ _)
        split
        · split
          · exact SameL.refl s
          · exact (sameL_setRes s _ _).trans (sameL_notifyAll _ _)
        · exact SameL.refl s
      · exact post_dagLaunch d below rest _ _
          (((h.spawned _ _ (launchFrame_fA _ _ _) (launchFrame_fB _ _ _))).emit _ rfl)
    · exact post_block (h.mono (by wt) (by wt)) _

theorem post_dagInit {s : St} {obs : List Obs} {below : List Frame} (h : Bud k c s obs below) (d : DagRef) :
    Post k (dagInit c s obs d below) := by
  unfold dagInit
  simp only []
  have h1 : ∀ obs', Bud k c (s.refresh d.nodes) obs' below →
      Bud k c ((s.refresh d.nodes).noteOrder (validOrder c.P (s.refresh d.nodes) d c.ord)) obs' below :=
    fun obs' hb => hb.same (sameL_noteOrder _ _)
  have h0 : Bud k c (s.refresh d.nodes) (obs ++ [.topo c.ord]) below :=
    (h.same (sameL_refresh _ _)).emit _ rfl
  have h2 : Bud k c ((s.refresh d.nodes).noteOrder (validOrder c.P (s.refresh d.nodes) d c.ord))
      (if validOrder c.P (s.refresh d.nodes) d c.ord = true then obs ++ [.topo c.ord]
        else obs ++ [.topo c.ord] ++ [.badOracle]) below := by
    apply h1
    split
    · exact h0
    · exact h0.emit _ rfl
  split
  · exact post_retTo h2 _
  · exact post_dagLaunch d below _ _ _ h2

theorem post_cbThen {s : St} {obs : List Obs} (frames : Nat → List Frame) (j : Nat) (kk : St → List Obs → Out)
    (hY : ∀ j, Bud k c s obs (frames j)) (hK : Post k (kk s obs)) : Post k (cbThen c s obs frames j kk) := by
  unfold cbThen
  split
  · exact hK
  · exact post_yieldNow (hY _)

theorem post_cbCall {s : St} {obs : List Obs} (cb : Cb) (n : Node) (frames : Nat → List Frame)
    (kOk : St → List Obs → Out) (kErr : Exc → St → List Obs → Out)
    (hY : ∀ j, Bud k c s obs (frames j)) (hOk : Post k (kOk s obs)) (hErr : ∀ e, Post k (kErr e s obs)) :
    Post k (cbCall c cb n s obs frames kOk kErr) := by
  unfold cbCall
  split
  · exact hErr _
  · exact post_cbThen frames _ kOk hY hOk

theorem post_nodeFinish {s : St} {obs : List Obs} {below : List Frame} (h : Bud k c s obs below) (d : DagRef) (n : Node) :
    Post k (nodeFinish c s obs d n below) := by
  unfold nodeFinish
  exact post_retTo (h.same (sameL_nodeFinally _ _ _ _ _)) _

theorem post_nodeCbRaise {s : St} {obs : List Obs} {fs : List Frame} (h : Bud k c s obs fs) (d : DagRef) (n : Node)
    (below : List Frame) (e : Exc) : Post k (nodeCbRaise c s obs d n below e) := by
  unfold nodeCbRaise
  exact post_raiseOut (h.same (sameL_nodeFinally _ _ _ _ _)) _ _

theorem post_nodeCbRaiseInTry {s : St} {obs : List Obs} {fs : List Frame} (h : Bud k c s obs fs) (d : DagRef) (n : Node)
    (below : List Frame) (e : Exc) : Post k (nodeCbRaiseInTry c s obs d n below e) := by
  unfold nodeCbRaiseInTry
  apply post_nodeCbRaise (fs := fs)
  split
  · exact h.emit _ rfl
  · exact h

theorem sameL_recSpawn (P : Program) (s : St) (d : DagRef) (n : Node) (v : Val) :
    ∀ {obs fs}, Bud k c s obs fs → Bud k c (recSpawn P s d n v) obs fs := by
  intro obs fs h
  unfold recSpawn
  split
  · exact h.spawned _ _ (fun _ => rfl) (fun _ => rfl)
  · exact h

theorem bud_storeIf {s : St} {obs : List Obs} {fs : List Frame} (h : Bud k c s obs fs) (b : Bool) (n : Node) (v : Val) :
    Bud k c (storeIf s b n v) obs fs := by
  unfold storeIf
  split
  · exact h.same (sameL_setRes _ _ _)
  · exact h

/-- `_run_node` after `_execute_node` returned: the owner arrives with the token of a reported success (or with more) -/
theorem post_nodePost {s : St} {obs : List Obs} {below : List Frame} (d : DagRef) (n : Node) (v : Val) (own : Bool)
    (h : Bud k c s obs (if own then tokA n :: below else below)) : Post k (nodePost c s obs d n below v own) := by
  unfold nodePost
  simp only []
  have hs : ∀ {fs}, Bud k c s obs fs →
      Bud k c (storeIf (recSpawn c.P s d n v) own n v)
        (if recSpawns c.P s n v = true then obs ++ [.spawn s.tasks.length (.recur n)] else obs) fs := by
    intro fs hb
    apply bud_storeIf
    apply sameL_recSpawn
    split
    · exact hb.emit _ rfl
    · exact hb
  split
  · next hc =>
    have hown : own = true := by
      cases own <;> simp_all
    subst hown
    have hb := (hs h).saved v
    apply post_cbCall
    · intro j; exact hb.mono (by wt) (by wt)
    · exact post_nodeFinish hb d n
    · intro e; exact post_nodeCbRaise hb d n below e
  · apply post_retTo
    apply Bud.same _ (sameL_nodeFinally _ _ _ _ _)
    apply hs
    cases own
    · exact h
    · exact h.mono (by wt) (by wt)

theorem post_nodeFailCont {s : St} {obs : List Obs} {below : List Frame} (h : Bud k c s obs below) (d : DagRef)
    (n : Node) (e : Exc) : Post k (nodeFailCont c s obs d n below e) := by
  unfold nodeFailCont
  split
  · -- an exception object is never saved: the branch of `nodePost` without a save
    unfold nodePost
    simp only [Val.isExc, Val.isRecur, Bool.not_true, Bool.and_false, Bool.false_eq_true, if_false]
    apply post_retTo
    apply Bud.same _ (sameL_nodeFinally _ _ _ _ _)
    apply bud_storeIf
    apply sameL_recSpawn
    split
    · exact h.emit _ rfl
    · exact h
  · exact post_raiseOut (h.same (sameL_nodeFinally _ _ _ _ _)) _ _

theorem neutral_ncomplete_some (n : Node) (e : Exc) : (Obs.ncomplete n (some e)).neutral = true := rfl

theorem post_nodeFail {s : St} {obs : List Obs} {below : List Frame} (h : Bud k c s obs below) (d : DagRef)
    (n : Node) (e : Exc) : Post k (nodeFail c s obs d n below e) := by
  unfold nodeFail
  have hb := h.emit (.ncomplete n (some e)) rfl
  apply post_cbCall
  · intro j; exact hb.mono (by wt) (by wt)
  · exact post_nodeFailCont hb d n e
  · intro e'; exact post_nodeCbRaise hb d n below e'

theorem post_nodeSuccess {s : St} {obs : List Obs} {below : List Frame} (h : Bud k c s obs (tokB n :: below)) (d : DagRef)
    (v : Val) : Post k (nodeSuccess c s obs d n below v) := by
  unfold nodeSuccess
  have hb := h.okc
  apply post_cbCall
  · intro j; exact hb.mono (by wt) (by wt)
  · exact post_nodePost d n v true (by simpa using hb)
  · intro e; exact post_nodeCbRaiseInTry hb d n below e

theorem post_nodeDefault {s : St} {obs : List Obs} {below : List Frame} (h : Bud k c s obs (tokB n :: below)) (d : DagRef)
    (kw : Kwargs) : Post k (nodeDefault c s obs d n below kw) := by
  unfold nodeDefault
  split
  · exact post_nodeSuccess (h.emit _ rfl) d _
  · split
    · exact post_nodeFail ((h.emit (.dflt n kw) rfl).mono (by wt) (by wt)) d n _
    · exact post_raiseOut ((h.emit (.dflt n kw) rfl).same (sameL_nodeFinally _ _ _ _ _)) _ _

theorem post_nodeSleep {s : St} {obs : List Obs} {below : List Frame} (h : Bud k c s obs (tokB n :: below)) (d : DagRef)
    (force : Bool) (kk : Nat) (kw : Kwargs) (inv : Nat) : Post k (nodeSleep c s obs d n force below kk kw inv) := by
  unfold nodeSleep
  simp only []
  split
  · exact post_block ((h.emit _ rfl).mono (by wt) (by wt)) _
  · exact post_yieldNow (h.mono (by wt) (by wt))

theorem post_nodeAfterBody {s : St} {obs : List Obs} {below : List Frame} (h : Bud k c s obs (tokB n :: below))
    (d : DagRef) (force : Bool) (kk : Nat) (kw : Kwargs) (inv : Nat) (o : BodyOutcome) :
    Post k (nodeAfterBody c s obs d n force below kk kw inv o) := by
  unfold nodeAfterBody
  simp only []
  have hlow : Bud k c s obs below := h.mono (by wt) (by wt)
  split
  · exact post_nodeSuccess h d _
  · next e =>
    split
    · split
      · split
        · exact post_nodeDefault h d kw
        · exact post_nodeFail hlow d n e
      · have hb := h.emit (.ncomplete n (some e)) rfl
        apply post_cbCall
        · intro j; exact hb.mono (by wt) (by wt)
        · exact post_nodeSleep hb d force kk kw inv
        · intro e'; exact post_nodeCbRaiseInTry hb d n below e'
    · split
      · split
        · exact post_nodeDefault h d kw
        · exact post_nodeFail hlow d n e
      · exact post_raiseOut (h.same (sameL_nodeFinally _ _ _ _ _)) _ _

theorem post_nodeAttempt {s : St} {obs : List Obs} {below : List Frame} (h : Bud k c s obs (tokB n :: below))
    (d : DagRef) (force : Bool) (kk : Nat) (kw : Kwargs) (inv : Nat) :
    Post k (nodeAttempt c s obs d n force below kk kw inv) := by
  unfold nodeAttempt
  split
  · exact post_nodeDefault h d kw
  · simp only []
    split
    · exact post_nodeAfterBody (h.emit _ rfl) d force kk kw inv _
    · exact post_block (((h.emit _ rfl).emit _ rfl).mono (by wt) (by wt)) _

theorem post_nodeBegin {s : St} {obs : List Obs} {below : List Frame} (h : Bud k c s obs (tokB n :: below))
    (d : DagRef) (force : Bool) (inv : Nat) : Post k (nodeBegin c s obs d n force below inv) := by
  unfold nodeBegin
  split
  · exact post_nodeFail (h.mono (by wt) (by wt)) d n _
  · exact post_nodeAttempt h d force 1 _ inv

theorem post_nodeStart {s : St} {obs : List Obs} {below : List Frame} (h : Bud k c s obs below)
    (d : DagRef) (n : Node) (force : Bool) : Post k (nodeStart c s obs d n force below) := by
  unfold nodeStart
  split
  · split
    · exact post_nodePost d n _ false (by simpa using h)
    · exact post_block (h.mono (by wt) (by wt)) _
  · simp only []
    have hb := h.nstart n
    apply post_cbCall
    · intro j; exact hb.mono (by wt) (by wt)
    · exact post_nodeBegin hb d force _
    · intro e; exact post_nodeCbRaise hb d n below e

theorem post_oneofWin {s : St} {obs : List Obs} {below : List Frame} (h : Bud k c s obs below) (head cand : Node) :
    Post k (oneofWin c s obs head cand below) := by
  unfold oneofWin
  apply post_retTo
  apply h.same
  exact (((sameL_setRes s _ _).trans (sameL_notify _ _)).trans (sameL_notifyAll _ _)).trans (sameL_notify _ _)

theorem post_oneofTry (d : DagRef) (head : Node) (below : List Frame) : ∀ (cands : List Node) (s : St) (obs : List Obs),
    Bud k c s obs below → Post k (oneofTry c d head below s obs cands)
  | [], s, obs, h => by
    simp only [oneofTry]
    split
    · apply post_retTo
      apply h.same
      exact ((sameL_setRes s _ _).trans (sameL_notify _ _)).trans (sameL_notifyAll _ _)
    · exact post_raiseOut (h.same (sameL_notify _ _)) _ _
  | cand :: rest, s, obs, h => by
    simp only [oneofTry]
    split
    · exact post_raiseOut (h.same (sameL_openCand _ _ _)) _ _
    · next sub hsub =>
      have hb : Bud k c (spawn ((openCand s true cand).refresh sub.nodes) [.dagInit sub] .dag).1
          (obs ++ [.spawn ((openCand s true cand).refresh sub.nodes).tasks.length .dag]) below :=
        ((((h.same (sameL_openCand _ _ _)).same (sameL_refresh _ _)).emit _ rfl).spawned _ _ (fun _ => rfl) (fun _ => rfl))
      split
      · split
        · exact post_oneofTry d head below rest _ _ hb
        · exact post_oneofWin hb head cand
      · exact post_block (hb.mono (by wt) (by wt)) _

theorem post_oneofWake {s : St} {obs : List Obs} {below : List Frame} (h : Bud k c s obs below) (d : DagRef)
    (head cand : Node) (rest : List Node) (sub : DagRef) : Post k (oneofWake c s obs d head cand rest sub below) := by
  unfold oneofWake
  split
  · split
    · exact post_oneofTry d head below rest _ _ h
    · exact post_oneofWin h head cand
  · exact post_block (h.mono (by wt) (by wt)) _

theorem post_switchStart {s : St} {obs : List Obs} {below : List Frame} (h : Bud k c s obs below) (d : DagRef) (n : Node) :
    Post k (switchStart c s obs d n below) := by
  unfold switchStart
  split
  · simp only []
    split
    · apply post_retTo
      apply h.same
      exact ((sameL_setRes s _ _).trans (sameL_notify _ _)).trans (sameL_notifyAll _ _)
    · exact post_raiseOut (h.same (sameL_notify _ _)) _ _
  · next l cn hsel =>
    simp only []
    have hb : Bud k c (openCand (s.setSw n (l, cn)) d.isOneof cn) obs below :=
      (h.same (sameL_setSw _ _ _)).same (sameL_openCand _ _ _)
    split
    · exact post_raiseOut hb _ _
    · exact post_dagInit (hb.mono (fs' := .switchRet d n :: below) (by wt) (by wt)) _

theorem post_recFinish {s : St} {obs : List Obs} {below : List Frame} (h : Bud k c s obs below) (n start : Node) :
    Post k (recFinish c s obs n start below) := by
  unfold recFinish
  exact post_retTo (h.same (sameL_setActive _ _)) _

theorem post_recIter {s : St} {obs : List Obs} {below : List Frame} (h : Bud k c s obs below) (d : DagRef) (n start : Node)
    (g : DagRef) (kk : Nat) (r : Val) : Post k (recIter c s obs d n start g kk r below) := by
  unfold recIter
  simp only []
  split
  · apply post_dagInit
    exact ((h.same (sameL_setAdditional _ _ _)).same (sameL_invalidate _ _)).mono (by wt) (by wt)
  · split
    · exact post_nodeStart ((h.same (sameL_hide _ _)).mono (fs' := .recDfltRet d n start :: below) (by wt) (by wt)) d n true
    · split
      · apply post_recFinish
        apply h.same
        exact ((sameL_setRes s _ _).trans (sameL_notify _ _)).trans (sameL_notifyAll _ _)
      · exact post_raiseOut (h.same (sameL_notify _ _)) _ _

theorem post_recStart {s : St} {obs : List Obs} {below : List Frame} (h : Bud k c s obs below) (d : DagRef) (n : Node)
    (r : Val) : Post k (recStart c s obs d n r below) := by
  unfold recStart
  split
  · exact post_raiseOut h _ _
  · split
    · exact post_retTo h _
    · simp only []
      next start hst hact =>
      have hb := h.same (sameL_setActive s ((start, n) :: s.active))
      split
      · exact post_raiseOut hb _ _
      · split
        · exact post_raiseOut hb _ _
        · exact post_recIter hb d n _ _ 0 r

theorem post_mgrReturn {s : St} {obs : List Obs} {fs : List Frame} (h : Bud k c s obs fs) (o : Outcome) :
    Post k (mgrReturn c s obs o) := by
  unfold mgrReturn
  have := post_endTask (h.emit (.returned o) rfl) .ok
  intro m
  exact this m

theorem post_mgrComplete {s : St} {obs : List Obs} {fs : List Frame} (h : Bud k c s obs fs) (o : Outcome) :
    Post k (mgrComplete c s obs o) := by
  unfold mgrComplete
  split
  · exact post_mgrReturn h _
  · have hb := h.emit (.pcomplete o) rfl
    apply post_cbCall
    · intro j; exact hb.mono (by wt) (by wt)
    · exact post_mgrReturn hb o
    · intro e
      simp only []
      apply post_mgrReturn (fs := fs)
      repeat' split
      all_goals first | exact hb.emit (.pcomplete (.error e)) rfl | exact hb

theorem post_mgrFinish {s : St} {obs : List Obs} {fs : List Frame} (h : Bud k c s obs fs) : Post k (mgrFinish c s obs) := by
  unfold mgrFinish
  exact post_mgrComplete (h.same (sameL_cancelTasks _ _)) _

theorem post_mgrCheck {s : St} {obs : List Obs} {fs : List Frame} (h : Bud k c s obs fs) : Post k (mgrCheck c s obs) := by
  unfold mgrCheck
  split
  · exact post_mgrFinish h
  · exact post_block (h.mono (by wt) (by wt)) _

theorem post_mgrBegin {s : St} {obs : List Obs} {fs : List Frame} (h : Bud k c s obs fs) : Post k (mgrBegin c s obs) := by
  unfold mgrBegin
  split
  · exact post_mgrComplete h _
  · split
    · exact post_mgrComplete h _
    · exact post_mgrCheck ((h.emit _ rfl).spawned _ _ (fun _ => rfl) (fun _ => rfl))

theorem post_mgrStart {s : St} {obs : List Obs} {fs : List Frame} (h : Bud k c s obs fs) : Post k (mgrStart c s obs) := by
  unfold mgrStart
  have hb := h.emit .pstart rfl
  apply post_cbCall
  · intro j; exact hb.mono (by wt) (by wt)
  · exact post_mgrBegin hb
  · intro e; exact post_mgrReturn hb _

end handlers


/-! ### sections, steps, executions -/

theorem post_deliverCancel {k : Tot} {c : Ctx} {s : St} {fs : List Frame} (h : Bud k c s [] fs) (tk : Task) :
    Post k (deliverCancel c s tk) := by
  have caller : ∀ s0, Bud k c s0 [] fs →
      Post k ((endTask c s0 [.returned .cancelled] .cancelled).1.setOutcome .cancelled,
              (endTask c s0 [.returned .cancelled] .cancelled).2) := by
    intro s0 h0
    have := post_endTask (h0.emit (.returned .cancelled) rfl) .cancelled
    intro m
    exact this m
  unfold deliverCancel
  split
  · exact caller s h
  · exact caller s h
  · exact caller _ (h.same (sameL_cancelTasks _ _))
  · exact caller s h
  · exact post_raiseOut h _ _

theorem bud_of_acc {k : Tot} {c : Ctx} {s : St} {tk : Task} (h : Acc k s) (htk : s.tasks[c.t]? = some tk) :
    Bud k c s [] tk.frames := by
  intro m
  have := h m
  have hg : (stacks s)[c.t]? = some tk.frames := by simp [stacks, htk]
  rw [lsum_eq_rsum_some _ _ _ _ hg, lsum_eq_rsum_some _ _ _ _ hg] at this
  simp only [cnt_nil]
  omega

theorem post_stepTask {k : Tot} {c : Ctx} {s : St} {out : Out} (h : Acc k s) (hs : stepTask c s = some out) :
    Post k out := by
  unfold stepTask at hs
  split at hs
  · cases hs
  · next tk htk =>
    have hb := bud_of_acc (c := c) h htk
    split at hs
    · next rv hst =>
      split at hs
      · obtain rfl := Option.some.inj hs
        exact post_deliverCancel hb tk
      · split at hs
        all_goals (first | cases hs | (obtain rfl := Option.some.inj hs) | skip)
        all_goals (rename_i hfr; rw [hfr] at hb)
        · exact post_mgrStart hb
        · exact post_mgrCheck hb
        · exact post_cbThen _ _ _ (fun j => hb.mono (by wt) (by wt)) (post_mgrBegin hb)
        · exact post_cbThen _ _ _ (fun j => hb.mono (by wt) (by wt)) (post_mgrReturn hb _)
        · exact post_dagInit (hb.mono (by wt) (by wt)) _
        · exact post_dagLaunch _ _ _ _ _ (hb.mono (by wt) (by wt))
        · exact post_dagWaitDest (hb.mono (by wt) (by wt)) _
        · exact post_nodeStart (hb.mono (by wt) (by wt)) _ _ _
        · exact post_nodePost _ _ _ false (by simpa using hb.mono (by wt) (by wt))
        · exact post_nodeAfterBody (hb.mono (by wt) (by wt)) _ _ _ _ _ _
        · exact post_nodeAttempt (hb.mono (by wt) (by wt)) _ _ _ _ _
        · exact post_cbThen _ _ _ (fun j => hb.mono (by wt) (by wt)) (post_nodeBegin (hb.mono (by wt) (by wt)) _ _ _)
        · exact post_cbThen _ _ _ (fun j => hb.mono (by wt) (by wt))
            (post_nodeSleep (hb.mono (by wt) (by wt)) _ _ _ _ _)
        · exact post_cbThen _ _ _ (fun j => hb.mono (by wt) (by wt))
            (post_nodePost _ _ _ true (by simpa using hb.mono (by wt) (by wt)))
        · exact post_cbThen _ _ _ (fun j => hb.mono (by wt) (by wt)) (post_nodeFailCont (hb.mono (by wt) (by wt)) _ _ _)
        · exact post_cbThen _ _ _ (fun j => hb.mono (by wt) (by wt)) (post_nodeFinish (hb.mono (by wt) (by wt)) _ _)
        · exact post_switchStart (hb.mono (by wt) (by wt)) _ _
        · exact post_retTo ((hb.mono (by wt) (by wt)).same (sameL_notifyAll _ _)) _
        · exact post_oneofTry _ _ _ _ _ _ (hb.mono (by wt) (by wt))
        · exact post_oneofWake (hb.mono (by wt) (by wt)) _ _ _ _ _
        · exact post_recStart (hb.mono (by wt) (by wt)) _ _ _
        · split at hs
          · simp only [] at hs
            obtain rfl := Option.some.inj hs
            apply post_retTo
            split
            · exact (hb.mono (by wt) (by wt)).same
                (((sameL_setRes s _ _).trans (sameL_notify _ _)).trans (sameL_notifyAll _ _))
            · exact hb.mono (by wt) (by wt)
          · split at hs
            · obtain rfl := Option.some.inj hs
              exact post_recFinish (hb.mono (by wt) (by wt)) _ _
            · obtain rfl := Option.some.inj hs
              exact post_recIter (hb.mono (by wt) (by wt)) _ _ _ _ _ _
        · exact post_recFinish (hb.mono (by wt) (by wt)) _ _
    · cases hs


theorem Acc.same {k : Tot} {s s' : St} (h : Acc k s) (hs : SameL s s') : Acc k s' := by
  intro m; have := h m; rw [hs.1, hs.2]; exact this

theorem post_of_acc {k : Tot} {s : St} (h : Acc k s) : Post k (s, []) := by
  intro m; have := h m; simp only [cnt_nil]; omega

/-- every `Choice` preserves the ledger -/
theorem post_step {k : Tot} {P : Program} {s : St} {ch : Choice} {out : Out} (h : Acc k s)
    (hs : step P s ch = some out) : Post k out := by
  cases ch with
  | run t ord pick => exact post_stepTask h hs
  | gate n inv att =>
    simp only [step] at hs
    split at hs
    · cases hs
    · obtain rfl := Option.some.inj hs
      apply post_of_acc
      apply h.same
      refine sameL_mapTasks s _ ?_
      intro tk
      unfold gateDone
      split
      · split <;> rfl
      · rfl
  | timer t =>
    simp only [step] at hs
    split at hs
    · next tk htk =>
      split at hs
      · obtain rfl := Option.some.inj hs
        exact post_of_acc (h.same (sameL_setTask htk rfl))
      · cases hs
    · cases hs
  | cancelCaller =>
    simp only [step] at hs
    obtain rfl := Option.some.inj hs
    exact post_of_acc (h.same (sameL_cancelTask _ _))

/-- the event totals of a log -/
def totOf (log : List Obs) : Tot := ⟨fun m => cnt (evS m) log, fun m => cnt (evO m) log, fun m => cnt (evN m) log⟩

theorem totOf_append (log obs : List Obs) : totOf (log ++ obs) = (totOf log).add obs := by
  simp [totOf, Tot.add, cnt_append]

theorem acc_init : Acc (totOf []) init := by
  intro m
  simp [totOf, init, stacks, lsum, fA, fB]

/-- **the ledger holds in every execution** (all programs, all schedules) -/
theorem acc_exec {P : Program} {s : St} {log : List Obs} (h : Exec P s log) : Acc (totOf log) s := by
  induction h with
  | init => exact acc_init
  | step _ hs ih =>
    rw [totOf_append]
    exact acc_of_post (post_step ih hs)

theorem ledger {P : Program} {s : St} {log : List Obs} (h : Exec P s log) (m : Node) :
    cnt (evS m) log ≤ cnt (evO m) log ∧ cnt (evO m) log ≤ cnt (evN m) log ∧ cnt (evN m) log = s.invCount m := by
  have := acc_exec h m
  simp only [totOf] at this
  omega

/-- an executable run with its log, for closed examples -/
def execLog (P : Program) : St → List Obs → List Choice → Option (St × List Obs)
  | s, log, [] => some (s, log)
  | s, log, c :: cs => match step P s c with
    | some (s', obs) => execLog P s' (log ++ obs) cs
    | none => none

theorem exec_of_execLog {P : Program} : ∀ (cs : List Choice) (s : St) (log : List Obs) (r : St × List Obs),
    Exec P s log → execLog P s log cs = some r → Exec P r.1 r.2
  | [], s, log, r, h, hr => by
    simp only [execLog, Option.some.injEq] at hr; subst hr; exact h
  | c :: cs, s, log, r, h, hr => by
    simp only [execLog] at hr
    split at hr
    · next s' obs hs => exact exec_of_execLog cs s' (log ++ obs) r (.step h hs) hr
    · cases hr

end MLPE.Eng

import MLPE.Proofs.EngTasks
import MLPE.Proofs.EngBasic

/-!
# Ledger: every artifact save is paid for by a successful `on_node_complete`, every successful
`on_node_complete` by an `on_node_start`, every `on_node_start` by an invocation counted in the storage

All programs, all schedules.  Three event counters over the observation log of an execution
(`save n _`, `ncomplete n none`, `nstart n`) and two kinds of *tokens* held by frames of suspended tasks:

* `fB`: a `_run_node` frame that has emitted `on_node_start` for `n` and no final `on_node_complete` yet
  (suspended in `on_node_start`, awaiting a body, sleeping before a retry, suspended in the
  `on_node_complete(error)` of a retried attempt);
* `fA`: a `_run_node` frame that has emitted the successful `on_node_complete` and has not yet reached the
  decision to save (suspended in that callback).

Invariant (`Acc`): for every node `m`
`saves m + #fA-tokens m ≤ okCompletes m`,  `okCompletes m + #fB-tokens m ≤ starts m`,  `starts m = invCount m`.
-/
namespace MLPE.Eng
open MLPE

/-! ### counting -/

def cnt (e : Obs → Nat) : List Obs → Nat
  | [] => 0
  | o :: os => e o + cnt e os

@[simp] theorem cnt_nil (e : Obs → Nat) : cnt e [] = 0 := rfl
@[simp] theorem cnt_cons (e : Obs → Nat) (o : Obs) (os : List Obs) : cnt e (o :: os) = e o + cnt e os := rfl
@[simp] theorem cnt_append (e : Obs → Nat) (a b : List Obs) : cnt e (a ++ b) = cnt e a + cnt e b := by
  induction a with
  | nil => simp
  | cons o os ih => simp [ih]; omega

def unit (n m : Node) : Nat := if n = m then 1 else 0

/-- `artifact_store.save(node_id = m, …)` -/
def evS (m : Node) : Obs → Nat
  | .save n _ => unit n m
  | _ => 0
/-- `on_node_complete(node_id = m, error = None)` -/
def evO (m : Node) : Obs → Nat
  | .ncomplete n none => unit n m
  | _ => 0
/-- `on_node_start(node_id = m)` -/
def evN (m : Node) : Obs → Nat
  | .nstart n => unit n m
  | _ => 0

/-- `on_pipeline_start` -/
def evP : Obs → Nat
  | .pstart => 1
  | _ => 0
/-- `on_pipeline_complete(…)` -/
def evC : Obs → Nat
  | .pcomplete _ => 1
  | _ => 0

/-- an observation none of the counters sees -/
def Obs.neutral : Obs → Bool
  | .save .. => false
  | .ncomplete _ none => false
  | .nstart _ => false
  | .pstart => false
  | .pcomplete _ => false
  | _ => true

theorem neutral_ev {o : Obs} (h : o.neutral = true) (m : Node) :
    evS m o = 0 ∧ evO m o = 0 ∧ evN m o = 0 ∧ evP o = 0 ∧ evC o = 0 := by
  cases o <;> simp [Obs.neutral, evS, evO, evN, evP, evC] at h ⊢
  next n err => cases err <;> simp_all

/-! ### tokens held by frames -/

def fA (m : Node) : Frame → Nat
  | .node _ n _ (.cbOk ..) => unit n m
  | _ => 0

def fB (m : Node) : Frame → Nat
  | .node _ n _ (.cbStart ..) => unit n m
  | .node _ n _ (.body ..) => unit n m
  | .node _ n _ (.sleep ..) => unit n m
  | .node _ n _ (.cbRetry ..) => unit n m
  | _ => 0

/-- `chart.run` has not emitted `on_pipeline_start` yet -/
def fM : Frame → Nat
  | .mgrStart => 1
  | _ => 0

/-- `chart.run` has not emitted `on_pipeline_complete` yet -/
def fW : Frame → Nat
  | .mgrStart => 1
  | .mgrCbStart _ => 1
  | .mgrWait => 1
  | _ => 0

def sumF (f : Frame → Nat) : List Frame → Nat
  | [] => 0
  | x :: xs => f x + sumF f xs

@[simp] theorem sumF_nil (f : Frame → Nat) : sumF f [] = 0 := rfl
@[simp] theorem sumF_cons (f : Frame → Nat) (x : Frame) (xs : List Frame) : sumF f (x :: xs) = f x + sumF f xs := rfl

/-- all stacks -/
def lsum (G : List Frame → Nat) : List (List Frame) → Nat
  | [] => 0
  | x :: xs => G x + lsum G xs

/-- all stacks but the one at index `t` -/
def rsum (G : List Frame → Nat) : List (List Frame) → Nat → Nat
  | [], _ => 0
  | _ :: xs, 0 => lsum G xs
  | x :: xs, t + 1 => G x + rsum G xs t

theorem lsum_eq_rsum_some (G : List Frame → Nat) : ∀ (l : List (List Frame)) (t : Nat) (x : List Frame),
    l[t]? = some x → lsum G l = rsum G l t + G x
  | [], t, x, h => by simp at h
  | y :: ys, 0, x, h => by
    simp at h; subst h; simp [lsum, rsum]; omega
  | y :: ys, t + 1, x, h => by
    simp at h
    have := lsum_eq_rsum_some G ys t x h
    simp [lsum, rsum, this]; omega

theorem lsum_eq_rsum_none (G : List Frame → Nat) : ∀ (l : List (List Frame)) (t : Nat),
    l[t]? = none → lsum G l = rsum G l t
  | [], t, _ => by simp [lsum, rsum]
  | y :: ys, 0, h => by simp at h
  | y :: ys, t + 1, h => by
    simp at h
    have h' : ys[t]? = none := by simpa using h
    have := lsum_eq_rsum_none G ys t h'
    simp [lsum, rsum, this]

theorem rsum_set (G : List Frame → Nat) : ∀ (l : List (List Frame)) (t : Nat) (x : List Frame),
    rsum G (l.set t x) t = rsum G l t
  | [], t, x => by simp [rsum]
  | y :: ys, 0, x => by simp [rsum]
  | y :: ys, t + 1, x => by simp [rsum, rsum_set G ys t x]

theorem lsum_append (G : List Frame → Nat) (a b : List (List Frame)) : lsum G (a ++ b) = lsum G a + lsum G b := by
  induction a with
  | nil => simp [lsum]
  | cons x xs ih => simp [lsum, ih]; omega

theorem rsum_append_zero (G : List Frame → Nat) (y : List Frame) (hy : G y = 0) : ∀ (l : List (List Frame)) (t : Nat),
    rsum G (l ++ [y]) t = rsum G l t
  | [], 0 => by simp [rsum, lsum]
  | [], t + 1 => by simp [rsum, hy]
  | x :: xs, 0 => by simp [rsum, lsum_append, lsum, hy]
  | x :: xs, t + 1 => by simp [rsum, rsum_append_zero G y hy xs t]

/-! ### the invariant -/

def stacks (s : St) : List (List Frame) := s.tasks.map (·.frames)

/-- event totals before the current section; `hyp`: the event manager does not raise in `on_pipeline_complete` -/
structure Tot where
  kS : Node → Nat
  kO : Node → Nat
  kN : Node → Nat
  kP : Nat
  kC : Nat
  hyp : Prop

/-- between sections -/
def Acc (k : Tot) (s : St) : Prop :=
  (∀ m, k.kS m + lsum (sumF (fA m)) (stacks s) ≤ k.kO m
     ∧ k.kO m + lsum (sumF (fB m)) (stacks s) ≤ k.kN m
     ∧ k.kN m = s.invCount m)
  ∧ k.kP + lsum (sumF fM) (stacks s) ≤ 1
  ∧ (k.hyp → k.kC + lsum (sumF fW) (stacks s) ≤ 1)

/-- inside a section of task `c.t`, whose stack would be `fs` if it suspended now -/
def Bud (k : Tot) (c : Ctx) (s : St) (obs : List Obs) (fs : List Frame) : Prop :=
  (∀ m, k.kS m + cnt (evS m) obs + rsum (sumF (fA m)) (stacks s) c.t + sumF (fA m) fs ≤ k.kO m + cnt (evO m) obs
     ∧ k.kO m + cnt (evO m) obs + rsum (sumF (fB m)) (stacks s) c.t + sumF (fB m) fs ≤ k.kN m + cnt (evN m) obs
     ∧ k.kN m + cnt (evN m) obs = s.invCount m)
  ∧ k.kP + cnt evP obs + rsum (sumF fM) (stacks s) c.t + sumF fM fs ≤ 1
  ∧ (k.hyp → k.kC + cnt evC obs + rsum (sumF fW) (stacks s) c.t + sumF fW fs ≤ 1)

/-- at the end of a section -/
def Post (k : Tot) (out : Out) : Prop :=
  (∀ m, k.kS m + cnt (evS m) out.2 + lsum (sumF (fA m)) (stacks out.1) ≤ k.kO m + cnt (evO m) out.2
     ∧ k.kO m + cnt (evO m) out.2 + lsum (sumF (fB m)) (stacks out.1) ≤ k.kN m + cnt (evN m) out.2
     ∧ k.kN m + cnt (evN m) out.2 = out.1.invCount m)
  ∧ k.kP + cnt evP out.2 + lsum (sumF fM) (stacks out.1) ≤ 1
  ∧ (k.hyp → k.kC + cnt evC out.2 + lsum (sumF fW) (stacks out.1) ≤ 1)

def Tot.add (k : Tot) (obs : List Obs) : Tot :=
  ⟨fun m => k.kS m + cnt (evS m) obs, fun m => k.kO m + cnt (evO m) obs, fun m => k.kN m + cnt (evN m) obs,
   k.kP + cnt evP obs, k.kC + cnt evC obs, k.hyp⟩

theorem acc_of_post {k : Tot} {out : Out} (h : Post k out) : Acc (k.add out.2) out.1 := h

/-- states with the same frame stacks and invocation counters -/
def SameL (s s' : St) : Prop := stacks s' = stacks s ∧ s'.invCount = s.invCount

theorem SameL.refl (s : St) : SameL s s := ⟨rfl, rfl⟩
theorem SameL.trans {a b c : St} (h1 : SameL a b) (h2 : SameL b c) : SameL a c :=
  ⟨h2.1.trans h1.1, h2.2.trans h1.2⟩

theorem Bud.same {k : Tot} {c : Ctx} {s s' : St} {obs : List Obs} {fs : List Frame} (h : Bud k c s obs fs)
    (hs : SameL s s') : Bud k c s' obs fs := by
  unfold Bud at h ⊢; rw [hs.1, hs.2]; exact h

/-- the stack `fs'` holds no more tokens than `fs` -/
def Wle (fs' fs : List Frame) : Prop :=
  (∀ m, sumF (fA m) fs' ≤ sumF (fA m) fs ∧ sumF (fB m) fs' ≤ sumF (fB m) fs) ∧
  sumF fM fs' ≤ sumF fM fs ∧ sumF fW fs' ≤ sumF fW fs

theorem Bud.mono {k : Tot} {c : Ctx} {s : St} {obs : List Obs} {fs fs' : List Frame} (h : Bud k c s obs fs)
    (hw : Wle fs' fs) : Bud k c s obs fs' := by
  obtain ⟨h1, h2, h3⟩ := h
  obtain ⟨w1, w2, w3⟩ := hw
  refine ⟨fun m => ?_, by omega, fun hp => ?_⟩
  · have := h1 m; have := w1 m; omega
  · have := h3 hp; omega

theorem Bud.emit {k : Tot} {c : Ctx} {s : St} {obs : List Obs} {fs : List Frame} (h : Bud k c s obs fs)
    (o : Obs) (ho : o.neutral = true) : Bud k c s (obs ++ [o]) fs := by
  obtain ⟨h1, h2, h3⟩ := h
  simp only [Bud, cnt_append, cnt_cons, cnt_nil]
  refine ⟨fun m => ?_, ?_, fun hp => ?_⟩
  · have := h1 m; have := neutral_ev ho m; omega
  · have := neutral_ev ho 0; omega
  · have := h3 hp; have := neutral_ev ho 0; omega

/-- tokens, as representative frames -/
def tokA (n : Node) : Frame := .node default n false (.cbOk 0 .none)
def tokB (n : Node) : Frame := .node default n false (.cbStart 0 0)
/-- `chart.run` before `on_pipeline_start` / before `on_pipeline_complete` -/
def tokM : Frame := .mgrStart
def tokW : Frame := .mgrWait

@[simp] theorem fA_tokA (m n : Node) : fA m (tokA n) = unit n m := rfl
@[simp] theorem fB_tokA (m n : Node) : fB m (tokA n) = 0 := rfl
@[simp] theorem fA_tokB (m n : Node) : fA m (tokB n) = 0 := rfl
@[simp] theorem fB_tokB (m n : Node) : fB m (tokB n) = unit n m := rfl
@[simp] theorem fM_tokA (n : Node) : fM (tokA n) = 0 := rfl
@[simp] theorem fW_tokA (n : Node) : fW (tokA n) = 0 := rfl
@[simp] theorem fM_tokB (n : Node) : fM (tokB n) = 0 := rfl
@[simp] theorem fW_tokB (n : Node) : fW (tokB n) = 0 := rfl
@[simp] theorem fM_tokM : fM tokM = 1 := rfl
@[simp] theorem fW_tokM : fW tokM = 1 := rfl
@[simp] theorem fM_tokW : fM tokW = 0 := rfl
@[simp] theorem fW_tokW : fW tokW = 1 := rfl
@[simp] theorem fA_tokM (m : Node) : fA m tokM = 0 := rfl
@[simp] theorem fB_tokM (m : Node) : fB m tokM = 0 := rfl
@[simp] theorem fA_tokW (m : Node) : fA m tokW = 0 := rfl
@[simp] theorem fB_tokW (m : Node) : fB m tokW = 0 := rfl

/-- weights of concrete frame lists -/
macro "wt" : tactic =>
  `(tactic| (refine ⟨fun m => ⟨?_, ?_⟩, ?_, ?_⟩ <;> simp [fA, fB, fM, fW, tokA, tokB, tokM, tokW] <;> omega))


theorem Bud.saved {k : Tot} {c : Ctx} {s : St} {obs : List Obs} {fs : List Frame} {n : Node}
    (h : Bud k c s obs (tokA n :: fs)) (v : Val) : Bud k c s (obs ++ [.save n v]) fs := by
  obtain ⟨h1, h2, h3⟩ := h
  simp only [Bud, cnt_append, cnt_cons, cnt_nil, evS, evO, evN, evP, evC, sumF_cons, fA_tokA, fB_tokA, fM_tokA, fW_tokA] at h1 h2 h3 ⊢
  exact ⟨fun m => by have := h1 m; omega, by omega, fun hp => by have := h3 hp; omega⟩

theorem Bud.okc {k : Tot} {c : Ctx} {s : St} {obs : List Obs} {fs : List Frame} {n : Node}
    (h : Bud k c s obs (tokB n :: fs)) : Bud k c s (obs ++ [.ncomplete n none]) (tokA n :: fs) := by
  obtain ⟨h1, h2, h3⟩ := h
  simp only [Bud, cnt_append, cnt_cons, cnt_nil, evS, evO, evN, evP, evC, sumF_cons, fA_tokA, fB_tokA, fA_tokB, fB_tokB,
    fM_tokA, fW_tokA, fM_tokB, fW_tokB] at h1 h2 h3 ⊢
  exact ⟨fun m => by have := h1 m; omega, by omega, fun hp => by have := h3 hp; omega⟩

theorem Bud.nstart {k : Tot} {c : Ctx} {s : St} {obs : List Obs} {fs : List Frame} (h : Bud k c s obs fs) (n : Node) :
    Bud k c (s.markProcessed n) (obs ++ [.nstart n]) (tokB n :: fs) := by
  obtain ⟨h1, h2, h3⟩ := h
  have hst : stacks (s.markProcessed n) = stacks s := rfl
  simp only [Bud, cnt_append, cnt_cons, cnt_nil, evS, evO, evN, evP, evC, sumF_cons, fA_tokB, fB_tokB, fM_tokB, fW_tokB, hst]
    at h1 h2 h3 ⊢
  refine ⟨fun m => ?_, by omega, fun hp => by have := h3 hp; omega⟩
  have := h1 m
  refine ⟨by omega, by omega, ?_⟩
  simp only [St.markProcessed, upd, unit]
  by_cases hmn : m = n
  · subst hmn; simp; omega
  · have : ¬ n = m := fun e => hmn e.symm
    simp [hmn, this]; omega

/-- `on_pipeline_start` is emitted by the code that holds the start token; it still owes `on_pipeline_complete` -/
theorem Bud.pstarted {k : Tot} {c : Ctx} {s : St} {obs : List Obs} {fs : List Frame}
    (h : Bud k c s obs (tokM :: fs)) : Bud k c s (obs ++ [.pstart]) (tokW :: fs) := by
  obtain ⟨h1, h2, h3⟩ := h
  simp only [Bud, cnt_append, cnt_cons, cnt_nil, evS, evO, evN, evP, evC, sumF_cons, fA_tokM, fB_tokM, fA_tokW, fB_tokW,
    fM_tokM, fW_tokM, fM_tokW, fW_tokW] at h1 h2 h3 ⊢
  exact ⟨fun m => by have := h1 m; omega, by omega, fun hp => by have := h3 hp; omega⟩

/-- `on_pipeline_complete` is emitted by the code that holds the completion token -/
theorem Bud.pcompleted {k : Tot} {c : Ctx} {s : St} {obs : List Obs} {fs : List Frame}
    (h : Bud k c s obs (tokW :: fs)) (o : Outcome) : Bud k c s (obs ++ [.pcomplete o]) fs := by
  obtain ⟨h1, h2, h3⟩ := h
  simp only [Bud, cnt_append, cnt_cons, cnt_nil, evS, evO, evN, evP, evC, sumF_cons, fA_tokW, fB_tokW, fM_tokW, fW_tokW]
    at h1 h2 h3 ⊢
  exact ⟨fun m => by have := h1 m; omega, by omega, fun hp => by have := h3 hp; omega⟩

/-- a second `on_pipeline_complete` (the first one raised): only when the hypothesis "does not raise" is false -/
theorem Bud.pcompleted_again {k : Tot} {c : Ctx} {s : St} {obs : List Obs} {fs : List Frame}
    (h : Bud k c s obs fs) (o : Outcome) (hn : ¬ k.hyp) : Bud k c s (obs ++ [.pcomplete o]) fs := by
  obtain ⟨h1, h2, h3⟩ := h
  simp only [Bud, cnt_append, cnt_cons, cnt_nil, evS, evO, evN, evP, evC] at h1 h2 h3 ⊢
  exact ⟨fun m => by have := h1 m; omega, by omega, fun hp => absurd hp hn⟩

/-- a frame that holds no token -/
def Wzero (fr : Frame) : Prop := (∀ m, fA m fr = 0 ∧ fB m fr = 0) ∧ fM fr = 0 ∧ fW fr = 0

theorem Bud.spawned {k : Tot} {c : Ctx} {s : St} {obs : List Obs} {fs : List Frame} (h : Bud k c s obs fs)
    (fr : Frame) (nm : TaskName) (hz : Wzero fr) :
    Bud k c (Eng.spawn s [fr] nm).1 obs fs := by
  obtain ⟨h1, h2, h3⟩ := h
  obtain ⟨z1, z2, z3⟩ := hz
  have hst : stacks (Eng.spawn s [fr] nm).1 = stacks s ++ [[fr]] := by simp [stacks, Eng.spawn]
  have hinv : (Eng.spawn s [fr] nm).1.invCount = s.invCount := rfl
  unfold Bud
  rw [hst, hinv, rsum_append_zero _ _ (by simp [z2]), rsum_append_zero _ _ (by simp [z3])]
  refine ⟨fun m => ?_, h2, h3⟩
  rw [rsum_append_zero _ _ (by simp [(z1 m).1]), rsum_append_zero _ _ (by simp [(z1 m).2])]
  exact h1 m


/-! ### state changes that touch neither frames nor counters -/

theorem set_self {α} : ∀ (l : List α) (t : Nat) (a : α), l[t]? = some a → l.set t a = l
  | [], _, _, h => by simp at h
  | x :: xs, 0, a, h => by simp at h; subst h; rfl
  | x :: xs, t + 1, a, h => by
    simp at h
    simp [set_self xs t a h]

theorem stacks_setTask (s : St) (t : Nat) (tk : Task) : stacks (s.setTask t tk) = (stacks s).set t tk.frames := by
  simp [stacks, St.setTask, List.map_set]

theorem sameL_setTask {s : St} {t : Nat} {tk tk' : Task} (h : s.tasks[t]? = some tk) (hf : tk'.frames = tk.frames) :
    SameL s (s.setTask t tk') := by
  refine ⟨?_, rfl⟩
  rw [stacks_setTask, hf]
  apply set_self
  simp [stacks, h]

theorem sameL_mapTasks (s : St) (f : Task → Task) (hf : ∀ tk, (f tk).frames = tk.frames) :
    SameL s { s with tasks := s.tasks.map f } :=
  ⟨by simp [stacks, List.map_map, Function.comp_def, hf], rfl⟩

theorem sameL_notify (s : St) (k : Key) : SameL s (notify s k) := sameL_mapTasks s _ (fun _ => wakeIf_frames _ _)

theorem sameL_notifyAll : ∀ (ks : List Key) (s : St), SameL s (notifyAll s ks)
  | [], s => SameL.refl s
  | k :: ks, s => by
    simp only [notifyAll, List.foldl_cons]
    exact (sameL_notify s k).trans (sameL_notifyAll ks (notify s k))

theorem sameL_setEvent (s : St) (n : Node) : SameL s (setEvent s n) :=
  ⟨by simp [stacks, setEvent, List.map_map, Function.comp_def], rfl⟩

theorem sameL_cancelTask (s : St) (t : Nat) : SameL s (cancelTask s t) := by
  unfold cancelTask
  split
  · exact SameL.refl s
  · next tk h =>
    split
    · exact SameL.refl s
    · exact sameL_setTask h rfl
    · exact sameL_setTask h rfl

theorem sameL_cancelTasks : ∀ (ts : List Nat) (s : St), SameL s (cancelTasks s ts)
  | [], s => SameL.refl s
  | t :: ts, s => by
    simp only [cancelTasks, List.foldl_cons]
    exact (sameL_cancelTask s t).trans (sameL_cancelTasks ts (cancelTask s t))

theorem sameL_setRes (s : St) (n : Node) (v : Val) : SameL s (s.setRes n v) := ⟨rfl, rfl⟩
theorem sameL_setSw (s : St) (n : Node) (lc : Label × Node) : SameL s (s.setSw n lc) := ⟨rfl, rfl⟩
theorem sameL_setActive (s : St) (a : List (Node × Node)) : SameL s (s.setActive a) := ⟨rfl, rfl⟩
theorem sameL_setAdditional (s : St) (n : Node) (v : Val) : SameL s (s.setAdditional n v) := ⟨rfl, rfl⟩
theorem sameL_setOutcome (s : St) (o : Outcome) : SameL s (s.setOutcome o) := ⟨rfl, rfl⟩
theorem sameL_hide (s : St) (ns : List Node) : SameL s (s.hide ns) := ⟨rfl, rfl⟩
theorem sameL_invalidate (s : St) (ns : List Node) : SameL s (s.invalidate ns) := ⟨rfl, rfl⟩
theorem sameL_refresh (s : St) (ns : List Node) : SameL s (s.refresh ns) := by
  unfold St.refresh; split
  · exact SameL.refl s
  · exact ⟨rfl, rfl⟩
theorem sameL_openCand (s : St) (b : Bool) (n : Node) : SameL s (openCand s b n) := by
  unfold openCand; split
  · exact ⟨rfl, rfl⟩
  · exact SameL.refl s
theorem sameL_noteOrder (s : St) (b : Bool) : SameL s (s.noteOrder b) := by
  unfold St.noteOrder; split
  · exact SameL.refl s
  · exact ⟨rfl, rfl⟩

theorem sameL_nodeFinally (P : Program) (s : St) (d : DagRef) (n : Node) (u : Bool) : SameL s (nodeFinally P s d n u) := by
  unfold nodeFinally
  simp only []
  split
  · exact (sameL_setEvent s n).trans (sameL_notify _ _)
  · exact (((sameL_setEvent s n).trans (sameL_notifyAll _ _)).trans (sameL_notify _ _)).trans (sameL_notify _ _)

theorem sameL_unwindFrames (P : Program) : ∀ (fs : List Frame) (s : St), SameL s (unwindFrames P s fs)
  | [], s => SameL.refl s
  | f :: fs, s => by
    cases f <;> simp only [unwindFrames] <;> try exact sameL_unwindFrames P fs s
    split
    · exact sameL_unwindFrames P fs s
    · exact (sameL_nodeFinally P s _ _ true).trans (sameL_unwindFrames P fs _)

/-! ### how a section ends -/

theorem post_of_none {k : Tot} {c : Ctx} {s : St} {obs : List Obs} {fs : List Frame} (h : Bud k c s obs fs)
    (hn : s.tasks[c.t]? = none) : Post k (s, obs) := by
  obtain ⟨h1, h2, h3⟩ := h
  have hn' : (stacks s)[c.t]? = none := by simp [stacks, hn]
  simp only [Post, lsum_eq_rsum_none _ _ _ hn']
  exact ⟨fun m => by have := h1 m; omega, by omega, fun hp => by have := h3 hp; omega⟩

theorem post_setTask {k : Tot} {c : Ctx} {s : St} {obs : List Obs} {fs : List Frame} (h : Bud k c s obs fs)
    (tk' : Task) (hf : tk'.frames = fs) : Post k (s.setTask c.t tk', obs) := by
  obtain ⟨h1, h2, h3⟩ := h
  have hinv : (s.setTask c.t tk').invCount = s.invCount := rfl
  simp only [Post, stacks_setTask, hf, hinv]
  cases hx : (stacks s)[c.t]? with
  | none =>
    have hlen : (stacks s).length ≤ c.t := by simpa using hx
    have hset : (stacks s).set c.t fs = stacks s := List.set_eq_of_length_le hlen
    rw [hset]
    simp only [lsum_eq_rsum_none _ _ _ hx]
    exact ⟨fun m => by have := h1 m; omega, by omega, fun hp => by have := h3 hp; omega⟩
  | some x =>
    have hlt : c.t < (stacks s).length := getElem?_lt hx
    have hg : ((stacks s).set c.t fs)[c.t]? = some fs := by simp [hlt]
    have e : ∀ G : List Frame → Nat, lsum G ((stacks s).set c.t fs) = rsum G (stacks s) c.t + G fs := by
      intro G; rw [lsum_eq_rsum_some _ _ _ _ hg, rsum_set]
    simp only [e]
    exact ⟨fun m => by have := h1 m; omega, by omega, fun hp => by have := h3 hp; omega⟩

theorem post_endTask {k : Tot} {c : Ctx} {s : St} {obs : List Obs} {fs : List Frame} (h : Bud k c s obs fs)
    (r : TaskRes) : Post k (endTask c s obs r) := by
  unfold endTask
  split
  · next hn => exact post_of_none h hn
  · exact post_setTask ((h.emit (.done c.t r) rfl).mono (fs' := []) (by wt)) _ rfl

theorem post_block {k : Tot} {c : Ctx} {s : St} {obs : List Obs} {fs : List Frame} (h : Bud k c s obs fs)
    (w : Wait) : Post k (block c s obs fs w) := by
  unfold block
  split
  · next hn => exact post_of_none h hn
  · exact post_setTask h _ rfl

theorem post_yieldNow {k : Tot} {c : Ctx} {s : St} {obs : List Obs} {fs : List Frame} (h : Bud k c s obs fs) :
    Post k (yieldNow c s obs fs) := by
  unfold yieldNow
  split
  · next hn => exact post_of_none h hn
  · exact post_setTask h _ rfl

theorem post_retTo {k : Tot} {c : Ctx} {s : St} {obs : List Obs} {below : List Frame} (h : Bud k c s obs below)
    (v : Val) : Post k (retTo c s obs below v) := by
  unfold retTo
  split
  · exact post_endTask h _
  · split
    · next hn => exact post_of_none h hn
    · exact post_setTask h _ rfl

theorem post_raiseOut {k : Tot} {c : Ctx} {s : St} {obs : List Obs} {fs : List Frame} (h : Bud k c s obs fs)
    (below : List Frame) (r : TaskRes) : Post k (raiseOut c s obs below r) := by
  unfold raiseOut
  exact post_endTask (h.same (sameL_unwindFrames _ _ _)) _


/-! ### one lemma per handler of `Eng` -/

section handlers
variable {k : Tot} {c : Ctx}

theorem post_dagWaitDest {s : St} {obs : List Obs} {below : List Frame} (h : Bud k c s obs below) (d : DagRef) :
    Post k (dagWaitDest c s obs d below) := by
  unfold dagWaitDest
  split
  · split
    · exact post_retTo h _
    · exact post_block (h.mono (by wt)) _
  · exact post_block (h.mono (by wt)) _

macro "wz" : tactic => `(tactic| (refine ⟨fun m => ⟨?_, ?_⟩, ?_, ?_⟩ <;> rfl))

theorem launchFrame_wz (P : Program) (d : DagRef) (n : Node) : Wzero (launchFrame P d n) := by
  unfold launchFrame; split
  · wz
  · split <;> wz

theorem post_dagLaunch (d : DagRef) (below : List Frame) : ∀ (rest : List Node) (s : St) (obs : List Obs),
    Bud k c s obs below → Post k (dagLaunch c d below s obs rest)
  | [], s, obs, h => by simp only [dagLaunch]; exact post_dagWaitDest h d
  | n :: rest, s, obs, h => by
    simp only [dagLaunch]
    split
    · split
      · apply post_retTo
        apply h.same
        refine SameL.trans (SameL.trans ?_ (sameL_notifyAll _ _)) (sameL_notify _ _)
        split
        · split
          · exact SameL.refl s
          · exact (sameL_setRes s _ _).trans (sameL_notifyAll _ _)
        · exact SameL.refl s
      · exact post_dagLaunch d below rest _ _
          ((h.spawned _ _ (launchFrame_wz _ _ _)).emit _ rfl)
    · exact post_block (h.mono (by wt)) _

theorem post_dagInit {s : St} {obs : List Obs} {below : List Frame} (h : Bud k c s obs below) (d : DagRef) :
    Post k (dagInit c s obs d below) := by
  unfold dagInit
  simp only []
  have h1 : ∀ obs', Bud k c (s.refresh d.nodes) obs' below →
      Bud k c ((s.refresh d.nodes).noteOrder (validOrder c.P (s.refresh d.nodes) d c.ord)) obs' below :=
    fun obs' hb => hb.same (sameL_noteOrder _ _)
  have h0 : Bud k c (s.refresh d.nodes) (obs ++ [.topo c.ord]) below :=
    (h.same (sameL_refresh _ _)).emit _ rfl
  have h2 : Bud k c ((s.refresh d.nodes).noteOrder (validOrder c.P (s.refresh d.nodes) d c.ord))
      (if validOrder c.P (s.refresh d.nodes) d c.ord = true then obs ++ [.topo c.ord]
        else obs ++ [.topo c.ord] ++ [.badOracle]) below := by
    apply h1
    split
    · exact h0
    · exact h0.emit _ rfl
  split
  · exact post_retTo h2 _
  · exact post_dagLaunch d below _ _ _ h2

theorem post_cbThen {s : St} {obs : List Obs} (frames : Nat → List Frame) (j : Nat) (kk : St → List Obs → Out)
    (hY : ∀ j, Bud k c s obs (frames j)) (hK : Post k (kk s obs)) : Post k (cbThen c s obs frames j kk) := by
  unfold cbThen
  split
  · exact hK
  · exact post_yieldNow (hY _)

theorem post_cbCall {s : St} {obs : List Obs} (cb : Cb) (n : Node) (frames : Nat → List Frame)
    (kOk : St → List Obs → Out) (kErr : Exc → St → List Obs → Out)
    (hY : ∀ j, Bud k c s obs (frames j)) (hOk : Post k (kOk s obs)) (hErr : ∀ e, Post k (kErr e s obs)) :
    Post k (cbCall c cb n s obs frames kOk kErr) := by
  unfold cbCall
  split
  · exact hErr _
  · exact post_cbThen frames _ kOk hY hOk

theorem post_nodeFinish {s : St} {obs : List Obs} {below : List Frame} (h : Bud k c s obs below) (d : DagRef) (n : Node) :
    Post k (nodeFinish c s obs d n below) := by
  unfold nodeFinish
  exact post_retTo (h.same (sameL_nodeFinally _ _ _ _ _)) _

theorem post_nodeCbRaise {s : St} {obs : List Obs} {fs : List Frame} (h : Bud k c s obs fs) (d : DagRef) (n : Node)
    (below : List Frame) (e : Exc) : Post k (nodeCbRaise c s obs d n below e) := by
  unfold nodeCbRaise
  exact post_raiseOut (h.same (sameL_nodeFinally _ _ _ _ _)) _ _

theorem post_nodeCbRaiseInTry {s : St} {obs : List Obs} {fs : List Frame} (h : Bud k c s obs fs) (d : DagRef) (n : Node)
    (below : List Frame) (e : Exc) : Post k (nodeCbRaiseInTry c s obs d n below e) := by
  unfold nodeCbRaiseInTry
  apply post_nodeCbRaise (fs := fs)
  split
  · exact h.emit _ rfl
  · exact h

theorem sameL_recSpawn (P : Program) (s : St) (d : DagRef) (n : Node) (v : Val) :
    ∀ {obs fs}, Bud k c s obs fs → Bud k c (recSpawn P s d n v) obs fs := by
  intro obs fs h
  unfold recSpawn
  split
  · exact h.spawned _ _ (by wz)
  · exact h

theorem bud_storeIf {s : St} {obs : List Obs} {fs : List Frame} (h : Bud k c s obs fs) (b : Bool) (n : Node) (v : Val) :
    Bud k c (storeIf s b n v) obs fs := by
  unfold storeIf
  split
  · exact h.same (sameL_setRes _ _ _)
  · exact h

/-- `_run_node` after `_execute_node` returned: the owner arrives with the token of a reported success (or with more) -/
theorem post_nodePost {s : St} {obs : List Obs} {below : List Frame} (d : DagRef) (n : Node) (v : Val) (own : Bool)
    (h : Bud k c s obs (if own then tokA n :: below else below)) : Post k (nodePost c s obs d n below v own) := by
  unfold nodePost
  simp only []
  have hs : ∀ {fs}, Bud k c s obs fs →
      Bud k c (storeIf (recSpawn c.P s d n v) own n v)
        (if recSpawns c.P s n v = true then obs ++ [.spawn s.tasks.length (.recur n)] else obs) fs := by
    intro fs hb
    apply bud_storeIf
    apply sameL_recSpawn
    split
    · exact hb.emit _ rfl
    · exact hb
  split
  · next hc =>
    have hown : own = true := by
      cases own <;> simp_all
    subst hown
    have hb := (hs h).saved v
    apply post_cbCall
    · intro j; exact hb.mono (by wt)
    · exact post_nodeFinish hb d n
    · intro e; exact post_nodeCbRaise hb d n below e
  · apply post_retTo
    apply Bud.same _ (sameL_nodeFinally _ _ _ _ _)
    apply hs
    cases own
    · exact h
    · exact h.mono (by wt)

theorem post_nodeFailCont {s : St} {obs : List Obs} {below : List Frame} (h : Bud k c s obs below) (d : DagRef)
    (n : Node) (e : Exc) : Post k (nodeFailCont c s obs d n below e) := by
  unfold nodeFailCont
  split
  · -- an exception object is never saved: the branch of `nodePost` without a save
    unfold nodePost
    simp only [Val.isExc, Val.isRecur, Bool.not_true, Bool.and_false, Bool.false_eq_true, if_false]
    apply post_retTo
    apply Bud.same _ (sameL_nodeFinally _ _ _ _ _)
    apply bud_storeIf
    apply sameL_recSpawn
    split
    · exact h.emit _ rfl
    · exact h
  · exact post_raiseOut (h.same (sameL_nodeFinally _ _ _ _ _)) _ _

theorem neutral_ncomplete_some (n : Node) (e : Exc) : (Obs.ncomplete n (some e)).neutral = true := rfl

theorem post_nodeFail {s : St} {obs : List Obs} {below : List Frame} (h : Bud k c s obs below) (d : DagRef)
    (n : Node) (e : Exc) : Post k (nodeFail c s obs d n below e) := by
  unfold nodeFail
  have hb := h.emit (.ncomplete n (some e)) rfl
  apply post_cbCall
  · intro j; exact hb.mono (by wt)
  · exact post_nodeFailCont hb d n e
  · intro e'; exact post_nodeCbRaise hb d n below e'

theorem post_nodeSuccess {s : St} {obs : List Obs} {below : List Frame} (h : Bud k c s obs (tokB n :: below)) (d : DagRef)
    (v : Val) : Post k (nodeSuccess c s obs d n below v) := by
  unfold nodeSuccess
  have hb := h.okc
  apply post_cbCall
  · intro j; exact hb.mono (by wt)
  · exact post_nodePost d n v true (by simpa using hb)
  · intro e; exact post_nodeCbRaiseInTry hb d n below e

theorem post_nodeDefault {s : St} {obs : List Obs} {below : List Frame} (h : Bud k c s obs (tokB n :: below)) (d : DagRef)
    (kw : Kwargs) : Post k (nodeDefault c s obs d n below kw) := by
  unfold nodeDefault
  split
  · exact post_nodeSuccess (h.emit _ rfl) d _
  · split
    · exact post_nodeFail ((h.emit (.dflt n kw) rfl).mono (by wt)) d n _
    · exact post_raiseOut ((h.emit (.dflt n kw) rfl).same (sameL_nodeFinally _ _ _ _ _)) _ _

theorem post_nodeSleep {s : St} {obs : List Obs} {below : List Frame} (h : Bud k c s obs (tokB n :: below)) (d : DagRef)
    (force : Bool) (kk : Nat) (kw : Kwargs) (inv : Nat) : Post k (nodeSleep c s obs d n force below kk kw inv) := by
  unfold nodeSleep
  simp only []
  split
  · exact post_block ((h.emit _ rfl).mono (by wt)) _
  · exact post_yieldNow (h.mono (by wt))

theorem post_nodeAfterBody {s : St} {obs : List Obs} {below : List Frame} (h : Bud k c s obs (tokB n :: below))
    (d : DagRef) (force : Bool) (kk : Nat) (kw : Kwargs) (inv : Nat) (o : BodyOutcome) :
    Post k (nodeAfterBody c s obs d n force below kk kw inv o) := by
  unfold nodeAfterBody
  simp only []
  have hlow : Bud k c s obs below := h.mono (by wt)
  split
  · exact post_nodeSuccess h d _
  · next e =>
    split
    · split
      · split
        · exact post_nodeDefault h d kw
        · exact post_nodeFail hlow d n e
      · have hb := h.emit (.ncomplete n (some e)) rfl
        apply post_cbCall
        · intro j; exact hb.mono (by wt)
        · exact post_nodeSleep hb d force kk kw inv
        · intro e'; exact post_nodeCbRaiseInTry hb d n below e'
    · split
      · split
        · exact post_nodeDefault h d kw
        · exact post_nodeFail hlow d n e
      · exact post_raiseOut (h.same (sameL_nodeFinally _ _ _ _ _)) _ _

theorem post_nodeAttempt {s : St} {obs : List Obs} {below : List Frame} (h : Bud k c s obs (tokB n :: below))
    (d : DagRef) (force : Bool) (kk : Nat) (kw : Kwargs) (inv : Nat) :
    Post k (nodeAttempt c s obs d n force below kk kw inv) := by
  unfold nodeAttempt
  split
  · exact post_nodeDefault h d kw
  · simp only []
    split
    · exact post_nodeAfterBody (h.emit _ rfl) d force kk kw inv _
    · exact post_block (((h.emit _ rfl).emit _ rfl).mono (by wt)) _

theorem post_nodeBegin {s : St} {obs : List Obs} {below : List Frame} (h : Bud k c s obs (tokB n :: below))
    (d : DagRef) (force : Bool) (inv : Nat) : Post k (nodeBegin c s obs d n force below inv) := by
  unfold nodeBegin
  split
  · exact post_nodeFail (h.mono (by wt)) d n _
  · exact post_nodeAttempt h d force 1 _ inv

theorem post_nodeStart {s : St} {obs : List Obs} {below : List Frame} (h : Bud k c s obs below)
    (d : DagRef) (n : Node) (force : Bool) : Post k (nodeStart c s obs d n force below) := by
  unfold nodeStart
  split
  · split
    · exact post_nodePost d n _ false (by simpa using h)
    · exact post_block (h.mono (by wt)) _
  · simp only []
    have hb := h.nstart n
    apply post_cbCall
    · intro j; exact hb.mono (by wt)
    · exact post_nodeBegin hb d force _
    · intro e; exact post_nodeCbRaise hb d n below e

theorem post_oneofWin {s : St} {obs : List Obs} {below : List Frame} (h : Bud k c s obs below) (head cand : Node) :
    Post k (oneofWin c s obs head cand below) := by
  unfold oneofWin
  apply post_retTo
  apply h.same
  exact (((sameL_setRes s _ _).trans (sameL_notify _ _)).trans (sameL_notifyAll _ _)).trans (sameL_notify _ _)

theorem post_oneofTry (d : DagRef) (head : Node) (below : List Frame) : ∀ (cands : List Node) (s : St) (obs : List Obs),
    Bud k c s obs below → Post k (oneofTry c d head below s obs cands)
  | [], s, obs, h => by
    simp only [oneofTry]
    split
    · apply post_retTo
      apply h.same
      exact ((sameL_setRes s _ _).trans (sameL_notify _ _)).trans (sameL_notifyAll _ _)
    · exact post_raiseOut (h.same (sameL_notify _ _)) _ _
  | cand :: rest, s, obs, h => by
    simp only [oneofTry]
    split
    · exact post_raiseOut (h.same (sameL_openCand _ _ _)) _ _
    · next sub hsub =>
      have hb : Bud k c (spawn ((openCand s true cand).refresh sub.nodes) [.dagInit sub] .dag).1
          (obs ++ [.spawn ((openCand s true cand).refresh sub.nodes).tasks.length .dag]) below :=
        ((((h.same (sameL_openCand _ _ _)).same (sameL_refresh _ _)).emit _ rfl).spawned _ _ (by wz))
      split
      · split
        · exact post_oneofTry d head below rest _ _ hb
        · exact post_oneofWin hb head cand
      · exact post_block (hb.mono (by wt)) _

theorem post_oneofWake {s : St} {obs : List Obs} {below : List Frame} (h : Bud k c s obs below) (d : DagRef)
    (head cand : Node) (rest : List Node) (sub : DagRef) : Post k (oneofWake c s obs d head cand rest sub below) := by
  unfold oneofWake
  split
  · split
    · exact post_oneofTry d head below rest _ _ h
    · exact post_oneofWin h head cand
  · exact post_block (h.mono (by wt)) _

theorem post_switchStart {s : St} {obs : List Obs} {below : List Frame} (h : Bud k c s obs below) (d : DagRef) (n : Node) :
    Post k (switchStart c s obs d n below) := by
  unfold switchStart
  split
  · simp only []
    split
    · apply post_retTo
      apply h.same
      exact ((sameL_setRes s _ _).trans (sameL_notify _ _)).trans (sameL_notifyAll _ _)
    · exact post_raiseOut (h.same (sameL_notify _ _)) _ _
  · next l cn hsel =>
    simp only []
    have hb : Bud k c (openCand (s.setSw n (l, cn)) d.isOneof cn) obs below :=
      (h.same (sameL_setSw _ _ _)).same (sameL_openCand _ _ _)
    split
    · exact post_raiseOut hb _ _
    · exact post_dagInit (hb.mono (fs' := .switchRet d n :: below) (by wt)) _

theorem post_recFinish {s : St} {obs : List Obs} {below : List Frame} (h : Bud k c s obs below) (n start : Node) :
    Post k (recFinish c s obs n start below) := by
  unfold recFinish
  exact post_retTo (h.same (sameL_setActive _ _)) _

theorem post_recIter {s : St} {obs : List Obs} {below : List Frame} (h : Bud k c s obs below) (d : DagRef) (n start : Node)
    (g : DagRef) (kk : Nat) (r : Val) : Post k (recIter c s obs d n start g kk r below) := by
  unfold recIter
  simp only []
  split
  · apply post_dagInit
    exact ((h.same (sameL_setAdditional _ _ _)).same (sameL_invalidate _ _)).mono (by wt)
  · split
    · exact post_nodeStart ((h.same (sameL_hide _ _)).mono (fs' := .recDfltRet d n start :: below) (by wt)) d n true
    · split
      · apply post_recFinish
        apply h.same
        exact ((sameL_setRes s _ _).trans (sameL_notify _ _)).trans (sameL_notifyAll _ _)
      · exact post_raiseOut (h.same (sameL_notify _ _)) _ _

theorem post_recStart {s : St} {obs : List Obs} {below : List Frame} (h : Bud k c s obs below) (d : DagRef) (n : Node)
    (r : Val) : Post k (recStart c s obs d n r below) := by
  unfold recStart
  split
  · exact post_raiseOut h _ _
  · split
    · exact post_retTo h _
    · simp only []
      next start hst hact =>
      have hb := h.same (sameL_setActive s ((start, n) :: s.active))
      split
      · exact post_raiseOut hb _ _
      · split
        · exact post_raiseOut hb _ _
        · exact post_recIter hb d n _ _ 0 r

theorem post_mgrReturn {s : St} {obs : List Obs} {fs : List Frame} (h : Bud k c s obs fs) (o : Outcome) :
    Post k (mgrReturn c s obs o) := by
  unfold mgrReturn
  exact post_endTask (h.emit (.returned o) rfl) .ok

/-- `chart.run` reports the outcome: the one place that spends the completion token -/
theorem post_mgrComplete {s : St} {obs : List Obs} (h : Bud k c s obs [tokW]) (o : Outcome)
    (hk : k.hyp → c.P.cbRaise .pcomplete 0 = none) : Post k (mgrComplete c s obs o) := by
  unfold mgrComplete
  split
  · exact post_mgrReturn h _
  · have hb := h.pcompleted o
    unfold cbCall
    split
    · next e he =>
      have hn : ¬ k.hyp := fun hp => by rw [hk hp] at he; cases he
      simp only []
      apply post_mgrReturn (fs := [])
      repeat' split
      all_goals first | exact hb.pcompleted_again (.error e) hn | exact hb
    · exact post_cbThen _ _ _ (fun j => hb.mono (by wt)) (post_mgrReturn hb o)

theorem post_mgrFinish {s : St} {obs : List Obs} (h : Bud k c s obs [tokW])
    (hk : k.hyp → c.P.cbRaise .pcomplete 0 = none) : Post k (mgrFinish c s obs) := by
  unfold mgrFinish
  exact post_mgrComplete (h.same (sameL_cancelTasks _ _)) _ hk

theorem post_mgrCheck {s : St} {obs : List Obs} (h : Bud k c s obs [tokW])
    (hk : k.hyp → c.P.cbRaise .pcomplete 0 = none) : Post k (mgrCheck c s obs) := by
  unfold mgrCheck
  split
  · exact post_mgrFinish h hk
  · exact post_block (h.mono (by wt)) _

theorem post_mgrBegin {s : St} {obs : List Obs} (h : Bud k c s obs [tokW])
    (hk : k.hyp → c.P.cbRaise .pcomplete 0 = none) : Post k (mgrBegin c s obs) := by
  unfold mgrBegin
  split
  · exact post_mgrComplete h _ hk
  · split
    · exact post_mgrComplete h _ hk
    · exact post_mgrCheck ((h.emit _ rfl).spawned _ _ (by wz)) hk

theorem post_mgrStart {s : St} {obs : List Obs} (h : Bud k c s obs [tokM])
    (hk : k.hyp → c.P.cbRaise .pcomplete 0 = none) : Post k (mgrStart c s obs) := by
  unfold mgrStart
  have hb := h.pstarted
  apply post_cbCall
  · intro j; exact hb.mono (by wt)
  · exact post_mgrBegin hb hk
  · intro e; exact post_mgrReturn hb _

end handlers


/-! ### sections, steps, executions -/

theorem post_deliverCancel {k : Tot} {c : Ctx} {s : St} {fs : List Frame} (h : Bud k c s [] fs) (tk : Task) :
    Post k (deliverCancel c s tk) := by
  have caller : ∀ s0, Bud k c s0 [] fs →
      Post k ((endTask c s0 [.returned .cancelled] .cancelled).1.setOutcome .cancelled,
              (endTask c s0 [.returned .cancelled] .cancelled).2) := by
    intro s0 h0
    exact post_endTask (h0.emit (.returned .cancelled) rfl) .cancelled
  unfold deliverCancel
  split
  · exact caller s h
  · exact caller s h
  · exact caller _ (h.same (sameL_cancelTasks _ _))
  · exact caller s h
  · exact post_raiseOut h _ _

theorem bud_of_acc {k : Tot} {c : Ctx} {s : St} {tk : Task} (h : Acc k s) (htk : s.tasks[c.t]? = some tk) :
    Bud k c s [] tk.frames := by
  obtain ⟨h1, h2, h3⟩ := h
  have hg : (stacks s)[c.t]? = some tk.frames := by simp [stacks, htk]
  simp only [lsum_eq_rsum_some _ _ _ _ hg] at h1 h2 h3
  simp only [Bud, cnt_nil]
  exact ⟨fun m => by have := h1 m; omega, by omega, fun hp => by have := h3 hp; omega⟩

theorem post_stepTask {k : Tot} {c : Ctx} {s : St} {out : Out} (h : Acc k s) (hs : stepTask c s = some out)
    (hk : k.hyp → c.P.cbRaise .pcomplete 0 = none) : Post k out := by
  unfold stepTask at hs
  split at hs
  · cases hs
  · next tk htk =>
    have hb := bud_of_acc (c := c) h htk
    split at hs
    · next rv hst =>
      split at hs
      · obtain rfl := Option.some.inj hs
        exact post_deliverCancel hb tk
      · split at hs
        all_goals (first | cases hs | (obtain rfl := Option.some.inj hs) | skip)
        all_goals (rename_i hfr; rw [hfr] at hb)
        · exact post_mgrStart hb hk
        · exact post_mgrCheck hb hk
        · exact post_cbThen _ _ _ (fun j => hb.mono (by wt)) (post_mgrBegin (hb.mono (by wt)) hk)
        · exact post_cbThen _ _ _ (fun j => hb.mono (by wt)) (post_mgrReturn hb _)
        · exact post_dagInit (hb.mono (by wt)) _
        · exact post_dagLaunch _ _ _ _ _ (hb.mono (by wt))
        · exact post_dagWaitDest (hb.mono (by wt)) _
        · exact post_nodeStart (hb.mono (by wt)) _ _ _
        · exact post_nodePost _ _ _ false (by simpa using hb.mono (by wt))
        · exact post_nodeAfterBody (hb.mono (by wt)) _ _ _ _ _ _
        · exact post_nodeAttempt (hb.mono (by wt)) _ _ _ _ _
        · exact post_cbThen _ _ _ (fun j => hb.mono (by wt)) (post_nodeBegin (hb.mono (by wt)) _ _ _)
        · exact post_cbThen _ _ _ (fun j => hb.mono (by wt))
            (post_nodeSleep (hb.mono (by wt)) _ _ _ _ _)
        · exact post_cbThen _ _ _ (fun j => hb.mono (by wt))
            (post_nodePost _ _ _ true (by simpa using hb.mono (by wt)))
        · exact post_cbThen _ _ _ (fun j => hb.mono (by wt)) (post_nodeFailCont (hb.mono (by wt)) _ _ _)
        · exact post_cbThen _ _ _ (fun j => hb.mono (by wt)) (post_nodeFinish (hb.mono (by wt)) _ _)
        · exact post_switchStart (hb.mono (by wt)) _ _
        · exact post_retTo ((hb.mono (by wt)).same (sameL_notifyAll _ _)) _
        · exact post_oneofTry _ _ _ _ _ _ (hb.mono (by wt))
        · exact post_oneofWake (hb.mono (by wt)) _ _ _ _ _
        · exact post_recStart (hb.mono (by wt)) _ _ _
        · split at hs
          · simp only [] at hs
            obtain rfl := Option.some.inj hs
            apply post_retTo
            split
            · exact (hb.mono (by wt)).same
                (((sameL_setRes s _ _).trans (sameL_notify _ _)).trans (sameL_notifyAll _ _))
            · exact hb.mono (by wt)
          · split at hs
            · obtain rfl := Option.some.inj hs
              exact post_recFinish (hb.mono (by wt)) _ _
            · obtain rfl := Option.some.inj hs
              exact post_recIter (hb.mono (by wt)) _ _ _ _ _ _
        · exact post_recFinish (hb.mono (by wt)) _ _
    · cases hs


theorem Acc.same {k : Tot} {s s' : St} (h : Acc k s) (hs : SameL s s') : Acc k s' := by
  unfold Acc at h ⊢; rw [hs.1, hs.2]; exact h

theorem post_of_acc {k : Tot} {s : St} (h : Acc k s) : Post k (s, []) := by
  obtain ⟨h1, h2, h3⟩ := h
  simp only [Post, cnt_nil]
  exact ⟨fun m => by have := h1 m; omega, by omega, fun hp => by have := h3 hp; omega⟩

/-- every `Choice` preserves the ledger -/
theorem post_step {k : Tot} {P : Program} {s : St} {ch : Choice} {out : Out} (h : Acc k s)
    (hs : step P s ch = some out) (hk : k.hyp → P.cbRaise .pcomplete 0 = none) : Post k out := by
  cases ch with
  | run t ord pick => exact post_stepTask h hs hk
  | gate n inv att =>
    simp only [step] at hs
    split at hs
    · cases hs
    · obtain rfl := Option.some.inj hs
      apply post_of_acc
      apply h.same
      refine sameL_mapTasks s _ ?_
      intro tk
      unfold gateDone
      split
      · split <;> rfl
      · rfl
  | timer t =>
    simp only [step] at hs
    split at hs
    · next tk htk =>
      split at hs
      · obtain rfl := Option.some.inj hs
        exact post_of_acc (h.same (sameL_setTask htk rfl))
      · cases hs
    · cases hs
  | cancelCaller =>
    simp only [step] at hs
    obtain rfl := Option.some.inj hs
    exact post_of_acc (h.same (sameL_cancelTask _ _))

/-- the event totals of a log -/
def totOf (P : Program) (log : List Obs) : Tot :=
  ⟨fun m => cnt (evS m) log, fun m => cnt (evO m) log, fun m => cnt (evN m) log, cnt evP log, cnt evC log,
   P.cbRaise .pcomplete 0 = none⟩

theorem totOf_append (P : Program) (log obs : List Obs) : totOf P (log ++ obs) = (totOf P log).add obs := by
  simp [totOf, Tot.add, cnt_append]

theorem acc_init (P : Program) : Acc (totOf P []) init := by
  refine ⟨fun m => ?_, ?_, fun _ => ?_⟩ <;> simp [totOf, init, stacks, lsum, fA, fB, fM, fW]

/-- **the ledger holds in every execution** (all programs, all schedules) -/
theorem acc_exec {P : Program} {s : St} {log : List Obs} (h : Exec P s log) : Acc (totOf P log) s := by
  induction h with
  | init => exact acc_init P
  | step _ hs ih =>
    rw [totOf_append]
    exact acc_of_post (post_step ih hs (fun hp => hp))

theorem ledger {P : Program} {s : St} {log : List Obs} (h : Exec P s log) (m : Node) :
    cnt (evS m) log ≤ cnt (evO m) log ∧ cnt (evO m) log ≤ cnt (evN m) log ∧ cnt (evN m) log = s.invCount m := by
  have := (acc_exec h).1 m
  simp only [totOf] at this
  omega

/-- `on_pipeline_start` is emitted at most once in an execution; and when the event manager does not raise in
`on_pipeline_complete`, that event is emitted at most once too -/
theorem ledger_pipeline {P : Program} {s : St} {log : List Obs} (h : Exec P s log) :
    cnt evP log ≤ 1 ∧ (P.cbRaise .pcomplete 0 = none → cnt evC log ≤ 1) := by
  obtain ⟨_, h2, h3⟩ := acc_exec h
  simp only [totOf] at h2 h3
  exact ⟨by omega, fun hp => by have := h3 hp; omega⟩

/-- an executable run with its log, for closed examples -/
def execLog (P : Program) : St → List Obs → List Choice → Option (St × List Obs)
  | s, log, [] => some (s, log)
  | s, log, c :: cs => match step P s c with
    | some (s', obs) => execLog P s' (log ++ obs) cs
    | none => none

theorem exec_of_execLog {P : Program} : ∀ (cs : List Choice) (s : St) (log : List Obs) (r : St × List Obs),
    Exec P s log → execLog P s log cs = some r → Exec P r.1 r.2
  | [], s, log, r, h, hr => by
    simp only [execLog, Option.some.injEq] at hr; subst hr; exact h
  | c :: cs, s, log, r, h, hr => by
    simp only [execLog] at hr
    split at hr
    · next s' obs hs => exact exec_of_execLog cs s' (log ++ obs) r (.step h hs) hr
    · cases hr


/-! ### `on_pipeline_start` comes first -/

/-- the section only appends to the observations it was given -/
def Pre (obs : List Obs) (out : Out) : Prop := ∃ r, out.2 = obs ++ r

theorem Pre.refl (s : St) (obs : List Obs) : Pre obs (s, obs) := ⟨[], by simp⟩
theorem Pre.snoc {obs : List Obs} {o : Obs} {out : Out} (h : Pre (obs ++ [o]) out) : Pre obs out := by
  obtain ⟨r, hr⟩ := h; exact ⟨o :: r, by simp [hr]⟩
theorem Pre.app {obs l : List Obs} {out : Out} (h : Pre (obs ++ l) out) : Pre obs out := by
  obtain ⟨r, hr⟩ := h; exact ⟨l ++ r, by simp [hr]⟩

theorem pre_endTask (c : Ctx) (s : St) (obs : List Obs) (r : TaskRes) : Pre obs (endTask c s obs r) := by
  unfold endTask; split
  · exact Pre.refl _ _
  · exact ⟨_, rfl⟩

theorem pre_block (c : Ctx) (s : St) (obs : List Obs) (fs : List Frame) (w : Wait) : Pre obs (block c s obs fs w) := by
  unfold block; split <;> exact Pre.refl _ _

theorem pre_yieldNow (c : Ctx) (s : St) (obs : List Obs) (fs : List Frame) : Pre obs (yieldNow c s obs fs) := by
  unfold yieldNow; split <;> exact Pre.refl _ _

theorem pre_mgrReturn (c : Ctx) (s : St) (obs : List Obs) (o : Outcome) : Pre obs (mgrReturn c s obs o) := by
  unfold mgrReturn
  obtain ⟨r, hr⟩ := pre_endTask c s (obs ++ [.returned o]) .ok
  exact ⟨.returned o :: r, by simp [hr]⟩

theorem pre_cbThen (c : Ctx) (s : St) (obs : List Obs) (frames : Nat → List Frame) (j : Nat) (kk : St → List Obs → Out)
    (hk : Pre obs (kk s obs)) : Pre obs (cbThen c s obs frames j kk) := by
  unfold cbThen; split
  · exact hk
  · exact pre_yieldNow _ _ _ _

theorem pre_cbCall (c : Ctx) (cb : Cb) (n : Node) (s : St) (obs : List Obs) (frames : Nat → List Frame)
    (kOk : St → List Obs → Out) (kErr : Exc → St → List Obs → Out)
    (hOk : Pre obs (kOk s obs)) (hErr : ∀ e, Pre obs (kErr e s obs)) : Pre obs (cbCall c cb n s obs frames kOk kErr) := by
  unfold cbCall; split
  · exact hErr _
  · exact pre_cbThen _ _ _ _ _ _ hOk

theorem pre_mgrComplete (c : Ctx) (s : St) (obs : List Obs) (o : Outcome) : Pre obs (mgrComplete c s obs o) := by
  unfold mgrComplete; split
  · exact pre_mgrReturn _ _ _ _
  · apply Pre.snoc (o := .pcomplete o)
    apply pre_cbCall
    · exact pre_mgrReturn _ _ _ _
    · intro e
      simp only []
      repeat' split
      all_goals first | exact (pre_mgrReturn _ _ _ _).snoc | exact pre_mgrReturn _ _ _ _

theorem pre_mgrFinish (c : Ctx) (s : St) (obs : List Obs) : Pre obs (mgrFinish c s obs) := by
  unfold mgrFinish; exact pre_mgrComplete _ _ _ _

theorem pre_mgrCheck (c : Ctx) (s : St) (obs : List Obs) : Pre obs (mgrCheck c s obs) := by
  unfold mgrCheck; split
  · exact pre_mgrFinish _ _ _
  · exact pre_block _ _ _ _ _

theorem pre_mgrBegin (c : Ctx) (s : St) (obs : List Obs) : Pre obs (mgrBegin c s obs) := by
  unfold mgrBegin; split
  · exact pre_mgrComplete _ _ _ _
  · split
    · exact pre_mgrComplete _ _ _ _
    · exact (pre_mgrCheck _ _ _).snoc

/-- the first thing `chart.run` does: `on_pipeline_start` -/
theorem mgrStart_head (c : Ctx) (s : St) : (mgrStart c s []).2.head? = some .pstart := by
  have : Pre [.pstart] (mgrStart c s []) := by
    unfold mgrStart
    apply pre_cbCall
    · exact pre_mgrBegin _ _ _
    · intro e; exact pre_mgrReturn _ _ _ _
  obtain ⟨r, hr⟩ := this
  rw [hr]; rfl

/-- the caller's task of the initial state, with its cancellation requested -/
def init' : St := cancelTask init 0

theorem cancel_init : cancelTask init 0 = init' := rfl
theorem cancel_init' : cancelTask init' 0 = init' := rfl

/-- a step from the initial state (cancelled or not) that reports nothing is the cancellation request; any other step
starts its report with `on_pipeline_start`, or — cancelled before it began — with the return of `CancelledError` -/
theorem first_step (P : Program) (s : St) (hs0 : s = init ∨ s = init') (ch : Choice) (s' : St) (obs : List Obs)
    (h : step P s ch = some (s', obs)) :
    (obs = [] ∧ (s' = init ∨ s' = init')) ∨ obs.head? = some .pstart ∨ obs.head? = some (.returned .cancelled) := by
  cases ch with
  | cancelCaller =>
    simp only [step, Option.some.injEq, Prod.mk.injEq] at h
    obtain ⟨rfl, rfl⟩ := h
    rcases hs0 with rfl | rfl
    · exact Or.inl ⟨rfl, Or.inr rfl⟩
    · exact Or.inl ⟨rfl, Or.inr rfl⟩
  | gate n inv att =>
    rcases hs0 with rfl | rfl <;> simp [step, init, init', cancelTask, St.setTask, gateMatches] at h
  | timer t =>
    rcases hs0 with rfl | rfl
    · simp only [step, init] at h
      cases t with
      | zero => simp at h
      | succ t => simp at h
    · simp only [step, init', init, cancelTask, St.setTask] at h
      cases t with
      | zero => simp at h
      | succ t => simp at h
  | run t ord pick =>
    rcases hs0 with rfl | rfl
    · cases t with
      | zero =>
        simp only [step, stepTask, init, List.getElem?_cons_zero] at h
        simp only [Bool.false_eq_true, if_false, Option.some.injEq] at h
        right; left
        have := mgrStart_head { P := P, t := 0, ord := ord, pick := pick } init
        simp only [init] at this
        rw [h] at this
        exact this
      | succ t => simp [step, stepTask, init] at h
    · cases t with
      | zero =>
        simp only [step, stepTask, init', init, cancelTask, St.setTask, List.getElem?_cons_zero, List.set_cons_zero] at h
        simp only [if_true, Option.some.injEq, deliverCancel] at h
        right; right
        have h2 := congrArg Prod.snd h
        simp only [endTask, List.getElem?_cons_zero] at h2
        rw [← h2]; rfl
      | succ t => simp [step, stepTask, init', init, cancelTask, St.setTask] at h

/-- **`on_pipeline_start` before anything else** (all programs, all schedules): the observation log of every execution is
empty, or begins with `on_pipeline_start`, or — the caller was cancelled before `chart.run` got its first turn — with the
return of `CancelledError` -/
theorem first_event {P : Program} {s : St} {log : List Obs} (h : Exec P s log) :
    (log = [] ∧ (s = init ∨ s = init')) ∨ log.head? = some .pstart ∨ log.head? = some (.returned .cancelled) := by
  induction h with
  | init => exact Or.inl ⟨rfl, Or.inl rfl⟩
  | @step s0 s1 log0 obs ch _ hs ih =>
    rcases ih with ⟨rfl, h0⟩ | hh
    · simpa using first_step P s0 h0 ch s1 obs hs
    · right
      cases log0 with
      | nil => simp at hh
      | cons x xs => simpa using hh


end MLPE.Eng

import MLPE.Store

namespace MLPE.Store

theorem ext_ne_aux (a b : String) : a ++ ".pickle" ≠ b ++ ".json" := by
  intro h
  have h2 := congrArg String.toList h
  simp only [String.toList_append] at h2
  have h3 := congrArg List.getLast? h2
  simp at h3

/-- distinct (key, format) pairs never share a file: `<id₁>.<ext₁> = <id₂>.<ext₂> → id₁ = id₂ ∧ ext₁ = ext₂` -/
theorem pathOf_inj {k k' : Key} {f f' : Fmt} (h : pathOf k f = pathOf k' f') : k = k' ∧ f = f' := by
  cases k with | mk c n => cases k' with | mk c' n' =>
  simp only [pathOf, Path.mk.injEq] at h
  obtain ⟨hc, hn⟩ := h
  subst hc
  cases f <;> cases f' <;> simp only [Fmt.ext] at hn
  · exact ⟨by rw [(String.append_left_inj _).mp hn], rfl⟩
  · exact absurd hn (ext_ne_aux _ _)
  · exact absurd hn.symm (ext_ne_aux _ _)
  · exact ⟨by rw [(String.append_left_inj _).mp hn], rfl⟩

end MLPE.Store

namespace MLPE.Store

variable {V B : Type}

/-- abstraction: the value a key currently denotes -/
def abs (c : Codec V B) (fs : FS B) : Spec V :=
  fun k => match find fs k with
    | some (f, b) => c.dec f b
    | none => none

/-- every file present under a key's name decodes (no torn / empty files) -/
def Decodable (c : Codec V B) (fs : FS B) : Prop :=
  ∀ k f b, fs (pathOf k f) = some b → ∃ v, c.dec f b = some v

def canEnc (c : Codec V B) (f : Fmt) (v : V) : Bool := (c.enc f v).isSome

theorem decodable_empty (c : Codec V B) : Decodable c FS.empty := by
  intro k f b h; simp [FS.empty] at h

theorem find_some_decodes {c : Codec V B} {fs : FS B} (hd : Decodable c fs) {k f b}
    (h : find fs k = some (f, b)) : ∃ v, c.dec f b = some v := by
  unfold find at h
  split at h
  · next b' hb => cases h; exact hd k _ _ hb
  · split at h
    · next b' hb => cases h; exact hd k _ _ hb
    · cases h

theorem find_write_other {fs : FS B} {k k' : Key} {f : Fmt} {b : B} (hne : k' ≠ k) :
    find (fs.write (pathOf k f) b) k' = find fs k' := by
  have h1 : ∀ f', pathOf k' f' ≠ pathOf k f := fun f' h => hne (pathOf_inj h).1
  simp [find, FS.write, h1]

theorem find_write_same {fs : FS B} {k : Key} {f : Fmt} {b : B} (hnone : find fs k = none) :
    find (fs.write (pathOf k f) b) k = some (f, b) := by
  have hp : fs (pathOf k .pickle) = none := by
    unfold find at hnone; split at hnone
    · cases hnone
    · assumption
  have hj : fs (pathOf k .json) = none := by
    unfold find at hnone; split at hnone
    · cases hnone
    · split at hnone
      · cases hnone
      · assumption
  have hpj : pathOf k .pickle ≠ pathOf k .json := fun h => by cases (pathOf_inj h).2
  cases f
  · simp [find, FS.write]
  · simp [find, FS.write, hpj, hp]

theorem step_decodable {c : Codec V B} (hrt : c.RoundTrip) {fs : FS B} (hd : Decodable c fs)
    (op : Op V) : Decodable c (step c fs op).1 := by
  cases op with
  | load k =>
    simp only [step]
    split
    · exact hd
    · split <;> exact hd
  | save k v f =>
    simp only [step]
    split
    · exact hd
    · split
      · exact hd
      · next b hb =>
        intro k' f' b' h'
        simp only [FS.write] at h'
        split at h'
        · next heq =>
          cases h'
          obtain ⟨_, rfl⟩ := pathOf_inj heq
          exact ⟨v, hrt _ _ _ hb⟩
        · exact hd k' f' b' h'

/-- one concrete step refines one step of the write-once map, and commutes with `abs` -/
theorem step_refines {c : Codec V B} (hrt : c.RoundTrip) {fs : FS B} (hd : Decodable c fs)
    (op : Op V) :
    (step c fs op).2 = (specStep (canEnc c) (abs c fs) op).2 ∧
    abs c (step c fs op).1 = (specStep (canEnc c) (abs c fs) op).1 := by
  cases op with
  | load k =>
    simp only [step, specStep, abs]
    cases hf : find fs k with
    | none => simp
    | some fb =>
      obtain ⟨f, b⟩ := fb
      obtain ⟨v, hv⟩ := find_some_decodes hd hf
      simp [hv]
  | save k v f =>
    simp only [step, specStep]
    cases hf : find fs k with
    | some fb =>
      obtain ⟨f', b⟩ := fb
      obtain ⟨v', hv'⟩ := find_some_decodes hd hf
      simp [abs, hf, hv']
    | none =>
      have habs : abs c fs k = none := by simp [abs, hf]
      simp only [habs]
      cases he : c.enc f v with
      | none => simp [canEnc, he]
      | some b =>
        simp only [canEnc, he, Option.isSome_some, if_true, true_and]
        funext k'
        by_cases hk : k' = k
        · subst hk
          simp [abs, find_write_same hf, hrt _ _ _ he]
        · simp [abs, find_write_other hk, hk]

theorem run_refines {c : Codec V B} (hrt : c.RoundTrip) (ops : List (Op V)) :
    ∀ {fs : FS B}, Decodable c fs →
    (run c fs ops).2 = (specRun (canEnc c) (abs c fs) ops).2 ∧
    abs c (run c fs ops).1 = (specRun (canEnc c) (abs c fs) ops).1 ∧
    Decodable c (run c fs ops).1 := by
  induction ops with
  | nil => intro fs hd; exact ⟨rfl, rfl, hd⟩
  | cons op ops ih =>
    intro fs hd
    obtain ⟨h1, h2⟩ := step_refines hrt hd op
    have hd' := step_decodable hrt hd op
    obtain ⟨i1, i2, i3⟩ := ih hd'
    simp only [run, specRun]
    rw [← h2]
    exact ⟨by rw [i1, h1], i2, i3⟩

theorem abs_empty (c : Codec V B) : abs c FS.empty = Spec.empty := by
  funext k; simp [abs, find, FS.empty, Spec.empty]

end MLPE.Store

import MLPE.Proofs.Plain

/-!
# A concrete plain program and schedule (non-vacuity witnesses for the plain-fragment theorems)
-/
namespace MLPE.Eng
open MLPE

def demoDiamond : Program :=
  { g := { nodes := [0, 1, 2, 3],
           edges := [{ u := 0, v := 1, kwarg := some "a" }, { u := 0, v := 2, kwarg := some "a" },
                     { u := 1, v := 3, kwarg := some "a" }, { u := 2, v := 3, kwarg := some "b" }],
           attr := fun _ => {}, input := 0, output := 3 },
    cfg := fun n => if n = 1 then { attempts := some 2, delay := some 1 } else {},
    body := fun n _ _ k => if n = 1 ∧ k = 1 then .raise ⟨"E0", 1, 0, 0⟩ else .ret (.int n),
    dflt := fun _ _ => .none,
    inputKw := [] }

def demoDag : DagRef := { source := 0, dest := some 3, nodes := [0, 1, 2, 3] }

theorem demoDiamond_plain : PlainP demoDiamond demoDag := by
  apply plainP_of_check (by decide) (fun _ => rfl) (fun _ => rfl)
  · intro n kw i k v h
    simp only [demoDiamond] at h
    split at h
    · cases h
    · cases h; exact ⟨rfl, rfl⟩
  · intro _ _; exact ⟨rfl, rfl⟩
  · intro _; rfl

/-- Boolean form of `OracleOK` -/
def oracleOKb (P : Program) (s : St) : Choice → Bool
  | .run t ord _ => match s.tasks[t]? with
    | some tk => match tk.frames with
      | [.dagInit d'] => validOrder P s d' ord
      | _ => true
    | none => true
  | _ => true

theorem oracleOK_of_b {P : Program} {s : St} {c : Choice} (h : oracleOKb P s c = true) : OracleOK P s c := by
  cases c with
  | run t ord pick =>
    intro tk d' h1 h2
    simp only [oracleOKb, h1, h2] at h
    exact h
  | gate => trivial
  | timer => trivial
  | cancelCaller => trivial

/-- run a list of choices, checking at every step that the run is still pending and the oracle is valid -/
def liveRun (P : Program) : St → List Choice → Option St
  | s, [] => some s
  | s, c :: cs =>
    if s.outcome.isNone && oracleOKb P s c then
      match step P s c with
      | some (s', _) => liveRun P s' cs
      | none => none
    else none

theorem live_of_liveRun {P : Program} : ∀ (cs : List Choice) (s s' : St), Live P s → liveRun P s cs = some s' → Live P s'
  | [], s, s', hl, hr => by simp [liveRun] at hr; exact hr ▸ hl
  | c :: cs, s, s', hl, hr => by
    simp only [liveRun] at hr
    split at hr
    · next hc =>
      simp only [Bool.and_eq_true, Option.isNone_iff_eq_none] at hc
      split at hr
      · next s1 obs hs => exact live_of_liveRun cs s1 s' (.step hl hc.1 (oracleOK_of_b hc.2) hs) hr
      · cases hr
    · cases hr

/-- a schedule of the diamond: node 0 completes, nodes 2 and 1 start (launch order `0,2,1,3`), node 1's first attempt
fails and its retry timer is armed, node 2 completes, the caller re-checks and goes back to waiting -/
def demoSchedule : List Choice :=
  [.run 0 [] 0, .run 1 [0, 2, 1, 3] 0, .run 2 [] 0, .gate 0 0 1, .run 2 [] 0, .run 1 [] 0, .run 4 [] 0, .run 3 [] 0,
   .gate 1 0 1, .run 4 [] 0, .gate 2 0 1, .run 3 [] 0, .run 0 [] 0]


/-- the last step of a checked run, taken apart -/
theorem liveRun_snoc {P : Program} : ∀ (cs : List Choice) (c : Choice) (s0 s' : St), Live P s0 →
    liveRun P s0 (cs ++ [c]) = some s' →
    ∃ s obs, Live P s ∧ s.outcome = none ∧ OracleOK P s c ∧ step P s c = some (s', obs)
  | [], c, s0, s', hl, hr => by
    simp only [List.nil_append, liveRun] at hr
    split at hr
    · next hc =>
      simp only [Bool.and_eq_true, Option.isNone_iff_eq_none] at hc
      split at hr
      · next s1 obs hs =>
        simp only [liveRun, Option.some.injEq] at hr
        subst hr
        exact ⟨s0, obs, hl, hc.1, oracleOK_of_b hc.2, hs⟩
      · cases hr
    · cases hr
  | c0 :: cs, c, s0, s', hl, hr => by
    simp only [List.cons_append, liveRun] at hr
    split at hr
    · next hc =>
      simp only [Bool.and_eq_true, Option.isNone_iff_eq_none] at hc
      split at hr
      · next s1 obs hs => exact liveRun_snoc cs c s1 s' (.step hl hc.1 (oracleOK_of_b hc.2) hs) hr
      · cases hr
    · cases hr

theorem demoDiamond_noCollabFailure : ∀ e, ¬ CollabFails demoDiamond e := by
  intro e ⟨cb, m, h⟩
  cases h

theorem idle_of_all {s : St} (h : s.tasks.all (fun tk => !isRunnable tk) = true) :
    ∀ (i : Nat) (tk : Task), s.tasks[i]? = some tk → isRunnable tk = false := by
  intro i tk hi
  rw [List.all_eq_true] at h
  have := h tk (List.mem_of_getElem? hi)
  simpa using this

end MLPE.Eng

import MLPE.Basic

/-!
# Soundness of the reachability computations of `Basic.lean`

`between g w s d` (the node set of `all_simple_paths` in a view) only contains nodes from which `d` can be reached along
edges the view keeps.  (Completeness is not needed by the proofs that use this file.)
-/
namespace MLPE.Graph
open MLPE

/-- an edge the view keeps -/
def VEdge (g : Graph) (w : View) (a b : Node) : Prop := ∃ e ∈ g.edges, e.u = a ∧ e.v = b ∧ w.okEdge e = true

/-- reachability along kept edges -/
inductive VReach (g : Graph) (w : View) : Node → Node → Prop
  | refl (a : Node) : VReach g w a a
  | tail {a b c : Node} : VReach g w a b → VEdge g w b c → VReach g w a c

theorem mem_vsuccs {g : Graph} {w : View} {x y : Node} (h : y ∈ g.vsuccs w x) : VEdge g w x y := by
  simp only [vsuccs, List.mem_map, List.mem_filter, Bool.and_eq_true, beq_iff_eq] at h
  obtain ⟨e, ⟨he, ⟨⟨⟨hu, hok⟩, _⟩, _⟩⟩, hv⟩ := h
  exact ⟨e, he, hu, hv, hok⟩

theorem mem_foldl_insert (l : List Node) : ∀ (acc : List Node) (y : Node),
    y ∈ l.foldl (fun acc x => if acc.contains x then acc else acc ++ [x]) acc → y ∈ acc ∨ y ∈ l := by
  induction l with
  | nil => intro acc y h; exact Or.inl h
  | cons a l ih =>
    intro acc y h
    simp only [List.foldl_cons] at h
    rcases ih _ y h with h1 | h1
    · split at h1
      · exact Or.inl h1
      · rcases List.mem_append.mp h1 with h2 | h2
        · exact Or.inl h2
        · simp only [List.mem_singleton] at h2; subst h2; exact Or.inr (by simp)
    · exact Or.inr (by simp [h1])

theorem mem_expand {g : Graph} {w : View} {S : List Node} {y : Node} (h : y ∈ g.expand w S) :
    y ∈ S ∨ ∃ x ∈ S, y ∈ g.vsuccs w x := by
  unfold expand at h
  rcases mem_foldl_insert _ _ _ h with h1 | h1
  · exact Or.inl h1
  · simp only [List.mem_flatMap] at h1
    exact Or.inr h1

theorem reachFuel_sound {g : Graph} {w : View} {a : Node} : ∀ (f : Nat) (S : List Node),
    (∀ y ∈ S, VReach g w a y) → ∀ y ∈ g.reachFuel w f S, VReach g w a y := by
  intro f
  induction f with
  | zero => intro S hS y hy; exact hS y hy
  | succ f ih =>
    intro S hS y hy
    simp only [reachFuel] at hy
    refine ih (g.expand w S) ?_ y hy
    intro z hz
    rcases mem_expand hz with h1 | ⟨x, hx, hzx⟩
    · exact hS z h1
    · exact .tail (hS x hx) (mem_vsuccs hzx)

theorem reachSet_sound {g : Graph} {w : View} {a y : Node} (h : y ∈ g.reachSet w a) : VReach g w a y := by
  unfold reachSet at h
  refine reachFuel_sound _ [a] ?_ y h
  intro z hz
  simp only [List.mem_singleton] at hz
  subst hz
  exact .refl _

/-- every node of `between g w s d` reaches `d` along kept edges -/
theorem between_sound {g : Graph} {w : View} {s d : Node} {L : List Node} (h : g.between w s d = some L) {x : Node}
    (hx : x ∈ L) : VReach g w x d := by
  unfold between at h
  split at h
  · cases h
  · split at h
    · cases h; cases hx
    · split at h
      · next hsd =>
        cases h
        simp only [List.mem_singleton] at hx
        have : s = d := by simpa using hsd
        subst hx; subst this; exact .refl _
      · cases h
        simp only [List.mem_filter, Bool.and_eq_true, List.contains_iff_mem] at hx
        exact reachSet_sound hx.2.2

/-- every node of `between g w s d` is a node of the graph the view shows -/
theorem between_visible {g : Graph} {w : View} {s d : Node} {L : List Node} (h : g.between w s d = some L) {x : Node}
    (hx : x ∈ L) : x ∈ g.nodes := by
  unfold between at h
  split at h
  · cases h
  · next h1 =>
    split at h
    · cases h; cases hx
    · split at h
      · cases h
        simp only [List.mem_singleton] at hx
        subst hx
        simp only [Bool.not_eq_true', Bool.and_eq_false_iff, not_or, Bool.not_eq_false, List.contains_iff_mem] at h1
        exact h1.1
      · cases h
        simp only [List.mem_filter, vnodes] at hx
        exact hx.1.1

end MLPE.Graph

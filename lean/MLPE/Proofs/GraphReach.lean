import MLPE.Basic

/-!
# Soundness of the reachability computations of `Basic.lean`

`between g w s d` (the node set of `all_simple_paths` in a view) only contains nodes from which `d` can be reached along
edges the view keeps.  (Completeness is not needed by the proofs that use this file.)
-/
namespace MLPE.Graph
open MLPE

/-- an edge the view keeps -/
def VEdge (g : Graph) (w : View) (a b : Node) : Prop := ∃ e ∈ g.edges, e.u = a ∧ e.v = b ∧ w.okEdge e = true

/-- reachability along kept edges -/
inductive VReach (g : Graph) (w : View) : Node → Node → Prop
  | refl (a : Node) : VReach g w a a
  | tail {a b c : Node} : VReach g w a b → VEdge g w b c → VReach g w a c

theorem mem_vsuccs {g : Graph} {w : View} {x y : Node} (h : y ∈ g.vsuccs w x) : VEdge g w x y := by
  simp only [vsuccs, List.mem_map, List.mem_filter, Bool.and_eq_true, beq_iff_eq] at h
  obtain ⟨e, ⟨he, ⟨⟨⟨hu, hok⟩, _⟩, _⟩⟩, hv⟩ := h
  exact ⟨e, he, hu, hv, hok⟩

theorem mem_foldl_insert (l : List Node) : ∀ (acc : List Node) (y : Node),
    y ∈ l.foldl (fun acc x => if acc.contains x then acc else acc ++ [x]) acc → y ∈ acc ∨ y ∈ l := by
  induction l with
  | nil => intro acc y h; exact Or.inl h
  | cons a l ih =>
    intro acc y h
    simp only [List.foldl_cons] at h
    rcases ih _ y h with h1 | h1
    · split at h1
      · exact Or.inl h1
      · rcases List.mem_append.mp h1 with h2 | h2
        · exact Or.inl h2
        · simp only [List.mem_singleton] at h2; subst h2; exact Or.inr (by simp)
    · exact Or.inr (by simp [h1])

theorem mem_expand {g : Graph} {w : View} {S : List Node} {y : Node} (h : y ∈ g.expand w S) :
    y ∈ S ∨ ∃ x ∈ S, y ∈ g.vsuccs w x := by
  unfold expand at h
  rcases mem_foldl_insert _ _ _ h with h1 | h1
  · exact Or.inl h1
  · simp only [List.mem_flatMap] at h1
    exact Or.inr h1

theorem reachFuel_sound {g : Graph} {w : View} {a : Node} : ∀ (f : Nat) (S : List Node),
    (∀ y ∈ S, VReach g w a y) → ∀ y ∈ g.reachFuel w f S, VReach g w a y := by
  intro f
  induction f with
  | zero => intro S hS y hy; exact hS y hy
  | succ f ih =>
    intro S hS y hy
    simp only [reachFuel] at hy
    refine ih (g.expand w S) ?_ y hy
    intro z hz
    rcases mem_expand hz with h1 | ⟨x, hx, hzx⟩
    · exact hS z h1
    · exact .tail (hS x hx) (mem_vsuccs hzx)

theorem reachSet_sound {g : Graph} {w : View} {a y : Node} (h : y ∈ g.reachSet w a) : VReach g w a y := by
  unfold reachSet at h
  refine reachFuel_sound _ [a] ?_ y h
  intro z hz
  simp only [List.mem_singleton] at hz
  subst hz
  exact .refl _

/-- every node of `between g w s d` reaches `d` along kept edges -/
theorem between_sound {g : Graph} {w : View} {s d : Node} {L : List Node} (h : g.between w s d = some L) {x : Node}
    (hx : x ∈ L) : VReach g w x d := by
  unfold between at h
  split at h
  · cases h
  · split at h
    · cases h; cases hx
    · split at h
      · next hsd =>
        cases h
        simp only [List.mem_singleton] at hx
        have : s = d := by simpa using hsd
        subst hx; subst this; exact .refl _
      · cases h
        simp only [List.mem_filter, Bool.and_eq_true, List.contains_iff_mem] at hx
        exact reachSet_sound hx.2.2

/-- every node of `between g w s d` is a node of the graph the view shows -/
theorem between_visible {g : Graph} {w : View} {s d : Node} {L : List Node} (h : g.between w s d = some L) {x : Node}
    (hx : x ∈ L) : x ∈ g.nodes := by
  unfold between at h
  split at h
  · cases h
  · next h1 =>
    split at h
    · cases h; cases hx
    · split at h
      · cases h
        simp only [List.mem_singleton] at hx
        subst hx
        simp only [Bool.not_eq_true', Bool.and_eq_false_iff, not_or, Bool.not_eq_false, List.contains_iff_mem] at h1
        exact h1.1
      · cases h
        simp only [List.mem_filter, vnodes] at hx
        exact hx.1.1

theorem subset_foldl_insert (l : List Node) : ∀ (acc : List Node) (y : Node), y ∈ acc →
    y ∈ l.foldl (fun acc x => if acc.contains x then acc else acc ++ [x]) acc := by
  induction l with
  | nil => intro acc y h; exact h
  | cons a l ih =>
    intro acc y h
    simp only [List.foldl_cons]
    apply ih
    split
    · exact h
    · exact List.mem_append_left _ h

theorem subset_expand {g : Graph} {w : View} {S : List Node} {y : Node} (h : y ∈ S) : y ∈ g.expand w S := by
  unfold expand
  exact subset_foldl_insert _ _ _ h

theorem subset_reachFuel {g : Graph} {w : View} : ∀ (f : Nat) (S : List Node) (y : Node), y ∈ S → y ∈ g.reachFuel w f S := by
  intro f
  induction f with
  | zero => intro S y h; exact h
  | succ f ih => intro S y h; simp only [reachFuel]; exact ih _ _ (subset_expand h)

theorem self_mem_reachSet (g : Graph) (w : View) (a : Node) : a ∈ g.reachSet w a := by
  unfold reachSet
  exact subset_reachFuel _ _ _ (by simp)

/-- the destination belongs to `between` when both ends are visible, distinct, and the source reaches it -/
theorem between_dst_mem {g : Graph} {w : View} {s d : Node} {L : List Node} (h : g.between w s d = some L)
    (hs : s ∈ g.nodes) (hsv : w.okNode s = true) (hd : d ∈ g.nodes) (hdv : w.okNode d = true) (hne : s ≠ d)
    (hr : d ∈ g.reachSet w s) : d ∈ L := by
  unfold between at h
  have h1 : (g.nodes.contains s && w.okNode s) = true := by simp [hs, hsv]
  have h2 : (g.nodes.contains d && w.okNode d) = true := by simp [hd, hdv]
  have h3 : (s == d) = false := by simpa using hne
  simp only [h1, h2, h3, Bool.not_true, Bool.false_eq_true, if_false] at h
  cases h
  simp only [List.mem_filter, vnodes, Bool.and_eq_true, List.contains_iff_mem]
  exact ⟨⟨hd, hdv⟩, hr, self_mem_reachSet g w d⟩

/-- reachability along kept edges does not depend on which nodes the view shows (only `okEdge` is used) -/
theorem VReach.of_okEdge {g : Graph} {w w' : View} (he : w.okEdge = w'.okEdge) {a b : Node} (h : VReach g w a b) :
    VReach g w' a b := by
  induction h with
  | refl => exact .refl _
  | tail _ hab ih =>
    obtain ⟨e, h1, h2, h3, h4⟩ := hab
    exact .tail ih ⟨e, h1, h2, h3, by rw [← he]; exact h4⟩

/-! ### monotonicity in the view -/

/-- `w'` shows at least the nodes `w` shows, and keeps the same edges -/
def View.le (w w' : View) : Prop := (∀ u, w.okNode u = true → w'.okNode u = true) ∧ w.okEdge = w'.okEdge

theorem vsuccs_mono {g : Graph} {w w' : View} (h : w.le w') {x y : Node} (hy : y ∈ g.vsuccs w x) : y ∈ g.vsuccs w' x := by
  simp only [vsuccs, List.mem_map, List.mem_filter, Bool.and_eq_true, beq_iff_eq] at hy ⊢
  obtain ⟨e, ⟨he, ⟨⟨⟨hu, hok⟩, h1⟩, h2⟩⟩, hv⟩ := hy
  exact ⟨e, ⟨he, ⟨⟨⟨hu, by rw [← h.2]; exact hok⟩, h.1 _ h1⟩, h.1 _ h2⟩⟩, hv⟩

theorem mem_foldl_insert_of_mem (l : List Node) : ∀ (acc : List Node) (y : Node), y ∈ l →
    y ∈ l.foldl (fun acc x => if acc.contains x then acc else acc ++ [x]) acc := by
  induction l with
  | nil => intro acc y h; cases h
  | cons a l ih =>
    intro acc y h
    simp only [List.foldl_cons]
    rcases List.mem_cons.mp h with rfl | h1
    · apply subset_foldl_insert
      split
      · next hc => exact List.contains_iff_mem.mp hc
      · exact List.mem_append_right _ (by simp)
    · exact ih _ y h1

theorem mem_expand_of_succ {g : Graph} {w : View} {S : List Node} {x y : Node} (hx : x ∈ S) (hy : y ∈ g.vsuccs w x) :
    y ∈ g.expand w S := by
  unfold expand
  apply mem_foldl_insert_of_mem
  simp only [List.mem_flatMap]
  exact ⟨x, hx, hy⟩

theorem expand_mono {g : Graph} {w w' : View} (h : w.le w') {S S' : List Node} (hS : ∀ y ∈ S, y ∈ S') :
    ∀ y ∈ g.expand w S, y ∈ g.expand w' S' := by
  intro y hy
  rcases mem_expand hy with h1 | ⟨x, hx, hyx⟩
  · exact subset_expand (hS y h1)
  · exact mem_expand_of_succ (hS x hx) (vsuccs_mono h hyx)

theorem reachFuel_mono {g : Graph} {w w' : View} (h : w.le w') : ∀ (f : Nat) (S S' : List Node),
    (∀ y ∈ S, y ∈ S') → ∀ y ∈ g.reachFuel w f S, y ∈ g.reachFuel w' f S' := by
  intro f
  induction f with
  | zero => intro S S' hS y hy; exact hS y hy
  | succ f ih => intro S S' hS y hy; simp only [reachFuel] at hy ⊢; exact ih _ _ (expand_mono h hS) y hy

theorem reachSet_mono {g : Graph} {w w' : View} (h : w.le w') {a y : Node} (hy : y ∈ g.reachSet w a) :
    y ∈ g.reachSet w' a := by
  unfold reachSet at *
  exact reachFuel_mono h _ _ _ (fun z hz => hz) y hy

end MLPE.Graph

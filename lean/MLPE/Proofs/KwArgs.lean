import MLPE.Proofs.EngBasic

/-!
# The keyword arguments `_get_node_kwargs` builds (pure facts about `nodeKwargs`, any state)

For a node other than the input node: one entry per declared parameter (the `kwarg` names of its incoming edges), no other
key except `additional_data`, no key twice, and no declared parameter bound to an exception object (a dependency that failed
inside a one-of scope makes the call fail instead).  For the input node: the caller's kwargs, plus `additional_data`.
-/
namespace MLPE.Eng
open MLPE

def keysOf (kw : Kwargs) : List String := kw.map (·.1)

/-- the parameter names declared for `n`: the `kwarg` attributes of its incoming edges -/
def declared (P : Program) (n : Node) : List String :=
  (P.g.edges.filter (fun e => e.v == n)).filterMap (·.kwarg)

structure KwOK (P : Program) (n : Node) (kw : Kwargs) : Prop where
  /-- nothing but the declared parameters (and `additional_data`) -/
  only   : ∀ k ∈ keysOf kw, k = "additional_data" ∨ k ∈ declared P n
  /-- every declared parameter -/
  all    : ∀ k ∈ declared P n, k ∈ keysOf kw
  /-- each once -/
  once   : (keysOf kw).Nodup
  /-- a declared parameter is never bound to a failure object -/
  noExc  : ∀ k v, (k, v) ∈ kw → k ≠ "additional_data" → v.isExc = false

/-- what the input node gets: the caller's kwargs, plus the restart data when it is the start node of a subgraph -/
def KwIn (P : Program) (kw : Kwargs) : Prop :=
  kw = P.inputKw ∨ ∃ v, kw = insertKw P.inputKw "additional_data" v

/-! ### `insertKw` -/

theorem mem_insertKw' {kw : Kwargs} {k : String} {v : Val} {a : String} {b : Val}
    (h : (a, b) ∈ insertKw kw k v) : (a, b) = (k, v) ∨ ((a, b) ∈ kw ∧ a ≠ k) := by
  simp only [insertKw, List.partition_eq_filter_filter, List.mem_append, List.mem_filter, List.mem_singleton] at h
  rcases h with (h | h) | h
  · exact Or.inr ⟨h.1.1, by simpa using h.1.2⟩
  · exact Or.inl h
  · exact Or.inr ⟨h.1.1, by simpa using h.1.2⟩

theorem insertKw_self (kw : Kwargs) (k : String) (v : Val) : (k, v) ∈ insertKw kw k v := by
  simp [insertKw, List.partition_eq_filter_filter]

theorem insertKw_other {kw : Kwargs} {k : String} {v : Val} {a : String} {b : Val} (h : (a, b) ∈ kw) (hne : a ≠ k) :
    (a, b) ∈ insertKw kw k v := by
  simp only [insertKw, List.partition_eq_filter_filter, List.mem_append, List.mem_filter, List.mem_singleton]
  by_cases hlt : a < k
  · left; left; exact ⟨⟨h, by simpa using hne⟩, by simpa using hlt⟩
  · right; exact ⟨⟨h, by simpa using hne⟩, by simpa using hlt⟩

theorem keys_insertKw (kw : Kwargs) (k : String) (v : Val) (a : String) :
    a ∈ keysOf (insertKw kw k v) ↔ a = k ∨ a ∈ keysOf kw := by
  simp only [keysOf, List.mem_map]
  constructor
  · rintro ⟨⟨a', b⟩, hm, rfl⟩
    rcases mem_insertKw' hm with h | h
    · left; cases h; rfl
    · right; exact ⟨(a', b), h.1, rfl⟩
  · rintro (rfl | ⟨⟨a', b⟩, hm, rfl⟩)
    · exact ⟨(a, v), insertKw_self kw a v, rfl⟩
    · by_cases hne : a' = k
      · subst hne; exact ⟨(a', v), insertKw_self kw a' v, rfl⟩
      · exact ⟨(a', b), insertKw_other hm hne, rfl⟩

theorem nodup_filter_keys {kw : Kwargs} (h : (keysOf kw).Nodup) (p : String × Val → Bool) :
    (keysOf (kw.filter p)).Nodup := by
  unfold keysOf at h ⊢
  exact (List.Sublist.map _ List.filter_sublist).nodup h

theorem nodup_insertKw {kw : Kwargs} (h : (keysOf kw).Nodup) (k : String) (v : Val) : (keysOf (insertKw kw k v)).Nodup := by
  have h1 : (keysOf (kw.filter (·.1 != k))).Nodup := nodup_filter_keys h _
  simp only [insertKw, List.partition_eq_filter_filter, keysOf, List.map_append, List.map_cons, List.map_nil]
  -- lo ++ [k] ++ hi, where lo / hi are the entries below / not below k of a list without k and without duplicates
  have hlo := nodup_filter_keys h1 (fun x => x.1 < k)
  have hhi := nodup_filter_keys h1 (fun x => !(x.1 < k))
  unfold keysOf at hlo hhi h1
  rw [List.append_assoc]
  refine List.nodup_append.mpr ⟨hlo, ?_, ?_⟩
  · refine List.nodup_cons.mpr ⟨?_, hhi⟩
    intro hmem
    obtain ⟨x, hx1, hxk⟩ := List.mem_map.mp hmem
    have hx2 := (List.mem_filter.mp (List.mem_filter.mp hx1).1).2
    simp [hxk] at hx2
  · intro a ha b hb hab
    subst hab
    simp only [List.mem_map, List.mem_filter] at ha
    obtain ⟨x, ⟨⟨hxm, hxk⟩, hxlt⟩, rfl⟩ := ha
    simp only [List.singleton_append, List.mem_cons, List.mem_map, List.mem_filter] at hb
    rcases hb with hb | ⟨y, ⟨⟨hym, hyk⟩, hynlt⟩, hy⟩
    · simp [hb] at hxk
    · simp only [decide_eq_true_eq] at hxlt
      rw [← hy] at hxlt
      simp [hxlt] at hynlt


/-! ### the fold of `_get_node_kwargs` over the incoming edges -/

/-- invariant of the fold: `done` are the edges processed so far -/
structure KwPre (done : List Edge) (kw : Kwargs) : Prop where
  only  : ∀ k ∈ keysOf kw, k ∈ done.filterMap (·.kwarg)
  all   : ∀ k ∈ done.filterMap (·.kwarg), k ∈ keysOf kw
  once  : (keysOf kw).Nodup
  noExc : ∀ k v, (k, v) ∈ kw → v.isExc = false

theorem kwPut_ok' {kw kw1 : Kwargs} {k : String} {v : Val} (h : kwPut kw k v = .ok kw1) :
    kw1 = insertKw kw k v ∧ v.isExc = false := by
  unfold kwPut at h
  split at h
  · cases h
  · next hne =>
    cases h
    refine ⟨rfl, ?_⟩
    cases v <;> simp [Val.isExc] at hne ⊢

theorem KwPre.put {done : List Edge} {kw kw1 : Kwargs} (h : KwPre done kw) (e : Edge) (k : String) (v : Val)
    (hk : e.kwarg = some k) (h1 : kwPut kw k v = .ok kw1) : KwPre (done ++ [e]) kw1 := by
  obtain ⟨rfl, hv⟩ := kwPut_ok' h1
  have hfm : ∀ a, a ∈ (done ++ [e]).filterMap (·.kwarg) ↔ a ∈ done.filterMap (·.kwarg) ∨ a = k := by
    intro a; simp [List.filterMap_append, hk]
  refine ⟨?_, ?_, nodup_insertKw h.once k v, ?_⟩
  · intro a ha
    rcases (keys_insertKw kw k v a).mp ha with rfl | h2
    · exact (hfm _).mpr (Or.inr rfl)
    · exact (hfm _).mpr (Or.inl (h.only a h2))
  · intro a ha
    rcases (hfm a).mp ha with h2 | rfl
    · exact (keys_insertKw kw k v a).mpr (Or.inr (h.all a h2))
    · exact (keys_insertKw kw a v a).mpr (Or.inl rfl)
  · intro a b hab
    rcases mem_insertKw' hab with h2 | h2
    · cases h2; exact hv
    · exact h.noExc a b h2.1

theorem kwStep_pre (P : Program) (s : St) {done : List Edge} {kw kw1 : Kwargs} (h : KwPre done kw) (e : Edge)
    (h1 : kwStep P s (.ok kw) e = .ok kw1) : KwPre (done ++ [e]) kw1 := by
  unfold kwStep at h1
  cases hek : e.kwarg with
  | none =>
    simp only [hek] at h1
    cases h1
    have hfm : (done ++ [e]).filterMap (·.kwarg) = done.filterMap (·.kwarg) := by simp [List.filterMap_append, hek]
    exact ⟨by rw [hfm]; exact h.only, by rw [hfm]; exact h.all, h.once, h.noExc⟩
  | some k =>
    simp only [hek] at h1
    split at h1
    · split at h1
      · exact h.put e k _ hek h1
      · split at h1
        · exact h.put e k _ hek h1
        · cases h1
    · exact h.put e k _ hek h1

theorem fold_err (P : Program) (s : St) (x : Exc) : ∀ es : List Edge, es.foldl (kwStep P s) (.err x) = .err x
  | [] => rfl
  | e :: es => by simp only [List.foldl, kwStep]; exact fold_err P s x es

theorem fold_pre (P : Program) (s : St) : ∀ (es done : List Edge) (kw kw1 : Kwargs), KwPre done kw →
    es.foldl (kwStep P s) (.ok kw) = .ok kw1 → KwPre (done ++ es) kw1
  | [], done, kw, kw1, h, h1 => by
    simp only [List.foldl] at h1; cases h1; simpa using h
  | e :: es, done, kw, kw1, h, h1 => by
    simp only [List.foldl] at h1
    cases hs : kwStep P s (.ok kw) e with
    | err x => rw [hs, fold_err] at h1; cases h1
    | ok kw2 =>
      rw [hs] at h1
      have := fold_pre P s es (done ++ [e]) kw2 kw1 (kwStep_pre P s h e hs) h1
      simpa using this

/-- **what `_get_node_kwargs` returns** (any state): for the input node the caller's kwargs (plus the restart data), for any
other node exactly one entry per declared parameter, `additional_data` at most in addition, never an exception object as
the value of a declared parameter -/
theorem nodeKwargs_ok (P : Program) (s : St) (n : Node) (kw : Kwargs) (h : nodeKwargs P s n = .ok kw) :
    ((n == P.g.input) = true → KwIn P kw) ∧ ((n == P.g.input) = false → KwOK P n kw) := by
  constructor
  · intro hn
    unfold nodeKwargs at h
    simp only [kwBase, hn, if_true] at h
    split at h
    · next kw0 v0 hb ha =>
      cases hb
      split at h
      · cases h; exact Or.inl rfl
      · cases h; exact Or.inr ⟨v0, rfl⟩
    · next hno =>
      cases h; exact Or.inl rfl
  · intro hn
    have base : ∀ kw0, kwBase P s n = .ok kw0 → KwPre (P.g.edges.filter (fun e => e.v == n)) kw0 := by
      intro kw0 h0
      simp only [kwBase, hn, Bool.false_eq_true, if_false] at h0
      have := fold_pre P s _ [] [] kw0 ⟨by intro k hk; simp [keysOf] at hk, by intro k hk; simp at hk,
        by simp [keysOf], by intro k v hkv; simp at hkv⟩ h0
      simpa using this
    have ofPre : ∀ kw0, KwPre (P.g.edges.filter (fun e => e.v == n)) kw0 → KwOK P n kw0 := by
      intro kw0 hp
      exact ⟨fun k hk => Or.inr (hp.only k hk), hp.all, hp.once, fun k v hkv _ => hp.noExc k v hkv⟩
    unfold nodeKwargs at h
    split at h
    · next kw0 v0 hb ha =>
      have hp := base kw0 hb
      split at h
      · cases h; exact ofPre _ hp
      · cases h
        refine ⟨?_, ?_, nodup_insertKw hp.once _ _, ?_⟩
        · intro k hk
          rcases (keys_insertKw _ _ _ _).mp hk with rfl | h2
          · exact Or.inl rfl
          · exact Or.inr (hp.only k h2)
        · intro k hk
          exact (keys_insertKw _ _ _ _).mpr (Or.inr (hp.all k hk))
        · intro k v hkv hne
          rcases mem_insertKw' hkv with h2 | h2
          · cases h2; exact absurd rfl hne
          · exact hp.noExc k v h2.1
    · next hno =>
      exact ofPre kw (base kw h)

end MLPE.Eng

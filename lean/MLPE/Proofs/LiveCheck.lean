import MLPE.Proofs.LiveRun
import MLPE.Proofs.SafeDemo

/-!
# `LiveP` from its Boolean form, and the demo
-/
namespace MLPE.Eng
open MLPE

/-- the view of the reduced DAGs does not depend on the state -/
theorem reducedRef_state (P : Program) (s : St) (src dst : Node) (a b c : Bool) :
    reducedRef P s src dst a b c = reducedRef P init src dst a b c := rfl

/-- the `is_nested_oneof` flag does not change which DAG is built -/
theorem reducedRef_nested {P : Program} {s : St} {a b : Node} {f1 f2 : Bool} (f3 : Bool) {d : DagRef}
    (h : reducedRef P s a b f1 f2 false = some d) :
    ∃ d', reducedRef P s a b f1 f2 f3 = some d' ∧ d'.dest = d.dest ∧ d'.nodes = d.nodes := by
  unfold reducedRef at h ⊢
  simp only [] at h ⊢
  split at h
  · cases h; exact ⟨_, rfl, rfl, rfl⟩
  · split at h
    · cases h
    · cases h; exact ⟨_, rfl, rfl, rfl⟩

/-- **the hypotheses of the stuck-freedom theorem from the executable check** (`livePB`, which the driver evaluates on the
generated programs) -/
theorem liveP_of_check {P : Program} (dl : List (Node × Nat)) (hsw : SwP P) (hy : ∀ cb n, P.cbYield cb n = 0)
    (hc : livePB P dl = true) : LiveP P (depthOf dl) := by
  unfold livePB at hc
  simp only [Bool.and_eq_true, List.all_eq_true, decide_eq_true_eq, Bool.not_eq_true', Bool.or_eq_true] at hc
  obtain ⟨⟨⟨⟨⟨⟨h1, h2⟩, h3⟩, h4⟩, h5⟩, h6⟩, h7⟩ := hc
  refine { sw := hsw, acyclic := h1, outPlain := h2, noYield := hy, noCands := h3, caseSw := ?_, decNoCase := ?_,
           casePlain := ?_, dagsOK := ?_ }
  · intro e he hs
    rcases h4 e he with h | h
    · rw [hs] at h; cases h
    · cases hc : e.case with
      | none => rfl
      | some l => rw [hc] at h; cases h
  · intro e he hs
    rcases h5 e he with h | h
    · rw [hs] at h; cases h
    · cases hc : e.case with
      | none => rfl
      | some l => rw [hc] at h; cases h
  · intro e he hs
    rcases h6 e he with h | h
    · cases hc : e.case with
      | none => rw [hc] at hs; cases hs
      | some l => rw [hc] at h; cases h
    · exact h
  · intro s dst nst hdst
    have hmem : dst ∈ dagDests P := by
      unfold dagDests
      rcases hdst with h | ⟨e, he, hu, hcs⟩
      · rw [h]; simp
      · exact List.mem_cons_of_mem _ (List.mem_map.mpr ⟨e, List.mem_filter.mpr ⟨he, hcs⟩, hu⟩)
    have := h7 dst hmem
    unfold dagOKB at this
    rw [reducedRef_state]
    split at this
    · cases this
    · next d hd =>
      simp only [Bool.and_eq_true, beq_iff_eq, List.contains_iff_mem, List.all_eq_true, decide_eq_true_eq] at this
      obtain ⟨⟨⟨g1, g2⟩, g3⟩, g4⟩ := this
      obtain ⟨d', hd', e1, e2⟩ := reducedRef_nested nst hd
      exact ⟨d', hd', by rw [e1]; exact g1, by rw [e2]; exact g2, by rw [e2]; exact g3, by rw [e2]; exact g4⟩

/-! ### the demo pipeline (a switch with two cases) meets the hypotheses -/

theorem demoSwitch_liveP : LiveP demoSwitch (depthOf (computeDepths demoSwitch)) := by
  exact liveP_of_check _ demoSwitch_swP (fun _ _ => rfl) (by decide)

/-! ### a pending demo run (non-vacuity of `LiveReach`) -/

def Obs.isBadOracle : Obs → Bool
  | .badOracle => true
  | _ => false

def Choice.isCancel : Choice → Bool
  | .cancelCaller => true
  | _ => false

/-- run a list of choices as a pending run: no step after `chart.run` returned, no cancellation, no inadmissible order -/
def pendingRun (P : Program) : St → List Choice → Option St
  | s, [] => some s
  | s, c :: cs =>
    if s.outcome.isSome || c.isCancel then none
    else match step P s c with
      | some (s', obs) => if obs.any Obs.isBadOracle then none else pendingRun P s' cs
      | none => none

theorem liveReach_of_pendingRun {P : Program} : ∀ (cs : List Choice) (s s' : St), LiveReach P s → pendingRun P s cs = some s' →
    LiveReach P s'
  | [], s, s', h, hr => by simp [pendingRun] at hr; exact hr ▸ h
  | c :: cs, s, s', h, hr => by
    simp only [pendingRun] at hr
    split at hr
    · cases hr
    · next hcond =>
      simp only [Bool.or_eq_true, not_or, Bool.not_eq_true] at hcond
      split at hr
      · next s1 obs hs =>
        split at hr
        · cases hr
        · next hbad =>
          refine liveReach_of_pendingRun cs s1 s' (.step h ?_ ?_ hs ?_) hr
          · cases ho : s.outcome with
            | none => rfl
            | some o => rw [ho] at hcond; simp at hcond
          · intro hc; rw [hc] at hcond; simp [Choice.isCancel] at hcond
          · intro hm
            apply hbad
            exact List.any_eq_true.mpr ⟨_, hm, rfl⟩
      · cases hr

/-- the demo pipeline after twelve steps: the decision is recorded, the `_run_switch` task waits in the sub-DAG of the
selected case for that case's body — the run is pending and, by the theorem, not stuck -/
def demoSwitchPending : List Choice :=
  [.run 0 [] 0, .run 1 [0, 1, 4, 5] 0, .run 2 [] 0, .gate 0 0 1, .run 2 [] 0, .run 1 [] 0, .run 3 [] 0, .gate 1 0 1,
   .run 3 [] 0, .run 1 [] 0, .run 4 [2] 0, .run 5 [] 0]

example : ∃ s, pendingRun demoSwitch init demoSwitchPending = some s ∧ LiveReach demoSwitch s ∧ s.outcome = none ∧
    s.sw 4 = some ("l0", 2) ∧ (∃ tk, s.tasks[4]? = some tk ∧ tk.st = .blocked (.cond (.node 2))) ∧ stuck s = false := by
  have h : (pendingRun demoSwitch init demoSwitchPending).isSome = true := by decide +kernel
  obtain ⟨s, hs⟩ := Option.isSome_iff_exists.mp h
  have hr := liveReach_of_pendingRun demoSwitchPending init s .init hs
  have fact : ∀ (f : St → Bool), ((pendingRun demoSwitch init demoSwitchPending).map f) = some true → f s = true := by
    intro f hf; rw [hs] at hf; simpa using hf
  refine ⟨s, hs, hr, ?_, ?_, ?_, live_not_stuck demoSwitch_liveP hr⟩
  · have := fact (fun s => s.outcome.isNone) (by decide +kernel)
    cases ho : s.outcome with
    | none => rfl
    | some o => rw [ho] at this; cases this
  · have := fact (fun s => decide (s.sw 4 = some ("l0", 2))) (by decide +kernel)
    simpa using this
  · have := fact (fun s => match s.tasks[4]? with
      | some tk => decide (tk.st = .blocked (.cond (.node 2))) | none => false) (by decide +kernel)
    split at this
    · next tk htk => exact ⟨tk, htk, by simpa using this⟩
    · cases this

end MLPE.Eng

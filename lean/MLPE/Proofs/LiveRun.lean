import MLPE.Proofs.LiveStep

/-!
# Stuck-freedom of pipelines with switches: the caller's sections, the environment's steps, every reachable state
-/
namespace MLPE.Eng
open MLPE

/-! ### `chart.run` / `manager.run` -/

theorem mgrReturn_outcome (c : Ctx) (s : St) (obs : List Obs) (o : Outcome) : (mgrReturn c s obs o).1.outcome = some o := rfl

theorem mgrComplete_outcome (c : Ctx) (hy : ∀ cb n, c.P.cbYield cb n = 0) (s : St) (obs : List Obs) (o : Outcome) :
    (mgrComplete c s obs o).1.outcome ≠ none := by
  unfold mgrComplete
  split
  · rw [mgrReturn_outcome]; simp
  · rw [cbCall_noYield c hy]
    split <;> (rw [mgrReturn_outcome]; simp)

theorem mgrFinish_outcome (c : Ctx) (hy : ∀ cb n, c.P.cbYield cb n = 0) (s : St) (obs : List Obs) :
    (mgrFinish c s obs).1.outcome ≠ none := mgrComplete_outcome c hy _ _ _

/-- **`chart.run` starts**: it returns at once (a collaborator raised, the pools are misconfigured), or it creates the main
`_run_dag` task and waits -/
theorem struct_mgrStart {P : Program} {depth : Node → Nat} (hp : LiveP P depth) (c : Ctx) (hcP : c.P = P) {s : St}
    (hs : Struct P depth s) {tkt : Task} (htkt : s.tasks[c.t]? = some tkt) (hnm : tkt.name = .caller)
    (hlen : s.tasks.length = 1) (hproc : ∀ n, s.proc n = false) (hev : ∀ n, s.evSet n = false)
    (hsw : ∀ S, s.sw S = none) (obs : List Obs) :
    (mgrStart c s obs).1.outcome ≠ none ∨ Struct P depth (mgrStart c s obs).1 := by
  have hy : ∀ cb n, c.P.cbYield cb n = 0 := by rw [hcP]; exact hp.noYield
  have hd := hs.data
  have hmc : tkt.mustCancel = false := hd.noCancel tkt (List.mem_of_getElem? htkt)
  unfold mgrStart
  rw [cbCall_noYield c hy]
  split
  · left; rw [mgrReturn_outcome]; simp
  · unfold mgrBegin
    split
    · exact Or.inl (mgrComplete_outcome c hy _ _ _)
    · split
      · exact Or.inl (mgrComplete_outcome c hy _ _ _)
      · next dm hdm =>
        unfold mgrCheck
        split
        · exact Or.inl (mgrFinish_outcome c hy _ _)
        · next hcond =>
          right
          have ht0 : c.t = 0 := by have := getElem?_lt htkt; omega
          have htasks : s.tasks = [tkt] := by
            match hst : s.tasks, hlen with
            | [a], _ => rw [ht0, hst] at htkt; simp at htkt; rw [htkt]
          have hresNone : ∀ n, s.res n = none := by
            intro n
            cases hr : s.res n with
            | none => rfl
            | some v => have := hd.c6 n (by rw [hr]; rfl); rw [hproc n] at this; cases this
          have hself : (spawn s [.dagInit dm] .run).1.tasks[c.t]? = some tkt := by
            rw [ht0]; simp [spawn, htasks]
          rw [block_eq c _ _ _ _ hself]
          rw [hcP] at hdm
          obtain ⟨d', hd', hdst, hout, hclosed, _⟩ := hp.dagsOK s P.g.output (Or.inl rfl)
          have hdd : d' = dm := by rw [hd'] at hdm; cases hdm; rfl
          subst hdd
          obtain ⟨hf1, hf2⟩ := reducedRef_flags hd'
          have hfin : (St.setTask (spawn s [.dagInit d'] .run).1 c.t
              { tkt with frames := [.mgrWait], st := .blocked (.cond .run) }).tasks =
              [{ tkt with frames := [.mgrWait], st := .blocked (.cond .run) },
               { frames := [.dagInit d'], st := .runnable .go, name := .run }] := by
            rw [ht0]; simp [spawn, St.setTask, htasks]
          have hte : taskErrors (St.setTask (spawn s [.dagInit d'] .run).1 c.t
              { tkt with frames := [.mgrWait], st := .blocked (.cond .run) }) = [] := by
            unfold taskErrors; rw [hfin]; rfl
          refine ⟨⟨hd.noHid, hd.noRec, ?_, ?_, ?_, ?_, ?_, hd.c6, hd.procPlain, ?_, ?_⟩, ?_, ?_, ?_⟩
          · intro n hn; change s.proc n = true at hn; rw [hproc n] at hn; cases hn
          · intro n hn; change s.evSet n = true at hn; rw [hev n] at hn; cases hn
          · intro n hn; change (s.res n).isSome = true at hn; rw [hresNone n] at hn; cases hn
          · intro S l c' h; change s.sw S = _ at h; rw [hsw S] at h; cases h
          · intro S lc h; change s.sw S = _ at h; rw [hsw S] at h; cases h
          · intro i j ti tj q0 d1 d2 f1 f2 p1 p2 hi hj hfi
            rw [hfin] at hi
            match i, hi with
            | 0, hi => simp at hi; rw [← hi] at hfi; simp at hfi
            | 1, hi => simp at hi; rw [← hi] at hfi; simp at hfi
            | n + 2, hi => simp at hi
          · intro tk htk
            rw [hfin] at htk
            simp only [List.mem_cons, List.not_mem_nil, or_false] at htk
            rcases htk with rfl | rfl
            · exact hmc
            · rfl
          · intro i tk hi
            rw [hfin] at hi
            match i, hi with
            | 0, hi =>
              simp at hi; subst hi
              exact .callerWait _ hnm rfl (Or.inr ⟨rfl, hte, hresNone _⟩)
            | 1, hi =>
              simp at hi; subst hi
              exact .main _ (.dagInit d') d' rfl rfl (.init d') ⟨hf1, hf2, hclosed⟩ hdst hout ⟨_, rfl⟩
            | n + 2, hi => simp at hi
          · rw [hfin]; exact ⟨_, rfl, hnm⟩
          · intro tk h0 _
            rw [hfin]; exact ⟨_, rfl, rfl⟩

/-- **`manager.run` checks for a result or a failed task**: it returns, or waits for the next notification -/
theorem struct_mgrCheck {P : Program} {depth : Node → Nat} (hp : LiveP P depth) (c : Ctx) (hcP : c.P = P) {s : St}
    (hs : Struct P depth s) {tkt : Task} (htkt : s.tasks[c.t]? = some tkt) (hnm : tkt.name = .caller)
    (hf0 : tkt.frames = [.mgrWait]) (hrt : ∃ rv, tkt.st = .runnable rv) (obs : List Obs) :
    (mgrCheck c s obs).1.outcome ≠ none ∨ Struct P depth (mgrCheck c s obs).1 := by
  have hy : ∀ cb n, c.P.cbYield cb n = 0 := by rw [hcP]; exact hp.noYield
  have hd := hs.data
  have hmc : tkt.mustCancel = false := hd.noCancel tkt (List.mem_of_getElem? htkt)
  unfold mgrCheck
  split
  · exact Or.inl (mgrFinish_outcome c hy _ _)
  · next hcond =>
    right
    simp only [Bool.or_eq_true, Bool.not_eq_true', List.isEmpty_eq_false_iff, ne_eq, not_or, Decidable.not_not,
      Bool.not_eq_true] at hcond
    obtain ⟨herr, hex⟩ := hcond
    rw [hcP] at hex
    have hnores : s.res P.g.output = none := by
      simp only [St.exists, (hd.noHid P.g.output).1, Bool.not_false, Bool.and_true] at hex
      cases hr : s.res P.g.output with
      | none => rfl
      | some v => rw [hr] at hex; cases hex
    rw [block_eq c s _ _ _ htkt]
    have hlen1 : s.tasks.length ≠ 1 := by
      by_cases ht0 : c.t = 0
      · have h0 : s.tasks[0]? = some tkt := by rw [← ht0]; exact htkt
        obtain ⟨tk1, h1, _⟩ := hs.main tkt h0 hf0
        have := getElem?_lt h1
        omega
      · have := getElem?_lt htkt
        omega
    have hnonew : ∀ (i : Nat) (tk : Task), s.tasks.length ≤ i → s.tasks[i]? = some tk → False := by
      intro i tk hi h
      have := getElem?_lt h
      omega
    refine Struct.close_same hs htkt rfl hrt hlen1 (Ext.refl _ _) rfl rfl rfl rfl rfl rfl hmc ?_ ?_ (Or.inl ?_) ?_ ?_ ?_ ?_
      (fun i tk hi h => absurd h (fun h' => hnonew i tk hi h'))
    · intro d' n f pc hf; rw [hf0] at hf; simp at hf
    · intro d' n f pc hf; simp at hf
    · intro x hx; cases hx
    · refine .callerWait _ hnm rfl (Or.inr ⟨rfl, ?_, hnores⟩)
      refine taskErrors_close_nil (Ext.refl _ _) htkt herr ?_ (fun i tk hi h => absurd h (fun h' => hnonew i tk hi h'))
      intro x hx; cases hx
    · intro d' q hf; rw [hf0] at hf; simp at hf
    · intro S ho
      refine Or.inl (swOwner_keep (Ext.refl _ _) htkt ?_ ho)
      intro S' hfr
      rcases hfr with ⟨d1, h⟩ | ⟨d1, h⟩ | ⟨d1, s1', h⟩ | ⟨d1, s1', r1, h⟩ <;> rw [hf0] at h <;> simp at h
    · intro ht0 _
      have h0 : s.tasks[0]? = some tkt := by rw [← ht0]; exact htkt
      exact hs.main tkt h0 hf0

end MLPE.Eng

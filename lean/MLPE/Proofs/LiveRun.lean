import MLPE.Proofs.LiveStep

/-!
# Stuck-freedom of pipelines with switches: the caller's sections, the environment's steps, every reachable state
-/
namespace MLPE.Eng
open MLPE

/-! ### `chart.run` / `manager.run` -/

theorem mgrReturn_outcome (c : Ctx) (s : St) (obs : List Obs) (o : Outcome) : (mgrReturn c s obs o).1.outcome = some o := rfl

theorem mgrComplete_outcome (c : Ctx) (hy : ∀ cb n, c.P.cbYield cb n = 0) (s : St) (obs : List Obs) (o : Outcome) :
    (mgrComplete c s obs o).1.outcome ≠ none := by
  unfold mgrComplete
  split
  · rw [mgrReturn_outcome]; simp
  · rw [cbCall_noYield c hy]
    split <;> (rw [mgrReturn_outcome]; simp)

theorem mgrFinish_outcome (c : Ctx) (hy : ∀ cb n, c.P.cbYield cb n = 0) (s : St) (obs : List Obs) :
    (mgrFinish c s obs).1.outcome ≠ none := mgrComplete_outcome c hy _ _ _

/-- **`chart.run` starts**: it returns at once (a collaborator raised, the pools are misconfigured), or it creates the main
`_run_dag` task and waits -/
theorem struct_mgrStart {P : Program} {depth : Node → Nat} (hp : LiveP P depth) (c : Ctx) (hcP : c.P = P) {s : St}
    (hs : Struct P depth s) {tkt : Task} (htkt : s.tasks[c.t]? = some tkt) (hnm : tkt.name = .caller)
    (hlen : s.tasks.length = 1) (hproc : ∀ n, s.proc n = false) (hev : ∀ n, s.evSet n = false)
    (hsw : ∀ S, s.sw S = none) (obs : List Obs) :
    (mgrStart c s obs).1.outcome ≠ none ∨ Struct P depth (mgrStart c s obs).1 := by
  have hy : ∀ cb n, c.P.cbYield cb n = 0 := by rw [hcP]; exact hp.noYield
  have hd := hs.data
  have hmc : tkt.mustCancel = false := hd.noCancel tkt (List.mem_of_getElem? htkt)
  unfold mgrStart
  rw [cbCall_noYield c hy]
  split
  · left; rw [mgrReturn_outcome]; simp
  · unfold mgrBegin
    split
    · exact Or.inl (mgrComplete_outcome c hy _ _ _)
    · split
      · exact Or.inl (mgrComplete_outcome c hy _ _ _)
      · next dm hdm =>
        unfold mgrCheck
        split
        · exact Or.inl (mgrFinish_outcome c hy _ _)
        · next hcond =>
          right
          have ht0 : c.t = 0 := by have := getElem?_lt htkt; omega
          have htasks : s.tasks = [tkt] := by
            match hst : s.tasks, hlen with
            | [a], _ => rw [ht0, hst] at htkt; simp at htkt; rw [htkt]
          have hresNone : ∀ n, s.res n = none := by
            intro n
            cases hr : s.res n with
            | none => rfl
            | some v => have := hd.c6 n (by rw [hr]; rfl); rw [hproc n] at this; cases this
          have hself : (spawn s [.dagInit dm] .run).1.tasks[c.t]? = some tkt := by
            rw [ht0]; simp [spawn, htasks]
          rw [block_eq c _ _ _ _ hself]
          rw [hcP] at hdm
          obtain ⟨d', hd', hdst, hout, hclosed, _⟩ := hp.dagsOK s P.g.output false (Or.inl rfl)
          have hdd : d' = dm := by rw [hd'] at hdm; cases hdm; rfl
          subst hdd
          obtain ⟨hf1, hf2⟩ := reducedRef_flags hd'
          have hfin : (St.setTask (spawn s [.dagInit d'] .run).1 c.t
              { tkt with frames := [.mgrWait], st := .blocked (.cond .run) }).tasks =
              [{ tkt with frames := [.mgrWait], st := .blocked (.cond .run) },
               { frames := [.dagInit d'], st := .runnable .go, name := .run }] := by
            rw [ht0]; simp [spawn, St.setTask, htasks]
          have hte : taskErrors (St.setTask (spawn s [.dagInit d'] .run).1 c.t
              { tkt with frames := [.mgrWait], st := .blocked (.cond .run) }) = [] := by
            unfold taskErrors; rw [hfin]; rfl
          refine ⟨⟨hd.noHid, hd.noRec, ?_, ?_, ?_, ?_, ?_, hd.c6, hd.procPlain, ?_, ?_, hd.stale⟩, ?_, ?_, ?_⟩
          · intro n hn; change s.proc n = true at hn; rw [hproc n] at hn; cases hn
          · intro n hn; change s.evSet n = true at hn; rw [hev n] at hn; cases hn
          · intro n hn; change (s.res n).isSome = true at hn; rw [hresNone n] at hn; cases hn
          · intro S l c' h; change s.sw S = _ at h; rw [hsw S] at h; cases h
          · intro S lc h; change s.sw S = _ at h; rw [hsw S] at h; cases h
          · intro i j ti tj q0 d1 d2 f1 f2 p1 p2 hi hj hfi
            rw [hfin] at hi
            match i, hi with
            | 0, hi => simp at hi; rw [← hi] at hfi; simp at hfi
            | 1, hi => simp at hi; rw [← hi] at hfi; simp at hfi
            | n + 2, hi => simp at hi
          · intro tk htk
            rw [hfin] at htk
            simp only [List.mem_cons, List.not_mem_nil, or_false] at htk
            rcases htk with rfl | rfl
            · exact hmc
            · rfl
          · intro i tk hi
            rw [hfin] at hi
            match i, hi with
            | 0, hi =>
              simp at hi; subst hi
              exact .callerWait _ hnm rfl (Or.inr ⟨rfl, hte, hresNone _⟩)
            | 1, hi =>
              simp at hi; subst hi
              exact .main _ (.dagInit d') d' rfl rfl (.init d') ⟨hf1, hf2, hclosed⟩ hdst hout ⟨_, rfl⟩
            | n + 2, hi => simp at hi
          · rw [hfin]; exact ⟨_, rfl, hnm⟩
          · intro tk h0 _
            rw [hfin]; exact ⟨_, rfl, rfl⟩

/-- **`manager.run` checks for a result or a failed task**: it returns, or waits for the next notification -/
theorem struct_mgrCheck {P : Program} {depth : Node → Nat} (hp : LiveP P depth) (c : Ctx) (hcP : c.P = P) {s : St}
    (hs : Struct P depth s) {tkt : Task} (htkt : s.tasks[c.t]? = some tkt) (hnm : tkt.name = .caller)
    (hf0 : tkt.frames = [.mgrWait]) (hrt : ∃ rv, tkt.st = .runnable rv) (obs : List Obs) :
    (mgrCheck c s obs).1.outcome ≠ none ∨ Struct P depth (mgrCheck c s obs).1 := by
  have hy : ∀ cb n, c.P.cbYield cb n = 0 := by rw [hcP]; exact hp.noYield
  have hd := hs.data
  have hmc : tkt.mustCancel = false := hd.noCancel tkt (List.mem_of_getElem? htkt)
  unfold mgrCheck
  split
  · exact Or.inl (mgrFinish_outcome c hy _ _)
  · next hcond =>
    right
    simp only [Bool.or_eq_true, Bool.not_eq_true', List.isEmpty_eq_false_iff, ne_eq, not_or, Decidable.not_not,
      Bool.not_eq_true] at hcond
    obtain ⟨herr, hex⟩ := hcond
    rw [hcP] at hex
    have hnores : s.res P.g.output = none := by
      simp only [St.exists, (hd.noHid P.g.output).1, Bool.not_false, Bool.and_true] at hex
      cases hr : s.res P.g.output with
      | none => rfl
      | some v => rw [hr] at hex; cases hex
    rw [block_eq c s _ _ _ htkt]
    have hlen1 : s.tasks.length ≠ 1 := by
      by_cases ht0 : c.t = 0
      · have h0 : s.tasks[0]? = some tkt := by rw [← ht0]; exact htkt
        obtain ⟨tk1, h1, _⟩ := hs.main tkt h0 hf0
        have := getElem?_lt h1
        omega
      · have := getElem?_lt htkt
        omega
    have hnonew : ∀ (i : Nat) (tk : Task), s.tasks.length ≤ i → s.tasks[i]? = some tk → False := by
      intro i tk hi h
      have := getElem?_lt h
      omega
    refine Struct.close_same hs htkt rfl hrt hlen1 (Ext.refl _ _) rfl rfl rfl rfl rfl rfl hmc ?_ ?_ (Or.inl ?_) ?_ ?_ ?_ ?_
      (fun i tk hi h => absurd h (fun h' => hnonew i tk hi h'))
    · intro d' n f pc hf; rw [hf0] at hf; simp at hf
    · intro d' n f pc hf; simp at hf
    · intro x hx; cases hx
    · refine .callerWait _ hnm rfl (Or.inr ⟨rfl, ?_, hnores⟩)
      refine taskErrors_close_nil (Ext.refl _ _) htkt herr ?_ (fun i tk hi h => absurd h (fun h' => hnonew i tk hi h'))
      intro x hx; cases hx
    · intro d' q hf; rw [hf0] at hf; simp at hf
    · intro S ho
      refine Or.inl (swOwner_keep (Ext.refl _ _) htkt ?_ ho)
      intro S' hfr
      rcases hfr with ⟨d1, h⟩ | ⟨d1, h⟩ | ⟨d1, s1', h⟩ | ⟨d1, s1', r1, h⟩ <;> rw [hf0] at h <;> simp at h
    · intro ht0 _
      have h0 : s.tasks[0]? = some tkt := by rw [← ht0]; exact htkt
      exact hs.main tkt h0 hf0


/-! ### the environment's steps: a node body finishes, a retry timer fires -/

/-- waits that the environment ends -/
def Wait.isExt : Wait → Bool
  | .gate _ _ _ _ => true
  | .sleep _ _ _ _ => true
  | _ => false

theorem LaunchSt.not_ext {P : Program} {s : St} {tk : Task} {F : Frame} (h : LaunchSt P s tk F) {w : Wait}
    (hb : tk.st = .blocked w) (hw : w.isExt = true) : False := by
  cases F with
  | dagInit d => obtain ⟨rv, h⟩ := h; rw [h] at hb; cases hb
  | dagLaunch d l =>
    cases l with
    | nil => exact h
    | cons m r =>
      rcases h.2 with ⟨rv, h⟩ | ⟨h, _⟩ <;> rw [h] at hb <;> cases hb
      simp [Wait.isExt] at hw
  | dagWaitDest d =>
    rcases h with ⟨rv, h⟩ | h <;> rw [h] at hb <;> cases hb
    simp [Wait.isExt] at hw
  | _ => exact h

/-- only a node task that executes its node waits for the environment -/
theorem ext_wait_is_exec {P : Program} {depth : Node → Nat} {s : St} {tk : Task} (h : TaskOK P depth s tk) {w : Wait}
    (hb : tk.st = .blocked w) (hw : w.isExt = true) :
    ∃ d q pc, tk.name = .node q ∧ P.g.isSwitch q = false ∧ tk.frames = [.node d q false pc] ∧ pc ≠ .start ∧
      pc ≠ .evWait ∧ s.proc q = true ∧ s.res q = none ∧ pc.rests = true := by
  cases h with
  | callerStart hn hfr hst hlen => obtain ⟨rv, h⟩ := hst; rw [h] at hb; cases hb
  | callerWait hn hfr hst =>
    rcases hst with ⟨rv, h⟩ | ⟨h, _⟩ <;> rw [h] at hb <;> cases hb
    simp [Wait.isExt] at hw
  | main F d0 hn hfr hdf hdag hdest hout hst => exact (hst.not_ext hb hw).elim
  | mainDone hn hfr hst hres => rw [hst] at hb; cases hb
  | nodeStart d0 q hn hns hfr hst => rw [hst] at hb; cases hb
  | nodeWait d0 q hn hns hfr hst hproc =>
    rcases hst with ⟨⟨rv, h⟩, _⟩ | h <;> rw [h] at hb <;> cases hb
    simp [Wait.isExt] at hw
  | nodeExec d0 q pc hn hns hfr hpc1 hpc2 hlive hproc hnores hrests => exact ⟨d0, q, pc, hn, hns, hfr, hpc1, hpc2, hproc, hnores, hrests⟩
  | nodeDone q r0 hn hns hfr hst hnc hev => rw [hst] at hb; cases hb
  | swStart d0 S0 hn hsS hfr hno1 hst => rw [hst] at hb; cases hb
  | swIn F sub d0 S0 hn hsS hfr hdf hsub hst => exact (hst.not_ext hb hw).elim
  | swRet d0 S0 hn hsS hfr hst hsw => obtain ⟨v, h⟩ := hst; rw [h] at hb; cases hb
  | swDone S0 r0 hn hsS hfr hst hnc hok => rw [hst] at hb; cases hb

/-- a task after a step of the environment -/
structure EnvTask (tk tk' : Task) : Prop where
  frames : tk'.frames = tk.frames
  name   : tk'.name = tk.name
  cancel : tk'.mustCancel = tk.mustCancel
  st     : tk'.st = tk.st ∨ ∃ w, tk.st = .blocked w ∧ w.isExt = true ∧ ∃ rv, tk'.st = .runnable rv

/-- a step of the environment: storage is untouched, some waits for a body or a timer end -/
structure Env (s s' : St) : Prop where
  res     : s'.res = s.res
  resHid  : s'.resHid = s.resHid
  proc    : s'.proc = s.proc
  procHid : s'.procHid = s.procHid
  sw      : s'.sw = s.sw
  evSet   : s'.evSet = s.evSet
  stale   : s'.stale = s.stale
  len     : s'.tasks.length = s.tasks.length
  task    : ∀ (i : Nat) (tk : Task), s.tasks[i]? = some tk → ∃ tk', s'.tasks[i]? = some tk' ∧ EnvTask tk tk'

theorem Env.back {s s' : St} (e : Env s s') {i : Nat} {tk' : Task} (h : s'.tasks[i]? = some tk') :
    ∃ tk, s.tasks[i]? = some tk ∧ EnvTask tk tk' := by
  have hlt : i < s.tasks.length := by rw [← e.len]; exact getElem?_lt h
  obtain ⟨tk'', h1, h2⟩ := e.task i s.tasks[i] (List.getElem?_eq_getElem hlt)
  rw [h] at h1; cases h1
  exact ⟨_, List.getElem?_eq_getElem hlt, h2⟩

theorem EnvTask.live {tk tk' : Task} (e : EnvTask tk tk') (h : tk.live) : tk'.live := by
  rcases e.st with h1 | ⟨w, _, _, hr⟩
  · unfold Task.live at *; rw [h1]; exact h
  · exact Or.inl hr

theorem EnvTask.nonDone {tk tk' : Task} (e : EnvTask tk tk') (h : tk.nonDone) : tk'.nonDone := by
  intro r hr
  rcases e.st with h1 | ⟨w, _, _, rv, hr'⟩
  · rw [h1] at hr; exact h r hr
  · rw [hr'] at hr; cases hr

theorem EnvTask.done_iff {tk tk' : Task} (e : EnvTask tk tk') (r : TaskRes) : tk'.st = .done r ↔ tk.st = .done r := by
  rcases e.st with h1 | ⟨w, hw, _, rv, hr'⟩
  · rw [h1]
  · rw [hr', hw]; constructor <;> intro h <;> cases h

/-- a task that does not wait for the environment is left alone -/
theorem EnvTask.toExt {tk tk' : Task} (e : EnvTask tk tk') (s' : St) (h : tk'.st = tk.st) : TaskExt s' tk tk' :=
  ⟨e.frames, e.name, e.cancel, Or.inl h⟩

theorem Executor.env {s s' : St} (e : Env s s') {n : Node} (h : Executor s n) : Executor s' n := by
  obtain ⟨i, tk, hi, hl, d, f, pc, hf, hpc⟩ := h
  obtain ⟨tk', hi', te⟩ := e.task i tk hi
  exact ⟨i, tk', hi', te.live hl, d, f, pc, by rw [te.frames]; exact hf, hpc⟩

theorem SwOwner.env {s s' : St} (e : Env s s') {S : Node} (h : SwOwner s S) : SwOwner s' S := by
  obtain ⟨i, tk, hi, hnd, hf⟩ := h
  obtain ⟨tk', hi', te⟩ := e.task i tk hi
  exact ⟨i, tk', hi', te.nonDone hnd, by rw [te.frames]; exact hf⟩

theorem Launched.env {P : Program} {s s' : St} (e : Env s s') {q : Node} (h : Launched P s q) : Launched P s' q := by
  unfold Launched at *
  split
  · next hq =>
    simp only [hq, if_true] at h
    obtain ⟨i, tk, hi, hn⟩ := h
    obtain ⟨tk', hi', te⟩ := e.task i tk hi
    exact ⟨i, tk', hi', by rw [te.name]; exact hn⟩
  · next hq =>
    simp only [hq] at h
    rcases h with h | ⟨i, tk, d, hi, hf, hst⟩
    · exact Or.inl (by rw [e.proc]; exact h)
    · obtain ⟨tk', hi', te⟩ := e.task i tk hi
      refine Or.inr ⟨i, tk', d, hi', by rw [te.frames]; exact hf, ?_⟩
      rcases te.st with h1 | ⟨w, hw, _, _⟩
      · rw [h1]; exact hst
      · rw [hst] at hw; cases hw

theorem taskErrors_env {s s' : St} (e : Env s s') (x : Exc) : x ∈ taskErrors s' ↔ x ∈ taskErrors s := by
  rw [mem_taskErrors_iff, mem_taskErrors_iff]
  constructor
  · rintro ⟨i, tk', hi, hd⟩
    obtain ⟨tk, h1, te⟩ := e.back hi
    exact ⟨i, tk, h1, (te.done_iff _).mp hd⟩
  · rintro ⟨i, tk, hi, hd⟩
    obtain ⟨tk', h1, te⟩ := e.task i tk hi
    exact ⟨i, tk', h1, (te.done_iff _).mpr hd⟩

theorem taskErrors_env_nil {s s' : St} (e : Env s s') : taskErrors s' = [] ↔ taskErrors s = [] := by
  constructor
  · intro h
    apply List.eq_nil_iff_forall_not_mem.mpr
    intro x hx
    have := (taskErrors_env e x).mpr hx
    rw [h] at this; cases this
  · intro h
    apply List.eq_nil_iff_forall_not_mem.mpr
    intro x hx
    have := (taskErrors_env e x).mp hx
    rw [h] at this; cases this

/-- **the environment's steps preserve the invariant** -/
theorem struct_env {P : Program} {depth : Node → Nat} {s s' : St} (hs : Struct P depth s) (e : Env s s') :
    Struct P depth s' := by
  have hd := hs.data
  have hL : ∀ q, Launched P s q → Launched P s' q := fun q h => h.env e
  refine ⟨⟨?_, ?_, ?_, ?_, ?_, ?_, ?_, ?_, ?_, ?_, ?_, by rw [e.stale]; exact hd.stale⟩, ?_, ?_, ?_⟩
  · intro n; rw [e.resHid, e.procHid]; exact hd.noHid n
  · intro n v h; rw [e.res] at h; exact hd.noRec n v h
  · intro n hn
    rw [e.proc] at hn
    rcases hd.c1 n hn with h | h
    · exact Or.inl (by rw [e.evSet]; exact h)
    · exact Or.inr (h.env e)
  · intro n hn
    rw [e.evSet] at hn
    rcases hd.c4 n hn with h | h
    · exact Or.inl (by rw [e.res]; exact h)
    · exact Or.inr (fun h' => h ((taskErrors_env_nil e).mp h'))
  · intro n hn; rw [e.res] at hn; rw [e.evSet]; exact hd.c5 n hn
  · intro S l c h; rw [e.sw] at h; exact hd.swEdge S l c h
  · intro S lc h
    rw [e.sw] at h
    rw [switchSelect_congr e.res e.resHid]
    exact hd.swSel S lc h
  · intro n hn; rw [e.res] at hn; rw [e.proc]; exact hd.c6 n hn
  · intro n hn; rw [e.proc] at hn; exact hd.procPlain n hn
  · intro i j ti tj q d1 d2 f1 f2 p1 p2 hi hj hfi hfj hp1 hp2
    obtain ⟨ti0, hi0, tei⟩ := e.back hi
    obtain ⟨tj0, hj0, tej⟩ := e.back hj
    exact hd.uniq i j ti0 tj0 q d1 d2 f1 f2 p1 p2 hi0 hj0 (by rw [← tei.frames]; exact hfi) (by rw [← tej.frames]; exact hfj)
      hp1 hp2
  · intro tk htk
    obtain ⟨i, hi, hieq⟩ := List.getElem_of_mem htk
    have hget : s'.tasks[i]? = some tk := by rw [List.getElem?_eq_getElem hi, hieq]
    obtain ⟨tk0, h0, te⟩ := e.back hget
    rw [te.cancel]
    exact hd.noCancel tk0 (List.mem_of_getElem? h0)
  · intro i tk' hi
    obtain ⟨tk, h0, te⟩ := e.back hi
    have hok := hs.tasks i tk h0
    rcases te.st with hsame | ⟨w, hw, hext, hr⟩
    · have hl1 : s.tasks.length ≠ 1 ∨ (s'.tasks.length = 1 ∧ s'.proc = s.proc ∧ s'.evSet = s.evSet ∧ s'.sw = s.sw) := by
        by_cases hl : s.tasks.length = 1
        · exact Or.inr ⟨by rw [e.len]; exact hl, e.proc, e.evSet, e.sw⟩
        · exact Or.inl hl
      refine TaskOK.transport (te.toExt s' hsame) hok hl1
        (fun n v h => by rw [e.res]; exact h) (fun S lc h => by rw [e.sw]; exact h) (fun n h => by rw [e.proc]; exact h)
        (fun n h => by rw [e.evSet]; exact h) hL ?_ ?_ ?_
      · intro he0 hr0
        exact Or.inl ⟨(taskErrors_env_nil e).mpr he0, by rw [e.res]; exact hr0⟩
      · intro d m hrec hb hrd hold
        rw [ready_congr e.res e.resHid e.sw] at hrd
        obtain ⟨S, hS, hSs, ho⟩ := hold hrd
        exact ⟨S, hS, hSs, ho.env e⟩
      · intro d q pc _ _ _ h; rw [e.res]; exact h
    · obtain ⟨d, q, pc, hn, hns, hfr, hpc1, hpc2, hproc, hnores, hrests⟩ := ext_wait_is_exec hok hw hext
      exact .nodeExec tk' d q pc (by rw [te.name]; exact hn) hns (by rw [te.frames]; exact hfr) hpc1 hpc2 (Or.inl hr)
        (by rw [e.proc]; exact hproc) (by rw [e.res]; exact hnores) hrests
  · obtain ⟨tk0, h0, hn0⟩ := hs.caller
    obtain ⟨tk', h1, te⟩ := e.task 0 tk0 h0
    exact ⟨tk', h1, by rw [te.name]; exact hn0⟩
  · intro tk' h0 hf
    obtain ⟨tk, h1, te⟩ := e.back h0
    obtain ⟨tk1, h2, hn1⟩ := hs.main tk h1 (by rw [← te.frames]; exact hf)
    obtain ⟨tk1', h3, te1⟩ := e.task 1 tk1 h2
    exact ⟨tk1', h3, by rw [te1.name]; exact hn1⟩

theorem EnvTask.refl (tk : Task) : EnvTask tk tk := ⟨rfl, rfl, rfl, Or.inl rfl⟩

theorem envTask_gateDone (n inv att : Nat) (tk : Task) : EnvTask tk (gateDone n inv att tk) := by
  unfold gateDone
  split
  · next n' i' a' o hst =>
    split
    · exact ⟨rfl, rfl, rfl, Or.inr ⟨_, hst, rfl, _, rfl⟩⟩
    · exact EnvTask.refl tk
  · exact EnvTask.refl tk

theorem env_gate (s : St) (n inv att : Nat) : Env s { s with tasks := s.tasks.map (gateDone n inv att) } := by
  refine ⟨rfl, rfl, rfl, rfl, rfl, rfl, rfl, by simp, ?_⟩
  intro i tk hi
  exact ⟨gateDone n inv att tk, by simp [List.getElem?_map, hi], envTask_gateDone n inv att tk⟩

theorem env_timer (s : St) (t : Nat) (tk : Task) (ht : s.tasks[t]? = some tk) {n i a d : Nat}
    (hst : tk.st = .blocked (.sleep n i a d)) : Env s (s.setTask t { tk with st := .runnable .go }) := by
  have hlt := getElem?_lt ht
  refine ⟨rfl, rfl, rfl, rfl, rfl, rfl, rfl, by simp [St.setTask], ?_⟩
  intro j tkj hj
  rw [getElem?_close hlt]
  split
  · next h =>
    subst h
    rw [ht] at hj; cases hj
    exact ⟨_, rfl, rfl, rfl, rfl, Or.inr ⟨_, hst, rfl, _, rfl⟩⟩
  · exact ⟨tkj, hj, EnvTask.refl tkj⟩


/-! ### every section, every step, every reachable state -/


/-- **every section of a task preserves the invariant** (until `chart.run` returns) -/
theorem struct_stepTask {P : Program} {depth : Node → Nat} (hp : LiveP P depth) (c : Ctx) (hcP : c.P = P) {s : St}
    (hs : Struct P depth s) {out : Out} (h : stepTask c s = some out) (hv : Obs.badOracle ∉ out.2) :
    out.1.outcome ≠ none ∨ Struct P depth out.1 := by
  unfold stepTask at h
  split at h
  · cases h
  · next tk htk =>
    have hmc : tk.mustCancel = false := hs.data.noCancel tk (List.mem_of_getElem? htk)
    split at h
    · next rv hst =>
      simp only [hmc, Bool.false_eq_true, if_false] at h
      cases hs.tasks c.t tk htk with
      | callerStart hn hfr hst' hlen hp0 he0 hs0 =>
        rw [hfr] at h
        simp only [Option.some.injEq] at h
        subst h
        exact struct_mgrStart hp c hcP hs htk hn hlen hp0 he0 hs0 []
      | callerWait hn hfr hst' =>
        rw [hfr] at h
        simp only [Option.some.injEq] at h
        subst h
        exact struct_mgrCheck hp c hcP hs htk hn hfr ⟨_, hst⟩ []
      | main F d0 hn hfr hdf hdag hdest hout hst' =>
        rw [hfr] at h
        right
        cases hdf with
        | init =>
          simp only [Option.some.injEq] at h
          subst h
          exact struct_dagInit_task hp c hcP hs htk ⟨_, hst⟩ hfr [] hv
        | launch _ m r _ _ _ =>
          simp only [Option.some.injEq] at h
          subst h
          exact struct_launch_resume hp c hcP hs htk ⟨_, hst⟩ hfr []
        | wait _ _ =>
          simp only [Option.some.injEq] at h
          subst h
          exact struct_wait_resume hp c hcP hs htk ⟨_, hst⟩ hfr []
      | mainDone hn hfr hst' hres => rw [hst'] at hst; cases hst
      | nodeStart d0 q hn hns hfr hst' =>
        rw [hfr] at h
        simp only [Option.some.injEq] at h
        subst h
        exact Or.inr (struct_nodeStart hp c hcP hs htk hn hns hfr ⟨_, hst⟩ [])
      | nodeWait d0 q hn hns hfr hst' hproc =>
        rw [hfr] at h
        simp only [Option.some.injEq] at h
        subst h
        have hev : s.evSet q = true := by
          rcases hst' with ⟨_, h⟩ | h
          · exact h
          · rw [h] at hst; cases hst
        exact Or.inr (struct_node_read hp c hcP hs htk hn hns hfr ⟨_, hst⟩ hproc hev [])
      | nodeExec d0 q pc hn hns hfr hpc1 hpc2 hlive hproc hnores hrests =>
        rw [hfr] at h
        right
        have x : NCtx P depth c s s tk d0 q pc :=
          ⟨hp, hcP, hs, htk, hn, hns, hfr, ⟨_, hst⟩, Or.inl ⟨rfl, by cases pc <;> simp_all [NodePc.exec], hproc, hnores⟩⟩
        cases pc with
        | body k kw inv =>
          cases rv with
          | body o =>
            simp only [Option.some.injEq] at h
            subst h
            exact x.afterBody k kw inv []
          | go => simp at h
          | ret v => simp at h
        | sleep k kw inv =>
          simp only [Option.some.injEq] at h
          subst h
          exact x.attempt (k + 1) kw inv []
        | _ => simp [NodePc.rests] at hrests
      | nodeDone q r0 hn hns hfr hst' hnc hev => rw [hst'] at hst; cases hst
      | swStart d0 S0 hn hsS hfr hno1 hst' =>
        rw [hfr] at h
        simp only [Option.some.injEq] at h
        subst h
        exact Or.inr (struct_switchStart hp c hcP hs htk hn hsS hfr hno1 hst' [] hv)
      | swIn F sub d0 S0 hn hsS hfr hdf hsub hst' =>
        rw [hfr] at h
        right
        cases hdf with
        | init =>
          simp only [Option.some.injEq] at h
          subst h
          exact struct_dagInit_task hp c hcP hs htk ⟨_, hst⟩ hfr [] hv
        | launch _ m r _ _ _ =>
          simp only [Option.some.injEq] at h
          subst h
          exact struct_launch_resume hp c hcP hs htk ⟨_, hst⟩ hfr []
        | wait _ _ =>
          simp only [Option.some.injEq] at h
          subst h
          exact struct_wait_resume hp c hcP hs htk ⟨_, hst⟩ hfr []
      | swRet d0 S0 hn hsS hfr hst' hsw =>
        rw [hfr] at h
        obtain ⟨v, hv'⟩ := hst'
        rw [hv'] at hst
        cases hst
        simp only [Option.some.injEq] at h
        subst h
        right
        have hself : (notifyAll s ((c.P.g.desc1 S0).map Key.node)).tasks[c.t]? = some tk := by
          rw [(Ext.notifyAll (t := c.t) _ (fun tk0 h => by rw [htk] at h; cases h; exact ⟨_, hv'⟩)).self]; exact htk
        rw [retTo_eq_nil c _ _ _ hself, hcP]
        exact struct_switch_ret hp hs htk hn hsS hfr ⟨_, hv'⟩ hsw _ rfl rfl rfl rfl
      | swDone S0 r0 hn hsS hfr hst' hnc hok => rw [hst'] at hst; cases hst
    · cases h

theorem struct_init (P : Program) (depth : Node → Nat) : Struct P depth init := by
  have htasks : init.tasks = [{ frames := [.mgrStart], st := .runnable .go, name := .caller }] := rfl
  refine ⟨⟨fun n => ⟨rfl, rfl⟩, ?_, ?_, ?_, ?_, ?_, ?_, ?_, ?_, ?_, ?_, rfl⟩, ?_, ⟨_, rfl, rfl⟩, ?_⟩
  · intro n v h; cases h
  · intro n h; cases h
  · intro n h; cases h
  · intro n h; cases h
  · intro S l c h; cases h
  · intro S lc h; cases h
  · intro n h; cases h
  · intro n h; cases h
  · intro i j ti tj q d1 d2 f1 f2 p1 p2 hi _ hfi
    rw [htasks] at hi
    match i, hi with
    | 0, hi => simp at hi; rw [← hi] at hfi; simp at hfi
    | n + 1, hi => simp at hi
  · intro tk htk
    rw [htasks] at htk
    simp only [List.mem_cons, List.not_mem_nil, or_false] at htk
    rw [htk]
  · intro i tk hi
    rw [htasks] at hi
    match i, hi with
    | 0, hi =>
      simp at hi; subst hi
      exact .callerStart _ rfl rfl ⟨_, rfl⟩ rfl (fun _ => rfl) (fun _ => rfl) (fun _ => rfl)
    | n + 1, hi => simp at hi
  · intro tk h0 hf
    have : tk = { frames := [.mgrStart], st := .runnable .go, name := .caller } := by
      rw [htasks] at h0; simp at h0; exact h0.symm
    rw [this] at hf; simp at hf

/-- the runs of a pending pipeline: the steps of the model before `chart.run` returns, in which the launch orders the
scheduler proposes are admissible answers of `_get_node_order`, and nobody cancels the caller -/
inductive LiveReach (P : Program) : St → Prop
  | init : LiveReach P init
  | step {s s' : St} {ch : Choice} {obs : List Obs} : LiveReach P s → s.outcome = none → ch ≠ .cancelCaller →
      step P s ch = some (s', obs) → Obs.badOracle ∉ obs → LiveReach P s'

theorem LiveReach.reach {P : Program} {s : St} (h : LiveReach P s) : Reach P s := by
  induction h with
  | init => exact .init
  | step _ _ _ hs _ ih => exact .step ih hs

/-- **every step of a pending run preserves the invariant** -/
theorem struct_step {P : Program} {depth : Node → Nat} (hp : LiveP P depth) {s s' : St} (hs : Struct P depth s)
    {ch : Choice} {obs : List Obs} (hch : ch ≠ .cancelCaller) (h : step P s ch = some (s', obs))
    (hv : Obs.badOracle ∉ obs) : s'.outcome ≠ none ∨ Struct P depth s' := by
  cases ch with
  | run t ord pick => exact struct_stepTask hp { P := P, t := t, ord := ord, pick := pick } rfl hs h hv
  | gate n inv att =>
    simp only [step] at h
    split at h
    · cases h
    · simp only [Option.some.injEq, Prod.mk.injEq] at h
      rw [← h.1]
      exact Or.inr (struct_env hs (env_gate s n inv att))
  | timer t =>
    simp only [step] at h
    split at h
    · next tk htk =>
      split at h
      · next hst =>
        simp only [Option.some.injEq, Prod.mk.injEq] at h
        rw [← h.1]
        exact Or.inr (struct_env hs (env_timer s t tk htk hst))
      · cases h
    · cases h
  | cancelCaller => exact absurd rfl hch

theorem live_inv {P : Program} {depth : Node → Nat} (hp : LiveP P depth) {s : St} (h : LiveReach P s) :
    s.outcome ≠ none ∨ Struct P depth s := by
  induction h with
  | init => exact Or.inr (struct_init P depth)
  | step _ hout hch hs hv ih =>
    rcases ih with h | h
    · exact absurd hout h
    · exact struct_step hp h hch hs hv

/-- **a pending run of a pipeline with switches is never stuck**: in every state the model reaches while `chart.run` has
not returned, some task is runnable, or a node body or a retry timer is outstanding — under every schedule, every
order of node completions, every admissible launch order, every body outcome and every failing collaborator -/
theorem live_not_stuck {P : Program} {depth : Node → Nat} (hp : LiveP P depth) {s : St} (h : LiveReach P s) :
    stuck s = false := by
  rcases live_inv hp h with h1 | h1
  · unfold stuck
    cases ho : s.outcome with
    | none => exact absurd ho h1
    | some o => rfl
  · obtain ⟨i, tk, hi, hl⟩ := struct_live hp h1
    exact not_stuck_of_live hi hl

end MLPE.Eng

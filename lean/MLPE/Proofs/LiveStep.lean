import MLPE.Proofs.Live

/-!
# Every step of a pending run preserves the liveness invariant (`Struct`)
-/
namespace MLPE.Eng
open MLPE

/-! ### growth of the state while one task runs a section -/

/-- how a wait may end by somebody else's notification -/
def Woke (s' : St) : Wait → Prop
  | .event q => s'.evSet q = true
  | .cond _ => True
  | _ => False

/-- `tk'` is `tk` after notifications sent by somebody else -/
structure TaskExt (s' : St) (tk tk' : Task) : Prop where
  frames : tk'.frames = tk.frames
  name   : tk'.name = tk.name
  cancel : tk'.mustCancel = tk.mustCancel
  st     : tk'.st = tk.st ∨ ∃ w, tk.st = .blocked w ∧ tk'.st = .runnable .go ∧ Woke s' w

/-- what a section of task `t` may do to the rest of the state before it installs its own new frames: the other tasks
are woken at most, tasks are appended, storage only grows -/
structure Ext (t : Nat) (s s' : St) : Prop where
  old  : ∀ (i : Nat) (tk : Task), s.tasks[i]? = some tk → i ≠ t → ∃ tk', s'.tasks[i]? = some tk' ∧ TaskExt s' tk tk'
  self : s'.tasks[t]? = s.tasks[t]?
  res  : ∀ n v, s.res n = some v → s'.res n = some v
  sw   : ∀ S lc, s.sw S = some lc → s'.sw S = some lc
  proc : ∀ n, s.proc n = true → s'.proc n = true
  ev   : ∀ n, s.evSet n = true → s'.evSet n = true
  stale : s'.stale = s.stale

theorem TaskExt.refl (s' : St) (tk : Task) : TaskExt s' tk tk := ⟨rfl, rfl, rfl, Or.inl rfl⟩

theorem Ext.refl (t : Nat) (s : St) : Ext t s s :=
  ⟨fun i tk h _ => ⟨tk, h, TaskExt.refl s tk⟩, rfl, fun _ _ h => h, fun _ _ h => h, fun _ h => h, fun _ h => h, rfl⟩

theorem Woke.mono {s s' : St} (hev : ∀ n, s.evSet n = true → s'.evSet n = true) {w : Wait} (h : Woke s w) : Woke s' w := by
  cases w with
  | event q => exact hev q h
  | cond k => trivial
  | gate n i a o => exact h
  | sleep n i a d => exact h

theorem Ext.trans {t : Nat} {a b c : St} (h1 : Ext t a b) (h2 : Ext t b c) : Ext t a c := by
  refine ⟨?_, by rw [h2.self, h1.self], fun n v h => h2.res n v (h1.res n v h), fun S lc h => h2.sw S lc (h1.sw S lc h),
    fun n h => h2.proc n (h1.proc n h), fun n h => h2.ev n (h1.ev n h), by rw [h2.stale, h1.stale]⟩
  intro i tk hi hne
  obtain ⟨tk1, hi1, e1⟩ := h1.old i tk hi hne
  obtain ⟨tk2, hi2, e2⟩ := h2.old i tk1 hi1 hne
  refine ⟨tk2, hi2, by rw [e2.frames, e1.frames], by rw [e2.name, e1.name], by rw [e2.cancel, e1.cancel], ?_⟩
  rcases e1.st with h | ⟨w, hw, hr, hwk⟩
  · rcases e2.st with h' | ⟨w', hw', hr', hwk'⟩
    · exact Or.inl (by rw [h', h])
    · exact Or.inr ⟨w', by rw [← h]; exact hw', hr', hwk'⟩
  · rcases e2.st with h' | ⟨w', hw', _, _⟩
    · exact Or.inr ⟨w, hw, by rw [h', hr], hwk.mono h2.ev⟩
    · rw [hr] at hw'; cases hw'

/-- a live task stays live under notifications -/
theorem TaskExt.live {s' : St} {tk tk' : Task} (e : TaskExt s' tk tk') (h : tk.live) : tk'.live := by
  rcases e.st with h1 | ⟨w, hw, hr, hwk⟩
  · unfold Task.live at *; rw [h1]; exact h
  · exact Or.inl ⟨_, hr⟩

theorem TaskExt.nonDone {s' : St} {tk tk' : Task} (e : TaskExt s' tk tk') (h : tk.nonDone) : tk'.nonDone := by
  intro r hr
  rcases e.st with h1 | ⟨w, hw, hr', _⟩
  · rw [h1] at hr; exact h r hr
  · rw [hr'] at hr; cases hr

/-- every task of `s` is a task of `s'` with the same frames -/
theorem Ext.task {t : Nat} {s s' : St} (e : Ext t s s') {i : Nat} {tk : Task} (hi : s.tasks[i]? = some tk) :
    ∃ tk', s'.tasks[i]? = some tk' ∧ TaskExt s' tk tk' := by
  by_cases hit : i = t
  · subst hit
    exact ⟨tk, by rw [e.self]; exact hi, TaskExt.refl s' tk⟩
  · exact e.old i tk hi hit

theorem Executor.ext {t : Nat} {s s' : St} (e : Ext t s s') {n : Node} (h : Executor s n) : Executor s' n := by
  obtain ⟨i, tk, hi, hl, d, f, pc, hf, hpc⟩ := h
  obtain ⟨tk', hi', te⟩ := e.task hi
  exact ⟨i, tk', hi', te.live hl, d, f, pc, by rw [te.frames]; exact hf, hpc⟩

theorem SwOwner.ext {t : Nat} {s s' : St} (e : Ext t s s') {S : Node} (h : SwOwner s S) : SwOwner s' S := by
  obtain ⟨i, tk, hi, hnd, hf⟩ := h
  obtain ⟨tk', hi', te⟩ := e.task hi
  exact ⟨i, tk', hi', te.nonDone hnd, by rw [te.frames]; exact hf⟩

theorem OwnerM.ext {P : Program} {t : Nat} {s s' : St} (e : Ext t s s') {m : Node} (h : OwnerM P s m) : OwnerM P s' m := by
  obtain ⟨S, hS, hs, ho⟩ := h
  exact ⟨S, hS, hs, ho.ext e⟩

theorem Launched.ext {P : Program} {t : Nat} {s s' : St} (e : Ext t s s') {q : Node} (h : Launched P s q) : Launched P s' q := by
  unfold Launched at *
  split
  · next hq =>
    simp only [hq, if_true] at h
    obtain ⟨i, tk, hi, hn⟩ := h
    obtain ⟨tk', hi', te⟩ := e.task hi
    exact ⟨i, tk', hi', by rw [te.name]; exact hn⟩
  · next hq =>
    simp only [hq] at h
    rcases h with h | ⟨i, tk, d, hi, hf, hst⟩
    · exact Or.inl (e.proc q h)
    · obtain ⟨tk', hi', te⟩ := e.task hi
      refine Or.inr ⟨i, tk', d, hi', by rw [te.frames]; exact hf, ?_⟩
      rcases te.st with h1 | ⟨w, hw, _, _⟩
      · rw [h1]; exact hst
      · rw [hst] at hw; cases hw

theorem DagFrame.ext {P : Program} {t : Nat} {s s' : St} (e : Ext t s s') {F : Frame} {d : DagRef}
    (h : DagFrame P s F d) : DagFrame P s' F d := by
  cases h with
  | init => exact .init d
  | launch _ m rest h1 h2 h3 => exact .launch d m rest (fun q hq hn => (h1 q hq hn).ext e) h2 h3
  | wait _ h1 => exact .wait d (fun q hq => (h1 q hq).ext e)

theorem SubOK'.ext {P : Program} {depth : Node → Nat} {t : Nat} {s s' : St} (e : Ext t s s') {sub : DagRef} {S : Node}
    (h : SubOK' P depth s sub S) : SubOK' P depth s' sub S := by
  obtain ⟨l, c, h1, h2⟩ := h.sel
  exact ⟨h.dag, l, c, e.sw S _ h1, h2⟩

theorem TaskExt.runnable {s' : St} {tk tk' : Task} (e : TaskExt s' tk tk') (h : ∃ rv, tk.st = .runnable rv) :
    ∃ rv, tk'.st = .runnable rv := by
  obtain ⟨rv, h⟩ := h
  rcases e.st with h1 | ⟨w, hw, _, _⟩
  · exact ⟨rv, by rw [h1]; exact h⟩
  · rw [h] at hw; cases hw

theorem TaskExt.done {s' : St} {tk tk' : Task} (e : TaskExt s' tk tk') {r : TaskRes} (h : tk.st = .done r) :
    tk'.st = .done r := by
  rcases e.st with h1 | ⟨w, hw, _, _⟩
  · rw [h1]; exact h
  · rw [h] at hw; cases hw

theorem DagFrame.transport {P : Program} {s s' : St} (hL : ∀ q, Launched P s q → Launched P s' q) {F : Frame} {d : DagRef}
    (h : DagFrame P s F d) : DagFrame P s' F d := by
  cases h with
  | init => exact .init d
  | launch _ m rest h1 h2 h3 => exact .launch d m rest (fun q hq hn => hL q (h1 q hq hn)) h2 h3
  | wait _ h1 => exact .wait d (fun q hq => hL q (h1 q hq))

theorem SubOK'.transport {P : Program} {depth : Node → Nat} {s s' : St} (hsw : ∀ S lc, s.sw S = some lc → s'.sw S = some lc)
    {sub : DagRef} {S : Node} (h : SubOK' P depth s sub S) : SubOK' P depth s' sub S := by
  obtain ⟨l, c, h1, h2⟩ := h.sel
  exact ⟨h.dag, l, c, hsw S _ h1, h2⟩

theorem LaunchSt.transport {P : Program} {s s' : St} {tk tk' : Task} (te : TaskExt s' tk tk')
    {F : Frame} (h : LaunchSt P s tk F)
    (hready : ∀ d m, d.isRec = false → tk'.st = .blocked (.cond (.node m)) → ready P s' d m = true →
      (ready P s d m = true → OwnerM P s m) → OwnerM P s' m) :
    LaunchSt P s' tk' F := by
  cases F with
  | dagInit d => exact te.runnable h
  | dagLaunch d rest =>
    cases rest with
    | nil => exact h
    | cons m r =>
      obtain ⟨hrec, h⟩ := h
      refine ⟨hrec, ?_⟩
      rcases h with h | ⟨h1, h2⟩
      · exact Or.inl (te.runnable h)
      · rcases te.st with h3 | ⟨w, _, hr, _⟩
        · exact Or.inr ⟨by rw [h3]; exact h1, fun hrd => hready d m hrec (by rw [h3]; exact h1) hrd h2⟩
        · exact Or.inl ⟨_, hr⟩
  | dagWaitDest d =>
    rcases h with h | h
    · exact Or.inl (te.runnable h)
    · rcases te.st with h3 | ⟨w, _, hr, _⟩
      · exact Or.inr (by rw [h3]; exact h)
      · exact Or.inl ⟨_, hr⟩
  | _ => exact h

/-- the description of a task survives a section of another task, provided the storage only grows, the launch
bookkeeping survives, and the wake-ups are complete: `run()` is woken when its predicate turns true; a launch loop whose
node has become ready is woken or has an owner -/
theorem TaskOK.transport {P : Program} {depth : Node → Nat} {s s' : St} {tk tk' : Task} (te : TaskExt s' tk tk')
    (h : TaskOK P depth s tk)
    (hlen1 : s.tasks.length ≠ 1 ∨ (s'.tasks.length = 1 ∧ s'.proc = s.proc ∧ s'.evSet = s.evSet ∧ s'.sw = s.sw))
    (hres' : ∀ n v, s.res n = some v → s'.res n = some v) (hsw' : ∀ S lc, s.sw S = some lc → s'.sw S = some lc)
    (hproc' : ∀ n, s.proc n = true → s'.proc n = true) (hev' : ∀ n, s.evSet n = true → s'.evSet n = true)
    (hL : ∀ q, Launched P s q → Launched P s' q)
    (hrun : taskErrors s = [] → s.res P.g.output = none →
      (taskErrors s' = [] ∧ s'.res P.g.output = none) ∨ tk'.st ≠ .blocked (.cond .run))
    (hready : ∀ d m, d.isRec = false → tk'.st = .blocked (.cond (.node m)) → ready P s' d m = true →
      (ready P s d m = true → OwnerM P s m) → OwnerM P s' m)
    (hstore : ∀ d q pc, tk.frames = [.node d q false pc] → pc ≠ .start → pc ≠ .evWait → s.res q = none → s'.res q = none) :
    TaskOK P depth s' tk' := by
  cases h with
  | callerStart hn hfr hst hlen hp0 he0 hs0 =>
    rcases hlen1 with h | ⟨h1, h2, h3, h4⟩
    · exact absurd hlen h
    · exact .callerStart tk' (by rw [te.name]; exact hn) (by rw [te.frames]; exact hfr) (te.runnable hst) h1
        (by rw [h2]; exact hp0) (by rw [h3]; exact he0) (by rw [h4]; exact hs0)
  | callerWait hn hfr hst =>
    refine .callerWait tk' (by rw [te.name]; exact hn) (by rw [te.frames]; exact hfr) ?_
    rcases hst with ⟨rv, h⟩ | ⟨h, he0, hr0⟩
    · exact Or.inl (te.runnable ⟨rv, h⟩)
    · rcases te.st with h1 | ⟨w, _, hr, _⟩
      · rcases hrun he0 hr0 with ⟨h2, h3⟩ | h2
        · exact Or.inr ⟨by rw [h1]; exact h, h2, h3⟩
        · exact absurd (by rw [h1]; exact h) h2
      · exact Or.inl ⟨_, hr⟩
  | main F d0 hn hfr hdf hdag hdest hout hst =>
    exact .main tk' F d0 (by rw [te.name]; exact hn) (by rw [te.frames]; exact hfr) (hdf.transport hL) hdag hdest hout
      (LaunchSt.transport te hst hready)
  | mainDone hn hfr hst hres =>
    exact .mainDone tk' (by rw [te.name]; exact hn) (by rw [te.frames]; exact hfr) (te.done hst) (hL _ hres)
  | nodeStart d0 q hn hns hfr hst =>
    refine .nodeStart tk' d0 q (by rw [te.name]; exact hn) hns (by rw [te.frames]; exact hfr) ?_
    rcases te.st with h1 | ⟨w, hw, _, _⟩
    · rw [h1]; exact hst
    · rw [hst] at hw; cases hw
  | nodeWait d0 q hn hns hfr hst hproc =>
    refine .nodeWait tk' d0 q (by rw [te.name]; exact hn) hns (by rw [te.frames]; exact hfr) ?_ (hproc' q hproc)
    rcases hst with ⟨⟨rv, h⟩, hev⟩ | h
    · exact Or.inl ⟨te.runnable ⟨rv, h⟩, hev' q hev⟩
    · rcases te.st with h1 | ⟨w, hw, hr, hwk⟩
      · exact Or.inr (by rw [h1]; exact h)
      · rw [h] at hw; cases hw; exact Or.inl ⟨⟨_, hr⟩, hwk⟩
  | nodeExec d0 q pc hn hns hfr hpc1 hpc2 hlive hproc hnores hrests =>
    exact .nodeExec tk' d0 q pc (by rw [te.name]; exact hn) hns (by rw [te.frames]; exact hfr) hpc1 hpc2 (te.live hlive)
      (hproc' q hproc) (hstore d0 q pc hfr hpc1 hpc2 hnores) hrests
  | nodeDone q r0 hn hns hfr hst hnc hev =>
    exact .nodeDone tk' q r0 (by rw [te.name]; exact hn) hns (by rw [te.frames]; exact hfr) (te.done hst) hnc (hev' q hev)
  | swStart d0 S0 hn hsS hfr hno1 hst =>
    refine .swStart tk' d0 S0 (by rw [te.name]; exact hn) hsS (by rw [te.frames]; exact hfr) hno1 ?_
    rcases te.st with h1 | ⟨w, hw, _, _⟩
    · rw [h1]; exact hst
    · rw [hst] at hw; cases hw
  | swIn F sub d0 S0 hn hsS hfr hdf hsub hst =>
    exact .swIn tk' F sub d0 S0 (by rw [te.name]; exact hn) hsS (by rw [te.frames]; exact hfr) (hdf.transport hL)
      (hsub.transport hsw') (LaunchSt.transport te hst hready)
  | swRet d0 S0 hn hsS hfr hst hsw =>
    obtain ⟨v, hv⟩ := hst
    obtain ⟨l, c, h1, h2⟩ := hsw
    refine .swRet tk' d0 S0 (by rw [te.name]; exact hn) hsS (by rw [te.frames]; exact hfr) ⟨v, ?_⟩ ⟨l, c, hsw' _ _ h1, hL c h2⟩
    rcases te.st with h3 | ⟨w, hw, _, _⟩
    · rw [h3]; exact hv
    · rw [hv] at hw; cases hw
  | swDone S0 r0 hn hsS hfr hst hnc hok =>
    refine .swDone tk' S0 r0 (by rw [te.name]; exact hn) hsS (by rw [te.frames]; exact hfr) (te.done hst) hnc ?_
    intro hr
    obtain ⟨l, c, h1, h2⟩ := hok hr
    exact ⟨l, c, hsw' _ _ h1, hL c h2⟩

theorem ready_setTask (P : Program) (s : St) (t : Nat) (tk : Task) (d : DagRef) (m : Node) :
    ready P (s.setTask t tk) d m = ready P s d m := rfl

theorem taskErrors_of_tasks {s s' : St} (h : s'.tasks = s.tasks) : taskErrors s' = taskErrors s := by
  unfold taskErrors; rw [h]

/-- **closing a section**: the state grew (`Ext`), then task `t` installs its new entry `tk'` -/
theorem Struct.close {P : Program} {depth : Node → Nat} {s s1 : St} {t : Nat} {tk' : Task} (hs : Struct P depth s)
    (htt : ∃ tkt, s.tasks[t]? = some tkt ∧ tk'.name = tkt.name) (e : Ext t s s1) (hlen1 : s.tasks.length ≠ 1)
    (hdata : LData P (s1.setTask t tk'))
    (hself : TaskOK P depth (s1.setTask t tk') tk')
    (hL : ∀ q, Launched P s q → Launched P (s1.setTask t tk') q)
    (hrun : taskErrors s = [] → s.res P.g.output = none →
      (taskErrors (s1.setTask t tk') = [] ∧ s1.res P.g.output = none) ∨ NoneBlocked s1 (.cond .run))
    (hready : ∀ (i : Nat) (tki : Task) (d : DagRef) (m : Node), i ≠ t → s1.tasks[i]? = some tki → d.isRec = false →
      tki.st = .blocked (.cond (.node m)) → ready P s1 d m = true → (ready P s d m = true → OwnerM P s m) →
      OwnerM P (s1.setTask t tk') m)
    (hstore : ∀ (i : Nat) (tk : Task) (d : DagRef) (q : Node) (pc : NodePc), i ≠ t → s.tasks[i]? = some tk →
      tk.frames = [.node d q false pc] → pc ≠ .start → pc ≠ .evWait → s.res q = none → s1.res q = none)
    (hmain : t = 0 → tk'.frames = [.mgrWait] → ∃ tk1, s1.tasks[1]? = some tk1 ∧ tk1.name = .run)
    (hnew : ∀ (i : Nat) (tk : Task), s.tasks.length ≤ i → s1.tasks[i]? = some tk → TaskOK P depth (s1.setTask t tk') tk) :
    Struct P depth (s1.setTask t tk') := by
  obtain ⟨tkt, htkt, hnm⟩ := htt
  have hlt : t < s1.tasks.length := by
    have := getElem?_lt (show s1.tasks[t]? = some tkt by rw [e.self]; exact htkt)
    exact this
  have hget_t : (s1.setTask t tk').tasks[t]? = some tk' := by
    simp only [St.setTask]; exact List.getElem?_set_self hlt
  have hget_o : ∀ i, i ≠ t → (s1.setTask t tk').tasks[i]? = s1.tasks[i]? := by
    intro i hi; simp only [St.setTask]; exact List.getElem?_set_ne (Ne.symm hi)
  refine ⟨hdata, ?_, ?_, ?_⟩
  · intro i tk hi
    by_cases hit : i = t
    · subst hit
      rw [hget_t] at hi
      cases hi
      exact hself
    · rw [hget_o i hit] at hi
      -- the task existed before the section (new tasks have indices ≥ the old length … they are described by `hnew`)
      by_cases hold : i < s.tasks.length
      · obtain ⟨tk0, h0⟩ : ∃ tk0, s.tasks[i]? = some tk0 := ⟨s.tasks[i], by simp [hold]⟩
        obtain ⟨tk1, h1, te⟩ := e.old i tk0 h0 hit
        rw [hi] at h1
        cases h1
        have te' : TaskExt (s1.setTask t tk') tk0 tk := ⟨te.frames, te.name, te.cancel, by
          rcases te.st with h | ⟨w, h1, h2, h3⟩
          · exact Or.inl h
          · exact Or.inr ⟨w, h1, h2, by cases w <;> exact h3⟩⟩
        refine TaskOK.transport te' (hs.tasks i tk0 h0) (Or.inl hlen1) e.res e.sw e.proc e.ev hL ?_ ?_ ?_
        · intro he0 hr0
          rcases hrun he0 hr0 with h | h
          · exact Or.inl h
          · exact Or.inr (h tk (List.mem_of_getElem? hi))
        · intro d m hrec hb hr hold'
          exact hready i tk d m hit hi hrec hb hr hold'
        · intro d q pc hf hp1 hp2 hn
          exact hstore i tk0 d q pc hit h0 hf hp1 hp2 hn
      · exact hnew i tk (Nat.le_of_not_lt hold) hi
  · -- the caller's task keeps its name
    obtain ⟨tk0, h0, hn0⟩ := hs.caller
    by_cases ht0 : t = 0
    · subst ht0
      rw [h0] at htkt; cases htkt
      exact ⟨tk', hget_t, by rw [hnm]; exact hn0⟩
    · obtain ⟨tk1, h1, te⟩ := e.old 0 tk0 h0 (Ne.symm ht0)
      exact ⟨tk1, by rw [hget_o 0 (Ne.symm ht0)]; exact h1, by rw [te.name]; exact hn0⟩
  · intro tk h0' hfr
    by_cases ht0 : t = 0
    · subst ht0
      rw [hget_t] at h0'; cases h0'
      obtain ⟨tk1, h1, hn1⟩ := hmain rfl hfr
      exact ⟨tk1, by rw [hget_o 1 (by decide)]; exact h1, hn1⟩
    · rw [hget_o 0 (Ne.symm ht0)] at h0'
      obtain ⟨tk0, h0, _⟩ := hs.caller
      obtain ⟨tk0', h0'', te⟩ := e.old 0 tk0 h0 (Ne.symm ht0)
      rw [h0'] at h0''; cases h0''
      obtain ⟨tkm, hm, hnm'⟩ := hs.main tk0 h0 (by rw [← te.frames]; exact hfr)
      by_cases ht1 : t = 1
      · subst ht1
        rw [hm] at htkt; cases htkt
        exact ⟨tk', hget_t, by rw [hnm]; exact hnm'⟩
      · obtain ⟨tkm', hm', tem⟩ := e.old 1 tkm hm (Ne.symm ht1)
        exact ⟨tkm', by rw [hget_o 1 (Ne.symm ht1)]; exact hm', by rw [tem.name]; exact hnm'⟩

/-! ### the primitive updates as extensions -/

theorem wakeIf_taskExt (s' : St) (p : Wait → Bool) (hp : ∀ w, p w = true → Woke s' w) (tk : Task) :
    TaskExt s' tk (wakeIf p tk) := by
  refine ⟨?_, ?_, ?_, ?_⟩
  · unfold wakeIf; split <;> (try split) <;> rfl
  · unfold wakeIf; split <;> (try split) <;> rfl
  · unfold wakeIf; split <;> (try split) <;> rfl
  · unfold wakeIf
    split
    · next w hw =>
      split
      · next hpw => exact Or.inr ⟨w, hw, rfl, hp w hpw⟩
      · exact Or.inl rfl
    · exact Or.inl rfl

theorem wakeIf_runnable (p : Wait → Bool) (tk : Task) (h : ∃ rv, tk.st = .runnable rv) : wakeIf p tk = tk := by
  obtain ⟨rv, h⟩ := h
  unfold wakeIf
  rw [h]

/-- an update that maps the task list through a wake-up function and lets the storage grow -/
theorem Ext.of_wake {t : Nat} {s s' : St} (p : Wait → Bool) (ht : s'.tasks = s.tasks.map (wakeIf p))
    (hp : ∀ w, p w = true → Woke s' w) (hrt : ∀ tkt, s.tasks[t]? = some tkt → ∃ rv, tkt.st = .runnable rv)
    (hres : ∀ n v, s.res n = some v → s'.res n = some v) (hsw : ∀ S lc, s.sw S = some lc → s'.sw S = some lc)
    (hproc : ∀ n, s.proc n = true → s'.proc n = true) (hev : ∀ n, s.evSet n = true → s'.evSet n = true)
    (hstale : s'.stale = s.stale := by rfl) :
    Ext t s s' := by
  refine ⟨?_, ?_, hres, hsw, hproc, hev, hstale⟩
  · intro i tk hi _
    refine ⟨wakeIf p tk, ?_, wakeIf_taskExt s' p hp tk⟩
    rw [ht, List.getElem?_map, hi]; rfl
  · rw [ht, List.getElem?_map]
    cases hs : s.tasks[t]? with
    | none => rfl
    | some tkt => simp only [Option.map_some]; rw [wakeIf_runnable p tkt (hrt tkt hs)]

theorem Ext.notify {t : Nat} {s : St} (k : Key) (hrt : ∀ tkt, s.tasks[t]? = some tkt → ∃ rv, tkt.st = .runnable rv) :
    Ext t s (notify s k) :=
  Ext.of_wake _ rfl (by intro w hw; cases w <;> simp_all [Woke]) hrt (fun _ _ h => h) (fun _ _ h => h) (fun _ h => h)
    (fun _ h => h)

/-- the stepping task stays what it is under an extension -/
theorem Ext.runnable_t {t : Nat} {s s' : St} (e : Ext t s s')
    (hrt : ∀ tkt, s.tasks[t]? = some tkt → ∃ rv, tkt.st = .runnable rv) :
    ∀ tkt, s'.tasks[t]? = some tkt → ∃ rv, tkt.st = .runnable rv := by
  intro tkt h; rw [e.self] at h; exact hrt tkt h

theorem Ext.notifyAll {t : Nat} (ks : List Key) : ∀ {s : St},
    (∀ tkt, s.tasks[t]? = some tkt → ∃ rv, tkt.st = .runnable rv) → Ext t s (notifyAll s ks) := by
  induction ks with
  | nil => intro s _; exact Ext.refl t s
  | cons k ks ih =>
    intro s hrt
    simp only [Eng.notifyAll, List.foldl_cons]
    have e1 := Ext.notify (t := t) (s := s) k hrt
    exact e1.trans (ih (e1.runnable_t hrt))

theorem Ext.setEvent {t : Nat} {s : St} (n : Node) (hrt : ∀ tkt, s.tasks[t]? = some tkt → ∃ rv, tkt.st = .runnable rv) :
    Ext t s (setEvent s n) := by
  refine Ext.of_wake _ rfl ?_ hrt (fun _ _ h => h) (fun _ _ h => h) (fun _ h => h) ?_
  · intro w hw
    cases w with
    | event q =>
      simp only [beq_iff_eq] at hw
      subst hw
      simp [Woke, Eng.setEvent, upd]
    | cond k => simp at hw
    | gate => simp at hw
    | sleep => simp at hw
  · intro m hm
    simp only [Eng.setEvent, upd]
    split
    · rfl
    · exact hm

theorem Ext.nodeFinally {P : Program} {t : Nat} {s : St} (d : DagRef) (n : Node)
    (hrt : ∀ tkt, s.tasks[t]? = some tkt → ∃ rv, tkt.st = .runnable rv) : Ext t s (nodeFinally P s d n true) := by
  unfold Eng.nodeFinally
  simp only [Bool.not_true, Bool.false_eq_true, if_false]
  have e1 := Ext.setEvent (t := t) (s := s) n hrt
  have e2 := Ext.notifyAll (t := t) ((P.g.desc1 n).map Key.node) (e1.runnable_t hrt)
  have h2 := (e1.trans e2)
  have e3 := Ext.notify (t := t) .run (e2.runnable_t (e1.runnable_t hrt))
  exact (h2.trans e3).trans (Ext.notify _ (e3.runnable_t (e2.runnable_t (e1.runnable_t hrt))))

/-- an update of the storage only -/
theorem Ext.of_data {t : Nat} {s s' : St} (ht : s'.tasks = s.tasks)
    (hres : ∀ n v, s.res n = some v → s'.res n = some v) (hsw : ∀ S lc, s.sw S = some lc → s'.sw S = some lc)
    (hproc : ∀ n, s.proc n = true → s'.proc n = true) (hev : ∀ n, s.evSet n = true → s'.evSet n = true)
    (hstale : s'.stale = s.stale := by rfl) :
    Ext t s s' :=
  ⟨fun i tk hi _ => ⟨tk, by rw [ht]; exact hi, TaskExt.refl s' tk⟩, by rw [ht], hres, hsw, hproc, hev, hstale⟩

theorem Ext.markProcessed {t : Nat} (s : St) (n : Node) : Ext t s (s.markProcessed n) := by
  refine Ext.of_data rfl (fun _ _ h => h) (fun _ _ h => h) ?_ (fun _ h => h)
  intro m hm
  simp only [St.markProcessed, upd]
  split
  · rfl
  · exact hm

theorem Ext.setRes {t : Nat} (s : St) (n : Node) (v : Val) (hn : s.res n = none) : Ext t s (s.setRes n v) := by
  refine Ext.of_data rfl ?_ (fun _ _ h => h) (fun _ h => h) (fun _ h => h)
  intro m w hm
  simp only [St.setRes, upd]
  split
  · next he => subst he; rw [hn] at hm; cases hm
  · exact hm

theorem Ext.setSw {t : Nat} (s : St) (S : Node) (lc : Label × Node) (hold : ∀ lc', s.sw S = some lc' → lc' = lc) :
    Ext t s (s.setSw S lc) := by
  refine Ext.of_data rfl (fun _ _ h => h) ?_ (fun _ h => h) (fun _ h => h)
  intro T lc' hT
  simp only [St.setSw, upd]
  split
  · next he => subst he; rw [hold lc' hT]
  · exact hT

theorem Ext.spawn {t : Nat} (s : St) (fs : List Frame) (nm : TaskName) (ht : t < s.tasks.length) :
    Ext t s (spawn s fs nm).1 := by
  refine ⟨?_, ?_, fun _ _ h => h, fun _ _ h => h, fun _ h => h, fun _ h => h, rfl⟩
  · intro i tk hi _
    refine ⟨tk, ?_, TaskExt.refl _ tk⟩
    simp only [Eng.spawn]
    rw [List.getElem?_append_left (getElem?_lt hi)]
    exact hi
  · simp only [Eng.spawn]
    rw [List.getElem?_append_left ht]

/-! ### helpers for re-establishing the storage part after a section -/

/-- lookup after task `t` installed its new entry -/
theorem getElem?_close {s1 : St} {t : Nat} {tk' : Task} (hlt : t < s1.tasks.length) (i : Nat) :
    (s1.setTask t tk').tasks[i]? = if i = t then some tk' else s1.tasks[i]? := by
  simp only [St.setTask]
  split
  · next h => subst h; exact List.getElem?_set_self hlt
  · next h => exact List.getElem?_set_ne (Ne.symm h)

theorem Ext.lt {t : Nat} {s s1 : St} (e : Ext t s s1) {tkt : Task} (h : s.tasks[t]? = some tkt) : t < s1.tasks.length :=
  getElem?_lt (show s1.tasks[t]? = some tkt by rw [e.self]; exact h)

/-- a live executor other than the stepping task is still there -/
theorem Executor.close {t : Nat} {s s1 : St} (e : Ext t s s1) {tkt tk' : Task} (htkt : s.tasks[t]? = some tkt) {n : Node}
    (h : Executor s n) (hnot : ∀ d f pc, tkt.frames = [.node d n f pc] → pc.exec = true → False) :
    Executor (s1.setTask t tk') n := by
  obtain ⟨i, tk, hi, hl, d, f, pc, hf, hpc⟩ := h
  by_cases hit : i = t
  · subst hit
    rw [htkt] at hi; cases hi
    exact absurd hpc (by intro h'; exact hnot d f pc hf h')
  · obtain ⟨tk1, h1, te⟩ := e.old i tk hi hit
    refine ⟨i, tk1, ?_, te.live hl, d, f, pc, by rw [te.frames]; exact hf, hpc⟩
    rw [getElem?_close (e.lt htkt), if_neg hit]; exact h1

/-- the owner of a switch other than the stepping task is still there -/
theorem SwOwner.close {t : Nat} {s s1 : St} (e : Ext t s s1) {tkt tk' : Task} (htkt : s.tasks[t]? = some tkt) {S : Node}
    (h : SwOwner s S)
    (hnew : ((∃ d, tkt.frames = [.switchStart d S]) ∨ (∃ d, tkt.frames = [.switchRet d S]) ∨
        (∃ d sub, tkt.frames = [.dagInit sub, .switchRet d S]) ∨
        (∃ d sub rest, tkt.frames = [.dagLaunch sub rest, .switchRet d S])) → SwOwner (s1.setTask t tk') S) :
    SwOwner (s1.setTask t tk') S := by
  obtain ⟨i, tk, hi, hnd, hf⟩ := h
  by_cases hit : i = t
  · subst hit
    rw [htkt] at hi; cases hi
    exact hnew hf
  · obtain ⟨tk1, h1, te⟩ := e.old i tk hi hit
    refine ⟨i, tk1, ?_, te.nonDone hnd, by rw [te.frames]; exact hf⟩
    rw [getElem?_close (e.lt htkt), if_neg hit]; exact h1

/-- the launch bookkeeping survives when the stepping task — if it was the fresh task of `q` — has processed `q` -/
theorem Launched.close {P : Program} {t : Nat} {s s1 : St} (e : Ext t s s1) {tkt tk' : Task} (htkt : s.tasks[t]? = some tkt)
    (hnm : tk'.name = tkt.name) {q : Node} (h : Launched P s q)
    (hst : ∀ d, tkt.frames = [.node d q false .start] → s1.proc q = true) : Launched P (s1.setTask t tk') q := by
  unfold Launched at *
  split
  · next hq =>
    simp only [hq, if_true] at h
    obtain ⟨i, tk, hi, hn⟩ := h
    by_cases hit : i = t
    · subst hit
      rw [htkt] at hi; cases hi
      exact ⟨i, tk', by rw [getElem?_close (e.lt htkt), if_pos rfl], by rw [hnm]; exact hn⟩
    · obtain ⟨tk1, h1, te⟩ := e.old i tk hi hit
      exact ⟨i, tk1, by rw [getElem?_close (e.lt htkt), if_neg hit]; exact h1, by rw [te.name]; exact hn⟩
  · next hq =>
    simp only [hq] at h
    rcases h with h | ⟨i, tk, d, hi, hf, hst'⟩
    · exact Or.inl (e.proc q h)
    · by_cases hit : i = t
      · subst hit
        rw [htkt] at hi; cases hi
        exact Or.inl (hst d hf)
      · obtain ⟨tk1, h1, te⟩ := e.old i tk hi hit
        refine Or.inr ⟨i, tk1, d, by rw [getElem?_close (e.lt htkt), if_neg hit]; exact h1, by rw [te.frames]; exact hf, ?_⟩
        rcases te.st with h2 | ⟨w, hw, _, _⟩
        · rw [h2]; exact hst'
        · rw [hst'] at hw; cases hw

/-- nobody is cancelled after the section -/
theorem noCancel_close {t : Nat} {s s1 : St} (e : Ext t s s1) {tkt tk' : Task} (htkt : s.tasks[t]? = some tkt)
    (hs : ∀ tk ∈ s.tasks, tk.mustCancel = false) (hc : tk'.mustCancel = false)
    (hnew : ∀ (i : Nat) (tk : Task), s.tasks.length ≤ i → s1.tasks[i]? = some tk → tk.mustCancel = false) :
    ∀ tk ∈ (s1.setTask t tk').tasks, tk.mustCancel = false := by
  intro tk htk
  obtain ⟨i, hi, hieq⟩ := List.getElem_of_mem htk
  have hget : (s1.setTask t tk').tasks[i]? = some tk := by rw [List.getElem?_eq_getElem hi, hieq]
  rw [getElem?_close (e.lt htkt)] at hget
  by_cases hit : i = t
  · rw [if_pos hit] at hget
    cases hget; exact hc
  · rw [if_neg hit] at hget
    by_cases hold : i < s.tasks.length
    · obtain ⟨tk0, h0⟩ : ∃ tk0, s.tasks[i]? = some tk0 := ⟨s.tasks[i], by simp [hold]⟩
      obtain ⟨tk1, h1, te⟩ := e.old i tk0 h0 hit
      rw [h1] at hget; cases hget
      rw [te.cancel]; exact hs tk0 (List.mem_of_getElem? h0)
    · exact hnew i _ (Nat.le_of_not_lt hold) hget

theorem mem_taskErrors_iff {s : St} {e : Exc} :
    e ∈ taskErrors s ↔ ∃ (i : Nat) (tk : Task), s.tasks[i]? = some tk ∧ tk.st = .done (.exc e) := by
  unfold taskErrors
  rw [List.mem_filterMap]
  constructor
  · rintro ⟨tk, htk, h⟩
    obtain ⟨i, hi, rfl⟩ := List.getElem_of_mem htk
    refine ⟨i, _, List.getElem?_eq_getElem hi, ?_⟩
    split at h
    · next e' he' => cases h; exact he'
    · cases h
  · rintro ⟨i, tk, hi, hst⟩
    exact ⟨tk, List.mem_of_getElem? hi, by simp [hst]⟩

/-- old failures are still there -/
theorem taskErrors_close_mono {t : Nat} {s s1 : St} (e : Ext t s s1) {tkt tk' : Task} (htkt : s.tasks[t]? = some tkt)
    (hrt : ∃ rv, tkt.st = .runnable rv) (h : taskErrors s ≠ []) : taskErrors (s1.setTask t tk') ≠ [] := by
  obtain ⟨x, hx⟩ := List.exists_mem_of_ne_nil _ h
  rw [mem_taskErrors_iff] at hx
  obtain ⟨i, tk, hi, hst⟩ := hx
  have hit : i ≠ t := by
    intro h'; subst h'; rw [htkt] at hi; cases hi
    obtain ⟨rv, hr⟩ := hrt; rw [hr] at hst; cases hst
  obtain ⟨tk1, h1, te⟩ := e.old i tk hi hit
  have : x ∈ taskErrors (s1.setTask t tk') := by
    rw [mem_taskErrors_iff]
    exact ⟨i, tk1, by rw [getElem?_close (e.lt htkt), if_neg hit]; exact h1, te.done hst⟩
  intro h0; rw [h0] at this; cases this

/-- a task that ends with an exception is a failure -/
theorem taskErrors_close_exc {t : Nat} {s s1 : St} (e : Ext t s s1) {tkt tk' : Task} (htkt : s.tasks[t]? = some tkt)
    {x : Exc} (h : tk'.st = .done (.exc x)) : taskErrors (s1.setTask t tk') ≠ [] := by
  have : x ∈ taskErrors (s1.setTask t tk') := by
    rw [mem_taskErrors_iff]
    exact ⟨t, tk', by rw [getElem?_close (e.lt htkt), if_pos rfl], h⟩
  intro h0; rw [h0] at this; cases this

/-- no new failure: the stepping task does not end with an exception and creates no finished task -/
theorem taskErrors_close_nil {t : Nat} {s s1 : St} (e : Ext t s s1) {tkt tk' : Task} (htkt : s.tasks[t]? = some tkt)
    (h : taskErrors s = []) (hst : ∀ x, tk'.st ≠ .done (.exc x))
    (hnew : ∀ (i : Nat) (tk : Task), s.tasks.length ≤ i → s1.tasks[i]? = some tk → ∀ x, tk.st ≠ .done (.exc x)) :
    taskErrors (s1.setTask t tk') = [] := by
  apply Classical.byContradiction
  intro hne
  obtain ⟨x, hx⟩ := List.exists_mem_of_ne_nil _ hne
  rw [mem_taskErrors_iff] at hx
  obtain ⟨i, tk, hi, hd⟩ := hx
  rw [getElem?_close (e.lt htkt)] at hi
  by_cases hit : i = t
  · rw [if_pos hit] at hi; cases hi; exact hst x hd
  · rw [if_neg hit] at hi
    by_cases hold : i < s.tasks.length
    · obtain ⟨tk0, h0⟩ : ∃ tk0, s.tasks[i]? = some tk0 := ⟨s.tasks[i], by simp [hold]⟩
      obtain ⟨tk1, h1, te⟩ := e.old i tk0 h0 hit
      rw [h1] at hi; cases hi
      have hd0 : tk0.st = .done (.exc x) := by
        rcases te.st with h2 | ⟨w, hw, hr, _⟩
        · rw [← h2]; exact hd
        · rw [hr] at hd; cases hd
      have : x ∈ taskErrors s := mem_taskErrors_iff.mpr ⟨i, tk0, h0, hd0⟩
      rw [h] at this; cases this
    · exact hnew i tk (Nat.le_of_not_lt hold) hi x hd

/-- one executing task per node, after the section -/
theorem uniq_close {P : Program} {t : Nat} {s s1 : St} (e : Ext t s s1) (hd : LData P s) {tkt tk' : Task}
    (htkt : s.tasks[t]? = some tkt)
    (hself : ∀ d q f pc, tk'.frames = [.node d q f pc] → pc.exec = true →
      ∀ (j : Nat) (tj : Task) (d2 : DagRef) (f2 : Bool) (p2 : NodePc), j ≠ t → s.tasks[j]? = some tj →
        tj.frames = [.node d2 q f2 p2] → p2.exec = true → False)
    (hnew : ∀ (i : Nat) (tk : Task), s.tasks.length ≤ i → s1.tasks[i]? = some tk →
      ∀ d q f pc, tk.frames = [.node d q f pc] → pc.exec = false) :
    ∀ (i j : Nat) (ti tj : Task) (q : Node) (d1 d2 : DagRef) (f1 f2 : Bool) (p1 p2 : NodePc),
      (s1.setTask t tk').tasks[i]? = some ti → (s1.setTask t tk').tasks[j]? = some tj → ti.frames = [.node d1 q f1 p1] →
      tj.frames = [.node d2 q f2 p2] → p1.exec = true → p2.exec = true → i = j := by
  -- every task other than `t` with an executing frame was there before, with the same frames
  have back : ∀ (i : Nat) (ti : Task) (d : DagRef) (q : Node) (f : Bool) (pc : NodePc), i ≠ t →
      (s1.setTask t tk').tasks[i]? = some ti → ti.frames = [.node d q f pc] → pc.exec = true →
      ∃ t0, s.tasks[i]? = some t0 ∧ t0.frames = [.node d q f pc] := by
    intro i ti d q f pc hit hi hf hpc
    rw [getElem?_close (e.lt htkt), if_neg hit] at hi
    by_cases hold : i < s.tasks.length
    · obtain ⟨tk0, h0⟩ : ∃ tk0, s.tasks[i]? = some tk0 := ⟨s.tasks[i], by simp [hold]⟩
      obtain ⟨tk1, h1, te⟩ := e.old i tk0 h0 hit
      rw [h1] at hi; cases hi
      exact ⟨tk0, h0, by rw [← te.frames]; exact hf⟩
    · have := hnew i ti (Nat.le_of_not_lt hold) hi d q f pc hf
      rw [this] at hpc; cases hpc
  intro i j ti tj q d1 d2 f1 f2 p1 p2 hi hj hfi hfj hp1 hp2
  by_cases hit : i = t
  · by_cases hjt : j = t
    · rw [hit, hjt]
    · exfalso
      subst hit
      rw [getElem?_close (e.lt htkt), if_pos rfl] at hi; cases hi
      obtain ⟨t0, h0, hf0⟩ := back j tj d2 q f2 p2 hjt hj hfj hp2
      exact hself d1 q f1 p1 hfi hp1 j t0 d2 f2 p2 hjt h0 hf0 hp2
  · by_cases hjt : j = t
    · exfalso
      subst hjt
      rw [getElem?_close (e.lt htkt), if_pos rfl] at hj; cases hj
      obtain ⟨t0, h0, hf0⟩ := back i ti d1 q f1 p1 hit hi hfi hp1
      exact hself d2 q f2 p2 hfj hp2 i t0 d1 f1 p1 hit h0 hf0 hp1
    · obtain ⟨a, ha, hfa⟩ := back i ti d1 q f1 p1 hit hi hfi hp1
      obtain ⟨b, hb, hfb⟩ := back j tj d2 q f2 p2 hjt hj hfj hp2
      exact hd.uniq i j a b q d1 d2 f1 f2 p1 p2 ha hb hfa hfb hp1 hp2

/-! ### sections of a node task -/

theorem evSet_notifyAll (ks : List Key) : ∀ (s : St), (notifyAll s ks).evSet = s.evSet := by
  induction ks with
  | nil => intro s; rfl
  | cons k ks ih => intro s; simp only [Eng.notifyAll, List.foldl_cons]; exact ih (notify s k)

theorem evSet_nodeFinally (P : Program) (s : St) (d : DagRef) (n : Node) :
    (nodeFinally P s d n true).evSet = upd s.evSet n true := by
  unfold Eng.nodeFinally
  simp only [Bool.not_true, Bool.false_eq_true, if_false]
  show (notifyAll (setEvent s n) _).evSet = _
  rw [evSet_notifyAll]; rfl

/-- a task other than the caller exists: the task list is longer than one -/
theorem len_ne_one {P : Program} {depth : Node → Nat} {s : St} (hs : Struct P depth s) {t : Nat} {tkt : Task}
    (h : s.tasks[t]? = some tkt) (hn : tkt.name ≠ .caller) : s.tasks.length ≠ 1 := by
  obtain ⟨tk0, h0, hn0⟩ := hs.caller
  have hlt := getElem?_lt h
  intro h1
  have : t = 0 := by omega
  subst this
  rw [h0] at h; cases h
  exact hn hn0

theorem ready_congr {P : Program} {s s' : St} (hres : s'.res = s.res) (hh : s'.resHid = s.resHid) (hsw : s'.sw = s.sw)
    (d : DagRef) (m : Node) : ready P s' d m = ready P s d m := by
  unfold ready predsFor St.exists St.get
  rw [hres, hh, hsw]

theorem switchSelect_congr {P : Program} {s s' : St} (hres : s'.res = s.res) (hh : s'.resHid = s.resHid) (S : Node) :
    switchSelect P s' S = switchSelect P s S := by
  unfold switchSelect switchLabel St.get
  rw [hres, hh]

/-- a node task blocks on its body / its retry timer (or yields before the next attempt): `s1` is `s`, possibly with the
node marked as processed -/
theorem struct_node_exec {P : Program} {depth : Node → Nat} {s s1 : St} (hs : Struct P depth s) {t : Nat} {tkt : Task}
    (htkt : s.tasks[t]? = some tkt) {d : DagRef} {q : Node} {pc0 pc' : NodePc} (hnm : tkt.name = .node q)
    (hns : P.g.isSwitch q = false) (hf0 : tkt.frames = [.node d q false pc0]) (hrt : ∃ rv, tkt.st = .runnable rv)
    (hmc : tkt.mustCancel = false)
    (h1 : (s1 = s ∧ pc0.exec = true ∧ s.proc q = true ∧ s.res q = none) ∨
          (s1 = s.markProcessed q ∧ pc0 = .start ∧ s.procExists q = false))
    (hpc' : pc'.exec = true) (hrs' : pc'.rests = true) (st' : TaskSt)
    (hlive : ({ tkt with frames := [.node d q false pc'], st := st' } : Task).live) :
    Struct P depth (s1.setTask t { tkt with frames := [.node d q false pc'], st := st' }) := by
  have hd := hs.data
  have e : Ext t s s1 := by
    rcases h1 with ⟨h, _⟩ | ⟨h, _⟩
    · rw [h]; exact Ext.refl t s
    · rw [h]; exact Ext.markProcessed s q
  have htasks : s1.tasks = s.tasks := by rcases h1 with ⟨h, _⟩ | ⟨h, _⟩ <;> rw [h] <;> rfl
  have hres : s1.res = s.res := by rcases h1 with ⟨h, _⟩ | ⟨h, _⟩ <;> rw [h] <;> rfl
  have hrh : s1.resHid = s.resHid := by rcases h1 with ⟨h, _⟩ | ⟨h, _⟩ <;> rw [h] <;> rfl
  have hsw : s1.sw = s.sw := by rcases h1 with ⟨h, _⟩ | ⟨h, _⟩ <;> rw [h] <;> rfl
  have hev : s1.evSet = s.evSet := by rcases h1 with ⟨h, _⟩ | ⟨h, _⟩ <;> rw [h] <;> rfl
  have hpq : s1.proc q = true := by
    rcases h1 with ⟨h0, _, h, _⟩ | ⟨h0, _⟩
    · rw [h0]; exact h
    · rw [h0]; simp [St.markProcessed, upd]
  have hprocs : ∀ n, s1.proc n = true → n = q ∨ s.proc n = true := by
    intro n hn
    rcases h1 with ⟨h0, _⟩ | ⟨h0, _⟩
    · rw [h0] at hn; exact Or.inr hn
    · rw [h0] at hn
      simp only [St.markProcessed, upd] at hn
      split at hn
      · next h => exact Or.inl h
      · exact Or.inr hn
  have hph : ∀ n, s1.procHid n = false := by
    intro n
    rcases h1 with ⟨h0, _⟩ | ⟨h0, _⟩
    · rw [h0]; exact (hd.noHid n).2
    · rw [h0]; simp only [St.markProcessed, upd]; split
      · rfl
      · exact (hd.noHid n).2
  have hresq : s.res q = none := by
    rcases h1 with ⟨_, _, _, h⟩ | ⟨_, _, h⟩
    · exact h
    · cases hr : s.res q with
      | none => rfl
      | some v =>
        have := hd.c6 q (by rw [hr]; rfl)
        simp [St.procExists, this, (hd.noHid q).2] at h
  have hnc : tkt.name ≠ .caller := by rw [hnm]; intro h; cases h
  have hlen := len_ne_one hs htkt hnc
  have hlt := e.lt htkt
  have hnonew : ∀ (i : Nat) (tk : Task), s.tasks.length ≤ i → s1.tasks[i]? = some tk → False := by
    intro i tk hi h
    rw [htasks] at h
    have := getElem?_lt h
    omega
  -- no other task executes `q`
  have hother : ∀ (j : Nat) (tj : Task) (d2 : DagRef) (f2 : Bool) (p2 : NodePc), j ≠ t → s.tasks[j]? = some tj →
      tj.frames = [.node d2 q f2 p2] → p2.exec = true → False := by
    intro j tj d2 f2 p2 hjt hj hfj hp2
    rcases h1 with ⟨_, hp0, _, _⟩ | ⟨_, _, hpe⟩
    · exact hjt (hd.uniq j t tj tkt q d2 d f2 false p2 pc0 hj htkt hfj hf0 hp2 hp0)
    · -- `q` was not processed, but an executing task has marked its node
      have := hs.tasks j tj hj
      cases this with
      | nodeExec d0 q0 pc hn' hns' hfr' hpc1 hpc2 hl' hproc' hnr' =>
        rw [hfr'] at hfj; simp only [List.cons.injEq, Frame.node.injEq, and_true] at hfj
        obtain ⟨_, hq, _, _⟩ := hfj
        subst hq
        simp [St.procExists, hproc', (hd.noHid q0).2] at hpe
      | nodeStart d0 q0 hn' hns' hfr' hst' =>
        rw [hfr'] at hfj; simp only [List.cons.injEq, Frame.node.injEq, and_true] at hfj
        obtain ⟨_, _, _, hp⟩ := hfj; subst hp; cases hp2
      | nodeWait d0 q0 hn' hns' hfr' hst' hproc' =>
        rw [hfr'] at hfj; simp only [List.cons.injEq, Frame.node.injEq, and_true] at hfj
        obtain ⟨_, _, _, hp⟩ := hfj; subst hp; cases hp2
      | callerStart hn' hfr' => rw [hfr'] at hfj; simp at hfj
      | callerWait hn' hfr' => rw [hfr'] at hfj; simp at hfj
      | main F d0 hn' hfr' hdf' => rw [hfr'] at hfj; simp only [List.cons.injEq, and_true] at hfj; subst hfj; cases hdf'
      | mainDone hn' hfr' => rw [hfr'] at hfj; simp at hfj
      | nodeDone q0 r0 hn' hns' hfr' => rw [hfr'] at hfj; simp at hfj
      | swStart d0 S0 hn' hsS' hfr' => rw [hfr'] at hfj; simp at hfj
      | swIn F sub d0 S0 hn' hsS' hfr' => rw [hfr'] at hfj; simp at hfj
      | swRet d0 S0 hn' hsS' hfr' => rw [hfr'] at hfj; simp at hfj
      | swDone S0 r0 hn' hsS' hfr' => rw [hfr'] at hfj; simp at hfj
  have herr : taskErrors (s1.setTask t { tkt with frames := [.node d q false pc'], st := st' }) = [] ↔
      taskErrors s = [] := by
    constructor
    · intro h
      apply Classical.byContradiction
      intro hne
      exact taskErrors_close_mono e htkt hrt hne h
    · intro h
      refine taskErrors_close_nil e htkt h ?_ (fun i tk hi h' => absurd h' (fun h'' => hnonew i tk hi h''))
      intro x hx
      rcases hlive with ⟨rv, hr⟩ | ⟨n, i, a, o, hr⟩ | ⟨n, i, a, dl, hr⟩ <;> simp only [] at hr <;> rw [hr] at hx <;> cases hx
  refine Struct.close hs ⟨tkt, htkt, rfl⟩ e hlen ?_ ?_ ?_ ?_ ?_ ?_ ?_ ?_
  · -- the storage part
    refine ⟨fun n => ⟨by rw [show (s1.setTask t _).resHid = s1.resHid from rfl, hrh]; exact (hd.noHid n).1, hph n⟩,
      fun n v h => hd.noRec n v (by rw [← hres]; exact h), ?_, ?_, ?_, ?_, ?_, ?_, ?_, ?_, ?_, e.stale.trans hd.stale⟩
    · intro n hn
      rcases hprocs n hn with rfl | h
      · exact Or.inr ⟨t, _, by rw [getElem?_close hlt, if_pos rfl], hlive, d, false, pc', rfl, hpc'⟩
      · rcases hd.c1 n h with h' | h'
        · exact Or.inl (by rw [show (s1.setTask t _).evSet = s1.evSet from rfl, hev]; exact h')
        · by_cases hnq : n = q
          · subst hnq
            exact Or.inr ⟨t, _, by rw [getElem?_close hlt, if_pos rfl], hlive, d, false, pc', rfl, hpc'⟩
          · refine Or.inr (h'.close e htkt ?_)
            intro d' f' pc hf' _
            rw [hf0] at hf'; simp only [List.cons.injEq, Frame.node.injEq, and_true] at hf'
            exact hnq hf'.2.1.symm
    · intro n hn
      have hn' : s.evSet n = true := by rw [← hev]; exact hn
      rcases hd.c4 n hn' with h | h
      · exact Or.inl (by rw [show (s1.setTask t _).res = s1.res from rfl, hres]; exact h)
      · exact Or.inr (fun h0 => h (herr.mp h0))
    · intro n hn
      rw [show (s1.setTask t _).evSet = s1.evSet from rfl, hev]
      exact hd.c5 n (by rw [← hres]; exact hn)
    · intro S l c h
      exact hd.swEdge S l c (by rw [← hsw]; exact h)
    · intro S lc h
      rw [show switchSelect P (s1.setTask t _) S = switchSelect P s1 S from rfl, switchSelect_congr hres hrh]
      exact hd.swSel S lc (by rw [← hsw]; exact h)
    · intro n hn
      have := hd.c6 n (by rw [← hres]; exact hn)
      exact e.proc n this
    · intro n hn
      rcases hprocs n hn with rfl | h
      · exact hns
      · exact hd.procPlain n h
    · refine uniq_close e hd htkt ?_ (fun i tk hi h => absurd h (fun h'' => hnonew i tk hi h''))
      intro d1 q1 f1 pc1 hfr hpc1 j tj d2 f2 p2 hjt hj hfj hp2
      simp only [List.cons.injEq, Frame.node.injEq, and_true] at hfr
      obtain ⟨_, hq1, _, _⟩ := hfr
      subst hq1
      exact hother j tj d2 f2 p2 hjt hj hfj hp2
    · exact noCancel_close e htkt hd.noCancel hmc (fun i tk hi h => absurd h (fun h'' => hnonew i tk hi h''))
  · exact .nodeExec _ d q pc' hnm hns rfl (by intro h; subst h; cases hpc') (by intro h; subst h; cases hpc') hlive hpq
      (by rw [show (s1.setTask t _).res = s1.res from rfl, hres]; exact hresq) hrs'
  · intro q' hl
    refine Launched.close (tk' := { tkt with frames := [.node d q false pc'], st := st' }) e htkt rfl hl ?_
    intro d' hf'
    rw [hf0] at hf'; simp only [List.cons.injEq, Frame.node.injEq, and_true] at hf'
    rw [← hf'.2.1]; exact hpq
  · intro he0 hr0
    exact Or.inl ⟨herr.mpr he0, by rw [hres]; exact hr0⟩
  · intro i tki d' m hit hi _ hb hrd hold
    have hrd' : ready P s d' m = true := by rw [← ready_congr hres hrh hsw]; exact hrd
    obtain ⟨S, hS, hSs, ho⟩ := hold hrd'
    refine ⟨S, hS, hSs, ho.close e htkt ?_⟩
    intro hfr
    rcases hfr with ⟨d1, h⟩ | ⟨d1, h⟩ | ⟨d1, s1', h⟩ | ⟨d1, s1', r1, h⟩ <;> rw [hf0] at h <;> simp at h
  · intro i tk d' q' pc hit hi hf _ _ hn
    rw [hres]; exact hn
  · intro ht0
    subst ht0
    obtain ⟨tk0, h0, hn0⟩ := hs.caller
    rw [h0] at htkt; cases htkt
    exact absurd hn0 hnc
  · intro i tk hi h
    exact absurd h (fun h'' => hnonew i tk hi h'')

/-- the storage part after a section that changed no stored datum (results, decisions, processed flags, events) and whose
task neither was nor becomes the executor of a node -/
theorem ldata_same {P : Program} {t : Nat} {s s1 : St} (hd : LData P s) (e : Ext t s s1) {tkt tk' : Task}
    (htkt : s.tasks[t]? = some tkt) (hrt : ∃ rv, tkt.st = .runnable rv)
    (hres : s1.res = s.res) (hrh : s1.resHid = s.resHid) (hph : s1.procHid = s.procHid) (hsw : s1.sw = s.sw)
    (hev : s1.evSet = s.evSet) (hproc : s1.proc = s.proc) (hmc : tk'.mustCancel = false)
    (hold : ∀ d n f pc, tkt.frames = [.node d n f pc] → pc.exec = false)
    (hnew : ∀ d n f pc, tk'.frames = [.node d n f pc] → pc.exec = false)
    (hsp : ∀ (i : Nat) (tk : Task), s.tasks.length ≤ i → s1.tasks[i]? = some tk →
      tk.mustCancel = false ∧ ∀ d n f pc, tk.frames = [.node d n f pc] → pc.exec = false) :
    LData P (s1.setTask t tk') := by
  refine ⟨fun n => ⟨by rw [show (s1.setTask t tk').resHid = s1.resHid from rfl, hrh]; exact (hd.noHid n).1,
      by rw [show (s1.setTask t tk').procHid = s1.procHid from rfl, hph]; exact (hd.noHid n).2⟩,
    fun n v h => hd.noRec n v (by rw [← hres]; exact h), ?_, ?_, ?_, ?_, ?_, ?_, ?_, ?_, ?_, e.stale.trans hd.stale⟩
  · intro n hn
    have hn' : s.proc n = true := by rw [← hproc]; exact hn
    rcases hd.c1 n hn' with h | h
    · exact Or.inl (by rw [show (s1.setTask t tk').evSet = s1.evSet from rfl, hev]; exact h)
    · refine Or.inr (h.close e htkt ?_)
      intro d' f' pc hf' hpc
      rw [hold d' n f' pc hf'] at hpc; cases hpc
  · intro n hn
    have hn' : s.evSet n = true := by rw [← hev]; exact hn
    rcases hd.c4 n hn' with h | h
    · exact Or.inl (by rw [show (s1.setTask t tk').res = s1.res from rfl, hres]; exact h)
    · exact Or.inr (taskErrors_close_mono e htkt hrt h)
  · intro n hn
    rw [show (s1.setTask t tk').evSet = s1.evSet from rfl, hev]
    exact hd.c5 n (by rw [← hres]; exact hn)
  · intro S l c h
    exact hd.swEdge S l c (by rw [← hsw]; exact h)
  · intro S lc h
    rw [show switchSelect P (s1.setTask t tk') S = switchSelect P s1 S from rfl, switchSelect_congr hres hrh]
    exact hd.swSel S lc (by rw [← hsw]; exact h)
  · intro n hn
    rw [show (s1.setTask t tk').proc = s1.proc from rfl, hproc]
    exact hd.c6 n (by rw [← hres]; exact hn)
  · intro n hn
    exact hd.procPlain n (by rw [← hproc]; exact hn)
  · refine uniq_close e hd htkt ?_ (fun i tk hi h => (hsp i tk hi h).2)
    intro d1 q1 f1 pc1 hfr hpc1
    rw [hnew d1 q1 f1 pc1 hfr] at hpc1; cases hpc1
  · exact noCancel_close e htkt hd.noCancel hmc (fun i tk hi h => (hsp i tk hi h).1)

/-- **closing a section that changed no stored datum** -/
theorem Struct.close_same {P : Program} {depth : Node → Nat} {s s1 : St} {t : Nat} {tkt tk' : Task} (hs : Struct P depth s)
    (htkt : s.tasks[t]? = some tkt) (hnm : tk'.name = tkt.name) (hrt : ∃ rv, tkt.st = .runnable rv)
    (hlen1 : s.tasks.length ≠ 1) (e : Ext t s s1)
    (hres : s1.res = s.res) (hrh : s1.resHid = s.resHid) (hph : s1.procHid = s.procHid) (hsw : s1.sw = s.sw)
    (hev : s1.evSet = s.evSet) (hproc : s1.proc = s.proc) (hmc : tk'.mustCancel = false)
    (hold : ∀ d n f pc, tkt.frames = [.node d n f pc] → pc.exec = false)
    (hnewf : ∀ d n f pc, tk'.frames = [.node d n f pc] → pc.exec = false)
    (hnd : (∀ x, tk'.st ≠ .done (.exc x)) ∨ NoneBlocked s1 (.cond .run))
    (hself : TaskOK P depth (s1.setTask t tk') tk')
    (hstart : ∀ d q, tkt.frames = [.node d q false .start] → s.proc q = true)
    (hown : ∀ S, SwOwner s S → SwOwner (s1.setTask t tk') S ∨
      ∀ m, S ∈ basePreds P m → (∀ d, d.isRec = false → ready P s d m = false) ∨ NoneBlocked s1 (.cond (.node m)))
    (hmain : t = 0 → tk'.frames = [.mgrWait] → ∃ tk1, s1.tasks[1]? = some tk1 ∧ tk1.name = .run)
    (hnew : ∀ (i : Nat) (tk : Task), s.tasks.length ≤ i → s1.tasks[i]? = some tk →
      TaskOK P depth (s1.setTask t tk') tk ∧ tk.mustCancel = false ∧ (∀ x, tk.st ≠ .done (.exc x)) ∧
      ∀ d n f pc, tk.frames = [.node d n f pc] → pc.exec = false) :
    Struct P depth (s1.setTask t tk') := by
  refine Struct.close hs ⟨tkt, htkt, hnm⟩ e hlen1 ?_ hself ?_ ?_ ?_ ?_ hmain (fun i tk hi h => (hnew i tk hi h).1)
  · exact ldata_same hs.data e htkt hrt hres hrh hph hsw hev hproc hmc hold hnewf
      (fun i tk hi h => ⟨(hnew i tk hi h).2.1, (hnew i tk hi h).2.2.2⟩)
  · intro q hl
    refine hl.close e htkt hnm ?_
    intro d hf
    rw [hproc]; exact hstart d q hf
  · intro he0 hr0
    rcases hnd with hnd | hnd
    · exact Or.inl ⟨taskErrors_close_nil e htkt he0 hnd (fun i tk hi h => (hnew i tk hi h).2.2.1), by rw [hres]; exact hr0⟩
    · exact Or.inr hnd
  · intro i tki d m hit hi hrec hb hrd hold'
    have hrd' : ready P s d m = true := by rw [← ready_congr hres hrh hsw]; exact hrd
    obtain ⟨S, hS, hSs, ho⟩ := hold' hrd'
    rcases hown S ho with h | h
    · exact ⟨S, hS, hSs, h⟩
    · rcases h m hS with h' | h'
      · rw [h' d hrec] at hrd'; cases hrd'
      · exact absurd hb (h' tki (List.mem_of_getElem? hi))
  · intro i tk d q pc hit hi hf _ _ hn
    rw [hres]; exact hn

/-- the owners of switches survive a section of a task that is not a `_run_switch` task -/
theorem swOwner_keep {t : Nat} {s s1 : St} (e : Ext t s s1) {tkt tk' : Task} (htkt : s.tasks[t]? = some tkt)
    (hnot : ∀ S, ¬ ((∃ d, tkt.frames = [.switchStart d S]) ∨ (∃ d, tkt.frames = [.switchRet d S]) ∨
        (∃ d sub, tkt.frames = [.dagInit sub, .switchRet d S]) ∨
        (∃ d sub rest, tkt.frames = [.dagLaunch sub rest, .switchRet d S]))) {S : Node} (h : SwOwner s S) :
    SwOwner (s1.setTask t tk') S :=
  h.close e htkt (fun hf => absurd hf (hnot S))

/-- a node task finds its node being executed by somebody else and waits for the node's event -/
theorem struct_node_wait {P : Program} {depth : Node → Nat} {s : St} (hs : Struct P depth s) {t : Nat} {tkt : Task}
    (htkt : s.tasks[t]? = some tkt) {d : DagRef} {q : Node} (hnm : tkt.name = .node q)
    (hns : P.g.isSwitch q = false) (hf0 : tkt.frames = [.node d q false .start]) (hrt : ∃ rv, tkt.st = .runnable rv)
    (hmc : tkt.mustCancel = false) (hpe : s.procExists q = true) :
    Struct P depth (s.setTask t { tkt with frames := [.node d q false .evWait], st := .blocked (.event q) }) := by
  have hpq : s.proc q = true := by
    simp only [St.procExists, Bool.and_eq_true] at hpe; exact hpe.1
  have hnc : tkt.name ≠ .caller := by rw [hnm]; intro h; cases h
  have hnonew : ∀ (i : Nat) (tk : Task), s.tasks.length ≤ i → s.tasks[i]? = some tk → False := by
    intro i tk hi h
    have := getElem?_lt h
    omega
  refine Struct.close_same hs htkt rfl hrt (len_ne_one hs htkt hnc) (Ext.refl t s) rfl rfl rfl rfl rfl rfl hmc ?_ ?_ ?_ ?_ ?_
    ?_ ?_ (fun i tk hi h => absurd h (fun h' => hnonew i tk hi h'))
  · intro d' n f pc hf
    rw [hf0] at hf; simp only [List.cons.injEq, Frame.node.injEq, and_true] at hf
    rw [← hf.2.2.2]; rfl
  · intro d' n f pc hf
    simp only [List.cons.injEq, Frame.node.injEq, and_true] at hf
    rw [← hf.2.2.2]; rfl
  · left; intro x hx; cases hx
  · exact .nodeWait _ d q hnm hns rfl (Or.inr rfl) hpq
  · intro d' q' hf
    rw [hf0] at hf; simp only [List.cons.injEq, Frame.node.injEq, and_true] at hf
    rw [← hf.2]; exact hpq
  · intro S ho
    refine Or.inl (swOwner_keep (Ext.refl t s) htkt ?_ ho)
    intro S' hfr
    rcases hfr with ⟨d1, h⟩ | ⟨d1, h⟩ | ⟨d1, s1', h⟩ | ⟨d1, s1', r1, h⟩ <;> rw [hf0] at h <;> simp at h
  · intro ht0
    subst ht0
    obtain ⟨tk0, h0, hn0⟩ := hs.caller
    rw [h0] at htkt; cases htkt
    exact absurd hn0 hnc

theorem two_nodes {P : Program} (hsw : SwP P) : 2 ≤ P.g.nodes.length := by
  have h1 := hsw.inIn.1
  have h2 := hsw.outIn.1
  have hne := hsw.inOut
  match hl : P.g.nodes with
  | [] => rw [hl] at h1; cases h1
  | [x] =>
    rw [hl, List.mem_singleton] at h1 h2
    exact absurd (h1.trans h2.symm) hne
  | _ :: _ :: _ => simp

/-- what the readiness check looks at: for every entry, an edge into `m` from a node that resolves to it -/
theorem mem_predsFor {P : Program} {s : St} {d : DagRef} {m p : Node} (h : p ∈ predsFor P s d m) :
    ∃ u, (∃ e ∈ P.g.edges, e.u = u ∧ e.v = m) ∧ p = resolveSw P s u := by
  unfold predsFor at h
  simp only [List.mem_map] at h
  obtain ⟨u, hu, hp⟩ := h
  refine ⟨u, ?_, hp.symm⟩
  split at hu
  · simp only [List.mem_map, List.mem_filter, Bool.and_eq_true, beq_iff_eq] at hu
    obtain ⟨e, ⟨he, hv, _⟩, hue⟩ := hu
    exact ⟨e, he, hue, hv⟩
  · split at hu
    · simp only [List.mem_filter, Graph.preds, List.mem_map, beq_iff_eq] at hu
      obtain ⟨⟨e, ⟨he, hv⟩, hue⟩, _⟩ := hu
      exact ⟨e, he, hue, hv⟩
    · simp only [Graph.preds, List.mem_map, List.mem_filter, beq_iff_eq] at hu
      obtain ⟨e, ⟨he, hv⟩, hue⟩ := hu
      exact ⟨e, he, hue, hv⟩

/-- if `m` becomes ready because node `q` got its result, the `finally` of `q` notifies `cond[m]` -/
theorem ready_flip {P : Program} (hsw : SwP P) {s s0 : St} (hd : LData P s) {q : Node} (hsw0 : s0.sw = s.sw)
    (hrh : s0.resHid = s.resHid) (hres : ∀ n, n ≠ q → s0.res n = s.res n) {d : DagRef} {m : Node}
    (h0 : ready P s0 d m = true) (h1 : ready P s d m = false) : m ∈ P.g.desc1 q := by
  unfold ready at h0 h1
  rw [List.all_eq_true] at h0
  rw [List.all_eq_false] at h1
  obtain ⟨p, hp, hno⟩ := h1
  -- the list of sources is the same in both states (the decisions are)
  have hsame : predsFor P s0 d m = predsFor P s d m := by unfold predsFor; rw [hsw0]
  have h0p := h0 p (by rw [hsame]; exact hp)
  have hpq : p = q := by
    apply Classical.byContradiction
    intro hne
    have : (s0.exists p && !(s0.get p).isRecur) = (s.exists p && !(s.get p).isRecur) := by
      simp only [St.exists, St.get, hrh, hres p hne]
    rw [this] at h0p
    exact hno h0p
  subst hpq
  obtain ⟨u, ⟨e, he, hu, hv⟩, hr⟩ := mem_predsFor hp
  have h2 := two_nodes hsw
  unfold resolveSw at hr
  split at hr
  · next hS =>
    split at hr
    · next l c0 hsc =>
      -- through the switch `u`, of which `p` is the recorded case
      rw [hr]
      obtain ⟨_, e1, he1, hu1, hv1⟩ := hd.swEdge u l c0 hsc
      have := mem_desc1_through_switch P.g e1 e he1 he (by rw [hv1, hu]) (by rw [hv1]; exact hS) h2
      rw [hu1, hv] at this; exact this
    · rw [hr]
      have := mem_desc1_of_edge P.g e he (by intro h; rw [h] at h2; simp at h2)
      rw [hu, hv] at this; exact this
  · rw [hr]
    have := mem_desc1_of_edge P.g e he (by intro h; rw [h] at h2; simp at h2)
    rw [hu, hv] at this; exact this

theorem foldl_last_get {α β : Type} (f : α → β) : ∀ (l : List α) (init : β),
    l.foldl (fun _ a => f a) init = match l.getLast? with | some a => f a | none => init := by
  intro l
  induction l with
  | nil => intro init; rfl
  | cons a l ih =>
    intro init
    simp only [List.foldl_cons]
    rw [ih]
    cases hl : l.getLast? with
    | none =>
      have : l = [] := by simpa using hl
      subst this; rfl
    | some b =>
      have : (a :: l).getLast? = some b := by
        cases l with
        | nil => simp at hl
        | cons c l' => simp [List.getLast?_cons_cons] at hl ⊢; exact hl
      rw [this]

/-- a recorded decision still is what the lookup gives after a node that had no result got one -/
theorem switchSelect_stable {P : Program} {s s0 : St} {q : Node} (hrh : s0.resHid = s.resHid) (hq : s.res q = none)
    (hres : ∀ n, n ≠ q → s0.res n = s.res n) {S : Node} {lc : Label × Node} (h : switchSelect P s S = some lc) :
    switchSelect P s0 S = some lc := by
  unfold switchSelect at *
  have hlab : switchLabel P s0 S = switchLabel P s S := by
    unfold switchLabel
    rw [foldl_last_get (fun (e : Edge) => s0.get e.u), foldl_last_get (fun (e : Edge) => s.get e.u)]
    cases hl : ((P.g.edges.filter (fun e => e.v == S)).filter (·.isSwitch)).getLast? with
    | none => rfl
    | some e =>
      simp only []
      by_cases he : e.u = q
      · -- the decision node had no result: the old lookup found nothing
        exfalso
        unfold switchLabel at h
        rw [foldl_last_get (fun (e : Edge) => s.get e.u), hl] at h
        have hg : s.get q = .none := by simp [St.get, hq]
        simp only [he, hg] at h
        cases h
      · simp only [St.get, hrh, hres e.u he]
  rw [hlab]; exact h

/-- no other task executes the node of an executing task, nor of a fresh task that finds its node unprocessed -/
theorem no_other_executor {P : Program} {depth : Node → Nat} {s : St} (hs : Struct P depth s) {t : Nat} {tkt : Task}
    (htkt : s.tasks[t]? = some tkt) {d : DagRef} {q : Node} {pc0 : NodePc} (hf0 : tkt.frames = [.node d q false pc0])
    (h : pc0.exec = true ∨ s.procExists q = false) :
    ∀ (j : Nat) (tj : Task) (d2 : DagRef) (f2 : Bool) (p2 : NodePc), j ≠ t → s.tasks[j]? = some tj →
      tj.frames = [.node d2 q f2 p2] → p2.exec = true → False := by
  intro j tj d2 f2 p2 hjt hj hfj hp2
  rcases h with hp0 | hpe
  · exact hjt (hs.data.uniq j t tj tkt q d2 d f2 false p2 pc0 hj htkt hfj hf0 hp2 hp0)
  · have := hs.tasks j tj hj
    cases this with
    | nodeExec d0 q0 pc hn' hns' hfr' hpc1 hpc2 hl' hproc' hnr' =>
      rw [hfr'] at hfj; simp only [List.cons.injEq, Frame.node.injEq, and_true] at hfj
      obtain ⟨_, hq, _, _⟩ := hfj
      subst hq
      simp [St.procExists, hproc', (hs.data.noHid q0).2] at hpe
    | nodeStart d0 q0 hn' hns' hfr' hst' =>
      rw [hfr'] at hfj; simp only [List.cons.injEq, Frame.node.injEq, and_true] at hfj
      obtain ⟨_, _, _, hp⟩ := hfj; subst hp; cases hp2
    | nodeWait d0 q0 hn' hns' hfr' hst' hproc' =>
      rw [hfr'] at hfj; simp only [List.cons.injEq, Frame.node.injEq, and_true] at hfj
      obtain ⟨_, _, _, hp⟩ := hfj; subst hp; cases hp2
    | callerStart hn' hfr' => rw [hfr'] at hfj; simp at hfj
    | callerWait hn' hfr' => rw [hfr'] at hfj; simp at hfj
    | main F d0 hn' hfr' hdf' => rw [hfr'] at hfj; simp only [List.cons.injEq, and_true] at hfj; subst hfj; cases hdf'
    | mainDone hn' hfr' => rw [hfr'] at hfj; simp at hfj
    | nodeDone q0 r0 hn' hns' hfr' => rw [hfr'] at hfj; simp at hfj
    | swStart d0 S0 hn' hsS' hfr' => rw [hfr'] at hfj; simp at hfj
    | swIn F sub d0 S0 hn' hsS' hfr' => rw [hfr'] at hfj; simp at hfj
    | swRet d0 S0 hn' hsS' hfr' => rw [hfr'] at hfj; simp at hfj
    | swDone S0 r0 hn' hsS' hfr' => rw [hfr'] at hfj; simp at hfj

/-- **a node task leaves `_run_node`**: `s0` is the state before the `finally` — `s`, possibly with the node marked as
processed and / or its result stored — and the task ends with `r` -/
theorem struct_node_done {P : Program} {depth : Node → Nat} (hp : LiveP P depth) {s s0 : St} (hs : Struct P depth s)
    {t : Nat} {tkt : Task} (htkt : s.tasks[t]? = some tkt) {d : DagRef} {q : Node} {pc0 : NodePc}
    (hnm : tkt.name = .node q) (hns : P.g.isSwitch q = false) (hf0 : tkt.frames = [.node d q false pc0])
    (hrt : ∃ rv, tkt.st = .runnable rv)
    (htasks : s0.tasks = s.tasks) (hstl : s0.stale = s.stale) (hsw : s0.sw = s.sw) (hev : s0.evSet = s.evSet)
    (hrh : s0.resHid = s.resHid)
    (hph : ∀ n, s0.procHid n = false) (hpq : s0.proc q = true)
    (hprocs : ∀ n, s0.proc n = true → n = q ∨ s.proc n = true) (hprocm : ∀ n, s.proc n = true → s0.proc n = true)
    (hresn : ∀ n, n ≠ q → s0.res n = s.res n)
    (hresq : s0.res q = s.res q ∨ (∃ v, s0.res q = some v ∧ v.isRecur = false ∧ s.res q = none ∧
      (pc0.exec = true ∨ s.procExists q = false)))
    (r : TaskRes) (hr : (∃ x, r = .exc x) ∨ (r = .ok ∧ ((s0.res q).isSome = true ∨ s.evSet q = true))) :
    Struct P depth ((nodeFinally P s0 d q true).setTask t { tkt with frames := [], st := .done r, mustCancel := false }) := by
  have hd := hs.data
  have hF_evSet : ∀ tk', (St.setTask (nodeFinally P s0 d q true) t tk').evSet = (nodeFinally P s0 d q true).evSet := fun _ => rfl
  have hF_proc : ∀ tk', (St.setTask (nodeFinally P s0 d q true) t tk').proc = (nodeFinally P s0 d q true).proc := fun _ => rfl
  have hF_procHid : ∀ tk', (St.setTask (nodeFinally P s0 d q true) t tk').procHid = (nodeFinally P s0 d q true).procHid := fun _ => rfl
  have hF_res : ∀ tk', (St.setTask (nodeFinally P s0 d q true) t tk').res = (nodeFinally P s0 d q true).res := fun _ => rfl
  have hF_resHid : ∀ tk', (St.setTask (nodeFinally P s0 d q true) t tk').resHid = (nodeFinally P s0 d q true).resHid := fun _ => rfl
  have hF_sw : ∀ tk', (St.setTask (nodeFinally P s0 d q true) t tk').sw = (nodeFinally P s0 d q true).sw := fun _ => rfl
  have hnc : tkt.name ≠ .caller := by rw [hnm]; intro h; cases h
  have hrt0 : ∀ tk0, s0.tasks[t]? = some tk0 → ∃ rv, tk0.st = .runnable rv := by
    intro tk0 h; rw [htasks, htkt] at h; cases h; exact hrt
  have hresm : ∀ n v, s.res n = some v → s0.res n = some v := by
    intro n v h
    by_cases hnq : n = q
    · subst hnq
      rcases hresq with h' | ⟨w, _, _, h', _⟩
      · rw [h']; exact h
      · rw [h'] at h; cases h
    · rw [hresn n hnq]; exact h
  have e0 : Ext t s s0 := Ext.of_data htasks hresm (fun S lc h => by rw [hsw]; exact h) hprocm
    (fun n h => by rw [hev]; exact h) hstl
  have e1 : Ext t s0 (nodeFinally P s0 d q true) := Ext.nodeFinally d q hrt0
  have e : Ext t s (nodeFinally P s0 d q true) := e0.trans e1
  obtain ⟨f1, f2, f3, f4, _, f6, _, _⟩ := nodeFinally_fields P s0 d q true
  have fev := evSet_nodeFinally P s0 d q
  obtain ⟨w1, w2, w3, _⟩ := nodeFinally_wakes P s0 d q
  have hlt := e.lt htkt
  have hnonew : ∀ (i : Nat) (tk : Task), s.tasks.length ≤ i → (nodeFinally P s0 d q true).tasks[i]? = some tk → False := by
    intro i tk hi h
    have h1 : (nodeFinally P s0 d q true).tasks.length = s.tasks.length := by
      rw [← htasks]
      have := len_unwindFrames P [.node d q false .evWait] s0
      simpa [unwindFrames] using this
    have := getElem?_lt h
    omega
  -- abbreviations for the final state
  have hevq : ∀ n, (nodeFinally P s0 d q true).evSet n = true ↔ n = q ∨ s.evSet n = true := by
    intro n
    rw [fev]
    simp only [upd]
    split
    · next h => simp [h]
    · next h => rw [hev]; simp [h]
  have hnoHid : ∀ n, (St.setTask (nodeFinally P s0 d q true) t
      { tkt with frames := [], st := .done r, mustCancel := false }).resHid n = false ∧
      (St.setTask (nodeFinally P s0 d q true) t { tkt with frames := [], st := .done r, mustCancel := false }).procHid n = false := by
    intro n
    constructor
    · rw [hF_resHid _, f2, hrh]
      exact (hd.noHid n).1
    · rw [hF_procHid _, f4]
      exact hph n
  refine Struct.close hs ⟨tkt, htkt, rfl⟩ e (len_ne_one hs htkt hnc) ?_ ?_ ?_ ?_ ?_ ?_ ?_ ?_
  · refine ⟨hnoHid, ?_, ?_, ?_, ?_, ?_, ?_, ?_, ?_, ?_, ?_, e.stale.trans hd.stale⟩
    · intro n v h
      rw [hF_res _, f1] at h
      by_cases hnq : n = q
      · subst hnq
        rcases hresq with h' | ⟨w, h', hw, _, _⟩
        · exact hd.noRec n v (by rw [← h']; exact h)
        · rw [h'] at h; cases h; exact hw
      · exact hd.noRec n v (by rw [← hresn n hnq]; exact h)
    · intro n hn
      rw [hF_proc _, f3] at hn
      rw [hF_evSet _]
      rcases hprocs n hn with rfl | h
      · exact Or.inl ((hevq n).mpr (Or.inl rfl))
      · rcases hd.c1 n h with h' | h'
        · exact Or.inl ((hevq n).mpr (Or.inr h'))
        · by_cases hnq : n = q
          · exact Or.inl ((hevq n).mpr (Or.inl hnq))
          · refine Or.inr (h'.close e htkt ?_)
            intro d' f' pc hf' _
            rw [hf0] at hf'; simp only [List.cons.injEq, Frame.node.injEq, and_true] at hf'
            exact hnq hf'.2.1.symm
    · intro n hn
      rw [hF_evSet _] at hn
      rw [hF_res _, f1]
      have old : s.evSet n = true → (s0.res n).isSome = true ∨ taskErrors (St.setTask (nodeFinally P s0 d q true) t
          { tkt with frames := [], st := .done r, mustCancel := false }) ≠ [] := by
        intro h
        rcases hd.c4 n h with h' | h'
        · left
          cases hrn : s.res n with
          | none => rw [hrn] at h'; cases h'
          | some v => rw [hresm n v hrn]; rfl
        · exact Or.inr (taskErrors_close_mono e htkt hrt h')
      rcases (hevq n).mp hn with rfl | h
      · rcases hr with ⟨x, rfl⟩ | ⟨_, h' | h'⟩
        · exact Or.inr (taskErrors_close_exc e htkt rfl)
        · exact Or.inl h'
        · exact old h'
      · exact old h
    · intro n hn
      rw [hF_res _, f1] at hn
      rw [hF_evSet _]
      by_cases hnq : n = q
      · exact (hevq n).mpr (Or.inl hnq)
      · exact (hevq n).mpr (Or.inr (hd.c5 n (by rw [← hresn n hnq]; exact hn)))
    · intro S l c h
      rw [hF_sw _, f6, hsw] at h
      exact hd.swEdge S l c h
    · intro S lc h
      rw [hF_sw _, f6, hsw] at h
      have h1 := hd.swSel S lc h
      have h2 : switchSelect P s0 S = some lc := by
        rcases hresq with h' | ⟨w, _, _, h', _⟩
        · have : s0.res = s.res := by
            funext n
            by_cases hnq : n = q
            · rw [hnq]; exact h'
            · exact hresn n hnq
          rw [switchSelect_congr this hrh]; exact h1
        · exact switchSelect_stable hrh h' hresn h1
      have hFs : ∀ tk', switchSelect P (St.setTask (nodeFinally P s0 d q true) t tk') S =
          switchSelect P (nodeFinally P s0 d q true) S := fun _ => rfl
      rw [hFs, switchSelect_congr f1 f2]
      exact h2
    · intro n hn
      rw [hF_res _, f1] at hn
      rw [hF_proc _, f3]
      by_cases hnq : n = q
      · rw [hnq]; exact hpq
      · exact hprocm n (hd.c6 n (by rw [← hresn n hnq]; exact hn))
    · intro n hn
      rw [hF_proc _, f3] at hn
      rcases hprocs n hn with rfl | h
      · exact hns
      · exact hd.procPlain n h
    · refine uniq_close e hd htkt ?_ (fun i tk hi h => absurd h (fun h' => hnonew i tk hi h'))
      intro d1 q1 f1' pc1 hfr
      cases hfr
    · exact noCancel_close e htkt hd.noCancel rfl (fun i tk hi h => absurd h (fun h' => hnonew i tk hi h'))
  · refine .nodeDone _ q r hnm hns rfl rfl ?_ ?_
    · rcases hr with ⟨x, rfl⟩ | ⟨rfl, _⟩ <;> intro h <;> cases h
    · exact (hevq q).mpr (Or.inl rfl)
  · intro q' hl
    refine Launched.close (tk' := { tkt with frames := [], st := .done r, mustCancel := false }) e htkt rfl hl ?_
    intro d' hf'
    rw [hf0] at hf'; simp only [List.cons.injEq, Frame.node.injEq, and_true] at hf'
    rw [f3, ← hf'.2.1]; exact hpq
  · intro _ _
    exact Or.inr w2
  · intro i tki d' m hit hi _ hb hrd hold
    by_cases hrd' : ready P s d' m = true
    · obtain ⟨S, hS, hSs, ho⟩ := hold hrd'
      refine ⟨S, hS, hSs, swOwner_keep e htkt ?_ ho⟩
      intro S' hfr
      rcases hfr with ⟨d1, h⟩ | ⟨d1, h⟩ | ⟨d1, s1', h⟩ | ⟨d1, s1', r1, h⟩ <;> rw [hf0] at h <;> simp at h
    · -- `m` has become ready through the result of `q`: its condition has just been notified
      exfalso
      have hrd0 : ready P s0 d' m = true := by rw [← ready_congr f1 f2 f6]; exact hrd
      have := ready_flip hp.sw hd hsw hrh hresn hrd0 (by simpa using hrd')
      exact w3 m this tki (List.mem_of_getElem? hi) hb
  · intro i tk d' q' pc hit hi hf hp1 hp2 hn
    rw [f1]
    by_cases hq' : q' = q
    · subst hq'
      rcases hresq with h' | ⟨w, _, _, _, hex⟩
      · rw [h']; exact hn
      · -- another task executing `q'`: impossible
        exfalso
        have hex' : pc.exec = true := by cases pc <;> simp_all [NodePc.exec]
        exact no_other_executor hs htkt hf0 hex i tk d' false pc hit hi hf hex'
    · rw [hresn q' hq']; exact hn
  · intro ht0
    subst ht0
    obtain ⟨tk0, h0, hn0⟩ := hs.caller
    rw [h0] at htkt; cases htkt
    exact absurd hn0 hnc
  · intro i tk hi h
    exact absurd h (fun h' => hnonew i tk hi h')

/-! ### sections of a launch loop (`_run_dag`), in the main task or inside `_run_switch` -/

/-- a task the launch loop has just created -/
def FreshTask (P : Program) (tk : Task) : Prop :=
  tk.mustCancel = false ∧ tk.st = .runnable .go ∧
  ((∃ d q, tk.frames = [.node d q false .start] ∧ tk.name = .node q ∧ P.g.isSwitch q = false) ∨
   (∃ d S, tk.frames = [.switchStart d S] ∧ tk.name = .node S ∧ P.g.isSwitch S = true ∧ d.isOneof = false))

theorem FreshTask.ok {P : Program} {depth : Node → Nat} {tk : Task} (h : FreshTask P tk) (s' : St) : TaskOK P depth s' tk := by
  obtain ⟨_, hst, hfr⟩ := h
  rcases hfr with ⟨d, q, h1, h2, h3⟩ | ⟨d, S, h1, h2, h3, h4⟩
  · exact .nodeStart tk d q h2 h3 h1 hst
  · exact .swStart tk d S h2 h3 h1 h4 hst

theorem FreshTask.notExec {P : Program} {tk : Task} (h : FreshTask P tk) :
    ∀ d n f pc, tk.frames = [.node d n f pc] → pc.exec = false := by
  intro d n f pc hf
  obtain ⟨_, _, hfr⟩ := h
  rcases hfr with ⟨d0, q, h1, _, _⟩ | ⟨d0, S, h1, _, _⟩
  · rw [h1] at hf; simp only [List.cons.injEq, Frame.node.injEq, and_true] at hf; rw [← hf.2.2.2]; rfl
  · rw [h1] at hf; simp at hf

/-- who runs the launch loop: the main `_run_dag` task, or a `_run_switch` task inside the sub-DAG of its case -/
inductive LRole (P : Program) (depth : Node → Nat) (s : St) (tkt : Task) (d : DagRef) : List Frame → Prop
  | main : tkt.name = .run → d.dest = some P.g.output → P.g.output ∈ d.nodes → LRole P depth s tkt d []
  | sw (d' : DagRef) (S : Node) : tkt.name = .node S → P.g.isSwitch S = true → SubOK' P depth s d S →
      LRole P depth s tkt d [.switchRet d' S]

/-- the situation during a section of a launching task `t`: the state `s1` is the state `s` at the beginning of the
section plus the freshly created tasks -/
structure LBase (P : Program) (depth : Node → Nat) (s s1 : St) (t : Nat) (tkt : Task) (d : DagRef) (below : List Frame) :
    Prop where
  hs     : Struct P depth s
  htkt   : s.tasks[t]? = some tkt
  hrt    : ∃ rv, tkt.st = .runnable rv
  role   : LRole P depth s tkt d below
  dag    : DagOK P d
  notNode : ∀ d0 n f pc, tkt.frames ≠ [.node d0 n f pc]
  /-- the old frames of a `_run_switch` task make it the owner of its switch -/
  oldSw  : ∀ d' S, below = [.switchRet d' S] → (∃ d0, tkt.frames = [.switchStart d0 S]) ∨
      (∃ d0 sub rest0, tkt.frames = [.dagLaunch sub rest0, .switchRet d0 S]) ∨
      (∃ d0 sub, tkt.frames = [.dagWaitDest sub, .switchRet d0 S]) ∨
      (∃ d0 sub, tkt.frames = [.dagInit sub, .switchRet d0 S])
  oldMain : below = [] → (∃ d0, tkt.frames = [.dagInit d0]) ∨ (∃ d0 r0, tkt.frames = [.dagLaunch d0 r0]) ∨
      (∃ d0, tkt.frames = [.dagWaitDest d0])
  e      : Ext t s s1
  res    : s1.res = s.res
  rh     : s1.resHid = s.resHid
  ph     : s1.procHid = s.procHid
  sw     : s1.sw = s.sw
  ev     : s1.evSet = s.evSet
  proc   : s1.proc = s.proc
  fresh  : ∀ (i : Nat) (tk : Task), s.tasks.length ≤ i → s1.tasks[i]? = some tk → FreshTask P tk

/-- … in the launch loop, with `rest` still to be launched -/
structure LCtx (P : Program) (depth : Node → Nat) (s s1 : St) (t : Nat) (tkt : Task) (d : DagRef) (below : List Frame)
    (rest : List Node) : Prop extends LBase P depth s s1 t tkt d below where
  passed : ∀ q ∈ d.nodes, q ∉ rest → Launched P s1 q
  sub    : ∀ q ∈ rest, q ∈ d.nodes
  topo   : TopoRest P rest

theorem LCtx.nameNe {P : Program} {depth : Node → Nat} {s s1 : St} {t : Nat} {tkt : Task} {d : DagRef} {below : List Frame}
    {rest : List Node} (x : LCtx P depth s s1 t tkt d below rest) : tkt.name ≠ .caller := by
  cases x.role with
  | main h => rw [h]; intro h'; cases h'
  | sw d' S h => rw [h]; intro h'; cases h'

/-- the new entry of the launching task is not a node frame, and the task is not `run()` -/
theorem LCtx.close {P : Program} {depth : Node → Nat} {s s1 : St} {t : Nat} {tkt : Task} {d : DagRef} {below : List Frame}
    {rest : List Node} (x : LCtx P depth s s1 t tkt d below rest) (hmc : tkt.mustCancel = false) (tk' : Task)
    (hnm : tk'.name = tkt.name) (hmc' : tk'.mustCancel = false)
    (hnewf : ∀ d0 n f pc, tk'.frames ≠ [.node d0 n f pc]) (hnd : ∀ y, tk'.st ≠ .done (.exc y))
    (hself : TaskOK P depth (s1.setTask t tk') tk')
    (hown : ∀ d' S, below = [.switchRet d' S] → SwOwner (s1.setTask t tk') S ∨
      ∀ m, S ∈ basePreds P m → ∀ d0, d0.isRec = false → ready P s d0 m = false) :
    Struct P depth (s1.setTask t tk') := by
  refine Struct.close_same x.hs x.htkt hnm x.hrt (len_ne_one x.hs x.htkt x.nameNe) x.e x.res x.rh x.ph x.sw x.ev x.proc hmc'
    ?_ ?_ (Or.inl hnd) hself ?_ ?_ ?_ ?_
  · intro d0 n f pc hf; exact absurd hf (x.notNode d0 n f pc)
  · intro d0 n f pc hf; exact absurd hf (hnewf d0 n f pc)
  · intro d0 q hf; exact absurd hf (x.notNode d0 q false .start)
  · intro S ho
    -- the owner of `S` is another task, or this task
    obtain ⟨i, tk, hi, hnd', hfr⟩ := ho
    by_cases hit : i = t
    · subst hit
      rw [x.htkt] at hi; cases hi
      -- then this task is the `_run_switch` task of `S`
      cases x.role with
      | main hn hdst hout =>
        rcases x.oldMain rfl with ⟨d0, h⟩ | ⟨d0, r0, h⟩ | ⟨d0, h⟩ <;>
          (rcases hfr with ⟨d1, h'⟩ | ⟨d1, h'⟩ | ⟨d1, s1', h'⟩ | ⟨d1, s1', r1, h'⟩ <;> rw [h] at h' <;> simp at h')
      | sw d' S' hn hS' hsub =>
        have hSS : S = S' := by
          rcases x.oldSw d' S' rfl with ⟨d0, h⟩ | ⟨d0, sub0, r0, h⟩ | ⟨d0, sub0, h⟩ | ⟨d0, sub0, h⟩ <;>
            (rcases hfr with ⟨d1, h'⟩ | ⟨d1, h'⟩ | ⟨d1, s1', h'⟩ | ⟨d1, s1', r1, h'⟩ <;> rw [h] at h' <;> simp at h' <;>
              first | exact h'.2.symm | exact h'.2.2.symm | exact h'.symm)
        subst hSS
        rcases hown d' S rfl with h | h
        · exact Or.inl h
        · exact Or.inr (fun m hm => Or.inl (h m hm))
    · obtain ⟨tk1, h1, te⟩ := x.e.old i tk hi hit
      exact Or.inl ⟨i, tk1, by rw [getElem?_close (x.e.lt x.htkt), if_neg hit]; exact h1, te.nonDone hnd',
        by rw [te.frames]; exact hfr⟩
  · intro ht0
    subst ht0
    obtain ⟨tk0, h0, hn0⟩ := x.hs.caller
    have := x.htkt
    rw [h0] at this; cases this
    exact absurd hn0 x.nameNe
  · intro i tk hi h
    have hf := x.fresh i tk hi h
    refine ⟨hf.ok _, hf.1, ?_, hf.notExec⟩
    intro y hy
    rw [hf.2.1] at hy; cases hy

theorem block_eq (c : Ctx) (s1 : St) (obs : List Obs) (fs : List Frame) (w : Wait) {tk : Task} (h : s1.tasks[c.t]? = some tk) :
    (block c s1 obs fs w).1 = s1.setTask c.t { tk with frames := fs, st := .blocked w } := by
  unfold block; rw [h]

theorem yieldNow_eq (c : Ctx) (s1 : St) (obs : List Obs) (fs : List Frame) {tk : Task} (h : s1.tasks[c.t]? = some tk) :
    (yieldNow c s1 obs fs).1 = s1.setTask c.t { tk with frames := fs, st := .runnable .go } := by
  unfold yieldNow; rw [h]

theorem endTask_eq (c : Ctx) (s1 : St) (obs : List Obs) (r : TaskRes) {tk : Task} (h : s1.tasks[c.t]? = some tk) :
    (endTask c s1 obs r).1 = s1.setTask c.t { tk with frames := [], st := .done r, mustCancel := false } := by
  unfold endTask; rw [h]

theorem retTo_eq_cons (c : Ctx) (s1 : St) (obs : List Obs) (f : Frame) (fs : List Frame) (v : Val) {tk : Task}
    (h : s1.tasks[c.t]? = some tk) :
    (retTo c s1 obs (f :: fs) v).1 = s1.setTask c.t { tk with frames := f :: fs, st := .runnable (.ret v) } := by
  unfold retTo; simp only []; rw [h]

theorem retTo_eq_nil (c : Ctx) (s1 : St) (obs : List Obs) (v : Val) {tk : Task} (h : s1.tasks[c.t]? = some tk) :
    (retTo c s1 obs [] v).1 = s1.setTask c.t { tk with frames := [], st := .done .ok, mustCancel := false } := by
  unfold retTo; simp only []; exact endTask_eq c s1 obs .ok h

/-- the launch bookkeeping after the launching task installed its new entry -/
theorem LCtx.launched' {P : Program} {depth : Node → Nat} {s s1 : St} {t : Nat} {tkt : Task} {d : DagRef}
    {below : List Frame} {rest : List Node} (x : LCtx P depth s s1 t tkt d below rest) (tk' : Task)
    (hnm : tk'.name = tkt.name) {q : Node} (h : Launched P s1 q) : Launched P (s1.setTask t tk') q := by
  have ht1 : s1.tasks[t]? = some tkt := by rw [x.e.self]; exact x.htkt
  refine Launched.close (Ext.refl t s1) ht1 hnm h ?_
  intro d0 hf
  exact absurd hf (x.notNode d0 q false .start)

/-- the launch loop blocks at node `n`, which is not ready -/
theorem struct_launch_block {P : Program} {depth : Node → Nat} {s s1 : St} {t : Nat} {tkt : Task} {d : DagRef}
    {below : List Frame} {n : Node} {rest : List Node} (x : LCtx P depth s s1 t tkt d below (n :: rest))
    (hmc : tkt.mustCancel = false) (hnr : ready P s1 d n = false) (tk' : Task) (hnm : tk'.name = tkt.name)
    (hmc' : tk'.mustCancel = false) (hfr : tk'.frames = .dagLaunch d (n :: rest) :: below)
    (hst : tk'.st = .blocked (.cond (.node n))) : Struct P depth (s1.setTask t tk') := by
  have hdf : DagFrame P (s1.setTask t tk') (.dagLaunch d (n :: rest)) d :=
    .launch d n rest (fun q hq hn => x.launched' _ hnm (x.passed q hq hn)) x.sub x.topo
  have hlst : LaunchSt P (s1.setTask t tk') tk' (.dagLaunch d (n :: rest)) := by
    refine ⟨x.dag.notRec, Or.inr ⟨hst, ?_⟩⟩
    intro h
    rw [ready_setTask, hnr] at h; cases h
  refine x.close hmc tk' hnm hmc' ?_ ?_ ?_ ?_
  · intro d0 m f pc hf
    rw [hfr] at hf
    cases x.role <;> simp at hf
  · intro y hy; rw [hst] at hy; cases hy
  · cases x.role with
    | main hn hdst hout => exact .main _ _ d (by rw [hnm]; exact hn) hfr hdf x.dag hdst hout hlst
    | sw d' S hn hS hsub =>
      refine .swIn _ _ d d' S (by rw [hnm]; exact hn) hS hfr hdf ?_ hlst
      exact hsub.transport (fun S' lc h => by rw [show (St.setTask s1 t tk').sw = s1.sw from rfl, x.sw]; exact h)
  · intro d' S hb
    left
    refine ⟨t, tk', by rw [getElem?_close (x.e.lt x.htkt), if_pos rfl], ?_,
      Or.inr (Or.inr (Or.inr ⟨d', d, n :: rest, by rw [hfr, hb]⟩))⟩
    intro r hr
    rw [hst] at hr; cases hr

/-- the launch loop is through; the destination has no result yet: the task waits for it -/
theorem struct_launch_wait {P : Program} {depth : Node → Nat} (hp : LiveP P depth) {s s1 : St} {t : Nat} {tkt : Task}
    {d : DagRef} {below : List Frame} (x : LCtx P depth s s1 t tkt d below [])
    (hmc : tkt.mustCancel = false) (hne : ∀ dn, d.dest = some dn → s1.exists dn = false) (tk' : Task)
    (hnm : tk'.name = tkt.name) (hmc' : tk'.mustCancel = false) (hfr : tk'.frames = .dagWaitDest d :: below)
    (hst : tk'.st = .blocked (.cond d.destKey)) : Struct P depth (s1.setTask t tk') := by
  have hdf : DagFrame P (s1.setTask t tk') (.dagWaitDest d) d :=
    .wait d (fun q hq => x.launched' _ hnm (x.passed q hq (by simp)))
  have hlst : LaunchSt P (s1.setTask t tk') tk' (.dagWaitDest d) := Or.inr hst
  refine x.close hmc tk' hnm hmc' ?_ ?_ ?_ ?_
  · intro d0 m f pc hf
    rw [hfr] at hf
    cases x.role <;> simp at hf
  · intro y hy; rw [hst] at hy; cases hy
  · cases x.role with
    | main hn hdst hout => exact .main _ _ d (by rw [hnm]; exact hn) hfr hdf x.dag hdst hout hlst
    | sw d' S hn hS hsub =>
      refine .swIn _ _ d d' S (by rw [hnm]; exact hn) hS hfr hdf ?_ hlst
      exact hsub.transport (fun S' lc h => by rw [show (St.setTask s1 t tk').sw = s1.sw from rfl, x.sw]; exact h)
  · intro d' S hb
    -- the selected case has no result: no consumer of `S` is ready
    right
    intro m hm d0 hd0
    cases x.role with
    | main hn hdst hout => cases hb
    | sw d'' S' hn hS hsub =>
      simp only [List.cons.injEq, Frame.switchRet.injEq, and_true] at hb
      obtain ⟨_, hSS⟩ := hb
      subst hSS
      obtain ⟨l, c, hsw, hdc, _, _⟩ := hsub.sel
      have hnc : s.exists c = false := by
        have := hne c hdc
        simpa [St.exists, x.res, x.rh] using this
      unfold ready
      rw [predsFor_eq hp.sw s d0 hd0 m, List.all_eq_false]
      refine ⟨c, ?_, by simp [hnc]⟩
      rw [List.mem_map]
      exact ⟨S', hm, by simp [resolveSw, hS, hsw]⟩

/-- `_run_dag` returns to `_run_switch` (the case has a result, or nothing was left to launch): the task is about to
notify the consumers of the switch -/
theorem struct_launch_ret_sw {P : Program} {depth : Node → Nat} {s s1 : St} {t : Nat} {tkt : Task}
    {d d' : DagRef} {S : Node} {rest : List Node} (x : LCtx P depth s s1 t tkt d [.switchRet d' S] rest)
    (hmc : tkt.mustCancel = false) (hcase : ∀ l c, s.sw S = some (l, c) → s1.proc c = true) (tk' : Task)
    (hnm : tk'.name = tkt.name) (hmc' : tk'.mustCancel = false) (hfr : tk'.frames = [.switchRet d' S])
    (hst : ∃ v, tk'.st = .runnable (.ret v)) : Struct P depth (s1.setTask t tk') := by
  refine x.close hmc tk' hnm hmc' ?_ ?_ ?_ ?_
  · intro d0 m f pc hf
    rw [hfr] at hf; simp at hf
  · intro y hy; obtain ⟨v, hv⟩ := hst; rw [hv] at hy; cases hy
  · cases x.role with
    | sw d'' S' hn hS hsub =>
      obtain ⟨l, c, hsw, _, _, _⟩ := hsub.sel
      refine .swRet _ d' S (by rw [hnm]; exact hn) hS hfr hst ⟨l, c, ?_, ?_⟩
      · rw [show (St.setTask s1 t tk').sw = s1.sw from rfl, x.sw]; exact hsw
      · unfold Launched
        rw [if_neg (by rw [(x.hs.data.swEdge S l c hsw).1]; simp)]
        exact Or.inl (hcase l c hsw)
  · intro d'' S' hb
    simp only [List.cons.injEq, Frame.switchRet.injEq, and_true] at hb
    obtain ⟨_, hSS⟩ := hb
    subst hSS
    left
    refine ⟨t, tk', by rw [getElem?_close (x.e.lt x.htkt), if_pos rfl], ?_, Or.inr (Or.inl ⟨d', hfr⟩)⟩
    intro r hr
    obtain ⟨v, hv⟩ := hst
    rw [hv] at hr; cases hr

/-- the main `_run_dag` returns: the output has a result -/
theorem struct_launch_ret_main {P : Program} {depth : Node → Nat} {s s1 : St} {t : Nat} {tkt : Task}
    {d : DagRef} {rest : List Node} (x : LCtx P depth s s1 t tkt d [] rest)
    (hmc : tkt.mustCancel = false) (hout : Launched P s1 P.g.output) (tk' : Task)
    (hnm : tk'.name = tkt.name) (hmc' : tk'.mustCancel = false) (hfr : tk'.frames = [])
    (hst : tk'.st = .done .ok) : Struct P depth (s1.setTask t tk') := by
  refine x.close hmc tk' hnm hmc' ?_ ?_ ?_ ?_
  · intro d0 m f pc hf
    rw [hfr] at hf; simp at hf
  · intro y hy; rw [hst] at hy; cases hy
  · cases x.role with
    | main hn hdst hout' => exact .mainDone _ (by rw [hnm]; exact hn) hfr hst (x.launched' _ hnm hout)
  · intro d' S hb
    cases hb

theorem TopoRest.tail {P : Program} {n : Node} {rest : List Node} (h : TopoRest P (n :: rest)) : TopoRest P rest := by
  intro pre m post hr u hu
  exact h (n :: pre) m post (by rw [hr]; rfl) u hu

theorem LCtx.self1 {P : Program} {depth : Node → Nat} {s s1 : St} {t : Nat} {tkt : Task} {d : DagRef} {below : List Frame}
    {rest : List Node} (x : LCtx P depth s s1 t tkt d below rest) : s1.tasks[t]? = some tkt := by
  rw [x.e.self]; exact x.htkt

/-- the launch loop creates the task of `n` and goes on -/
theorem LCtx.step {P : Program} {depth : Node → Nat} (hp : LiveP P depth) {s s1 : St} {t : Nat} {tkt : Task} {d : DagRef}
    {below : List Frame} {n : Node} {rest : List Node} (x : LCtx P depth s s1 t tkt d below (n :: rest)) :
    LCtx P depth s (Eng.spawn s1 [launchFrame P d n] (.node n)).1 t tkt d below rest := by
  have hlt : t < s1.tasks.length := getElem?_lt x.self1
  have e2 : Ext t s1 (Eng.spawn s1 [launchFrame P d n] (.node n)).1 := Ext.spawn s1 _ _ hlt
  have hnewtask : (Eng.spawn s1 [launchFrame P d n] (.node n)).1.tasks[s1.tasks.length]? =
      some { frames := [launchFrame P d n], st := .runnable .go, name := .node n } := by
    simp [Eng.spawn]
  refine { hs := x.hs, htkt := x.htkt, hrt := x.hrt, role := x.role, dag := x.dag, notNode := x.notNode, oldSw := x.oldSw,
           oldMain := x.oldMain, e := x.e.trans e2, res := x.res, rh := x.rh, ph := x.ph, sw := x.sw, ev := x.ev,
           proc := x.proc, fresh := ?_, passed := ?_, sub := fun q hq => x.sub q (by simp [hq]), topo := x.topo.tail }
  · intro i tk hi h
    by_cases hlt' : i < s1.tasks.length
    · have : s1.tasks[i]? = some tk := by
        simp only [Eng.spawn] at h
        rw [List.getElem?_append_left hlt'] at h; exact h
      exact x.fresh i tk hi this
    · have hi' : i = s1.tasks.length := by
        have := getElem?_lt h
        simp only [Eng.spawn, List.length_append, List.length_singleton] at this
        omega
      subst hi'
      rw [hnewtask] at h; cases h
      refine ⟨rfl, rfl, ?_⟩
      unfold launchFrame
      split
      · next hS => exact Or.inr ⟨d, n, rfl, rfl, hS, x.dag.notOne⟩
      · next hS =>
        rw [if_neg (by rw [hp.sw.noHead n]; simp)]
        exact Or.inl ⟨d, n, rfl, rfl, by simpa using hS⟩
  · intro q hq hnr
    by_cases hqn : q = n
    · subst hqn
      unfold Launched
      split
      · exact ⟨s1.tasks.length, _, hnewtask, rfl⟩
      · next hS =>
        refine Or.inr ⟨s1.tasks.length, _, d, hnewtask, ?_, rfl⟩
        show [launchFrame P d q] = _
        unfold launchFrame
        rw [if_neg hS, if_neg (by rw [hp.sw.noHead q]; simp)]
    · exact (x.passed q hq (by simp [hqn, hnr])).ext e2

/-- **the launch loop** (`_run_dag` from any point of its node list on) preserves the invariant -/
theorem struct_dagLaunch {P : Program} {depth : Node → Nat} (hp : LiveP P depth) (c : Ctx) (hcP : c.P = P) {s : St}
    {tkt : Task} {d : DagRef} {below : List Frame} (hmc : tkt.mustCancel = false) :
    ∀ (rest : List Node) (s1 : St) (obs : List Obs), LCtx P depth s s1 c.t tkt d below rest →
      Struct P depth (dagLaunch c d below s1 obs rest).1 := by
  intro rest
  induction rest with
  | nil =>
    intro s1 obs x
    simp only [dagLaunch]
    unfold dagWaitDest
    have hself := x.self1
    cases hdd : d.dest with
    | none =>
      exfalso
      cases x.role with
      | main hn hdst hout => rw [hdd] at hdst; cases hdst
      | sw d' S hn hS hsub => obtain ⟨l, c', _, h, _⟩ := hsub.sel; rw [hdd] at h; cases h
    | some dn =>
      simp only []
      split
      · next hex =>
        -- the destination has a result: return
        have hres : (s1.res dn).isSome = true := by
          simp only [St.exists, Bool.and_eq_true] at hex; exact hex.1
        cases hr : x.role with
        | main hn hdst hout =>
          rw [retTo_eq_nil c s1 obs _ hself]
          rw [hdd] at hdst; cases hdst
          refine struct_launch_ret_main x hmc ?_ _ rfl rfl rfl rfl
          unfold Launched
          rw [if_neg (by rw [hp.outPlain]; simp)]
          exact Or.inl (by rw [x.proc]; exact x.hs.data.c6 _ (by rw [← x.res]; exact hres))
        | sw d' S hn hS hsub =>
          rw [retTo_eq_cons c s1 obs _ _ _ hself]
          refine struct_launch_ret_sw x hmc ?_ _ rfl hmc rfl ⟨_, rfl⟩
          intro l c1 hsw
          obtain ⟨l', c2, hsw', hdc, _, _⟩ := hsub.sel
          have hcc : c1 = c2 := by rw [hsw] at hsw'; cases hsw'; rfl
          have hcd : c2 = dn := by rw [hdd] at hdc; cases hdc; rfl
          rw [x.proc, hcc, hcd]
          exact x.hs.data.c6 dn (by rw [← x.res]; exact hres)
      · next hex =>
        rw [block_eq c s1 obs _ _ hself]
        refine struct_launch_wait hp x hmc ?_ _ rfl hmc rfl (by simp [DagRef.destKey, hdd])
        intro dn' hdn'
        rw [hdd] at hdn'; cases hdn'
        simpa using hex
  | cons n rest ih =>
    intro s1 obs x
    simp only [dagLaunch, x.dag.notOne, Bool.false_and, Bool.false_eq_true, if_false]
    split
    · next hr =>
      rw [hcP]
      exact ih _ _ (x.step hp)
    · next hr =>
      rw [block_eq c s1 obs _ _ x.self1]
      refine struct_launch_block x hmc ?_ _ rfl hmc rfl rfl
      rw [← hcP]; simpa using hr

/-! ### `_run_switch` -/

theorem fields_notifyAll (ks : List Key) : ∀ (s : St), (notifyAll s ks).res = s.res ∧ (notifyAll s ks).resHid = s.resHid ∧
    (notifyAll s ks).procHid = s.procHid ∧ (notifyAll s ks).sw = s.sw ∧ (notifyAll s ks).evSet = s.evSet ∧
    (notifyAll s ks).proc = s.proc := by
  induction ks with
  | nil => intro s; exact ⟨rfl, rfl, rfl, rfl, rfl, rfl⟩
  | cons k ks ih => intro s; simp only [Eng.notifyAll, List.foldl_cons]; exact ih (notify s k)

/-- `_run_switch` returns: it notifies the consumers of the switch and ends -/
theorem struct_switch_ret {P : Program} {depth : Node → Nat} (hp : LiveP P depth) {s : St} (hs : Struct P depth s) {t : Nat}
    {tkt : Task} (htkt : s.tasks[t]? = some tkt) {d : DagRef} {S : Node} (hnm : tkt.name = .node S)
    (hS : P.g.isSwitch S = true) (hf0 : tkt.frames = [.switchRet d S]) (hrt : ∃ rv, tkt.st = .runnable rv)
    (hok : ∃ l c, s.sw S = some (l, c) ∧ Launched P s c) (tk' : Task) (hnm' : tk'.name = tkt.name)
    (hmc' : tk'.mustCancel = false) (hfr : tk'.frames = []) (hst : tk'.st = .done .ok) :
    Struct P depth ((notifyAll s ((P.g.desc1 S).map Key.node)).setTask t tk') := by
  have hnc : tkt.name ≠ .caller := by rw [hnm]; intro h; cases h
  have hrt0 : ∀ tk0, s.tasks[t]? = some tk0 → ∃ rv, tk0.st = .runnable rv := by
    intro tk0 h; rw [htkt] at h; cases h; exact hrt
  have e : Ext t s (notifyAll s ((P.g.desc1 S).map Key.node)) := Ext.notifyAll _ hrt0
  obtain ⟨f1, f2, f3, f4, f5, f6⟩ := fields_notifyAll ((P.g.desc1 S).map Key.node) s
  have hnonew : ∀ (i : Nat) (tk : Task), s.tasks.length ≤ i →
      (notifyAll s ((P.g.desc1 S).map Key.node)).tasks[i]? = some tk → False := by
    intro i tk hi h
    have := getElem?_lt h
    rw [len_notifyAll] at this
    omega
  have h2 := two_nodes hp.sw
  refine Struct.close_same hs htkt hnm' hrt (len_ne_one hs htkt hnc) e f1 f2 f3 f4 f5 f6 hmc' ?_ ?_ ?_ ?_ ?_ ?_ ?_
    (fun i tk hi h => absurd h (fun h' => hnonew i tk hi h'))
  · intro d' n f pc hf; rw [hf0] at hf; simp at hf
  · intro d' n f pc hf; rw [hfr] at hf; simp at hf
  · left; intro x hx; rw [hst] at hx; cases hx
  · obtain ⟨l, c, h1, h2'⟩ := hok
    refine .swDone tk' S .ok (by rw [hnm']; exact hnm) hS hfr hst (by intro h; cases h) ?_
    intro _
    refine ⟨l, c, by rw [show (St.setTask _ t tk').sw = (notifyAll s ((P.g.desc1 S).map Key.node)).sw from rfl, f4]; exact h1, ?_⟩
    refine h2'.close e htkt hnm' ?_
    intro d' hf; rw [hf0] at hf; simp at hf
  · intro d' q hf; rw [hf0] at hf; simp at hf
  · intro S' ho
    obtain ⟨i, tk, hi, hnd', hfr'⟩ := ho
    by_cases hit : i = t
    · subst hit
      rw [htkt] at hi; cases hi
      have hSS : S' = S := by
        rcases hfr' with ⟨d1, h'⟩ | ⟨d1, h'⟩ | ⟨d1, s1', h'⟩ | ⟨d1, s1', r1, h'⟩ <;> rw [hf0] at h' <;> simp at h'
        exact h'.2.symm
      subst hSS
      right
      intro m hm
      right
      obtain ⟨e2, he2, hu2, hv2⟩ := mem_basePreds_edge hm
      refine notifyAll_noneBlocked _ _ _ (List.mem_map.mpr ⟨m, ?_, rfl⟩)
      have := mem_desc1_of_edge P.g e2 he2 (by intro h; rw [h] at h2; simp at h2)
      rw [hu2, hv2] at this; exact this
    · obtain ⟨tk1, h1, te⟩ := e.old i tk hi hit
      exact Or.inl ⟨i, tk1, by rw [getElem?_close (e.lt htkt), if_neg hit]; exact h1, te.nonDone hnd',
        by rw [te.frames]; exact hfr'⟩
  · intro ht0
    subst ht0
    obtain ⟨tk0, h0, hn0⟩ := hs.caller
    rw [h0] at htkt; cases htkt
    exact absurd hn0 hnc

/-! ### entering `_run_dag` -/

theorem basePreds_nocase {P : Program} {depth : Node → Nat} (hp : LiveP P depth) {m u : Node} (h : u ∈ basePreds P m) :
    ∃ e ∈ P.g.edges, e.u = u ∧ e.v = m ∧ e.case = none := by
  unfold basePreds at h
  split at h
  · simp only [List.mem_map, List.mem_filter, Bool.and_eq_true, beq_iff_eq] at h
    obtain ⟨e, ⟨he, hv, hsw⟩, hu⟩ := h
    exact ⟨e, he, hu, hv, hp.decNoCase e he hsw⟩
  · next hS =>
    simp only [Graph.preds, List.mem_map, List.mem_filter, beq_iff_eq] at h
    obtain ⟨e, ⟨he, hv⟩, hu⟩ := h
    exact ⟨e, he, hu, hv, hp.caseSw e he (by rw [hv]; simpa using hS)⟩

/-- an admissible answer of `_get_node_order`: everything else in the DAG is processed, and dependencies come first -/
theorem LBase.ofValid {P : Program} {depth : Node → Nat} (hp : LiveP P depth) {s s1 : St} {t : Nat} {tkt : Task}
    {d : DagRef} {below : List Frame} (x : LBase P depth s s1 t tkt d below) {ord : List Node}
    (hv : validOrder P s1 d ord = true) :
    LCtx P depth s s1 t tkt d below ord ∧ ∀ q ∈ d.nodes, q ∉ ord → s1.proc q = true := by
  have hsub := validOrder_sub hv
  unfold validOrder at hv
  simp only [Bool.and_eq_true, List.all_eq_true, decide_eq_true_eq] at hv
  obtain ⟨⟨⟨⟨_, _⟩, hex⟩, hnd⟩, hedges⟩ := hv
  have hproc : ∀ q ∈ d.nodes, q ∉ ord → s1.proc q = true := by
    intro q hq hno
    cases hpe : s1.procExists q with
    | false =>
      have : q ∈ expectedOrder P s1 d := by
        simp only [expectedOrder, List.mem_filter, hq, true_and, hpe]; simp
      have := hex q this
      simp only [List.contains_iff_mem] at this
      exact absurd this hno
    | true =>
      simp only [St.procExists, Bool.and_eq_true] at hpe
      exact hpe.1
  refine ⟨{ toLBase := x, passed := ?_, sub := hsub, topo := ?_ }, hproc⟩
  · intro q hq hno
    have h1 := hproc q hq hno
    unfold Launched
    rw [if_neg (by rw [x.hs.data.procPlain q (by rw [← x.proc]; exact h1)]; simp)]
    exact Or.inl h1
  · intro pre m post hr u hu hmem
    obtain ⟨e, he, heu, hev, hcase⟩ := basePreds_nocase hp hu
    have hmo : m ∈ ord := by rw [hr]; simp
    have huo : u ∈ ord := by rw [hr]; exact List.mem_append_right _ hmem
    have := hedges e he
    rw [if_pos] at this
    · rw [heu, hev] at this
      have hnd' := hnd
      rw [hr, List.nodup_append] at hnd'
      have hmpre : m ∉ pre := fun h => hnd'.2.2 m h m (by simp) rfl
      have hlt : posOf ord u < posOf ord m := by simpa using this
      rw [hr, posOf_append_self pre post m hmpre] at hlt
      have := posOf_lt_mem pre (m :: post) u hlt
      exact hnd'.2.2 u this u hmem rfl
    · simp only [Bool.and_eq_true, List.contains_iff_mem, heu, hev, huo, hmo, true_and]
      refine ⟨by rw [hcase]; rfl, ?_⟩
      have := hp.noCands e he
      rw [hev, heu] at this
      simpa using this

/-- **entering `_run_dag`** with an admissible launch order preserves the invariant -/
theorem struct_dagInit {P : Program} {depth : Node → Nat} (hp : LiveP P depth) (c : Ctx) (hcP : c.P = P) {s s1 : St}
    {tkt : Task} {d : DagRef} {below : List Frame} (hmc : tkt.mustCancel = false)
    (x : LBase P depth s s1 c.t tkt d below) (obs : List Obs) (hv : validOrder c.P s1 d c.ord = true) :
    Struct P depth (dagInit c s1 obs d below).1 := by
  have hv' : validOrder P s1 d c.ord = true := by rw [← hcP]; exact hv
  obtain ⟨y, hproc⟩ := x.ofValid hp hv'
  unfold dagInit
  simp only [refresh_of_nil (x.e.stale.trans x.hs.data.stale), hv, noteOrder_true]
  cases hco : c.ord with
  | nil =>
    simp only []
    rw [hco] at y hproc
    have hself := y.self1
    cases hr : x.role with
    | main hn hdst hout =>
      rw [retTo_eq_nil c s1 _ _ hself]
      exact struct_launch_ret_main y hmc (y.passed _ hout (by simp)) _ rfl rfl rfl rfl
    | sw d' S hn hS hsub =>
      rw [retTo_eq_cons c s1 _ _ _ _ hself]
      refine struct_launch_ret_sw y hmc ?_ _ rfl hmc rfl ⟨_, rfl⟩
      intro l c1 hsw
      obtain ⟨l', c2, hsw', _, hc2, _⟩ := hsub.sel
      have hcc : c1 = c2 := by rw [hsw] at hsw'; cases hsw'; rfl
      rw [hcc]
      exact hproc c2 hc2 (by simp)
  | cons n rest =>
    simp only []
    rw [hco] at y
    exact struct_dagLaunch hp c hcP hmc _ _ _ y

/-! ### entering `_run_switch` -/

/-- a consumer of a switch that has not recorded its decision is not ready -/
theorem ready_false_of_unset {P : Program} (hsw : SwP P) {s : St} (hd : LData P s) {S m : Node} (hm : S ∈ basePreds P m)
    (hS : P.g.isSwitch S = true) (hno : s.sw S = none) (d : DagRef) (hrec : d.isRec = false) : ready P s d m = false := by
  unfold ready
  rw [predsFor_eq hsw s d hrec m, List.all_eq_false]
  refine ⟨S, List.mem_map.mpr ⟨S, hm, by simp [resolveSw, hS, hno]⟩, ?_⟩
  have : s.res S = none := by
    cases hr : s.res S with
    | none => rfl
    | some v =>
      have := hd.procPlain S (hd.c6 S (by rw [hr]; rfl))
      rw [hS] at this; cases this
  simp [St.exists, this]

/-- `_run_switch` finds no case for the label it got: the task fails — `run()` has been notified -/
theorem struct_switch_nocase {P : Program} {depth : Node → Nat} (hp : LiveP P depth) {s : St} (hs : Struct P depth s)
    {t : Nat} {tkt : Task} (htkt : s.tasks[t]? = some tkt) {d : DagRef} {S : Node} (hnm : tkt.name = .node S)
    (hS : P.g.isSwitch S = true) (hf0 : tkt.frames = [.switchStart d S]) (hrt : ∃ rv, tkt.st = .runnable rv)
    (hnone : switchSelect P s S = none) (x : Exc) (tk' : Task) (hnm' : tk'.name = tkt.name)
    (hmc' : tk'.mustCancel = false) (hfr : tk'.frames = []) (hst : tk'.st = .done (.exc x)) :
    Struct P depth ((notify s .run).setTask t tk') := by
  have hnc : tkt.name ≠ .caller := by rw [hnm]; intro h; cases h
  have hrt0 : ∀ tk0, s.tasks[t]? = some tk0 → ∃ rv, tk0.st = .runnable rv := by
    intro tk0 h; rw [htkt] at h; cases h; exact hrt
  have e : Ext t s (notify s .run) := Ext.notify _ hrt0
  have hnonew : ∀ (i : Nat) (tk : Task), s.tasks.length ≤ i → (notify s .run).tasks[i]? = some tk → False := by
    intro i tk hi h
    have := getElem?_lt h
    rw [len_notify] at this
    omega
  have hnosw : s.sw S = none := by
    cases h : s.sw S with
    | none => rfl
    | some lc => have := hs.data.swSel S lc h; rw [hnone] at this; cases this
  refine Struct.close_same hs htkt hnm' hrt (len_ne_one hs htkt hnc) e rfl rfl rfl rfl rfl rfl hmc' ?_ ?_
    (Or.inr (notify_noneBlocked s .run)) ?_ ?_ ?_ ?_ (fun i tk hi h => absurd h (fun h' => hnonew i tk hi h'))
  · intro d' n f pc hf; rw [hf0] at hf; simp at hf
  · intro d' n f pc hf; rw [hfr] at hf; simp at hf
  · refine .swDone tk' S (.exc x) (by rw [hnm']; exact hnm) hS hfr hst (by intro h; cases h) ?_
    intro h; cases h
  · intro d' q hf; rw [hf0] at hf; simp at hf
  · intro S' ho
    obtain ⟨i, tk, hi, hnd', hfr'⟩ := ho
    by_cases hit : i = t
    · subst hit
      rw [htkt] at hi; cases hi
      have hSS : S' = S := by
        rcases hfr' with ⟨d1, h'⟩ | ⟨d1, h'⟩ | ⟨d1, s1', h'⟩ | ⟨d1, s1', r1, h'⟩ <;> rw [hf0] at h' <;> simp at h'
        exact h'.2.symm
      subst hSS
      right
      intro m hm
      left
      intro d0 hd0
      exact ready_false_of_unset hp.sw hs.data hm hS hnosw d0 hd0
    · obtain ⟨tk1, h1, te⟩ := e.old i tk hi hit
      exact Or.inl ⟨i, tk1, by rw [getElem?_close (e.lt htkt), if_neg hit]; exact h1, te.nonDone hnd',
        by rw [te.frames]; exact hfr'⟩
  · intro ht0
    subst ht0
    obtain ⟨tk0, h0, hn0⟩ := hs.caller
    rw [h0] at htkt; cases htkt
    exact absurd hn0 hnc

theorem switchSelect_edge {P : Program} {s : St} {S : Node} {l : Label} {cn : Node} (h : switchSelect P s S = some (l, cn)) :
    ∃ e ∈ P.g.edges, e.u = cn ∧ e.v = S ∧ e.case = some l := by
  unfold switchSelect at h
  split at h
  · have := List.mem_of_getLast? h
    simp only [switchCases, List.mem_filter, List.mem_filterMap, beq_iff_eq] at this
    obtain ⟨⟨e, ⟨he, hv⟩, h2⟩, _⟩ := this
    split at h2
    · cases h2
    · cases hc : e.case with
      | none => rw [hc] at h2; cases h2
      | some l' =>
        rw [hc] at h2
        simp only [Option.map_some, Option.some.injEq, Prod.mk.injEq] at h2
        exact ⟨e, he, h2.2, hv, by rw [hc, h2.1]⟩
  · cases h

theorem setTask_self {s : St} {t : Nat} {tk : Task} (h : s.tasks[t]? = some tk) : s.setTask t tk = s := by
  obtain ⟨hlt, heq⟩ := List.getElem?_eq_some_iff.mp h
  unfold St.setTask
  have : s.tasks.set t tk = s.tasks := by rw [← heq]; exact List.set_getElem_self hlt
  rw [this]

/-- the readiness of a node that does not consume switch `S` does not depend on the decision of `S` -/
theorem ready_setSw_other {P : Program} (hsw : SwP P) (s : St) (S : Node) (lc : Label × Node) (d : DagRef)
    (hrec : d.isRec = false) (m : Node) (hm : S ∉ basePreds P m) : ready P (s.setSw S lc) d m = ready P s d m := by
  unfold ready
  rw [predsFor_eq hsw _ d hrec m, predsFor_eq hsw s d hrec m]
  have : (basePreds P m).map (resolveSw P (s.setSw S lc)) = (basePreds P m).map (resolveSw P s) := by
    apply List.map_congr_left
    intro p hp
    have hpS : p ≠ S := fun h => hm (h ▸ hp)
    have : (s.setSw S lc).sw p = s.sw p := by simp only [St.setSw, upd]; rw [if_neg hpS]
    simp only [resolveSw, this]
  rw [this]
  rfl
/-- `_run_switch` records its decision (the first half of the section; the task is still about to build its sub-DAG) -/
theorem struct_setSw {P : Program} {depth : Node → Nat} (hp : LiveP P depth) {s : St} (hs : Struct P depth s)
    {t : Nat} {tkt : Task} (htkt : s.tasks[t]? = some tkt) {d : DagRef} {S : Node} (hnm : tkt.name = .node S)
    (hS : P.g.isSwitch S = true) (hf0 : tkt.frames = [.switchStart d S]) (hno : d.isOneof = false)
    (hst : tkt.st = .runnable .go) {l : Label} {cn : Node} (hsel : switchSelect P s S = some (l, cn)) : Struct P depth (s.setSw S (l, cn)) := by
  have hd := hs.data
  have hnc : tkt.name ≠ .caller := by rw [hnm]; intro h; cases h
  have hold : ∀ lc', s.sw S = some lc' → lc' = (l, cn) := by
    intro lc' h
    have := hd.swSel S lc' h
    rw [hsel] at this; cases this; rfl
  have e : Ext t s (s.setSw S (l, cn)) := Ext.setSw s S (l, cn) hold
  have hnonew : ∀ (i : Nat) (tk : Task), s.tasks.length ≤ i → (s.setSw S (l, cn)).tasks[i]? = some tk → False := by
    intro i tk hi h
    have := getElem?_lt h
    simp only [St.setSw] at this
    omega
  have hmc : tkt.mustCancel = false := hd.noCancel tkt (List.mem_of_getElem? htkt)
  have htkt' : (s.setSw S (l, cn)).tasks[t]? = some tkt := htkt
  rw [← setTask_self htkt']
  obtain ⟨e0, he0, heu, hev, hcase⟩ := switchSelect_edge hsel
  refine Struct.close hs ⟨tkt, htkt, rfl⟩ e (len_ne_one hs htkt hnc) ?_ ?_ ?_ ?_ ?_ ?_ ?_ ?_
  · refine ⟨hd.noHid, hd.noRec, ?_, ?_, hd.c5, ?_, ?_, hd.c6, hd.procPlain, ?_, ?_, hd.stale⟩
    · intro n hn
      rcases hd.c1 n hn with h | h
      · exact Or.inl h
      · refine Or.inr (h.close e htkt ?_)
        intro d' f' pc hf' _
        rw [hf0] at hf'; simp at hf'
    · intro n hn
      rcases hd.c4 n hn with h | h
      · exact Or.inl h
      · exact Or.inr (taskErrors_close_mono e htkt ⟨_, hst⟩ h)
    · intro S' l' c' h
      simp only [St.setTask, St.setSw, upd] at h
      split at h
      · next hSS =>
        cases h
        subst hSS
        exact ⟨hp.casePlain e0 he0 (by rw [hcase]; rfl) ▸ (by rw [heu]), e0, he0, heu, hev⟩
      · exact hd.swEdge S' l' c' h
    · intro S' lc' h
      rw [show switchSelect P (St.setTask (s.setSw S (l, cn)) t tkt) S' = switchSelect P s S' from rfl]
      simp only [St.setTask, St.setSw, upd] at h
      split at h
      · next hSS => cases h; subst hSS; exact hsel
      · exact hd.swSel S' lc' h
    · refine uniq_close e hd htkt ?_ (fun i tk hi h => absurd h (fun h' => hnonew i tk hi h'))
      intro d1 q1 f1' pc1 hfr
      rw [hf0] at hfr; simp at hfr
    · exact noCancel_close e htkt hd.noCancel hmc (fun i tk hi h => absurd h (fun h' => hnonew i tk hi h'))
  · exact .swStart tkt d S hnm hS hf0 hno hst
  · intro q hl
    refine Launched.close e htkt rfl hl ?_
    intro d' hf'
    rw [hf0] at hf'; simp at hf'
  · intro he0' hr0
    refine Or.inl ⟨taskErrors_close_nil e htkt he0' ?_ (fun i tk hi h => absurd h (fun h' => hnonew i tk hi h')), hr0⟩
    intro x hx; rw [hst] at hx; cases hx
  · intro i tki d' m hit hi hrec hb hrd hold'
    by_cases hrd' : ready P s d' m = true
    · obtain ⟨S', hS', hSs, ho⟩ := hold' hrd'
      refine ⟨S', hS', hSs, ho.close e htkt ?_⟩
      intro hfr
      -- this task stays the owner of its switch
      refine ⟨t, tkt, by rw [getElem?_close (e.lt htkt), if_pos rfl], ?_, hfr⟩
      intro r hr; rw [hst] at hr; cases hr
    · -- `m` has become ready through the decision: it consumes `S`, whose task is this one
      have hm : S ∈ basePreds P m := by
        apply Classical.byContradiction
        intro hn
        rw [ready_setSw_other hp.sw s S (l, cn) d' hrec m hn] at hrd
        exact hrd' hrd
      refine ⟨S, hm, hS, t, tkt, by rw [getElem?_close (e.lt htkt), if_pos rfl], ?_, Or.inl ⟨d, hf0⟩⟩
      intro r hr; rw [hst] at hr; cases hr
  · intro i tk d' q' pc hit hi hf hp1 hp2 hn
    exact hn
  · intro ht0
    subst ht0
    obtain ⟨tk0, h0, hn0⟩ := hs.caller
    rw [h0] at htkt; cases htkt
    exact absurd hn0 hnc
  · intro i tk hi h
    exact absurd h (fun h' => hnonew i tk hi h')

/-! ### the launch-order oracle -/


theorem obs_endTask (c : Ctx) (s : St) (obs : List Obs) (r : TaskRes) : ∀ o ∈ obs, o ∈ (endTask c s obs r).2 := by
  intro o ho; unfold endTask; split
  · exact ho
  · exact List.mem_append_left _ ho

theorem obs_block (c : Ctx) (s : St) (obs : List Obs) (fs : List Frame) (w : Wait) : ∀ o ∈ obs, o ∈ (block c s obs fs w).2 := by
  intro o ho; unfold block; split <;> exact ho

theorem obs_retTo (c : Ctx) (s : St) (obs : List Obs) (below : List Frame) (v : Val) : ∀ o ∈ obs, o ∈ (retTo c s obs below v).2 := by
  intro o ho; unfold retTo; split
  · exact obs_endTask c s obs .ok o ho
  · split <;> exact ho

theorem obs_dagWaitDest (c : Ctx) (s : St) (obs : List Obs) (d : DagRef) (below : List Frame) :
    ∀ o ∈ obs, o ∈ (dagWaitDest c s obs d below).2 := by
  intro o ho; unfold dagWaitDest; split
  · split
    · exact obs_retTo _ _ _ _ _ o ho
    · exact obs_block _ _ _ _ _ o ho
  · exact obs_block _ _ _ _ _ o ho

theorem obs_dagLaunch (c : Ctx) (d : DagRef) (below : List Frame) : ∀ (rest : List Node) (s : St) (obs : List Obs),
    ∀ o ∈ obs, o ∈ (dagLaunch c d below s obs rest).2 := by
  intro rest
  induction rest with
  | nil => intro s obs o ho; simp only [dagLaunch]; exact obs_dagWaitDest _ _ _ _ _ o ho
  | cons n rest ih =>
    intro s obs o ho
    simp only [dagLaunch]
    split
    · split
      · exact obs_retTo _ _ _ _ _ o ho
      · exact ih _ _ o (List.mem_append_left _ ho)
    · exact obs_block _ _ _ _ _ o ho

/-- a section that enters `_run_dag` and reports no inadmissible launch order got an admissible one -/
theorem valid_of_dagInit (c : Ctx) (s : St) (obs : List Obs) (d : DagRef) (below : List Frame) (hst : s.stale = [])
    (h : Obs.badOracle ∉ (dagInit c s obs d below).2) : validOrder c.P s d c.ord = true := by
  cases hv : validOrder c.P s d c.ord with
  | true => rfl
  | false =>
    exfalso
    apply h
    unfold dagInit
    simp only [refresh_of_nil hst, hv, Bool.false_eq_true, if_false]
    split
    · exact obs_retTo _ _ _ _ _ _ (by simp)
    · exact obs_dagLaunch _ _ _ _ _ _ _ (by simp)


theorem reducedRef_flags {P : Program} {s : St} {src dst : Node} {nst : Bool} {d : DagRef}
    (h : reducedRef P s src dst false false nst = some d) : d.isRec = false ∧ d.isOneof = false := by
  unfold reducedRef at h
  simp only [] at h
  split at h
  · cases h; exact ⟨rfl, rfl⟩
  · split at h
    · cases h
    · cases h; exact ⟨rfl, rfl⟩

/-- **`_run_switch` starts**: it records the decision and enters the `_run_dag` of the selected case, or fails because no
case matches the label -/
theorem struct_switchStart {P : Program} {depth : Node → Nat} (hp : LiveP P depth) (c : Ctx) (hcP : c.P = P) {s : St}
    (hs : Struct P depth s) {tkt : Task} (htkt : s.tasks[c.t]? = some tkt) {d : DagRef} {S : Node}
    (hnm : tkt.name = .node S) (hS : P.g.isSwitch S = true) (hf0 : tkt.frames = [.switchStart d S])
    (hno : d.isOneof = false) (hst : tkt.st = .runnable .go) (obs : List Obs)
    (hv : Obs.badOracle ∉ (switchStart c s obs d S []).2) : Struct P depth (switchStart c s obs d S []).1 := by
  have hmc : tkt.mustCancel = false := hs.data.noCancel tkt (List.mem_of_getElem? htkt)
  unfold switchStart at hv ⊢
  rw [hcP] at hv ⊢
  cases hsel : switchSelect P s S with
  | none =>
    simp only [hsel, hno, Bool.false_eq_true, if_false] at hv ⊢
    unfold raiseOut
    simp only [unwindFrames]
    have hself : (notify s .run).tasks[c.t]? = some tkt := by
      rw [(Ext.notify (t := c.t) .run (fun tk0 h => by rw [htkt] at h; cases h; exact ⟨_, hst⟩)).self]; exact htkt
    rw [endTask_eq c _ obs _ hself]
    exact struct_switch_nocase hp hs htkt hnm hS hf0 ⟨_, hst⟩ hsel _ _ rfl rfl rfl rfl
  | some lc =>
    obtain ⟨l, cn⟩ := lc
    simp only [hsel, openCand, hno, Bool.false_eq_true, if_false] at hv ⊢
    have hs2 := struct_setSw hp hs htkt hnm hS hf0 hno hst hsel
    obtain ⟨e0, he0, heu, hev, hcase⟩ := switchSelect_edge hsel
    obtain ⟨sub, hsub, hdst, hcn, hclosed, hdepth⟩ :=
      hp.dagsOK (s.setSw S (l, cn)) cn d.isNested (Or.inr ⟨e0, he0, heu, by rw [hcase]; rfl⟩)
    obtain ⟨hf1, hf2⟩ := reducedRef_flags hsub
    simp only [hsub] at hv ⊢
    have hdag : DagOK P sub := ⟨hf1, hf2, hclosed⟩
    have x : LBase P depth (s.setSw S (l, cn)) (s.setSw S (l, cn)) c.t tkt sub [.switchRet d S] :=
      { hs := hs2, htkt := htkt, hrt := ⟨_, hst⟩,
        role := .sw d S hnm hS ⟨hdag, l, cn, by simp [St.setSw], hdst, hcn, hdepth⟩,
        dag := hdag,
        notNode := by intro d0 n f pc h; rw [hf0] at h; simp at h,
        oldSw := by
          intro d' S' hb
          simp only [List.cons.injEq, Frame.switchRet.injEq, and_true] at hb
          exact Or.inl ⟨d, by rw [hf0, hb.2]⟩
        oldMain := by intro h; cases h
        e := Ext.refl _ _, res := rfl, rh := rfl, ph := rfl, sw := rfl, ev := rfl, proc := rfl,
        fresh := by
          intro i tk hi h
          have := getElem?_lt h
          omega }
    exact struct_dagInit hp c hcP hmc x obs (valid_of_dagInit c _ obs sub _ hs.data.stale hv)

/-- **the main `_run_dag` starts** -/
theorem struct_main_dagInit {P : Program} {depth : Node → Nat} (hp : LiveP P depth) (c : Ctx) (hcP : c.P = P) {s : St}
    (hs : Struct P depth s) {tkt : Task} (htkt : s.tasks[c.t]? = some tkt) {d : DagRef} (hnm : tkt.name = .run)
    (hf0 : tkt.frames = [.dagInit d]) (hrt : ∃ rv, tkt.st = .runnable rv) (hdag : DagOK P d)
    (hdst : d.dest = some P.g.output) (hout : P.g.output ∈ d.nodes) (obs : List Obs)
    (hv : Obs.badOracle ∉ (dagInit c s obs d []).2) : Struct P depth (dagInit c s obs d []).1 := by
  have hmc : tkt.mustCancel = false := hs.data.noCancel tkt (List.mem_of_getElem? htkt)
  have x : LBase P depth s s c.t tkt d [] :=
    { hs := hs, htkt := htkt, hrt := hrt, role := .main hnm hdst hout, dag := hdag,
      notNode := by intro d0 n f pc h; rw [hf0] at h; simp at h,
      oldSw := by intro d' S' hb; cases hb
      oldMain := fun _ => Or.inl ⟨d, hf0⟩
      e := Ext.refl _ _, res := rfl, rh := rfl, ph := rfl, sw := rfl, ev := rfl, proc := rfl,
      fresh := by
        intro i tk hi h
        have := getElem?_lt h
        omega }
  exact struct_dagInit hp c hcP hmc x obs (valid_of_dagInit c _ obs d _ hs.data.stale hv)


/-! ### the sections of `_run_dag`, from the task's frames -/

/-- the frames of `_run_dag` -/
def Frame.isDag : Frame → Bool
  | .dagInit _ => true
  | .dagLaunch _ _ => true
  | .dagWaitDest _ => true
  | _ => false

set_option linter.unusedSimpArgs false in
/-- what `TaskOK` says about a task whose top frame belongs to `_run_dag` -/
theorem dagTask_facts {P : Program} {depth : Node → Nat} {s : St} {tk : Task} (h : TaskOK P depth s tk)
    {F : Frame} {below : List Frame} (hf : tk.frames = F :: below) (hF : F.isDag = true) :
    ∃ d, DagFrame P s F d ∧ DagOK P d ∧ LaunchSt P s tk F ∧
      ((below = [] ∧ tk.name = .run ∧ d.dest = some P.g.output ∧ P.g.output ∈ d.nodes) ∨
       (∃ d' S, below = [.switchRet d' S] ∧ P.g.isSwitch S = true ∧ tk.name = .node S ∧ SubOK' P depth s d S)) := by
  cases h
  case main F' d0 hn hfr hdf hdag hdest hout hst =>
    rw [hfr] at hf
    simp only [List.cons.injEq] at hf
    obtain ⟨hF', hb⟩ := hf
    subst hF'
    exact ⟨d0, hdf, hdag, hst, Or.inl ⟨hb.symm, hn, hdest, hout⟩⟩
  case swIn F' sub d0 S0 hn hsS hfr hdf hsub hst =>
    rw [hfr] at hf
    simp only [List.cons.injEq] at hf
    obtain ⟨hF', hb⟩ := hf
    subst hF'
    exact ⟨sub, hdf, hsub.dag, hst, Or.inr ⟨d0, S0, hb.symm, hsS, hn, hsub⟩⟩
  all_goals (exfalso; simp_all only [List.cons.injEq, reduceCtorEq, false_and, List.nil_eq, List.cons_ne_nil]; try (obtain ⟨hF1, _⟩ := hf; subst hF1; simp [Frame.isDag] at hF))

/-- the launcher context at the beginning of a section of a task whose top frame belongs to `_run_dag` -/
theorem lbase_of_dagTask {P : Program} {depth : Node → Nat} {s : St} (hs : Struct P depth s) {t : Nat} {tkt : Task}
    (htkt : s.tasks[t]? = some tkt) (hrt : ∃ rv, tkt.st = .runnable rv) {F : Frame} {below : List Frame}
    (hf0 : tkt.frames = F :: below) (hF : F.isDag = true) :
    ∃ d, DagFrame P s F d ∧ LBase P depth s s t tkt d below := by
  obtain ⟨d, hdf, hdag, _, hrole⟩ := dagTask_facts (hs.tasks t tkt htkt) hf0 hF
  refine ⟨d, hdf, ?_⟩
  have hfresh : ∀ (i : Nat) (tk : Task), s.tasks.length ≤ i → s.tasks[i]? = some tk → FreshTask P tk := by
    intro i tk hi h
    have := getElem?_lt h
    omega
  have hnn : ∀ d0 n f pc, tkt.frames ≠ [.node d0 n f pc] := by
    intro d0 n f pc h
    rw [hf0] at h
    simp only [List.cons.injEq] at h
    rw [h.1] at hF; simp [Frame.isDag] at hF
  rcases hrole with ⟨hb, hn, hdst, hout⟩ | ⟨d', S, hb, hS, hn, hsub⟩
  · subst hb
    refine { hs := hs, htkt := htkt, hrt := hrt, role := .main hn hdst hout, dag := hdag, notNode := hnn,
             oldSw := by intro d' S' hb; cases hb
             oldMain := ?_, e := Ext.refl _ _, res := rfl, rh := rfl, ph := rfl, sw := rfl, ev := rfl, proc := rfl,
             fresh := hfresh }
    intro _
    cases hdf with
    | init => exact Or.inl ⟨_, hf0⟩
    | launch _ m r _ _ _ => exact Or.inr (Or.inl ⟨_, _, hf0⟩)
    | wait _ _ => exact Or.inr (Or.inr ⟨_, hf0⟩)
  · subst hb
    refine { hs := hs, htkt := htkt, hrt := hrt, role := .sw d' S hn hS hsub, dag := hdag, notNode := hnn,
             oldSw := ?_, oldMain := by intro h; cases h
             e := Ext.refl _ _, res := rfl, rh := rfl, ph := rfl, sw := rfl, ev := rfl, proc := rfl,
             fresh := hfresh }
    intro d'' S' hb
    simp only [List.cons.injEq, Frame.switchRet.injEq, and_true] at hb
    obtain ⟨hd', hSS⟩ := hb
    subst hd' hSS
    cases hdf with
    | init => exact Or.inr (Or.inr (Or.inr ⟨_, _, hf0⟩))
    | launch _ m r _ _ _ => exact Or.inr (Or.inl ⟨_, _, _, hf0⟩)
    | wait _ _ => exact Or.inr (Or.inr (Or.inl ⟨_, _, hf0⟩))

/-- **a launch loop goes on** after its condition has been notified -/
theorem struct_launch_resume {P : Program} {depth : Node → Nat} (hp : LiveP P depth) (c : Ctx) (hcP : c.P = P) {s : St}
    (hs : Struct P depth s) {tkt : Task} (htkt : s.tasks[c.t]? = some tkt) (hrt : ∃ rv, tkt.st = .runnable rv)
    {d : DagRef} {rest : List Node} {below : List Frame} (hf0 : tkt.frames = .dagLaunch d rest :: below) (obs : List Obs) :
    Struct P depth (dagLaunch c d below s obs rest).1 := by
  have hmc : tkt.mustCancel = false := hs.data.noCancel tkt (List.mem_of_getElem? htkt)
  obtain ⟨d1, hdf, x⟩ := lbase_of_dagTask hs htkt hrt hf0 rfl
  cases hdf with
  | launch _ m r hpass hsub htopo =>
    exact struct_dagLaunch hp c hcP hmc _ _ _ { toLBase := x, passed := hpass, sub := hsub, topo := htopo }

/-- **the final wait of `_run_dag`** is woken -/
theorem struct_wait_resume {P : Program} {depth : Node → Nat} (hp : LiveP P depth) (c : Ctx) (hcP : c.P = P) {s : St}
    (hs : Struct P depth s) {tkt : Task} (htkt : s.tasks[c.t]? = some tkt) (hrt : ∃ rv, tkt.st = .runnable rv)
    {d : DagRef} {below : List Frame} (hf0 : tkt.frames = .dagWaitDest d :: below) (obs : List Obs) :
    Struct P depth (dagWaitDest c s obs d below).1 := by
  have hmc : tkt.mustCancel = false := hs.data.noCancel tkt (List.mem_of_getElem? htkt)
  obtain ⟨d1, hdf, x⟩ := lbase_of_dagTask hs htkt hrt hf0 rfl
  cases hdf with
  | wait _ hall =>
    have := struct_dagLaunch hp c hcP hmc [] s obs
      { toLBase := x, passed := fun q hq _ => hall q hq, sub := (by intro q hq; cases hq),
        topo := (by intro pre m post h; simp at h) }
    simpa only [dagLaunch] using this

/-- **a `_run_dag` starts in a task of its own** (the main one; a `_run_switch` enters its sub-DAG in the section that
records the decision) -/
theorem struct_dagInit_task {P : Program} {depth : Node → Nat} (hp : LiveP P depth) (c : Ctx) (hcP : c.P = P) {s : St}
    (hs : Struct P depth s) {tkt : Task} (htkt : s.tasks[c.t]? = some tkt) (hrt : ∃ rv, tkt.st = .runnable rv)
    {d : DagRef} {below : List Frame} (hf0 : tkt.frames = .dagInit d :: below) (obs : List Obs)
    (hv : Obs.badOracle ∉ (dagInit c s obs d below).2) : Struct P depth (dagInit c s obs d below).1 := by
  have hmc : tkt.mustCancel = false := hs.data.noCancel tkt (List.mem_of_getElem? htkt)
  obtain ⟨d1, hdf, x⟩ := lbase_of_dagTask hs htkt hrt hf0 rfl
  cases hdf with
  | init => exact struct_dagInit hp c hcP hmc x obs (valid_of_dagInit c _ obs d _ hs.data.stale hv)


/-! ### the sections of `_run_node` -/

/-- a section of the node task `c.t` of `q`, begun in state `s` at `pc0`; `s1` is `s`, or `s` with `q` just marked as
processed -/
structure NCtx (P : Program) (depth : Node → Nat) (c : Ctx) (s s1 : St) (tkt : Task) (d : DagRef) (q : Node)
    (pc0 : NodePc) : Prop where
  hp   : LiveP P depth
  hcP  : c.P = P
  hs   : Struct P depth s
  htkt : s.tasks[c.t]? = some tkt
  hnm  : tkt.name = .node q
  hns  : P.g.isSwitch q = false
  hf0  : tkt.frames = [.node d q false pc0]
  hrt  : ∃ rv, tkt.st = .runnable rv
  st   : (s1 = s ∧ pc0.exec = true ∧ s.proc q = true ∧ s.res q = none) ∨
         (s1 = s.markProcessed q ∧ pc0 = .start ∧ s.procExists q = false)

theorem NCtx.hmc {P : Program} {depth : Node → Nat} {c : Ctx} {s s1 : St} {tkt : Task} {d : DagRef} {q : Node} {pc0 : NodePc}
    (x : NCtx P depth c s s1 tkt d q pc0) : tkt.mustCancel = false :=
  x.hs.data.noCancel tkt (List.mem_of_getElem? x.htkt)

theorem NCtx.resNone {P : Program} {depth : Node → Nat} {c : Ctx} {s s1 : St} {tkt : Task} {d : DagRef} {q : Node}
    {pc0 : NodePc} (x : NCtx P depth c s s1 tkt d q pc0) : s.res q = none := by
  rcases x.st with ⟨_, _, _, h⟩ | ⟨_, _, h⟩
  · exact h
  · cases hr : s.res q with
    | none => rfl
    | some v =>
      have := x.hs.data.c6 q (by rw [hr]; rfl)
      simp [St.procExists, this, (x.hs.data.noHid q).2] at h

/-- the node task blocks on its body or its retry timer, or yields before the next attempt -/
theorem NCtx.exec {P : Program} {depth : Node → Nat} {c : Ctx} {s s1 : St} {tkt : Task} {d : DagRef} {q : Node} {pc0 : NodePc}
    (x : NCtx P depth c s s1 tkt d q pc0) (pc' : NodePc) (hpc' : pc'.exec = true) (hrs' : pc'.rests = true) (st' : TaskSt)
    (hlive : ({ tkt with frames := [.node d q false pc'], st := st' } : Task).live) :
    Struct P depth (s1.setTask c.t { tkt with frames := [.node d q false pc'], st := st' }) :=
  struct_node_exec x.hs x.htkt x.hnm x.hns x.hf0 x.hrt x.hmc x.st hpc' hrs' st' hlive

/-- the node task leaves `_run_node`, with or without having stored a result -/
theorem NCtx.done {P : Program} {depth : Node → Nat} {c : Ctx} {s s1 : St} {tkt : Task} {d : DagRef} {q : Node} {pc0 : NodePc}
    (x : NCtx P depth c s s1 tkt d q pc0) (s0 : St) (hs0 : s0 = s1 ∨ ∃ v, s0 = s1.setRes q v ∧ v.isRecur = false)
    (r : TaskRes) (hr : (∃ e, r = .exc e) ∨ (r = .ok ∧ (s0.res q).isSome = true)) (obs : List Obs) :
    Struct P depth (endTask c (nodeFinally P s0 d q true) obs r).1 := by
  have hd := x.hs.data
  have hnone := x.resNone
  -- `s1` against `s`
  have b1 : s1.tasks = s.tasks ∧ s1.sw = s.sw ∧ s1.evSet = s.evSet ∧ s1.resHid = s.resHid ∧ s1.res = s.res ∧
      (∀ n, s1.procHid n = false) ∧ s1.proc q = true ∧ (∀ n, s1.proc n = true → n = q ∨ s.proc n = true) ∧
      (∀ n, s.proc n = true → s1.proc n = true) := by
    rcases x.st with ⟨h, _, hp, _⟩ | ⟨h, _, _⟩
    · subst h
      exact ⟨rfl, rfl, rfl, rfl, rfl, fun n => (hd.noHid n).2, hp, fun n h => Or.inr h, fun n h => h⟩
    · subst h
      refine ⟨rfl, rfl, rfl, rfl, rfl, ?_, by simp [St.markProcessed, upd], ?_, ?_⟩
      · intro n; simp only [St.markProcessed, upd]; split
        · rfl
        · exact (hd.noHid n).2
      · intro n hn; simp only [St.markProcessed, upd] at hn; split at hn
        · next h => exact Or.inl h
        · exact Or.inr hn
      · intro n hn; simp only [St.markProcessed, upd]; split
        · rfl
        · exact hn
  obtain ⟨t1, t2, t3, t4, t5, t6, t7, t8, t9⟩ := b1
  have tst : s1.stale = s.stale := by
    rcases x.st with ⟨h, _⟩ | ⟨h, _⟩ <;> rw [h] <;> rfl
  have hex : pc0.exec = true ∨ s.procExists q = false := by
    rcases x.st with ⟨_, h, _⟩ | ⟨_, _, h⟩
    · exact Or.inl h
    · exact Or.inr h
  have hself : (nodeFinally P s0 d q true).tasks[c.t]? = some tkt := by
    have h0 : s0.tasks = s.tasks := by
      rcases hs0 with h | ⟨v, h, _⟩ <;> rw [h]
      · exact t1
      · exact t1
    have e1 : Ext c.t s0 (nodeFinally P s0 d q true) := Ext.nodeFinally d q (by
      intro tk0 h; rw [h0, x.htkt] at h; cases h; exact x.hrt)
    rw [e1.self, h0]; exact x.htkt
  rw [endTask_eq c _ obs r hself]
  rcases hs0 with h | ⟨v, h, hv⟩
  · subst h
    refine struct_node_done x.hp x.hs x.htkt x.hnm x.hns x.hf0 x.hrt t1 tst t2 t3 t4 t6 t7 t8 t9 (fun n _ => by rw [t5])
      (Or.inl (by rw [t5])) r ?_
    rcases hr with h | ⟨h1, h2⟩
    · exact Or.inl h
    · exact Or.inr ⟨h1, Or.inl h2⟩
  · subst h
    refine struct_node_done (s0 := s1.setRes q v) x.hp x.hs x.htkt x.hnm x.hns x.hf0 x.hrt t1 tst t2 t3 ?_ t6 t7 t8 t9 ?_ ?_ r ?_
    · funext n
      simp only [St.setRes, upd]
      split
      · next h => rw [h]; exact ((hd.noHid q).1).symm
      · rw [t4]
    · intro n hn
      simp only [St.setRes, upd]
      rw [if_neg hn, t5]
    · exact Or.inr ⟨v, by simp [St.setRes, upd], hv, hnone, hex⟩
    · rcases hr with h | ⟨h1, h2⟩
      · exact Or.inl h
      · exact Or.inr ⟨h1, Or.inl h2⟩

theorem cbCall_noYield (c : Ctx) (hy : ∀ cb n, c.P.cbYield cb n = 0) (cb : Cb) (n : Node) (s : St) (obs : List Obs)
    (fr : Nat → List Frame) (kOk : St → List Obs → Out) (kErr : Exc → St → List Obs → Out) :
    cbCall c cb n s obs fr kOk kErr = (match c.P.cbRaise cb n with | some e => kErr e s obs | none => kOk s obs) := by
  unfold cbCall
  cases c.P.cbRaise cb n with
  | some e => rfl
  | none => simp only [hy, cbThen]

section
variable {P : Program} {depth : Node → Nat} {c : Ctx} {s s1 : St} {tkt : Task} {d : DagRef} {q : Node} {pc0 : NodePc}

theorem NCtx.self1 (x : NCtx P depth c s s1 tkt d q pc0) : s1.tasks[c.t]? = some tkt := by
  rcases x.st with ⟨h, _⟩ | ⟨h, _⟩ <;> rw [h] <;> exact x.htkt

theorem NCtx.noYield (x : NCtx P depth c s s1 tkt d q pc0) : ∀ cb n, c.P.cbYield cb n = 0 := by
  rw [x.hcP]; exact x.hp.noYield

/-- an exception leaves `_run_node` -/
theorem NCtx.raise (x : NCtx P depth c s s1 tkt d q pc0) (s0 : St)
    (hs0 : s0 = s1 ∨ ∃ v, s0 = s1.setRes q v ∧ v.isRecur = false) (e : Exc) (obs : List Obs) :
    Struct P depth (raiseOut c (nodeFinally c.P s0 d q true) obs [] (.exc e)).1 := by
  unfold raiseOut
  simp only [unwindFrames]
  rw [x.hcP]
  exact x.done s0 hs0 (.exc e) (Or.inl ⟨e, rfl⟩) obs

theorem NCtx.cbRaise (x : NCtx P depth c s s1 tkt d q pc0) (s0 : St)
    (hs0 : s0 = s1 ∨ ∃ v, s0 = s1.setRes q v ∧ v.isRecur = false) (e : Exc) (obs : List Obs) :
    Struct P depth (nodeCbRaise c s0 obs d q [] e).1 := x.raise s0 hs0 e obs

theorem NCtx.cbRaiseInTry (x : NCtx P depth c s s1 tkt d q pc0) (e : Exc) (obs : List Obs) :
    Struct P depth (nodeCbRaiseInTry c s1 obs d q [] e).1 := x.raise s1 (Or.inl rfl) e _

/-- `_run_node` returns after the `finally` -/
theorem NCtx.finish (x : NCtx P depth c s s1 tkt d q pc0) (v : Val) (hv : v.isRecur = false) (obs : List Obs) :
    Struct P depth (retTo c (nodeFinally c.P (s1.setRes q v) d q true) obs [] .none).1 := by
  unfold retTo
  simp only []
  rw [x.hcP]
  exact x.done _ (Or.inr ⟨v, rfl, hv⟩) .ok (Or.inr ⟨rfl, by simp [St.setRes, upd]⟩) obs

/-- the executing task stores the result, saves it, announces it -/
theorem NCtx.post (x : NCtx P depth c s s1 tkt d q pc0) (v : Val) (hv : v.isRecur = false) (obs : List Obs) :
    Struct P depth (nodePost c s1 obs d q [] v true).1 := by
  unfold nodePost
  simp only [hv, Bool.false_eq_true, if_false, recSpawn, recSpawns, storeIf, if_true, Bool.not_false, Bool.true_and]
  split
  · rw [cbCall_noYield c x.noYield]
    split
    · exact x.cbRaise _ (Or.inr ⟨v, rfl, hv⟩) _ _
    · exact x.finish v hv _
  · exact x.finish v hv _

theorem NCtx.failCont (x : NCtx P depth c s s1 tkt d q pc0) (e : Exc) (obs : List Obs) :
    Struct P depth (nodeFailCont c s1 obs d q [] e).1 := by
  unfold nodeFailCont
  split
  · exact x.post (.exc e) rfl obs
  · exact x.raise s1 (Or.inl rfl) e obs

theorem NCtx.fail (x : NCtx P depth c s s1 tkt d q pc0) (e : Exc) (obs : List Obs) :
    Struct P depth (nodeFail c s1 obs d q [] e).1 := by
  unfold nodeFail
  rw [cbCall_noYield c x.noYield]
  split
  · exact x.cbRaise s1 (Or.inl rfl) _ _
  · exact x.failCont e _

theorem NCtx.success (x : NCtx P depth c s s1 tkt d q pc0) (v : Val) (hv : v.isRecur = false) (obs : List Obs) :
    Struct P depth (nodeSuccess c s1 obs d q [] v).1 := by
  unfold nodeSuccess
  rw [cbCall_noYield c x.noYield]
  split
  · exact x.cbRaiseInTry _ _
  · exact x.post v hv _

theorem NCtx.dflt (x : NCtx P depth c s s1 tkt d q pc0) (kw : Kwargs) (obs : List Obs) :
    Struct P depth (nodeDefault c s1 obs d q [] kw).1 := by
  rw [nodeDefault_of_none _ _ _ _ _ _ _ (by rw [x.hcP]; exact x.hp.sw.dfltOk _)]
  refine x.success _ ?_ _
  rw [x.hcP]
  exact (x.hp.sw.noRecurD q kw).1

theorem NCtx.sleep (x : NCtx P depth c s s1 tkt d q pc0) (k : Nat) (kw : Kwargs) (inv : Nat) (obs : List Obs) :
    Struct P depth (nodeSleep c s1 obs d q false [] k kw inv).1 := by
  unfold nodeSleep
  simp only []
  split
  · rw [block_eq c s1 _ _ _ x.self1]
    exact x.exec (.sleep k kw inv) rfl rfl _ (Or.inr (Or.inr ⟨_, _, _, _, rfl⟩))
  · rw [yieldNow_eq c s1 _ _ x.self1]
    exact x.exec (.sleep k kw inv) rfl rfl _ (Or.inl ⟨_, rfl⟩)

theorem NCtx.afterBody (x : NCtx P depth c s s1 tkt d q pc0) (k : Nat) (kw : Kwargs) (inv : Nat) (obs : List Obs) :
    Struct P depth (nodeAfterBody c s1 obs d q false [] k kw inv (c.P.body q kw inv k)).1 := by
  unfold nodeAfterBody
  simp only []
  split
  · next v hb =>
    refine x.success v ?_ obs
    have := x.hp.sw.noRecur q kw inv k v (by rw [← x.hcP]; exact hb)
    exact this.1
  · next e hb =>
    split
    · split
      · split
        · exact x.dflt kw obs
        · exact x.fail e obs
      · rw [cbCall_noYield c x.noYield]
        split
        · exact x.cbRaiseInTry _ _
        · exact x.sleep k kw inv _
    · split
      · split
        · exact x.dflt kw obs
        · exact x.fail e obs
      · exact x.raise s1 (Or.inl rfl) e obs

theorem NCtx.attempt (x : NCtx P depth c s s1 tkt d q pc0) (k : Nat) (kw : Kwargs) (inv : Nat) (obs : List Obs) :
    Struct P depth (nodeAttempt c s1 obs d q false [] k kw inv).1 := by
  unfold nodeAttempt
  simp only [Bool.false_eq_true, if_false]
  split
  · exact x.afterBody k kw inv _
  · rw [block_eq c s1 _ _ _ x.self1]
    exact x.exec (.body k kw inv) rfl rfl _ (Or.inr (Or.inl ⟨_, _, _, _, rfl⟩))

theorem NCtx.begin (x : NCtx P depth c s s1 tkt d q pc0) (inv : Nat) (obs : List Obs) :
    Struct P depth (nodeBegin c s1 obs d q false [] inv).1 := by
  unfold nodeBegin
  split
  · exact x.fail _ obs
  · exact x.attempt 1 _ inv obs
end

/-- a node task finds its node done by somebody else (at once, or after waiting for the node's event): it announces the
node again and returns -/
theorem struct_node_read {P : Program} {depth : Node → Nat} (hp : LiveP P depth) (c : Ctx) (hcP : c.P = P) {s : St}
    (hs : Struct P depth s) {tkt : Task} (htkt : s.tasks[c.t]? = some tkt) {d : DagRef} {q : Node} {pc0 : NodePc}
    (hnm : tkt.name = .node q) (hns : P.g.isSwitch q = false) (hf0 : tkt.frames = [.node d q false pc0])
    (hrt : ∃ rv, tkt.st = .runnable rv) (hpq : s.proc q = true) (hev : s.evSet q = true) (obs : List Obs) :
    Struct P depth (nodePost c s obs d q [] (s.get q) false).1 := by
  have hd := hs.data
  have hv : (s.get q).isRecur = false := by
    unfold St.get
    split
    · rfl
    · cases hr : s.res q with
      | none => rfl
      | some v => exact hd.noRec q v hr
  unfold nodePost
  simp only [hv, Bool.false_eq_true, if_false, recSpawn, recSpawns, storeIf, Bool.false_and, Bool.not_false]
  unfold retTo
  simp only []
  have hself : (nodeFinally c.P s d q true).tasks[c.t]? = some tkt := by
    have e1 : Ext c.t s (nodeFinally c.P s d q true) := Ext.nodeFinally d q (by
      intro tk0 h; rw [htkt] at h; cases h; exact hrt)
    rw [e1.self]; exact htkt
  rw [endTask_eq c _ obs _ hself, hcP]
  exact struct_node_done hp hs htkt hnm hns hf0 hrt rfl rfl rfl rfl rfl (fun n => (hd.noHid n).2) hpq (fun n h => Or.inr h)
    (fun n h => h) (fun n _ => rfl) (Or.inl rfl) .ok (Or.inr ⟨rfl, Or.inr hev⟩)

/-- **`_run_node` starts** -/
theorem struct_nodeStart {P : Program} {depth : Node → Nat} (hp : LiveP P depth) (c : Ctx) (hcP : c.P = P) {s : St}
    (hs : Struct P depth s) {tkt : Task} (htkt : s.tasks[c.t]? = some tkt) {d : DagRef} {q : Node}
    (hnm : tkt.name = .node q) (hns : P.g.isSwitch q = false) (hf0 : tkt.frames = [.node d q false .start])
    (hrt : ∃ rv, tkt.st = .runnable rv) (obs : List Obs) :
    Struct P depth (nodeStart c s obs d q false []).1 := by
  have hmc : tkt.mustCancel = false := hs.data.noCancel tkt (List.mem_of_getElem? htkt)
  unfold nodeStart
  split
  · next hpe =>
    have hpq : s.proc q = true := by simp only [St.procExists, Bool.and_eq_true] at hpe; exact hpe.1
    split
    · next hev => exact struct_node_read hp c hcP hs htkt hnm hns hf0 hrt hpq hev obs
    · rw [block_eq c s _ _ _ htkt]
      exact struct_node_wait hs htkt hnm hns hf0 hrt hmc hpe
  · next hpe =>
    have x : NCtx P depth c s (s.markProcessed q) tkt d q .start :=
      ⟨hp, hcP, hs, htkt, hnm, hns, hf0, hrt, Or.inr ⟨rfl, rfl, by simpa using hpe⟩⟩
    simp only []
    rw [cbCall_noYield c x.noYield]
    split
    · exact x.cbRaise _ (Or.inl rfl) _ _
    · exact x.begin _ _

end MLPE.Eng

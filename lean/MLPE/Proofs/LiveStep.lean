import MLPE.Proofs.Live

/-!
# Every step of a pending run preserves the liveness invariant (`Struct`)
-/
namespace MLPE.Eng
open MLPE

/-! ### growth of the state while one task runs a section -/

/-- how a wait may end by somebody else's notification -/
def Woke (s' : St) : Wait → Prop
  | .event q => s'.evSet q = true
  | .cond _ => True
  | _ => False

/-- `tk'` is `tk` after notifications sent by somebody else -/
structure TaskExt (s' : St) (tk tk' : Task) : Prop where
  frames : tk'.frames = tk.frames
  name   : tk'.name = tk.name
  cancel : tk'.mustCancel = tk.mustCancel
  st     : tk'.st = tk.st ∨ ∃ w, tk.st = .blocked w ∧ tk'.st = .runnable .go ∧ Woke s' w

/-- what a section of task `t` may do to the rest of the state before it installs its own new frames: the other tasks
are woken at most, tasks are appended, storage only grows -/
structure Ext (t : Nat) (s s' : St) : Prop where
  old  : ∀ (i : Nat) (tk : Task), s.tasks[i]? = some tk → i ≠ t → ∃ tk', s'.tasks[i]? = some tk' ∧ TaskExt s' tk tk'
  self : s'.tasks[t]? = s.tasks[t]?
  res  : ∀ n v, s.res n = some v → s'.res n = some v
  sw   : ∀ S lc, s.sw S = some lc → s'.sw S = some lc
  proc : ∀ n, s.proc n = true → s'.proc n = true
  ev   : ∀ n, s.evSet n = true → s'.evSet n = true

theorem TaskExt.refl (s' : St) (tk : Task) : TaskExt s' tk tk := ⟨rfl, rfl, rfl, Or.inl rfl⟩

theorem Ext.refl (t : Nat) (s : St) : Ext t s s :=
  ⟨fun i tk h _ => ⟨tk, h, TaskExt.refl s tk⟩, rfl, fun _ _ h => h, fun _ _ h => h, fun _ h => h, fun _ h => h⟩

theorem Woke.mono {s s' : St} (hev : ∀ n, s.evSet n = true → s'.evSet n = true) {w : Wait} (h : Woke s w) : Woke s' w := by
  cases w with
  | event q => exact hev q h
  | cond k => trivial
  | gate n i a o => exact h
  | sleep n i a d => exact h

theorem Ext.trans {t : Nat} {a b c : St} (h1 : Ext t a b) (h2 : Ext t b c) : Ext t a c := by
  refine ⟨?_, by rw [h2.self, h1.self], fun n v h => h2.res n v (h1.res n v h), fun S lc h => h2.sw S lc (h1.sw S lc h),
    fun n h => h2.proc n (h1.proc n h), fun n h => h2.ev n (h1.ev n h)⟩
  intro i tk hi hne
  obtain ⟨tk1, hi1, e1⟩ := h1.old i tk hi hne
  obtain ⟨tk2, hi2, e2⟩ := h2.old i tk1 hi1 hne
  refine ⟨tk2, hi2, by rw [e2.frames, e1.frames], by rw [e2.name, e1.name], by rw [e2.cancel, e1.cancel], ?_⟩
  rcases e1.st with h | ⟨w, hw, hr, hwk⟩
  · rcases e2.st with h' | ⟨w', hw', hr', hwk'⟩
    · exact Or.inl (by rw [h', h])
    · exact Or.inr ⟨w', by rw [← h]; exact hw', hr', hwk'⟩
  · rcases e2.st with h' | ⟨w', hw', _, _⟩
    · exact Or.inr ⟨w, hw, by rw [h', hr], hwk.mono h2.ev⟩
    · rw [hr] at hw'; cases hw'

/-- a live task stays live under notifications -/
theorem TaskExt.live {s' : St} {tk tk' : Task} (e : TaskExt s' tk tk') (h : tk.live) : tk'.live := by
  rcases e.st with h1 | ⟨w, hw, hr, hwk⟩
  · unfold Task.live at *; rw [h1]; exact h
  · exact Or.inl ⟨_, hr⟩

theorem TaskExt.nonDone {s' : St} {tk tk' : Task} (e : TaskExt s' tk tk') (h : tk.nonDone) : tk'.nonDone := by
  intro r hr
  rcases e.st with h1 | ⟨w, hw, hr', _⟩
  · rw [h1] at hr; exact h r hr
  · rw [hr'] at hr; cases hr

/-- every task of `s` is a task of `s'` with the same frames -/
theorem Ext.task {t : Nat} {s s' : St} (e : Ext t s s') {i : Nat} {tk : Task} (hi : s.tasks[i]? = some tk) :
    ∃ tk', s'.tasks[i]? = some tk' ∧ TaskExt s' tk tk' := by
  by_cases hit : i = t
  · subst hit
    exact ⟨tk, by rw [e.self]; exact hi, TaskExt.refl s' tk⟩
  · exact e.old i tk hi hit

theorem Executor.ext {t : Nat} {s s' : St} (e : Ext t s s') {n : Node} (h : Executor s n) : Executor s' n := by
  obtain ⟨i, tk, hi, hl, d, f, pc, hf, hpc⟩ := h
  obtain ⟨tk', hi', te⟩ := e.task hi
  exact ⟨i, tk', hi', te.live hl, d, f, pc, by rw [te.frames]; exact hf, hpc⟩

theorem SwOwner.ext {t : Nat} {s s' : St} (e : Ext t s s') {S : Node} (h : SwOwner s S) : SwOwner s' S := by
  obtain ⟨i, tk, hi, hnd, hf⟩ := h
  obtain ⟨tk', hi', te⟩ := e.task hi
  exact ⟨i, tk', hi', te.nonDone hnd, by rw [te.frames]; exact hf⟩

theorem OwnerM.ext {P : Program} {t : Nat} {s s' : St} (e : Ext t s s') {m : Node} (h : OwnerM P s m) : OwnerM P s' m := by
  obtain ⟨S, hS, hs, ho⟩ := h
  exact ⟨S, hS, hs, ho.ext e⟩

theorem Launched.ext {P : Program} {t : Nat} {s s' : St} (e : Ext t s s') {q : Node} (h : Launched P s q) : Launched P s' q := by
  unfold Launched at *
  split
  · next hq =>
    simp only [hq, if_true] at h
    obtain ⟨i, tk, hi, hn⟩ := h
    obtain ⟨tk', hi', te⟩ := e.task hi
    exact ⟨i, tk', hi', by rw [te.name]; exact hn⟩
  · next hq =>
    simp only [hq] at h
    rcases h with h | ⟨i, tk, d, hi, hf, hst⟩
    · exact Or.inl (e.proc q h)
    · obtain ⟨tk', hi', te⟩ := e.task hi
      refine Or.inr ⟨i, tk', d, hi', by rw [te.frames]; exact hf, ?_⟩
      rcases te.st with h1 | ⟨w, hw, _, _⟩
      · rw [h1]; exact hst
      · rw [hst] at hw; cases hw

theorem DagFrame.ext {P : Program} {t : Nat} {s s' : St} (e : Ext t s s') {F : Frame} {d : DagRef}
    (h : DagFrame P s F d) : DagFrame P s' F d := by
  cases h with
  | init => exact .init d
  | launch _ m rest h1 h2 h3 => exact .launch d m rest (fun q hq hn => (h1 q hq hn).ext e) h2 h3
  | wait _ h1 => exact .wait d (fun q hq => (h1 q hq).ext e)

theorem SubOK'.ext {P : Program} {depth : Node → Nat} {t : Nat} {s s' : St} (e : Ext t s s') {sub : DagRef} {S : Node}
    (h : SubOK' P depth s sub S) : SubOK' P depth s' sub S := by
  obtain ⟨l, c, h1, h2⟩ := h.sel
  exact ⟨h.dag, l, c, e.sw S _ h1, h2⟩

theorem TaskExt.runnable {s' : St} {tk tk' : Task} (e : TaskExt s' tk tk') (h : ∃ rv, tk.st = .runnable rv) :
    ∃ rv, tk'.st = .runnable rv := by
  obtain ⟨rv, h⟩ := h
  rcases e.st with h1 | ⟨w, hw, _, _⟩
  · exact ⟨rv, by rw [h1]; exact h⟩
  · rw [h] at hw; cases hw

theorem TaskExt.done {s' : St} {tk tk' : Task} (e : TaskExt s' tk tk') {r : TaskRes} (h : tk.st = .done r) :
    tk'.st = .done r := by
  rcases e.st with h1 | ⟨w, hw, _, _⟩
  · rw [h1]; exact h
  · rw [h] at hw; cases hw

theorem DagFrame.transport {P : Program} {s s' : St} (hL : ∀ q, Launched P s q → Launched P s' q) {F : Frame} {d : DagRef}
    (h : DagFrame P s F d) : DagFrame P s' F d := by
  cases h with
  | init => exact .init d
  | launch _ m rest h1 h2 h3 => exact .launch d m rest (fun q hq hn => hL q (h1 q hq hn)) h2 h3
  | wait _ h1 => exact .wait d (fun q hq => hL q (h1 q hq))

theorem SubOK'.transport {P : Program} {depth : Node → Nat} {s s' : St} (hsw : ∀ S lc, s.sw S = some lc → s'.sw S = some lc)
    {sub : DagRef} {S : Node} (h : SubOK' P depth s sub S) : SubOK' P depth s' sub S := by
  obtain ⟨l, c, h1, h2⟩ := h.sel
  exact ⟨h.dag, l, c, hsw S _ h1, h2⟩

theorem LaunchSt.transport {P : Program} {s s' : St} {tk tk' : Task} (te : TaskExt s' tk tk')
    {F : Frame} (h : LaunchSt P s tk F)
    (hready : ∀ d m, tk'.st = .blocked (.cond (.node m)) → ready P s' d m = true →
      (ready P s d m = true → OwnerM P s m) → OwnerM P s' m) :
    LaunchSt P s' tk' F := by
  cases F with
  | dagInit d => exact te.runnable h
  | dagLaunch d rest =>
    cases rest with
    | nil => exact h
    | cons m r =>
      rcases h with h | ⟨h1, h2⟩
      · exact Or.inl (te.runnable h)
      · rcases te.st with h3 | ⟨w, _, hr, _⟩
        · exact Or.inr ⟨by rw [h3]; exact h1, fun hrd => hready d m (by rw [h3]; exact h1) hrd h2⟩
        · exact Or.inl ⟨_, hr⟩
  | dagWaitDest d =>
    rcases h with h | h
    · exact Or.inl (te.runnable h)
    · rcases te.st with h3 | ⟨w, _, hr, _⟩
      · exact Or.inr (by rw [h3]; exact h)
      · exact Or.inl ⟨_, hr⟩
  | _ => exact h

/-- the description of a task survives a section of another task, provided the storage only grows, the launch
bookkeeping survives, and the wake-ups are complete: `run()` is woken when its predicate turns true; a launch loop whose
node has become ready is woken or has an owner -/
theorem TaskOK.transport {P : Program} {depth : Node → Nat} {s s' : St} {tk tk' : Task} (te : TaskExt s' tk tk')
    (h : TaskOK P depth s tk) (hlen1 : s.tasks.length ≠ 1)
    (hres' : ∀ n v, s.res n = some v → s'.res n = some v) (hsw' : ∀ S lc, s.sw S = some lc → s'.sw S = some lc)
    (hproc' : ∀ n, s.proc n = true → s'.proc n = true) (hev' : ∀ n, s.evSet n = true → s'.evSet n = true)
    (hL : ∀ q, Launched P s q → Launched P s' q)
    (hrun : taskErrors s = [] → s.res P.g.output = none →
      (taskErrors s' = [] ∧ s'.res P.g.output = none) ∨ tk'.st ≠ .blocked (.cond .run))
    (hready : ∀ d m, tk'.st = .blocked (.cond (.node m)) → ready P s' d m = true →
      (ready P s d m = true → OwnerM P s m) → OwnerM P s' m)
    (hstore : ∀ d q pc, tk.frames = [.node d q false pc] → s.res q = none → s'.res q = none) :
    TaskOK P depth s' tk' := by
  cases h with
  | callerStart hn hfr hst hlen => exact absurd hlen hlen1
  | callerWait hn hfr hst =>
    refine .callerWait tk' (by rw [te.name]; exact hn) (by rw [te.frames]; exact hfr) ?_
    rcases hst with ⟨rv, h⟩ | ⟨h, he0, hr0⟩
    · exact Or.inl (te.runnable ⟨rv, h⟩)
    · rcases te.st with h1 | ⟨w, _, hr, _⟩
      · rcases hrun he0 hr0 with ⟨h2, h3⟩ | h2
        · exact Or.inr ⟨by rw [h1]; exact h, h2, h3⟩
        · exact absurd (by rw [h1]; exact h) h2
      · exact Or.inl ⟨_, hr⟩
  | main F d0 hn hfr hdf hdag hdest hout hst =>
    exact .main tk' F d0 (by rw [te.name]; exact hn) (by rw [te.frames]; exact hfr) (hdf.transport hL) hdag hdest hout
      (LaunchSt.transport te hst hready)
  | mainDone hn hfr hst hres =>
    refine .mainDone tk' (by rw [te.name]; exact hn) (by rw [te.frames]; exact hfr) (te.done hst) ?_
    cases hr : s.res P.g.output with
    | none => rw [hr] at hres; cases hres
    | some v => rw [hres' _ v hr]; rfl
  | nodeStart d0 q hn hns hfr hst =>
    refine .nodeStart tk' d0 q (by rw [te.name]; exact hn) hns (by rw [te.frames]; exact hfr) ?_
    rcases te.st with h1 | ⟨w, hw, _, _⟩
    · rw [h1]; exact hst
    · rw [hst] at hw; cases hw
  | nodeWait d0 q hn hns hfr hst hproc =>
    refine .nodeWait tk' d0 q (by rw [te.name]; exact hn) hns (by rw [te.frames]; exact hfr) ?_ (hproc' q hproc)
    rcases hst with ⟨⟨rv, h⟩, hev⟩ | h
    · exact Or.inl ⟨te.runnable ⟨rv, h⟩, hev' q hev⟩
    · rcases te.st with h1 | ⟨w, hw, hr, hwk⟩
      · exact Or.inr (by rw [h1]; exact h)
      · rw [h] at hw; cases hw; exact Or.inl ⟨⟨_, hr⟩, hwk⟩
  | nodeExec d0 q pc hn hns hfr hpc1 hpc2 hlive hproc hnores =>
    exact .nodeExec tk' d0 q pc (by rw [te.name]; exact hn) hns (by rw [te.frames]; exact hfr) hpc1 hpc2 (te.live hlive)
      (hproc' q hproc) (hstore d0 q pc hfr hnores)
  | nodeDone q r0 hn hns hfr hst hnc hev =>
    exact .nodeDone tk' q r0 (by rw [te.name]; exact hn) hns (by rw [te.frames]; exact hfr) (te.done hst) hnc (hev' q hev)
  | swStart d0 S0 hn hsS hfr hst =>
    refine .swStart tk' d0 S0 (by rw [te.name]; exact hn) hsS (by rw [te.frames]; exact hfr) ?_
    rcases te.st with h1 | ⟨w, hw, _, _⟩
    · rw [h1]; exact hst
    · rw [hst] at hw; cases hw
  | swIn F sub d0 S0 hn hsS hfr hdf hsub hst =>
    exact .swIn tk' F sub d0 S0 (by rw [te.name]; exact hn) hsS (by rw [te.frames]; exact hfr) (hdf.transport hL)
      (hsub.transport hsw') (LaunchSt.transport te hst hready)
  | swRet d0 S0 hn hsS hfr hst hsw =>
    obtain ⟨v, hv⟩ := hst
    obtain ⟨l, c, h1, h2⟩ := hsw
    refine .swRet tk' d0 S0 (by rw [te.name]; exact hn) hsS (by rw [te.frames]; exact hfr) ⟨v, ?_⟩ ⟨l, c, hsw' _ _ h1, hL c h2⟩
    rcases te.st with h3 | ⟨w, hw, _, _⟩
    · rw [h3]; exact hv
    · rw [hv] at hw; cases hw
  | swDone S0 r0 hn hsS hfr hst hnc hok =>
    refine .swDone tk' S0 r0 (by rw [te.name]; exact hn) hsS (by rw [te.frames]; exact hfr) (te.done hst) hnc ?_
    intro hr
    obtain ⟨l, c, h1, h2⟩ := hok hr
    exact ⟨l, c, hsw' _ _ h1, hL c h2⟩

theorem ready_setTask (P : Program) (s : St) (t : Nat) (tk : Task) (d : DagRef) (m : Node) :
    ready P (s.setTask t tk) d m = ready P s d m := rfl

theorem taskErrors_of_tasks {s s' : St} (h : s'.tasks = s.tasks) : taskErrors s' = taskErrors s := by
  unfold taskErrors; rw [h]

/-- **closing a section**: the state grew (`Ext`), then task `t` installs its new entry `tk'` -/
theorem Struct.close {P : Program} {depth : Node → Nat} {s s1 : St} {t : Nat} {tk' : Task} (hs : Struct P depth s)
    (htt : ∃ tkt, s.tasks[t]? = some tkt ∧ tk'.name = tkt.name) (e : Ext t s s1) (hlen1 : s.tasks.length ≠ 1)
    (hdata : LData P (s1.setTask t tk'))
    (hself : TaskOK P depth (s1.setTask t tk') tk')
    (hL : ∀ q, Launched P s q → Launched P (s1.setTask t tk') q)
    (hrun : taskErrors s = [] → s.res P.g.output = none →
      (taskErrors (s1.setTask t tk') = [] ∧ s1.res P.g.output = none) ∨ NoneBlocked s1 (.cond .run))
    (hready : ∀ (i : Nat) (tki : Task) (d : DagRef) (m : Node), i ≠ t → s1.tasks[i]? = some tki →
      tki.st = .blocked (.cond (.node m)) → ready P s1 d m = true → (ready P s d m = true → OwnerM P s m) →
      OwnerM P (s1.setTask t tk') m)
    (hstore : ∀ (i : Nat) (tk : Task) (d : DagRef) (q : Node) (pc : NodePc), i ≠ t → s.tasks[i]? = some tk →
      tk.frames = [.node d q false pc] → s.res q = none → s1.res q = none)
    (hmain : t = 0 → tk'.frames = [.mgrWait] → ∃ tk1, s1.tasks[1]? = some tk1 ∧ tk1.name = .run)
    (hnew : ∀ (i : Nat) (tk : Task), s.tasks.length ≤ i → s1.tasks[i]? = some tk → TaskOK P depth (s1.setTask t tk') tk) :
    Struct P depth (s1.setTask t tk') := by
  obtain ⟨tkt, htkt, hnm⟩ := htt
  have hlt : t < s1.tasks.length := by
    have := getElem?_lt (show s1.tasks[t]? = some tkt by rw [e.self]; exact htkt)
    exact this
  have hget_t : (s1.setTask t tk').tasks[t]? = some tk' := by
    simp only [St.setTask]; exact List.getElem?_set_self hlt
  have hget_o : ∀ i, i ≠ t → (s1.setTask t tk').tasks[i]? = s1.tasks[i]? := by
    intro i hi; simp only [St.setTask]; exact List.getElem?_set_ne (Ne.symm hi)
  refine ⟨hdata, ?_, ?_, ?_⟩
  · intro i tk hi
    by_cases hit : i = t
    · subst hit
      rw [hget_t] at hi
      cases hi
      exact hself
    · rw [hget_o i hit] at hi
      -- the task existed before the section (new tasks have indices ≥ the old length … they are described by `hnew`)
      by_cases hold : i < s.tasks.length
      · obtain ⟨tk0, h0⟩ : ∃ tk0, s.tasks[i]? = some tk0 := ⟨s.tasks[i], by simp [hold]⟩
        obtain ⟨tk1, h1, te⟩ := e.old i tk0 h0 hit
        rw [hi] at h1
        cases h1
        have te' : TaskExt (s1.setTask t tk') tk0 tk := ⟨te.frames, te.name, te.cancel, by
          rcases te.st with h | ⟨w, h1, h2, h3⟩
          · exact Or.inl h
          · exact Or.inr ⟨w, h1, h2, by cases w <;> exact h3⟩⟩
        refine TaskOK.transport te' (hs.tasks i tk0 h0) hlen1 e.res e.sw e.proc e.ev hL ?_ ?_ ?_
        · intro he0 hr0
          rcases hrun he0 hr0 with h | h
          · exact Or.inl h
          · exact Or.inr (h tk (List.mem_of_getElem? hi))
        · intro d m hb hr hold'
          exact hready i tk d m hit hi hb hr hold'
        · intro d q pc hf hn
          exact hstore i tk0 d q pc hit h0 hf hn
      · exact hnew i tk (Nat.le_of_not_lt hold) hi
  · -- the caller's task keeps its name
    obtain ⟨tk0, h0, hn0⟩ := hs.caller
    by_cases ht0 : t = 0
    · subst ht0
      rw [h0] at htkt; cases htkt
      exact ⟨tk', hget_t, by rw [hnm]; exact hn0⟩
    · obtain ⟨tk1, h1, te⟩ := e.old 0 tk0 h0 (Ne.symm ht0)
      exact ⟨tk1, by rw [hget_o 0 (Ne.symm ht0)]; exact h1, by rw [te.name]; exact hn0⟩
  · intro tk h0' hfr
    by_cases ht0 : t = 0
    · subst ht0
      rw [hget_t] at h0'; cases h0'
      obtain ⟨tk1, h1, hn1⟩ := hmain rfl hfr
      exact ⟨tk1, by rw [hget_o 1 (by decide)]; exact h1, hn1⟩
    · rw [hget_o 0 (Ne.symm ht0)] at h0'
      obtain ⟨tk0, h0, _⟩ := hs.caller
      obtain ⟨tk0', h0'', te⟩ := e.old 0 tk0 h0 (Ne.symm ht0)
      rw [h0'] at h0''; cases h0''
      obtain ⟨tkm, hm, hnm'⟩ := hs.main tk0 h0 (by rw [← te.frames]; exact hfr)
      by_cases ht1 : t = 1
      · subst ht1
        rw [hm] at htkt; cases htkt
        exact ⟨tk', hget_t, by rw [hnm]; exact hnm'⟩
      · obtain ⟨tkm', hm', tem⟩ := e.old 1 tkm hm (Ne.symm ht1)
        exact ⟨tkm', by rw [hget_o 1 (Ne.symm ht1)]; exact hm', by rw [tem.name]; exact hnm'⟩

end MLPE.Eng

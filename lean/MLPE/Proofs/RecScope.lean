import MLPE.Proofs.EngC04
import MLPE.Proofs.EngTasks

/-!
# Only the nodes of a recurrent subgraph are ever re-executed — all programs, all schedules

`St.hide` (`hide_last_execution`) is the only way a node can be executed again (C04: executions ≤ 1 + hides).  This file
shows *where* it is applied: by `_run_recurrent_subgraph`, before every iteration, to the nodes between `start` and `dest`
of its `RecurrentSubGraph` mark, and to such a destination before its forced default.  The invariant `RX` carries it: every
`.recIterRet … n start …` frame belongs to a mark (`start` is the start node declared for `n`) — one lemma per handler of
the model, as in `Proofs/EngCore.lean`, closed by the primitives that install a task's new frames.  No hypothesis on the
program.
-/
namespace MLPE.Eng
open MLPE

/-- `n` is a node of the recurrent subgraph `start → dst` of some `RecurrentSubGraph` mark, or such a destination itself -/
def InRecScope (P : Program) (n : Node) : Prop :=
  (∃ dst start io g, (P.g.attr dst).startNode = some start ∧ recGraph P start dst io = some g ∧ n ∈ g.nodes) ∨
  (P.g.attr n).startNode.isSome = true

/-- the frames that matter: `_run_recurrent_subgraph` iterates for the start node declared for its destination -/
def RecFrameOK (P : Program) : Frame → Prop
  | .recIterRet _ n start _ _ => (P.g.attr n).startNode = some start
  | _ => True

def RFramesOK (P : Program) (fs : List Frame) : Prop := ∀ f ∈ fs, RecFrameOK P f

/-- a node has been hidden only if it belongs to a recurrent subgraph (or the scheduler proposed an inadmissible order) -/
def HidOK (P : Program) (s : St) : Prop := ∀ n, 0 < s.hideCount n → s.badOrd = true ∨ InRecScope P n

/-- the invariant, except for the frames of task `ex` (which the running section is about to replace) -/
structure RX (P : Program) (ex : Option Nat) (s : St) : Prop where
  hid : HidOK P s
  frames : ∀ (i : Nat) (tk : Task), s.tasks[i]? = some tk → some i ≠ ex → RFramesOK P tk.frames
  /-- the nodes a restart has invalidated (and that are hidden when a DAG needs them again) belong to its subgraph -/
  stale : ∀ n ∈ s.stale, InRecScope P n

/-- a state change that leaves the hide counters alone, keeps a raised `badOrd`, and maps the tasks frame-preservingly -/
theorem RX.map {P : Program} {ex : Option Nat} {s s' : St} (h : RX P ex s) (h0 : s'.stale = s.stale)
    (h1 : s'.hideCount = s.hideCount)
    (h2 : s.badOrd = true → s'.badOrd = true)
    (h3 : ∀ (i : Nat) (tk' : Task), s'.tasks[i]? = some tk' → ∃ tk, s.tasks[i]? = some tk ∧ tk'.frames = tk.frames) :
    RX P ex s' := by
  refine ⟨?_, ?_, by rw [h0]; exact h.stale⟩
  · intro n hn
    rw [h1] at hn
    rcases h.hid n hn with hb | hr
    · exact Or.inl (h2 hb)
    · exact Or.inr hr
  · intro i tk' hi hne
    obtain ⟨tk, h0, hf⟩ := h3 i tk' hi
    rw [hf]; exact h.frames i tk h0 hne

theorem tasks_map_frames {s : St} (f : Task → Task) (hf : ∀ tk, (f tk).frames = tk.frames) (i : Nat) (tk' : Task)
    (h : (s.tasks.map f)[i]? = some tk') : ∃ tk, s.tasks[i]? = some tk ∧ tk'.frames = tk.frames := by
  rw [List.getElem?_map] at h
  cases h0 : s.tasks[i]? with
  | none => rw [h0] at h; cases h
  | some tk => rw [h0] at h; cases h; exact ⟨tk, rfl, hf tk⟩

theorem wakeIf_fr (p : Wait → Bool) (tk : Task) : (wakeIf p tk).frames = tk.frames := by
  unfold wakeIf; split <;> (try split) <;> rfl

theorem RX.notify {P : Program} {ex : Option Nat} {s : St} (h : RX P ex s) (k : Key) : RX P ex (notify s k) :=
  h.map rfl rfl id (tasks_map_frames _ (wakeIf_fr _))

theorem RX.notifyAll {P : Program} {ex : Option Nat} (ks : List Key) : ∀ {s : St}, RX P ex s → RX P ex (notifyAll s ks) := by
  induction ks with
  | nil => intro s h; exact h
  | cons k ks ih => intro s h; simp only [Eng.notifyAll, List.foldl_cons]; exact ih (h.notify k)

theorem RX.setEvent {P : Program} {ex : Option Nat} {s : St} (h : RX P ex s) (n : Node) : RX P ex (setEvent s n) :=
  h.map rfl rfl id (tasks_map_frames _ (wakeIf_fr _))

theorem RX.nodeFinally {P : Program} {ex : Option Nat} {s : St} (h : RX P ex s) (d : DagRef) (n : Node) (u : Bool) :
    RX P ex (nodeFinally P s d n u) := by
  unfold Eng.nodeFinally
  simp only []
  split
  · exact (h.setEvent n).notify _
  · exact ((((h.setEvent n).notifyAll _).notify _).notify _)

theorem RX.unwindFrames {P : Program} {ex : Option Nat} (fs : List Frame) : ∀ {s : St}, RX P ex s →
    RX P ex (unwindFrames P s fs) := by
  induction fs with
  | nil => intro s h; exact h
  | cons f fs ih =>
    intro s h
    cases f <;> simp only [Eng.unwindFrames] <;> try exact ih h
    split
    · exact ih h
    · exact ih (h.nodeFinally _ _ _)

/-- updates of the storage that touch neither the task list nor the hide counters nor `badOrd` -/
theorem RX.data {P : Program} {ex : Option Nat} {s s' : St} (h : RX P ex s) (h0 : s'.stale = s.stale)
    (h1 : s'.hideCount = s.hideCount)
    (h2 : s'.badOrd = s.badOrd) (h3 : s'.tasks = s.tasks) : RX P ex s' :=
  h.map h0 h1 (fun hb => by rw [h2]; exact hb) (fun i tk' hi => ⟨tk', by rw [← h3]; exact hi, rfl⟩)

theorem RX.setRes {P : Program} {ex : Option Nat} {s : St} (h : RX P ex s) (n : Node) (v : Val) : RX P ex (s.setRes n v) :=
  h.data rfl rfl rfl rfl
theorem RX.setSw {P : Program} {ex : Option Nat} {s : St} (h : RX P ex s) (n : Node) (lc : Label × Node) :
    RX P ex (s.setSw n lc) := h.data rfl rfl rfl rfl
theorem RX.setActive {P : Program} {ex : Option Nat} {s : St} (h : RX P ex s) (a : List (Node × Node)) :
    RX P ex (s.setActive a) := h.data rfl rfl rfl rfl
theorem RX.setAdditional {P : Program} {ex : Option Nat} {s : St} (h : RX P ex s) (n : Node) (v : Val) :
    RX P ex (s.setAdditional n v) := h.data rfl rfl rfl rfl
theorem RX.setOutcome {P : Program} {ex : Option Nat} {s : St} (h : RX P ex s) (o : Outcome) :
    RX P ex (s.setOutcome o) := h.data rfl rfl rfl rfl
theorem RX.markProcessed {P : Program} {ex : Option Nat} {s : St} (h : RX P ex s) (n : Node) :
    RX P ex (s.markProcessed n) := h.data rfl rfl rfl rfl
theorem RX.openCand {P : Program} {ex : Option Nat} {s : St} (h : RX P ex s) (b : Bool) (n : Node) :
    RX P ex (openCand s b n) := by
  unfold Eng.openCand
  split
  · exact h.data rfl rfl rfl rfl
  · exact h

theorem RX.cancelTask {P : Program} {ex : Option Nat} {s : St} (h : RX P ex s) (t : Nat) : RX P ex (cancelTask s t) := by
  unfold Eng.cancelTask
  split
  · exact h
  · next tk htk =>
    have key : ∀ tk2 : Task, tk2.frames = tk.frames → RX P ex (s.setTask t tk2) := by
      intro tk2 hf
      refine h.map rfl rfl id ?_
      intro i tk' hi
      simp only [St.setTask] at hi
      by_cases hit : i = t
      · subst hit
        have hlt : i < s.tasks.length := getElem?_lt htk
        rw [List.getElem?_set_self hlt] at hi
        cases hi
        exact ⟨tk, htk, hf⟩
      · rw [List.getElem?_set_ne (Ne.symm hit)] at hi
        exact ⟨tk', hi, rfl⟩
    split
    · exact h
    · exact key _ rfl
    · exact key _ rfl

theorem RX.cancelTasks {P : Program} {ex : Option Nat} (ts : List Nat) : ∀ {s : St}, RX P ex s → RX P ex (cancelTasks s ts) := by
  induction ts with
  | nil => intro s h; exact h
  | cons t ts ih => intro s h; simp only [Eng.cancelTasks, List.foldl_cons]; exact ih (h.cancelTask t)

/-- installing the new frames of the running task closes the section -/
theorem RX.setTask {P : Program} {s : St} {t : Nat} (h : RX P (some t) s) (tk' : Task) (hf : RFramesOK P tk'.frames) :
    RX P none (s.setTask t tk') := by
  refine ⟨h.hid, ?_, h.stale⟩
  intro i tk hi _
  simp only [St.setTask] at hi
  by_cases hit : i = t
  · subst hit
    by_cases hlt : i < s.tasks.length
    · rw [List.getElem?_set_self hlt] at hi; cases hi; exact hf
    · rw [List.getElem?_eq_none (by simp; omega)] at hi; cases hi
  · rw [List.getElem?_set_ne (Ne.symm hit)] at hi
    exact h.frames i tk hi (by intro h'; cases h'; exact hit rfl)

theorem RX.spawn {P : Program} {ex : Option Nat} {s : St} (h : RX P ex s) (fs : List Frame) (nm : TaskName)
    (hf : RFramesOK P fs) : RX P ex (spawn s fs nm).1 := by
  refine ⟨h.hid, ?_, h.stale⟩
  intro i tk hi hne
  simp only [Eng.spawn] at hi
  by_cases hlt : i < s.tasks.length
  · rw [List.getElem?_append_left hlt] at hi
    exact h.frames i tk hi hne
  · have : i = s.tasks.length := by
      have := getElem?_lt hi
      simp only [List.length_append, List.length_singleton] at this
      omega
    subst this
    simp at hi
    subst hi
    exact hf


/-! ### closing a section -/

theorem RX.weaken {P : Program} {s : St} {t : Nat} (h : RX P (some t) s) (hn : s.tasks[t]? = none) : RX P none s := by
  refine ⟨h.hid, ?_, h.stale⟩
  intro i tk hi _
  exact h.frames i tk hi (by intro h'; cases h'; rw [hn] at hi; cases hi)

theorem RFramesOK.nil (P : Program) : RFramesOK P [] := fun _ h => by cases h

theorem RFramesOK.cons {P : Program} {f : Frame} {fs : List Frame} (hf : RecFrameOK P f) (h : RFramesOK P fs) :
    RFramesOK P (f :: fs) := by
  intro g hg
  rcases List.mem_cons.mp hg with rfl | h'
  · exact hf
  · exact h g h'

theorem rg_block {c : Ctx} {s : St} (h : RX c.P (some c.t) s) (obs : List Obs) (fs : List Frame) (w : Wait)
    (hf : RFramesOK c.P fs) : RX c.P none (block c s obs fs w).1 := by
  unfold block
  split
  · next hn => exact h.weaken hn
  · exact h.setTask _ hf

theorem rg_yieldNow {c : Ctx} {s : St} (h : RX c.P (some c.t) s) (obs : List Obs) (fs : List Frame)
    (hf : RFramesOK c.P fs) : RX c.P none (yieldNow c s obs fs).1 := by
  unfold yieldNow
  split
  · next hn => exact h.weaken hn
  · exact h.setTask _ hf

theorem rg_endTask {c : Ctx} {s : St} (h : RX c.P (some c.t) s) (obs : List Obs) (r : TaskRes) :
    RX c.P none (endTask c s obs r).1 := by
  unfold endTask
  split
  · next hn => exact h.weaken hn
  · exact h.setTask _ (RFramesOK.nil _)

theorem rg_retTo {c : Ctx} {s : St} (h : RX c.P (some c.t) s) (obs : List Obs) (below : List Frame) (v : Val)
    (hb : RFramesOK c.P below) : RX c.P none (retTo c s obs below v).1 := by
  unfold retTo
  split
  · exact rg_endTask h obs .ok
  · split
    · next hn => exact h.weaken hn
    · exact h.setTask _ hb

theorem rg_raiseOut {c : Ctx} {s : St} (h : RX c.P (some c.t) s) (obs : List Obs) (below : List Frame) (r : TaskRes) :
    RX c.P none (raiseOut c s obs below r).1 := by
  unfold raiseOut
  exact rg_endTask (h.unwindFrames below) obs r

theorem rg_cbThen {c : Ctx} {s : St} (h : RX c.P (some c.t) s) (obs : List Obs) (frames : Nat → List Frame) (m : Nat)
    (k : St → List Obs → Out) (hfr : ∀ j, RFramesOK c.P (frames j))
    (hk : ∀ s' obs', RX c.P (some c.t) s' → RX c.P none (k s' obs').1) :
    RX c.P none (cbThen c s obs frames m k).1 := by
  unfold cbThen
  split
  · exact hk _ _ h
  · exact rg_yieldNow h obs _ (hfr _)

theorem rg_cbCall {c : Ctx} {s : St} (h : RX c.P (some c.t) s) (cb : Cb) (n : Node) (obs : List Obs)
    (frames : Nat → List Frame) (kOk : St → List Obs → Out) (kErr : Exc → St → List Obs → Out)
    (hfr : ∀ j, RFramesOK c.P (frames j))
    (hk : ∀ s' obs', RX c.P (some c.t) s' → RX c.P none (kOk s' obs').1)
    (he : ∀ e s' obs', RX c.P (some c.t) s' → RX c.P none (kErr e s' obs').1) :
    RX c.P none (cbCall c cb n s obs frames kOk kErr).1 := by
  unfold cbCall
  split
  · exact he _ _ _ h
  · exact rg_cbThen h obs frames _ kOk hfr hk

/-! ### `_run_node` -/

theorem nodeFrame_ok (P : Program) (d : DagRef) (n : Node) (f : Bool) (pc : NodePc) : RecFrameOK P (.node d n f pc) := trivial

theorem rg_nodeCbRaise {c : Ctx} {s : St} (h : RX c.P (some c.t) s) (obs : List Obs) (d : DagRef) (n : Node)
    (below : List Frame) (e : Exc) : RX c.P none (nodeCbRaise c s obs d n below e).1 := by
  unfold nodeCbRaise
  exact rg_raiseOut (h.nodeFinally _ _ _) obs below _

theorem rg_nodeCbRaiseInTry {c : Ctx} {s : St} (h : RX c.P (some c.t) s) (obs : List Obs) (d : DagRef) (n : Node)
    (below : List Frame) (e : Exc) : RX c.P none (nodeCbRaiseInTry c s obs d n below e).1 := by
  unfold nodeCbRaiseInTry
  exact rg_nodeCbRaise h _ d n below e

theorem rg_nodeFinish {c : Ctx} {s : St} (h : RX c.P (some c.t) s) (obs : List Obs) (d : DagRef) (n : Node)
    (below : List Frame) (hb : RFramesOK c.P below) : RX c.P none (nodeFinish c s obs d n below).1 := by
  unfold nodeFinish
  exact rg_retTo (h.nodeFinally _ _ _) obs below _ hb

theorem RX.recSpawn {P : Program} {ex : Option Nat} {s : St} (h : RX P ex s) (P' : Program) (d : DagRef) (n : Node)
    (v : Val) : RX P ex (recSpawn P' s d n v) := by
  unfold Eng.recSpawn
  split
  · exact h.spawn _ _ (RFramesOK.cons trivial (RFramesOK.nil _))
  · exact h

theorem RX.storeIf {P : Program} {ex : Option Nat} {s : St} (h : RX P ex s) (b : Bool) (n : Node) (v : Val) :
    RX P ex (storeIf s b n v) := by
  unfold Eng.storeIf
  split
  · exact h.setRes n v
  · exact h

theorem rg_nodePost {c : Ctx} {s : St} (h : RX c.P (some c.t) s) (obs : List Obs) (d : DagRef) (n : Node)
    (below : List Frame) (v : Val) (e : Bool) (hb : RFramesOK c.P below) :
    RX c.P none (nodePost c s obs d n below v e).1 := by
  unfold nodePost
  simp only []
  have h1 := (h.recSpawn c.P d n v).storeIf e n v
  split
  · exact rg_cbCall h1 _ _ _ _ _ _ (fun j => RFramesOK.cons (nodeFrame_ok _ _ _ _ _) hb)
      (fun s' obs' h' => rg_nodeFinish h' obs' d n below hb) (fun e' s' obs' h' => rg_nodeCbRaise h' obs' d n below e')
  · exact rg_retTo (h1.nodeFinally _ _ _) _ below _ hb

theorem rg_nodeFailCont {c : Ctx} {s : St} (h : RX c.P (some c.t) s) (obs : List Obs) (d : DagRef) (n : Node)
    (below : List Frame) (e : Exc) (hb : RFramesOK c.P below) : RX c.P none (nodeFailCont c s obs d n below e).1 := by
  unfold nodeFailCont
  split
  · exact rg_nodePost h obs d n below _ _ hb
  · exact rg_raiseOut (h.nodeFinally _ _ _) obs below _

theorem rg_nodeFail {c : Ctx} {s : St} (h : RX c.P (some c.t) s) (obs : List Obs) (d : DagRef) (n : Node)
    (below : List Frame) (e : Exc) (hb : RFramesOK c.P below) : RX c.P none (nodeFail c s obs d n below e).1 := by
  unfold nodeFail
  exact rg_cbCall h _ _ _ _ _ _ (fun j => RFramesOK.cons (nodeFrame_ok _ _ _ _ _) hb)
    (fun s' obs' h' => rg_nodeFailCont h' obs' d n below e hb) (fun e' s' obs' h' => rg_nodeCbRaise h' obs' d n below e')

theorem rg_nodeSuccess {c : Ctx} {s : St} (h : RX c.P (some c.t) s) (obs : List Obs) (d : DagRef) (n : Node)
    (below : List Frame) (v : Val) (hb : RFramesOK c.P below) : RX c.P none (nodeSuccess c s obs d n below v).1 := by
  unfold nodeSuccess
  exact rg_cbCall h _ _ _ _ _ _ (fun j => RFramesOK.cons (nodeFrame_ok _ _ _ _ _) hb)
    (fun s' obs' h' => rg_nodePost h' obs' d n below v _ hb) (fun e' s' obs' h' => rg_nodeCbRaiseInTry h' obs' d n below e')

theorem rg_nodeDefault {c : Ctx} {s : St} (h : RX c.P (some c.t) s) (obs : List Obs) (d : DagRef) (n : Node)
    (below : List Frame) (kw : Kwargs) (hb : RFramesOK c.P below) : RX c.P none (nodeDefault c s obs d n below kw).1 := by
  unfold nodeDefault
  split
  · exact rg_nodeSuccess h _ d n below _ hb
  · split
    · exact rg_nodeFail h _ d n below _ hb
    · exact rg_raiseOut (h.nodeFinally _ _ _) _ below _

theorem rg_nodeSleep {c : Ctx} {s : St} (h : RX c.P (some c.t) s) (obs : List Obs) (d : DagRef) (n : Node) (force : Bool)
    (below : List Frame) (k : Nat) (kw : Kwargs) (inv : Nat) (hb : RFramesOK c.P below) :
    RX c.P none (nodeSleep c s obs d n force below k kw inv).1 := by
  unfold nodeSleep
  simp only []
  split
  · exact rg_block h _ _ _ (RFramesOK.cons (nodeFrame_ok _ _ _ _ _) hb)
  · exact rg_yieldNow h _ _ (RFramesOK.cons (nodeFrame_ok _ _ _ _ _) hb)

theorem rg_nodeAfterBody {c : Ctx} {s : St} (h : RX c.P (some c.t) s) (obs : List Obs) (d : DagRef) (n : Node)
    (force : Bool) (below : List Frame) (k : Nat) (kw : Kwargs) (inv : Nat) (o : BodyOutcome) (hb : RFramesOK c.P below) :
    RX c.P none (nodeAfterBody c s obs d n force below k kw inv o).1 := by
  unfold nodeAfterBody
  split
  · exact rg_nodeSuccess h obs d n below _ hb
  · simp only []
    repeat' split
    all_goals first
      | exact rg_nodeDefault h obs d n below kw hb
      | exact rg_nodeFail h obs d n below _ hb
      | exact rg_raiseOut (h.nodeFinally _ _ _) obs below _
      | exact rg_cbCall h _ _ _ _ _ _ (fun j => RFramesOK.cons (nodeFrame_ok _ _ _ _ _) hb)
          (fun s' obs' h' => rg_nodeSleep h' obs' d n force below k kw inv hb)
          (fun e' s' obs' h' => rg_nodeCbRaiseInTry h' obs' d n below e')

theorem rg_nodeAttempt {c : Ctx} {s : St} (h : RX c.P (some c.t) s) (obs : List Obs) (d : DagRef) (n : Node)
    (force : Bool) (below : List Frame) (k : Nat) (kw : Kwargs) (inv : Nat) (hb : RFramesOK c.P below) :
    RX c.P none (nodeAttempt c s obs d n force below k kw inv).1 := by
  unfold nodeAttempt
  split
  · exact rg_nodeDefault h obs d n below kw hb
  · simp only []
    split
    · exact rg_nodeAfterBody h _ d n force below k kw inv _ hb
    · exact rg_block h _ _ _ (RFramesOK.cons (nodeFrame_ok _ _ _ _ _) hb)

theorem rg_nodeBegin {c : Ctx} {s : St} (h : RX c.P (some c.t) s) (obs : List Obs) (d : DagRef) (n : Node)
    (force : Bool) (below : List Frame) (inv : Nat) (hb : RFramesOK c.P below) :
    RX c.P none (nodeBegin c s obs d n force below inv).1 := by
  unfold nodeBegin
  split
  · exact rg_nodeFail h obs d n below _ hb
  · exact rg_nodeAttempt h obs d n force below 1 _ inv hb

theorem rg_nodeStart {c : Ctx} {s : St} (h : RX c.P (some c.t) s) (obs : List Obs) (d : DagRef) (n : Node)
    (force : Bool) (below : List Frame) (hb : RFramesOK c.P below) :
    RX c.P none (nodeStart c s obs d n force below).1 := by
  unfold nodeStart
  split
  · split
    · exact rg_nodePost h obs d n below _ _ hb
    · exact rg_block h _ _ _ (RFramesOK.cons (nodeFrame_ok _ _ _ _ _) hb)
  · simp only []
    have hm : RX c.P (some c.t) (s.markProcessed n) := h.markProcessed n
    exact rg_cbCall hm _ _ _ _ _ _ (fun j => RFramesOK.cons (nodeFrame_ok _ _ _ _ _) hb)
      (fun s' obs' h' => rg_nodeBegin h' obs' d n force below _ hb) (fun e' s' obs' h' => rg_nodeCbRaise h' obs' d n below e')


/-! ### `_run_dag`, `_run_switch`, `_run_oneof`, `_run_recurrent_subgraph` -/

/-- the DAG is the subgraph of a `RecurrentSubGraph` mark -/
def RecD (P : Program) (d : DagRef) : Prop :=
  ∃ dst start io, (P.g.attr dst).startNode = some start ∧ recGraph P start dst io = some d

theorem RX.noteOrder {P : Program} {ex : Option Nat} {s : St} (h : RX P ex s) (ok : Bool) : RX P ex (s.noteOrder ok) := by
  unfold St.noteOrder
  split
  · exact h
  · exact h.map rfl rfl (fun _ => rfl) (fun i tk' hi => ⟨tk', hi, rfl⟩)

theorem RX.hide {P : Program} {ex : Option Nat} {s : St} (h : RX P ex s) (ns : List Node)
    (hns : s.badOrd = true ∨ ∀ n ∈ ns, InRecScope P n) : RX P ex (s.hide ns) := by
  refine ⟨?_, h.frames, h.stale⟩
  intro n hn
  show s.badOrd = true ∨ _
  simp only [St.hide] at hn
  split at hn
  · next hc =>
    rcases hns with hb | hall
    · exact Or.inl hb
    · exact Or.inr (hall n (by simpa using hc))
  · exact h.hid n hn

/-- a restart marks nodes of its own subgraph -/
theorem RX.invalidate {P : Program} {ex : Option Nat} {s : St} (h : RX P ex s) (ns : List Node)
    (hns : ∀ n ∈ ns, InRecScope P n) : RX P ex (s.invalidate ns) := by
  refine ⟨h.hid, h.frames, ?_⟩
  intro n hn
  simp only [St.invalidate, List.mem_append] at hn
  rcases hn with hn | hn
  · exact hns n hn
  · exact h.stale n hn

/-- a DAG that is about to run hides only nodes a restart has marked -/
theorem RX.refresh {P : Program} {ex : Option Nat} {s : St} (h : RX P ex s) (ns : List Node) : RX P ex (s.refresh ns) := by
  unfold St.refresh
  split
  · exact h
  · have hsub : ∀ n ∈ ns.filter s.stale.contains, InRecScope P n := by
      intro n hn
      simp only [List.mem_filter, List.contains_iff_mem] at hn
      exact h.stale n hn.2
    have h1 := h.hide (ns.filter s.stale.contains) (Or.inr hsub)
    refine ⟨h1.hid, h1.frames, ?_⟩
    intro n hn
    simp only [List.mem_filter] at hn
    exact h.stale n hn.1

theorem validOrder_sub' {P : Program} {s : St} {d : DagRef} {ord : List Node} (h : validOrder P s d ord = true) :
    ∀ n ∈ ord, n ∈ d.nodes := by
  unfold validOrder at h
  simp only [Bool.and_eq_true, List.all_eq_true] at h
  intro n hn
  have := h.1.1.1.2 n hn
  simp only [expectedOrder, List.contains_iff_mem, List.mem_filter] at this
  exact this.1

theorem reducedRef_notRec {P : Program} {s : St} {a b : Node} {f2 f3 : Bool} {d : DagRef}
    (h : reducedRef P s a b false f2 f3 = some d) : d.isRec = false := by
  unfold reducedRef at h
  simp only [] at h
  split at h
  · cases h; rfl
  · split at h
    · cases h
    · cases h; rfl

theorem rg_dagWaitDest {c : Ctx} {s : St} (h : RX c.P (some c.t) s) (obs : List Obs) (d : DagRef) (below : List Frame)
    (hb : RFramesOK c.P below) : RX c.P none (dagWaitDest c s obs d below).1 := by
  unfold dagWaitDest
  split
  · split
    · exact rg_retTo h obs below _ hb
    · exact rg_block h obs _ _ (RFramesOK.cons trivial hb)
  · exact rg_block h obs _ _ (RFramesOK.cons trivial hb)

theorem launchFrame_ok (P : Program) (d : DagRef) (n : Node) : RecFrameOK P (launchFrame P d n) := by
  unfold launchFrame
  split
  · trivial
  · split <;> trivial

theorem rg_dagLaunch {c : Ctx} (d : DagRef) (below : List Frame) (hb : RFramesOK c.P below) :
    ∀ (rest : List Node) (s : St) (obs : List Obs), RX c.P (some c.t) s → RX c.P none (dagLaunch c d below s obs rest).1 := by
  intro rest
  induction rest with
  | nil => intro s obs h; simp only [dagLaunch]; exact rg_dagWaitDest h obs d below hb
  | cons n rest ih =>
    intro s obs h
    simp only [dagLaunch]
    split
    · split
      · refine rg_retTo (RX.notify (RX.notifyAll _ ?_) _) obs below _ hb
        split
        · split
          · exact h
          · exact RX.notifyAll _ (h.setRes _ _)
        · exact h
      · exact ih _ _ (h.spawn _ _ (RFramesOK.cons (launchFrame_ok _ _ _) (RFramesOK.nil _)))
    · exact rg_block h obs _ _ (RFramesOK.cons trivial hb)

theorem rg_dagInit {c : Ctx} {s : St} (h : RX c.P (some c.t) s) (obs : List Obs) (d : DagRef) (below : List Frame)
    (hb : RFramesOK c.P below) : RX c.P none (dagInit c s obs d below).1 := by
  unfold dagInit
  simp only []
  have h1 : RX c.P (some c.t) ((s.refresh d.nodes).noteOrder (validOrder c.P (s.refresh d.nodes) d c.ord)) :=
    (h.refresh _).noteOrder _
  split
  · exact rg_retTo h1 _ below _ hb
  · exact rg_dagLaunch d below hb _ _ _ h1

theorem rg_switchStart {c : Ctx} {s : St} (h : RX c.P (some c.t) s) (obs : List Obs) (d : DagRef) (n : Node)
    (below : List Frame) (hb : RFramesOK c.P below) : RX c.P none (switchStart c s obs d n below).1 := by
  unfold switchStart
  split
  · simp only []
    split
    · exact rg_retTo (RX.notifyAll _ (RX.notify (h.setRes _ _) _)) obs below _ hb
    · exact rg_raiseOut (h.notify _) obs below _
  · next l cn hsel =>
    simp only []
    have h1 : RX c.P (some c.t) (openCand (s.setSw n (l, cn)) d.isOneof cn) := (h.setSw _ _).openCand _ _
    split
    · exact rg_raiseOut h1 obs below _
    · next sub hsub =>
      exact rg_dagInit h1 obs sub _ (RFramesOK.cons trivial hb)

theorem rg_oneofWin {c : Ctx} {s : St} (h : RX c.P (some c.t) s) (obs : List Obs) (head cand : Node) (below : List Frame)
    (hb : RFramesOK c.P below) : RX c.P none (oneofWin c s obs head cand below).1 := by
  unfold oneofWin
  exact rg_retTo (RX.notify (RX.notifyAll _ (RX.notify (h.setRes _ _) _)) _) obs below _ hb

theorem rg_oneofTry {c : Ctx} (d : DagRef) (head : Node) (below : List Frame) (hb : RFramesOK c.P below) :
    ∀ (cands : List Node) (s : St) (obs : List Obs), RX c.P (some c.t) s →
      RX c.P none (oneofTry c d head below s obs cands).1 := by
  intro cands
  induction cands with
  | nil =>
    intro s obs h
    simp only [oneofTry]
    split
    · exact rg_retTo (RX.notifyAll _ (RX.notify (h.setRes _ _) _)) obs below _ hb
    · exact rg_raiseOut (h.notify _) obs below _
  | cons cand rest ih =>
    intro s obs h
    simp only [oneofTry]
    have h1 : RX c.P (some c.t) (openCand s true cand) := h.openCand _ _
    split
    · exact rg_raiseOut h1 obs below _
    · next sub hsub =>
      have h2 := (h1.refresh sub.nodes).spawn [.dagInit sub] .dag (RFramesOK.cons trivial (RFramesOK.nil _))
      split
      · split
        · exact ih _ _ h2
        · exact rg_oneofWin h2 _ head cand below hb
      · exact rg_block h2 _ _ _ (RFramesOK.cons trivial hb)

theorem rg_oneofWake {c : Ctx} {s : St} (h : RX c.P (some c.t) s) (obs : List Obs) (d : DagRef) (head cand : Node)
    (rest : List Node) (sub : DagRef) (below : List Frame) (hb : RFramesOK c.P below) :
    RX c.P none (oneofWake c s obs d head cand rest sub below).1 := by
  unfold oneofWake
  split
  · split
    · exact rg_oneofTry d head below hb rest s obs h
    · exact rg_oneofWin h obs head cand below hb
  · exact rg_block h obs _ _ (RFramesOK.cons trivial hb)

theorem rg_recFinish {c : Ctx} {s : St} (h : RX c.P (some c.t) s) (obs : List Obs) (n start : Node) (below : List Frame)
    (hb : RFramesOK c.P below) : RX c.P none (recFinish c s obs n start below).1 := by
  unfold recFinish
  exact rg_retTo (h.setActive _) obs below _ hb

theorem recScopeNodes_inScope {P : Program} {n start : Node} (hs : (P.g.attr n).startNode = some start) (io : Bool) :
    ∀ m ∈ recScopeNodes P start n io, InRecScope P m := by
  intro m hm
  unfold recScopeNodes at hm
  split at hm
  · next b hb => exact Or.inl ⟨n, start, io, b, hs, hb, hm⟩
  · cases hm

theorem rg_recIter {c : Ctx} {s : St} (h : RX c.P (some c.t) s) (obs : List Obs) (d : DagRef) (n start : Node) (g : DagRef)
    (k : Nat) (r : Val) (below : List Frame) (hb : RFramesOK c.P below)
    (hg : (c.P.g.attr n).startNode = some start) :
    RX c.P none (recIter c s obs d n start g k r below).1 := by
  unfold recIter
  simp only []
  split
  · exact rg_dagInit ((h.setAdditional _ _).invalidate _ (recScopeNodes_inScope hg _)) obs g _
      (RFramesOK.cons (f := .recIterRet d n start g k) hg hb)
  · split
    · refine rg_nodeStart (h.hide [n] (Or.inr ?_)) obs d n true _ (RFramesOK.cons trivial hb)
      intro m hm
      simp only [List.mem_singleton] at hm
      subst hm
      exact Or.inr (by rw [hg]; rfl)
    · split
      · exact rg_recFinish (RX.notifyAll _ (RX.notify (h.setRes _ _) _)) obs n start below hb
      · exact rg_raiseOut (h.notify _) obs below _

theorem rg_recStart {c : Ctx} {s : St} (h : RX c.P (some c.t) s) (obs : List Obs) (d : DagRef) (n : Node) (r : Val)
    (below : List Frame) (hb : RFramesOK c.P below) : RX c.P none (recStart c s obs d n r below).1 := by
  unfold recStart
  split
  · exact rg_raiseOut h obs below _
  · next start hst =>
    split
    · exact rg_retTo h obs below _ hb
    · simp only []
      split
      · exact rg_raiseOut (h.setActive _) obs below _
      · split
        · exact rg_raiseOut (h.setActive _) obs below _
        · next g hg => exact rg_recIter (h.setActive _) obs d n start g 0 r below hb hst


/-! ### `chart.run`, cancellation, dispatch -/

theorem rg_mgrReturn {c : Ctx} {s : St} (h : RX c.P (some c.t) s) (obs : List Obs) (o : Outcome) :
    RX c.P none (mgrReturn c s obs o).1 := by
  unfold mgrReturn
  exact (rg_endTask h _ .ok).setOutcome o

theorem rg_mgrComplete {c : Ctx} {s : St} (h : RX c.P (some c.t) s) (obs : List Obs) (o : Outcome) :
    RX c.P none (mgrComplete c s obs o).1 := by
  unfold mgrComplete
  split
  · exact rg_mgrReturn h obs _
  · exact rg_cbCall h _ _ _ _ _ _ (fun j => RFramesOK.cons trivial (RFramesOK.nil _))
      (fun s' obs' h' => rg_mgrReturn h' obs' o) (fun e s' obs' h' => rg_mgrReturn h' _ _)

theorem rg_mgrFinish {c : Ctx} {s : St} (h : RX c.P (some c.t) s) (obs : List Obs) : RX c.P none (mgrFinish c s obs).1 := by
  unfold mgrFinish
  exact rg_mgrComplete (RX.cancelTasks _ h) obs _

theorem rg_mgrCheck {c : Ctx} {s : St} (h : RX c.P (some c.t) s) (obs : List Obs) : RX c.P none (mgrCheck c s obs).1 := by
  unfold mgrCheck
  split
  · exact rg_mgrFinish h obs
  · exact rg_block h obs _ _ (RFramesOK.cons trivial (RFramesOK.nil _))

theorem rg_mgrBegin {c : Ctx} {s : St} (h : RX c.P (some c.t) s) (obs : List Obs) : RX c.P none (mgrBegin c s obs).1 := by
  unfold mgrBegin
  split
  · exact rg_mgrComplete h obs _
  · split
    · exact rg_mgrComplete h obs _
    · next d hd =>
      exact rg_mgrCheck (h.spawn [.dagInit d] .run (RFramesOK.cons trivial (RFramesOK.nil _))) _

theorem rg_mgrStart {c : Ctx} {s : St} (h : RX c.P (some c.t) s) (obs : List Obs) : RX c.P none (mgrStart c s obs).1 := by
  unfold mgrStart
  exact rg_cbCall h _ _ _ _ _ _ (fun j => RFramesOK.cons trivial (RFramesOK.nil _))
    (fun s' obs' h' => rg_mgrBegin h' obs') (fun e s' obs' h' => rg_mgrReturn h' obs' _)

theorem rg_deliverCancel {c : Ctx} {s : St} (h : RX c.P (some c.t) s) (tk : Task) :
    RX c.P none (deliverCancel c s tk).1 := by
  unfold deliverCancel
  split
  · exact (rg_endTask h _ _).setOutcome _
  · exact (rg_endTask h _ _).setOutcome _
  · exact (rg_endTask (RX.cancelTasks _ h) _ _).setOutcome _
  · exact (rg_endTask h _ _).setOutcome _
  · exact rg_raiseOut h _ _ _

theorem RX.some_of_none {P : Program} {s : St} (h : RX P none s) (t : Nat) : RX P (some t) s :=
  ⟨h.hid, fun i tk hi _ => h.frames i tk hi (by intro h'; cases h'), h.stale⟩

theorem rframesOK_tail {P : Program} {f : Frame} {fs : List Frame} (h : RFramesOK P (f :: fs)) : RFramesOK P fs :=
  fun g hg => h g (List.mem_cons_of_mem _ hg)

/-- **every section of a task preserves the invariant** -/
theorem rg_stepTask {c : Ctx} {s : St} (h : RX c.P none s) {out : Out} (hs : stepTask c s = some out) :
    RX c.P none out.1 := by
  unfold stepTask at hs
  split at hs
  · cases hs
  · next tk htk =>
    have hx := h.some_of_none c.t
    have hfr : RFramesOK c.P tk.frames := h.frames c.t tk htk (by intro h'; cases h')
    have hb : ∀ f below, tk.frames = f :: below → RFramesOK c.P below ∧ RecFrameOK c.P f := by
      intro f below hf
      rw [hf] at hfr
      exact ⟨rframesOK_tail hfr, hfr f (by simp)⟩
    split at hs
    · next rv hst =>
      split at hs
      · cases hs; exact rg_deliverCancel hx tk
      · split at hs
        all_goals first
          | (simp only [Option.some.injEq] at hs
             subst hs
             first
               | exact rg_mgrStart hx []
               | exact rg_mgrCheck hx []
               | exact rg_cbThen hx [] _ _ _ (fun j => RFramesOK.cons (f := .mgrCbStart j) trivial (RFramesOK.nil _))
                   (fun s' obs' h' => rg_mgrBegin h' obs')
               | exact rg_cbThen hx [] _ _ _ (fun j => RFramesOK.cons (f := .mgrCbComplete j _) trivial (RFramesOK.nil _))
                   (fun s' obs' h' => rg_mgrReturn h' obs' _)
               | exact rg_dagInit hx [] _ _ (hb _ _ (by assumption)).1
               | exact rg_dagLaunch _ _ (hb _ _ (by assumption)).1 _ s [] hx
               | exact rg_dagWaitDest hx [] _ _ (hb _ _ (by assumption)).1
               | exact rg_nodeStart hx [] _ _ _ _ (hb _ _ (by assumption)).1
               | exact rg_nodePost hx [] _ _ _ _ _ (hb _ _ (by assumption)).1
               | exact rg_nodeAfterBody hx [] _ _ _ _ _ _ _ _ (hb _ _ (by assumption)).1
               | exact rg_nodeAttempt hx [] _ _ _ _ _ _ _ (hb _ _ (by assumption)).1
               | exact rg_cbThen hx [] _ _ _ (fun j => RFramesOK.cons (nodeFrame_ok _ _ _ _ _) (hb _ _ (by assumption)).1)
                   (fun s' obs' h' => rg_nodeBegin h' obs' _ _ _ _ _ (hb _ _ (by assumption)).1)
               | exact rg_cbThen hx [] _ _ _ (fun j => RFramesOK.cons (nodeFrame_ok _ _ _ _ _) (hb _ _ (by assumption)).1)
                   (fun s' obs' h' => rg_nodeSleep h' obs' _ _ _ _ _ _ _ (hb _ _ (by assumption)).1)
               | exact rg_cbThen hx [] _ _ _ (fun j => RFramesOK.cons (nodeFrame_ok _ _ _ _ _) (hb _ _ (by assumption)).1)
                   (fun s' obs' h' => rg_nodePost h' obs' _ _ _ _ _ (hb _ _ (by assumption)).1)
               | exact rg_cbThen hx [] _ _ _ (fun j => RFramesOK.cons (nodeFrame_ok _ _ _ _ _) (hb _ _ (by assumption)).1)
                   (fun s' obs' h' => rg_nodeFailCont h' obs' _ _ _ _ (hb _ _ (by assumption)).1)
               | exact rg_cbThen hx [] _ _ _ (fun j => RFramesOK.cons (nodeFrame_ok _ _ _ _ _) (hb _ _ (by assumption)).1)
                   (fun s' obs' h' => rg_nodeFinish h' obs' _ _ _ (hb _ _ (by assumption)).1)
               | exact rg_switchStart hx [] _ _ _ (hb _ _ (by assumption)).1
               | exact rg_retTo (RX.notifyAll _ hx) [] _ _ (hb _ _ (by assumption)).1
               | exact rg_oneofTry _ _ _ (hb _ _ (by assumption)).1 _ s [] hx
               | exact rg_oneofWake hx [] _ _ _ _ _ _ (hb _ _ (by assumption)).1
               | exact rg_recStart hx [] _ _ _ _ (hb _ _ (by assumption)).1
               | exact rg_recFinish hx [] _ _ _ (hb _ _ (by assumption)).1)
          | (cases hs; done)
          | skip
        -- the return of an iteration of `_run_recurrent_subgraph`
        next d n start g k below v hf =>
          obtain ⟨hbel, hg⟩ := hb _ _ hf
          split at hs
          · simp only [Option.some.injEq] at hs; subst hs
            refine rg_retTo ?_ [] below _ hbel
            split
            · exact RX.notifyAll _ (RX.notify (hx.setRes _ _) _)
            · exact hx
          · split at hs
            · simp only [Option.some.injEq] at hs; subst hs; exact rg_recFinish hx [] n start below hbel
            · simp only [Option.some.injEq] at hs; subst hs
              exact rg_recIter hx [] d n start g (k + 1) v below hbel hg
    · cases hs


/-! ### every step, every reachable state -/

theorem gateDone_fr (n inv att : Nat) (tk : Task) : (gateDone n inv att tk).frames = tk.frames := by
  unfold gateDone
  split
  · split <;> rfl
  · rfl

theorem rinv_init (P : Program) : RX P none init := by
  refine ⟨(fun n hn => by cases hn), ?_, (fun n hn => by cases hn)⟩
  intro i tk hi _
  have : init.tasks = [{ frames := [.mgrStart], st := .runnable .go, name := .caller }] := rfl
  rw [this] at hi
  match i, hi with
  | 0, hi =>
    simp at hi; subst hi
    exact RFramesOK.cons trivial (RFramesOK.nil _)
  | k + 1, hi => simp at hi

theorem rinv_step (P : Program) {s : St} (h : RX P none s) (ch : Choice) (out : Out) (hs : step P s ch = some out) :
    RX P none out.1 := by
  cases ch with
  | run t ord pick => exact rg_stepTask (c := { P := P, t := t, ord := ord, pick := pick }) h hs
  | gate n inv att =>
    simp only [step] at hs
    split at hs
    · cases hs
    · simp only [Option.some.injEq] at hs
      subst hs
      exact h.map rfl rfl id (tasks_map_frames _ (gateDone_fr n inv att))
  | timer t =>
    simp only [step] at hs
    split at hs
    · next tk htk =>
      split at hs
      · simp only [Option.some.injEq] at hs
        subst hs
        refine h.map rfl rfl id ?_
        intro i tk' hi
        simp only [St.setTask] at hi
        by_cases hit : i = t
        · subst hit
          rw [List.getElem?_set_self (getElem?_lt htk)] at hi
          cases hi
          exact ⟨tk, htk, rfl⟩
        · rw [List.getElem?_set_ne (Ne.symm hit)] at hi
          exact ⟨tk', hi, rfl⟩
      · cases hs
    · cases hs
  | cancelCaller =>
    simp only [step, Option.some.injEq] at hs
    subst hs
    exact h.cancelTask 0

/-- **the invariant holds in every reachable state, for every program** -/
theorem rinv_reach {P : Program} {s : St} (h : Reach P s) : RX P none s := by
  induction h with
  | init => exact rinv_init P
  | @step s s' c obs _ hs ih => exact rinv_step P ih c (s', obs) hs


/-- **only the nodes of a recurrent subgraph are ever invalidated** (`hide_last_execution`), in every reachable state of every
program (unless the scheduler proposed an inadmissible launch order, which the lock-step tie reports) -/
theorem hidden_in_rec_scope {P : Program} {s : St} (h : Reach P s) (n : Node) (hn : 0 < s.hideCount n) :
    s.badOrd = true ∨ InRecScope P n :=
  (rinv_reach h).hid n hn

end MLPE.Eng


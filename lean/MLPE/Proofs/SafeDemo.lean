import MLPE.Proofs.Safe

/-!
# A concrete switch pipeline, its dataflow solution and a run (non-vacuity of the switch-safety theorems)

`0` input · `1` decision node returning `"l0"` · `2`, `3` case nodes · `4` the synthetic switch node
(`1 ⇒ 4` decision edge, `2 -l0→ 4`, `3 -l1→ 4`) · `5` output, reading the switch as `a` and node `0` as `b`.
-/
namespace MLPE.Eng
open MLPE

def demoSwitch : Program :=
  { g := { nodes := [0, 1, 2, 3, 4, 5],
           edges := [{ u := 0, v := 1, kwarg := some "x" }, { u := 0, v := 2, kwarg := some "x" },
                     { u := 0, v := 3, kwarg := some "x" },
                     { u := 1, v := 4, isSwitch := true }, { u := 2, v := 4, case := some "l0" },
                     { u := 3, v := 4, case := some "l1" },
                     { u := 4, v := 5, kwarg := some "a" }, { u := 0, v := 5, kwarg := some "b" }],
           attr := fun n => if n = 4 then { isSwitch := true } else {}, input := 0, output := 5 },
    cfg := fun _ => {},
    body := fun n _ _ _ => if n = 1 then .ret (.str "l0") else .ret (.int n),
    dflt := fun _ _ => .none,
    inputKw := [] }

theorem demoSwitch_noHead : ∀ n, demoSwitch.g.isOneofHead n = false := by
  intro n; simp only [demoSwitch, Graph.isOneofHead]; split <;> rfl

theorem demoSwitch_oneP : OneP demoSwitch := by
  refine oneP_of_check (by decide) (fun h hh => by rw [demoSwitch_noHead h] at hh; cases hh) ?_ (fun _ _ => ⟨rfl, rfl⟩)
    (fun _ => rfl)
  intro n kw i k v h
  simp only [demoSwitch] at h
  split at h <;> (cases h; exact ⟨rfl, rfl⟩)

theorem demoSwitch_swP : SwP demoSwitch := ⟨demoSwitch_oneP, demoSwitch_noHead⟩

/-- the dataflow values: the decision is `"l0"`, so the switch has the value of case `2` -/
def demoSwVal : Node → Option Val := fun n =>
  if n = 1 then some (.str "l0") else if n = 4 then some (.int 2) else some (.int n)

theorem demoSwitch_edges_small : ∀ e ∈ demoSwitch.g.edges, e.v ≤ 5 := by decide

theorem demoSwVal_solution : SolutionSw demoSwitch demoSwVal := by
  have hsmall : ∀ n, n ≤ 5 →
      (demoSwitch.g.isSwitch n = false →
        demoSwVal n = if (demoSwitch.g.preds n).all (fun p => (demoSwVal p).isSome) then
          valueOf demoSwitch n (kwFrom demoSwitch demoSwVal n) else none) ∧
      (demoSwitch.g.isSwitch n = true → demoSwVal n = (swSel demoSwitch demoSwVal n).bind demoSwVal) := by
    decide
  refine ⟨?_, ?_⟩
  · intro n hn
    by_cases h5 : n ≤ 5
    · exact (hsmall n h5).1 hn
    · -- a node outside the graph has no sources
      have h6 : 5 < n := Nat.lt_of_not_le h5
      have hnil : demoSwitch.g.edges.filter (fun e => e.v == n) = [] := by
        rw [List.filter_eq_nil_iff]
        intro e he
        have := demoSwitch_edges_small e he
        simp only [beq_iff_eq]
        intro hev
        rw [hev] at this
        exact absurd this h5
      have hp : demoSwitch.g.preds n = [] := by simp [Graph.preds, hnil]
      have hn0 : (n == demoSwitch.g.input) = false := by
        simp only [demoSwitch, beq_eq_false_iff_ne]
        intro h0; rw [h0] at h6; exact absurd h6 (by decide)
      have hn1 : n ≠ 1 := by intro h0; rw [h0] at h6; exact absurd h6 (by decide)
      have hn4 : n ≠ 4 := by intro h0; rw [h0] at h6; exact absurd h6 (by decide)
      simp only [hp, List.all_nil, if_true, kwFrom, hn0, hnil, List.foldl_nil, Bool.false_eq_true, if_false]
      simp [valueOf, finalOf, Retry.run, Retry.loop, Retry.decide, demoSwitch, demoSwVal, hn1, hn4,
        NodeCfg.attemptsEff]
  · intro n hn
    by_cases h5 : n ≤ 5
    · exact (hsmall n h5).2 hn
    · exfalso
      simp only [demoSwitch, Graph.isSwitch] at hn
      split at hn
      · next h4 => rw [h4] at h5; exact h5 (by decide)
      · cases hn

/-- what the demo pipeline needs: everything but the non-selected case `3` -/
theorem demoSwitch_demanded : ∀ n, Demanded demoSwitch demoSwVal n → n ∈ [5, 4, 0, 1, 2] := by
  intro n h
  induction h with
  | out => decide
  | @pred n p _ hns _ hp ih =>
    have key : ∀ n ∈ [5, 4, 0, 1, 2], demoSwitch.g.isSwitch n = false → ∀ p ∈ demoSwitch.g.preds n, p ∈ [5, 4, 0, 1, 2] := by
      decide
    exact key n ih hns p hp
  | @decider S e _ hS he hv hsw ih =>
    have key : ∀ e ∈ demoSwitch.g.edges, e.isSwitch = true → e.u ∈ [5, 4, 0, 1, 2] := by decide
    exact key e he hsw
  | @case S c _ hS hsel ih =>
    have key : ∀ S ∈ [5, 4, 0, 1, 2], demoSwitch.g.isSwitch S = true → ∀ c, swSel demoSwitch demoSwVal S = some c →
        c ∈ [5, 4, 0, 1, 2] := by
      intro S hS' hsw c hc
      have h4 : S = 4 := by
        simp only [List.mem_cons, List.not_mem_nil, or_false] at hS'
        rcases hS' with rfl | rfl | rfl | rfl | rfl <;> first | rfl | (exact absurd hsw (by decide))
      subst h4
      have : swSel demoSwitch demoSwVal 4 = some 2 := by decide
      rw [this] at hc
      cases hc
      decide
    exact key S ih hS c hsel
  | @headDep h e _ hh _ _ _ _ => rw [demoSwitch_noHead h] at hh; cases hh
  | @cand h c pre post _ hh _ _ _ => rw [demoSwitch_noHead h] at hh; cases hh

end MLPE.Eng

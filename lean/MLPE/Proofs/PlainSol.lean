import MLPE.Proofs.Plain

/-!
# The dataflow equations of a plain pipeline: failure propagates to the output, a solution exists
-/
namespace MLPE.Eng
open MLPE

variable {val : Node → Option Val}

/-- a failing node has no value -/
theorem NodeFails.val_none {P : Program} {d : DagRef} (hs : Solution P d val) {n : Node} {e : Exc} (hn : n ∈ d.nodes)
    (hf : NodeFails P val n e) : val n = none := by
  rw [hs.eq n hn, hf.1]
  simp [valueOf, hf.2]

/-- every node of the DAG other than the output has a consumer inside the DAG -/
def FeedsOutput (P : Program) (d : DagRef) : Prop :=
  ∀ n ∈ d.nodes, n ≠ P.g.output → ∃ m ∈ d.nodes, n ∈ P.g.preds m

theorem posOf_lt_length {l : List Node} {n : Node} (h : n ∈ l) : posOf l n < l.length := by
  unfold posOf
  exact List.findIdx_lt_length_of_exists ⟨n, h, by simp⟩

/-- **a node without a value leaves the output without a value** (every node of the DAG feeds the output) -/
theorem val_none_propagates {P : Program} {d : DagRef} (hs : Solution P d val) {ord : List Node}
    (ht : TopoOrd P d ord) (hf : FeedsOutput P d) (hout : P.g.output ∈ d.nodes) :
    ∀ (k : Nat) (n : Node), n ∈ d.nodes → ord.length - posOf ord n ≤ k → val n = none → val P.g.output = none := by
  intro k
  induction k with
  | zero =>
    intro n hn hk _
    have := posOf_lt_length ((ht.same n).mpr hn)
    omega
  | succ k ih =>
    intro n hn hk hv
    by_cases hno : n = P.g.output
    · rw [← hno]; exact hv
    · obtain ⟨m, hm, hnm⟩ := hf n hn hno
      have hlt := ht.before m ((ht.same m).mpr hm) n hnm
      have hml := posOf_lt_length ((ht.same m).mpr hm)
      have hvm : val m = none := by
        rw [hs.eq m hm]
        have : (P.g.preds m).all (fun p => (val p).isSome) = false := by
          rw [List.all_eq_false]
          exact ⟨n, hnm, by simp [hv]⟩
        simp [this]
      exact ih m hm (by omega) hvm

/-! ### existence of a solution -/

theorem solveList_not_mem (P : Program) : ∀ (l : List Node) (val : Node → Option Val) (m : Node), m ∉ l →
    solveList P l val m = val m
  | [], _, _, _ => rfl
  | n :: rest, val, m, hm => by
    simp only [solveList]
    rw [solveList_not_mem P rest _ m (fun h => hm (by simp [h]))]
    have : m ≠ n := fun h => hm (by simp [h])
    simp [this]

theorem kwFrom_congr (P : Program) (v1 v2 : Node → Option Val) (n : Node) (h : ∀ p ∈ P.g.preds n, v1 p = v2 p) :
    kwFrom P v1 n = kwFrom P v2 n := by
  unfold kwFrom
  split
  · rfl
  · have : ∀ (es : List Edge) (kw0 : Kwargs), (∀ e ∈ es, e.u ∈ P.g.preds n) →
        es.foldl (fun kw e => match e.kwarg with | some k => insertKw kw k ((v1 e.u).getD .none) | none => kw) kw0 =
        es.foldl (fun kw e => match e.kwarg with | some k => insertKw kw k ((v2 e.u).getD .none) | none => kw) kw0 := by
      intro es
      induction es with
      | nil => intro _ _; rfl
      | cons e es ih =>
        intro kw0 hm
        simp only [List.foldl_cons]
        rw [h e.u (hm e (by simp))]
        exact ih _ (fun e' he' => hm e' (by simp [he']))
    apply this
    intro e he
    simp only [List.mem_filter] at he
    simp only [Graph.preds, List.mem_map, List.mem_filter]
    exact ⟨e, he, rfl⟩

theorem predsOk_congr (P : Program) (v1 v2 : Node → Option Val) (n : Node) (h : ∀ p ∈ P.g.preds n, v1 p = v2 p) :
    predsOk P v1 n = predsOk P v2 n := by
  unfold predsOk
  rw [Bool.eq_iff_iff]
  simp only [List.all_eq_true]
  constructor
  · intro hh p hp; rw [← h p hp]; exact hh p hp
  · intro hh p hp; rw [h p hp]; exact hh p hp

theorem solveList_head (P : Program) (rest : List Node) (val val' : Node → Option Val) (n : Node) (ha_not : n ∉ rest)
    (hpre_not : ∀ p ∈ P.g.preds n, p ∉ n :: rest)
    (hn : val' n = if predsOk P val n then valueOf P n (kwFrom P val n) else none)
    (ho : ∀ p, p ≠ n → val' p = val p) :
    solveList P rest val' n =
      if predsOk P (solveList P rest val') n then valueOf P n (kwFrom P (solveList P rest val') n) else none := by
  have hsame : ∀ p ∈ P.g.preds n, solveList P rest val' p = val p := by
    intro p hp
    have hnp := hpre_not p hp
    rw [solveList_not_mem P rest val' p (fun h => hnp (by simp [h]))]
    exact ho p (fun h => hnp (by simp [h]))
  rw [solveList_not_mem P rest val' n ha_not]
  rw [predsOk_congr P _ val n hsame, kwFrom_congr P _ val n hsame]
  exact hn

/-- after evaluating `pre ++ l` in order, the equations hold on `l` provided they are about nodes whose sources
come earlier -/
theorem solveList_eq (P : Program) : ∀ (l pre : List Node) (val : Node → Option Val), (pre ++ l).Nodup →
    (∀ n ∈ l, ∀ p ∈ P.g.preds n, posOf (pre ++ l) p < posOf (pre ++ l) n) →
    ∀ n ∈ l, solveList P l val n =
      if predsOk P (solveList P l val) n then valueOf P n (kwFrom P (solveList P l val) n) else none
  | [], _, _, _, _ => by intro n hn; simp at hn
  | a :: rest, pre, val, hnd, hbefore => by
    intro n hn
    have hnd' : ((pre ++ [a]) ++ rest).Nodup := by simpa using hnd
    have hbefore' : ∀ n ∈ rest, ∀ p ∈ P.g.preds n, posOf ((pre ++ [a]) ++ rest) p < posOf ((pre ++ [a]) ++ rest) n := by
      intro n hn p hp
      have := hbefore n (by simp [hn]) p hp
      simpa using this
    simp only [solveList]
    rcases List.mem_cons.mp hn with rfl | hnr
    · -- the head: later updates touch neither it nor its sources
      have ha_not : n ∉ rest := by
        have := hnd
        rw [List.nodup_append] at this
        have h2 := this.2.1
        simp only [List.nodup_cons] at h2
        exact h2.1
      have hpre_not : ∀ p ∈ P.g.preds n, p ∉ n :: rest := by
        intro p hp hmem
        have hlt := hbefore n (by simp) p hp
        have hn_pos : posOf (pre ++ n :: rest) n = pre.length := by
          apply posOf_append_self
          intro hmem'
          rw [List.nodup_append] at hnd
          exact hnd.2.2 n hmem' n (by simp) rfl
        rw [hn_pos] at hlt
        have hp_pre := posOf_lt_mem pre (n :: rest) p hlt
        rw [List.nodup_append] at hnd
        exact hnd.2.2 p hp_pre p hmem rfl
      exact solveList_head P rest val _ n ha_not hpre_not (by simp) (by intro p hp; simp [hp])
    · exact solveList_eq P rest (pre ++ [a]) _ hnd' hbefore' n hnr

/-- **the dataflow equations of an acyclic plain pipeline have a solution** -/
theorem solution_exists (P : Program) (d : DagRef) (ord : List Node) (ht : TopoOrd P d ord) :
    ∃ val, Solution P d val := by
  refine ⟨solveList P ord (fun _ => none), ⟨?_⟩⟩
  intro n hn
  have := solveList_eq P ord [] (fun _ => none) (by simpa using ht.nodup)
    (by intro n hn p hp; simpa using ht.before n hn p hp) n ((ht.same n).mpr hn)
  exact this

end MLPE.Eng

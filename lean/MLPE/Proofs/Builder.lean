import MLPE.Builder
import Batteries.Data.List.Perm

/-! The worklist of `AnnotationDAGBuilder` visits exactly the nodes the output can reach. -/
namespace MLPE.Builder

/-- the declared dependency relation restricted to what the output needs -/
inductive Reachable (D : Decls) : Cls → Prop
  | out : Reachable D D.output
  | step {c c' : Cls} : Reachable D c → c' ∈ succs D c → Reachable D c'

/-- every declaration can be visited without error -/
def NodeOk (D : Decls) (c : Cls) : Prop :=
  validateNode (D.get c) = none ∧ ∃ ms, marksOf (D.get c) = .ok ms

/-- well-formed declaration set: class references are indices of declarations -/
def WF (D : Decls) : Prop :=
  D.output < D.ds.length ∧ D.input < D.ds.length ∧ ∀ c, c < D.ds.length → ∀ c' ∈ succs D c, c' < D.ds.length

/-! ### `pushNew` -/

theorem pushNew_spec (cs : List Cls) : ∀ (v s : List Cls),
    (∀ x, x ∈ (pushNew v s cs).1 ↔ x ∈ v ∨ x ∈ cs) ∧
    (∀ x, x ∈ (pushNew v s cs).2 ↔ x ∈ s ∨ (x ∈ cs ∧ x ∉ v)) ∧
    (v.Nodup → (pushNew v s cs).1.Nodup) ∧
    ((pushNew v s cs).1.length + s.length = (pushNew v s cs).2.length + v.length) := by
  induction cs with
  | nil => intro v s; simp [pushNew]; omega
  | cons c cs ih =>
    intro v s
    simp only [pushNew, List.foldl_cons]
    by_cases hc : v.contains c = true
    · simp only [hc, if_true]
      have := ih v s
      simp only [pushNew] at this
      obtain ⟨h1, h2, h3, h4⟩ := this
      have hcm : c ∈ v := by simpa using hc
      refine ⟨?_, ?_, h3, h4⟩
      · intro x; rw [h1]; simp only [List.mem_cons]; grind
      · intro x; rw [h2]; simp only [List.mem_cons]; grind
    · simp only [hc, Bool.false_eq_true, if_false]
      have := ih (v ++ [c]) (s ++ [c])
      simp only [pushNew] at this
      obtain ⟨h1, h2, h3, h4⟩ := this
      have hcm : c ∉ v := by simpa using hc
      refine ⟨?_, ?_, ?_, ?_⟩
      · intro x; rw [h1]; simp only [List.mem_append, List.mem_cons, List.not_mem_nil, or_false]; grind
      · intro x; rw [h2]; simp only [List.mem_append, List.mem_cons, List.not_mem_nil, or_false]; grind
      · intro hv
        apply h3
        rw [List.nodup_append]
        refine ⟨hv, by simp, ?_⟩
        intro a ha b hb
        simp at hb; subst hb
        intro hab; subst hab; exact hcm ha
      · simp only [List.length_append, List.length_singleton] at h4
        omega

/-! ### the loop -/

/-- the loop state as seen by the reachability argument -/
structure LoopInv (D : Decls) (visited stack : List Cls) : Prop where
  out_mem   : D.output ∈ visited
  stack_sub : ∀ x ∈ stack, x ∈ visited
  closed    : ∀ x ∈ visited, x ∉ stack → ∀ y ∈ succs D x, y ∈ visited
  sound     : ∀ x ∈ visited, Reachable D x
  nodup     : visited.Nodup
  bounded   : ∀ x ∈ visited, x < D.ds.length

theorem loopInv_init (D : Decls) (h : WF D) : LoopInv D [D.output] [D.output] where
  out_mem := by simp
  stack_sub := by simp
  closed := by intro x hx hn; simp at hx hn; exact absurd hx hn
  sound := by intro x hx; simp at hx; subst hx; exact .out
  nodup := by simp
  bounded := by intro x hx; simp at hx; subst hx; exact h.1

theorem getLast_split {α} {l : List α} {a : α} (h : l.getLast? = some a) : l = l.dropLast ++ [a] := by
  induction l with
  | nil => simp at h
  | cons x xs ih =>
    cases xs with
    | nil => simp at h; simp [h]
    | cons y ys =>
      simp only [List.getLast?_cons_cons] at h
      simp [List.dropLast, ← ih h]

/-- one successful iteration preserves the invariant and pays one unit of the measure -/
theorem loopInv_step (D : Decls) (hwf : WF D) {visited stack : List Cls} {cur : Cls}
    (hI : LoopInv D visited stack) (hlast : stack.getLast? = some cur) :
    LoopInv D (pushNew visited stack.dropLast (succs D cur)).1 (pushNew visited stack.dropLast (succs D cur)).2 ∧
    (pushNew visited stack.dropLast (succs D cur)).1.length + stack.length =
      (pushNew visited stack.dropLast (succs D cur)).2.length + visited.length + 1 := by
  obtain ⟨p1, p2, p3, p4⟩ := pushNew_spec (succs D cur) visited stack.dropLast
  have hsplit := getLast_split hlast
  have hcur_stack : cur ∈ stack := by rw [hsplit]; simp
  have hcur : cur ∈ visited := hI.stack_sub _ hcur_stack
  have hdrop : ∀ x ∈ stack.dropLast, x ∈ stack := fun x hx => by rw [hsplit]; simp [hx]
  refine ⟨⟨?_, ?_, ?_, ?_, p3 hI.nodup, ?_⟩, ?_⟩
  · exact (p1 _).mpr (Or.inl hI.out_mem)
  · intro x hx
    rcases (p2 x).mp hx with h | ⟨h, _⟩
    · exact (p1 x).mpr (Or.inl (hI.stack_sub _ (hdrop _ h)))
    · exact (p1 x).mpr (Or.inr h)
  · intro x hx hns y hy
    by_cases hxc : x = cur
    · subst hxc; exact (p1 y).mpr (Or.inr hy)
    · rcases (p1 x).mp hx with hxv | hxs
      · have hxn : x ∉ stack := by
          intro hxs
          rw [hsplit] at hxs
          simp only [List.mem_append, List.mem_singleton] at hxs
          rcases hxs with h | h
          · exact hns ((p2 x).mpr (Or.inl h))
          · exact hxc h
        exact (p1 y).mpr (Or.inl (hI.closed x hxv hxn y hy))
      · by_cases hxv : x ∈ visited
        · have hxn : x ∉ stack := by
            intro hxs'
            rw [hsplit] at hxs'
            simp only [List.mem_append, List.mem_singleton] at hxs'
            rcases hxs' with h | h
            · exact hns ((p2 x).mpr (Or.inl h))
            · exact hxc h
          exact (p1 y).mpr (Or.inl (hI.closed x hxv hxn y hy))
        · exact absurd ((p2 x).mpr (Or.inr ⟨hxs, hxv⟩)) hns
  · intro x hx
    rcases (p1 x).mp hx with h | h
    · exact hI.sound x h
    · exact .step (hI.sound cur hcur) h
  · intro x hx
    rcases (p1 x).mp hx with h | h
    · exact hI.bounded x h
    · exact hwf.2.2 cur (hI.bounded cur hcur) x h
  · have : stack.length = stack.dropLast.length + 1 := by
      conv => lhs; rw [hsplit]
      simp
    omega

theorem visited_length_le (D : Decls) {visited stack : List Cls} (hI : LoopInv D visited stack) :
    visited.length ≤ D.ds.length := by
  have hsub : visited ⊆ List.range D.ds.length := by
    intro x hx; exact List.mem_range.mpr (hI.bounded x hx)
  have := (List.subperm_of_subset hI.nodup hsub).length_le
  simpa using this

/-- the traversal, seen only through visited / stack -/
theorem traverse_ok (D : Decls) (hwf : WF D) :
    ∀ (fuel : Nat) (g : G) (visited stack : List Cls), LoopInv D visited stack →
      (D.ds.length + stack.length < fuel + visited.length) →
      (∀ c, Reachable D c → NodeOk D c) →
      ∃ g' visited', traverse D fuel g visited stack = .ok (g', visited') ∧ LoopInv D visited' [] := by
  intro fuel
  induction fuel with
  | zero =>
    intro g visited stack hI hm _
    have := visited_length_le D hI
    omega
  | succ fuel ih =>
    intro g visited stack hI hm hok
    simp only [traverse]
    cases hl : stack.getLast? with
    | none =>
      have : stack = [] := by
        cases stack with
        | nil => rfl
        | cons a l => simp at hl
      subst this
      exact ⟨g, visited, rfl, hI⟩
    | some cur =>
      have hsplit := getLast_split hl
      have hcur : cur ∈ visited := hI.stack_sub _ (by rw [hsplit]; simp)
      obtain ⟨hv, ms, hms⟩ := hok cur (hI.sound cur hcur)
      obtain ⟨hI', hmeasure⟩ := loopInv_step D hwf hI hl
      simp only [visitOne, hv, hms]
      apply ih
      · exact hI'
      · omega
      · exact hok

/-- **completeness and soundness of the traversal**: if every reachable declaration passes the per-node checks, the
traversal succeeds and has visited exactly the reachable nodes -/
theorem traverse_visits_reachable (D : Decls) (hwf : WF D) (hok : ∀ c, Reachable D c → NodeOk D c) :
    ∃ g visited, traverse D (D.ds.length + 1) (({} : G).mapNode (D.id D.input) D.input) [D.output] [D.output] = .ok (g, visited) ∧
      ∀ c, c ∈ visited ↔ Reachable D c := by
  obtain ⟨g, visited, hres, hI⟩ := traverse_ok D hwf (D.ds.length + 1) _ [D.output] [D.output]
    (loopInv_init D hwf) (by simp) hok
  refine ⟨g, visited, hres, fun c => ⟨hI.sound c, ?_⟩⟩
  intro hr
  induction hr with
  | out => exact hI.out_mem
  | step _ hs ih => exact hI.closed _ ih (by simp) _ hs

/-- an error of the traversal is the error of a reachable declaration -/
theorem traverse_error_is_reachable_defect (D : Decls) (hwf : WF D) :
    ∀ (fuel : Nat) (g : G) (visited stack : List Cls) (e : BuildErr), LoopInv D visited stack →
      traverse D fuel g visited stack = .error e →
      ∃ c, Reachable D c ∧ (validateNode (D.get c) = some e ∨ marksOf (D.get c) = .error e) := by
  intro fuel
  induction fuel with
  | zero => intro g visited stack e _ h; simp [traverse] at h
  | succ fuel ih =>
    intro g visited stack e hI h
    simp only [traverse] at h
    cases hl : stack.getLast? with
    | none => simp [hl] at h
    | some cur =>
      simp only [hl] at h
      have hsplit := getLast_split hl
      have hcur : cur ∈ visited := hI.stack_sub _ (by rw [hsplit]; simp)
      simp only [visitOne] at h
      cases hv : validateNode (D.get cur) with
      | some e' =>
        simp [hv] at h
        exact ⟨cur, hI.sound cur hcur, Or.inl (by rw [hv, h])⟩
      | none =>
        simp only [hv] at h
        cases hm : marksOf (D.get cur) with
        | error e' =>
          simp [hm] at h
          exact ⟨cur, hI.sound cur hcur, Or.inr (by rw [hm, h])⟩
        | ok ms =>
          simp only [hm] at h
          exact ih _ _ _ e (loopInv_step D hwf hI hl).1 h

end MLPE.Builder

namespace MLPE.Builder

/-! ### what the graph accumulates: keys are never removed -/

/-- `g'` extends `g`: every node key, edge key, node-map key, recorded recurrent pair and synthetic id of `g` is still there -/
structure Ext (g g' : G) : Prop where
  nodes : ∀ k, k ∈ g.nodes.map (·.1) → k ∈ g'.nodes.map (·.1)
  edges : ∀ k, k ∈ g.edges.map (·.1) → k ∈ g'.edges.map (·.1)
  nmap  : ∀ k, k ∈ g.nodeMap.map (·.1) → k ∈ g'.nodeMap.map (·.1)
  recs  : ∀ p, p ∈ g.recs → p ∈ g'.recs
  synth : ∀ p, p ∈ g.synth → p ∈ g'.synth

theorem Ext.refl (g : G) : Ext g g := ⟨fun _ h => h, fun _ h => h, fun _ h => h, fun _ h => h, fun _ h => h⟩

theorem Ext.trans {a b c : G} (h1 : Ext a b) (h2 : Ext b c) : Ext a c :=
  ⟨fun k h => h2.nodes k (h1.nodes k h), fun k h => h2.edges k (h1.edges k h), fun k h => h2.nmap k (h1.nmap k h),
   fun k h => h2.recs k (h1.recs k h), fun k h => h2.synth k (h1.synth k h)⟩

theorem keys_map_update {α β} [BEq α] (l : List (α × β)) (f : α × β → α × β) (hf : ∀ x, (f x).1 = x.1) :
    (l.map f).map (·.1) = l.map (·.1) := by
  simp [List.map_map, Function.comp_def, hf]

theorem addNode_keys (g : G) (id : String) (a : NodeAttrs) :
    ∀ k, k ∈ (g.addNode id a).nodes.map (·.1) ↔ k ∈ g.nodes.map (·.1) ∨ k = id := by
  intro k
  unfold G.addNode
  split
  · next h =>
    have : ((g.nodes.map fun x => if x.1 == id then (x.1, x.2.merge a) else (x.1, x.2))).map (·.1) = g.nodes.map (·.1) := by
      apply keys_map_update; intro x; split <;> rfl
    simp only [this]
    constructor
    · exact Or.inl
    · rintro (h' | h')
      · exact h'
      · subst h'
        simp only [List.any_eq_true, beq_iff_eq] at h
        obtain ⟨x, hx, hxe⟩ := h
        exact List.mem_map.mpr ⟨x, hx, hxe⟩
  · simp [List.map_append]

theorem addNode_ext (g : G) (id : String) (a : NodeAttrs) : Ext g (g.addNode id a) := by
  refine ⟨fun k h => (addNode_keys g id a k).mpr (Or.inl h), ?_, ?_, ?_, ?_⟩ <;>
    (intro k h; unfold G.addNode; split <;> exact h)

theorem addEdge_keys (g : G) (u v : String) (a : EdgeAttrs) :
    ∀ k, k ∈ (g.addEdge u v a).edges.map (·.1) ↔ k ∈ g.edges.map (·.1) ∨ k = (u, v) := by
  intro k
  unfold G.addEdge
  have he : ((g.addNode u).addNode v).edges = g.edges := by
    unfold G.addNode; split <;> (split <;> rfl)
  have hk : ((g.edges.map fun x => if x.1 == (u, v) then (x.1, x.2.merge a) else (x.1, x.2))).map (·.1)
      = g.edges.map (·.1) := by
    apply keys_map_update; intro x; split <;> rfl
  simp only [he]
  split
  · next h =>
    simp only [hk]
    constructor
    · exact Or.inl
    · rintro (h' | h')
      · exact h'
      · subst h'
        simp only [List.any_eq_true, beq_iff_eq] at h
        obtain ⟨x, hx, hxe⟩ := h
        exact List.mem_map.mpr ⟨x, hx, hxe⟩
  · simp [List.map_append]

theorem addEdge_ext (g : G) (u v : String) (a : EdgeAttrs) : Ext g (g.addEdge u v a) := by
  have h1 := addNode_ext g u {}
  have h2 := addNode_ext (g.addNode u) v {}
  have h12 := h1.trans h2
  refine ⟨?_, fun k h => (addEdge_keys g u v a k).mpr (Or.inl h), ?_, ?_, ?_⟩
  · intro k h; unfold G.addEdge; simp only []; split <;> exact h12.nodes k h
  · intro k h; unfold G.addEdge; simp only []; split <;> exact h12.nmap k h
  · intro k h; unfold G.addEdge; simp only []; split <;> exact h12.recs k h
  · intro k h; unfold G.addEdge; simp only []; split <;> exact h12.synth k h

theorem mapNode_ext (g : G) (id : String) (c : Cls) : Ext g (g.mapNode id c) := by
  refine ⟨?_, ?_, ?_, ?_, ?_⟩
  · intro k h; unfold G.mapNode; split <;> exact h
  · intro k h; unfold G.mapNode; split <;> exact h
  · intro k h
    unfold G.mapNode
    split
    · have : ((g.nodeMap.map fun x => if x.1 == id then (x.1, c) else (x.1, x.2))).map (·.1) = g.nodeMap.map (·.1) := by
        apply keys_map_update; intro x; split <;> rfl
      simp only [this]; exact h
    · simp [List.map_append]; exact Or.inl (by simpa using h)
  · intro k h; unfold G.mapNode; split <;> exact h
  · intro k h; unfold G.mapNode; split <;> exact h

end MLPE.Builder

namespace MLPE.Builder

def keysE (g : G) : List (String × String) := g.edges.map (·.1)
def keysM (g : G) : List String := g.nodeMap.map (·.1)
def keysN (g : G) : List String := g.nodes.map (·.1)

theorem addEdge_mem (g : G) (u v : String) (a : EdgeAttrs) : (u, v) ∈ keysE (g.addEdge u v a) :=
  (addEdge_keys g u v a (u, v)).mpr (Or.inr rfl)

theorem mapNode_mem (g : G) (id : String) (c : Cls) : id ∈ keysM (g.mapNode id c) := by
  unfold G.mapNode keysM
  split
  · next h =>
    have : ((g.nodeMap.map fun x => if x.1 == id then (x.1, c) else (x.1, x.2))).map (·.1) = g.nodeMap.map (·.1) := by
      apply keys_map_update; intro x; split <;> rfl
    simp only [this]
    simp only [List.any_eq_true, beq_iff_eq] at h
    obtain ⟨x, hx, hxe⟩ := h
    exact List.mem_map.mpr ⟨x, hx, hxe⟩
  · simp [List.map_append]

theorem recs_ext (g : G) (p : String × String) : Ext g (g.addRec p) :=
  ⟨fun _ h => h, fun _ h => h, fun _ h => h, fun _ h => by simp [G.addRec, h], fun _ h => h⟩

theorem synth_ext (g : G) (p : String) : Ext g (g.addSynth p) :=
  ⟨fun _ h => h, fun _ h => h, fun _ h => h, fun _ h => h, fun _ h => by simp [G.addSynth, h]⟩

theorem addCase_ext (D : Decls) (sw : String) (g : G) (lc : String × Cls) : Ext g (addCase D sw g lc) :=
  (mapNode_ext _ _ _).trans (addEdge_ext _ _ _ _)

theorem addCand_ext (D : Decls) (syn : String) (g : G) (c : Cls) : Ext g (addCand D syn g c) :=
  (mapNode_ext _ _ _).trans ((addNode_ext _ _ _).trans (addEdge_ext _ _ _ _))

/-- folding `addEdge`-like extensions over a list -/
theorem foldl_ext {α} (f : G → α → G) (hf : ∀ g a, Ext g (f g a)) (l : List α) (g : G) : Ext g (l.foldl f g) := by
  induction l generalizing g with
  | nil => exact Ext.refl g
  | cons a l ih => exact (hf g a).trans (ih (f g a))

/-- …and every element's own contribution `P a` (monotone under extension) is present at the end -/
theorem foldl_all {α} (f : G → α → G) (hf : ∀ g a, Ext g (f g a)) (P : α → G → Prop)
    (hP : ∀ g a, P a (f g a)) (hmono : ∀ a g g', Ext g g' → P a g → P a g')
    (l : List α) (g : G) : ∀ a ∈ l, P a (l.foldl f g) := by
  induction l generalizing g with
  | nil => intro a h; simp at h
  | cons b l ih =>
    intro a ha
    rcases List.mem_cons.mp ha with rfl | h
    · exact hmono _ _ _ (foldl_ext f hf l (f g a)) (hP g a)
    · exact ih (f g b) a h

theorem keysE_mono {g g' : G} (h : Ext g g') {k} (hk : k ∈ keysE g) : k ∈ keysE g' := h.edges k hk
theorem keysM_mono {g g' : G} (h : Ext g g') {k} (hk : k ∈ keysM g) : k ∈ keysM g' := h.nmap k hk

/-- the dependencies one mark of node `cur` declares are present in `g` -/
def MarkIn (D : Decls) (g : G) (cur : Cls) : Mark → Prop
  | .input src => (D.id src, D.id cur) ∈ keysE g ∧ D.id src ∈ keysM g
  | .recurrent start dest _ =>
    (D.id dest, D.id cur) ∈ keysE g ∧ (D.id start, D.id dest) ∈ g.recs ∧ D.id dest ∈ keysM g
  | .switch dec cases name =>
    (D.id dec, s!"switch__{name}") ∈ keysE g ∧ (s!"switch__{name}", D.id cur) ∈ keysE g ∧
    (∀ lc ∈ cases, (D.id lc.2, s!"switch__{name}") ∈ keysE g ∧ D.id lc.2 ∈ keysM g) ∧ D.id dec ∈ keysM g
  | .oneOf cands =>
    ∃ idx : Nat, (s!"input_one_of__{idx}___{D.id cur}", D.id cur) ∈ keysE g ∧
      (D.id D.input, s!"input_one_of__{idx}___{D.id cur}") ∈ keysE g ∧
      ∀ c ∈ cands, (D.id c, s!"input_one_of__{idx}___{D.id cur}") ∈ keysE g ∧ D.id c ∈ keysM g
  | .generic _ => True

theorem MarkIn.mono {D : Decls} {g g' : G} (h : Ext g g') {cur : Cls} {m : Mark} (hm : MarkIn D g cur m) :
    MarkIn D g' cur m := by
  cases m with
  | input src => exact ⟨keysE_mono h hm.1, keysM_mono h hm.2⟩
  | recurrent s d k => exact ⟨keysE_mono h hm.1, h.recs _ hm.2.1, keysM_mono h hm.2.2⟩
  | switch dec cases name =>
    exact ⟨keysE_mono h hm.1, keysE_mono h hm.2.1,
      fun lc hlc => ⟨keysE_mono h (hm.2.2.1 lc hlc).1, keysM_mono h (hm.2.2.1 lc hlc).2⟩, keysM_mono h hm.2.2.2⟩
  | oneOf cands =>
    obtain ⟨idx, h1, h2, h3⟩ := hm
    exact ⟨idx, keysE_mono h h1, keysE_mono h h2, fun c hc => ⟨keysE_mono h (h3 c hc).1, keysM_mono h (h3 c hc).2⟩⟩
  | generic _ => trivial

theorem applyMark_ext (D : Decls) (g : G) (cur : Cls) (idx : Nat) (kw : String) (m : Mark) :
    Ext g (applyMark D g cur idx kw m) := by
  cases m with
  | input src => exact (mapNode_ext _ _ _).trans (addEdge_ext _ _ _ _)
  | generic _ => exact Ext.refl g
  | recurrent s d k =>
    simp only [applyMark]
    apply Ext.trans (mapNode_ext _ _ _)
    apply Ext.trans (addNode_ext _ _ _)
    apply Ext.trans (addEdge_ext _ _ _ _)
    exact recs_ext _ _
  | switch dec cases name =>
    simp only [applyMark]
    apply Ext.trans (mapNode_ext _ _ _)
    apply Ext.trans (addNode_ext _ _ _)
    apply Ext.trans (addEdge_ext _ _ _ _)
    apply Ext.trans (foldl_ext (addCase D s!"switch__{name}") (addCase_ext D _) cases _)
    apply Ext.trans (addEdge_ext _ _ _ _)
    exact synth_ext _ _
  | oneOf cands =>
    simp only [applyMark]
    apply Ext.trans (addNode_ext _ _ _)
    apply Ext.trans (addEdge_ext _ _ _ _)
    apply Ext.trans (foldl_ext (addCand D s!"input_one_of__{idx}___{D.id cur}") (addCand_ext D _) cands _)
    apply Ext.trans (synth_ext _ _)
    exact addEdge_ext _ _ _ _

theorem applyMark_markIn (D : Decls) (g : G) (cur : Cls) (idx : Nat) (kw : String) (m : Mark) :
    MarkIn D (applyMark D g cur idx kw m) cur m := by
  cases m with
  | generic _ => trivial
  | input src =>
    simp only [applyMark, MarkIn]
    exact ⟨addEdge_mem _ _ _ _, keysM_mono (addEdge_ext _ _ _ _) (mapNode_mem _ _ _)⟩
  | recurrent s d k =>
    simp only [applyMark, MarkIn]
    refine ⟨keysE_mono (recs_ext _ _) (addEdge_mem _ _ _ _), by simp [G.addRec], ?_⟩
    exact keysM_mono ((addNode_ext _ _ _).trans ((addEdge_ext _ _ _ _).trans (recs_ext _ _))) (mapNode_mem _ _ _)
  | switch dec cases name =>
    simp only [applyMark, MarkIn]
    have hfold := foldl_ext (addCase D s!"switch__{name}") (addCase_ext D _) cases
      (((g.mapNode (D.id dec) dec).addNode s!"switch__{name}" { isSwitch := true }).addEdge (D.id dec) s!"switch__{name}"
        { isSwitch := true })
    have htail : ∀ g', Ext g' ((g'.addEdge s!"switch__{name}" (D.id cur) { kwarg := some kw }).addSynth s!"switch__{name}") :=
      fun g' => (addEdge_ext _ _ _ _).trans (synth_ext _ _)
    refine ⟨?_, ?_, ?_, ?_⟩
    · exact keysE_mono (hfold.trans (htail _)) (addEdge_mem _ _ _ _)
    · exact keysE_mono (synth_ext _ _) (addEdge_mem _ _ _ _)
    · intro lc hlc
      have := foldl_all (addCase D s!"switch__{name}") (addCase_ext D _)
        (fun lc g' => (D.id lc.2, s!"switch__{name}") ∈ keysE g' ∧ D.id lc.2 ∈ keysM g')
        (fun g' lc => ⟨addEdge_mem _ _ _ _, keysM_mono (addEdge_ext _ _ _ _) (mapNode_mem _ _ _)⟩)
        (fun lc g1 g2 he hp => ⟨keysE_mono he hp.1, keysM_mono he hp.2⟩) cases
        (((g.mapNode (D.id dec) dec).addNode s!"switch__{name}" { isSwitch := true }).addEdge (D.id dec)
          s!"switch__{name}" { isSwitch := true }) lc hlc
      exact ⟨keysE_mono (htail _) this.1, keysM_mono (htail _) this.2⟩
    · exact keysM_mono (((addNode_ext _ _ _).trans (addEdge_ext _ _ _ _)).trans (hfold.trans (htail _)))
        (mapNode_mem _ _ _)
  | oneOf cands =>
    simp only [applyMark, MarkIn]
    have hfold := foldl_ext (addCand D s!"input_one_of__{idx}___{D.id cur}") (addCand_ext D _) cands
      ((g.addNode s!"input_one_of__{idx}___{D.id cur}" { isOneofHead := true, oneofNodes := cands.map D.id }).addEdge
        (D.id D.input) s!"input_one_of__{idx}___{D.id cur}" {})
    have htail : ∀ g', Ext g' ((g'.addSynth s!"input_one_of__{idx}___{D.id cur}").addEdge
        s!"input_one_of__{idx}___{D.id cur}" (D.id cur) { kwarg := some kw }) :=
      fun g' => (synth_ext _ _).trans (addEdge_ext _ _ _ _)
    refine ⟨idx, addEdge_mem _ _ _ _, ?_, ?_⟩
    · exact keysE_mono (hfold.trans (htail _)) (addEdge_mem _ _ _ _)
    · intro c hc
      have := foldl_all (addCand D s!"input_one_of__{idx}___{D.id cur}") (addCand_ext D _)
        (fun c g' => (D.id c, s!"input_one_of__{idx}___{D.id cur}") ∈ keysE g' ∧ D.id c ∈ keysM g')
        (fun g' c => ⟨addEdge_mem _ _ _ _,
          keysM_mono ((addNode_ext _ _ _).trans (addEdge_ext _ _ _ _)) (mapNode_mem _ _ _)⟩)
        (fun c g1 g2 he hp => ⟨keysE_mono he hp.1, keysM_mono he hp.2⟩) cands
        ((g.addNode s!"input_one_of__{idx}___{D.id cur}" { isOneofHead := true, oneofNodes := cands.map D.id }).addEdge
          (D.id D.input) s!"input_one_of__{idx}___{D.id cur}" {}) c hc
      exact ⟨keysE_mono (htail _) this.1, keysM_mono (htail _) this.2⟩

end MLPE.Builder

namespace MLPE.Builder

theorem marks_fold (D : Decls) (cur : Cls) : ∀ (l : List (String × Mark)) (g : G) (i : Nat),
    Ext g (l.foldl (fun (acc : G × Nat) (km : String × Mark) =>
      (applyMark D acc.1 cur acc.2 km.1 km.2, acc.2 + 1)) (g, i)).1 ∧
    ∀ km ∈ l, MarkIn D (l.foldl (fun (acc : G × Nat) (km : String × Mark) =>
      (applyMark D acc.1 cur acc.2 km.1 km.2, acc.2 + 1)) (g, i)).1 cur km.2 := by
  intro l
  induction l with
  | nil => intro g i; exact ⟨Ext.refl g, by simp⟩
  | cons km l ih =>
    intro g i
    simp only [List.foldl_cons]
    obtain ⟨h1, h2⟩ := ih (applyMark D g cur i km.1 km.2) (i + 1)
    refine ⟨(applyMark_ext D g cur i km.1 km.2).trans h1, ?_⟩
    intro km' hkm'
    rcases List.mem_cons.mp hkm' with rfl | h
    · exact MarkIn.mono h1 (applyMark_markIn D g cur i km'.1 km'.2)
    · exact h2 km' h

/-- what one iteration contributes to the graph for the node `cur` it processes -/
structure Contributed (D : Decls) (g : G) (cur : Cls) : Prop where
  mapped   : D.id cur ∈ keysM g
  marks    : ∀ km ∈ (D.get cur).marks, MarkIn D g cur km.2
  implicit : (D.get cur).marks = [] → cur ≠ D.input → (D.id D.input, D.id cur) ∈ keysE g

theorem Contributed.mono {D : Decls} {g g' : G} (h : Ext g g') {c : Cls} (hc : Contributed D g c) :
    Contributed D g' c :=
  ⟨keysM_mono h hc.mapped, fun km hkm => MarkIn.mono h (hc.marks km hkm),
   fun h1 h2 => keysE_mono h (hc.implicit h1 h2)⟩

theorem graphOf_ext (D : Decls) (g : G) (cur : Cls) : Ext g (graphOf D g cur) := by
  unfold graphOf
  simp only []
  refine Ext.trans ?_ (marks_fold D cur _ _ 0).1
  split
  · exact (mapNode_ext _ _ _).trans (addEdge_ext _ _ _ _)
  · exact mapNode_ext _ _ _

theorem graphOf_contributed (D : Decls) (g : G) (cur : Cls) : Contributed D (graphOf D g cur) cur := by
  unfold graphOf
  simp only []
  refine ⟨?_, (marks_fold D cur _ _ 0).2, ?_⟩
  · apply keysM_mono (marks_fold D cur _ _ 0).1
    have hid : (D.get cur).ident = D.id cur := rfl
    split
    · exact keysM_mono (addEdge_ext _ _ _ _) (by rw [hid]; exact mapNode_mem _ _ _)
    · rw [hid]; exact mapNode_mem _ _ _
  · intro hm hne
    apply keysE_mono (marks_fold D cur _ _ 0).1
    have hc : ((D.get cur).marks.isEmpty && cur != D.input) = true := by simp [hm, hne]
    simp only [hc, if_true]
    exact addEdge_mem _ _ _ _

/-- the graph side of the loop invariant: every node that has been processed has made its contribution -/
theorem traverse_contributes (D : Decls) (hwf : WF D) :
    ∀ (fuel : Nat) (g : G) (visited stack : List Cls) (g' : G) (visited' : List Cls),
      LoopInv D visited stack → (∀ x ∈ visited, x ∉ stack → Contributed D g x) →
      traverse D fuel g visited stack = .ok (g', visited') →
      (D.ds.length + stack.length < fuel + visited.length) →
      Ext g g' ∧ ∀ x ∈ visited', Contributed D g' x := by
  intro fuel
  induction fuel with
  | zero =>
    intro g visited stack g' visited' hI _ _ hm
    have := visited_length_le D hI
    omega
  | succ fuel ih =>
    intro g visited stack g' visited' hI hC h hm
    simp only [traverse] at h
    cases hl : stack.getLast? with
    | none =>
      have : stack = [] := by
        cases stack with
        | nil => rfl
        | cons a l => simp at hl
      subst this
      simp at h
      obtain ⟨rfl, rfl⟩ := h
      exact ⟨Ext.refl g, fun x hx => hC x hx (by simp)⟩
    | some cur =>
      simp only [hl] at h
      simp only [visitOne] at h
      cases hv : validateNode (D.get cur) with
      | some e => simp [hv] at h
      | none =>
        simp only [hv] at h
        cases hmk : marksOf (D.get cur) with
        | error e => simp [hmk] at h
        | ok ms =>
          simp only [hmk] at h
          obtain ⟨hI', hmeasure⟩ := loopInv_step D hwf hI hl
          obtain ⟨p1, p2, _, _⟩ := pushNew_spec (succs D cur) visited stack.dropLast
          have hsplit := getLast_split hl
          have hC' : ∀ x ∈ (pushNew visited stack.dropLast (succs D cur)).1,
              x ∉ (pushNew visited stack.dropLast (succs D cur)).2 → Contributed D (graphOf D g cur) x := by
            intro x hx hns
            by_cases hxc : x = cur
            · subst hxc; exact graphOf_contributed D g x
            · have hxv : x ∈ visited := by
                rcases (p1 x).mp hx with h1 | h1
                · exact h1
                · by_cases hxv : x ∈ visited
                  · exact hxv
                  · exact absurd ((p2 x).mpr (Or.inr ⟨h1, hxv⟩)) hns
              have hxn : x ∉ stack := by
                intro hxs
                rw [hsplit] at hxs
                simp only [List.mem_append, List.mem_singleton] at hxs
                rcases hxs with h1 | h1
                · exact hns ((p2 x).mpr (Or.inl h1))
                · exact hxc h1
              exact (hC x hxv hxn).mono (graphOf_ext D g cur)
          obtain ⟨he, hall⟩ := ih _ _ _ g' visited' hI' hC' h (by omega)
          exact ⟨(graphOf_ext D g cur).trans he, hall⟩

end MLPE.Builder

namespace MLPE.Builder

/-- a successful traversal ends with an empty worklist, closed under the dependency relation, and has checked every
node it visited -/
theorem traverse_success (D : Decls) (hwf : WF D) :
    ∀ (fuel : Nat) (g : G) (visited stack : List Cls) (g' : G) (visited' : List Cls),
      LoopInv D visited stack → (∀ x ∈ visited, x ∉ stack → NodeOk D x) →
      traverse D fuel g visited stack = .ok (g', visited') →
      (D.ds.length + stack.length < fuel + visited.length) →
      LoopInv D visited' [] ∧ ∀ x ∈ visited', NodeOk D x := by
  intro fuel
  induction fuel with
  | zero =>
    intro g visited stack g' visited' hI _ _ hm
    have := visited_length_le D hI
    omega
  | succ fuel ih =>
    intro g visited stack g' visited' hI hC h hm
    simp only [traverse] at h
    cases hl : stack.getLast? with
    | none =>
      have : stack = [] := by
        cases stack with
        | nil => rfl
        | cons a l => simp at hl
      subst this
      simp at h
      obtain ⟨rfl, rfl⟩ := h
      exact ⟨hI, fun x hx => hC x hx (by simp)⟩
    | some cur =>
      simp only [hl] at h
      simp only [visitOne] at h
      cases hv : validateNode (D.get cur) with
      | some e => simp [hv] at h
      | none =>
        simp only [hv] at h
        cases hmk : marksOf (D.get cur) with
        | error e => simp [hmk] at h
        | ok ms =>
          simp only [hmk] at h
          obtain ⟨hI', hmeasure⟩ := loopInv_step D hwf hI hl
          obtain ⟨p1, p2, _, _⟩ := pushNew_spec (succs D cur) visited stack.dropLast
          have hsplit := getLast_split hl
          have hC' : ∀ x ∈ (pushNew visited stack.dropLast (succs D cur)).1,
              x ∉ (pushNew visited stack.dropLast (succs D cur)).2 → NodeOk D x := by
            intro x hx hns
            by_cases hxc : x = cur
            · subst hxc; exact ⟨hv, ms, hmk⟩
            · have hxv : x ∈ visited := by
                rcases (p1 x).mp hx with h1 | h1
                · exact h1
                · by_cases hxv : x ∈ visited
                  · exact hxv
                  · exact absurd ((p2 x).mpr (Or.inr ⟨h1, hxv⟩)) hns
              have hxn : x ∉ stack := by
                intro hxs
                rw [hsplit] at hxs
                simp only [List.mem_append, List.mem_singleton] at hxs
                rcases hxs with h1 | h1
                · exact hns ((p2 x).mpr (Or.inl h1))
                · exact hxc h1
              exact hC x hxv hxn
          exact ih _ _ _ g' visited' hI' hC' h (by omega)

theorem closed_contains_reachable (D : Decls) {visited : List Cls} (hI : LoopInv D visited []) :
    ∀ c, Reachable D c → c ∈ visited := by
  intro c hr
  induction hr with
  | out => exact hI.out_mem
  | step _ hs ih => exact hI.closed _ ih (by simp) _ hs

/-! ### the node map resolves every id to a declaration with that id -/

def MapOK (D : Decls) (g : G) : Prop := ∀ kc ∈ g.nodeMap, kc.1 = D.id kc.2

theorem mapOK_mapNode (D : Decls) (g : G) (c : Cls) (h : MapOK D g) : MapOK D (g.mapNode (D.id c) c) := by
  intro kc hkc
  unfold G.mapNode at hkc
  split at hkc
  · simp only [List.mem_map] at hkc
    obtain ⟨x, hx, rfl⟩ := hkc
    split
    · next he => simpa using he
    · exact h x hx
  · simp only [List.mem_append, List.mem_singleton] at hkc
    rcases hkc with h1 | rfl
    · exact h kc h1
    · rfl

theorem nodeMap_addNode (g : G) (id : String) (a : NodeAttrs) : (g.addNode id a).nodeMap = g.nodeMap := by
  unfold G.addNode; split <;> rfl

theorem nodeMap_addEdge (g : G) (u v : String) (a : EdgeAttrs) : (g.addEdge u v a).nodeMap = g.nodeMap := by
  unfold G.addEdge; simp only []; split <;> simp [nodeMap_addNode]

theorem mapOK_of_eq (D : Decls) {g g' : G} (he : g'.nodeMap = g.nodeMap) (h : MapOK D g) : MapOK D g' := by
  intro kc hkc; rw [he] at hkc; exact h kc hkc

theorem mapOK_foldl {α} (D : Decls) (f : G → α → G) (hf : ∀ g a, MapOK D g → MapOK D (f g a)) (l : List α) (g : G)
    (h : MapOK D g) : MapOK D (l.foldl f g) := by
  induction l generalizing g with
  | nil => exact h
  | cons a l ih => exact ih _ (hf g a h)

theorem mapOK_applyMark (D : Decls) (g : G) (cur : Cls) (idx : Nat) (kw : String) (m : Mark) (h : MapOK D g) :
    MapOK D (applyMark D g cur idx kw m) := by
  cases m with
  | generic _ => exact h
  | input src =>
    exact mapOK_of_eq D (nodeMap_addEdge _ _ _ _) (mapOK_mapNode D g src h)
  | recurrent s d k =>
    simp only [applyMark]
    apply mapOK_of_eq D (g := (g.mapNode (D.id d) d)) ?_ (mapOK_mapNode D g d h)
    simp [G.addRec, nodeMap_addEdge, nodeMap_addNode]
  | switch dec cases name =>
    simp only [applyMark]
    apply mapOK_of_eq D (g := cases.foldl (addCase D s!"switch__{name}")
      (((g.mapNode (D.id dec) dec).addNode s!"switch__{name}" { isSwitch := true }).addEdge (D.id dec) s!"switch__{name}"
        { isSwitch := true })) (by simp [G.addSynth, nodeMap_addEdge])
    apply mapOK_foldl
    · intro g' lc hg'
      exact mapOK_of_eq D (nodeMap_addEdge _ _ _ _) (mapOK_mapNode D g' lc.2 hg')
    · exact mapOK_of_eq D (by simp [nodeMap_addEdge, nodeMap_addNode]) (mapOK_mapNode D g dec h)
  | oneOf cands =>
    simp only [applyMark]
    apply mapOK_of_eq D (g := cands.foldl (addCand D s!"input_one_of__{idx}___{D.id cur}")
      ((g.addNode s!"input_one_of__{idx}___{D.id cur}" { isOneofHead := true, oneofNodes := cands.map D.id }).addEdge
        (D.id D.input) s!"input_one_of__{idx}___{D.id cur}" {})) (by simp [G.addSynth, nodeMap_addEdge])
    apply mapOK_foldl
    · intro g' c hg'
      exact mapOK_of_eq D (by simp [addCand, nodeMap_addEdge, nodeMap_addNode]) (mapOK_mapNode D g' c hg')
    · exact mapOK_of_eq D (by simp [nodeMap_addEdge, nodeMap_addNode]) h

theorem mapOK_graphOf (D : Decls) (g : G) (cur : Cls) (h : MapOK D g) : MapOK D (graphOf D g cur) := by
  unfold graphOf
  simp only []
  have hfold : ∀ (l : List (String × Mark)) (g0 : G) (i : Nat), MapOK D g0 →
      MapOK D (l.foldl (fun (acc : G × Nat) (km : String × Mark) =>
        (applyMark D acc.1 cur acc.2 km.1 km.2, acc.2 + 1)) (g0, i)).1 := by
    intro l
    induction l with
    | nil => intro g0 i h0; exact h0
    | cons km l ih => intro g0 i h0; simp only [List.foldl_cons]; exact ih _ _ (mapOK_applyMark D g0 cur i km.1 km.2 h0)
  apply hfold
  have h1 : MapOK D (g.mapNode (D.get cur).ident cur) := mapOK_mapNode D g cur h
  split
  · exact mapOK_of_eq D (nodeMap_addEdge _ _ _ _) h1
  · exact h1

theorem traverse_mapOK (D : Decls) :
    ∀ (fuel : Nat) (g : G) (visited stack : List Cls) (g' : G) (visited' : List Cls), MapOK D g →
      traverse D fuel g visited stack = .ok (g', visited') → MapOK D g' := by
  intro fuel
  induction fuel with
  | zero => intro g v s g' v' h ht; simp [traverse] at ht; obtain ⟨rfl, _⟩ := ht; exact h
  | succ fuel ih =>
    intro g v s g' v' h ht
    simp only [traverse] at ht
    cases hl : s.getLast? with
    | none => simp [hl] at ht; obtain ⟨rfl, _⟩ := ht; exact h
    | some cur =>
      simp only [hl, visitOne] at ht
      cases hv : validateNode (D.get cur) with
      | some e => simp [hv] at ht
      | none =>
        simp only [hv] at ht
        cases hmk : marksOf (D.get cur) with
        | error e => simp [hmk] at ht
        | ok ms =>
          simp only [hmk] at ht
          exact ih _ _ _ g' v' (mapOK_graphOf D g cur h) ht

end MLPE.Builder

import MLPE.Proofs.EngCore

/-! At-most-once: every execution of a node (an `on_node_start`) is paid for by a hide. -/
namespace MLPE.Eng
open MLPE

/-- per node: executions ≤ hides + 1, and an unprocessed node has used up none of its current credit -/
def CoreInv (k : Core) : Prop :=
  ∀ n, k.invCount n ≤ k.hideCount n + 1 ∧ ((k.proc n && !k.procHid n) = true ∨ k.invCount n ≤ k.hideCount n)

theorem coreInv_init : CoreInv init.core := by
  intro n; simp [init, St.core]

theorem coreInv_hide {s : St} (h : CoreInv s.core) (ns : List Node) : CoreInv (s.hide ns).core := by
  intro n
  have hn := h n
  simp only [St.core, St.hide] at hn ⊢
  by_cases hc : ns.contains n = true
  · simp only [hc, if_true]
    omega
  · simp only [hc]
    simpa using hn

theorem coreInv_refresh {s : St} (h : CoreInv s.core) (ns : List Node) : CoreInv (s.refresh ns).core := by
  unfold St.refresh
  split
  · exact h
  · exact coreInv_hide h _

/-- the processed check + mark of `_execute_node` -/
theorem coreInv_mark {s : St} (h : CoreInv s.core) (n : Node) (hp : s.procExists n = false) :
    CoreInv (s.markProcessed n).core := by
  intro m
  have hm := h m
  simp only [St.core, St.markProcessed] at hm ⊢
  by_cases hmn : m = n
  · subst hmn
    have hn : s.invCount m ≤ s.hideCount m := by
      rcases hm.2 with h1 | h1
      · simp [St.procExists] at hp
        cases hq : s.proc m <;> cases hr : s.procHid m <;> simp_all
      · exact h1
    simp
    omega
  · simp [upd, hmn]
    simpa using hm

theorem coreInv_nodeBegin (c : Ctx) (s : St) (obs : List Obs) (d : DagRef) (n : Node) (force : Bool)
    (below : List Frame) (inv : Nat) (h : CoreInv s.core) : CoreInv (nodeBegin c s obs d n force below inv).1.core := by
  unfold nodeBegin
  split <;> simpa using h

theorem coreInv_cbThen (c : Ctx) (s : St) (obs : List Obs) (frames : Nat → List Frame) (m : Nat)
    (k : St → List Obs → Out) (h : CoreInv s.core) (hk : ∀ s' obs', CoreInv s'.core → CoreInv (k s' obs').1.core) :
    CoreInv (cbThen c s obs frames m k).1.core := by
  unfold cbThen
  split
  · exact hk _ _ h
  · simpa using h

theorem coreInv_cbCall (c : Ctx) (cb : Cb) (n : Node) (s : St) (obs : List Obs) (frames : Nat → List Frame)
    (kOk : St → List Obs → Out) (kErr : Exc → St → List Obs → Out) (h : CoreInv s.core)
    (hk : ∀ s' obs', CoreInv s'.core → CoreInv (kOk s' obs').1.core)
    (he : ∀ e s' obs', CoreInv s'.core → CoreInv (kErr e s' obs').1.core) :
    CoreInv (cbCall c cb n s obs frames kOk kErr).1.core := by
  unfold cbCall
  split
  · exact he _ _ _ h
  · exact coreInv_cbThen _ _ _ _ _ _ h hk

theorem coreInv_nodeStart (c : Ctx) (s : St) (obs : List Obs) (d : DagRef) (n : Node) (force : Bool)
    (below : List Frame) (h : CoreInv s.core) : CoreInv (nodeStart c s obs d n force below).1.core := by
  unfold nodeStart
  split
  · split <;> simpa using h
  · next hp =>
    have hp' : s.procExists n = false := by simpa using hp
    have := coreInv_mark h n hp'
    exact coreInv_cbCall _ _ _ _ _ _ _ _ this (fun s' obs' h' => coreInv_nodeBegin _ _ _ _ _ _ _ _ h')
      (fun e s' obs' h' => by simpa using h')

theorem coreInv_dagInit (c : Ctx) (s : St) (obs : List Obs) (d : DagRef) (below : List Frame)
    (h : CoreInv s.core) : CoreInv (dagInit c s obs d below).1.core := by
  unfold dagInit
  simp only []
  have h0 : CoreInv ((s.refresh d.nodes).noteOrder (validOrder c.P (s.refresh d.nodes) d c.ord)).core := by
    simpa using coreInv_refresh h d.nodes
  split <;> simpa using h0

theorem coreInv_switchStart (c : Ctx) (s : St) (obs : List Obs) (d : DagRef) (n : Node) (below : List Frame)
    (h : CoreInv s.core) : CoreInv (switchStart c s obs d n below).1.core := by
  unfold switchStart
  simp only []
  split
  · split <;> simpa using h
  · split
    · simpa using h
    · apply coreInv_dagInit
      simpa using h

theorem coreInv_oneofTry (c : Ctx) (d : DagRef) (head : Node) (below : List Frame) (cands : List Node) :
    ∀ (s : St) (obs : List Obs), CoreInv s.core → CoreInv (oneofTry c d head below s obs cands).1.core := by
  induction cands with
  | nil =>
    intro s obs h
    simp only [oneofTry]
    split <;> simpa using h
  | cons cand rest ih =>
    intro s obs h
    simp only [oneofTry]
    split
    · simpa using h
    · next sub _ =>
      have h1 : CoreInv ((openCand s true cand).refresh sub.nodes).core := coreInv_refresh (by simpa using h) _
      split
      · split
        · apply ih; simpa using h1
        · simpa [oneofWin] using h1
      · simpa using h1

theorem coreInv_oneofWake (c : Ctx) (s : St) (obs : List Obs) (d : DagRef) (head cand : Node) (rest : List Node)
    (sub : DagRef) (below : List Frame) (h : CoreInv s.core) :
    CoreInv (oneofWake c s obs d head cand rest sub below).1.core := by
  unfold oneofWake
  split
  · split
    · exact coreInv_oneofTry _ _ _ _ _ _ _ h
    · simpa [oneofWin] using h
  · simpa using h

theorem coreInv_recIter (c : Ctx) (s : St) (obs : List Obs) (d : DagRef) (n start : Node) (g : DagRef) (k : Nat)
    (r : Val) (below : List Frame) (h : CoreInv s.core) : CoreInv (recIter c s obs d n start g k r below).1.core := by
  unfold recIter
  simp only []
  split
  · apply coreInv_dagInit
    exact h
  · split
    · apply coreInv_nodeStart
      exact coreInv_hide h _
    · split <;> simpa using h

theorem coreInv_recStart (c : Ctx) (s : St) (obs : List Obs) (d : DagRef) (n : Node) (r : Val) (below : List Frame)
    (h : CoreInv s.core) : CoreInv (recStart c s obs d n r below).1.core := by
  unfold recStart
  split
  · simpa using h
  · split
    · simpa using h
    · split
      · simpa using h
      · simp only []
        split
        · simpa using h
        · apply coreInv_recIter
          simpa using h

theorem coreInv_stepTask (c : Ctx) (s : St) (out : Out) (h : CoreInv s.core)
    (hs : stepTask c s = some out) : CoreInv out.1.core := by
  unfold stepTask at hs
  split at hs
  · simp at hs
  · split at hs
    · split at hs
      · obtain rfl := Option.some.inj hs; simpa using h
      · split at hs
        all_goals (try (split at hs))
        all_goals (try (split at hs))
        all_goals (first | (obtain rfl := Option.some.inj hs) | (simp at hs))
        all_goals (first
          | (simpa using h)
          | exact coreInv_dagInit _ _ _ _ _ h
          | exact coreInv_nodeStart _ _ _ _ _ _ _ h
          | exact coreInv_switchStart _ _ _ _ _ _ h
          | exact coreInv_recStart _ _ _ _ _ _ _ h
          | exact coreInv_recIter _ _ _ _ _ _ _ _ _ _ h
          | exact coreInv_oneofTry _ _ _ _ _ _ _ h
          | exact coreInv_oneofWake _ _ _ _ _ _ _ _ _ h
          | exact coreInv_cbThen _ _ _ _ _ _ h (fun s' obs' h' => by
              first
                | (simpa using h')
                | exact coreInv_nodeBegin _ _ _ _ _ _ _ _ h'))
    all_goals simp at hs

theorem coreInv_step (P : Program) (s : St) (ch : Choice) (out : Out) (h : CoreInv s.core)
    (hs : step P s ch = some out) : CoreInv out.1.core := by
  cases ch with
  | run t ord pick => exact coreInv_stepTask _ _ _ h hs
  | gate n inv att =>
    simp only [step] at hs
    split at hs
    · simp at hs
    · obtain rfl := Option.some.inj hs; exact h
  | timer t =>
    simp only [step] at hs
    split at hs
    · split at hs
      · obtain rfl := Option.some.inj hs; simpa using h
      all_goals simp at hs
    · simp at hs
  | cancelCaller =>
    simp only [step] at hs
    obtain rfl := Option.some.inj hs; simpa using h

theorem coreInv_reach {P : Program} {s : St} (h : Reach P s) : CoreInv s.core := by
  induction h with
  | init => exact coreInv_init
  | step _ hs ih => exact coreInv_step _ _ _ _ ih hs

end MLPE.Eng

import MLPE.Eng

/-! Reachability and frame lemmas for the engine model: which primitive touches which field. -/
namespace MLPE.Eng
open MLPE

/-- states reachable from the initial state of a run by any sequence of enabled choices:
any interleaving of task sections, any completion order of bodies and timers, cancellation at any point -/
inductive Reach (P : Program) : St → Prop
  | init : Reach P init
  | step {s s' : St} {c : Choice} {obs : List Obs} : Reach P s → step P s c = some (s', obs) → Reach P s'

/-- executions with their observation log -/
inductive Exec (P : Program) : St → List Obs → Prop
  | init : Exec P init []
  | step {s s' : St} {log obs : List Obs} {c : Choice} :
      Exec P s log → step P s c = some (s', obs) → Exec P s' (log ++ obs)

theorem Exec.reach {P : Program} {s : St} {log : List Obs} (h : Exec P s log) : Reach P s := by
  induction h with
  | init => exact .init
  | step _ hs ih => exact .step ih hs

/-- the part of the storage the at-most-once argument is about -/
structure Core where
  proc : Node → Bool
  procHid : Node → Bool
  invCount : Node → Nat
  hideCount : Node → Nat

def St.core (s : St) : Core := ⟨s.proc, s.procHid, s.invCount, s.hideCount⟩

@[simp] theorem core_setTask (s : St) (t : Nat) (tk : Task) : (s.setTask t tk).core = s.core := rfl
@[simp] theorem core_notify (s : St) (k : Key) : (notify s k).core = s.core := rfl
@[simp] theorem core_setEvent (s : St) (n : Node) : (setEvent s n).core = s.core := rfl
@[simp] theorem core_setRes (s : St) (n : Node) (v : Val) : (s.setRes n v).core = s.core := rfl
@[simp] theorem core_spawn (s : St) (fs : List Frame) (nm : TaskName) : (spawn s fs nm).1.core = s.core := rfl

@[simp] theorem core_noteOrder (s : St) (ok : Bool) : (s.noteOrder ok).core = s.core := by
  unfold St.noteOrder; split <;> rfl

/-- the ghost flag is the only field `noteOrder` may change -/
theorem noteOrder_fields (s : St) (ok : Bool) :
    (s.noteOrder ok).res = s.res ∧ (s.noteOrder ok).resHid = s.resHid ∧ (s.noteOrder ok).proc = s.proc ∧
    (s.noteOrder ok).procHid = s.procHid ∧ (s.noteOrder ok).active = s.active ∧ (s.noteOrder ok).sw = s.sw ∧
    (s.noteOrder ok).evSet = s.evSet ∧ (s.noteOrder ok).opened = s.opened ∧ (s.noteOrder ok).additional = s.additional ∧
    (s.noteOrder ok).invCount = s.invCount ∧ (s.noteOrder ok).hideCount = s.hideCount ∧
    (s.noteOrder ok).tasks = s.tasks ∧ (s.noteOrder ok).outcome = s.outcome := by
  unfold St.noteOrder; split <;> exact ⟨rfl, rfl, rfl, rfl, rfl, rfl, rfl, rfl, rfl, rfl, rfl, rfl, rfl⟩

@[simp] theorem noteOrder_true (s : St) : s.noteOrder true = s := rfl

/-- without a restart nothing is invalidated, and a DAG that starts hides nothing -/
theorem refresh_of_nil {s : St} (h : s.stale = []) (ns : List Node) : s.refresh ns = s := by
  simp [St.refresh, h]

@[simp] theorem core_setSw (s : St) (n : Node) (lc : Label × Node) : (s.setSw n lc).core = s.core := rfl
@[simp] theorem core_setActive (s : St) (a : List (Node × Node)) : (s.setActive a).core = s.core := rfl
@[simp] theorem core_setAdditional (s : St) (n : Node) (v : Val) : (s.setAdditional n v).core = s.core := rfl
@[simp] theorem core_setOutcome (s : St) (o : Outcome) : (s.setOutcome o).core = s.core := rfl

@[simp] theorem core_notifyAll (s : St) (ks : List Key) : (notifyAll s ks).core = s.core := by
  unfold notifyAll
  induction ks generalizing s with
  | nil => rfl
  | cons k ks ih => simp [List.foldl, ih]

@[simp] theorem core_cancelTask (s : St) (t : Nat) : (cancelTask s t).core = s.core := by
  unfold cancelTask
  split
  · rfl
  · split <;> rfl

@[simp] theorem core_cancelTasks (s : St) (ts : List Nat) : (cancelTasks s ts).core = s.core := by
  unfold cancelTasks
  induction ts generalizing s with
  | nil => rfl
  | cons t ts ih => simp [List.foldl, ih]

end MLPE.Eng

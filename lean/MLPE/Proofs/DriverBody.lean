import MLPE.DriverEng

/-!
# The node behaviours the driver builds satisfy the value hypotheses of the fragment theorems

`PlainP` / `OneP` assume of a program that no body returns a `Recurrent` marker or an exception object as its *value*
(`noRecur`), and the same of `get_default` (`noRecurD`).  These are statements about all arguments, so the executable
checks (`plainCheck`, `onePB`) cannot decide them for an arbitrary `Program`.  For the programs the driver parses from a
generated spec they hold by construction of `bodyOf`: a body that is not a recurrent destination returns a provenance string,
a label, or a JSON constant (`jVal` yields `None`, a string or an integer) — never a marker, never an exception object.
-/
namespace MLPE.Eng
open MLPE Lean

theorem jVal_plain (j : Json) : (jVal j).isRecur = false ∧ (jVal j).isExc = false := by
  unfold jVal
  split <;> exact ⟨rfl, rfl⟩

/-- the values of a body spec are plain values -/
def BodySpec.plainVals (b : BodySpec) : Prop :=
  (b.const.isRecur = false ∧ b.const.isExc = false) ∧ ∀ v ∈ b.seq, v.isRecur = false ∧ v.isExc = false

theorem getD_plain {l : List Val} (h : ∀ v ∈ l, v.isRecur = false ∧ v.isExc = false) (i : Nat) :
    ((l[i]?).getD .none).isRecur = false ∧ ((l[i]?).getD .none).isExc = false := by
  cases hx : l[i]? with
  | none => exact ⟨rfl, rfl⟩
  | some v => exact h v (List.mem_of_getElem? hx)

/-- **`noRecur` for driver-built bodies**: a node that is not a recurrent destination never returns a marker or an
exception object as its value, whatever the arguments, invocation and attempt -/
theorem bodyOf_noRecur (cfg : NodeCfg) (b : BodySpec) (n : Node) (kw : Kwargs) (inv att : Nat) (v : Val)
    (hrec : b.isRec = false) (hv : b.plainVals) (h : bodyOf cfg b n kw inv att = .ret v) :
    v.isRecur = false ∧ v.isExc = false := by
  unfold bodyOf at h
  split at h
  · cases h
  · simp only [] at h
    split at h
    · cases h
    · simp only [hrec, Bool.false_and, Bool.false_eq_true, if_false] at h
      split at h
      · cases h; exact ⟨rfl, rfl⟩
      · split at h
        · cases h; exact getD_plain hv.2 _
        · split at h
          · cases h; exact getD_plain hv.2 _
          · cases h; exact hv.1

/-- what `parseCfg` reads from JSON are plain values -/
theorem parseCfg_plainVals (j : Json) : (parseCfg j).2.plainVals := by
  unfold parseCfg BodySpec.plainVals
  simp only []
  refine ⟨jVal_plain _, ?_⟩
  intro v hv
  simp only [List.mem_map] at hv
  obtain ⟨x, _, rfl⟩ := hv
  exact jVal_plain x


theorem plainVals_default : (default : BodySpec).plainVals := ⟨⟨rfl, rfl⟩, fun v hv => by cases hv⟩

theorem plainVals_empty : ({} : BodySpec).plainVals := ⟨⟨rfl, rfl⟩, fun v hv => by cases hv⟩

/-- **the value hypotheses of `PlainP` / `OneP` hold of every program the driver builds** from a spec without recurrent
destinations and without failing defaults: `noRecur`, `noRecurD`, `dfltOk` -/
theorem mkProgram_values (g : Graph) (cfgs : List (NodeCfg × BodySpec)) (ik : Kwargs) (poolsOk : Bool)
    (cb : Cb → Node → Nat) (cr : Cb → Node → Option Exc)
    (hvals : ∀ c ∈ cfgs, c.2.plainVals) (hrec : noRecDest cfgs = true) :
    (∀ n kw i k v, (mkProgram g cfgs ik poolsOk cb cr).body n kw i k = .ret v → v.isRecur = false ∧ v.isExc = false) ∧
    (∀ n kw, ((mkProgram g cfgs ik poolsOk cb cr).dflt n kw).isRecur = false ∧
             ((mkProgram g cfgs ik poolsOk cb cr).dflt n kw).isExc = false) := by
  refine ⟨?_, fun n kw => ⟨rfl, rfl⟩⟩
  intro n kw i k v h
  simp only [mkProgram] at h
  cases hx : cfgs[n]? with
  | none =>
    simp only [hx, Option.map_none, Option.getD_none] at h
    exact bodyOf_noRecur _ _ n kw i k v rfl plainVals_empty h
  | some c =>
    simp only [hx, Option.map_some, Option.getD_some] at h
    have hm : c ∈ cfgs := List.mem_of_getElem? hx
    have hr : c.2.isRec = false := by
      have := (List.all_eq_true.mp hrec) c hm
      simpa using this
    exact bodyOf_noRecur _ _ n kw i k v hr (hvals c hm) h

/-- `dfltOk` for driver-built programs: no node of the spec has a failing default -/
theorem mkProgram_dfltOk (g : Graph) (cfgs : List (NodeCfg × BodySpec)) (ik : Kwargs) (poolsOk : Bool)
    (cb : Cb → Node → Nat) (cr : Cb → Node → Option Exc) (h : cfgs.all (fun c => c.2.dfltRaise.isNone) = true) :
    ∀ n, (mkProgram g cfgs ik poolsOk cb cr).dfltRaise n = none := by
  intro n
  simp only [mkProgram]
  cases hx : cfgs[n]? with
  | none => rfl
  | some c =>
    have := (List.all_eq_true.mp h) c (List.mem_of_getElem? hx)
    simp only [Option.map_some, Option.getD_some]
    cases hd : c.2.dfltRaise with
    | none => rfl
    | some x => simp [hd] at this

/-- the configurations `parseProgram` reads are `parseCfg` images, hence plain-valued -/
theorem parsed_cfgs_plainVals (js : List Json) : ∀ c ∈ js.map parseCfg, c.2.plainVals := by
  intro c hc
  obtain ⟨j, _, rfl⟩ := List.mem_map.mp hc
  exact parseCfg_plainVals j

end MLPE.Eng

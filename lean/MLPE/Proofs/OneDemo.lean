import MLPE.Proofs.Safe

/-!
# A concrete one-of pipeline, its dataflow solution (non-vacuity of the one-of safety theorems)

`0` input · `1` first candidate, whose body raises · `2` second candidate · `3` the synthetic one-of head with candidates
`[1, 2]` (edges `0 → 3`, `1 → 3`, `2 → 3`) · `4` output, reading the one-of as `a` and node `0` as `b`.
-/
namespace MLPE.Eng
open MLPE

def demoOne : Program :=
  { g := { nodes := [0, 1, 2, 3, 4],
           edges := [{ u := 0, v := 1, kwarg := some "x" }, { u := 0, v := 2, kwarg := some "x" },
                     { u := 0, v := 3 }, { u := 1, v := 3 }, { u := 2, v := 3 },
                     { u := 3, v := 4, kwarg := some "a" }, { u := 0, v := 4, kwarg := some "b" }],
           attr := fun n => if n = 3 then { isOneofHead := true, oneofNodes := [1, 2] }
                            else if n = 1 ∨ n = 2 then { isOneofChild := true } else {},
           input := 0, output := 4 },
    cfg := fun _ => {},
    body := fun n _ _ _ => if n = 1 then .raise ⟨"E0", 1, 0, 1⟩ else .ret (.int n),
    dflt := fun _ _ => .none,
    inputKw := [] }

theorem demoOne_heads : ∀ h, demoOne.g.isOneofHead h = true → h = 3 := by
  intro h hh
  simp only [demoOne, Graph.isOneofHead] at hh
  split at hh
  · assumption
  · split at hh <;> cases hh

theorem demoOne_oneP : OneP demoOne := by
  refine oneP_of_check (by decide) (fun h hh => by rw [demoOne_heads h hh]; decide) ?_ (fun _ _ => ⟨rfl, rfl⟩)
    (fun _ => rfl)
  intro n kw i k v h
  simp only [demoOne] at h
  split at h <;> first | (cases h; exact ⟨rfl, rfl⟩) | cases h

/-- the dataflow values: candidate `1` has none, the head has the value of candidate `2` -/
def demoOneVal : Node → Option Val := fun n =>
  if n = 1 then none else if n = 3 then some (.int 2) else some (.int n)

theorem demoOne_edges_small : ∀ e ∈ demoOne.g.edges, e.v ≤ 4 := by decide

theorem demoOneVal_solution : SolutionOne demoOne demoOneVal := by
  have hsmall : ∀ n, n ≤ 4 →
      (demoOne.g.isSwitch n = false → demoOne.g.isOneofHead n = false →
        demoOneVal n = if (demoOne.g.preds n).all (fun p => (demoOneVal p).isSome) then
          valueOf demoOne n (kwFrom demoOne demoOneVal n) else none) := by
    decide
  refine ⟨?_, ?_, ?_, fun _ => rfl⟩
  · intro n hn hh
    by_cases h4 : n ≤ 4
    · exact hsmall n h4 hn hh
    · -- a node outside the graph has no sources
      have h5 : 4 < n := Nat.lt_of_not_le h4
      have hnil : demoOne.g.edges.filter (fun e => e.v == n) = [] := by
        rw [List.filter_eq_nil_iff]
        intro e he
        have := demoOne_edges_small e he
        simp only [beq_iff_eq]
        intro hev
        rw [hev] at this
        exact absurd this h4
      have hp : demoOne.g.preds n = [] := by simp [Graph.preds, hnil]
      have hn0 : (n == demoOne.g.input) = false := by
        simp only [demoOne, beq_eq_false_iff_ne]
        intro h0; rw [h0] at h5; exact absurd h5 (by decide)
      have hn1 : n ≠ 1 := by intro h0; rw [h0] at h5; exact absurd h5 (by decide)
      have hn3 : n ≠ 3 := by intro h0; rw [h0] at h5; exact absurd h5 (by decide)
      simp only [hp, List.all_nil, if_true, kwFrom, hn0, hnil, List.foldl_nil, Bool.false_eq_true, if_false]
      simp [valueOf, finalOf, Retry.run, Retry.loop, Retry.decide, demoOne, demoOneVal, hn1, hn3,
        NodeCfg.attemptsEff]
  · intro S hS
    simp only [demoOne, Graph.isSwitch] at hS
    split at hS
    · cases hS
    · split at hS <;> cases hS
  · intro h hh
    rw [demoOne_heads h hh]
    decide

end MLPE.Eng

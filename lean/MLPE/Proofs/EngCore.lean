import MLPE.Proofs.EngBasic

/-! Which handler of the engine model can change the `Core` (processed flags, invocation and hide
counters): only `nodeStart` (marks the node processed, counts the invocation) and `St.hide`. -/
namespace MLPE.Eng
open MLPE

@[simp] theorem core_endTask (c : Ctx) (s : St) (obs : List Obs) (r : TaskRes) :
    (endTask c s obs r).1.core = s.core := by
  unfold endTask; split <;> rfl

@[simp] theorem core_block (c : Ctx) (s : St) (obs : List Obs) (fs : List Frame) (w : Wait) :
    (block c s obs fs w).1.core = s.core := by
  unfold block; split <;> rfl

@[simp] theorem core_yieldNow (c : Ctx) (s : St) (obs : List Obs) (fs : List Frame) :
    (yieldNow c s obs fs).1.core = s.core := by
  unfold yieldNow; split <;> rfl

@[simp] theorem core_retTo (c : Ctx) (s : St) (obs : List Obs) (fs : List Frame) (v : Val) :
    (retTo c s obs fs v).1.core = s.core := by
  unfold retTo
  split
  · simp
  · split <;> rfl

@[simp] theorem core_nodeFinally (P : Program) (s : St) (d : DagRef) (n : Node) (u : Bool) :
    (nodeFinally P s d n u).core = s.core := by
  unfold nodeFinally
  split
  · simp
  · simp

@[simp] theorem core_unwindFrames (P : Program) (s : St) (fs : List Frame) :
    (unwindFrames P s fs).core = s.core := by
  induction fs generalizing s with
  | nil => rfl
  | cons f fs ih =>
    cases f <;> simp only [unwindFrames, ih]
    split <;> simp

@[simp] theorem core_raiseOut (c : Ctx) (s : St) (obs : List Obs) (fs : List Frame) (r : TaskRes) :
    (raiseOut c s obs fs r).1.core = s.core := by
  simp [raiseOut]

@[simp] theorem core_dagWaitDest (c : Ctx) (s : St) (obs : List Obs) (d : DagRef) (below : List Frame) :
    (dagWaitDest c s obs d below).1.core = s.core := by
  unfold dagWaitDest
  split
  · split <;> simp
  · simp

@[simp] theorem core_dagLaunch (c : Ctx) (d : DagRef) (below : List Frame) (s : St) (obs : List Obs) (rest : List Node) :
    (dagLaunch c d below s obs rest).1.core = s.core := by
  induction rest generalizing s obs with
  | nil => simp [dagLaunch]
  | cons n rest ih =>
    simp only [dagLaunch]
    split
    · split
      · simp only [core_retTo, core_notify, core_notifyAll]
        split
        · split <;> simp
        · rfl
      · simp only [ih]; simp
    · simp

theorem core_cbThen (c : Ctx) (s : St) (obs : List Obs) (frames : Nat → List Frame) (m : Nat)
    (k : St → List Obs → Out) (hk : ∀ s' obs', (k s' obs').1.core = s'.core) :
    (cbThen c s obs frames m k).1.core = s.core := by
  unfold cbThen
  split
  · exact hk _ _
  · simp

theorem core_cbCall (c : Ctx) (cb : Cb) (n : Node) (s : St) (obs : List Obs) (frames : Nat → List Frame)
    (kOk : St → List Obs → Out) (kErr : Exc → St → List Obs → Out)
    (hk : ∀ s' obs', (kOk s' obs').1.core = s'.core) (he : ∀ e s' obs', (kErr e s' obs').1.core = s'.core) :
    (cbCall c cb n s obs frames kOk kErr).1.core = s.core := by
  unfold cbCall
  split
  · exact he _ _ _
  · exact core_cbThen _ _ _ _ _ _ hk

@[simp] theorem core_nodeCbRaise (c : Ctx) (s : St) (obs : List Obs) (d : DagRef) (n : Node) (below : List Frame)
    (e : Exc) : (nodeCbRaise c s obs d n below e).1.core = s.core := by
  simp [nodeCbRaise]

@[simp] theorem core_nodeCbRaiseInTry (c : Ctx) (s : St) (obs : List Obs) (d : DagRef) (n : Node) (below : List Frame)
    (e : Exc) : (nodeCbRaiseInTry c s obs d n below e).1.core = s.core := by
  simp [nodeCbRaiseInTry]


@[simp] theorem core_nodeFinish (c : Ctx) (s : St) (obs : List Obs) (d : DagRef) (n : Node) (below : List Frame) :
    (nodeFinish c s obs d n below).1.core = s.core := by
  simp [nodeFinish]

@[simp] theorem core_recSpawn (P : Program) (s : St) (d : DagRef) (n : Node) (v : Val) :
    (recSpawn P s d n v).core = s.core := by
  unfold recSpawn; split <;> simp

@[simp] theorem core_storeIf (s : St) (b : Bool) (n : Node) (v : Val) : (storeIf s b n v).core = s.core := by
  unfold storeIf; split <;> simp

@[simp] theorem core_nodePost (c : Ctx) (s : St) (obs : List Obs) (d : DagRef) (n : Node) (below : List Frame)
    (v : Val) (e : Bool) : (nodePost c s obs d n below v e).1.core = s.core := by
  unfold nodePost
  simp only []
  split
  · rw [core_cbCall _ _ _ _ _ _ _ _ (fun s' obs' => core_nodeFinish _ _ _ _ _ _) (fun e s' obs' => core_nodeCbRaise _ _ _ _ _ _ _)]
    simp
  · simp

@[simp] theorem core_nodeFailCont (c : Ctx) (s : St) (obs : List Obs) (d : DagRef) (n : Node) (below : List Frame)
    (e : Exc) : (nodeFailCont c s obs d n below e).1.core = s.core := by
  unfold nodeFailCont
  split <;> simp

@[simp] theorem core_nodeFail (c : Ctx) (s : St) (obs : List Obs) (d : DagRef) (n : Node) (below : List Frame)
    (e : Exc) : (nodeFail c s obs d n below e).1.core = s.core := by
  unfold nodeFail
  exact core_cbCall _ _ _ _ _ _ _ _ (fun s' obs' => core_nodeFailCont _ _ _ _ _ _ _) (fun e s' obs' => core_nodeCbRaise _ _ _ _ _ _ _)

@[simp] theorem core_nodeSuccess (c : Ctx) (s : St) (obs : List Obs) (d : DagRef) (n : Node) (below : List Frame)
    (v : Val) : (nodeSuccess c s obs d n below v).1.core = s.core := by
  unfold nodeSuccess
  exact core_cbCall _ _ _ _ _ _ _ _ (fun s' obs' => core_nodePost _ _ _ _ _ _ _ _) (fun e s' obs' => core_nodeCbRaiseInTry _ _ _ _ _ _ _)

@[simp] theorem core_nodeDefault (c : Ctx) (s : St) (obs : List Obs) (d : DagRef) (n : Node) (below : List Frame)
    (kw : Kwargs) : (nodeDefault c s obs d n below kw).1.core = s.core := by
  unfold nodeDefault
  split
  · simp
  · split <;> simp

/-- a `get_default` that returns: the default is the node's value -/
theorem nodeDefault_of_none (c : Ctx) (s : St) (obs : List Obs) (d : DagRef) (n : Node) (below : List Frame)
    (kw : Kwargs) (h : c.P.dfltRaise n = none) :
    nodeDefault c s obs d n below kw = nodeSuccess c s (obs ++ [.dflt n kw]) d n below (c.P.dflt n kw) := by
  simp [nodeDefault, h]

@[simp] theorem core_nodeSleep (c : Ctx) (s : St) (obs : List Obs) (d : DagRef) (n : Node) (force : Bool)
    (below : List Frame) (k : Nat) (kw : Kwargs) (inv : Nat) :
    (nodeSleep c s obs d n force below k kw inv).1.core = s.core := by
  unfold nodeSleep
  simp only []
  split <;> simp

@[simp] theorem core_nodeAfterBody (c : Ctx) (s : St) (obs : List Obs) (d : DagRef) (n : Node) (force : Bool)
    (below : List Frame) (k : Nat) (kw : Kwargs) (inv : Nat) (o : BodyOutcome) :
    (nodeAfterBody c s obs d n force below k kw inv o).1.core = s.core := by
  unfold nodeAfterBody
  split
  · simp
  · simp only []
    repeat' split
    all_goals (first | simp | exact core_cbCall _ _ _ _ _ _ _ _ (fun s' obs' => core_nodeSleep _ _ _ _ _ _ _ _ _ _) (fun e s' obs' => core_nodeCbRaiseInTry _ _ _ _ _ _ _))

@[simp] theorem core_nodeAttempt (c : Ctx) (s : St) (obs : List Obs) (d : DagRef) (n : Node) (force : Bool)
    (below : List Frame) (k : Nat) (kw : Kwargs) (inv : Nat) :
    (nodeAttempt c s obs d n force below k kw inv).1.core = s.core := by
  unfold nodeAttempt
  split
  · simp
  · simp only []
    split <;> simp

end MLPE.Eng

namespace MLPE.Eng
open MLPE

@[simp] theorem core_openCand (s : St) (o : Bool) (b : Node) : (openCand s o b).core = s.core := by
  unfold openCand; split <;> rfl

@[simp] theorem core_reduced (P : Program) (s : St) (a b : Node) (r o n : Bool) :
    (reduced P s a b r o n).1.core = s.core := by
  simp [reduced]

@[simp] theorem core_oneofWin (c : Ctx) (s : St) (obs : List Obs) (head cand : Node) (below : List Frame) :
    (oneofWin c s obs head cand below).1.core = s.core := by
  simp [oneofWin]

@[simp] theorem core_recFinish (c : Ctx) (s : St) (obs : List Obs) (n start : Node) (below : List Frame) :
    (recFinish c s obs n start below).1.core = s.core := by
  simp [recFinish]

@[simp] theorem core_mgrReturn (c : Ctx) (s : St) (obs : List Obs) (o : Outcome) :
    (mgrReturn c s obs o).1.core = s.core := by
  simp [mgrReturn]

@[simp] theorem core_mgrComplete (c : Ctx) (s : St) (obs : List Obs) (o : Outcome) :
    (mgrComplete c s obs o).1.core = s.core := by
  unfold mgrComplete
  split
  · simp
  · exact core_cbCall _ _ _ _ _ _ _ _ (fun s' obs' => core_mgrReturn _ _ _ _) (fun e s' obs' => core_mgrReturn _ _ _ _)

@[simp] theorem core_mgrFinish (c : Ctx) (s : St) (obs : List Obs) : (mgrFinish c s obs).1.core = s.core := by
  simp [mgrFinish]

@[simp] theorem core_mgrCheck (c : Ctx) (s : St) (obs : List Obs) : (mgrCheck c s obs).1.core = s.core := by
  unfold mgrCheck; split <;> simp

@[simp] theorem core_mgrBegin (c : Ctx) (s : St) (obs : List Obs) : (mgrBegin c s obs).1.core = s.core := by
  unfold mgrBegin
  split
  · simp
  · split <;> simp

@[simp] theorem core_mgrStart (c : Ctx) (s : St) (obs : List Obs) : (mgrStart c s obs).1.core = s.core := by
  unfold mgrStart
  exact core_cbCall _ _ _ _ _ _ _ _ (fun s' obs' => core_mgrBegin _ _ _) (fun e s' obs' => core_mgrReturn _ _ _ _)

@[simp] theorem core_deliverCancel (c : Ctx) (s : St) (tk : Task) : (deliverCancel c s tk).1.core = s.core := by
  unfold deliverCancel
  split <;> simp

end MLPE.Eng

import MLPE.Proofs.Safe
import MLPE.Proofs.WakeUp
import MLPE.LiveSpec

/-!
# Stuck-freedom of pipelines with switches (no one-of, no recurrent subgraph), under every schedule

`Struct`: an invariant of every state of a pending run that rules out the idle-and-pending state: some task is runnable,
or a node body / retry timer is outstanding.  Values play no role.  The invariant describes every task by its name and
frame stack (`TaskOK`), keeps the bookkeeping of the launch loops (`Launched`: every node of a DAG that its loop has
passed is processed, or its fresh task is about to start, or — a switch node — has its `_run_switch` task), and states *no
lost wake-up* the way the code guarantees it: `run()` blocked ⇒ no task has failed and the output has no result; a
node's waiter blocked ⇒ the node is being executed by a live task; a launch loop blocked on `cond[m]` ⇒ `m` is not ready,
or it became ready because a switch source recorded its decision when the selected case had been computed already — and
then the `_run_switch` task of that switch has not returned yet: it notifies its consumers when it does.

Scope: collaborators (event managers, artifact store) that complete **without suspending** (they may raise): a result
is then stored and announced in one section.  (For plain pipelines `Proofs/Plain.lean` also covers suspending
collaborators.)
-/
namespace MLPE.Eng
open MLPE

/-! ### vocabulary -/

/-- the task can make progress by itself: it is runnable, or waits for a node body or a retry timer -/
def Task.live (tk : Task) : Prop :=
  (∃ rv, tk.st = .runnable rv) ∨ (∃ n i a o, tk.st = .blocked (.gate n i a o)) ∨ (∃ n i a d, tk.st = .blocked (.sleep n i a d))

def Task.nonDone (tk : Task) : Prop := ∀ r, tk.st ≠ .done r

theorem not_stuck_of_live {s : St} {i : Nat} {tk : Task} (h : s.tasks[i]? = some tk) (hl : tk.live) : stuck s = false := by
  have hm : tk ∈ s.tasks := List.mem_of_getElem? h
  unfold stuck
  rcases hl with ⟨rv, h1⟩ | ⟨n, i', a, o, h1⟩ | ⟨n, i', a, d, h1⟩
  · have : s.tasks.any isRunnable = true := List.any_eq_true.mpr ⟨tk, hm, by simp [isRunnable, h1]⟩
    simp [this]
  · have : hasExternal s = true := by
      unfold hasExternal; exact List.any_eq_true.mpr ⟨tk, hm, by simp [h1]⟩
    simp [this]
  · have : hasExternal s = true := by
      unfold hasExternal; exact List.any_eq_true.mpr ⟨tk, hm, by simp [h1]⟩
    simp [this]

/-- the node frame is past `on_node_start`: the task executes the node -/
def NodePc.exec : NodePc → Bool
  | .start => false
  | .evWait => false
  | _ => true

/-- the points at which a node task rests when the collaborators do not suspend: awaiting the body, the retry timer -/
def NodePc.rests : NodePc → Bool
  | .body _ _ _ => true
  | .sleep _ _ _ => true
  | _ => false

/-- a live task that is executing `n` (it marked `n` as processed) -/
def Executor (s : St) (n : Node) : Prop :=
  ∃ (i : Nat) (tk : Task), s.tasks[i]? = some tk ∧ tk.live ∧ ∃ (d : DagRef) (f : Bool) (pc : NodePc),
    tk.frames = [.node d n f pc] ∧ pc.exec = true

/-- a `_run_switch` task for `S` that has not returned and is not sitting in the final wait of its sub-DAG: it is going
to notify the consumers of `S` -/
def SwOwner (s : St) (S : Node) : Prop :=
  ∃ (i : Nat) (tk : Task), s.tasks[i]? = some tk ∧ tk.nonDone ∧
    ((∃ d, tk.frames = [.switchStart d S]) ∨ (∃ d, tk.frames = [.switchRet d S]) ∨
     (∃ d sub, tk.frames = [.dagInit sub, .switchRet d S]) ∨
     (∃ d sub rest, tk.frames = [.dagLaunch sub rest, .switchRet d S]))

/-- somebody is still going to notify `cond[m]` -/
def OwnerM (P : Program) (s : St) (m : Node) : Prop := ∃ S ∈ basePreds P m, P.g.isSwitch S = true ∧ SwOwner s S

/-- the launch loop has dealt with `q`: an ordinary node is processed or its freshly created task is about to start; a
switch node has its `_run_switch` task -/
def Launched (P : Program) (s : St) (q : Node) : Prop :=
  if P.g.isSwitch q then ∃ (i : Nat) (tk : Task), s.tasks[i]? = some tk ∧ tk.name = .node q
  else s.proc q = true ∨ ∃ (i : Nat) (tk : Task) (d : DagRef), s.tasks[i]? = some tk ∧ tk.frames = [.node d q false .start] ∧
    tk.st = .runnable .go

/-- what the liveness argument needs to know about a DAG a launch loop works on -/
structure DagOK (P : Program) (d : DagRef) : Prop where
  notRec : d.isRec = false
  notOne : d.isOneof = false
  closed : ∀ m ∈ d.nodes, ∀ u ∈ basePreds P m, u ∈ d.nodes

/-- every dependency of a node still to be launched that is itself still to be launched comes earlier -/
def TopoRest (P : Program) (rest : List Node) : Prop :=
  ∀ (pre : List Node) (m : Node) (post : List Node), rest = pre ++ m :: post → ∀ u ∈ basePreds P m, u ∉ m :: post

/-- the sub-DAG of switch `S` runs up to the recorded case, all of whose nodes are at most as deep as the case -/
structure SubOK' (P : Program) (depth : Node → Nat) (s : St) (sub : DagRef) (S : Node) : Prop where
  dag  : DagOK P sub
  sel  : ∃ l c, s.sw S = some (l, c) ∧ sub.dest = some c ∧ c ∈ sub.nodes ∧ ∀ x ∈ sub.nodes, depth x ≤ depth c

/-- the frames of a `_run_dag`: entry, launch loop, final wait -/
inductive DagFrame (P : Program) (s : St) : Frame → DagRef → Prop
  | init (d : DagRef) : DagFrame P s (.dagInit d) d
  | launch (d : DagRef) (m : Node) (rest : List Node) :
      (∀ q ∈ d.nodes, q ∉ m :: rest → Launched P s q) → (∀ q ∈ m :: rest, q ∈ d.nodes) → TopoRest P (m :: rest) →
      DagFrame P s (.dagLaunch d (m :: rest)) d
  | wait (d : DagRef) : (∀ q ∈ d.nodes, Launched P s q) → DagFrame P s (.dagWaitDest d) d

/-- how a launch-loop task may be suspended: runnable, or blocked on the condition of the node at the head of its list —
and then, if that node is ready after all, somebody is still going to notify the condition (no lost wake-up) -/
def LaunchSt (P : Program) (s : St) (tk : Task) : Frame → Prop
  | .dagInit _ => ∃ rv, tk.st = .runnable rv
  | .dagLaunch d (m :: _) => d.isRec = false ∧
      ((∃ rv, tk.st = .runnable rv) ∨ (tk.st = .blocked (.cond (.node m)) ∧ (ready P s d m = true → OwnerM P s m)))
  | .dagWaitDest d => (∃ rv, tk.st = .runnable rv) ∨ tk.st = .blocked (.cond d.destKey)
  | _ => False

/-- every task, by name and frame stack -/
inductive TaskOK (P : Program) (depth : Node → Nat) (s : St) : Task → Prop
  | callerStart (tk : Task) : tk.name = .caller → tk.frames = [.mgrStart] → (∃ rv, tk.st = .runnable rv) →
      s.tasks.length = 1 → (∀ n, s.proc n = false) → (∀ n, s.evSet n = false) → (∀ S, s.sw S = none) →
      TaskOK P depth s tk
  | callerWait (tk : Task) : tk.name = .caller → tk.frames = [.mgrWait] →
      ((∃ rv, tk.st = .runnable rv) ∨
       (tk.st = .blocked (.cond .run) ∧ taskErrors s = [] ∧ s.res P.g.output = none)) →
      TaskOK P depth s tk
  | main (tk : Task) (F : Frame) (d : DagRef) : tk.name = .run → tk.frames = [F] → DagFrame P s F d → DagOK P d →
      d.dest = some P.g.output → P.g.output ∈ d.nodes → LaunchSt P s tk F → TaskOK P depth s tk
  | mainDone (tk : Task) : tk.name = .run → tk.frames = [] → tk.st = .done .ok → Launched P s P.g.output →
      TaskOK P depth s tk
  | nodeStart (tk : Task) (d : DagRef) (q : Node) : tk.name = .node q → P.g.isSwitch q = false →
      tk.frames = [.node d q false .start] → tk.st = .runnable .go → TaskOK P depth s tk
  | nodeWait (tk : Task) (d : DagRef) (q : Node) : tk.name = .node q → P.g.isSwitch q = false →
      tk.frames = [.node d q false .evWait] →
      (((∃ rv, tk.st = .runnable rv) ∧ s.evSet q = true) ∨ tk.st = .blocked (.event q)) →
      s.proc q = true → TaskOK P depth s tk
  | nodeExec (tk : Task) (d : DagRef) (q : Node) (pc : NodePc) : tk.name = .node q → P.g.isSwitch q = false →
      tk.frames = [.node d q false pc] → pc ≠ .start → pc ≠ .evWait → tk.live → s.proc q = true → s.res q = none →
      pc.rests = true → TaskOK P depth s tk
  | nodeDone (tk : Task) (q : Node) (r : TaskRes) : tk.name = .node q → P.g.isSwitch q = false → tk.frames = [] →
      tk.st = .done r → r ≠ .cancelled → s.evSet q = true → TaskOK P depth s tk
  | swStart (tk : Task) (d : DagRef) (S : Node) : tk.name = .node S → P.g.isSwitch S = true →
      tk.frames = [.switchStart d S] → d.isOneof = false → tk.st = .runnable .go → TaskOK P depth s tk
  | swIn (tk : Task) (F : Frame) (sub d : DagRef) (S : Node) : tk.name = .node S → P.g.isSwitch S = true →
      tk.frames = [F, .switchRet d S] → DagFrame P s F sub → SubOK' P depth s sub S → LaunchSt P s tk F →
      TaskOK P depth s tk
  | swRet (tk : Task) (d : DagRef) (S : Node) : tk.name = .node S → P.g.isSwitch S = true →
      tk.frames = [.switchRet d S] → (∃ v, tk.st = .runnable (.ret v)) →
      (∃ l c, s.sw S = some (l, c) ∧ Launched P s c) → TaskOK P depth s tk
  | swDone (tk : Task) (S : Node) (r : TaskRes) : tk.name = .node S → P.g.isSwitch S = true → tk.frames = [] →
      tk.st = .done r → r ≠ .cancelled → (r = .ok → ∃ l c, s.sw S = some (l, c) ∧ Launched P s c) → TaskOK P depth s tk

/-- the storage part -/
structure LData (P : Program) (s : St) : Prop where
  noHid  : ∀ n, s.resHid n = false ∧ s.procHid n = false
  noRec  : ∀ n v, s.res n = some v → v.isRecur = false
  /-- a processed node has been announced, or its executing task is live -/
  c1     : ∀ n, s.proc n = true → s.evSet n = true ∨ Executor s n
  /-- an announced node has a result, unless its task failed (then `run()` has been notified) -/
  c4     : ∀ n, s.evSet n = true → (s.res n).isSome = true ∨ taskErrors s ≠ []
  /-- a result is stored and announced in one section -/
  c5     : ∀ n, (s.res n).isSome = true → s.evSet n = true
  /-- a recorded decision names a case of the switch, and is what the lookup gives -/
  swEdge : ∀ S l c, s.sw S = some (l, c) → P.g.isSwitch c = false ∧ ∃ e ∈ P.g.edges, e.u = c ∧ e.v = S
  swSel  : ∀ S lc, s.sw S = some lc → switchSelect P s S = some lc
  /-- a result belongs to a processed node -/
  c6     : ∀ n, (s.res n).isSome = true → s.proc n = true
  /-- only ordinary nodes are ever marked as processed -/
  procPlain : ∀ n, s.proc n = true → P.g.isSwitch n = false
  /-- a node is executed by one task -/
  uniq   : ∀ (i j : Nat) (ti tj : Task) (q : Node) (d1 d2 : DagRef) (f1 f2 : Bool) (p1 p2 : NodePc),
    s.tasks[i]? = some ti → s.tasks[j]? = some tj → ti.frames = [.node d1 q f1 p1] → tj.frames = [.node d2 q f2 p2] →
    p1.exec = true → p2.exec = true → i = j
  noCancel : ∀ tk ∈ s.tasks, tk.mustCancel = false
  /-- no restart of a recurrent subgraph, so nothing is invalidated -/
  stale  : s.stale = []

structure Struct (P : Program) (depth : Node → Nat) (s : St) : Prop where
  data   : LData P s
  tasks  : ∀ (i : Nat) (tk : Task), s.tasks[i]? = some tk → TaskOK P depth s tk
  caller : ∃ tk, s.tasks[0]? = some tk ∧ tk.name = .caller
  /-- once `manager.run` waits, the main `_run_dag` task exists -/
  main   : ∀ tk, s.tasks[0]? = some tk → tk.frames = [.mgrWait] → ∃ tk1, s.tasks[1]? = some tk1 ∧ tk1.name = .run

/-- hypotheses on the program: switches only, a depth function along which every edge goes up, collaborators that do
not suspend -/
structure LiveP (P : Program) (depth : Node → Nat) : Prop where
  sw       : SwP P
  acyclic  : ∀ e ∈ P.g.edges, depth e.u < depth e.v
  outPlain : P.g.isSwitch P.g.output = false
  noYield  : ∀ cb n, P.cbYield cb n = 0
  /-- no candidate edges, case labels only on edges into switch nodes, from ordinary nodes -/
  noCands  : ∀ e ∈ P.g.edges, (P.g.attr e.v).oneofNodes.contains e.u = false
  caseSw   : ∀ e ∈ P.g.edges, P.g.isSwitch e.v = false → e.case = none
  decNoCase : ∀ e ∈ P.g.edges, e.isSwitch = true → e.case = none
  casePlain : ∀ e ∈ P.g.edges, e.case.isSome = true → P.g.isSwitch e.u = false
  /-- the reduced DAGs the engine builds — up to the output, up to a case node — end in their destination, are closed
  under dependencies, and contain only nodes at most as deep as the destination -/
  dagsOK   : ∀ (s : St) (dst : Node) (nst : Bool), (dst = P.g.output ∨ ∃ e ∈ P.g.edges, e.u = dst ∧ e.case.isSome = true) →
    ∃ d, reducedRef P s P.g.input dst false false nst = some d ∧
    d.dest = some dst ∧ dst ∈ d.nodes ∧ (∀ m ∈ d.nodes, ∀ u ∈ basePreds P m, u ∈ d.nodes) ∧ ∀ x ∈ d.nodes, depth x ≤ depth dst

/-! ### the static part: a state that satisfies `Struct` is not stuck -/

theorem predsFor_eq {P : Program} (hsw : SwP P) (s : St) (d : DagRef) (hd : d.isRec = false) (m : Node) :
    predsFor P s d m = (basePreds P m).map (resolveSw P s) := by
  unfold predsFor basePreds resolveSw
  simp only [hd, Bool.not_false, Bool.and_true, hsw.noHead, Bool.or_false]
  split <;> rfl

theorem mem_basePreds_edge {P : Program} {m u : Node} (h : u ∈ basePreds P m) : ∃ e ∈ P.g.edges, e.u = u ∧ e.v = m := by
  unfold basePreds at h
  split at h
  · simp only [List.mem_map, List.mem_filter, Bool.and_eq_true, beq_iff_eq] at h
    obtain ⟨e, ⟨he, hv, _⟩, hu⟩ := h
    exact ⟨e, he, hu, hv⟩
  · simp only [Graph.preds, List.mem_map, List.mem_filter, beq_iff_eq] at h
    obtain ⟨e, ⟨he, hv⟩, hu⟩ := h
    exact ⟨e, he, hu, hv⟩

/-- nobody can make progress -/
def Still (s : St) : Prop := ∀ (i : Nat) (tk : Task), s.tasks[i]? = some tk → ¬ tk.live

theorem Still.not_runnable {s : St} (hq : Still s) {i : Nat} {tk : Task} (h : s.tasks[i]? = some tk) :
    ¬ ∃ rv, tk.st = .runnable rv := fun hr => hq i tk h (Or.inl hr)

/-- in a quiet state without failed tasks, a launched ordinary node has a result -/
theorem launched_has_result {P : Program} {s : St} (hd : LData P s) (hq : Still s) (he : taskErrors s = [])
    {q : Node} (hns : P.g.isSwitch q = false) (hl : Launched P s q) :
    s.exists q = true ∧ (s.get q).isRecur = false := by
  unfold Launched at hl
  simp only [hns, Bool.false_eq_true, if_false] at hl
  have hp : s.proc q = true := by
    rcases hl with h | ⟨i, tk, d, h1, _, h3⟩
    · exact h
    · exact absurd (Or.inl ⟨_, h3⟩) (hq i tk h1)
  have hev : s.evSet q = true := by
    rcases hd.c1 q hp with h | ⟨i, tk, h1, h2, _⟩
    · exact h
    · exact absurd h2 (hq i tk h1)
  rcases hd.c4 q hev with h | h
  · cases hr : s.res q with
    | none => rw [hr] at h; cases h
    | some v =>
      have := hd.noRec q v hr
      simp [St.exists, St.get, hr, (hd.noHid q).1, this]
  · exact absurd he h

/-- the depth chain `m' ≤ case < switch < consumer` -/
theorem depth_chain {P : Program} {depth : Node → Nat} (hp : LiveP P depth) {s : St} (hd : LData P s)
    {S m m' : Node} {sub : DagRef} (hS : S ∈ basePreds P m) (hsub : SubOK' P depth s sub S) (hm' : m' ∈ sub.nodes) :
    depth m' < depth m := by
  obtain ⟨l, c, hsw, _, _, hle⟩ := hsub.sel
  obtain ⟨_, e, he, hu, hv⟩ := hd.swEdge S l c hsw
  obtain ⟨e2, he2, hu2, hv2⟩ := mem_basePreds_edge hS
  have h1 := hp.acyclic e he
  have h2 := hp.acyclic e2 he2
  rw [hu, hv] at h1
  rw [hu2, hv2] at h2
  have := hle m' hm'
  omega

/-- what `TaskOK` says about a task whose top frame is a launch loop -/
theorem launcher_facts {P : Program} {depth : Node → Nat} {s : St} {tk : Task} (h : TaskOK P depth s tk)
    {d : DagRef} {m : Node} {r : List Node} {below : List Frame} (hf : tk.frames = .dagLaunch d (m :: r) :: below) :
    DagOK P d ∧ (∀ q ∈ d.nodes, q ∉ m :: r → Launched P s q) ∧ (∀ q ∈ m :: r, q ∈ d.nodes) ∧ TopoRest P (m :: r) ∧
    ((∃ rv, tk.st = .runnable rv) ∨ (tk.st = .blocked (.cond (.node m)) ∧ (ready P s d m = true → OwnerM P s m))) ∧
    (below = [] ∨ ∃ d' S, below = [.switchRet d' S] ∧ P.g.isSwitch S = true ∧ tk.name = .node S ∧ SubOK' P depth s d S) := by
  cases h with
  | callerStart hn hfr hst => rw [hfr] at hf; simp at hf
  | callerWait hn hfr hst => rw [hfr] at hf; simp at hf
  | main F d0 hn hfr hdf hdag hdest hout hst =>
    rw [hfr] at hf
    simp only [List.cons.injEq] at hf
    obtain ⟨hF, hb⟩ := hf
    subst hF
    cases hdf with
    | launch _ _ _ h1 h2 h3 => exact ⟨hdag, h1, h2, h3, hst.2, Or.inl hb.symm⟩
  | mainDone hn hfr hst hres => rw [hfr] at hf; simp at hf
  | nodeStart d0 q hn hns hfr hst => rw [hfr] at hf; simp at hf
  | nodeWait d0 q hn hns hfr hst hproc => rw [hfr] at hf; simp at hf
  | nodeExec d0 q pc hn hns hfr hpc1 hpc2 hlive hproc hnores => rw [hfr] at hf; simp at hf
  | nodeDone q r0 hn hns hfr hst hnc hev => rw [hfr] at hf; simp at hf
  | swStart d0 S0 hn hsS hfr hno1 hst => rw [hfr] at hf; simp at hf
  | swIn F sub d0 S0 hn hsS hfr hdf hsub hst =>
    rw [hfr] at hf
    simp only [List.cons.injEq] at hf
    obtain ⟨hF, hb⟩ := hf
    subst hF
    cases hdf with
    | launch _ _ _ h1 h2 h3 => exact ⟨hsub.dag, h1, h2, h3, hst.2, Or.inr ⟨d0, S0, hb.symm, hsS, hn, hsub⟩⟩
  | swRet d0 S0 hn hsS hfr hst hsw => rw [hfr] at hf; simp at hf
  | swDone S0 r0 hn hsS hfr hst hnc hok => rw [hfr] at hf; simp at hf

/-- a task with a `_run_switch` frame of `S` is runnable, or sits in the launch loop of the sub-DAG -/
theorem swOwner_task {P : Program} {depth : Node → Nat} {s : St} {tk : Task} (h : TaskOK P depth s tk) (hnd : tk.nonDone)
    {S : Node} (hfr' : (∃ d, tk.frames = [.switchStart d S]) ∨ (∃ d, tk.frames = [.switchRet d S]) ∨
      (∃ d sub, tk.frames = [.dagInit sub, .switchRet d S]) ∨
      (∃ d sub rest, tk.frames = [.dagLaunch sub rest, .switchRet d S])) :
    (∃ rv, tk.st = .runnable rv) ∨ (∃ sub m r d, tk.frames = .dagLaunch sub (m :: r) :: [.switchRet d S]) := by
  cases h with
  | callerStart hn hfr hst =>
    rcases hfr' with ⟨d1, h⟩ | ⟨d1, h⟩ | ⟨d1, s1, h⟩ | ⟨d1, s1, r1, h⟩ <;> rw [hfr] at h <;> simp at h
  | callerWait hn hfr hst =>
    rcases hfr' with ⟨d1, h⟩ | ⟨d1, h⟩ | ⟨d1, s1, h⟩ | ⟨d1, s1, r1, h⟩ <;> rw [hfr] at h <;> simp at h
  | main F d0 hn hfr hdf hdag hdest hout hst =>
    rcases hfr' with ⟨d1, h⟩ | ⟨d1, h⟩ | ⟨d1, s1, h⟩ | ⟨d1, s1, r1, h⟩
    · rw [hfr] at h; simp only [List.cons.injEq, and_true] at h; subst h; cases hdf
    · rw [hfr] at h; simp only [List.cons.injEq, and_true] at h; subst h; cases hdf
    · rw [hfr] at h; simp at h
    · rw [hfr] at h; simp at h
  | mainDone hn hfr hst hres => exact absurd hst (hnd _)
  | nodeStart d0 q hn hns hfr hst =>
    rcases hfr' with ⟨d1, h⟩ | ⟨d1, h⟩ | ⟨d1, s1, h⟩ | ⟨d1, s1, r1, h⟩ <;> rw [hfr] at h <;> simp at h
  | nodeWait d0 q hn hns hfr hst hproc =>
    rcases hfr' with ⟨d1, h⟩ | ⟨d1, h⟩ | ⟨d1, s1, h⟩ | ⟨d1, s1, r1, h⟩ <;> rw [hfr] at h <;> simp at h
  | nodeExec d0 q pc hn hns hfr hpc1 hpc2 hlive hproc hnores =>
    rcases hfr' with ⟨d1, h⟩ | ⟨d1, h⟩ | ⟨d1, s1, h⟩ | ⟨d1, s1, r1, h⟩ <;> rw [hfr] at h <;> simp at h
  | nodeDone q r0 hn hns hfr hst hnc hev => exact absurd hst (hnd _)
  | swStart d0 S0 hn hsS hfr hno1 hst => exact Or.inl ⟨_, hst⟩
  | swIn F sub d0 S0 hn hsS hfr hdf hsub hst =>
    rcases hfr' with ⟨d1, h⟩ | ⟨d1, h⟩ | ⟨d1, s1, h⟩ | ⟨d1, s1, r1, h⟩
    · rw [hfr] at h; simp at h
    · rw [hfr] at h; simp at h
    · rw [hfr] at h; simp only [List.cons.injEq, and_true] at h
      obtain ⟨hF, _⟩ := h; subst hF; exact Or.inl hst
    · rw [hfr] at h; simp only [List.cons.injEq, Frame.switchRet.injEq, and_true] at h
      obtain ⟨hF, _, hS⟩ := h; subst hF; subst hS
      cases hdf with
      | launch _ m' r' _ _ _ => exact Or.inr ⟨_, m', r', _, hfr⟩
  | swRet d0 S0 hn hsS hfr hst hsw => obtain ⟨v, hv⟩ := hst; exact Or.inl ⟨_, hv⟩
  | swDone S0 r0 hn hsS hfr hst hnc hok => exact absurd hst (hnd _)

/-- **a launch loop cannot be blocked in a quiet state** (by induction on the depth of the node it waits for) -/
theorem launcher_absurd {P : Program} {depth : Node → Nat} (hp : LiveP P depth) {s : St} (hs : Struct P depth s)
    (hq : Still s) (he : taskErrors s = []) : ∀ (D : Nat) (i : Nat) (tk : Task) (d : DagRef) (m : Node)
    (r : List Node) (below : List Frame),
    s.tasks[i]? = some tk → tk.frames = .dagLaunch d (m :: r) :: below → depth m = D → False := by
  intro D
  induction D using Nat.strongRecOn with
  | _ D ih =>
    intro i tk d m r below hi hf hD
    obtain ⟨hdag, hlaunched, hsubset, htopo, hst, _⟩ := launcher_facts (hs.tasks i tk hi) hf
    have hblocked : tk.st = .blocked (.cond (.node m)) ∧ (ready P s d m = true → OwnerM P s m) := by
      rcases hst with h | h
      · exact absurd h (hq.not_runnable hi)
      · exact h
    -- a launch loop of the sub-DAG of a switch source of `m` waits for a shallower node
    have sub_absurd : ∀ S ∈ basePreds P m, ∀ (i' : Nat) (tk' : Task) (sub : DagRef) (m' : Node) (r' : List Node) (d' : DagRef),
        s.tasks[i']? = some tk' → tk'.frames = .dagLaunch sub (m' :: r') :: [.switchRet d' S] → False := by
      intro S hSm i' tk' sub m' r' d' hi' hfr'
      obtain ⟨_, _, hsub2, _, _, hbelow⟩ := launcher_facts (hs.tasks i' tk' hi') hfr'
      rcases hbelow with h | ⟨d2, S2, h, _, _, hsubok⟩
      · cases h
      · simp only [List.cons.injEq, Frame.switchRet.injEq, and_true] at h
        obtain ⟨_, hS⟩ := h
        subst hS
        have hlt : depth m' < depth m := depth_chain hp hs.data hSm hsubok (hsub2 m' (by simp))
        exact ih (depth m') (by rw [← hD]; exact hlt) i' tk' sub m' r' _ hi' hfr' rfl
    by_cases hready : ready P s d m = true
    · -- ready after all: the owner is a `_run_switch` task that is runnable or in the launch loop of its sub-DAG
      obtain ⟨S, hS, _, i', tk', h1, hnd, hfr⟩ := hblocked.2 hready
      rcases swOwner_task (hs.tasks i' tk' h1) hnd hfr with h | ⟨sub, m', r', d', h⟩
      · exact hq.not_runnable h1 h
      · exact sub_absurd S hS i' tk' sub m' r' d' h1 h
    · -- not ready: some resolved source has no result
      have hnr : ready P s d m = false := by simpa using hready
      unfold ready at hnr
      rw [predsFor_eq hp.sw s d hdag.notRec m, List.all_eq_false] at hnr
      obtain ⟨p, hpm, hpno⟩ := hnr
      rw [List.mem_map] at hpm
      obtain ⟨u, hu, hres⟩ := hpm
      have hud : u ∈ d.nodes := hdag.closed m (hsubset m (by simp)) u hu
      have hunot : u ∉ m :: r := htopo [] m r rfl u hu
      have hl := hlaunched u hud hunot
      cases hSu : P.g.isSwitch u with
      | false =>
        have := launched_has_result hs.data hq he hSu hl
        rw [← hres] at hpno
        simp only [resolveSw, hSu, Bool.false_eq_true, if_false] at hpno
        simp [this.1, this.2] at hpno
      | true =>
        -- a switch source: look at its `_run_switch` task
        unfold Launched at hl
        simp only [hSu, if_true] at hl
        obtain ⟨i', tk', hi', hname⟩ := hl
        have hres' : ∀ l c, s.sw u = some (l, c) → Launched P s c → False := by
          intro l c hsw hlc
          have := launched_has_result hs.data hq he (hs.data.swEdge u l c hsw).1 hlc
          rw [← hres] at hpno
          simp only [resolveSw, hSu, if_true, hsw] at hpno
          simp [this.1, this.2] at hpno
        cases hs.tasks i' tk' hi' with
        | callerStart hn hfr hst => rw [hn] at hname; cases hname
        | callerWait hn hfr hst => rw [hn] at hname; cases hname
        | main F d0 hn hfr hdf hdag hdest hout hst => rw [hn] at hname; cases hname
        | mainDone hn hfr hst hres => rw [hn] at hname; cases hname
        | nodeStart d0 q hn hns hfr hst => rw [hn] at hname; cases hname; rw [hSu] at hns; cases hns
        | nodeWait d0 q hn hns hfr hst hproc => rw [hn] at hname; cases hname; rw [hSu] at hns; cases hns
        | nodeExec d0 q pc hn hns hfr hpc1 hpc2 hlive hproc hnores => rw [hn] at hname; cases hname; rw [hSu] at hns; cases hns
        | nodeDone q r0 hn hns hfr hst hnc hev => rw [hn] at hname; cases hname; rw [hSu] at hns; cases hns
        | swStart d0 S0 hn hsS hfr hno1 hst => exact hq.not_runnable hi' ⟨_, hst⟩
        | swIn F sub d0 S0 hn hsS hfr hdf hsub hst =>
          have hSS : S0 = u := by rw [hn] at hname; cases hname; rfl
          subst hSS
          cases hdf with
          | init => exact hq.not_runnable hi' hst
          | launch _ m' rest' _ _ _ => exact sub_absurd S0 hu i' tk' sub m' rest' d0 hi' hfr
          | wait _ hall =>
            obtain ⟨l, c, hsw, _, hc, _⟩ := hsub.sel
            exact hres' l c hsw (hall c hc)
        | swRet d0 S0 hn hsS hfr hst hsw => obtain ⟨v, hv⟩ := hst; exact hq.not_runnable hi' ⟨_, hv⟩
        | swDone S0 r0 hn hsS hfr hst hnc hok =>
          have hSS : S0 = u := by rw [hn] at hname; cases hname; rfl
          subst hSS
          cases r0 with
          | ok => obtain ⟨l, c, h1, h2⟩ := hok rfl; exact hres' l c h1 h2
          | exc e => have := Eng.mem_taskErrors i' tk' e hi' hst; rw [he] at this; cases this
          | cancelled => exact hnc rfl

/-- **a state that satisfies the structural invariant is not stuck**: some task is runnable, or waits for a node body or
a retry timer -/
theorem struct_live {P : Program} {depth : Node → Nat} (hp : LiveP P depth) {s : St} (hs : Struct P depth s) :
    ∃ (i : Nat) (tk : Task), s.tasks[i]? = some tk ∧ tk.live := by
  apply Classical.byContradiction
  intro hno
  have hq : Still s := fun i tk h hl => hno ⟨i, tk, h, hl⟩
  obtain ⟨tk0, h0, hname⟩ := hs.caller
  cases hs.tasks 0 tk0 h0 with
  | callerStart hn hfr hst => exact hq.not_runnable h0 hst
  | callerWait hn hfr hst =>
    rcases hst with h | ⟨_, herr, hno⟩
    · exact hq.not_runnable h0 h
    · -- `manager.run` waits: no task has failed, the output has no result
      obtain ⟨tk1, h1, hname1⟩ := hs.main tk0 h0 hfr
      cases hs.tasks 1 tk1 h1 with
    | callerStart hn hfr hst => rw [hn] at hname1; cases hname1
    | callerWait hn hfr hst => rw [hn] at hname1; cases hname1
    | main F d0 hn hfr hdf hdag hdest hout hst =>
      cases hdf with
      | init => exact hq.not_runnable h1 hst
      | launch _ m r _ _ _ => exact launcher_absurd hp hs hq herr (depth m) 1 tk1 d0 m r [] h1 hfr rfl
      | wait _ hall =>
        have := launched_has_result hs.data hq herr hp.outPlain (hall _ hout)
        simp [St.exists, hno] at this
    | mainDone hn hfr hst hres =>
      have := launched_has_result hs.data hq herr hp.outPlain hres
      simp [St.exists, hno] at this
    | nodeStart d0 q hn hns hfr hst => rw [hn] at hname1; cases hname1
    | nodeWait d0 q hn hns hfr hst hproc => rw [hn] at hname1; cases hname1
    | nodeExec d0 q pc hn hns hfr hpc1 hpc2 hlive hproc hnores => rw [hn] at hname1; cases hname1
    | nodeDone q r0 hn hns hfr hst hnc hev => rw [hn] at hname1; cases hname1
    | swStart d0 S0 hn hsS hfr hno1 hst => rw [hn] at hname1; cases hname1
    | swIn F sub d0 S0 hn hsS hfr hdf hsub hst => rw [hn] at hname1; cases hname1
    | swRet d0 S0 hn hsS hfr hst hsw => rw [hn] at hname1; cases hname1
    | swDone S0 r0 hn hsS hfr hst hnc hok => rw [hn] at hname1; cases hname1
  | main F d0 hn hfr hdf hdag hdest hout hst => rw [hn] at hname; cases hname
  | mainDone hn hfr hst hres => rw [hn] at hname; cases hname
  | nodeStart d0 q hn hns hfr hst => rw [hn] at hname; cases hname
  | nodeWait d0 q hn hns hfr hst hproc => rw [hn] at hname; cases hname
  | nodeExec d0 q pc hn hns hfr hpc1 hpc2 hlive hproc hnores => rw [hn] at hname; cases hname
  | nodeDone q r0 hn hns hfr hst hnc hev => rw [hn] at hname; cases hname
  | swStart d0 S0 hn hsS hfr hno1 hst => rw [hn] at hname; cases hname
  | swIn F sub d0 S0 hn hsS hfr hdf hsub hst => rw [hn] at hname; cases hname
  | swRet d0 S0 hn hsS hfr hst hsw => rw [hn] at hname; cases hname
  | swDone S0 r0 hn hsS hfr hst hnc hok => rw [hn] at hname; cases hname

end MLPE.Eng

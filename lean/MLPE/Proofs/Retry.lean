import MLPE.Retry
import MLPE.Eng

namespace MLPE.Retry

/-- `k, sleep, k+1, sleep, …, k+r` : r+1 consecutive invocations separated by `sleep d` -/
def patFrom (d : Nat) : Nat → Nat → List Ev
  | k, 0 => [.call k]
  | k, r + 1 => .call k :: .sleep d :: patFrom d (k + 1) r

def tailOf : Final → List Ev
  | .default => [.dflt]
  | _ => []

theorem attemptsEff_pos (cfg : NodeCfg) : 1 ≤ cfg.attemptsEff := by
  unfold NodeCfg.attemptsEff
  cases cfg.attempts with
  | none => simp
  | some k => cases k <;> simp

/-- core lemma: `r` retry decisions followed by a final decision -/
theorem loop_spec (cfg : NodeCfg) (outcomes : Nat → BodyOutcome) (f : Final) :
    ∀ (r k extra : Nat),
      (∀ j, k ≤ j → j < k + r → decide cfg j (outcomes j) = .retry) →
      decide cfg (k + r) (outcomes (k + r)) = .done f →
      loop cfg outcomes (r + 1 + extra) k = (patFrom cfg.delayEff k r ++ tailOf f, some f) := by
  intro r
  induction r with
  | zero =>
    intro k extra _ hd
    simp only [Nat.add_zero] at hd
    have : 0 + 1 + extra = extra + 1 := by omega
    rw [this]
    simp only [loop, hd]
    cases f <;> simp [patFrom, tailOf]
  | succ r ih =>
    intro k extra hr hd
    have h0 : decide cfg k (outcomes k) = .retry := hr k (Nat.le_refl _) (by omega)
    have : r + 1 + 1 + extra = (r + 1 + extra) + 1 := by omega
    rw [this]
    simp only [loop, h0]
    have ih' := ih (k + 1) extra (fun j h1 h2 => hr j (by omega) (by omega))
      (by have : k + 1 + r = k + (r + 1) := by omega
          rw [this]; exact hd)
    rw [ih']
    simp [patFrom]

/-- `decide` retries exactly on a retryable exception before the last allowed attempt -/
theorem decide_retry_iff (cfg : NodeCfg) (k : Nat) (o : BodyOutcome) :
    decide cfg k o = .retry ↔ ∃ e, o = .raise e ∧ cfg.retryable e = true ∧ k ≠ cfg.attemptsEff := by
  cases o with
  | ret v => simp [decide]
  | raise e =>
    simp only [decide]
    by_cases hr : cfg.retryable e = true
    · by_cases hk : k = cfg.attemptsEff
      · subst hk; simp [hr]; split <;> simp
      · simp [hr, hk]
    · simp [hr]
      split
      · split <;> simp
      · simp

end MLPE.Retry

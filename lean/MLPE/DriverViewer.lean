import Lean.Data.Json
import MLPE.Viewer

/-! `viewer` mode: one DAG description per line → the model's graph config as canonical JSON -/
namespace MLPE.Viewer
open Lean

def oStr (j : Json) (k : String) : Option String := (j.getObjValAs? String k).toOption
def jOpt : Option String → Json | some s => Json.str s | none => Json.null

def viewerLine (_ : Unit) (line : String) : Unit × String :=
  match Json.parse line with
  | .error e => ((), "{\"error\":\"json " ++ e ++ "\"}")
  | .ok j =>
    let nodes := (((j.getObjValAs? (Array Json) "nodes").toOption).getD #[]).toList.filterMap fun x => x.getStr?.toOption
    let edges := (((j.getObjValAs? (Array Json) "edges").toOption).getD #[]).toList.filterMap fun e => match e with
      | .arr #[a, b] => match a.getStr?.toOption, b.getStr?.toOption with
        | some x, some y => some (x, y)
        | _, _ => none
      | _ => none
    let infoJ := (j.getObjVal? "info").toOption.getD (Json.mkObj [])
    let info : String → Option ClassInfo := fun id =>
      match infoJ.getObjVal? id with
      | .ok o => some { name := oStr o "name", verboseName := oStr o "verbose_name", nodeType := oStr o "node_type",
                        className := (oStr o "class_name").getD "", doc := oStr o "doc", code := (oStr o "code").getD "" }
      | .error _ => none
    let colorsJ := (j.getObjVal? "colors").toOption.getD (Json.mkObj [])
    let colors : String → Option String := fun t => oStr colorsJ t
    match config { nodes := nodes, edges := edges, info := info } colors with
    | .error e => ((), (Json.mkObj [("gen_error", Json.str e)]).compress)
    | .ok c =>
      let ns := c.nodes.map fun n => Json.mkObj [
        ("id", Json.str n.id), ("is_virtual", Json.bool n.isVirtual), ("is_generic", Json.bool n.isGeneric),
        ("type", jOpt n.type),
        ("data", match n.data with
          | some d => Json.mkObj [("name", jOpt d.name), ("verbose_name", jOpt d.verboseName), ("doc", jOpt d.doc),
                                   ("code_source", Json.str d.code)]
          | none => Json.null)]
      let es := c.edges.map fun e => Json.mkObj [("id", Json.str e.id), ("source", Json.str e.source), ("target", Json.str e.target)]
      let ts := Json.mkObj (c.nodeTypes.map fun (t, col) => (t, Json.mkObj [("name", Json.str t), ("hex_bgr_color", jOpt col)]))
      ((), (Json.mkObj [("nodes", Json.arr ns.toArray), ("edges", Json.arr es.toArray), ("node_types", ts)]).compress)

end MLPE.Viewer

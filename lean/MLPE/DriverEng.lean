import Lean.Data.Json
import MLPE.Eng
import MLPE.Sem
import MLPE.PlainSpec
import MLPE.LiveSpec

/-! Line-protocol front end of the engine model: lock-step replay of an implementation trace.

line 1      : {"graph": …, "spec": …}            (real built DAG + generated node behaviour)
then, per loop event of the implementation:
  {"k":"step","t":i,"topo":[[…],…],"pick":[cls,n,inv,att]|null}   → the model's observations
  {"k":"gate","g":[rid,n,inv,att]} / {"k":"timer","woken":[t]} / {"k":"cancel"}
  {"k":"end"}                                                    → terminal status of the model
Every answer is one JSON line; `"en":false` means the choice is not enabled in the model. -/
namespace MLPE.Eng
open Lean

def fnv1a64 (s : String) : UInt64 :=
  s.toUTF8.foldl (fun h b => (h ^^^ b.toUInt64) * 0x100000001b3) 0xcbf29ce484222325

def hex16 (x : UInt64) : String :=
  let ds := (List.range 16).map fun i =>
    let nib := ((x >>> (UInt64.ofNat (4 * (15 - i)))) &&& 0xF).toNat
    "0123456789abcdef".toList.getD nib '0'
  String.ofList ds

def excStr (e : Exc) : String := s!"{e.cls}@{e.node}.{e.inv}.{e.att}"

partial def valStr : Val → String
  | .none => "None"
  | .str s => "'" ++ s ++ "'"
  | .int i => toString i
  | .exc e => "EXC<" ++ excStr e ++ ">"
  | .recur d => "REC<" ++ valStr d ++ ">"

def kwStr (kw : Kwargs) : String :=
  String.intercalate "," (kw.map fun (k, v) => k ++ "=" ++ valStr v)

def prov (name : String) (kw : Kwargs) : String :=
  let s := name ++ "(" ++ kwStr kw ++ ")"
  if s.length ≤ 60 then s else name ++ "#" ++ hex16 (fnv1a64 s)

def outcomeStr : Outcome → String
  | .value v => "value " ++ valStr v
  | .error e => "error " ++ excStr e
  | .raised e => "raised " ++ excStr e
  | .cancelled => "cancelled"

def nameStr : TaskName → String
  | .caller => "caller" | .run => "run" | .node n => s!"node {n}" | .recur n => s!"rec {n}" | .dag => "dag"

def resStr : TaskRes → String
  | .ok => "ok" | .exc e => "exc " ++ excStr e | .cancelled => "cancelled"

def obsStr : Obs → String
  | .pstart => "pstart"
  | .pcomplete o => "pcomplete " ++ outcomeStr o
  | .nstart n => s!"nstart {n}"
  | .ncomplete n e => s!"ncomplete {n} " ++ (match e with | some x => excStr x | none => "None")
  | .body n i a kw => s!"body {n} {i} {a} " ++ "{" ++ kwStr kw ++ "}"
  | .gate n i a => s!"gate {n} {i} {a}"
  | .dflt n kw => s!"default {n} " ++ "{" ++ kwStr kw ++ "}"
  | .save n v => s!"save {n} " ++ valStr v
  | .spawn t nm => s!"spawn {t} " ++ nameStr nm
  | .sleep d => s!"sleep {d}"
  | .done t r => s!"done {t} " ++ resStr r
  | .returned o => "returned " ++ outcomeStr o
  | .topo ord => s!"topo {ord}"
  | .badOracle => "BAD-ORACLE"

/-! ### program from JSON -/

structure BodySpec where
  kind   : String := "prov"       -- prov | const | label | labels
  const  : Val := .none
  seq    : List Val := []        -- kind = labels: the value of invocation `inv` is `seq[min inv (len-1)]`
  fails  : List (Nat × Nat × String) := []
  recurK : Nat := 0
  isRec  : Bool := false
  failHash : Option (Nat × Nat × String) := none     -- raise cls iff fnv(kwargs) % m == r
  dfltRaise : Option String := none                  -- `get_default` raises an exception of this class
  deriving Inhabited

def jVal (j : Json) : Val :=
  match j with
  | .null => .none
  | .str s => .str s
  | .num n => .int n.mantissa
  | _ => .none

def getNat? (j : Json) (k : String) : Option Nat := (j.getObjValAs? Nat k).toOption
def getBoolD (j : Json) (k : String) : Bool := ((j.getObjValAs? Bool k).toOption).getD false
def getArr (j : Json) (k : String) : Array Json := ((j.getObjValAs? (Array Json) k).toOption).getD #[]
def getStrD (j : Json) (k : String) (d : String := "") : String := ((j.getObjValAs? String k).toOption).getD d

def parseMode (s : String) : Mode :=
  if s == "inline" then .inline else if s == "thread" then .thread else if s == "process" then .process else .coro

def parseCfg (j : Json) : NodeCfg × BodySpec :=
  let excs : Option (List String) := match j.getObjVal? "exceptions" with
    | .ok (.arr a) => some (a.toList.filterMap fun x => x.getStr?.toOption)
    | _ => none
  let body := (j.getObjVal? "body").toOption.getD .null
  let fails := (getArr j "fails").toList.filterMap fun f =>
    match f with
    | .arr #[a, b, c] => match a.getNat?.toOption, b.getNat?.toOption, c.getStr?.toOption with
      | some x, some y, some z => some (x, y, z)
      | _, _, _ => none
    | _ => none
  ({ name := getStrD j "name", attempts := getNat? j "attempts", delay := getNat? j "delay",
     exceptions := excs, useDefault := getBoolD j "use_default", mode := parseMode (getStrD j "mode" "coro") },
   { kind := getStrD body "kind" "prov", const := jVal ((body.getObjVal? "v").toOption.getD .null),
     seq := (getArr body "v").toList.map jVal,
     fails := fails, recurK := (getNat? j "recur_k").getD 0, isRec := getBoolD j "is_rec",
     failHash := match j.getObjVal? "fail_hash" with
       | .ok (.arr #[a, b, c]) => match a.getNat?.toOption, b.getNat?.toOption, c.getStr?.toOption with
         | some m, some r, some cls => some (m, r, cls)
         | _, _, _ => none
       | _ => none,
     dfltRaise := (j.getObjValAs? String "dflt_raise").toOption })

/-- the exception a failing `get_default` of node `n` raises: a class of the generated programs carries the node, a
builtin class (`Other:TypeError`, …) is identified by its class alone -/
def dfltExc (n : Node) (cls : String) : Exc :=
  if cls.startsWith "Other:" then ⟨cls, 0, 0, 0⟩ else ⟨cls, n, 0, 0⟩

def bodyOf (cfg : NodeCfg) (b : BodySpec) (n : Node) (kw : Kwargs) (inv att : Nat) : BodyOutcome :=
  match b.fails.find? (fun (i, a, _) => i == inv && a == att) with
  | some (_, _, cls) => .raise ⟨cls, n, inv, att⟩
  | none =>
    let hashFail : Option String := match b.failHash with
      | some (m, r, cls) => if m > 0 && (fnv1a64 (kwStr kw)).toNat % m == r then some cls else none
      | none => none
    match hashFail with
    | some cls => .raise ⟨cls, n, inv, att⟩
    | none =>
    if b.isRec && inv < b.recurK then .ret (.recur (.str s!"it{inv}"))
    else if b.kind == "prov" then .ret (.str (prov cfg.name kw))
    else if b.kind == "labels" then .ret ((b.seq[min inv (b.seq.length - 1)]?).getD .none)
    else if b.kind == "labelhash" then .ret ((b.seq[(fnv1a64 (kwStr kw)).toNat % (max b.seq.length 1)]?).getD .none)
    else .ret b.const

/-- the program of a parsed spec: graph, per-node configuration and behaviour (the pure part of `parseProgram`;
`Proofs/DriverBody.lean` proves the value hypotheses of the fragment theorems about it) -/
def mkProgram (g : Graph) (cfgs : List (NodeCfg × BodySpec)) (ik : Kwargs) (poolsOk : Bool)
    (cb : Cb → Node → Nat) (cr : Cb → Node → Option Exc) : Program :=
  let cfgOf : Node → NodeCfg := fun n => (cfgs[n]?.map (·.1)).getD {}
  let bsOf : Node → BodySpec := fun n => (cfgs[n]?.map (·.2)).getD {}
  { g := g, cfg := cfgOf, body := fun n kw inv att => bodyOf (cfgOf n) (bsOf n) n kw inv att,
    dflt := fun n kw => .str (prov ((cfgOf n).name ++ ".default") kw), inputKw := ik,
    poolsOk := poolsOk, cbYield := cb, cbRaise := cr,
    dfltRaise := fun n => (bsOf n).dfltRaise.map (dfltExc n) }

/-- no node of the spec is a recurrent destination (so no body returns a `Recurrent` marker) -/
def noRecDest (cfgs : List (NodeCfg × BodySpec)) : Bool := cfgs.all fun c => !c.2.isRec

/-- the spec has no recurrent destination: with `Proofs/DriverBody.lean` (`mkProgram_values`) the value hypotheses `noRecur` /
`noRecurD` of the fragment theorems hold of the parsed program -/
def specNoRecDest (j : Json) : Bool :=
  match j.getObjVal? "spec" with
  | .ok sj => noRecDest ((getArr sj "nodes").toList.map parseCfg)
  | .error _ => false

def parseProgram (j : Json) : Except String Program := do
  let gj ← j.getObjVal? "graph"
  let sj ← j.getObjVal? "spec"
  let nodesJ := getArr gj "nodes"
  let attrs : List (Nat × NodeAttr) := nodesJ.toList.map fun nj =>
    ((getNat? nj "id").getD 0,
     { isSwitch := getBoolD nj "is_switch", isOneofHead := getBoolD nj "is_oneof_head",
       oneofNodes := (getArr nj "oneof_nodes").toList.filterMap fun x => x.getNat?.toOption,
       isOneofChild := getBoolD nj "is_oneof_child", startNode := getNat? nj "start_node",
       maxIter := getNat? nj "max_iter", inMap := getBoolD nj "in_map" })
  let edges : List Edge := (getArr gj "edges").toList.map fun ej =>
    { u := (getNat? ej "u").getD 0, v := (getNat? ej "v").getD 0,
      kwarg := (ej.getObjValAs? String "kwarg").toOption,
      isSwitch := getBoolD ej "is_switch", case := (ej.getObjValAs? String "case").toOption }
  let specNodes := (getArr sj "nodes").toList.map parseCfg
  let cfgs : List (NodeCfg × BodySpec) := specNodes
  let ik : Kwargs := match sj.getObjVal? "input_kwargs" with
    | .ok (.obj o) => (o.toList.map fun (k, v) => (k, jVal v)).toArray.qsort (fun a b => a.1 < b.1) |>.toList
    | _ => []
  let g : Graph := {
    nodes := attrs.map (·.1), edges := edges,
    attr := fun n => ((attrs.find? (·.1 == n)).map (·.2)).getD {},
    input := (getNat? gj "input").getD 0, output := (getNat? gj "output").getD 0,
    order := (getArr gj "order").toList.filterMap fun x => x.getNat?.toOption }
  -- collaborator suspension plan: spec.cb = {"nstart": {"3": 1}, "ncomplete": {...}, "save": {...}, "pstart": k, "pcomplete": k}
  let cbj := (sj.getObjVal? "cb").toOption.getD (Json.mkObj [])
  let perNode (key : String) (n : Node) : Nat :=
    match cbj.getObjVal? key with
    | .ok o => (getNat? o (toString n)).getD 0
    | _ => 0
  let cb : Cb → Node → Nat := fun k n => match k with
    | .nstart => perNode "nstart" n
    | .ncomplete => perNode "ncomplete" n
    | .save => perNode "save" n
    | .pstart => (getNat? cbj "pstart").getD 0
    | .pcomplete => (getNat? cbj "pcomplete").getD 0
  -- failing collaborators: spec.cbraise = {"nstart": {"3": "E0"}, "ncomplete": {...}, "save": {...}, "pstart": "E1", ...}
  let crj := (sj.getObjVal? "cbraise").toOption.getD (Json.mkObj [])
  let raiseNode (key : String) (n : Node) : Option Exc :=
    match crj.getObjVal? key with
    | .ok o => match (o.getObjValAs? String (toString n)).toOption with
      | some cls => some ⟨cls, n, 0, 0⟩
      | none => none
    | _ => none
  let raiseTop (key : String) : Option Exc :=
    match (crj.getObjValAs? String key).toOption with
    | some cls => some ⟨cls, 0, 0, 0⟩
    | none => none
  let cr : Cb → Node → Option Exc := fun k n => match k with
    | .nstart => raiseNode "nstart" n
    | .ncomplete => raiseNode "ncomplete" n
    | .save => raiseNode "save" n
    | .pstart => raiseTop "pstart"
    | .pcomplete => raiseTop "pcomplete"
  return mkProgram g cfgs ik (!(getBoolD j "pools_missing")) cb cr

/-! ### lock-step -/

structure LS where
  P : Option Program := none
  s : St := init

def jsonStrs (l : List String) : Json := Json.arr (l.map Json.str).toArray

def runTaskFully (P : Program) (s : St) (t : Nat) (topos : List (List Node)) (pick : Nat) :
    Nat → Option (St × List Obs)
  | 0 => none
  | fuel + 1 =>
    match step P s (.run t (topos.headD []) pick) with
    | none => none
    | some (s', obs) =>
      let used := obs.any fun o => match o with | .topo _ => true | _ => false
      let topos' := if used then topos.drop 1 else topos
      let cont := match s'.tasks[t]? with
        | some tk => (match tk.st with | .runnable (.ret _) => !tk.mustCancel | _ => false)
        | none => false
      if cont then
        match runTaskFully P s' t topos' pick fuel with
        | some (s'', obs') => some (s'', obs ++ obs')
        | none => none
      else some (s', obs)

def parseExcArr (j : Json) : Option Exc :=
  match j with
  | .arr #[a, b, c, d] =>
    match a.getStr?.toOption, b.getNat?.toOption, c.getNat?.toOption, d.getNat?.toOption with
    | some cls, some n, some i, some at' => some ⟨cls, n, i, at'⟩
    | _, _, _, _ => none
  | _ => none

def endStatus (s : St) : Json :=
  let notDone := (List.range s.tasks.length).filter fun i => match s.tasks[i]? with
    | some tk => (match tk.st with | .done _ => false | _ => true)
    | none => false
  let runnable := (List.range s.tasks.length).filter fun i => match s.tasks[i]? with
    | some tk => isRunnable tk
    | none => false
  Json.mkObj [("stuck", Json.bool (stuck s)),
              ("outcome", match s.outcome with | some o => Json.str (outcomeStr o) | none => Json.null),
              ("not_done", toJson notDone),
              ("runnable", toJson runnable),
              ("external", Json.bool (hasExternal s))]

def lsStep (st : LS) (line : String) : LS × String :=
  match Json.parse line with
  | .error e => (st, "{\"error\":\"json " ++ e ++ "\"}")
  | .ok j =>
    match st.P with
    | none =>
      match parseProgram j with
      | .ok P => ({ P := some P, s := init }, "{\"ok\":\"program\"}")
      | .error e => (st, "{\"error\":\"program " ++ e ++ "\"}")
    | some P =>
      let k := getStrD j "k"
      if k == "step" then
        let t := (getNat? j "t").getD 0
        let topos : List (List Node) := (getArr j "topo").toList.map fun a =>
          match a with | .arr xs => xs.toList.filterMap (fun x => x.getNat?.toOption) | _ => []
        let want := (j.getObjVal? "pick").toOption.bind parseExcArr
        let errs := taskErrors st.s
        let pick := match want with
          | some e => errs.findIdx (· == e)
          | none => 0
        match runTaskFully P st.s t topos pick 64 with
        | none => (st, (Json.mkObj [("en", Json.bool false)]).compress)
        | some (s', obs) =>
          ({ st with s := s' }, (Json.mkObj [("en", Json.bool true), ("obs", jsonStrs (obs.map obsStr))]).compress)
      else if k == "gate" then
        match getArr j "g" |>.toList.filterMap (fun x => x.getNat?.toOption) with
        | [_, n, inv, att] =>
          match step P st.s (.gate n inv att) with
          | some (s', _) => ({ st with s := s' }, "{\"en\":true,\"obs\":[]}")
          | none => (st, "{\"en\":false}")
        | _ => (st, "{\"error\":\"gate\"}")
      else if k == "timer" then
        let woken := (getArr j "woken").toList.filterMap (fun x => x.getNat?.toOption)
        let r := woken.foldl (fun (acc : Option St) t => acc.bind fun s => (step P s (.timer t)).map (·.1)) (some st.s)
        match r with
        | some s' => ({ st with s := s' }, "{\"en\":true,\"obs\":[]}")
        | none => (st, "{\"en\":false}")
      else if k == "cancel" then
        match step P st.s .cancelCaller with
        | some (s', _) => ({ st with s := s' }, "{\"en\":true,\"obs\":[]}")
        | none => (st, "{\"en\":false}")
      else if k == "end" then (st, (endStatus st.s).compress)
      else (st, "{\"error\":\"unknown event\"}")

end MLPE.Eng

namespace MLPE.Eng
open Lean

/-- `sem` mode: one program per line → the declared outcome, root causes, demanded nodes, node applications -/
def semLine (_ : Unit) (line : String) : Unit × String :=
  match Json.parse line >>= parseProgram with
  | .error e => ((), "{\"error\":\"" ++ e ++ "\"}")
  | .ok P =>
    let (r, st) := Sem.run P
    let (oc, causes) : String × List String := match r with
      | .ok v => ("value " ++ valStr v, [])
      | .fail cs => ("fail", cs.map excStr)
    let calls := st.calls.map fun (n, inv, kw) => s!"{n} {inv} " ++ "{" ++ kwStr kw ++ "}"
    let vals := P.g.nodes.filterMap fun n => match st.memo n with
      | some (.ok v) => some (s!"{n}", Json.str (valStr v))
      | some (.fail _) => some (s!"{n}", Json.str "FAIL")
      | none => none
    -- hypotheses of the plain-fragment theorems, evaluated on this program; and: `Sem` solves the dataflow equations
    let dref := reducedRef P init P.g.input P.g.output false false false
    -- every `get_default` returns (`dfltOk` of PlainP / OneP): a program with a failing default is outside the fragments
    let dfltOk : Bool := (P.g.nodes.all fun n => (P.dfltRaise n).isNone) &&
      -- … and no body returns a marker or an exception object as its value (`noRecur`, by `mkProgram_values`)
      (match Json.parse line with | .ok j => specNoRecDest j | .error _ => false)
    let plainHyp : Bool := dfltOk && match dref with
      | some d => plainCheck P d && plainAttrsB P && feedsOutputB P d
      | none => false
    let semVal : Node → Option Val := fun n => match st.memo n with
      | some (.ok v) => some v
      | _ => none
    let semSolves : Bool := match dref with
      | some d => solutionB P d semVal
      | none => false
    -- switch-only programs: hypotheses of the safety theorems; `Sem` solves the equations with switches.  The value of a
    -- switch node in `Sem` is the memoised result of the node itself.
    let swHyp : Bool := dfltOk && swPB P
    -- the eager solution (every node evaluated) solves the equations, and `Sem` (demand-driven) agrees with it on every
    -- node it demanded
    let ev := eagerVal P
    let semSolvesSw : Bool := swHyp && solutionSwB P ev &&
      st.demanded.all (fun n => !P.g.nodes.contains n || semVal n == ev n)
    -- switch / one-of programs (no recurrent destination): hypotheses of the safety theorems of Proofs/Safe.lean
    let oneHyp : Bool := dfltOk && onePB P
    let semSolvesOne : Bool := oneHyp && solutionOneB P ev &&
      st.demanded.all (fun n => !P.g.nodes.contains n || semVal n == ev n)
    -- hypotheses of the stuck-freedom theorem for pipelines with switches (Proofs/Live*.lean): `SwP`, no suspending
    -- collaborator, the executable check `livePB` with the computed depth table
    let noYield : Bool := [Cb.nstart, Cb.ncomplete, Cb.save, Cb.pstart, Cb.pcomplete].all fun k =>
      (0 :: P.g.nodes).all fun n => P.cbYield k n == 0
    let liveHyp : Bool := swHyp && noYield && livePB P (computeDepths P)
    ((), (Json.mkObj [("outcome", Json.str oc), ("causes", jsonStrs causes), ("calls", jsonStrs calls),
                      ("one_hyp", Json.bool oneHyp), ("sem_solves_one", Json.bool semSolvesOne),
                      ("live_hyp", Json.bool liveHyp), ("sw_noyield", Json.bool (swHyp && noYield)),
                      ("demanded", toJson st.demanded), ("values", Json.mkObj vals),
                      ("dflt_ok", Json.bool dfltOk), ("plain_hyp", Json.bool plainHyp), ("sem_solves", Json.bool semSolves),
                      ("sw_hyp", Json.bool swHyp), ("sem_solves_sw", Json.bool semSolvesSw)]).compress)

end MLPE.Eng

namespace MLPE.Eng
open Lean

/-- `retry` mode: {"cfg": node spec, "outcomes": ["ok" | class, …]} → events and final of `Retry.run` -/
def retryLine (_ : Unit) (line : String) : Unit × String :=
  match Json.parse line with
  | .error e => ((), "{\"error\":\"" ++ e ++ "\"}")
  | .ok j =>
    let cfg := (parseCfg ((j.getObjVal? "cfg").toOption.getD .null)).1
    let dr : Option Exc := (parseCfg ((j.getObjVal? "cfg").toOption.getD .null)).2.dfltRaise.map (dfltExc 1)
    let outs : List String := (getArr j "outcomes").toList.filterMap fun x => x.getStr?.toOption
    let outcomes : Nat → BodyOutcome := fun k =>
      match outs[k - 1]? with
      | some "ok" => .ret (.str "v")
      | some cls => .raise ⟨cls, 1, 0, k⟩
      | none => .ret (.str "v")
    let (evs, fin) := Retry.run cfg outcomes
    let evStr : Retry.Ev → String
      | .call k => s!"call {k}"
      | .sleep d => s!"sleep {d}"
      | .dflt => "default"
    let finStr := match fin with
      | some (.value _) => "value"
      | some .default => (match dr with | some e => "failed " ++ excStr e | none => "default")
      | some (.failed e) => "failed " ++ excStr e
      | none => "none"
    ((), (Json.mkObj [("events", jsonStrs (evs.map evStr)), ("final", Json.str finStr)]).compress)

end MLPE.Eng

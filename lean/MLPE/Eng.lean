import MLPE.Basic

/-!
# `Eng` — executable model of `ml_pipeline_engine/dag/manager.py` (+ storage.py, graph.py, chart.py)

A labelled transition system.  A state holds the per-run storage and a list of tasks; a task is a
stack of defunctionalised frames, one per coroutine of the engine, with a program counter at one
of the suspension points.  One `Choice` = one atomic section of one task (from one suspension to the
next), one external completion (node body, timer), or the cancellation of the caller.

The model follows the code **after** the `fix:` commits (DESIGN.md §5.3).  Line numbers in comments
refer to manager.py of that tree.  Everything between two suspension points is one `step`; the only
artificial boundary is the return of an *inline* callee to its caller frame (`Resume.ret`), after
which the same task is simply stepped again.

Scheduling is over-approximated: any runnable task may run next (no FIFO assumption).
-/

namespace MLPE.Eng
open MLPE

/-- condition keys: `'run'`, a node id, or `None` (dest of the one-node graph) -/
inductive Key | run | node (n : Node) | nokey
  deriving DecidableEq, Repr, Inhabited

/-- a reduced DAG (`get_connected_subgraph`): node set fixed at creation + flags -/
structure DagRef where
  source   : Node
  dest     : Option Node
  nodes    : List Node
  isRec    : Bool := false
  isOneof  : Bool := false
  isNested : Bool := false
  deriving DecidableEq, Repr, Inhabited

def DagRef.destKey (d : DagRef) : Key := match d.dest with | some n => .node n | none => .nokey

inductive NodePc
  | start                                        -- coroutine not started yet
  | evWait                                       -- `wait_for_event(node_id)` (manager.py _execute_node)
  | body (k : Nat) (kw : Kwargs) (inv : Nat)     -- awaiting the body of attempt k
  | sleep (k : Nat) (kw : Kwargs) (inv : Nat)    -- `asyncio.sleep(delay)` after failed attempt k
  -- suspended inside a collaborator callback, `left` more bare yields to go:
  | cbStart (left : Nat) (inv : Nat)                               -- on_node_start
  | cbRetry (left : Nat) (k : Nat) (kw : Kwargs) (inv : Nat)       -- on_node_complete(error) before a retry
  | cbOk (left : Nat) (v : Val)                                    -- on_node_complete(None)
  | cbFail (left : Nat) (e : Exc)                                  -- on_node_complete(error), final
  | cbSave (left : Nat)                                            -- artifact_store.save
  deriving DecidableEq, Repr, Inhabited

inductive Outcome
  | value (v : Val)       -- PipelineResult(value=v, error=None)
  | error (e : Exc)       -- PipelineResult(value=None, error=e)
  | raised (e : Exc)      -- a BaseException propagated out of chart.run
  | cancelled             -- CancelledError propagated out of chart.run
  deriving DecidableEq, Repr, Inhabited

inductive Frame
  | mgrStart                                                  -- chart.run / DAG.run / manager.run not started
  | mgrWait                                                   -- manager.run: cond['run']
  | mgrCbStart (left : Nat)                                   -- suspended in on_pipeline_start
  | mgrCbComplete (left : Nat) (o : Outcome)                  -- suspended in on_pipeline_complete
  | dagInit (d : DagRef)                                      -- _run_dag entry
  | dagLaunch (d : DagRef) (rest : List Node)                 -- cond[rest.head]
  | dagWaitDest (d : DagRef)                                  -- cond[dag.dest]
  | node (d : DagRef) (n : Node) (force : Bool) (pc : NodePc) -- _run_node / _execute_node / __execute_node
  | switchStart (d : DagRef) (n : Node)                       -- _run_switch entry
  | switchRet (d : DagRef) (n : Node)                         -- _run_switch: inline _run_dag returned
  | oneofStart (d : DagRef) (head : Node)                     -- _run_oneof entry
  | oneofWait (d : DagRef) (head : Node) (c : Node) (rest : List Node) (sub : DagRef)  -- cond[c]
  | recStart (d : DagRef) (n : Node) (r : Val)                -- _run_recurrent_subgraph entry
  | recIterRet (d : DagRef) (n : Node) (start : Node) (g : DagRef) (k : Nat)  -- inline _run_dag returned
  | recDfltRet (d : DagRef) (n : Node) (start : Node)         -- inline _run_node(force_default) returned
  deriving DecidableEq, Repr, Inhabited

inductive TaskRes | ok | exc (e : Exc) | cancelled
  deriving DecidableEq, Repr, Inhabited

inductive Resume
  | go                          -- first step / woken / timer fired
  | body (o : BodyOutcome)      -- the awaited node body finished
  | ret (v : Val)               -- an inline callee returned `v`
  deriving DecidableEq, Repr, Inhabited

inductive Wait
  | cond (k : Key)
  | event (n : Node)
  | gate (n inv att : Nat) (o : BodyOutcome)
  | sleep (n inv att : Nat) (d : Nat)
  deriving DecidableEq, Repr, Inhabited

inductive TaskSt
  | runnable (rv : Resume)
  | blocked (w : Wait)
  | done (r : TaskRes)
  deriving DecidableEq, Repr, Inhabited

inductive TaskName | caller | run | node (n : Node) | recur (n : Node) | dag
  deriving DecidableEq, Repr, Inhabited

structure Task where
  frames     : List Frame
  st         : TaskSt
  mustCancel : Bool := false
  name       : TaskName := .dag
  deriving DecidableEq, Repr, Inhabited

inductive Obs
  | pstart
  | pcomplete (o : Outcome)
  | nstart (n : Node)
  | ncomplete (n : Node) (err : Option Exc)
  | body (n inv att : Nat) (kw : Kwargs)
  | gate (n inv att : Nat)
  | dflt (n : Node) (kw : Kwargs)
  | save (n : Node) (v : Val)
  | spawn (t : Nat) (name : TaskName)
  | sleep (d : Nat)
  | done (t : Nat) (r : TaskRes)
  | returned (o : Outcome)
  | topo (ord : List Node)        -- `_get_node_order` was called in this section and answered `ord`
  | badOracle
  deriving DecidableEq, Repr, Inhabited

/-- per-run state: `DAGNodeStorage` (+ hidden keys), the lock manager's events, the per-run
manager attributes, the tasks -/
structure St where
  res        : Node → Option Val := fun _ => none      -- node_results
  resHid     : Node → Bool := fun _ => false
  proc       : Node → Bool := fun _ => false           -- processed_nodes
  procHid    : Node → Bool := fun _ => false
  active     : List (Node × Node) := []                -- active recurrent subgraphs
  sw         : Node → Option (Label × Node) := fun _ => none   -- switch_results
  evSet      : Node → Bool := fun _ => false           -- events (never cleared)
  opened     : Node → Bool := fun _ => false           -- _opened_oneof_children
  additional : Node → Option Val := fun _ => none      -- _additional_data
  stale      : List Node := []                         -- invalidated_nodes: out of date since a restart, not hidden yet
  invCount   : Node → Nat := fun _ => 0                -- number of on_node_start per node
  hideCount  : Node → Nat := fun _ => 0                -- ghost: how often `hide_last_execution` hit the node
  badOrd     : Bool := false                           -- ghost: the oracle supplied a launch order `validOrder` rejects
  tasks      : List Task := []
  outcome    : Option Outcome := none                  -- how the caller's task ended

/-! ### storage.py -/

def St.exists (s : St) (n : Node) : Bool := (s.res n).isSome && !s.resHid n          -- exists_node_result
def St.getHid (s : St) (n : Node) : Val := (s.res n).getD .none                      -- get_node_result(with_hidden=True)
def St.get (s : St) (n : Node) : Val := if s.resHid n then .none else (s.res n).getD .none
def St.procExists (s : St) (n : Node) : Bool := s.proc n && !s.procHid n             -- exists_processed_node
def St.isErr (s : St) (n : Node) : Bool := (s.get n).isExc                           -- exists_node_error
def St.setRes (s : St) (n : Node) (v : Val) : St :=
  { s with res := upd s.res n (some v), resHid := upd s.resHid n false }
def St.hide (s : St) (ns : List Node) : St :=                                        -- hide_last_execution
  { s with resHid := fun x => if ns.contains x then true else s.resHid x,
           procHid := fun x => if ns.contains x then true else s.procHid x,
           hideCount := fun x => if ns.contains x then s.hideCount x + 1 else s.hideCount x,
           sw := fun x => if ns.contains x then none else s.sw x }    -- (fix: a restart forgets the decisions too)

/-- `invalidate_last_execution`: a restart marks the nodes; they keep their results until somebody needs them again -/
def St.invalidate (s : St) (ns : List Node) : St := { s with stale := ns ++ s.stale }
/-- `hide_invalidated_execution(dag)`: the invalidated nodes of a DAG that is about to run are hidden (to be executed
again) and are no longer marked -/
def St.refresh (s : St) (ns : List Node) : St :=
  if s.stale.isEmpty then s
  else
    let h := ns.filter s.stale.contains
    { (s.hide h) with stale := s.stale.filter fun x => !h.contains x }

/-- named single-field updates (one frame lemma each in `Proofs/EngBasic.lean`) -/
def St.setSw (s : St) (n : Node) (lc : Label × Node) : St := { s with sw := upd s.sw n (some lc) }
def St.setActive (s : St) (a : List (Node × Node)) : St := { s with active := a }
def St.setAdditional (s : St) (n : Node) (v : Val) : St := { s with additional := upd s.additional n (some v) }
def St.setOutcome (s : St) (o : Outcome) : St := { s with outcome := some o }
/-- `set_node_as_processed` + the invocation counter (one `on_node_start` follows) -/
def St.markProcessed (s : St) (n : Node) : St :=
  { s with proc := upd s.proc n true, procHid := upd s.procHid n false,
           invCount := upd s.invCount n (s.invCount n + 1) }

/-- ghost: remember that the oracle supplied a launch order the model rejects -/
def St.noteOrder (s : St) (ok : Bool) : St := if ok then s else { s with badOrd := true }

def hasError (s : St) (d : DagRef) : Bool := d.nodes.any s.isErr                     -- __has_subgraph_error

/-- `__get_subgraph_error`: the first error kept as a node's result in the DAG, in the graph's own node order -/
def subgraphError (P : Program) (s : St) (d : DagRef) : Exc :=
  match (P.g.order ++ d.nodes).find? (fun n => d.nodes.contains n && s.isErr n) with
  | some n => (match s.get n with | .exc e => e | _ => default)
  | none => default

/-! ### tasks, conditions, events -/

def St.setTask (s : St) (t : Nat) (tk : Task) : St := { s with tasks := s.tasks.set t tk }

def wakeIf (p : Wait → Bool) (t : Task) : Task :=
  match t.st with
  | .blocked w => if p w then { t with st := .runnable .go } else t
  | _ => t

/-- `unlock_condition(k)`: every task waiting on `cond[k]` becomes runnable (it re-checks its predicate when it runs) -/
def notify (s : St) (k : Key) : St :=
  { s with tasks := s.tasks.map (wakeIf fun w => match w with | .cond k' => k' == k | _ => false) }

def notifyAll (s : St) (ks : List Key) : St := ks.foldl notify s

def setEvent (s : St) (n : Node) : St :=
  { s with evSet := upd s.evSet n true,
           tasks := s.tasks.map (wakeIf fun w => match w with | .event n' => n' == n | _ => false) }

/-- `Task.cancel()` -/
def cancelTask (s : St) (t : Nat) : St :=
  match s.tasks[t]? with
  | none => s
  | some tk =>
    match tk.st with
    | .done _ => s
    | .blocked _ => s.setTask t { tk with st := .runnable .go, mustCancel := true }
    | .runnable _ => s.setTask t { tk with mustCancel := true }

def cancelTasks (s : St) (ts : List Nat) : St := ts.foldl cancelTask s

/-- `_create_task`: returns the new state and the task index -/
def spawn (s : St) (frames : List Frame) (name : TaskName) : St × Nat :=
  ({ s with tasks := s.tasks ++ [{ frames := frames, st := .runnable .go, name := name }] }, s.tasks.length)

/-! ### graph.py / _get_reduced_dag -/

def filteredView (P : Program) (s : St) : Graph.View :=
  { -- (fix: the candidates of a one-of are no longer hidden: with the candidate → head edges filtered, a candidate is part
    -- of somebody else's reduced DAG only where it is an ordinary dependency too, and there it has to be computed)
    okNode := fun _ => true,
    -- case edges, and the edges from the candidates of a one-of to its synthetic head, are not part of any reduced DAG
    okEdge := fun e => e.case.isNone && !((P.g.attr e.v).oneofNodes.contains e.u) }

/-- `_opened_oneof_children.add(dest)` when a one-of candidate is started -/
def openCand (s : St) (isOneof : Bool) (dst : Node) : St :=
  if isOneof then { s with opened := upd s.opened dst true } else s

/-- the reduced DAG seen through the filtered view of `s`; `none` = networkx raised NodeNotFound -/
def reducedRef (P : Program) (s : St) (src dst : Node) (isRec isOneof isNested : Bool) : Option DagRef :=
  let w := filteredView P s
  match P.g.vnodes w with
  | [x] => some { source := src, dest := none, nodes := [x] }       -- `len(dag) == 1`: returned as is
  | _ =>
    match P.g.between w src dst with
    | none => none
    | some ns => some { source := src, dest := some dst, nodes := ns,
                        isRec := isRec, isOneof := isOneof, isNested := isNested }

/-- `_get_reduced_dag(source, dest, flags)` -/
def reduced (P : Program) (s : St) (src dst : Node) (isRec isOneof isNested : Bool) : St × Option DagRef :=
  (openCand s isOneof dst, reducedRef P (openCand s isOneof dst) src dst isRec isOneof isNested)

/-- `get_connected_subgraph(self.dag.graph, start, dest, is_recurrent=True, …)` on the unfiltered graph -/
def recGraph (P : Program) (start dst : Node) (isOneof : Bool) : Option DagRef :=
  match P.g.nodes with
  | [x] => some { source := start, dest := none, nodes := [x] }
  | _ =>
    match P.g.between .full start dst with
    | none => none
    | some ns => some { source := start, dest := some dst, nodes := ns, isRec := true, isOneof := isOneof }

/-- (fix) `get_restricted_subgraph(_get_reduced_dag(input, dest), scope)`: the part of the recurrent scope that is
executed as a DAG — the nodes of the scope that the destination needs through ordinary edges; case nodes and one-of
candidates are run by their switch / one-of. `none` = networkx raised NodeNotFound -/
def recLaunch (P : Program) (s : St) (scope : DagRef) (dst : Node) : Option DagRef :=
  match reducedRef P s P.g.input dst false false false with
  | none => none
  | some r => some { scope with nodes := scope.nodes.filter r.nodes.contains }

/-- the nodes a restart of `start → dst` invalidates: everything between the two on the unfiltered graph -/
def recScopeNodes (P : Program) (start dst : Node) (isOneof : Bool) : List Node :=
  match recGraph P start dst isOneof with
  | some b => b.nodes
  | none => []

/-! ### readiness (`_get_predecessors`, `_is_ready_to_execute`) -/

def predsFor (P : Program) (s : St) (d : DagRef) (n : Node) : List Node :=
  let g := P.g
  let base :=
    if g.isSwitch n then
      -- (fix: also in the DAG of a restarted recurrent subgraph — it has no case edges, so nothing orders a case node
      -- that is a part of it before the switch)
      (g.edges.filter (fun e => e.v == n && e.isSwitch)).map (·.u)
    else if g.isOneofHead n || d.isRec then
      -- (fix: a one-of head does not wait for its own candidates — they may be nodes of the current DAG because somebody
      -- else depends on them too)
      (g.preds n).filter fun p => d.nodes.contains p && !(g.isOneofHead n && (g.attr n).oneofNodes.contains p)
    else g.preds n
  base.map fun p => if g.isSwitch p then (match s.sw p with | some (_, c) => c | none => p) else p

def ready (P : Program) (s : St) (d : DagRef) (n : Node) : Bool :=
  (predsFor P s d n).all fun p => s.exists p && !(s.get p).isRecur

/-- is `ord` an admissible answer of `_get_node_order(dag)`: the unprocessed nodes of `dag` (all of them
for a recurrent dag), without duplicates, every visible edge inside `dag` going forward -/
def expectedOrder (P : Program) (s : St) (d : DagRef) : List Node :=
  d.nodes.filter fun n => d.isRec || !s.procExists n

def posOf (l : List Node) (n : Node) : Nat := l.findIdx (· == n)

def validOrder (P : Program) (s : St) (d : DagRef) (ord : List Node) : Bool :=
  let ex := expectedOrder P s d
  ord.length == ex.length && ord.all ex.contains && ex.all ord.contains && ord.Nodup &&
  P.g.edges.all fun e =>
    if ord.contains e.u && ord.contains e.v &&
        (e.case.isNone && !((P.g.attr e.v).oneofNodes.contains e.u)) then posOf ord e.u < posOf ord e.v
    else true

/-! ### `_get_node_kwargs` -/

inductive KwRes | ok (kw : Kwargs) | err (e : Exc)

def insertKw (kw : Kwargs) (k : String) (v : Val) : Kwargs :=
  let kw := kw.filter (·.1 != k)
  let (lo, hi) := kw.partition (·.1 < k)
  lo ++ [(k, v)] ++ hi

/-- one incoming edge: the stored result of its source (for a switch source: of the selected case) under the edge's
parameter name -/
def kwPut (kw : Kwargs) (k : String) : Val → KwRes
  | .exc x => .err x            -- the dependency failed inside a one-of scope: the consumer fails with that error
  | v => .ok (insertKw kw k v)

def kwStep (P : Program) (s : St) (acc : KwRes) (e : Edge) : KwRes :=
  match acc, e.kwarg with
  | .err x, _ => .err x
  | .ok kw, none => .ok kw
  | .ok kw, some k =>
    if P.g.isSwitch e.u then
      -- (fix: a switch that found no case inside a one-of scope keeps that error as its own result)
      if s.isErr e.u then kwPut kw k (s.get e.u)
      else match s.sw e.u with
      | some (_, c) => kwPut kw k (s.getHid c)
      | none => .err ⟨"Other:AttributeError", 0, 0, 0⟩
    else kwPut kw k (s.getHid e.u)

def kwBase (P : Program) (s : St) (n : Node) : KwRes :=
  if n == P.g.input then .ok P.inputKw
  else (P.g.edges.filter (fun e => e.v == n)).foldl (kwStep P s) (.ok [])

def nodeKwargs (P : Program) (s : St) (n : Node) : KwRes :=
  match kwBase P s n, s.additional n with
  | .ok kw, some v => if v == .none then .ok kw else .ok (insertKw kw "additional_data" v)
  | b, _ => b

/-! ### stepping -/

structure Ctx where
  P    : Program
  t    : Nat               -- the task being stepped
  ord  : List Node         -- oracle: the list `_get_node_order` returned in this section (if it is called)
  pick : Nat               -- which failed task `_get_first_error_in_tasks` meets first

abbrev Out := St × List Obs

/-- finish the current task -/
def endTask (c : Ctx) (s : St) (obs : List Obs) (r : TaskRes) : Out :=
  match s.tasks[c.t]? with
  | none => (s, obs)
  | some tk => (s.setTask c.t { tk with frames := [], st := .done r, mustCancel := false }, obs ++ [.done c.t r])

/-- block the current task with the given frame stack -/
def block (c : Ctx) (s : St) (obs : List Obs) (frames : List Frame) (w : Wait) : Out :=
  match s.tasks[c.t]? with
  | none => (s, obs)
  | some tk => (s.setTask c.t { tk with frames := frames, st := .blocked w }, obs)

/-- a bare `yield` (`asyncio.sleep(0)`): the task stays runnable with the given frame stack -/
def yieldNow (c : Ctx) (s : St) (obs : List Obs) (frames : List Frame) : Out :=
  match s.tasks[c.t]? with
  | none => (s, obs)
  | some tk => (s.setTask c.t { tk with frames := frames, st := .runnable .go }, obs)

/-- the callee returned `v`: the task ends if nothing is below, otherwise it continues in the parent frame -/
def retTo (c : Ctx) (s : St) (obs : List Obs) (below : List Frame) (v : Val) : Out :=
  match below with
  | [] => endTask c s obs .ok
  | _ =>
    match s.tasks[c.t]? with
    | none => (s, obs)
    | some tk => (s.setTask c.t { tk with frames := below, st := .runnable (.ret v) }, obs)

/-- `finally` of `_run_node` (manager.py 651–670), `unlock = to_unlock_descendants` -/
def nodeFinally (P : Program) (s : St) (d : DagRef) (n : Node) (unlock : Bool) : St :=
  let s := setEvent s n
  if !unlock then notify s (.node n)
  else
    let s := notifyAll s ((P.g.desc1 n).map Key.node)
    let s := notify s .run
    -- (fix: whoever waits for the node itself is woken whichever DAG executed it — a one-of waits for its candidate, and a
    -- candidate that is an ordinary dependency of somebody else is executed by that DAG)
    notify s (.node n)

/-- an exception (or cancellation) propagates out of the frames `fs` of the current task:
only `_run_node` has a `finally`; nothing catches. -/
def unwindFrames (P : Program) (s : St) : List Frame → St
  | [] => s
  | .node d n _ pc :: fs =>
    let s := if pc == .start then s else nodeFinally P s d n true
    unwindFrames P s fs
  | _ :: fs => unwindFrames P s fs

def raiseOut (c : Ctx) (s : St) (obs : List Obs) (below : List Frame) (r : TaskRes) : Out :=
  endTask c (unwindFrames c.P s below) obs r

/-- `_run_dag`: final wait for `dag.dest` (manager.py 519–524) -/
def dagWaitDest (c : Ctx) (s : St) (obs : List Obs) (d : DagRef) (below : List Frame) : Out :=
  match d.dest with
  | some dn =>
    if s.exists dn then retTo c s obs below (s.getHid dn)
    else block c s obs (.dagWaitDest d :: below) (.cond (.node dn))
  | none => block c s obs (.dagWaitDest d :: below) (.cond .nokey)

/-- the coroutine started for node `n` by the launch loop (manager.py 503–515) -/
def launchFrame (P : Program) (d : DagRef) (n : Node) : Frame :=
  if P.g.isSwitch n then .switchStart d n
  else if P.g.isOneofHead n then .oneofStart d n
  else .node d n false .start

/-- `_run_dag`: the launch loop (manager.py 487–515) -/
def dagLaunch (c : Ctx) (d : DagRef) (below : List Frame) : St → List Obs → List Node → Out
  | s, obs, [] => dagWaitDest c s obs d below
  | s, obs, n :: rest =>
    if ready c.P s d n then
      if d.isOneof && hasError s d then
        -- (fix e9268a6: the tasks started for this sub-DAG are no longer cancelled here)
        -- (fix: the destination, which cannot be computed any more, gets the error of its dependency, so that a
        -- consumer outside this sub-DAG — of a switch whose case it is, of a recurrent subgraph — learns of it)
        let s := match d.dest with
          | some dn =>
            if s.exists dn then s
            else notifyAll (s.setRes dn (.exc (subgraphError c.P s d))) ((c.P.g.desc1 dn).map Key.node)
          | none => s
        let s := notifyAll s ((c.P.g.desc1 n).map Key.node)
        let s := notify s d.destKey
        retTo c s obs below .none
      else
        let (s, tid) := spawn s [launchFrame c.P d n] (.node n)
        dagLaunch c d below s (obs ++ [.spawn tid (.node n)]) rest
    else block c s obs (.dagLaunch d (n :: rest) :: below) (.cond (.node n))

/-- `_run_dag` entry (manager.py 474–485) -/
def dagInit (c : Ctx) (s : St) (obs : List Obs) (d : DagRef) (below : List Frame) : Out :=
  let s := s.refresh d.nodes          -- (fix: nodes invalidated by a restart are executed again when a DAG needs them)
  let obs := obs ++ [.topo c.ord]
  let obs := if validOrder c.P s d c.ord then obs else obs ++ [.badOracle]
  let s := s.noteOrder (validOrder c.P s d c.ord)
  match c.ord with
  | [] => retTo c s obs below .none
  | ord => dagLaunch c d below s obs ord

/-- a call into a collaborator that suspends `m` more times before it returns: the task yields, and is
resumed at the callback pc `frames j` with `j` yields left; with `m = 0` the call returns at once -/
def cbThen (c : Ctx) (s : St) (obs : List Obs) (frames : Nat → List Frame) (m : Nat)
    (k : St → List Obs → Out) : Out :=
  match m with
  | 0 => k s obs
  | j + 1 => yieldNow c s obs (frames j)

/-- a call into a collaborator at a call site: it either raises (`cbRaise`; `kErr` is what the surrounding code does
with the exception) or returns after `cbYield` suspensions (`kOk`) -/
def cbCall (c : Ctx) (cb : Cb) (n : Node) (s : St) (obs : List Obs) (frames : Nat → List Frame)
    (kOk : St → List Obs → Out) (kErr : Exc → St → List Obs → Out) : Out :=
  match c.P.cbRaise cb n with
  | some e => kErr e s obs
  | none => cbThen c s obs frames (c.P.cbYield cb n) kOk

/-- the `finally` of `_run_node` on the normal path, then return to the caller frame -/
def nodeFinish (c : Ctx) (s : St) (obs : List Obs) (d : DagRef) (n : Node) (below : List Frame) : Out :=
  retTo c (nodeFinally c.P s d n true) obs below .none

/-- `_run_node`: a `Recurrent` result starts the task of the recurrent subgraph (manager.py 656–664) -/
def recSpawns (P : Program) (s : St) (n : Node) (v : Val) : Bool :=
  -- (fix: the subgraph that is being restarted already takes the new result itself; a task created for it now could
  -- start after that one has finished and would restart the subgraph all over again)
  v.isRecur && !(match (P.g.attr n).startNode with
    | some start => s.active.contains (start, n)
    | none => false)

def recSpawn (P : Program) (s : St) (d : DagRef) (n : Node) (v : Val) : St :=
  if recSpawns P s n v then (spawn s [.recStart d n v] (.recur n)).1 else s

/-- `_run_node`: only the task that executed the node stores the result; one that merely waited for it does not
write back what it read (it may be a hidden result, i.e. `None`) -/
def storeIf (s : St) (executedHere : Bool) (n : Node) (v : Val) : St :=
  if executedHere then s.setRes n v else s

/-- a collaborator raised `e` inside `_run_node` / `_execute_node`: the `finally` of `_run_node` runs and the exception
propagates out of the node's coroutine (nothing contains it, not even a one-of scope) -/
def nodeCbRaise (c : Ctx) (s : St) (obs : List Obs) (d : DagRef) (n : Node) (below : List Frame) (e : Exc) : Out :=
  raiseOut c (nodeFinally c.P s d n true) obs below (.exc e)

/-- `on_node_complete` raised `e` inside the `try` of `_execute_node` (or inside `__execute_node`): an `Exception` is
caught by `except Exception as ex`, which reports it with a second `on_node_complete(error=e)` — that raises again —
so either way `e` leaves the node's coroutine -/
def nodeCbRaiseInTry (c : Ctx) (s : St) (obs : List Obs) (d : DagRef) (n : Node) (below : List Frame) (e : Exc) : Out :=
  nodeCbRaise c s (if e.isException then obs ++ [.ncomplete n (some e)] else obs) d n below e

/-- `_run_node` after `_execute_node` returned `v` (manager.py 630–649) and the `finally` -/
def nodePost (c : Ctx) (s : St) (obs : List Obs) (d : DagRef) (n : Node) (below : List Frame) (v : Val)
    (executedHere : Bool := true) : Out :=
  -- a `Recurrent` result: start the recurrent subgraph, do not unlock the descendants
  let obs := if recSpawns c.P s n v then obs ++ [.spawn s.tasks.length (.recur n)] else obs
  let s := storeIf (recSpawn c.P s d n v) executedHere n v
  -- fix c29fd0e: only a real value is saved, and only by the task that executed the node
  if executedHere && !v.isRecur && !v.isExc then
    cbCall c .save n s (obs ++ [.save n v]) (fun j => .node d n false (.cbSave j) :: below)
      (fun s obs => nodeFinish c s obs d n below) (fun e s obs => nodeCbRaise c s obs d n below e)
  else retTo c (nodeFinally c.P s d n (!v.isRecur)) obs below .none

/-- `_execute_node`'s `except Exception as ex` after its `emit_on_node_complete(error=ex)` (manager.py 335–340) -/
def nodeFailCont (c : Ctx) (s : St) (obs : List Obs) (d : DagRef) (n : Node) (below : List Frame) (e : Exc) : Out :=
  if d.isOneof then nodePost c s obs d n below (.exc e)
  else raiseOut c (nodeFinally c.P s d n true) obs below (.exc e)

/-- `_execute_node`'s `except Exception as ex` (manager.py 333–340) -/
def nodeFail (c : Ctx) (s : St) (obs : List Obs) (d : DagRef) (n : Node) (below : List Frame) (e : Exc) : Out :=
  cbCall c .ncomplete n s (obs ++ [.ncomplete n (some e)]) (fun j => .node d n false (.cbFail j e) :: below)
    (fun s obs => nodeFailCont c s obs d n below e) (fun e' s obs => nodeCbRaise c s obs d n below e')

def nodeSuccess (c : Ctx) (s : St) (obs : List Obs) (d : DagRef) (n : Node) (below : List Frame) (v : Val) : Out :=
  cbCall c .ncomplete n s (obs ++ [.ncomplete n none]) (fun j => .node d n false (.cbOk j v) :: below)
    (fun s obs => nodePost c s obs d n below v) (fun e s obs => nodeCbRaiseInTry c s obs d n below e)

/-- `run_node_default(node, **kwargs)`: `get_default` is called once, with the kwargs of the attempts.  When it raises,
the exception leaves `__execute_node` (it is raised inside an `except` clause, or — `force_default` — the retry loop is
not modelled for it: the generator gives no failing default to a recurrent destination) and `_execute_node` treats it
like the node's own failure: `on_node_complete(error)`, stored in a one-of scope, raised otherwise -/
def nodeDefault (c : Ctx) (s : St) (obs : List Obs) (d : DagRef) (n : Node) (below : List Frame) (kw : Kwargs) : Out :=
  match c.P.dfltRaise n with
  | none => nodeSuccess c s (obs ++ [.dflt n kw]) d n below (c.P.dflt n kw)
  | some e =>
    if e.isException then nodeFail c s (obs ++ [.dflt n kw]) d n below e
    else raiseOut c (nodeFinally c.P s d n true) (obs ++ [.dflt n kw]) below (.exc e)

/-- `await asyncio.sleep(retry_policy.delay)` (manager.py 391) -/
def nodeSleep (c : Ctx) (s : St) (obs : List Obs) (d : DagRef) (n : Node) (force : Bool) (below : List Frame)
    (k : Nat) (kw : Kwargs) (inv : Nat) : Out :=
  let dl := (c.P.cfg n).delayEff
  if dl > 0 then block c s (obs ++ [.sleep dl]) (.node d n force (.sleep k kw inv) :: below) (.sleep n inv k dl)
  else yieldNow c s obs (.node d n force (.sleep k kw inv) :: below)

/-- `__execute_node`: outcome `o` of attempt `k` (manager.py 362–397) -/
def nodeAfterBody (c : Ctx) (s : St) (obs : List Obs) (d : DagRef) (n : Node) (force : Bool) (below : List Frame)
    (k : Nat) (kw : Kwargs) (inv : Nat) (o : BodyOutcome) : Out :=
  let cfg := c.P.cfg n
  match o with
  | .ret v => nodeSuccess c s obs d n below v
  | .raise e =>
    if cfg.retryable e then
      if k == cfg.attemptsEff then
        if cfg.useDefault then nodeDefault c s obs d n below kw else nodeFail c s obs d n below e
      else
        cbCall c .ncomplete n s (obs ++ [.ncomplete n (some e)]) (fun j => .node d n force (.cbRetry j k kw inv) :: below)
          (fun s obs => nodeSleep c s obs d n force below k kw inv)
          (fun e' s obs => nodeCbRaiseInTry c s obs d n below e')
    else if e.isException then
      if cfg.useDefault then nodeDefault c s obs d n below kw else nodeFail c s obs d n below e
    else
      -- a BaseException outside Exception: neither retried nor defaulted; only the `finally` runs
      raiseOut c (nodeFinally c.P s d n true) obs below (.exc e)

/-- one attempt of `__execute_node` -/
def nodeAttempt (c : Ctx) (s : St) (obs : List Obs) (d : DagRef) (n : Node) (force : Bool) (below : List Frame)
    (k : Nat) (kw : Kwargs) (inv : Nat) : Out :=
  if force then nodeDefault c s obs d n below kw
  else
    let o := c.P.body n kw inv k
    let obs := obs ++ [.body n inv k kw]
    match (c.P.cfg n).mode with
    | .inline => nodeAfterBody c s obs d n force below k kw inv o
    | _ => block c s (obs ++ [.gate n inv k]) (.node d n force (.body k kw inv) :: below) (.gate n inv k o)

/-- `_execute_node` after `emit_on_node_start` returned: the kwargs and the first attempt (manager.py 319–326) -/
def nodeBegin (c : Ctx) (s : St) (obs : List Obs) (d : DagRef) (n : Node) (force : Bool) (below : List Frame)
    (inv : Nat) : Out :=
  match nodeKwargs c.P s n with
  | .err e => nodeFail c s obs d n below e
  | .ok kw => nodeAttempt c s obs d n force below 1 kw inv

/-- `_run_node` / `_execute_node` entry (manager.py 309–326) -/
def nodeStart (c : Ctx) (s : St) (obs : List Obs) (d : DagRef) (n : Node) (force : Bool) (below : List Frame) : Out :=
  if s.procExists n then
    if s.evSet n then nodePost c s obs d n below (s.get n) false
    else block c s obs (.node d n force .evWait :: below) (.event n)
  else
    let inv := s.invCount n
    let s := s.markProcessed n
    cbCall c .nstart n s (obs ++ [.nstart n]) (fun j => .node d n force (.cbStart j inv) :: below)
      (fun s obs => nodeBegin c s obs d n force below inv) (fun e s obs => nodeCbRaise c s obs d n below e)

/-- the wait predicate of `_run_oneof` for candidate `cand` with sub-DAG `sub` (manager.py 555–567) -/
def oneofDone (s : St) (cand : Node) (sub : DagRef) : Bool :=
  hasError s sub || (s.exists cand && !(s.get cand).isRecur)

/-- `_run_oneof`: the candidate succeeded — copy its result to the synthetic node, wake everybody (manager.py 568–577) -/
def oneofWin (c : Ctx) (s : St) (obs : List Obs) (head cand : Node) (below : List Frame) : Out :=
  let s := s.setRes head (s.getHid cand)
  let s := notify s (.node head)
  let s := notifyAll s ((c.P.g.desc1 head).map Key.node)
  let s := notify s .run
  retTo c s obs below .none

/-- `_run_oneof`: try the remaining candidates (manager.py 542–586) -/
def oneofTry (c : Ctx) (d : DagRef) (head : Node) (below : List Frame) : St → List Obs → List Node → Out
  | s, obs, [] =>
    let e : Exc := ⟨"OneOfNoResult", head, 0, 0⟩
    if d.isNested then
      let s := s.setRes head (.exc e)
      let s := notify s (.node head)
      let s := notifyAll s ((c.P.g.desc1 head).map Key.node)
      retTo c s obs below .none
    else
      raiseOut c (notify s .run) obs below (.exc e)
  | s, obs, cand :: rest =>
    let s := openCand s true cand
    match reducedRef c.P s c.P.g.input cand false true true with
    | none => raiseOut c s obs below (.exc ⟨"Other:NodeNotFound", 0, 0, 0⟩)
    | some sub =>
      -- (fix: a result from before a restart must not be taken for the result of the candidate)
      let s := s.refresh sub.nodes
      let obs := obs ++ [.spawn s.tasks.length .dag]
      let s := (spawn s [.dagInit sub] .dag).1
      if oneofDone s cand sub then
        if hasError s sub then oneofTry c d head below s obs rest
        else oneofWin c s obs head cand below
      else block c s obs (.oneofWait d head cand rest sub :: below) (.cond (.node cand))

/-- `_run_oneof` woken while waiting for candidate `cand` -/
def oneofWake (c : Ctx) (s : St) (obs : List Obs) (d : DagRef) (head cand : Node) (rest : List Node) (sub : DagRef)
    (below : List Frame) : Out :=
  if oneofDone s cand sub then
    if hasError s sub then oneofTry c d head below s obs rest
    else oneofWin c s obs head cand below
  else block c s obs (.oneofWait d head cand rest sub :: below) (.cond (.node cand))

/-- `_add_case_result`: the stored (visible) result of the decision node of switch node `n` -/
def switchLabel (P : Program) (s : St) (n : Node) : Val :=
  ((P.g.edges.filter (fun e => e.v == n)).filter (·.isSwitch)).foldl (fun _ e => s.get e.u) .none

/-- `_add_case_result`: `branch_nodes`, label ↦ case node (later edges win, as in the dict) -/
def switchCases (P : Program) (n : Node) : List (Label × Node) :=
  (P.g.edges.filter (fun e => e.v == n)).filterMap fun e => if e.isSwitch then none else e.case.map (·, e.u)

/-- `branch_nodes[selected_branch_label]`; `none` = KeyError -/
def switchSelect (P : Program) (s : St) (n : Node) : Option (Label × Node) :=
  match switchLabel P s n with
  | .str l => ((switchCases P n).filter (·.1 == l)).getLast?
  | _ => none

/-- the error of a switch that selects nothing: the failure of its decision node if that is what the node's result is
(it failed inside a one-of scope), else `SwitchDoesNotHaveCaseError` -/
def switchError (P : Program) (s : St) (n : Node) : Exc :=
  match switchLabel P s n with
  | .exc x => x
  | _ => ⟨"SwitchNoCase", n, 0, 0⟩

/-- `_run_switch` entry (manager.py _add_case_result + reduced dag) -/
def switchStart (c : Ctx) (s : St) (obs : List Obs) (d : DagRef) (n : Node) (below : List Frame) : Out :=
  match switchSelect c.P s n with
  | none =>
    -- (fix: a decision node that failed inside a one-of scope has an exception object as its result: the switch fails
    -- with that error — an exception is not a label)
    let e : Exc := switchError c.P s n
    if d.isOneof then
      -- inside a one-of scope the error is kept as the switch node's result: the candidate fails, not the run
      let s := s.setRes n (.exc e)
      let s := notify s (.node n)
      let s := notifyAll s ((c.P.g.desc1 n).map Key.node)
      retTo c s obs below .none
    else raiseOut c (notify s .run) obs below (.exc e)
  | some (l, cn) =>
    let s := openCand (s.setSw n (l, cn)) d.isOneof cn
    -- (fix: the sub-DAG of the case inherits both one-of flags of the DAG the switch node belongs to)
    match reducedRef c.P s c.P.g.input cn false d.isOneof d.isNested with
    | none => raiseOut c s obs below (.exc ⟨"Other:NodeNotFound", 0, 0, 0⟩)
    | some sub => dagInit c s obs sub (.switchRet d n :: below)

/-- error exit of `_run_recurrent_subgraph` and its two success exits -/
def recFinish (c : Ctx) (s : St) (obs : List Obs) (n start : Node) (below : List Frame) : Out :=
  retTo c (s.setActive (s.active.filter (· != (start, n)))) obs below .none

/-- `_run_recurrent_subgraph`: iteration `k` with the previous result `r` (manager.py 721–782) -/
def recIter (c : Ctx) (s : St) (obs : List Obs) (d : DagRef) (n start : Node) (g : DagRef) (k : Nat) (r : Val)
    (below : List Frame) : Out :=
  let maxIter := ((c.P.g.attr n).maxIter).getD 0
  if k < maxIter then
    let data := match r with | .recur x => x | _ => .none
    let s := s.setAdditional start data
    let s := s.invalidate (recScopeNodes c.P start n d.isOneof)   -- (fix: everything between start and dest)
    dagInit c s obs g (.recIterRet d n start g k :: below)
  else
    if r.isRecur && (c.P.cfg n).useDefault then
      let s := s.hide [n]
      nodeStart c s obs d n true (.recDfltRet d n start :: below)
    else
      let e : Exc := ⟨"RecNoResult", n, 0, 0⟩
      if d.isOneof then
        let s := s.setRes n (.exc e)
        let s := notify s (.node n)
        let s := notifyAll s ((c.P.g.desc1 n).map Key.node)
        recFinish c s obs n start below
      else raiseOut c (notify s .run) obs below (.exc e)

def recStart (c : Ctx) (s : St) (obs : List Obs) (d : DagRef) (n : Node) (r : Val) (below : List Frame) : Out :=
  match (c.P.g.attr n).startNode with
  | none => raiseOut c s obs below (.exc ⟨"Other:NodeNotFound", 0, 0, 0⟩)
  | some start =>
    if s.active.contains (start, n) then retTo c s obs below .none
    else
      let s := s.setActive ((start, n) :: s.active)
      match recGraph c.P start n d.isOneof with
      | none => raiseOut c s obs below (.exc ⟨"Other:NodeNotFound", 0, 0, 0⟩)
      | some b =>
        match recLaunch c.P s { b with isNested := d.isNested } n with      -- (fix: the scope keeps is_nested_oneof)
        | none => raiseOut c s obs below (.exc ⟨"Other:NodeNotFound", 0, 0, 0⟩)
        | some g => recIter c s obs d n start g 0 r below

/-- errors of finished, non-cancelled engine tasks (`_get_first_error_in_tasks` after the fix) -/
def taskErrors (s : St) : List Exc :=
  s.tasks.filterMap fun t => match t.st with | .done (.exc e) => some e | _ => none

def liveTasks (s : St) (except : Nat) : List Nat :=
  (List.range s.tasks.length).filter fun i => i != except

/-- `chart.run` returns (or re-raises): the caller's task ends -/
def mgrReturn (c : Ctx) (s : St) (obs : List Obs) (o : Outcome) : Out :=
  let r := endTask c s (obs ++ [.returned o]) .ok
  (r.1.setOutcome o, r.2)

/-- `chart.run` wraps the outcome in a PipelineResult and emits `on_pipeline_complete` (chart.py 55–71);
a BaseException outside Exception passes through without it -/
def mgrComplete (c : Ctx) (s : St) (obs : List Obs) (o : Outcome) : Out :=
  match o with
  | .raised _ => mgrReturn c s obs o
  | _ => cbCall c .pcomplete 0 s (obs ++ [.pcomplete o]) (fun j => [.mgrCbComplete j o])
           (fun s obs => mgrReturn c s obs o)
           -- `on_pipeline_complete` raised: on the success path an `Exception` is caught by chart.run's own
           -- `except Exception`, reported by a second `on_pipeline_complete(error)` — which raises again
           (fun e s obs =>
             let twice := match o with | .value _ => e.isException | _ => false
             mgrReturn c s (if twice then obs ++ [.pcomplete (.error e)] else obs) (.raised e))

/-- the outcome `manager.run` computes: the exception of a finished task (`_get_first_error_in_tasks`), else the output's value -/
def finishOutcome (c : Ctx) (s : St) : Outcome :=
  match (taskErrors s)[c.pick % (max (taskErrors s).length 1)]? with
  | some e => if e.isException then .error e else .raised e
  | none => .value (s.getHid c.P.g.output)

def mgrFinish (c : Ctx) (s : St) (obs : List Obs) : Out :=
  mgrComplete c (cancelTasks s (liveTasks s c.t)) obs (finishOutcome c s)

def mgrCheck (c : Ctx) (s : St) (obs : List Obs) : Out :=
  if !(taskErrors s).isEmpty || s.exists c.P.g.output then mgrFinish c s obs
  else block c s obs [.mgrWait] (.cond .run)

/-- `chart.run` after `emit_on_pipeline_start` returned: pool validation, `manager.run` (chart.py 54, dag.py 38–47) -/
def mgrBegin (c : Ctx) (s : St) (obs : List Obs) : Out :=
  if !c.P.poolsOk then mgrComplete c s obs (.error ⟨"Other:RuntimeError", 0, 0, 0⟩)
  else
    match reducedRef c.P s c.P.g.input c.P.g.output false false false with
    | none => mgrComplete c s obs (.error ⟨"Other:NodeNotFound", 0, 0, 0⟩)
    | some d => mgrCheck c (spawn s [.dagInit d] .run).1 (obs ++ [.spawn s.tasks.length .run])

def mgrStart (c : Ctx) (s : St) (obs : List Obs) : Out :=
  cbCall c .pstart 0 s (obs ++ [.pstart]) (fun j => [.mgrCbStart j])
    (fun s obs => mgrBegin c s obs) (fun e s obs => mgrReturn c s obs (.raised e))

/-- CancelledError delivered to the current task at its suspension point -/
def deliverCancel (c : Ctx) (s : St) (tk : Task) : Out :=
  match tk.frames with
  | [.mgrStart] =>
    let r := endTask c s [.returned .cancelled] .cancelled
    (r.1.setOutcome .cancelled, r.2)
  | [.mgrCbStart _] =>
    let r := endTask c s [.returned .cancelled] .cancelled
    (r.1.setOutcome .cancelled, r.2)
  | [.mgrWait] =>
    let r := endTask c (cancelTasks s (liveTasks s c.t)) [.returned .cancelled] .cancelled
    (r.1.setOutcome .cancelled, r.2)
  | [.mgrCbComplete _ _] =>
    let r := endTask c s [.returned .cancelled] .cancelled
    (r.1.setOutcome .cancelled, r.2)
  | fs => raiseOut c s [] fs .cancelled

/-- one atomic section of task `c.t` -/
def stepTask (c : Ctx) (s : St) : Option Out :=
  match s.tasks[c.t]? with
  | none => none
  | some tk =>
    match tk.st with
    | .runnable rv =>
      if tk.mustCancel then some (deliverCancel c s tk)
      else
        match tk.frames, rv with
        | [.mgrStart], _ => some (mgrStart c s [])
        | [.mgrWait], _ => some (mgrCheck c s [])
        | [.mgrCbStart j], _ => some (cbThen c s [] (fun j => [.mgrCbStart j]) j (fun s obs => mgrBegin c s obs))
        | [.mgrCbComplete j o], _ =>
          some (cbThen c s [] (fun j => [.mgrCbComplete j o]) j (fun s obs => mgrReturn c s obs o))
        | .dagInit d :: below, _ => some (dagInit c s [] d below)
        | .dagLaunch d rest :: below, _ => some (dagLaunch c d below s [] rest)
        | .dagWaitDest d :: below, _ => some (dagWaitDest c s [] d below)
        | .node d n force .start :: below, _ => some (nodeStart c s [] d n force below)
        | .node d n _ .evWait :: below, _ => some (nodePost c s [] d n below (s.get n) false)
        -- (the awaited body's outcome is the one recorded when the attempt started: bodies are deterministic functions
        -- of (kwargs, invocation, attempt))
        | .node d n force (.body k kw inv) :: below, .body _ =>
          some (nodeAfterBody c s [] d n force below k kw inv (c.P.body n kw inv k))
        | .node d n force (.sleep k kw inv) :: below, _ => some (nodeAttempt c s [] d n force below (k + 1) kw inv)
        | .node d n force (.cbStart j inv) :: below, _ =>
          some (cbThen c s [] (fun j => .node d n force (.cbStart j inv) :: below) j
            (fun s obs => nodeBegin c s obs d n force below inv))
        | .node d n force (.cbRetry j k kw inv) :: below, _ =>
          some (cbThen c s [] (fun j => .node d n force (.cbRetry j k kw inv) :: below) j
            (fun s obs => nodeSleep c s obs d n force below k kw inv))
        | .node d n _ (.cbOk j v) :: below, _ =>
          some (cbThen c s [] (fun j => .node d n false (.cbOk j v) :: below) j
            (fun s obs => nodePost c s obs d n below v))
        | .node d n _ (.cbFail j e) :: below, _ =>
          some (cbThen c s [] (fun j => .node d n false (.cbFail j e) :: below) j
            (fun s obs => nodeFailCont c s obs d n below e))
        | .node d n _ (.cbSave j) :: below, _ =>
          some (cbThen c s [] (fun j => .node d n false (.cbSave j) :: below) j
            (fun s obs => nodeFinish c s obs d n below))
        | .switchStart d n :: below, _ => some (switchStart c s [] d n below)
        | .switchRet _ n :: below, .ret v =>
          some (retTo c (notifyAll s ((c.P.g.desc1 n).map Key.node)) [] below v)
        | .oneofStart d head :: below, _ => some (oneofTry c d head below s [] (c.P.g.attr head).oneofNodes)
        | .oneofWait d head cand rest sub :: below, _ => some (oneofWake c s [] d head cand rest sub below)
        | .recStart d n r :: below, _ => some (recStart c s [] d n r below)
        | .recIterRet d n start g k :: below, .ret v =>
          if hasError s g then
            -- (fix: the destination still asks for another iteration that will not come: it gets the error of its
            -- dependency — errors are results only inside a one-of scope — and its waiters are woken)
            let s := if v.isRecur then
                notifyAll (notify (s.setRes n (.exc (subgraphError c.P s g))) (.node n)) ((c.P.g.desc1 n).map Key.node)
              else s
            retTo c s [] below .none
          else if !v.isRecur then recFinish c s [] n start below
          else some (recIter c s [] d n start g (k + 1) v below)
        | .recDfltRet _ n start :: below, .ret _ => some (recFinish c s [] n start below)
        | _, _ => none
    | _ => none

inductive Choice
  | run (t : Nat) (ord : List Node) (pick : Nat)   -- one atomic section of task t
  | gate (n inv att : Nat)                          -- the body of attempt (n, inv, att) finished
  | timer (t : Nat)                                 -- the sleep of task t elapsed
  | cancelCaller
  deriving Repr

/-- is the task awaiting the body of attempt (n, inv, att)? -/
def gateMatches (n inv att : Nat) (tk : Task) : Bool :=
  match tk.st with
  | .blocked (.gate n' i' a' _) => n' == n && i' == inv && a' == att
  | _ => false

/-- the awaited body finished: the task becomes runnable with the body's outcome -/
def gateDone (n inv att : Nat) (tk : Task) : Task :=
  match tk.st with
  | .blocked (.gate n' i' a' o) =>
    if n' == n && i' == inv && a' == att then { tk with st := .runnable (.body o) } else tk
  | _ => tk

def step (P : Program) (s : St) : Choice → Option Out
  | .run t ord pick => stepTask { P := P, t := t, ord := ord, pick := pick } s
  | .gate n inv att =>
    if !(s.tasks.any (gateMatches n inv att)) then none
    else some ({ s with tasks := s.tasks.map (gateDone n inv att) }, [])
  | .timer t =>
    match s.tasks[t]? with
    | some tk => match tk.st with
      | .blocked (.sleep ..) => some (s.setTask t { tk with st := .runnable .go }, [])
      | _ => none
    | none => none
  | .cancelCaller => some (cancelTask s 0, [])

/-- initial state of one run: the caller's task, about to enter `chart.run` -/
def init : St := { tasks := [{ frames := [.mgrStart], st := .runnable .go, name := .caller }] }

def isRunnable (tk : Task) : Bool := match tk.st with | .runnable _ => true | _ => false

/-- something outside the engine is still pending (a node body or a timer) -/
def hasExternal (s : St) : Bool := s.tasks.any fun tk => match tk.st with
  | .blocked (.gate ..) => true
  | .blocked (.sleep ..) => true
  | _ => false

/-- the loop is idle, nothing is outstanding, and the run is still pending (C02's bad state) -/
def stuck (s : St) : Bool := s.outcome.isNone && !s.tasks.any isRunnable && !hasExternal s

end MLPE.Eng

/-
  Model of `ml_pipeline_viewer/visualization/dag.py` (`GraphConfigImpl.generate`) and `schema.py`:
  the projection of a built DAG to the viewer's graph description.  `inspect`-derived strings (doc,
  code_source) are opaque inputs.  Models the code after the `fix:` commit for custom node types.
  No Mathlib imports (linked into the native driver).
-/
namespace MLPE.Viewer

structure ClassInfo where
  name        : Option String
  verboseName : Option String
  nodeType    : Option String       -- `node.node_type` (value of the enum member, or a custom string)
  className   : String              -- `node.__name__`
  doc         : Option String
  code        : String
  deriving Repr, Inhabited

/-- what the viewer reads from a `DAG` -/
structure VIn where
  nodes : List String
  edges : List (String × String)
  info  : String → Option ClassInfo          -- `dag.node_map.get(node_id)`

structure NodeData where
  name : Option String
  verboseName : Option String
  doc : Option String
  code : String
  deriving DecidableEq, Repr

structure VNode where
  id        : String
  isVirtual : Bool
  isGeneric : Bool
  type      : Option String
  data      : Option NodeData
  deriving DecidableEq, Repr

structure VEdge where
  id     : String
  source : String
  target : String
  deriving DecidableEq, Repr

structure Config where
  nodes     : List VNode
  edges     : List VEdge
  nodeTypes : List (String × Option String)      -- type name ↦ colour
  deriving Repr

def knownTypes : List String := ["processor", "generic", "switch", "input_one_of", "recurrent"]

/-- `NodeType.by_prefix`; `none` = RuntimeError("Couldn't find the type") -/
def byPrefix (id : String) : Option String := knownTypes.find? (fun t => id.startsWith t)

/-- `NodeType.is_generic(node.__name__)` -/
def isGenericName (cls : String) : Bool := (cls.toLower.splitOn "generic").length > 1

def mkNode (v : VIn) (id : String) : Except String VNode :=
  match v.info id with
  | none =>
    match byPrefix id with
    | some t => .ok { id := id, isVirtual := true, isGeneric := false, type := some t, data := none }
    | none => .error "RuntimeError"
  | some ci =>
    .ok { id := id, isVirtual := false, isGeneric := isGenericName ci.className, type := ci.nodeType,
          data := some { name := ci.name, verboseName := ci.verboseName, doc := ci.doc, code := ci.code } }

def mapM' {α β} (f : α → Except String β) : List α → Except String (List β)
  | [] => .ok []
  | a :: as => match f a with
    | .error e => .error e
    | .ok b => match mapM' f as with
      | .error e => .error e
      | .ok bs => .ok (b :: bs)

def mkEdge (e : String × String) : VEdge := { id := e.1 ++ "->" ++ e.2, source := e.1, target := e.2 }

/-- `_generate_node_types`: first occurrence of every type that occurs, in node order -/
def typeTable (colors : String → Option String) : List VNode → List (String × Option String)
  | [] => []
  | n :: ns =>
    let rest := typeTable colors ns
    match n.type with
    | none => rest
    | some t => (t, colors t) :: rest.filter (fun p => p.1 != t)

def config (v : VIn) (colors : String → Option String) : Except String Config :=
  match mapM' (mkNode v) v.nodes with
  | .error e => .error e
  | .ok ns => .ok { nodes := ns, edges := v.edges.map mkEdge, nodeTypes := typeTable colors ns }

end MLPE.Viewer

import MLPE.Sem
import MLPE.Proofs.EngTasks

/-!
# C17 — execution mode is transparent; a missing pool fails fast

* The specification `Sem` never looks at the execution mode: the declared outcome is the same under every assignment
  of modes (`C17_semantics_ignores_mode`).  With C01 (engine outcome = `Sem`, every mode assignment) this is mode
  transparency of the engine.
* In the engine model the mode decides only *whether the task suspends* while the body runs: the outcome handed to
  the retry policy is `P.body n kwargs inv att` in every mode (`C17_mode_changes_only_the_suspension`).
* If a pool the DAG needs is not registered or has been shut down (`poolsOk = false`, `DAG._validate_pool_executors`),
  the run ends with an error result before anything is spawned: no node body, no engine task
  (`C17_missing_pool_fails_fast`).
Not carried by the model: real thread / process timing, pickling, fork — the check runs real pools and compares the
outcome with `Sem` (differential, labelled as such in the evidence).
-/
namespace MLPE

/-- two configurations that differ at most in the execution mode -/
def sameButMode (a b : NodeCfg) : Prop :=
  a.name = b.name ∧ a.attempts = b.attempts ∧ a.delay = b.delay ∧ a.exceptions = b.exceptions ∧ a.useDefault = b.useDefault

theorem retry_decide_ignores_mode {a b : NodeCfg} (h : sameButMode a b) (k : Nat) (o : BodyOutcome) :
    Retry.decide a k o = Retry.decide b k o := by
  obtain ⟨_, h2, _, h4, h5⟩ := h
  cases o with
  | ret v => rfl
  | raise e => simp [Retry.decide, NodeCfg.retryable, NodeCfg.attemptsEff, h2, h4, h5]

theorem retry_loop_ignores_mode {a b : NodeCfg} (h : sameButMode a b) (outcomes : Nat → BodyOutcome) :
    ∀ fuel k, Retry.loop a outcomes fuel k = Retry.loop b outcomes fuel k := by
  intro fuel
  induction fuel with
  | zero => intro k; rfl
  | succ fuel ih =>
    intro k
    simp only [Retry.loop, retry_decide_ignores_mode h, ih]
    have : a.delayEff = b.delayEff := by simp [NodeCfg.delayEff, h.2.2.1]
    rw [this]

theorem retry_run_ignores_mode {a b : NodeCfg} (h : sameButMode a b) (outcomes : Nat → BodyOutcome) :
    Retry.run a outcomes = Retry.run b outcomes := by
  have : a.attemptsEff = b.attemptsEff := by simp [NodeCfg.attemptsEff, h.2.1]
  simp [Retry.run, this, retry_loop_ignores_mode h]

/-- the program with another assignment of execution modes -/
def Program.withModes (P : Program) (m : Node → Mode) : Program :=
  { P with cfg := fun n => { P.cfg n with mode := m n } }

theorem applyNode_ignores_mode (P : Program) (m : Node → Mode) (n : Node) (kw : Kwargs) (inv : Nat) :
    Sem.applyNode (P.withModes m) n kw inv = Sem.applyNode P n kw inv := by
  have h : sameButMode ((P.withModes m).cfg n) (P.cfg n) := ⟨rfl, rfl, rfl, rfl, rfl⟩
  simp only [Sem.applyNode, retry_run_ignores_mode h]
  rfl

theorem evalPlain_ignores_mode (P : Program) (m : Node → Mode) (rec rec' : Node → Sem.SemSt → Sem.Res × Sem.SemSt)
    (hrec : rec = rec') (n : Node) (st : Sem.SemSt) :
    Sem.evalPlain (P.withModes m) rec n st = Sem.evalPlain P rec' n st := by
  subst hrec
  simp only [Sem.evalPlain, applyNode_ignores_mode]
  rfl

theorem recLoop_ignores_mode (P : Program) (m : Node → Mode) (rec : Node → Sem.SemSt → Sem.Res × Sem.SemSt)
    (n start : Node) (sub : List Node) : ∀ left r st,
    Sem.recLoop (P.withModes m) rec n start sub left r st = Sem.recLoop P rec n start sub left r st := by
  intro left
  induction left with
  | zero => intro r st; rfl
  | succ left ih =>
    intro r st
    simp only [Sem.recLoop]
    split
    · simp only [evalPlain_ignores_mode P m rec rec rfl, ih]
    · rfl

theorem eval_ignores_mode (P : Program) (m : Node → Mode) : ∀ fuel n st,
    Sem.eval (P.withModes m) fuel n st = Sem.eval P fuel n st := by
  intro fuel
  induction fuel with
  | zero => intro n st; rfl
  | succ fuel ih =>
    intro n st
    have hf : Sem.eval (P.withModes m) fuel = Sem.eval P fuel := funext fun n => funext fun st => ih n st
    have hg : (P.withModes m).g = P.g := rfl
    have hc : ∀ x, ((P.withModes m).cfg x).useDefault = (P.cfg x).useDefault := fun _ => rfl
    have hd : (P.withModes m).dflt = P.dflt := rfl
    have hdr : (P.withModes m).dfltRaise = P.dfltRaise := rfl
    simp only [Sem.eval, hf, hg, hc, hd, hdr, evalPlain_ignores_mode P m _ _ rfl, recLoop_ignores_mode]

/-- **the declared outcome does not depend on the execution modes** -/
theorem C17_semantics_ignores_mode (P : Program) (m : Node → Mode) :
    (Sem.run (P.withModes m)).1 = (Sem.run P).1 := by
  have hp : (P.withModes m).poolsOk = P.poolsOk := rfl
  have hg : (P.withModes m).g = P.g := rfl
  simp only [Sem.run, hp, hg, eval_ignores_mode]

namespace Eng

/-- in the engine model the body's outcome for attempt `k` is `P.body n kw inv k` whatever the mode; the mode only
decides whether the task runs it inline or suspends until it completes -/
theorem C17_mode_changes_only_the_suspension (c : Ctx) (s : St) (obs : List Obs) (d : DagRef) (n : Node)
    (below : List Frame) (k : Nat) (kw : Kwargs) (inv : Nat) :
    nodeAttempt c s obs d n false below k kw inv =
      match (c.P.cfg n).mode with
      | .inline => nodeAfterBody c s (obs ++ [.body n inv k kw]) d n false below k kw inv (c.P.body n kw inv k)
      | _ => block c s (obs ++ [.body n inv k kw] ++ [.gate n inv k]) (.node d n false (.body k kw inv) :: below)
               (.gate n inv k (c.P.body n kw inv k)) := by
  simp only [nodeAttempt, Bool.false_eq_true, if_false]
  cases (c.P.cfg n).mode <;> rfl

/-- when the awaited body completes, the very same policy step runs as in the inline case -/
theorem C17_completion_runs_same_policy_step (c : Ctx) (s : St) (d : DagRef) (n : Node) (force : Bool)
    (below : List Frame) (k : Nat) (kw : Kwargs) (inv : Nat) (o : BodyOutcome) (tk : Task)
    (h : s.tasks[c.t]? = some tk) (hm : tk.mustCancel = false)
    (hf : tk.frames = .node d n force (.body k kw inv) :: below) (hst : tk.st = .runnable (.body o)) :
    stepTask c s = some (nodeAfterBody c s [] d n force below k kw inv (c.P.body n kw inv k)) := by
  simp [stepTask, h, hm, hf, hst]

/-- **a missing pool fails fast**: error result, nothing spawned, no node body -/
theorem C17_missing_pool_fails_fast (c : Ctx) (s : St) (obs : List Obs) (h : c.P.poolsOk = false) :
    mgrBegin c s obs = mgrComplete c s obs (.error ⟨"Other:RuntimeError", 0, 0, 0⟩) := by
  simp [mgrBegin, h]

theorem C17_fail_fast_spawns_nothing (c : Ctx) (s : St) (obs : List Obs) (o : Outcome) :
    (mgrComplete c s obs o).1.tasks.length = s.tasks.length := by
  unfold mgrComplete
  have hr : ∀ s' obs' o', (mgrReturn c s' obs' o').1.tasks.length = s'.tasks.length := by
    intro s' obs' o'; simp only [mgrReturn, St.setOutcome, endTask]; split <;> simp
  split
  · exact hr _ _ _
  · unfold cbCall
    split
    · exact hr _ _ _
    · unfold cbThen
      split
      · exact hr _ _ _
      · simp only [yieldNow]; split <;> simp

end Eng
end MLPE

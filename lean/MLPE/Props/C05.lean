import MLPE.Proofs.Safe
import MLPE.Proofs.EngTasks
import MLPE.Proofs.PlainSol

/-!
# C05 — failures are reported faithfully

General facts of the engine model (every program, every state):
* the outcome `manager.run` / `chart.run` produce is either `error e` / `raised e` where `e` is the exception
  with which one of the run's own tasks *finished* — never the cancellation of a helper task (fix a917321) —
  or, when no task failed, the stored value of the output node (`C05_outcome_is_task_error_or_output_value`);
* an `Exception` is always wrapped into the `PipelineResult` (`error`), only a `BaseException` outside
  `Exception` propagates (`raised`) (`C05_exceptions_are_wrapped`);
* the exception a node task finishes with is the one its body raised at the deciding attempt
  (`C05_node_failure_is_the_raised_exception`, with C12's `Retry.decide`).
That such a task exists only if a *required* node failed, and that no value is returned in that case, is the
plain-pipeline theorem C01/C05 (`Props/C01.lean`).
-/
namespace MLPE.Eng
open MLPE

/-- the exceptions `_get_first_error_in_tasks` can return: those of finished, non-cancelled tasks -/
theorem C05_taskErrors_are_finished_task_exceptions (s : St) (e : Exc) :
    e ∈ taskErrors s ↔ ∃ tk ∈ s.tasks, tk.st = .done (.exc e) := by
  simp only [taskErrors, List.mem_filterMap]
  constructor
  · rintro ⟨tk, htk, h⟩
    refine ⟨tk, htk, ?_⟩
    split at h <;> simp_all
  · rintro ⟨tk, htk, h⟩
    exact ⟨tk, htk, by simp [h]⟩

theorem C05_finish_uses_finishOutcome (c : Ctx) (s : St) (obs : List Obs) :
    mgrFinish c s obs = mgrComplete c (cancelTasks s (liveTasks s c.t)) obs (finishOutcome c s) := rfl

/-- **verdict**: an error outcome is the exception of a finished engine task; a value is reported only when no
engine task has failed, and then it is the stored result of the output node -/
theorem C05_outcome_is_task_error_or_output_value (c : Ctx) (s : St) :
    (∃ e, e ∈ taskErrors s ∧ (finishOutcome c s = .error e ∨ finishOutcome c s = .raised e)) ∨
    (taskErrors s = [] ∧ finishOutcome c s = .value (s.getHid c.P.g.output)) := by
  unfold finishOutcome
  cases hl : taskErrors s with
  | nil => right; simp
  | cons e es =>
    left
    have hlt' : c.pick % (max (e :: es).length 1) < (e :: es).length := by
      have : max (e :: es).length 1 = (e :: es).length := by simp
      rw [this]; exact Nat.mod_lt _ (by simp)
    rw [List.getElem?_eq_getElem hlt']
    refine ⟨_, List.getElem_mem hlt', ?_⟩
    simp only []
    split
    · left; rfl
    · right; rfl

/-- `chart.run` never raises for an `Exception` subclass, and never wraps a `BaseException` -/
theorem C05_exceptions_are_wrapped (c : Ctx) (s : St) (e : Exc) :
    (finishOutcome c s = .raised e → e.isException = false) ∧
    (finishOutcome c s = .error e → e.isException = true) := by
  unfold finishOutcome
  split
  · next e' _ =>
    by_cases hx : e'.isException = true <;> simp [hx]
    · intro h; subst h; exact hx
    · intro h; subst h; simpa using hx
  · simp

/-- a cancelled helper task is never the reported error (fix a917321) -/
theorem C05_cancelled_task_is_not_an_error (s : St) (tk : Task) (h : tk.st = .done .cancelled) (e : Exc) :
    tk.st ≠ .done (.exc e) := by
  simp [h]

/-- outside a one-of scope, a node whose policy decides `failed e` ends its task with exactly that exception, after
`on_node_complete(error=e)` and the `finally` notifications -/
theorem C05_node_failure_is_the_raised_exception (c : Ctx) (s : St) (obs : List Obs) (d : DagRef) (n : Node)
    (below : List Frame) (e : Exc) (hd : d.isOneof = false) :
    nodeFailCont c s obs d n below e = raiseOut c (nodeFinally c.P s d n true) obs below (.exc e) := by
  simp [nodeFailCont, hd]

/-! ### Plain pipelines, all schedules -/

/-- **C05 (plain), soundness of the verdict**: an error verdict is the policy's failure of a node of the pipeline (all of
whose sources have values) or the exception a collaborator (event manager, artifact store) raised; it is wrapped in the
result iff it is an `Exception` raised inside the engine; never an engine artefact -/
theorem C05_plain_error_is_a_required_node_failure (P : Program) (d : DagRef) (val : Node → Option Val) (hp : PlainP P d)
    (hsol : Solution P d val) (s : St) (h : Live P s) (hpending : s.outcome = none) (c : Choice)
    (hor : OracleOK P s c) (s' : St) (obs : List Obs) (hs : step P s c = some (s', obs)) (o : Outcome)
    (ho : s'.outcome = some o) :
    (∀ e, o = .error e → e.isException = true ∧ FailCause P d val e) ∧
    (∀ e, o = .raised e → CollabFails P e ∨ (e.isException = false ∧ FailCause P d val e)) := by
  have hok := outcome_live (val := val) hp h hpending c hor (s', obs) hs o ho
  constructor
  · intro e he; subst he; exact ⟨hok.1, hok.2 hsol⟩
  · intro e he; subst he
    rcases hok with h1 | ⟨h1, h2⟩
    · exact Or.inl h1
    · exact Or.inr ⟨h1, h2 hsol⟩

/-- with collaborators that do not raise, the cause is a node of the pipeline -/
theorem C05_plain_error_is_a_node_failure_no_collaborator_faults (P : Program) (d : DagRef) (val : Node → Option Val)
    (hp : PlainP P d) (hsol : Solution P d val) (hnr : ∀ e, ¬ CollabFails P e) (s : St) (h : Live P s)
    (hpending : s.outcome = none) (c : Choice) (hor : OracleOK P s c) (s' : St) (obs : List Obs)
    (hs : step P s c = some (s', obs)) (e : Exc) (ho : s'.outcome = some (.error e) ∨ s'.outcome = some (.raised e)) :
    ∃ n ∈ d.nodes, NodeFails P val n e := by
  rcases ho with ho | ho
  · have := (C05_plain_error_is_a_required_node_failure P d val hp hsol s h hpending c hor s' obs hs _ ho).1 e rfl
    rcases this.2 with h1 | h1
    · exact h1
    · exact absurd h1 (hnr e)
  · have := (C05_plain_error_is_a_required_node_failure P d val hp hsol s h hpending c hor s' obs hs _ ho).2 e rfl
    rcases this with h1 | ⟨_, h1 | h1⟩
    · exact absurd h1 (hnr e)
    · exact h1
    · exact absurd h1 (hnr e)

/-- **C05 (plain), completeness of the verdict**: if some node of the pipeline fails (in the dataflow reading: its
sources have values and the retry / default policy ends in a failure), then no execution returns a value — every node
of the DAG feeds the output, so the failure cannot be masked -/
theorem C05_plain_failure_is_never_masked (P : Program) (d : DagRef) (val : Node → Option Val) (hp : PlainP P d)
    (hsol : Solution P d val) (ord : List Node) (ht : TopoOrd P d ord) (hfo : FeedsOutput P d)
    (n : Node) (hn : n ∈ d.nodes) (e : Exc) (hfail : NodeFails P val n e)
    (s : St) (h : Live P s) (hpending : s.outcome = none) (c : Choice)
    (hor : OracleOK P s c) (s' : St) (obs : List Obs) (hs : step P s c = some (s', obs)) (v : Val) :
    s'.outcome ≠ some (.value v) := by
  intro ho
  have hok := outcome_live (val := val) hp h hpending c hor (s', obs) hs _ ho
  have a : val P.g.output = some v := hok hsol
  have := val_none_propagates hsol ht hfo hp.outIn _ n hn (Nat.le_refl _) (hfail.val_none hsol hn)
  rw [a] at this; cases this

/-! ### Pipelines with switches: the error of a failed run has a cause (under every schedule) -/

/-- **C05 (switch pipelines)**: when a run ends with an error, the error is the final failure of a node on its dataflow
arguments, a collaborator's exception, the no-case error of a switch whose decision names no declared case, or a setup
error; it is never an exception of an attempt that was retried, nor a made-up one -/
theorem C05_switch_error_has_cause (P : Program) (val : Node → Option Val) (hsw : SwP P) (hsol : SolutionSw P val)
    (s : St) (h : Reach P s) (e : Exc) (ho : s.outcome = some (.error e) ∨ s.outcome = some (.raised e)) :
    ErrCause P val e := by
  rcases ho with ho | ho
  · exact (safe_reach_sw hsw hsol h).data.out _ ho
  · exact (safe_reach_sw hsw hsol h).data.out _ ho

/-- with sound collaborators and setup, the node (or switch) named by the error has no value in the dataflow semantics -/
theorem C05_switch_error_is_a_real_failure (P : Program) (val : Node → Option Val) (hsw : SwP P)
    (hsol : SolutionSw P val) (s : St) (h : Reach P s) (e : Exc)
    (ho : s.outcome = some (.error e) ∨ s.outcome = some (.raised e))
    (hcb : ∀ cb n, P.cbRaise cb n = none) (hpools : P.poolsOk = true) (hlk : e ≠ ⟨"Other:NodeNotFound", 0, 0, 0⟩) :
    (∃ n, P.g.isSwitch n = false ∧ NodeFails P val n e ∧ val n = none) ∨
    (∃ S, P.g.isSwitch S = true ∧ e = ⟨"SwitchNoCase", S, 0, 0⟩ ∧ swSel P val S = none ∧ val S = none) := by
  rcases errCause_sw hsw (C05_switch_error_has_cause P val hsw hsol s h e ho) with
    ⟨n, h1, h2⟩ | ⟨cb, m, hc⟩ | ⟨S, h1, h2, h4⟩ | h5 | ⟨h6, _⟩
  · refine Or.inl ⟨n, h1, h2, ?_⟩
    rw [hsol.plain n h1, h2.1]
    simp only [if_true, valueOf, h2.2]
  · rw [hcb] at hc; cases hc
  · refine Or.inr ⟨S, h1, h2, h4, ?_⟩
    rw [hsol.sw S h1, h4]; rfl
  · exact absurd h5 hlk
  · rw [hpools] at h6; cases h6

/-- a value is never returned in place of a failure: if the output has no value, no value is returned -/
theorem C05_switch_failure_is_never_masked (P : Program) (val : Node → Option Val) (hsw : SwP P)
    (hsol : SolutionSw P val) (s : St) (h : Reach P s) (hnone : val P.g.output = none) (v : Val) :
    s.outcome ≠ some (.value v) := by
  intro ho
  have : val P.g.output = some v := outcome_value_sw hsw ((safe_reach_sw hsw hsol h).data.out (.value v) ho)
  rw [hnone] at this; cases this

/-! ### Pipelines with switches and one-ofs: the error of a failed run has a cause -/

/-- **C05 (switch / one-of pipelines)**: an error outcome is the final failure of a node on its dataflow arguments, a
collaborator's exception, the no-case error of a switch that selects nothing, `OneOfDoesNotHaveResultError` of a one-of
none of whose candidates has a value, or a setup error -/
theorem C05_oneof_error_has_cause (P : Program) (val : Node → Option Val) (hone : OneP P) (hsol : SolutionOne P val)
    (s : St) (h : Reach P s) (e : Exc) (ho : s.outcome = some (.error e) ∨ s.outcome = some (.raised e)) :
    ErrCause P val e := by
  rcases ho with ho | ho
  · exact (safe_reach hone hsol h).data.out _ ho
  · exact (safe_reach hone hsol h).data.out _ ho

/-- a failure contained by a one-of never surfaces as a value: no value (other than, at worst, an exception object) is
returned when the output has none -/
theorem C05_oneof_failure_is_never_masked (P : Program) (val : Node → Option Val) (hone : OneP P)
    (hsol : SolutionOne P val) (s : St) (h : Reach P s) (hnone : val P.g.output = none) (v : Val)
    (hne : v.isExc = false) : s.outcome ≠ some (.value v) := by
  intro ho
  have := ((safe_reach hone hsol h).data.out (.value v) ho).1 hne
  rw [hnone] at this; cases this

end MLPE.Eng

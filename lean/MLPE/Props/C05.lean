import MLPE.Proofs.EngTasks

/-!
# C05 — failures are reported faithfully

General facts of the engine model (every program, every state):
* the outcome `manager.run` / `chart.run` produce is either `error e` / `raised e` where `e` is the exception
  with which one of the run's own tasks *finished* — never the cancellation of a helper task (fix a917321) —
  or, when no task failed, the stored value of the output node (`C05_outcome_is_task_error_or_output_value`);
* an `Exception` is always wrapped into the `PipelineResult` (`error`), only a `BaseException` outside
  `Exception` propagates (`raised`) (`C05_exceptions_are_wrapped`);
* the exception a node task finishes with is the one its body raised at the deciding attempt
  (`C05_node_failure_is_the_raised_exception`, with C12's `Retry.decide`).
That such a task exists only if a *required* node failed, and that no value is returned in that case, is the
plain-pipeline theorem C01/C05 (`Props/C01.lean`).
-/
namespace MLPE.Eng
open MLPE

/-- the exceptions `_get_first_error_in_tasks` can return: those of finished, non-cancelled tasks -/
theorem C05_taskErrors_are_finished_task_exceptions (s : St) (e : Exc) :
    e ∈ taskErrors s ↔ ∃ tk ∈ s.tasks, tk.st = .done (.exc e) := by
  simp only [taskErrors, List.mem_filterMap]
  constructor
  · rintro ⟨tk, htk, h⟩
    refine ⟨tk, htk, ?_⟩
    split at h <;> simp_all
  · rintro ⟨tk, htk, h⟩
    exact ⟨tk, htk, by simp [h]⟩

/-- the outcome computed when `manager.run` leaves its wait -/
def finishOutcome (c : Ctx) (s : St) : Outcome :=
  match (taskErrors s)[c.pick % (max (taskErrors s).length 1)]? with
  | some e => if e.isException then .error e else .raised e
  | none => .value (s.getHid c.P.g.output)

theorem C05_finish_uses_finishOutcome (c : Ctx) (s : St) (obs : List Obs) :
    mgrFinish c s obs = mgrComplete c (cancelTasks s (liveTasks s c.t)) obs (finishOutcome c s) := rfl

/-- **verdict**: an error outcome is the exception of a finished engine task; a value is reported only when no
engine task has failed, and then it is the stored result of the output node -/
theorem C05_outcome_is_task_error_or_output_value (c : Ctx) (s : St) :
    (∃ e, e ∈ taskErrors s ∧ (finishOutcome c s = .error e ∨ finishOutcome c s = .raised e)) ∨
    (taskErrors s = [] ∧ finishOutcome c s = .value (s.getHid c.P.g.output)) := by
  unfold finishOutcome
  cases hl : taskErrors s with
  | nil => right; simp
  | cons e es =>
    left
    have hlt' : c.pick % (max (e :: es).length 1) < (e :: es).length := by
      have : max (e :: es).length 1 = (e :: es).length := by simp
      rw [this]; exact Nat.mod_lt _ (by simp)
    rw [List.getElem?_eq_getElem hlt']
    refine ⟨_, List.getElem_mem hlt', ?_⟩
    simp only []
    split
    · left; rfl
    · right; rfl

/-- `chart.run` never raises for an `Exception` subclass, and never wraps a `BaseException` -/
theorem C05_exceptions_are_wrapped (c : Ctx) (s : St) (e : Exc) :
    (finishOutcome c s = .raised e → e.isException = false) ∧
    (finishOutcome c s = .error e → e.isException = true) := by
  unfold finishOutcome
  split
  · next e' _ =>
    by_cases hx : e'.isException = true <;> simp [hx]
    · intro h; subst h; exact hx
    · intro h; subst h; simpa using hx
  · simp

/-- a cancelled helper task is never the reported error (fix a917321) -/
theorem C05_cancelled_task_is_not_an_error (s : St) (tk : Task) (h : tk.st = .done .cancelled) (e : Exc) :
    tk.st ≠ .done (.exc e) := by
  simp [h]

/-- outside a one-of scope, a node whose policy decides `failed e` ends its task with exactly that exception, after
`on_node_complete(error=e)` and the `finally` notifications -/
theorem C05_node_failure_is_the_raised_exception (c : Ctx) (s : St) (obs : List Obs) (d : DagRef) (n : Node)
    (below : List Frame) (e : Exc) (hd : d.isOneof = false) :
    nodeFailCont c s obs d n below e = raiseOut c (nodeFinally c.P s d n true) obs below (.exc e) := by
  simp [nodeFailCont, hd]

end MLPE.Eng

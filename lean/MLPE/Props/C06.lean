import MLPE.Proofs.PlainDemo

/-!
# C06 — independent nodes of equal depth run concurrently

In a pipeline of plain `Input` dependencies: hold the bodies of the running nodes open for as long as you like and
let the engine do everything it can do without them (`idle`: no engine task is runnable).  Then every node all of whose
lower-depth nodes have completed **has been started** — it was not kept waiting for a sibling.

The launch loop of `_run_dag` walks the list `_get_node_order` returned and blocks at the first node that is not
ready, so the property depends on that list being sorted by depth ("generation by generation", which is how
`networkx.topological_sort` produces it).  The model takes the list as an oracle input; the theorem assumes what the
property's anchor says about it — *the node the launcher is blocked on is of minimal depth among the nodes not yet
launched* — and the check verifies that assumption on every list the real `_get_node_order` returns
(monitor `generation-order`), as well as the conclusion itself on hold-one-depth-open schedules.
-/
namespace MLPE.Eng
open MLPE

/-- everything that can run without a node body or a timer completing has run -/
def idle (s : St) : Prop := ∀ (i : Nat) (tk : Task), s.tasks[i]? = some tk → isRunnable tk = false

/-- the assumption on the oracle: the launcher's current node is of minimal depth among the nodes still to launch -/
def LaunchByDepth (d : DagRef) (depth : Node → Nat) (s : St) : Prop :=
  ∀ tk m rest, s.tasks[1]? = some tk → tk.frames = [.dagLaunch d (m :: rest)] → ∀ b ∈ rest, depth m ≤ depth b

theorem started_of_launched {P : Program} {d : DagRef} {val : Node → Option Val} {s : St} {L : List Node}
    (hnodes : ∀ i (h : i < L.length), ∃ tk, s.tasks[2 + i]? = some tk ∧ NodeTaskOK P d val s L[i] tk)
    (hidle : idle s) {n : Node} (hn : n ∈ L) : s.proc n = true := by
  obtain ⟨i, hi, rfl⟩ := List.getElem_of_mem hn
  obtain ⟨tk, htk, hok⟩ := hnodes i hi
  have hr := hidle _ _ htk
  cases hok with
  | fresh => simp [isRunnable] at hr
  | inBody k kw inv h1 => exact h1
  | bodyDone => simp [isRunnable] at hr
  | sleeping k kw inv dl h1 => exact h1
  | slept => simp [isRunnable] at hr
  | doneOk h1 => exact h1
  | doneExc e h1 => exact h1
  | doneExcSaved e h1 => exact h1
  | cbStart => simp [isRunnable] at hr
  | cbRetry => simp [isRunnable] at hr
  | cbOk => simp [isRunnable] at hr
  | cbFail => simp [isRunnable] at hr
  | cbSave => simp [isRunnable] at hr

/-- **C06 (plain pipelines)**: in an idle state of a pending run, every node whose lower depths have all completed
has been started, whatever the other nodes of its depth are doing -/
theorem C06_plain_next_depth_started (P : Program) (d : DagRef) (hp : PlainP P d) (s : St) (h : Live P s)
    (hpending : s.outcome = none) (hidle : idle s)
    (depth : Node → Nat) (hdepth : ∀ n ∈ d.nodes, ∀ p ∈ P.g.preds n, depth p < depth n)
    (hord : LaunchByDepth d depth s)
    (n : Node) (hn : n ∈ d.nodes) (hlow : ∀ m ∈ d.nodes, depth m < depth n → (s.res m).isSome = true) :
    s.proc n = true := by
  have hinv : PInv P d (fun _ => none) s := by
    rcases pinv_live (val := fun _ => none) hp h hpending with hinv | ⟨o, hfin⟩
    · exact hinv
    · -- finishing phase: the caller is runnable, the state is not idle
      obtain ⟨j, mc, hc0⟩ := hfin.caller
      have := hidle _ _ hc0
      simp [isRunnable] at this
  rcases hinv.rest with ⟨h1, _⟩ | ⟨L, hlen, ⟨mtk, hm1, hmok⟩, hnodes, hfresh⟩
  · obtain ⟨ctk, hc0, hcok⟩ := hinv.caller
    have hr := hidle _ _ hc0
    cases hcok with
    | start => simp [isRunnable] at hr
    | waiting h2 => omega
    | woken => simp [isRunnable] at hr
    | cbStart => simp [isRunnable] at hr
  · have hr := hidle _ _ hm1
    cases hmok with
    | init => simp [isRunnable] at hr
    | launching => simp [isRunnable] at hr
    | waitingDest => simp [isRunnable] at hr
    | waitNode m rest ht hnr =>
      have hmem : n ∈ L ++ m :: rest := (ht.same n).mpr hn
      rcases List.mem_append.mp hmem with hL | hR
      · exact started_of_launched hnodes hidle hL
      · -- n is not launched yet: then the launcher's node m is not deeper than n, and m is not ready
        exfalso
        have hmn : depth m ≤ depth n := by
          rcases List.mem_cons.mp hR with rfl | hrest
          · exact Nat.le_refl _
          · exact hord _ m rest hm1 rfl n hrest
        have hmd : m ∈ d.nodes := (ht.same m).mp (by simp)
        -- every source of m has a lower depth, hence a result; its task is launched and — the state being idle —
        -- not suspended in the artifact store: it is settled
        apply hnr
        intro p hp1
        have hpd : p ∈ d.nodes := hp.predsIn m hmd p hp1
        have hres := hlow p hpd (Nat.lt_of_lt_of_le (hdepth m hmd p hp1) hmn)
        have hpl := ht.preds_launched p hp1
        obtain ⟨i, hi, rfl⟩ := List.getElem_of_mem hpl
        obtain ⟨tk, htk, hok⟩ := hnodes i hi
        have hrr := hidle _ _ htk
        refine ⟨hres, 2 + i, tk, htk, hok.name_eq.1, ?_⟩
        cases hok with
        | fresh => simp [isRunnable] at hrr
        | inBody _ _ _ _ h2 => rw [h2] at hres; simp at hres
        | bodyDone => simp [isRunnable] at hrr
        | sleeping _ _ _ _ _ h2 => rw [h2] at hres; simp at hres
        | slept => simp [isRunnable] at hrr
        | cbStart => simp [isRunnable] at hrr
        | cbRetry => simp [isRunnable] at hrr
        | cbOk => simp [isRunnable] at hrr
        | cbFail => simp [isRunnable] at hrr
        | cbSave => simp [isRunnable] at hrr
        | doneOk => rfl
        | doneExc _ _ h2 => rw [h2] at hres; simp at hres
        | doneExcSaved => rfl
    | waitDest ht => exact started_of_launched hnodes hidle ((ht.same n).mpr hn)
    | done ht => exact started_of_launched hnodes hidle ((ht.same n).mpr hn)

/-- two siblings (same depth, all lower depths complete) are both started, i.e. in flight together until one of
them completes -/
theorem C06_plain_siblings_together (P : Program) (d : DagRef) (hp : PlainP P d) (s : St) (h : Live P s)
    (hpending : s.outcome = none) (hidle : idle s)
    (depth : Node → Nat) (hdepth : ∀ n ∈ d.nodes, ∀ p ∈ P.g.preds n, depth p < depth n)
    (hord : LaunchByDepth d depth s) (a b : Node) (ha : a ∈ d.nodes) (hb : b ∈ d.nodes) (hab : depth a = depth b)
    (hlow : ∀ m ∈ d.nodes, depth m < depth a → (s.res m).isSome = true) :
    s.proc a = true ∧ s.proc b = true :=
  ⟨C06_plain_next_depth_started P d hp s h hpending hidle depth hdepth hord a ha hlow,
   C06_plain_next_depth_started P d hp s h hpending hidle depth hdepth hord b hb (by rw [← hab]; exact hlow)⟩

/-! ### Non-vacuity: the diamond `0 → {1, 2} → 3`, node 0 complete, bodies of 1 and 2 held open -/

/-- Boolean form of `LaunchByDepth` -/
def launchByDepthB (d : DagRef) (depth : Node → Nat) (s : St) : Bool :=
  match s.tasks[1]? with
  | some tk => match tk.frames with
    | [.dagLaunch d' (m :: rest)] => d' != d || rest.all (fun b => depth m ≤ depth b)
    | _ => true
  | none => true

theorem launchByDepth_of_b {d : DagRef} {depth : Node → Nat} {s : St} (h : launchByDepthB d depth s = true) :
    LaunchByDepth d depth s := by
  intro tk m rest h1 h2 b hb
  simp only [launchByDepthB, h1, h2, bne_self_eq_false, Bool.false_or, List.all_eq_true, decide_eq_true_eq] at h
  exact h b hb

def demoDepth : Node → Nat := fun n => if n = 0 then 0 else if n = 3 then 2 else 1

def demoHold : List Choice :=
  [.run 0 [] 0, .run 1 [0, 2, 1, 3] 0, .run 2 [] 0, .gate 0 0 1, .run 2 [] 0, .run 1 [] 0, .run 4 [] 0, .run 3 [] 0,
   .run 0 [] 0]

example : ∃ s, liveRun demoDiamond init demoHold = some s ∧ idle s ∧ (s.res 1).isNone ∧ (s.res 2).isNone ∧
    s.proc 1 = true ∧ s.proc 2 = true := by
  have h : (liveRun demoDiamond init demoHold).isSome = true := by decide +kernel
  obtain ⟨s, hs⟩ := Option.isSome_iff_exists.mp h
  have hl := live_of_liveRun demoHold init s .init hs
  have fact : ∀ (f : St → Bool), ((liveRun demoDiamond init demoHold).map f) = some true → f s = true := by
    intro f hf; rw [hs] at hf; simpa using hf
  have ho : s.outcome = none := by
    have := fact (fun s => s.outcome.isNone) (by decide +kernel); simpa using this
  have hidle : idle s := idle_of_all (fact (fun s => s.tasks.all (fun tk => !isRunnable tk)) (by decide +kernel))
  have hord : LaunchByDepth demoDag demoDepth s :=
    launchByDepth_of_b (fact (launchByDepthB demoDag demoDepth) (by decide +kernel))
  have h0 : (s.res 0).isSome = true := fact (fun s => (s.res 0).isSome) (by decide +kernel)
  have hdepth : ∀ n ∈ demoDag.nodes, ∀ p ∈ demoDiamond.g.preds n, demoDepth p < demoDepth n := by decide
  have hlow : ∀ m ∈ demoDag.nodes, demoDepth m < 1 → (s.res m).isSome = true := by
    intro m hm hd
    have : m = 0 := by
      simp only [demoDag, List.mem_cons, List.not_mem_nil, or_false] at hm
      rcases hm with rfl | rfl | rfl | rfl <;> simp [demoDepth] at hd ⊢
    subst this; exact h0
  have h12 := C06_plain_siblings_together demoDiamond demoDag demoDiamond_plain s hl ho hidle demoDepth hdepth hord
    1 2 (by decide) (by decide) rfl hlow
  exact ⟨s, hs, hidle, fact (fun s => (s.res 1).isNone) (by decide +kernel),
    fact (fun s => (s.res 2).isNone) (by decide +kernel), h12⟩

end MLPE.Eng

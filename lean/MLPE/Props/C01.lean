import MLPE.Proofs.Safe
import MLPE.Proofs.PlainDemo
import MLPE.Proofs.PlainSol

/-!
# C01 — the run outcome equals the dataflow semantics and is schedule-independent

**Plain pipelines (`PlainP`)**, any size and shape, arbitrary retry / default / mode settings, failures at any node
and attempt, `None` / falsy values; every interleaving of task sections, completion order of bodies and retry
timers, valid launch order, cancellation point.

The dataflow reading of the pipeline is a *solution* `val : Node → Option Val` of its equations (`Solution`):
a node has a value iff all its sources have one and the retry / default policy (`Retry.run`, the subject of C12)
applied to its body on exactly those values, under the declared parameter names, yields one.  Then, for every
execution of the engine model:

* `C01_plain_value`: if `chart.run` returns a value, it is `val output`;
* `C01_plain_error` / `C01_plain_raised`: if it returns an error result / lets a BaseException through, the
  exception is the policy's failure of a node of the pipeline all of whose sources had values (a root cause, not
  an engine artefact), wrapped iff it is an `Exception`;
* `C01_plain_cancelled_only_on_request`: `CancelledError` comes out only if the caller was cancelled;
* `C01_plain_values_agree`, `C01_plain_value_excludes_failure`: two executions of the same pipeline — whatever
  their schedules — cannot return different values, nor one a value and the other an error (with collaborators that do not raise, the fact
  of failure is schedule-independent; *which* root cause is reported when several nodes fail independently is not, and
  the theorem says it is always one of them);
* `solution_exists`: the equations have a solution for every acyclic pipeline, so the statements are not vacuous;
* in every state of a pending run — before the finishing phase (`Fin`: the outcome is decided, the caller is suspended
  in `on_pipeline_complete`) — every stored result is the solution's value (`C01_plain_results_agree`) — this is
  also what C03 (arguments are the sources' values) and C05 rest on.

Switch / one-of / recurrent shapes: the reference evaluator `Sem` is compared with the real runs and with the
model by the monitors on every explored trace inside the fragments of DESIGN.md §6; no theorem (partial).
-/
namespace MLPE.Eng
open MLPE

/-- the step that ends a pending plain run produces an outcome explained by the solution -/
theorem C01_plain_outcome (P : Program) (d : DagRef) (val : Node → Option Val) (hp : PlainP P d) (s : St)
    (h : Live P s) (hpending : s.outcome = none) (c : Choice) (hor : OracleOK P s c) (s' : St) (obs : List Obs)
    (hs : step P s c = some (s', obs)) (o : Outcome) (ho : s'.outcome = some o) : OutcomeOK P d val s o :=
  outcome_live hp h hpending c hor (s', obs) hs o ho

/-- **C01 (plain): a returned value is the dataflow value of the output node** -/
theorem C01_plain_value (P : Program) (d : DagRef) (val : Node → Option Val) (hp : PlainP P d)
    (hsol : Solution P d val) (s : St) (h : Live P s) (hpending : s.outcome = none) (c : Choice)
    (hor : OracleOK P s c) (s' : St) (obs : List Obs) (hs : step P s c = some (s', obs)) (v : Val)
    (ho : s'.outcome = some (.value v)) : val P.g.output = some v :=
  C01_plain_outcome P d val hp s h hpending c hor s' obs hs _ ho hsol

/-- **C01 / C05 (plain): a reported error is the failure of a node of the pipeline** under the retry / default
policy, on the dataflow values of its sources — or the exception a collaborator (event manager, artifact store) raised -/
theorem C01_plain_error (P : Program) (d : DagRef) (val : Node → Option Val) (hp : PlainP P d)
    (hsol : Solution P d val) (s : St) (h : Live P s) (hpending : s.outcome = none) (c : Choice)
    (hor : OracleOK P s c) (s' : St) (obs : List Obs) (hs : step P s c = some (s', obs)) (e : Exc)
    (ho : s'.outcome = some (.error e)) : e.isException = true ∧ FailCause P d val e := by
  have := C01_plain_outcome P d val hp s h hpending c hor s' obs hs _ ho
  exact ⟨this.1, this.2 hsol⟩

/-- an exception that leaves `chart.run`: a collaborator's, or a node's `BaseException` outside `Exception` -/
theorem C01_plain_raised (P : Program) (d : DagRef) (val : Node → Option Val) (hp : PlainP P d)
    (hsol : Solution P d val) (s : St) (h : Live P s) (hpending : s.outcome = none) (c : Choice)
    (hor : OracleOK P s c) (s' : St) (obs : List Obs) (hs : step P s c = some (s', obs)) (e : Exc)
    (ho : s'.outcome = some (.raised e)) :
    CollabFails P e ∨ (e.isException = false ∧ FailCause P d val e) := by
  rcases C01_plain_outcome P d val hp s h hpending c hor s' obs hs _ ho with h1 | ⟨h1, h2⟩
  · exact Or.inl h1
  · exact Or.inr ⟨h1, h2 hsol⟩

theorem C01_plain_cancelled_only_on_request (P : Program) (d : DagRef) (hp : PlainP P d) (s : St)
    (h : Live P s) (hpending : s.outcome = none) (c : Choice) (hor : OracleOK P s c) (s' : St) (obs : List Obs)
    (hs : step P s c = some (s', obs)) (ho : s'.outcome = some .cancelled) :
    ∃ tk, s.tasks[0]? = some tk ∧ tk.mustCancel = true :=
  C01_plain_outcome P d (fun _ => none) hp s h hpending c hor s' obs hs _ ho

/-- every stored result of a pending run is the solution's value of its node -/
theorem C01_plain_results_agree (P : Program) (d : DagRef) (val : Node → Option Val) (hp : PlainP P d)
    (hsol : Solution P d val) (s : St) (h : Live P s) (hpending : s.outcome = none)
    (hrun : ∀ o, ¬ Fin P d val o s) (n : Node) (v : Val) (hr : s.res n = some v) : val n = some v := by
  rcases pinv_live (val := val) hp h hpending with hinv | ⟨o, hf⟩
  · rcases hinv.rest with ⟨_, h2⟩ | ⟨L, _, _, hnodes, hfresh⟩
    · rw [(h2 n).2] at hr; cases hr
    · exact agree_of_nodes hnodes hfresh n v hr hsol
  · exact absurd hf (hrun o)

/-- **schedule independence of the value**: two executions that both return a value return the same one -/
theorem C01_plain_values_agree (P : Program) (d : DagRef) (val : Node → Option Val) (hp : PlainP P d)
    (hsol : Solution P d val)
    (s₁ : St) (h₁ : Live P s₁) (hp₁ : s₁.outcome = none) (c₁ : Choice) (ho₁ : OracleOK P s₁ c₁) (s₁' : St)
    (obs₁ : List Obs) (hs₁ : step P s₁ c₁ = some (s₁', obs₁)) (v₁ : Val) (hv₁ : s₁'.outcome = some (.value v₁))
    (s₂ : St) (h₂ : Live P s₂) (hp₂ : s₂.outcome = none) (c₂ : Choice) (ho₂ : OracleOK P s₂ c₂) (s₂' : St)
    (obs₂ : List Obs) (hs₂ : step P s₂ c₂ = some (s₂', obs₂)) (v₂ : Val) (hv₂ : s₂'.outcome = some (.value v₂)) :
    v₁ = v₂ := by
  have a := C01_plain_value P d val hp hsol s₁ h₁ hp₁ c₁ ho₁ s₁' obs₁ hs₁ v₁ hv₁
  have b := C01_plain_value P d val hp hsol s₂ h₂ hp₂ c₂ ho₂ s₂' obs₂ hs₂ v₂ hv₂
  rw [a] at b; exact Option.some.inj b

/-- **the fact of failure is schedule-independent**: if some execution reports an error (or lets a BaseException
through), no execution of the same pipeline returns a value.  `ord` is any topological order of the DAG (acyclicity);
`FeedsOutput`: every node of the DAG feeds the output (that is how the DAG is cut out of the graph) -/
theorem C01_plain_value_excludes_failure (P : Program) (d : DagRef) (val : Node → Option Val) (hp : PlainP P d)
    (hsol : Solution P d val) (hnr : ∀ e, ¬ CollabFails P e) (ord : List Node) (ht : TopoOrd P d ord)
    (hfo : FeedsOutput P d)
    (s₁ : St) (h₁ : Live P s₁) (hp₁ : s₁.outcome = none) (c₁ : Choice) (ho₁ : OracleOK P s₁ c₁) (s₁' : St)
    (obs₁ : List Obs) (hs₁ : step P s₁ c₁ = some (s₁', obs₁)) (v₁ : Val) (hv₁ : s₁'.outcome = some (.value v₁))
    (s₂ : St) (h₂ : Live P s₂) (hp₂ : s₂.outcome = none) (c₂ : Choice) (ho₂ : OracleOK P s₂ c₂) (s₂' : St)
    (obs₂ : List Obs) (hs₂ : step P s₂ c₂ = some (s₂', obs₂)) (e : Exc)
    (he₂ : s₂'.outcome = some (.error e) ∨ s₂'.outcome = some (.raised e)) : False := by
  have a := C01_plain_value P d val hp hsol s₁ h₁ hp₁ c₁ ho₁ s₁' obs₁ hs₁ v₁ hv₁
  have hfail : ∃ n ∈ d.nodes, NodeFails P val n e := by
    rcases he₂ with he | he
    · rcases (C01_plain_error P d val hp hsol s₂ h₂ hp₂ c₂ ho₂ s₂' obs₂ hs₂ e he).2 with h1 | h1
      · exact h1
      · exact absurd h1 (hnr e)
    · rcases C01_plain_raised P d val hp hsol s₂ h₂ hp₂ c₂ ho₂ s₂' obs₂ hs₂ e he with h1 | ⟨_, h1 | h1⟩
      · exact absurd h1 (hnr e)
      · exact h1
      · exact absurd h1 (hnr e)
  obtain ⟨n, hn, hnf⟩ := hfail
  have := val_none_propagates hsol ht hfo hp.outIn _ n hn (Nat.le_refl _) (hnf.val_none hsol hn)
  rw [a] at this; cases this

/-- the dataflow equations always have a solution (for the launch order of any execution that got past the start
of `_run_dag`, or any other topological order) -/
theorem C01_solution_exists (P : Program) (d : DagRef) (ord : List Node) (ht : TopoOrd P d ord) :
    ∃ val, Solution P d val := solution_exists P d ord ht

/-! ### Non-vacuity: the diamond whose node 1 fails its first attempt and succeeds on the retry -/

def demoVal : Node → Option Val := fun n => if n ≤ 3 then some (.int n) else none

theorem demoVal_solution : Solution demoDiamond demoDag demoVal := ⟨by decide⟩

/-- a complete execution of the diamond (schedule with the retry timer) ends with the value the solution gives -/
def demoFull : List Choice :=
  [.run 0 [] 0, .run 1 [0, 2, 1, 3] 0, .run 2 [] 0, .gate 0 0 1, .run 2 [] 0, .run 1 [] 0, .run 4 [] 0, .run 3 [] 0,
   .gate 1 0 1, .run 4 [] 0, .gate 2 0 1, .run 3 [] 0, .run 0 [] 0, .timer 4, .run 4 [] 0, .gate 1 0 2, .run 4 [] 0,
   .run 1 [] 0, .run 5 [] 0, .gate 3 0 1, .run 5 [] 0, .run 1 [] 0]

/-- the theorem applied to a complete run: the value returned is, by `C01_plain_value`, the solution's -/
example : ∃ s', liveRun demoDiamond init (demoFull ++ [.run 0 [] 0]) = some s' ∧
    s'.outcome = some (.value (.int 3)) ∧ demoVal demoDiamond.g.output = some (.int 3) := by
  have h : (liveRun demoDiamond init (demoFull ++ [.run 0 [] 0])).isSome = true := by decide +kernel
  obtain ⟨s', hs'⟩ := Option.isSome_iff_exists.mp h
  obtain ⟨s, obs, hl, ho, hor, hstep⟩ := liveRun_snoc demoFull (.run 0 [] 0) init s' .init hs'
  have hval : ∃ v, s'.outcome = some (.value v) := by
    have : ((liveRun demoDiamond init (demoFull ++ [.run 0 [] 0])).map
        (fun r => match r.outcome with | some (.value _) => true | _ => false)) = some true := by decide +kernel
    rw [hs'] at this
    simp only [Option.map_some, Option.some.injEq] at this
    cases hh : s'.outcome with
    | none => simp [hh] at this
    | some o => cases o <;> simp [hh] at this; exact ⟨_, rfl⟩
  obtain ⟨v, hv⟩ := hval
  have hv3 := C01_plain_value demoDiamond demoDag demoVal demoDiamond_plain demoVal_solution s hl ho (.run 0 [] 0)
    hor s' obs hstep v hv
  have : demoVal demoDiamond.g.output = some (.int 3) := by decide
  rw [this] at hv3
  cases hv3
  exact ⟨s', hs', hv, this⟩

/-! ### Pipelines with switches (no one-of, no recurrent subgraph): safety under every schedule

`Proofs/Safe.lean` proves an invariant of every reachable state of such a program — stored results, recorded switch
decisions, body arguments, the outcome — relative to a solution `val` of the dataflow equations with switches
(`SolutionSw`).  It is partial correctness: it does not say that the run ends (for plain pipelines `C02` does). -/

/-- a switch pipeline that returns a value returns the dataflow value of its output node, under every schedule -/
theorem C01_switch_value (P : Program) (val : Node → Option Val) (hsw : SwP P) (hsol : SolutionSw P val)
    (s : St) (h : Reach P s) (v : Val) (ho : s.outcome = some (.value v)) : val P.g.output = some v :=
  outcome_value_sw hsw ((safe_reach_sw hsw hsol h).data.out (.value v) ho)

/-- whatever the schedules, two runs of a switch pipeline that return values return the same value -/
theorem C01_switch_values_agree (P : Program) (val : Node → Option Val) (hsw : SwP P) (hsol : SolutionSw P val)
    (s₁ s₂ : St) (h₁ : Reach P s₁) (h₂ : Reach P s₂) (v₁ v₂ : Val) (ho₁ : s₁.outcome = some (.value v₁))
    (ho₂ : s₂.outcome = some (.value v₂)) : v₁ = v₂ := by
  have a := C01_switch_value P val hsw hsol s₁ h₁ v₁ ho₁
  have b := C01_switch_value P val hsw hsol s₂ h₂ v₂ ho₂
  rw [a] at b; exact Option.some.inj b

/-- a switch pipeline never returns a value when its output has none in the dataflow semantics (a required node failed,
or a decision named no case): a failure is never masked -/
theorem C01_switch_value_excludes_failure (P : Program) (val : Node → Option Val) (hsw : SwP P)
    (hsol : SolutionSw P val) (s : St) (h : Reach P s) (hnone : val P.g.output = none) (v : Val) :
    s.outcome ≠ some (.value v) := by
  intro ho
  have := C01_switch_value P val hsw hsol s h v ho
  rw [hnone] at this; cases this

/-- the stored results of two runs of a switch pipeline agree node by node -/
theorem C01_switch_results_agree (P : Program) (val : Node → Option Val) (hsw : SwP P) (hsol : SolutionSw P val)
    (s₁ s₂ : St) (h₁ : Reach P s₁) (h₂ : Reach P s₂) (n : Node) (v₁ v₂ : Val) (hr₁ : s₁.res n = some v₁)
    (hr₂ : s₂.res n = some v₂) : v₁ = v₂ := by
  have a := (safe_reach_sw hsw hsol h₁).data.agree n v₁ hr₁ ((safe_reach_sw hsw hsol h₁).data.noExc hsw.noHeads n v₁ hr₁)
  have b := (safe_reach_sw hsw hsol h₂).data.agree n v₂ hr₂ ((safe_reach_sw hsw hsol h₂).data.noExc hsw.noHeads n v₂ hr₂)
  rw [a] at b; exact Option.some.inj b

/-! ### Pipelines with switches and one-ofs (no recurrent subgraph): safety under every schedule -/

/-- a pipeline with switches and one-ofs that returns a value (not an exception object) returns the dataflow value of its
output node — a one-of contributing the value of its first successful candidate — under every schedule -/
theorem C01_oneof_value (P : Program) (val : Node → Option Val) (hone : OneP P) (hsol : SolutionOne P val)
    (s : St) (h : Reach P s) (v : Val) (ho : s.outcome = some (.value v)) (hne : v.isExc = false) :
    val P.g.output = some v :=
  ((safe_reach hone hsol h).data.out (.value v) ho).1 hne

/-- whatever the schedules, two runs that return values return the same value -/
theorem C01_oneof_values_agree (P : Program) (val : Node → Option Val) (hone : OneP P) (hsol : SolutionOne P val)
    (s₁ s₂ : St) (h₁ : Reach P s₁) (h₂ : Reach P s₂) (v₁ v₂ : Val) (ho₁ : s₁.outcome = some (.value v₁))
    (ho₂ : s₂.outcome = some (.value v₂)) (hne₁ : v₁.isExc = false) (hne₂ : v₂.isExc = false) : v₁ = v₂ := by
  have a := C01_oneof_value P val hone hsol s₁ h₁ v₁ ho₁ hne₁
  have b := C01_oneof_value P val hone hsol s₂ h₂ v₂ ho₂ hne₂
  rw [a] at b; exact Option.some.inj b

end MLPE.Eng

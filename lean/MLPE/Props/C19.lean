import MLPE.Proofs.Safe
import MLPE.Proofs.EngCore
import MLPE.Proofs.Ledger
import MLPE.Proofs.RecScope
import MLPE.Proofs.PlainDemo

/-!
# C19 — a configured artifact store receives each node's final value exactly once

General fact of the engine model (after fix c29fd0e): the only place where the model calls the artifact
store is `nodePost`, and it does so iff the current task executed the node itself and the result is a real
value — never a `Recurrent` marker, never a contained failure, never the re-read of a late duplicate
request — and the value it saves is the value it has just stored for the consumers.
Recurrent re-iterations still save every iteration's value of the inner nodes (listed finding, DESIGN §5).
-/
namespace MLPE.Eng
open MLPE

/-- the save observation of `nodePost`, if any, is `save n v` with the value just stored -/
theorem C19_saves_only_real_values_of_executed_nodes (c : Ctx) (s : St) (obs : List Obs) (d : DagRef) (n : Node)
    (below : List Frame) (v : Val) (executedHere : Bool) :
    nodePost c s obs d n below v executedHere =
      if executedHere && !v.isRecur && !v.isExc then
        cbCall c .save n (storeIf (recSpawn c.P s d n v) executedHere n v)
          ((if recSpawns c.P s n v then obs ++ [.spawn s.tasks.length (.recur n)] else obs) ++ [.save n v])
          (fun j => .node d n false (.cbSave j) :: below)
          (fun s obs => nodeFinish c s obs d n below) (fun e s obs => nodeCbRaise c s obs d n below e)
      else
        retTo c (nodeFinally c.P (storeIf (recSpawn c.P s d n v) executedHere n v) d n (!v.isRecur))
          (if recSpawns c.P s n v then obs ++ [.spawn s.tasks.length (.recur n)] else obs) below .none := by
  simp [nodePost]

/-- a task that merely waited for the node (late duplicate request) neither stores nor saves anything -/
theorem C19_duplicate_request_stores_nothing (s : St) (n : Node) (v : Val) : storeIf s false n v = s := rfl

theorem retTo_obs (c : Ctx) (s : St) (obs : List Obs) (below : List Frame) (v : Val) :
    (retTo c s obs below v).2 = obs ∨ (retTo c s obs below v).2 = obs ++ [.done c.t .ok] := by
  unfold retTo
  split
  · unfold endTask; split
    · left; rfl
    · right; rfl
  · split <;> (left; rfl)

/-- a `Recurrent` marker or a contained failure is never passed to the artifact store: `nodePost` adds no
`save` observation for such a result -/
theorem C19_no_marker_or_failure_saved (c : Ctx) (s : St) (obs : List Obs) (d : DagRef) (n : Node)
    (below : List Frame) (v : Val) (e : Bool) (hv : v.isRecur = true ∨ v.isExc = true) (m : Node) (w : Val)
    (h : Obs.save m w ∈ (nodePost c s obs d n below v e).2) : Obs.save m w ∈ obs := by
  have hcond : (e && !v.isRecur && !v.isExc) = false := by
    rcases hv with h1 | h1 <;> simp [h1]
  simp only [nodePost, hcond, Bool.false_eq_true, if_false] at h
  rcases retTo_obs c _ (if recSpawns c.P s n v = true then obs ++ [.spawn s.tasks.length (.recur n)] else obs) below .none
    with h2 | h2
  · rw [h2] at h
    split at h
    · simpa using h
    · exact h
  · rw [h2] at h
    split at h
    · simpa using h
    · simpa using h

/-- the value the consumers read is the value that was saved: both are `v` -/
theorem C19_saved_value_is_stored_value (s : St) (n : Node) (v : Val) : (storeIf s true n v).getHid n = v := by
  simp [storeIf, St.setRes, St.getHid]

/-! ### Pipelines with switches: what is saved, under every schedule -/

/-- **C19 (switch pipelines)**: every value handed to the artifact store is the final value of its node — the value
the dataflow semantics assigns to it, which is also the value every consumer receives (`C03_switch_body_arguments`) —
and is neither a `Recurrent` marker nor an exception object -/
theorem C19_switch_saved_value_is_final (P : Program) (val : Node → Option Val) (hsw : SwP P)
    (hsol : SolutionSw P val) (s : St) (log : List Obs) (h : Exec P s log) (n : Node) (v : Val)
    (hm : Obs.save n v ∈ log) : val n = some v ∧ v.isRecur = false ∧ v.isExc = false :=
  (safe_exec_sw hsw hsol h).2 _ hm

/-- two saves of one node — in one run or in two — carry the same value -/
theorem C19_switch_saves_agree (P : Program) (val : Node → Option Val) (hsw : SwP P) (hsol : SolutionSw P val)
    (s₁ s₂ : St) (log₁ log₂ : List Obs) (h₁ : Exec P s₁ log₁) (h₂ : Exec P s₂ log₂) (n : Node) (v₁ v₂ : Val)
    (hm₁ : Obs.save n v₁ ∈ log₁) (hm₂ : Obs.save n v₂ ∈ log₂) : v₁ = v₂ := by
  have a := (C19_switch_saved_value_is_final P val hsw hsol s₁ log₁ h₁ n v₁ hm₁).1
  have b := (C19_switch_saved_value_is_final P val hsw hsol s₂ log₂ h₂ n v₂ hm₂).1
  rw [a] at b; exact Option.some.inj b

/-- **C19 (switch / one-of pipelines)**: every value handed to the artifact store is the final value of its node, never an
exception object stored by a one-of scope and never a marker -/
theorem C19_oneof_saved_value_is_final (P : Program) (val : Node → Option Val) (hone : OneP P)
    (hsol : SolutionOne P val) (s : St) (log : List Obs) (h : Exec P s log) (n : Node) (v : Val)
    (hm : Obs.save n v ∈ log) : val n = some v ∧ v.isRecur = false ∧ v.isExc = false :=
  (safe_exec hone hsol h).2 _ hm


/-! ### Exactly once, over a whole run (all programs, all schedules) — `Proofs/Ledger.lean` -/

/-- number of `artifact_store.save(node_id = n, …)` calls in a log -/
def savesOf (n : Node) (log : List Obs) : Nat := cnt (evS n) log
/-- number of `on_node_complete(node_id = n, error = None)` in a log -/
def successesOf (n : Node) (log : List Obs) : Nat := cnt (evO n) log
/-- number of `on_node_start(node_id = n)` in a log -/
def startsOf (n : Node) (log : List Obs) : Nat := cnt (evN n) log

/-- **C19, every program, every schedule**: in every execution, each save of node `n` is paid for by an execution of `n`
of its own that reported success: saves ≤ successful completions ≤ starts = the storage's invocation counter.  No task
that merely waited for the node, no second scope that reaches it, no retry and no cancellation adds a save. -/
theorem C19_each_save_has_its_own_successful_execution (P : Program) (s : St) (log : List Obs) (h : Exec P s log)
    (n : Node) : savesOf n log ≤ successesOf n log ∧ successesOf n log ≤ startsOf n log ∧ startsOf n log = s.invCount n :=
  ledger h n

/-- with C04: at most one save per execution epoch of the node (one more than the number of times a restart of a
recurrent subgraph has invalidated it) -/
theorem C19_saves_bounded_by_invalidations (P : Program) (s : St) (log : List Obs) (h : Exec P s log) (n : Node) :
    savesOf n log ≤ s.hideCount n + 1 := by
  have a := ledger h n
  have b := (coreInv_reach h.reach n).1
  simp only [St.core] at b
  simp only [savesOf]
  omega

/-- **at most once**: a node that belongs to no recurrent subgraph is saved at most once in a run, whoever requests it,
however the requests interleave (launch orders admissible) -/
theorem C19_at_most_one_save_outside_recurrent_subgraphs (P : Program) (s : St) (log : List Obs) (h : Exec P s log)
    (n : Node) (hout : ¬ InRecScope P n) (hord : s.badOrd = false) : savesOf n log ≤ 1 := by
  have a := ledger h n
  have b : s.invCount n ≤ 1 := by
    have h0 : s.hideCount n = 0 := by
      cases hc : s.hideCount n with
      | zero => rfl
      | succ k =>
        rcases hidden_in_rec_scope h.reach n (by omega) with hb | hr
        · rw [hord] at hb; cases hb
        · exact absurd hr hout
    have := (coreInv_reach h.reach n).1
    simp only [St.core] at this
    omega
  simp only [savesOf]
  omega

/-- non-vacuity: the demo schedule of the diamond is an execution in which node 0 is saved — exactly once -/
example : (execLog demoDiamond init [] demoSchedule).map (fun r => (savesOf 0 r.2, startsOf 0 r.2, savesOf 3 r.2)) =
    some (1, 1, 0) := by decide +kernel

end MLPE.Eng

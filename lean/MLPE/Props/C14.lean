import MLPE.Proofs.Safe
import MLPE.Proofs.EngTasks
import MLPE.Proofs.Ledger

/-!
# C14 — lifecycle events form a well-formed history consistent with the run

General facts of the engine model (every program, every state; event managers may suspend inside any callback):
* the first thing `chart.run` does is `on_pipeline_start` (`C14_pipeline_start_first`); the last thing it does before
  returning is `on_pipeline_complete`, carrying the outcome it then returns (`C14_pipeline_complete_carries_result`);
  by C13 every later section of any task is a silent cancellation, so nothing follows it;
* a node execution starts with `on_node_start`, emitted in the very section that marks the node processed and
  before its first body call (`C14_node_start_first`);
* every attempt that raises an `Exception` is followed by exactly one `on_node_complete(error)`; the deciding attempt
  by `on_node_complete(None)` iff a value (body result or default) was produced (`C14_attempt_*`);
* the value is stored — and only thereby becomes visible to consumers and to `run()` — strictly after the
  successful `on_node_complete` has returned, even if the callback suspends (`C14_value_stored_after_complete`).
A `BaseException` outside `Exception` ends the node without `on_node_complete` (it is not the node's result).
A collaborator that *raises* (`cbRaise`): the exception is handed to the surrounding code (`C14_callback_raises`); inside a
node it ends the node's task after the `finally` notifications (`C14_node_callback_failure_ends_the_task`).
-/
namespace MLPE.Eng
open MLPE

theorem C14_pipeline_start_first (c : Ctx) (s : St) (obs : List Obs) :
    mgrStart c s obs =
      cbCall c .pstart 0 s (obs ++ [.pstart]) (fun j => [.mgrCbStart j]) (fun s obs => mgrBegin c s obs)
        (fun e s obs => mgrReturn c s obs (.raised e)) :=
  rfl

/-- `on_pipeline_complete(result)` is emitted with the outcome `o`, and what `chart.run` returns afterwards is `o` -/
theorem C14_pipeline_complete_carries_result (c : Ctx) (s : St) (obs : List Obs) (o : Outcome)
    (h : ∀ e, o ≠ .raised e) :
    mgrComplete c s obs o =
      cbCall c .pcomplete 0 s (obs ++ [.pcomplete o]) (fun j => [.mgrCbComplete j o])
        (fun s obs => mgrReturn c s obs o)
        (fun e s obs =>
          let twice := match o with | .value _ => e.isException | _ => false
          mgrReturn c s (if twice then obs ++ [.pcomplete (.error e)] else obs) (.raised e)) := by
  cases o <;> simp_all [mgrComplete]

theorem C14_return_reports_same_outcome (c : Ctx) (s : St) (obs : List Obs) (o : Outcome) :
    (mgrReturn c s obs o).1.outcome = some o := by
  simp [mgrReturn, St.setOutcome]

/-- a node execution begins with `on_node_start`, in the section that marks it processed -/
theorem C14_node_start_first (c : Ctx) (s : St) (obs : List Obs) (d : DagRef) (n : Node) (force : Bool)
    (below : List Frame) (h : s.procExists n = false) :
    nodeStart c s obs d n force below =
      cbCall c .nstart n (s.markProcessed n) (obs ++ [.nstart n])
        (fun j => .node d n force (.cbStart j (s.invCount n)) :: below)
        (fun s' obs => nodeBegin c s' obs d n force below (s.invCount n))
        (fun e s' obs => nodeCbRaise c s' obs d n below e) := by
  simp [nodeStart, h]

/-- an attempt whose exception is retried: exactly one `on_node_complete(error=e)`, then the sleep -/
theorem C14_attempt_retried (c : Ctx) (s : St) (obs : List Obs) (d : DagRef) (n : Node) (force : Bool)
    (below : List Frame) (k : Nat) (kw : Kwargs) (inv : Nat) (e : Exc)
    (hr : (c.P.cfg n).retryable e = true) (hk : (k == (c.P.cfg n).attemptsEff) = false) :
    nodeAfterBody c s obs d n force below k kw inv (.raise e) =
      cbCall c .ncomplete n s (obs ++ [.ncomplete n (some e)]) (fun j => .node d n force (.cbRetry j k kw inv) :: below)
        (fun s obs => nodeSleep c s obs d n force below k kw inv)
        (fun e' s obs => nodeCbRaiseInTry c s obs d n below e') := by
  simp [nodeAfterBody, hr, hk]

/-- a produced value: exactly one `on_node_complete(error=None)`, then — and only then — the value is stored -/
theorem C14_attempt_succeeded (c : Ctx) (s : St) (obs : List Obs) (d : DagRef) (n : Node) (below : List Frame) (v : Val) :
    nodeSuccess c s obs d n below v =
      cbCall c .ncomplete n s (obs ++ [.ncomplete n none]) (fun j => .node d n false (.cbOk j v) :: below)
        (fun s obs => nodePost c s obs d n below v) (fun e s obs => nodeCbRaiseInTry c s obs d n below e) := rfl

/-- a default value is a value: `get_default`, then `on_node_complete(None)` -/
theorem C14_default_reports_no_error (c : Ctx) (s : St) (obs : List Obs) (d : DagRef) (n : Node) (below : List Frame)
    (kw : Kwargs) (h : c.P.dfltRaise n = none) :
    nodeDefault c s obs d n below kw = nodeSuccess c s (obs ++ [.dflt n kw]) d n below (c.P.dflt n kw) :=
  nodeDefault_of_none c s obs d n below kw h

/-- a `get_default` that raises is the node's failure: `get_default` once, then `on_node_complete(error=e)` with the
exception it raised -/
theorem C14_failing_default_reports_its_error (c : Ctx) (s : St) (obs : List Obs) (d : DagRef) (n : Node)
    (below : List Frame) (kw : Kwargs) (e : Exc) (h : c.P.dfltRaise n = some e) (he : e.isException = true) :
    nodeDefault c s obs d n below kw = nodeFail c s (obs ++ [.dflt n kw]) d n below e := by
  simp [nodeDefault, h, he]

/-- a final failure: exactly one `on_node_complete(error=e)` with the exception the node raised -/
theorem C14_attempt_failed (c : Ctx) (s : St) (obs : List Obs) (d : DagRef) (n : Node) (below : List Frame) (e : Exc) :
    nodeFail c s obs d n below e =
      cbCall c .ncomplete n s (obs ++ [.ncomplete n (some e)]) (fun j => .node d n false (.cbFail j e) :: below)
        (fun s obs => nodeFailCont c s obs d n below e) (fun e' s obs => nodeCbRaise c s obs d n below e') := rfl

/-- while a callback is suspended nothing of the storage changes: in particular the node's value is not yet
visible to consumers or to `run()` when `on_node_complete` has not returned -/
theorem C14_value_stored_after_complete (c : Ctx) (s : St) (obs : List Obs) (frames : Nat → List Frame) (j : Nat)
    (k : St → List Obs → Out) :
    (cbThen c s obs frames (j + 1) k).1.res = s.res ∧ (cbThen c s obs frames (j + 1) k).1.resHid = s.resHid ∧
    (cbThen c s obs frames (j + 1) k).2 = obs := by
  simp only [cbThen, yieldNow]
  split <;> simp [St.setTask]

/-- a collaborator that returns (does not raise) is the suspension behaviour above -/
theorem C14_callback_returns (c : Ctx) (cb : Cb) (n : Node) (s : St) (obs : List Obs) (frames : Nat → List Frame)
    (kOk : St → List Obs → Out) (kErr : Exc → St → List Obs → Out) (h : c.P.cbRaise cb n = none) :
    cbCall c cb n s obs frames kOk kErr = cbThen c s obs frames (c.P.cbYield cb n) kOk := by
  simp [cbCall, h]

/-- a collaborator that raises: the exception goes to the surrounding code at once; a node's task runs the `finally` of
`_run_node` (everybody who may be waiting is notified) and ends with that exception, so `run()` reports it -/
theorem C14_callback_raises (c : Ctx) (cb : Cb) (n : Node) (s : St) (obs : List Obs) (frames : Nat → List Frame)
    (kOk : St → List Obs → Out) (kErr : Exc → St → List Obs → Out) (e : Exc) (h : c.P.cbRaise cb n = some e) :
    cbCall c cb n s obs frames kOk kErr = kErr e s obs := by
  simp [cbCall, h]

theorem C14_node_callback_failure_ends_the_task (c : Ctx) (s : St) (obs : List Obs) (d : DagRef) (n : Node) (e : Exc) :
    nodeCbRaise c s obs d n [] e = endTask c (nodeFinally c.P s d n true) obs (.exc e) := by
  simp [nodeCbRaise, raiseOut, unwindFrames]

/-- and when the callback does not suspend, the continuation runs on exactly the state the event was emitted in -/
theorem C14_no_suspension_continues_at_once (c : Ctx) (s : St) (obs : List Obs) (frames : Nat → List Frame)
    (k : St → List Obs → Out) : cbThen c s obs frames 0 k = k s obs := rfl

/-! ### Pipelines with switches: what the event manager is told, under every schedule -/

/-- **C14 (switch pipelines)**: success is reported for a node only when the node has a value in the dataflow
semantics; an error reported for a node is an exception its body raised on the declared arguments, or a collaborator's;
the outcome reported by `on_pipeline_complete` is the output's value or an error with a cause -/
theorem C14_switch_reports_are_truthful (P : Program) (val : Node → Option Val) (hsw : SwP P)
    (hsol : SolutionSw P val) (s : St) (log : List Obs) (h : Exec P s log) :
    (∀ n, Obs.ncomplete n none ∈ log → (val n).isSome = true) ∧
    (∀ n e, Obs.ncomplete n (some e) ∈ log → (∃ k, P.body n (kwFrom P val n) 0 k = .raise e) ∨ CollabFails P e ∨
      (ErrCause P val e ∧ val n = none)) ∧
    (∀ v, Obs.pcomplete (.value v) ∈ log → val P.g.output = some v) ∧
    (∀ e, Obs.pcomplete (.error e) ∈ log → ErrCause P val e) := by
  have hall := (safe_exec_sw hsw hsol h).2
  exact ⟨fun n hm => hall _ hm, fun n e hm => hall _ hm, fun v hm => outcome_value_sw hsw (hall _ hm), fun e hm => hall _ hm⟩

/-- **C14 (switch / one-of pipelines)**: success is reported only for a node that has a value; a reported node error is
an exception the body raised on the declared arguments, a collaborator's, or the stored failure of a dependency of a node
that therefore has no value -/
theorem C14_oneof_reports_are_truthful (P : Program) (val : Node → Option Val) (hone : OneP P)
    (hsol : SolutionOne P val) (s : St) (log : List Obs) (h : Exec P s log) :
    (∀ n, Obs.ncomplete n none ∈ log → (val n).isSome = true) ∧
    (∀ n e, Obs.ncomplete n (some e) ∈ log → (∃ k, P.body n (kwFrom P val n) 0 k = .raise e) ∨ CollabFails P e ∨
      (ErrCause P val e ∧ val n = none)) ∧
    (∀ e, Obs.pcomplete (.error e) ∈ log → ErrCause P val e) := by
  have hall := (safe_exec hone hsol h).2
  exact ⟨fun n hm => hall _ hm, fun n e hm => hall _ hm, fun e hm => hall _ hm⟩


/-! ### Over a whole run (all programs, all schedules) — `Proofs/Ledger.lean` -/

/-- **C14, every program, every schedule**: in every execution, every successful `on_node_complete(n, error=None)` is
paid for by an `on_node_start(n)` of its own — a node execution reports success at most once, whatever the number of
attempts, suspensions inside callbacks, scopes that request the node or cancellations — and `on_node_start` is emitted
exactly as often as the storage counts invocations of the node -/
theorem C14_one_success_per_start (P : Program) (s : St) (log : List Obs) (h : Exec P s log) (n : Node) :
    cnt (evO n) log ≤ cnt (evN n) log ∧ cnt (evN n) log = s.invCount n :=
  (ledger h n).2

/-- … hence (C04) a node outside every recurrent subgraph has at most one `on_node_start` and at most one successful
`on_node_complete` per run -/
theorem C14_at_most_one_start_outside_recurrent_subgraphs (P : Program) (s : St) (log : List Obs) (h : Exec P s log)
    (n : Node) (hinv : s.invCount n ≤ 1) : cnt (evN n) log ≤ 1 ∧ cnt (evO n) log ≤ 1 := by
  have := ledger h n
  omega


/-- **`on_pipeline_start` exactly at the beginning** (all programs, all schedules): the observation log of every execution is
empty, or begins with `on_pipeline_start` — or, the caller having been cancelled before `chart.run` got its first turn, with
the return of `CancelledError` —, and `on_pipeline_start` occurs at most once in it -/
theorem C14_pipeline_start_first_and_once (P : Program) (s : St) (log : List Obs) (h : Exec P s log) :
    (log = [] ∨ log.head? = some .pstart ∨ log.head? = some (.returned .cancelled)) ∧ cnt evP log ≤ 1 := by
  refine ⟨?_, (ledger_pipeline h).1⟩
  rcases first_event h with ⟨h0, _⟩ | h1
  · exact Or.inl h0
  · exact Or.inr h1

/-- **`on_pipeline_complete` at most once** for an event manager that does not raise in it (all programs, all schedules) -/
theorem C14_pipeline_complete_at_most_once (P : Program) (s : St) (log : List Obs) (h : Exec P s log)
    (hnr : P.cbRaise .pcomplete 0 = none) : cnt evC log ≤ 1 :=
  (ledger_pipeline h).2 hnr

/-- non-vacuity / sharpness: an event manager that raises in `on_pipeline_complete` on the success path is called twice
(chart.run's own `except Exception` reports the failure) — the hypothesis of the previous theorem cannot be dropped -/
example : ∀ (c : Ctx) (s : St) (v : Val) (e : Exc), c.P.cbRaise .pcomplete 0 = some e → e.isException = true →
    cnt evC (mgrComplete c s [] (.value v)).2 = 2 := by
  intro c s v e h he
  simp [mgrComplete, cbCall, h, he, mgrReturn, endTask]
  split <;> simp [cnt, evC]

end MLPE.Eng

import MLPE.Props.C04

/-!
# C03 — a node starts only after its inputs are final and gets exactly their values

General facts of the engine model (every program, every state):
* the launch loop starts a node only in a section in which `ready` holds, i.e. every source (for a switch
  source: the selected case) has a stored, visible, non-`Recurrent` result (`C03_launch_only_when_ready`,
  `C03_ready_iff_sources_final`);
* the keyword arguments are exactly the stored results of the sources, one per declared parameter name
  (`C03_kwargs_are_stored_results`), and the input node gets the caller's `input_kwargs`
  (`C03_input_node_gets_callers_kwargs`).
That the stored results are the *final* values of the dataflow semantics (never rewritten in plain pipelines,
superseded only through `hide` in recurrent ones) is `C01`'s invariant; the shapes where the real engine
violates this (exception object through a switch inside a one-of candidate; `None` for a hidden result read
through a stale event) are outside the fragments and recorded as findings in DESIGN.md §5.
-/
namespace MLPE.Eng
open MLPE

/-- readiness = every (resolved) source has a stored, visible result that is not a `Recurrent` marker -/
theorem C03_ready_iff_sources_final (P : Program) (s : St) (d : DagRef) (n : Node) :
    ready P s d n = true ↔ ∀ p ∈ predsFor P s d n, s.exists p = true ∧ (s.get p).isRecur = false := by
  simp [ready, List.all_eq_true]

/-- the launch loop does not start `n` (nor anything after it in the order) while `n` is not ready: it blocks on
`cond[n]` and creates no task -/
theorem C03_launch_only_when_ready (c : Ctx) (d : DagRef) (below : List Frame) (s : St) (obs : List Obs)
    (n : Node) (rest : List Node) (h : ready c.P s d n = false) :
    dagLaunch c d below s obs (n :: rest) = block c s obs (.dagLaunch d (n :: rest) :: below) (.cond (.node n)) := by
  simp [dagLaunch, h]

/-- when `n` is ready (and its one-of scope has not failed) exactly one task is created for it, then the loop
goes on with the rest of the order -/
theorem C03_launch_when_ready (c : Ctx) (d : DagRef) (below : List Frame) (s : St) (obs : List Obs)
    (n : Node) (rest : List Node) (h : ready c.P s d n = true) (ho : (d.isOneof && hasError s d) = false) :
    dagLaunch c d below s obs (n :: rest) =
      dagLaunch c d below (spawn s [launchFrame c.P d n] (.node n)).1
        (obs ++ [.spawn s.tasks.length (.node n)]) rest := by
  simp [dagLaunch, h, ho, spawn]

/-- every keyword argument of a non-input node is the stored result of one of its sources -/
theorem C03_kwargs_are_stored_results (P : Program) (s : St) (n : Node) (kw : Kwargs)
    (h : nodeKwargs P s n = .ok kw) (hn : (n == P.g.input) = false) (k : String) (v : Val) (hk : (k, v) ∈ kw) :
    k = "additional_data" ∨ ∃ src, v = s.getHid src :=
  C04_consumers_read_stored_result P s n kw h hn k v hk

/-- the input node receives exactly the caller's `input_kwargs` (plus `additional_data` when it restarts a
recurrent subgraph) -/
theorem C03_input_node_gets_callers_kwargs (P : Program) (s : St) (h : s.additional P.g.input = none) :
    nodeKwargs P s P.g.input = .ok P.inputKw := by
  simp [nodeKwargs, kwBase, h]

/-! Non-vacuity: a two-node chain whose source has a stored result is ready; without it, it is not. -/
example :
    let P : Program := { g := ⟨[0, 1], [{ u := 0, v := 1, kwarg := some "a" }], fun _ => {}, 0, 1⟩, cfg := fun _ => {},
                         body := fun _ _ _ _ => .ret .none, dflt := fun _ _ => .none, inputKw := [] }
    let d : DagRef := { source := 0, dest := some 1, nodes := [0, 1] }
    ready P init d 1 = false ∧ ready P (init.setRes 0 (.str "x")) d 1 = true := by
  decide

end MLPE.Eng

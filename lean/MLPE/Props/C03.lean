import MLPE.Proofs.Safe
import MLPE.Props.C04
import MLPE.Proofs.PlainSol
import MLPE.Proofs.Budget
import MLPE.Proofs.PlainDemo

/-!
# C03 — a node starts only after its inputs are final and gets exactly their values

General facts of the engine model (every program, every state):
* the launch loop starts a node only in a section in which `ready` holds, i.e. every source (for a switch
  source: the selected case) has a stored, visible, non-`Recurrent` result (`C03_launch_only_when_ready`,
  `C03_ready_iff_sources_final`);
* the keyword arguments are exactly the stored results of the sources, one per declared parameter name
  (`C03_kwargs_are_stored_results`), and the input node gets the caller's `input_kwargs`
  (`C03_input_node_gets_callers_kwargs`).
**Plain pipelines, all schedules (theorems at the end of the file)**: whenever a node body is being / has been
invoked in a pending run, its arguments are exactly the dataflow values of its declared sources under the declared
names (`kwFrom`), all of which exist, and no argument is a failure object or a `Recurrent` marker
(`C03_plain_invocation_arguments`, `C03_plain_no_failure_objects`).  A consumer is never called with an exception
object stored by a one-of scope: it fails with that error instead (`C03_exception_value_fails_consumer`, all programs).
That the stored results are the *final* values of the dataflow semantics (never rewritten in plain pipelines,
superseded only through `hide` in recurrent ones) is `C01`'s invariant; the shapes where the real engine
violates this (exception object through a switch inside a one-of candidate; `None` for a hidden result read
through a stale event) are outside the fragments and recorded as findings in DESIGN.md §5.
-/
namespace MLPE.Eng
open MLPE

/-- readiness = every (resolved) source has a stored, visible result that is not a `Recurrent` marker -/
theorem C03_ready_iff_sources_final (P : Program) (s : St) (d : DagRef) (n : Node) :
    ready P s d n = true ↔ ∀ p ∈ predsFor P s d n, s.exists p = true ∧ (s.get p).isRecur = false := by
  simp [ready, List.all_eq_true]

/-- the launch loop does not start `n` (nor anything after it in the order) while `n` is not ready: it blocks on
`cond[n]` and creates no task -/
theorem C03_launch_only_when_ready (c : Ctx) (d : DagRef) (below : List Frame) (s : St) (obs : List Obs)
    (n : Node) (rest : List Node) (h : ready c.P s d n = false) :
    dagLaunch c d below s obs (n :: rest) = block c s obs (.dagLaunch d (n :: rest) :: below) (.cond (.node n)) := by
  simp [dagLaunch, h]

/-- when `n` is ready (and its one-of scope has not failed) exactly one task is created for it, then the loop
goes on with the rest of the order -/
theorem C03_launch_when_ready (c : Ctx) (d : DagRef) (below : List Frame) (s : St) (obs : List Obs)
    (n : Node) (rest : List Node) (h : ready c.P s d n = true) (ho : (d.isOneof && hasError s d) = false) :
    dagLaunch c d below s obs (n :: rest) =
      dagLaunch c d below (spawn s [launchFrame c.P d n] (.node n)).1
        (obs ++ [.spawn s.tasks.length (.node n)]) rest := by
  simp [dagLaunch, h, ho, spawn]

/-- every keyword argument of a non-input node is the stored result of one of its sources -/
theorem C03_kwargs_are_stored_results (P : Program) (s : St) (n : Node) (kw : Kwargs)
    (h : nodeKwargs P s n = .ok kw) (hn : (n == P.g.input) = false) (k : String) (v : Val) (hk : (k, v) ∈ kw) :
    k = "additional_data" ∨ ∃ src, v = s.getHid src :=
  C04_consumers_read_stored_result P s n kw h hn k v hk

/-- the input node receives exactly the caller's `input_kwargs` (plus `additional_data` when it restarts a
recurrent subgraph) -/
theorem C03_input_node_gets_callers_kwargs (P : Program) (s : St) (h : s.additional P.g.input = none) :
    nodeKwargs P s P.g.input = .ok P.inputKw := by
  simp [nodeKwargs, kwBase, h]

/-! Non-vacuity: a two-node chain whose source has a stored result is ready; without it, it is not. -/
example :
    let P : Program := { g := ⟨[0, 1], [{ u := 0, v := 1, kwarg := some "a" }], fun _ => {}, 0, 1, []⟩, cfg := fun _ => {},
                         body := fun _ _ _ _ => .ret .none, dflt := fun _ _ => .none, inputKw := [] }
    let d : DagRef := { source := 0, dest := some 1, nodes := [0, 1] }
    ready P init d 1 = false ∧ ready P (init.setRes 0 (.str "x")) d 1 = true := by
  decide

/-- a source whose stored result is an exception object (kept as a value inside a one-of scope) makes the consumer
fail with that exception: it is never passed on as an argument (all programs, all states) -/
theorem C03_exception_value_fails_consumer (kw : Kwargs) (k : String) (e : Exc) :
    kwPut kw k (.exc e) = .err e := rfl

theorem C03_no_exception_object_in_kwargs (kw kw' : Kwargs) (k : String) (v : Val) (h : kwPut kw k v = .ok kw') :
    v.isExc = false := by
  cases v <;> simp [kwPut] at h <;> rfl

/-- **C03 (plain pipelines, all schedules)**: in every state of a pending run, a node task that is executing its body
(attempt `k`, arguments `kw`; not finished, not cancelled) was given exactly the dataflow values of its sources, all of which exist; it is the
node's first and only invocation -/
theorem C03_plain_invocation_arguments (P : Program) (d : DagRef) (val : Node → Option Val) (hp : PlainP P d)
    (hsol : Solution P d val) (s : St) (h : Live P s) (hpending : s.outcome = none) (t : Nat) (tk : Task)
    (n : Node) (k : Nat) (kw : Kwargs) (inv : Nat) (ht : s.tasks[t]? = some tk)
    (hf : tk.frames = [.node d n false (.body k kw inv)]) (hname : tk.name = .node n)
    (hlive : tk.isDone = false ∧ tk.mustCancel = false) :
    kw = kwFrom P val n ∧ (∀ p ∈ P.g.preds n, (val p).isSome = true) ∧ inv = 0 ∧ 1 ≤ k ∧ k ≤ (P.cfg n).attemptsEff := by
  have hinv : PInv P d val s := by
    rcases pinv_live (val := val) hp h hpending with hinv | ⟨o, hfin⟩
    · exact hinv
    · -- finishing phase: every task but the caller's is finished or cancelled
      exfalso
      by_cases ht0 : t = 0
      · subst ht0
        obtain ⟨j, mc, hc0⟩ := hfin.caller
        rw [hc0] at ht; cases ht; simp at hf
      · have := (hfin.others t tk ht0 ht).1
        simp [Task.marked, hlive.1, hlive.2] at this
  obtain ⟨ctk, hc0, hcok⟩ := hinv.caller
  have key : ∀ (a : Att P val n k kw inv), kw = kwFrom P val n ∧ (∀ p ∈ P.g.preds n, (val p).isSome = true) ∧
      inv = 0 ∧ 1 ≤ k ∧ k ≤ (P.cfg n).attemptsEff := by
    intro a
    refine ⟨a.kw_eq, ?_, a.inv0, a.kpos, a.kle⟩
    have := a.preds
    rw [List.all_eq_true] at this
    exact this
  rcases hinv.rest with ⟨h1, _⟩ | ⟨L, hl, ⟨mtk, hm1, hmok⟩, hnodes, _⟩
  · have hlt := getElem?_lt ht
    have : t = 0 := by omega
    subst this; rw [hc0] at ht; cases ht
    cases hcok <;> simp at hf
  · by_cases ht0 : t = 0
    · subst ht0; rw [hc0] at ht; cases ht
      cases hcok <;> simp at hf
    · by_cases ht1 : t = 1
      · subst ht1; rw [hm1] at ht; cases ht
        cases hmok <;> simp at hf
      · have hlt := getElem?_lt ht
        obtain ⟨i, rfl⟩ : ∃ i, t = 2 + i := ⟨t - 2, by omega⟩
        obtain ⟨tk0, htk0, hok⟩ := hnodes i (by omega)
        rw [htk0] at ht; cases ht
        cases hok with
        | inBody k' kw' inv' _ _ h3 =>
          simp only [List.cons.injEq, Frame.node.injEq, NodePc.body.injEq, and_true, true_and,
            TaskName.node.injEq] at hf hname
          obtain ⟨_, hk, hkw, hi⟩ := hf
          subst hk hkw hi hname
          exact key (h3 hsol)
        | bodyDone k' kw' inv' _ _ h3 =>
          simp only [List.cons.injEq, Frame.node.injEq, NodePc.body.injEq, and_true, true_and,
            TaskName.node.injEq] at hf hname
          obtain ⟨_, hk, hkw, hi⟩ := hf
          subst hk hkw hi hname
          exact key (h3 hsol)
        | fresh => simp at hf
        | sleeping => simp at hf
        | slept => simp at hf
        | doneOk => simp at hf
        | doneExc => simp at hf
        | doneExcSaved => simp at hf
        | cbStart => simp at hf
        | cbRetry => simp at hf
        | cbOk => simp at hf
        | cbFail => simp at hf
        | cbSave => simp at hf

/-- no argument of a node of a plain pipeline is a failure object or a `Recurrent` marker -/
theorem C03_plain_no_failure_objects (P : Program) (d : DagRef) (val : Node → Option Val) (hp : PlainP P d)
    (s : St) (h : Live P s) (hpending : s.outcome = none) (hrun : ∀ o, ¬ Fin P d val o s) (n : Node) (v : Val)
    (hr : s.res n = some v) : v.isRecur = false ∧ v.isExc = false := by
  rcases pinv_live (val := val) hp h hpending with hinv | ⟨o, hf⟩
  · exact hinv.noRecRes n v hr
  · exact absurd hf (hrun o)

/-! ### Pipelines with switches: every body invocation, under every schedule (observation log) -/

/-- **C03 (switch pipelines)**: whenever a node body is observed being invoked in any execution, every source of the
node has a value in the dataflow semantics, the arguments are exactly those values under the declared names — for a
switch parameter the value of the selected case — and it is the node's first and only invocation -/
theorem C03_switch_body_arguments (P : Program) (val : Node → Option Val) (hsw : SwP P) (hsol : SolutionSw P val)
    (s : St) (log : List Obs) (h : Exec P s log) (n inv k : Nat) (kw : Kwargs) (hb : Obs.body n inv k kw ∈ log) :
    kw = kwFrom P val n ∧ (∀ p ∈ P.g.preds n, (val p).isSome = true) ∧ inv = 0 := by
  have a : Att P val n k kw inv := (safe_exec_sw hsw hsol h).2 _ hb
  refine ⟨a.kw_eq, ?_, a.inv0⟩
  have := a.preds
  rw [List.all_eq_true] at this
  exact this

/-- no stored result of a switch pipeline is a failure object or a `Recurrent` marker, and each is the final value of
its node -/
theorem C03_switch_results_final (P : Program) (val : Node → Option Val) (hsw : SwP P) (hsol : SolutionSw P val)
    (s : St) (h : Reach P s) (n : Node) (v : Val) (hr : s.res n = some v) :
    val n = some v ∧ v.isRecur = false ∧ v.isExc = false :=
  have hne := (safe_reach_sw hsw hsol h).data.noExc hsw.noHeads n v hr
  ⟨(safe_reach_sw hsw hsol h).data.agree n v hr hne, (safe_reach_sw hsw hsol h).data.vals n v hr, hne⟩

/-! ### Pipelines with switches and one-ofs: every body invocation, under every schedule -/

/-- **C03 (switch / one-of pipelines)**: every observed body call has exactly the dataflow values of its sources as
arguments (selected case for a switch, first successful candidate for a one-of), all sources have values — so no argument
is a failure stored by a one-of scope —, first invocation -/
theorem C03_oneof_body_arguments (P : Program) (val : Node → Option Val) (hone : OneP P) (hsol : SolutionOne P val)
    (s : St) (log : List Obs) (h : Exec P s log) (n inv k : Nat) (kw : Kwargs) (hb : Obs.body n inv k kw ∈ log) :
    kw = kwFrom P val n ∧ (∀ p ∈ P.g.preds n, (val p).isSome = true) ∧ inv = 0 := by
  have a : Att P val n k kw inv := (safe_exec hone hsol h).2 _ hb
  refine ⟨a.kw_eq, ?_, a.inv0⟩
  have := a.preds
  rw [List.all_eq_true] at this
  exact this


/-! ### The shape of the arguments, over a whole run (all programs, all schedules) — `Proofs/KwArgs.lean`, `Proofs/Budget.lean` -/

/-- **C03, every program, every schedule: exactly one keyword argument per declared parameter.**  Every body call any
execution ever makes of a node other than the input node — first attempt or retry, in any scope, after any restart — gets
an entry for every parameter declared for the node (the `kwarg` names of its incoming edges), no other key except
`additional_data`, no key twice, and never an exception object as the value of a declared parameter -/
theorem C03_every_body_call_gets_the_declared_parameters (P : Program) (s : St) (log : List Obs) (h : Exec P s log)
    (n : Node) (inv k : Nat) (kw : Kwargs) (hm : Obs.body n inv k kw ∈ log) (hn : (n == P.g.input) = false) :
    KwOK P n kw :=
  ((budget_exec h).2 _ hm).2.2 hn

/-- **the input node receives exactly the caller's `input_kwargs`** — plus `additional_data` when it is the start node of a
recurrent subgraph that has been restarted — in every body call of every execution -/
theorem C03_input_node_gets_the_callers_kwargs (P : Program) (s : St) (log : List Obs) (h : Exec P s log)
    (inv k : Nat) (kw : Kwargs) (hm : Obs.body P.g.input inv k kw ∈ log) :
    kw = P.inputKw ∨ ∃ v, kw = insertKw P.inputKw "additional_data" v :=
  ((budget_exec h).2 _ hm).2.1 (by simp)

/-- `get_default` is called with arguments of the same shape (C12: with the arguments of the attempts) -/
theorem C03_default_gets_the_declared_parameters (P : Program) (s : St) (log : List Obs) (h : Exec P s log)
    (n : Node) (kw : Kwargs) (hm : Obs.dflt n kw ∈ log) (hn : (n == P.g.input) = false) : KwOK P n kw :=
  ((budget_exec h).2 _ hm).2.2 hn

/-- non-vacuity: in the demo run of the diamond node 1 (one declared parameter) is called with exactly that parameter -/
example : (execLog demoDiamond init [] demoSchedule).map (fun r =>
      r.2.filterMap (fun o => match o with | .body 1 _ _ kw => some (keysOf kw, declared demoDiamond 1) | _ => none)) =
    some [(["a"], ["a"])] := by decide +kernel

end MLPE.Eng

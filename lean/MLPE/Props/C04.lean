import MLPE.Proofs.EngC04

/-!
# C04 — each node executes at most once per run and iteration, whoever requests it

Statement about the engine model `MLPE.Eng` (all programs, all constructs, all interleavings of the
scopes that request a node, all completion orders, cancellation at any point).

`s.invCount n` counts the executions of node `n` in the run (it is incremented exactly where the
model marks the node processed and emits `on_node_start`; the lock-step check compares it with the
number of `on_node_start` events the real engine produced).  `s.hideCount n` counts how often
`hide_last_execution` hit `n`: that happens only at the start of a (re-)iteration of a recurrent
subgraph containing `n`, and once more for a destination that falls back to its default.
-/
namespace MLPE.Eng

/-- **C04**: in every reachable state, for every node: executions ≤ 1 + number of re-iterations that
invalidated it — however many consumers, switch branches, one-of candidates or sub-pipeline scopes
reached it and however their requests interleaved. -/
theorem C04_at_most_once_per_iteration (P : Program) (s : St) (h : Reach P s) (n : Node) :
    s.invCount n ≤ s.hideCount n + 1 :=
  (coreInv_reach h n).1

/-- a node that is currently not marked processed has not been executed since its last invalidation -/
theorem C04_unprocessed_not_executed_in_epoch (P : Program) (s : St) (h : Reach P s) (n : Node)
    (hp : s.procExists n = false) : s.invCount n ≤ s.hideCount n := by
  rcases (coreInv_reach h n).2 with h1 | h1
  · simp [St.procExists] at hp
    cases hq : s.proc n <;> cases hr : s.procHid n <;> simp_all [St.core]
  · exact h1

/-- the only section that executes a node is the one that finds it unprocessed and marks it, atomically:
a second request (`procExists = true`) takes the waiting path and executes nothing. -/
theorem C04_second_request_waits (c : Ctx) (s : St) (obs : List Obs) (d : DagRef) (n : Node) (force : Bool)
    (below : List Frame) (hp : s.procExists n = true) :
    (nodeStart c s obs d n force below).1.invCount = s.invCount := by
  have h := congrArg Core.invCount
    (show (nodeStart c s obs d n force below).1.core = s.core by
      unfold nodeStart; simp only [hp, if_true]; split <;> simp)
  simpa [St.core] using h

theorem mem_insertKw {kw : Kwargs} {k : String} {v : Val} {a : String} {b : Val}
    (h : (a, b) ∈ insertKw kw k v) : (a, b) = (k, v) ∨ (a, b) ∈ kw := by
  simp only [insertKw, List.partition_eq_filter_filter, List.mem_append, List.mem_filter, List.mem_singleton] at h
  rcases h with (h | h) | h
  · exact Or.inr h.1.1
  · exact Or.inl h
  · exact Or.inr h.1.1

/-- every consumer reads the single stored result: the keyword arguments of a node other than the input node
are the stored results of its sources (for a switch: of the selected case), plus `additional_data` -/
theorem kwPut_ok {kw kw1 : Kwargs} {k : String} {v : Val} (h : kwPut kw k v = .ok kw1) : kw1 = insertKw kw k v := by
  unfold kwPut at h
  split at h
  · cases h
  · cases h; rfl

theorem kwPut_exc {kw kw1 : Kwargs} {k : String} {v : Val} (hv : v.isExc = true) : kwPut kw k v ≠ .ok kw1 := by
  cases v <;> simp [Val.isExc] at hv
  simp [kwPut]

theorem kwStep_values (P : Program) (s : St) (acc : KwRes) (e : Edge)
    (hacc : ∀ kw0, acc = .ok kw0 → ∀ a b, (a, b) ∈ kw0 → ∃ src, b = s.getHid src) :
    ∀ kw1, kwStep P s acc e = .ok kw1 → ∀ a b, (a, b) ∈ kw1 → ∃ src, b = s.getHid src := by
  intro kw1 h1 a b hab
  unfold kwStep at h1
  cases acc with
  | err x => simp at h1
  | ok kwa =>
    cases hek : e.kwarg with
    | none => simp [hek] at h1; subst h1; exact hacc _ rfl a b hab
    | some kk =>
      simp only [hek] at h1
      split at h1
      · split at h1
        · next hie => exact absurd h1 (kwPut_exc hie)
        · split at h1
          · next l c hsw =>
            have := kwPut_ok h1; subst this
            rcases mem_insertKw hab with h2 | h2
            · exact ⟨c, by cases h2; rfl⟩
            · exact hacc _ rfl a b h2
          · simp at h1
      · have := kwPut_ok h1; subst this
        rcases mem_insertKw hab with h2 | h2
        · exact ⟨e.u, by cases h2; rfl⟩
        · exact hacc _ rfl a b h2

theorem C04_consumers_read_stored_result (P : Program) (s : St) (n : Node) (kw : Kwargs)
    (h : nodeKwargs P s n = .ok kw) (hn : (n == P.g.input) = false) (k : String) (v : Val) (hk : (k, v) ∈ kw) :
    k = "additional_data" ∨ ∃ src, v = s.getHid src := by
  have key : ∀ (es : List Edge) (acc : KwRes),
      (∀ kw0, acc = .ok kw0 → ∀ a b, (a, b) ∈ kw0 → ∃ src, b = s.getHid src) →
      ∀ kw1, es.foldl (kwStep P s) acc = .ok kw1 → ∀ a b, (a, b) ∈ kw1 → ∃ src, b = s.getHid src := by
    intro es
    induction es with
    | nil => intro acc hacc kw1 h1; simp only [List.foldl] at h1; exact hacc kw1 h1
    | cons e es ih =>
      intro acc hacc kw1 h1
      simp only [List.foldl] at h1
      exact ih _ (kwStep_values P s acc e hacc) kw1 h1
  have hbase : ∀ kw0, kwBase P s n = .ok kw0 → ∀ a b, (a, b) ∈ kw0 → ∃ src, b = s.getHid src := by
    intro kw0 h0
    simp only [kwBase, hn, Bool.false_eq_true, if_false] at h0
    exact key _ _ (by intro kw0 h0; simp at h0; subst h0; intro a b hab; simp at hab) kw0 h0
  unfold nodeKwargs at h
  split at h
  · next kw0 v0 hb ha =>
    split at h
    · simp at h; subst h; exact Or.inr (hbase kw0 hb k v hk)
    · simp at h; subst h
      rcases mem_insertKw hk with h2 | h2
      · left; cases h2; rfl
      · exact Or.inr (hbase kw0 hb k v h2)
  · exact Or.inr (hbase kw h k v hk)

/-! Non-vacuity: the initial state is reachable and satisfies the invariant with equality possible after
one execution (see the lock-step corpus for reachable states with `invCount = hideCount + 1`). -/
example : Reach { g := ⟨[0], [], fun _ => {}, 0, 0, []⟩, cfg := fun _ => {}, body := fun _ _ _ _ => .ret .none,
                  dflt := fun _ _ => .none, inputKw := [] } init :=
  .init

end MLPE.Eng
